import json,glob,sys,collections
def rot(x,k):
    return [[row[(j+k)%len(row)] for j in range(len(row))] for row in x]
def mul(u,v,T):
    a=u[0]*v[0]-u[1]*v[1]; b=u[0]*v[1]+u[1]*v[0]
    return [a%T,b%T] if T else [a,b]
def matvec(diags,x,T):
    out=[[[0,0] for _ in row] for row in x]
    for d in diags:
        xr=rot(x,d['k'])
        for r in range(len(x)):
            for j in range(len(x[r])):
                p=mul(d['v'][r][j],xr[r][j],T)
                out[r][j]=[(out[r][j][0]+p[0]),(out[r][j][1]+p[1])]
                if T: out[r][j]=[out[r][j][0]%T,out[r][j][1]%T]
    return out
c=collections.Counter(); ex={}
for f in glob.glob(sys.argv[1]+'/t*.ndjson'):
    for l in open(f):
        e=json.loads(l)
        bad=[]
        if e['err'] or e['panic']: bad.append('err:'+e['msg'][:70])
        else:
            x=e['x']
            for m in e['mats']: x=matvec(m['diags'],x,e['T'])
            if not e['cons']: bad.append('cons')
            elif x!=e['out']: bad.append('value')
            if not e['inok']: bad.append('inok')
            if not set(e['req'])<=set(e['adv']): bad.append('keys')
            seq=e['mode'] in('seq','seqnew')
            m1=e['mats'][0]['lvl']
            if seq:
                lv=min(e['lvlin'], e['lvlrecv'] if e['mode']=='seq' else m1)
                for m in e['mats']: lv=min(lv,m['lvl'])-1
            else:
                lv=min(e['lvlin'], e['lvlrecv'] if e['mode'] in('single','many') else m1, m1)
            if lv!=e['lvlout']: bad.append('lvl %d!=%d'%(e['lvlout'],lv))
            T=e['T']
            if T:
                a=e['scout']; 
                for q in e['qf']: a=a*q%T
                b=e['scin']
                for m in e['mats']: b=b*m['sc']%T
                if a%T!=b%T: bad.append('scale')
            else:
                exp=e['scin']+sum(m['sc'] for m in e['mats'])-sum(e['qf'])
                if abs(e['scout']-exp)>8: bad.append('scale %d'%(e['scout']-exp))
        k=(e['set'],e['mode'],tuple(bad))
        c[k]+=1; ex[k]=e
for k,v in sorted(c.items()):
    if k[2]: print(v,k,json.dumps(ex[k]['cfg'])[:300])
