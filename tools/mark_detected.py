#!/usr/bin/env python3
import json, sys
name, by = sys.argv[1], sys.argv[2]
p = '/verif/seeded/%s/meta.json' % name
m = json.load(open(p)); m['detected_by'] = by; json.dump(m, open(p, 'w'), indent=1)
