#!/bin/sh
# usage: trymut.sh <patch.diff> <prop> [tier]  -- applies a seeded change to /repo, runs the check, reverts.
P=$1; ID=$2; TIER=${3:-quick}
cd /repo || exit 3
git apply --check "$P" 2>/dev/null || { echo "PATCH DOES NOT APPLY: $P"; exit 3; }
git apply "$P"
cd /verif && ./vcheck $ID --tier $TIER > /tmp/trymut.out 2>&1; RC=$?
git -C /repo checkout -- .
echo "rc=$RC $(grep -c '^VIOLATION' /tmp/trymut.out) violations; $(grep -m1 '^VIOLATION' /tmp/trymut.out | cut -c1-300)"
tail -2 /tmp/trymut.out | cut -c1-300
find /verif/replays -name "$ID-*.json" -newer "$P" -delete 2>/dev/null
exit 0
