#!/bin/sh
# usage: trymut_iso.sh <patch.diff> <prop> [tier]
# Like trymut.sh, but without touching /repo or /verif: the change is applied in a scratch worktree and the check runs from
# a scratch copy of /verif whose references to /repo point at that worktree. Safe to run next to other checks.
P=$1; ID=$2; TIER=${3:-quick}
TAG=$(basename $(dirname $P))-$ID-$$
WT=/tmp/wt/iso-$TAG; VX=/tmp/vx-$TAG
git -C /repo worktree add -q --detach $WT HEAD || exit 3
(cd $WT && git apply --check "$P" 2>/dev/null && git apply "$P") || { echo "PATCH DOES NOT APPLY: $P"; git -C /repo worktree remove --force $WT; exit 3; }
mkdir -p $VX && rsync -a --exclude .work --exclude .git --exclude replays --exclude seeded /verif/ $VX/
mkdir -p $VX/replays
grep -rl '/repo' $VX/lib $VX/checks $VX/harness/go.mod $VX/vcheck 2>/dev/null | xargs sed -i "s#/repo#$WT#g"
(cd $VX && ./vcheck $ID --tier $TIER > /tmp/trymut-$TAG.out 2>&1); RC=$?
echo "rc=$RC $(grep -c '^VIOLATION' /tmp/trymut-$TAG.out) violations; $(grep -m1 '^VIOLATION' /tmp/trymut-$TAG.out | cut -c1-300)"
tail -1 /tmp/trymut-$TAG.out | cut -c1-300
git -C /repo worktree remove --force $WT
cp /tmp/trymut-$TAG.out /tmp/trymut-last.out; rm -rf $VX /tmp/trymut-$TAG.out
exit 0
