#!/usr/bin/env python3
"""Regenerates /verif/MANIFEST.json from the table below (single source of truth for what is claimed)."""
import json, os, subprocess
V = os.path.dirname(os.path.dirname(os.path.abspath(__file__)))

CHECKS = {
 "C01": dict(spec="RingOps / RingOpsMC / RingOpsTrace / BigNat", design="DESIGN.md §5 C01",
   technique="TLA+ spec RingOps (contract table + exact toy-ring semantics + BigNat certificates): TLC checks the spec's ring laws, then validates traces recorded from package ring",
   text="TLC model-checks the algebra of the specification (negacyclic product, monomials, automorphisms, evaluation homomorphism, conjugate-invariant embedding) on Z_17[X]/(X^8+1); every method of the 44-entry contract table, NTT/INTT (standard and conjugate-invariant, lazy and not), automorphisms in and out of the NTT domain, monomial products and Horner evaluation are executed on the real ring.Ring/SubRing with boundary patterns on toy rings (TLC computes the exact expectation and the documented output range) and at 6..61-bit primes (per-coefficient big-number certificates checked by TLC).",
   note="Trusted: TLC, the contract table transcribed from doc comments (spec/tables/ringops.json), math/big for witnesses' inputs (witnesses themselves are re-checked). Exhaustive only over patterns, not all values; real-size NTT checked through round trips and the product homomorphism against a math/big negacyclic product."),
 "C02": dict(spec="RnsScaling / RnsScalingMC / RnsScalingTrace / BigNat", design="DESIGN.md §5 C02",
   technique="TLA+ spec RnsScaling (integer meaning of rescaling, basis extension, mod-down): TLC sanity-checks the definitions exhaustively, then validates traces of package ring and rlwe.Evaluator.ModDown (toy chains: all values; real size: BigNat inequalities)",
   text="TLC exhausts the definitions on a toy chain (rounding is nearest, floor is floor, iterated division composes, exact answers are accepted); the real DivRound/DivFloor(ByLastModulus)[Many][NTT], ModUpQtoP/PtoQ, ModDownQPtoQ[NTT]/QPtoP, ExtendBasisSmallNormAndCenter and rlwe.Evaluator.ModDown run on toy chains for every value of [0,Q) / [0,QP), every (levelQ, levelP) and every number of rescalings (TLC computes the expectation), and on 25..61-bit chains at quotient boundaries (k*q+-3, k*q+q/2+-3, Q/2, Q/4), where TLC checks the defining inequalities on CRT-reconstructed integers.",
   note="Trusted: TLC, the RnsScaling specification, math/big CRT reconstruction in the harness (quotient witnesses are re-checked). Decomposer digits are covered functionally by C04."),
 "C03": dict(spec="RlweCore / RlweCoreGen / RlweCoreTrace", design="DESIGN.md §5 C03",
   technique="TLA+ spec RlweCore (error magnitudes of fresh ciphertexts, public keys, evaluation-key rows): TLC enumerates every admissible encryption configuration; the real Encryptor/Decryptor/KeyGenerator runs are validated by TLC against two-sided bounds",
   text="TLC enumerates every configuration (7 parameter sets incl. no-P, three P primes, unequal prime sizes, sparse secret with a wide error, conjugate-invariant ring) x {sk, pk} x {NewEncryptor, ShallowCopy, WithKey, WithPRNG} x every level x degree 0/1/2 target (pre-filled with unrelated data) x IsNTT x IsMontgomery; each is executed on the real rlwe.Encryptor and decrypted with the secret key (also into a reused plaintext of a higher level); TLC checks metadata, level, the infinity norm of the error against the bound implied by the declared distributions, a lower bound on its standard deviation, that two encryptions differ in both components, and that an independent key decrypts to something of the order of the modulus; the error of public keys and of every row of evaluation keys (RNS and base-2 digits, compressed and not) is bounded from both sides.",
   note="Trusted: TLC, the RlweCore bounds (worst case over the declared distributions), the harness' centred big-integer norm (ring.PolyToBigintCentered), the library's gadget-vector helper used to remove the message from evaluation-key rows. N is fixed to 2^10."),
 "C04": dict(spec="RlweCore / RlweCoreGen / RlweCoreTrace", design="DESIGN.md §5 C04",
   technique="TLA+ spec RlweCore (key-switch error as a function of the key's decomposition): TLC enumerates every admissible (LevelQ, LevelP, BaseTwoDecomposition, Compressed, ciphertext level, domain, operation); real rlwe.Evaluator runs validated by TLC",
   text="TLC enumerates every admissible evaluation-key parameterisation on 7 parameter sets (1..5 Q primes of 35..60 bits, 0..3 P primes) and every ciphertext level not above the key's, in and out of the NTT domain, for ApplyEvaluationKey, Relinearize (of a degree-2 encryption built by the harness), Automorphism, AutomorphismHoisted and AutomorphismHoistedLazy+ModDown (receiver at the maximum P level); the decrypted result must be the transformed plaintext with an error below the bound the spec derives from the number of digits, the digit size, N, sigma and P; compressed keys must expand identically directly and after serialisation, a second Expand must change nothing, and the expanded key must switch correctly.",
   note="Trusted: TLC, the RlweCore key-switch bound (16 standard deviations of the digit-times-error sum, checked against the worst case), the harness' plaintext-side automorphism (ring.Automorphism). Ring-degree switching, standard/conjugate-invariant swap and ring packing are not yet driven. Keys without P are only used with a base-2 decomposition."),
 "C05": dict(spec="IntEval / IntEvalGen / IntEvalTrace", design="DESIGN.md §5 C05",
   technique="TLA+ spec IntEval: TLC exhaustive + simulated program generation, replay on bgv.Evaluator, TLC trace validation of the recorded run",
   text="TLC checks the evaluator specification (value/scale/level/degree/error rules with the raw=m*scale refinement invariant DecodeExact) exhaustively on a small instance; every behaviour TLC generates (all depth-2/3 programs over small pools, thousands of simulated longer programs over all operand kinds, levels, scales, both modes, three key configurations) is executed on the real bgv.Evaluator and the recorded trace (decrypted raw slots, scale, level, degree, error/panic) must be a behaviour of the specification.",
   note="Trusted: TLC, the specification (transcribed from the doc comments of schemes/bgv/evaluator.go), lattigo's Decryptor/Encoder used as projection, math/big for the constants q_i mod t. Values are exact only over the model's 4-entry vectors, which the harness expands to all slots and re-checks per slot."),
 "C06": dict(spec="ApproxEval / ApproxEvalGen / ApproxEvalTrace", design="DESIGN.md §5 C06",
   technique="TLA+ spec ApproxEval (exact dyadic Gaussian messages, symbolic scales, levels, degrees, errors): TLC-generated programs replayed on ckks.Evaluator; TLC trace validation",
   text="TLC enumerates every single call from four preset register files (degree-2 products, rescaled and up-scaled operands, unequal scales and degrees, three key configurations) and simulates longer programs over all operand kinds (ciphertext, plaintext, seven scalar types, four vector types, short vectors), on sparse and full packing, the conjugate-invariant ring and a two-primes-per-rescale parameter set; the real evaluator's decoded values (12 bits absolute/relative), log-scale, level, degree and error outcomes must be a behaviour of the specification, which tracks scales symbolically (2^a / prod q_i^e_i).",
   note="Trusted: TLC, the ApproxEval specification (Appendix B.2 of DESIGN.md), lattigo Decryptor/Encoder as projection. Precision losses below 12 bits and mix-ups of same-size primes in the recorded scale are not visible. Additions with ambiguous scale ratios (between 2^-14 and 2^20) are outside the generated contract."),
 "C07": dict(spec="Encoding / EncodingGen / EncodingTrace", design="DESIGN.md §5 C07",
   technique="TLA+ spec Encoding (round-trip contracts of the integer and approximate encoders): TLC enumerates the message space Z_17^{<=2}; recorded encode/decode round trips validated by TLC",
   text="TLC enumerates every message vector of length <= 2 over Z_17 (and checks the contract accepts the exact answer); the real bgv encoder (five plaintext moduli, gap and no gap, boundary integer classes up to 2^64-1 and MinInt64, lengths 0..n, all levels, four unit scales, batched/coefficient, signed/unsigned, fresh/used encoder, products of encodings) and ckks encoder (all slot counts, three scales, 53- and 128-bit precision, four input and two output types, DecodePublic, both rings) are recorded and every output is checked by TLC against the contract.",
   note="Trusted: TLC, the Encoding specification, math/big residues of boundary integers, float64 conversion of dyadic test values. Tails of long vectors are compared by the harness. The single-slot conjugate-invariant case is a recorded known finding."),
 "C08": dict(spec="Stream / StreamGen / StreamTrace", design="DESIGN.md §5 C08",
   technique="TLA+ spec Stream (wire of segments, entry points, receiver prior state, chunking, faults): TLC exhausts the model and generates the scenarios; real (de)serialisation traces validated by TLC",
   text="TLC model-checks the stream model (composability, prefix consumption) and enumerates every scenario (object x write entry x read entry x prior receiver state x chunking; multi-object streams by simulation); each scenario and a fault sweep (truncation at every offset class, single-byte header corruption, writers failing at sampled offsets, JSON codecs) run on 29 serialisable type classes / 79 values of the real library, and the recorded sizes, counts, digests, consumed bytes, equality and error/panic/allocation outcomes must be a behaviour of the specification.",
   note="Trusted: TLC, the Stream specification, the harness' equality (re-encoding + Equal methods both ways), runtime.MemStats for allocation. Objects are built on LogN 4-6 parameters. bgv/ckks Parameters entry-point mismatch is a recorded known finding."),
 "C11": dict(spec="Galois / GaloisMC / GaloisTrace", design="DESIGN.md §5 C11",
   technique="TLA+ spec Galois (group of Galois elements, slot matrix actions, partial traces): TLC exhausts the group laws and the rotate-and-accumulate tree; traces of bgv/ckks rotations, sums and replications with exactly-advertised key sets validated by TLC",
   text="TLC checks composition, inverse, discrete log, periodicity and the order-two element for M in {16..128} and that the log(n)+HW(n) accumulation tree equals the plain sum of rotations for every n<=8; the real bgv (2x8 with gap, 2x16 full ring, no-P) and ckks (full, sparse 8/2/1 slots, conjugate-invariant, no-P) evaluators perform RotateColumns/Rotate (incl. k beyond the slot count, negative, 2^40, 2^62, MaxInt64), RotateRows/Conjugate, RotateHoisted, InnerSum, RotateAndAdd and Replicate for every (batch, n) with n*batch <= slots, each on an evaluator whose key set holds exactly the advertised Galois keys; TLC recomputes every output slot and checks requested keys are a subset of advertised ones.",
   note="Trusted: TLC, the Galois specification, the recording key set, math/big reduction of huge k. Trace() is not covered. On sets without P the keys use a base-two decomposition."),
 "C12": dict(spec="LinTrans / LinTransMC / LinTransGen / LinTransTrace (extends Galois)", design="DESIGN.md §5 C12",
   technique="TLA+ spec LinTrans (matrix given by diagonals, baby-step giant-step regrouping, rotation sets): TLC proves the regrouping equals the matrix-vector product for every diagonal set of small dimension, enumerates every 4-slot transformation, and validates recorded bgv/ckks lintrans evaluations",
   text="TLC checks that the baby-step giant-step regrouping equals the plain matrix-vector product for every set of diagonals over rows of 2, 4 (and 8, thorough) slots, every power-of-two N1 and the N1 chosen by the ratio rule, with rotations inside (0,h); TLC enumerates every set of diagonals with indices in (-4,4) x ratio x level x entry point, the harness adds seeded scenarios on 8- and 16-slot rows (Evaluate, EvaluateNew, EvaluateMany(New) with 2-3 matrices of different levels and ratios, EvaluateSequential(New)); each runs on the real bgv (t=17/97/193, one or two P primes at LevelP 0/1) and ckks (sparse, full, conjugate-invariant) evaluators with a key set holding exactly the advertised Galois elements and a receiver holding unrelated data; TLC recomputes the product from the recorded diagonals and input (exact mod t, exact Gaussian integers for ckks) and checks output level, scale, untouched input and requested-subset-of-advertised keys.",
   note="Trusted: TLC, the LinTrans/Galois specifications, lattigo's encoder/decryptor as projection. ckks outputs are compared after rounding (1/64). Permutation.GetDiagonals and parameter sets without P are not driven."),
 "C13": dict(spec="PolyEval / PolyEvalGen / PolyEvalTrace", design="DESIGN.md §5 C13",
   technique="TLA+ spec PolyEval (exact modular / dyadic-rational polynomial values, Chebyshev recurrence, level and scale accounting, admission rule): TLC enumerates every evaluation shape; recorded bgv/ckks polynomial evaluations validated by TLC",
   text="TLC enumerates every shape: degree 0..15 x monomial/Chebyshev basis x general/odd/even (parity flags set) x zeroed leading coefficient x single polynomial / two-polynomial vector with unmapped slots / precomputed power basis x input level (one below, exactly, one above the documented depth, maximum) x default / non-default target scale x standard / scale-invariant integer mode; each runs on the real bgv (t=97) and ckks (sparse, full, conjugate-invariant) polynomial evaluators with seeded coefficients; TLC recomputes p(x) per slot exactly (mod t; dyadic rationals for half-integer ckks inputs, tolerance 2^-10), zero on unmapped slots, output level = input - ceil(log2(deg+1)) (input level in invariant mode), output scale = target, refusal by error below the needed depth, and the documented Chebyshev change of basis.",
   note="Trusted: TLC, the PolyEval specification, lattigo encoder/decryptor as projection. Degree 0 is a recorded known finding (panic). Polynomial vectors are only run on fully packed ciphertexts (sparse packing is refused with an error by the coefficient getter). Composite circuits (sign, step, inverse, mod1) are not driven."),
 "C14": dict(spec="MPKeyGen / MPKeyGenGen / MPKeyGenTrace", design="DESIGN.md §5 C14",
   technique="TLA+ spec MPKeyGen (shares as member sets with tags, digest-functional aggregation): TLC enumerates all aggregation schedules; replay on the multiparty protocols; TLC trace validation",
   text="TLC enumerates every aggregation schedule for 3 and 4 parties (all merge orders, operand orders, in-place or fresh outputs, serialisation hops; 5-8 parties by simulation) and checks the share algebra; each schedule is replayed on the real public-key, evaluation-key, Galois-key and two-round relinearisation-key protocols for seven key parameterisations (incl. unequal prime sizes with base-2 digits, two P primes, no P); the trace must show digests that depend only on the member set, refusals of mismatched shares, and a finalised key that works under the ideal secret with bounded noise.",
   note="Trusted: TLC, the MPKeyGen specification, the bgv/rlwe single-party evaluator and decryptor used to exercise the key, sha256 digests of MarshalBinary. Noise bound is relative to a single-party key of the same ideal secret."),
 "C15": dict(spec="Threshold / ThresholdMC / ThresholdTrace", design="DESIGN.md §5 C15",
   technique="TLA+ spec Threshold (Shamir sharing and Lagrange recombination over Z_q): TLC exhausts the design on scalars; traces of multiparty.Thresholdizer/Combiner recomputed coefficient by coefficient by TLC",
   text="TLC checks Reconstruct and ListingIndependent for every N<=3, t<=N, injective point assignment, secrets/coefficients from pools and every active listing; the real Thresholdizer/Combiner run on toy fields (N=16, q in {97,193,12289}) for all 1<=t<=N<=4, all active subsets and up to 6 listing orders, every share, aggregated share and additive share being recomputed by TLC, plus real-size runs (points up to 2^64-1) checked for the reconstruction identity, listing independence and refusal of t-1 parties.",
   note="Trusted: TLC, the Threshold specification, uint64 reduction of the public points modulo q in the harness. Points are chosen distinct modulo every modulus."),
 "C17": dict(spec="Sampler / SamplerMC / SamplerContract / SamplerGen / SamplerTrace", design="DESIGN.md §5 C17",
   technique="TLA+ spec Sampler (keyed token stream, one buffer and pointer per sampler family shared by level views, rejection) model-checked by TLC; TLC-generated call sequences replayed on replicas of the real samplers; recorded digests, supports and counts validated by TLC against SamplerContract",
   text="TLC exhausts the buffer/pointer design (every interleaving of calls on level views, every rejection pattern of the early tokens, Reset; the mutant where a view copies buffer and pointer must violate NoReuse) and enumerates every call sequence of length 1-2 (3 thorough) over {Read, ReadNew, ReadAndAdd} x {base, AtLevel views kept or fresh, view of a view} plus simulated longer ones; each sequence runs on ~50 configurations (uniform, ringqp uniform, Gaussian sigma 0.5..1.5*2^70 incl. the big-number path and tight bounds, ternary p in {1/2,2/3,1/10,9/10}, every Hamming weight 1..18 on N=16 and up to >N, toy and 45-60-bit moduli, Montgomery or not) by replicas with the same key, the other Montgomery setting, after Reset, WithPRNG and another key; TLC validates per call support, cross-modulus consistency (CRT), exact weight, same-key equality, other-key inequality, freshness, and per configuration 2^15-2^16-sample count statistics (Hoeffding 2^-60); KeyedPRNG chunking/Reset/Key(), compressed key expansion and CRP sampling are validated as functions of the key.",
   note="Trusted: TLC, the SamplerContract inequalities, the probabilities computed from the mathematical definition of each distribution (python math.erf), math/big CRT/Montgomery inversion in the harness, sha256 digests. Statistical tests have low power against deviations below ~5% of a probability; unrelatedness of streams is reduced to inequality."),
 "C09": dict(spec="IntEval (frame) ...", design="DESIGN.md §5 C09",
   technique="TLA+ specs IntEval and ApproxEval with frame condition: TLC-generated programs with all aliasing patterns replayed on poisoned bgv/ckks evaluators, TLC trace validation",
   text="Same generated programs as C05 and C06 (bgv and ckks evaluators), with the frame condition switched on in the trace specification: after every call every register other than the designated output, and every non-ciphertext operand (*big.Int, slices, plaintexts) must be bit-for-bit unchanged; outputs aliased with op0/op1 and outputs that previously held a larger degree or level must produce the model's (alias-independent) value; all evaluator scratch buffers are filled with garbage before every call so residue dependence shows as a wrong value.",
   note="Trusted: as C05; bit-for-bit comparison uses MarshalBinary snapshots of the registers. In-place operations (DropLevel, MatchScalesAndLevel, accumulators) are exempt for their designated arguments only."),
}

NOT_APPLICABLE = {}

def main():
    props = [json.loads(l)["id"] for l in open(os.path.join(V, "properties.jsonl"))]
    hooks = subprocess.run(["git", "-C", "/repo", "log", "--format=%h %s"], stdout=subprocess.PIPE, text=True).stdout.splitlines()
    hook_commits = [l.split()[0] for l in hooks if l.split(" ", 1)[1].startswith("verif hook")]
    checks = []
    for pid in props:
        if pid not in CHECKS:
            continue
        c = CHECKS[pid]
        checks.append({
            "property_id": pid,
            "quick_cmd": "./vcheck %s --tier quick" % pid,
            "thorough_cmd": "./vcheck %s --tier thorough" % pid,
            "evidence_file": "/verif/evidence/%s.json" % pid,
            "replay_cmd_template": "./vcheck %s --replay {path}" % pid,
            "engine": "vcheck",
            "level_claimed": {"category": "model_checking", "text": c["text"], "design_ref": c["design"]},
            "level_note": c["note"],
            "technique": c["technique"],
        })
    na = []
    for pid in props:
        if pid not in CHECKS:
            na.append({"property_id": pid, "reason": NOT_APPLICABLE.get(pid, "check not built yet in this session (planned in DESIGN.md §5); not claimed")})
    m = {
        "version": 1,
        "setup_cmd": "cd /verif && ./setup.sh",
        "hooks": {
            "guard": "verif",
            "enable": "go build -tags verif (harness module /verif/harness with replace github.com/tuneinsight/lattigo/v6 => /repo)",
            "baseline_off_cmd": "cd /repo && GOFLAGS=-mod=mod GOPROXY=off GOSUMDB=off GOTOOLCHAIN=local go test -json -vet=off -count=1 -timeout 25m ./...",
            "source_commits": hook_commits,
            "add_only": True,
        },
        "engines": [{"name": "vcheck", "path": "/verif/vcheck", "serves_properties": [c["property_id"] for c in checks],
                     "kind_free_text": "python runner: TLC model checking of spec/*.tla; TLC-generated behaviours replayed on the real library by harness/cmd/vrun; ndjson traces recorded from the real code validated by TLC trace specifications"}],
        "checks": checks,
        "notes": "All checks: exit 0 held, 1 reproduced violation (VIOLATION line), 2 inconclusive (never a verdict). VERIF_SEED and VERIF_TIER are honoured. See DESIGN.md.",
        "not_applicable": na,
    }
    json.dump(m, open(os.path.join(V, "MANIFEST.json"), "w"), indent=1)
    print("MANIFEST.json: %d checks, %d not claimed" % (len(checks), len(na)))

if __name__ == "__main__":
    main()
