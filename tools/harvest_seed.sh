#!/bin/bash
# usage: harvest_seed.sh <agent-worktree-name> <seed-name> <prop> <pkg_dir_rel> "<needs>"
# Takes the uncommitted change and demo of a sub-agent's worktree /tmp/wt/<name>, removes the worktree, confirms the seed.
W=/tmp/wt/$1; NAME=$2; PROP=$3; PKG=$4; NEEDS=$5
mkdir -p /tmp/harvest/$NAME
git -C $W diff > /tmp/harvest/$NAME/patch.diff
cp $W/$PKG/zz_demo_test.go /tmp/harvest/$NAME/zz_demo_test.go || exit 3
git -C /repo worktree remove --force $W
/verif/tools/confirm_seed.sh $NAME /tmp/harvest/$NAME/patch.diff /tmp/harvest/$NAME/zz_demo_test.go $PKG $PROP "$NEEDS"
