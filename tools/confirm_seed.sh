#!/bin/bash
# usage: confirm_seed.sh <name> <patch> <demo_test_file> <pkg_dir_rel> <prop> "<needs>"
# Confirms a seeded change in a scratch worktree: (1) demo passes without the change, (2) demo fails with it,
# (3) the existing test suite passes with it. Then stores it under /verif/seeded/<name>/.
NAME=$1; PATCH=$2; DEMO=$3; PKG=$4; PROP=$5; NEEDS=$6
export GOFLAGS=-mod=mod GOPROXY=off GOSUMDB=off GOTOOLCHAIN=local
WT=/tmp/wt/confirm-$NAME
git -C /repo worktree add -q --detach $WT HEAD || exit 3
cd $WT
cp $DEMO $PKG/
DF=$(basename $DEMO)
go test -count=1 -run 'Demo|ZZ|zz' ./$PKG/ > /tmp/confirm-$NAME-clean.log 2>&1; RC_CLEAN=$?
git apply $PATCH || { echo "$NAME: patch does not apply"; cd /; git -C /repo worktree remove --force $WT; exit 3; }
go build ./... > /tmp/confirm-$NAME-build.log 2>&1; RC_BUILD=$?
go test -count=1 -run 'Demo|ZZ|zz' ./$PKG/ > /tmp/confirm-$NAME-mut.log 2>&1; RC_MUT=$?
rm -f $PKG/$DF
go test -count=1 ./... > /tmp/confirm-$NAME-suite.log 2>&1; RC_SUITE=$?
cd /
git -C /repo worktree remove --force $WT
echo "$NAME: demo_clean_rc=$RC_CLEAN build_rc=$RC_BUILD demo_mut_rc=$RC_MUT suite_with_change_rc=$RC_SUITE"
if [ $RC_CLEAN = 0 ] && [ $RC_BUILD = 0 ] && [ $RC_MUT != 0 ] && [ $RC_SUITE = 0 ]; then
  D=/verif/seeded/$NAME; mkdir -p $D
  cp $PATCH $D/patch.diff; cp $DEMO $D/
  python3 - "$NAME" "$PROP" "$PKG/$DF" "$NEEDS" <<'PY'
import json,sys,subprocess
name,prop,demo,needs=sys.argv[1:5]
head=subprocess.run(['git','-C','/repo','log','--format=%h','-1'],stdout=subprocess.PIPE,text=True).stdout.strip()
json.dump({"breaks":prop,"needs":needs,"demo_path":demo,"applies_to_repo_commit":head,
 "confirmed":{"demo passes on unchanged tree":True,"builds with change":True,"demo fails with change":True,"existing suite (go test ./...) passes with change":True},
 "ran":["git worktree add --detach <scratch> HEAD","go test -run Demo ./%s (clean: pass)"%demo.rsplit('/',1)[0],"git apply patch.diff","go build ./...","go test -run Demo (fails)","go test -count=1 ./... without the demo (passes)"],
 "detected_by":None},open('/verif/seeded/%s/meta.json'%name,'w'),indent=1)
PY
  echo "$NAME: CONFIRMED and stored"
else
  echo "$NAME: NOT confirmed"
fi
