#!/usr/bin/env python3
"""mkprompt.py <prop> <wtname>: create a scratch worktree /tmp/wt/<wtname> of /repo HEAD and write the seeding prompt
(property text only, plus one-line descriptions of changes already tried) to /tmp/wt/<wtname>.prompt.txt."""
import json, os, subprocess, sys, glob
prop, name = sys.argv[1], sys.argv[2]
P = [json.loads(l) for l in open('/verif/properties.jsonl')]
p = [x for x in P if x['id'] == prop][0]
os.makedirs('/tmp/wt', exist_ok=True)
wt = '/tmp/wt/' + name
subprocess.run(['git', '-C', '/repo', 'worktree', 'add', '--detach', wt, 'HEAD'], check=True, stdout=subprocess.DEVNULL, stderr=subprocess.DEVNULL)
tried = []
for m in sorted(glob.glob('/verif/seeded/%s-*/meta.json' % prop)):
    tried.append(' - ' + json.load(open(m)).get('needs', ''))
txt = open('/verif/tools/seed_prompt.tmpl').read()
txt = txt.replace('@WT@', wt).replace('@TITLE@', p['title']).replace('@STATEMENT@', p['statement']).replace('@QUANT@', p['quantifier']['text'])
txt = txt.replace('@WHY@', p['why_tests_cant']).replace('@FILES@', ', '.join(p['anchors']['files'])).replace('@TRIED@', '\n'.join(tried) if tried else ' - (none yet)')
open(wt + '.prompt.txt', 'w').write(txt)
print(wt + '.prompt.txt')
