import json,glob,sys,collections
def freshbits(e):
    if e['key']=='sk': return e['bbits']
    if not e['hasp']: return e['lgn']+e['bbits']+2
    return max(e['lgn']+e['bbits']+2-e['lgp'], e['hbits']+1)+1
c=collections.Counter()
ex={}
for f in glob.glob(sys.argv[1]+'/t*.ndjson'):
    for l in open(f):
        e=json.loads(l)
        if e['ev']=='enc':
            bad=[]
            if e['err'] or e['panic']: bad.append('err:'+e['msg'][:60])
            else:
                if not e['metaeq']: bad.append('meta')
                if e['lvlout']!=e['lvlexp']: bad.append('lvl')
                if e['errbits']>freshbits(e): bad.append('errbits')
                if not e['differs']: bad.append('differs')
                if (e['key']=='sk' and 2*e['stdmilli']<e['sigmamilli']) or (e['key']!='sk' and e['stdmilli']<250): bad.append('std')
                if e['wrongbits']<e['logq']-4: bad.append('wrong')
            cf=e['cfg']
            k=(cf['key'],cf['deg'],cf['ntt'],cf['mont'],e['hasp'],tuple(bad))
            c[k]+=1; ex[k]=e
        elif e['ev']=='keynoise':
            ok = not e['err'] and e['errbits']<=e['bbits'] and 2*e['stdmilli']>=e['sigmamilli']
            c[('keynoise',ok)]+=1; ex[('keynoise',ok)]=e
        elif e['ev']=='ksw':
            bad=[]
            if e['err'] or e['panic']: bad.append('err:'+e['msg'][:70])
            else:
                ks=max(e['inbits'], e['lgn']+e['lgd']+e['digitbits']+e['bbits']-e['lgp']+1, e['hbits']+2)+2
                if not e['metaeq']: bad.append('meta')
                if e['lvlout']!=e['lvlexp']: bad.append('lvl')
                if e['errbits']>ks: bad.append('errbits')
                e['_ks']=ks
            cf=e['cfg']
            k=(cf['ps'],cf['kind'],cf['base2']>0,cf['ntt'],tuple(bad))
            c[k]+=1; ex[k]=e
        elif e['ev']=='expand':
            k=('expand',e['eq'],e['twice'],e['err'],e['panic'],e['msg'][:60]); c[k]+=1; ex[k]=e
for k,v in sorted(c.items(),key=str):
    if k[-1]!=() and k[-1]!=True or '-a' in sys.argv: print(v,k, {x:y for x,y in ex[k].items() if x in('errbits','stdmilli','_ks','lgd','digitbits','lgp','inbits','bbits')})
