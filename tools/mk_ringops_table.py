#!/usr/bin/env python3
"""Writes spec/tables/ringops.json: the contract table of the element-wise ring operations, transcribed
from the doc comments of ring/subring_ops.go, ring/operations.go and ring/modular_reduction.go.
Each entry:  sum(lhs terms) == sum(rhs terms)  (mod q),  out < k*q + slack,  inputs x < in_x * q (0: unused, -1: any uint64).
Factors: a b c (c = previous content of the output for accumulating ops), s (plain scalar), sm (scalar given in
Montgomery form), R (2^64), out.  The same table is read by the TLA+ specification (via the MC module) and by the
harness (only to compute the untrusted witnesses of the big-number certificates)."""
import json, os
T = {}
def op(name, lhs, rhs, k, a=1, b=0, c=0, s=0, sm=0, slack=0, level="ring"):
    T[name] = dict(lhs=lhs, rhs=rhs, k=k, ina=a, inb=b, inc=c, s=s, sm=sm, slack=slack, level=level)
O, R = "out", "R"
# ---- ring.Ring methods (applied at every modulus of the level)
op("Add", [[O]], [["a"], ["b"]], 1, b=1)
op("AddLazy", [[O]], [["a"], ["b"]], 2, b=1)
op("Sub", [[O], ["b"]], [["a"]], 1, b=1)
op("SubLazy", [[O], ["b"]], [["a"]], 2, b=1)
op("Neg", [[O], ["a"]], [], 1, slack=1)
op("Reduce", [[O]], [["a"]], 1, a=-1)
op("ReduceLazy", [[O]], [["a"]], 2, a=-1)
op("MulCoeffsBarrett", [[O]], [["a", "b"]], 1, b=1)
op("MulCoeffsBarrettLazy", [[O]], [["a", "b"]], 2, b=1)
op("MulCoeffsBarrettThenAdd", [[O]], [["c"], ["a", "b"]], 1, b=1, c=1)
op("MulCoeffsBarrettThenAddLazy", [[O]], [["c"], ["a", "b"]], 2, b=1, c=1)
op("MulCoeffsMontgomery", [[O, R]], [["a", "b"]], 1, a=2, b=2)
op("MulCoeffsMontgomeryLazy", [[O, R]], [["a", "b"]], 2, a=2, b=2)
op("MulCoeffsMontgomeryLazyThenNeg", [[O, R], ["a", "b"]], [], 2, a=2, b=2)
op("MulCoeffsMontgomeryThenAdd", [[O, R]], [["c", R], ["a", "b"]], 1, a=2, b=2, c=1)
op("MulCoeffsMontgomeryThenAddLazy", [[O, R]], [["c", R], ["a", "b"]], 2, a=2, b=2, c=1)
op("MulCoeffsMontgomeryLazyThenAddLazy", [[O, R]], [["c", R], ["a", "b"]], 3, a=2, b=2, c=1)
op("MulCoeffsMontgomeryThenSub", [[O, R], ["a", "b"]], [["c", R]], 1, a=2, b=2, c=1)
op("MulCoeffsMontgomeryThenSubLazy", [[O, R], ["a", "b"]], [["c", R]], 2, a=2, b=2, c=1)
op("MulCoeffsMontgomeryLazyThenSubLazy", [[O, R], ["a", "b"]], [["c", R]], 3, a=2, b=2, c=1)
op("AddScalar", [[O]], [["a"], ["s"]], 1, s=1)
op("SubScalar", [[O], ["s"]], [["a"]], 1, s=1)
op("MulScalar", [[O]], [["a", "s"]], 1, s=-1)
op("MulScalarThenAdd", [[O]], [["c"], ["a", "s"]], 1, c=1, s=-1)
op("MulScalarThenSub", [[O], ["a", "s"]], [["c"]], 1, c=1, s=-1)
op("AddScalarBigint", [[O]], [["a"], ["s"]], 1, s=-2)
op("SubScalarBigint", [[O], ["s"]], [["a"]], 1, s=-2)
op("MulScalarBigint", [[O]], [["a", "s"]], 1, s=-2)
op("MulScalarBigintThenAdd", [[O]], [["c"], ["a", "s"]], 1, c=1, s=-2)
op("MulRNSScalarMontgomery", [[O, R]], [["a", "sm"]], 1, sm=1)
op("MForm", [[O]], [["a", R]], 1)
op("MFormLazy", [[O]], [["a", R]], 2)
op("IMForm", [[O, R]], [["a"]], 1)
op("MulByVectorMontgomery", [[O, R]], [["a", "b"]], 1, b=1)
op("MulByVectorMontgomeryThenAddLazy", [[O, R]], [["c", R], ["a", "b"]], 2, b=1, c=1)
# ---- ring.SubRing-only methods
op("AddLazyThenMulScalarMontgomery", [[O, R]], [["a", "sm"], ["b", "sm"]], 1, b=1, sm=1, level="sub")
op("AddScalarLazyThenMulScalarMontgomery", [[O, R]], [["a", "sm"], ["s", "sm"]], 1, s=1, sm=1, level="sub")
op("AddScalarLazy", [[O]], [["a"], ["s"]], 2, s=1, level="sub")
op("AddScalarLazyThenNegTwoModulusLazy", [[O], ["a"]], [["s"]], 3, slack=1, s=1, level="sub")
op("MulScalarMontgomery", [[O, R]], [["a", "sm"]], 1, sm=1, level="sub")
op("MulScalarMontgomeryLazy", [[O, R]], [["a", "sm"]], 2, sm=1, level="sub")
op("MulScalarMontgomeryThenAdd", [[O, R]], [["c", R], ["a", "sm"]], 1, c=1, sm=1, level="sub")
op("MulScalarMontgomeryThenAddScalar", [[O, R]], [["s", R], ["a", "sm"]], 1, s=1, sm=1, level="sub")
op("SubThenMulScalarMontgomeryTwoModulus", [[O, R], ["b", "sm"]], [["a", "sm"]], 1, a=2, b=2, sm=1, level="sub")
V = os.path.dirname(os.path.dirname(os.path.abspath(__file__)))
json.dump(T, open(os.path.join(V, "spec", "tables", "ringops.json"), "w"), indent=1)
print(len(T), "operations")
