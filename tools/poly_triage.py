import json,glob,sys,collections
def depth(d):
    k=0
    while (1<<k)<d+1: k+=1
    return k
def cheb(k,u):
    if k==0: return 1
    if k==1: return u
    a,b=1,u
    for _ in range(k-1): a,b=b,2*u*b-a
    return b
c=collections.Counter(); ex={}
for f in glob.glob(sys.argv[1]+'/t*.ndjson'):
    for l in open(f):
        e=json.loads(l)
        if e['ev']!='poly': continue
        cf=e['cfg']; bad=[]
        deg=len(e['polys'][0])-1 if e['polys'] else cf['deg']
        need=0 if e['invariant'] else depth(deg)
        if e['lvlin']<need:
            if not(e['err'] and not e['panic']): bad.append('norefuse:'+('panic ' if e['panic'] else 'noerr ')+e['msg'][:50])
        elif e['err'] or e['panic']:
            bad.append(('panic:' if e['panic'] else 'err:')+e['msg'][:90])
        else:
            T=e['T']; vb=False
            for i,x in enumerate(e['x']):
                m=e['map'][i]
                if T:
                    exp=0 if m==0 else sum(cc*pow(x,k,T) for k,cc in enumerate(e['polys'][m-1]))%T
                    if exp!=e['out'][i]: vb=True
                else:
                    u=x/2
                    if m==0: exp=0
                    elif e['basis']=='cheb': exp=sum(cc*cheb(k,u) for k,cc in enumerate(e['polys'][m-1]))
                    else: exp=sum(cc*u**k for k,cc in enumerate(e['polys'][m-1]))
                    if abs(e['out'][i]-exp*65536)>64: vb=True
            if vb: bad.append('value')
            if e['lvlout']!=e['lvlin']-need: bad.append('lvl %d (in %d need %d)'%(e['lvlout'],e['lvlin'],need))
            if e['scdiff']!=0: bad.append('scale')
            if not e['inok']: bad.append('inok')
        k=(e['set'],cf['basis'],cf['mode'],cf['parity'],cf['invariant'],tuple(bad))
        c[k]+=1; ex.setdefault(k,[]).append(cf['deg'])
for k,v in sorted(c.items(),key=str):
    if k[-1] or '-a' in sys.argv: print(v,k,sorted(set(ex[k])))
