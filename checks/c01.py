"""C01: RNS ring arithmetic equals exact arithmetic in Z_Q[X]/(X^N+1)."""
import json, os, random
from vlib import *

TRACE_CFG = ['SPECIFICATION TraceSpec', 'CONSTRAINT Progress', 'POSTCONDITION TraceAccepted', 'CHECK_DEADLOCK FALSE']
LAWS = ['RootsAreRoots', 'MulCommutes', 'MonomialIsMul', 'EvalIsHom', 'AutomIsHom', 'AutomEvaluates', 'AutomComposes',
        'NTTAutom', 'CIEval', 'CIMulIsHom', 'CIRoots']


def table():
    return json.load(open(os.path.join(SPEC, 'tables', 'ringops.json')))


def sig_of(e):
    if e.get('ev') == 'range':
        return "ring:range:%s:%s" % (e.get('what'), 'ci' if e.get('ci') else 'std')
    return "ring:" + str(e.get('op', e.get('ev')))


def describe(e):
    keep = {k: v for k, v in e.items() if k in ('ev', 'op', 'q', 'qv', 'n', 'pat', 'pos', 'what', 'g', 'kk', 'k', 'ci')}
    return json.dumps(keep)


def run(ctx):
    ctx.assumptions += [
        "toy rings N in {8,16,32}, primes < 2^10, every method of the contract table with boundary patterns; TLC computes the exact expectation",
        "real-size moduli (6..61 bits): per-coefficient certificates sum(lhs)+w1*q = sum(rhs)+w2*q checked by TLC with BigNat; witnesses untrusted",
        "input ranges are the documented ones; where the documentation is silent: fully reduced inputs, except Montgomery products (< 2q) and Reduce (any uint64)",
    ]
    tab = table()
    rng = random.Random(ctx.seed)
    # (M) the specification's own algebra, exhaustively over a pool of operands
    d = scratch('c01-mc')
    stage_specs(d)
    polys = [[0] * 8, [1] + [0] * 7, [0, 1] + [0] * 6, [16] * 8, [1, 2, 3, 4, 5, 6, 7, 8], [16, 0, 1, 0, 16, 0, 1, 0]]
    polys += [[rng.randrange(17) for _ in range(8)] for _ in range(4 if ctx.quick else 14)]
    write_mc(d, 'MC_RingOpsMC', 'RingOpsMC', dict(OpTable=tab, PolyPool=fs(*polys), GalPool=set([1, 3, 5, 7, 9, 11, 13, 15]),
                                                 ShiftPool=set([-17, -9, -8, -1, 0, 1, 7, 8, 9, 15, 16, 17, 35])),
             ['SPECIFICATION MCSpec'] + ['INVARIANT ' + x for x in LAWS])
    r = tlc(d, 'MC_RingOpsMC', timeout=1500)
    ctx.add_mc(r, 'RingOpsMC laws')
    log("[c01] spec laws: %d states" % r.distinct)

    if ctx.replay:
        rp = json.load(open(ctx.replay))
        lines = [dict(e, prog=1, fork=i) for i, e in enumerate(rp['events'])]
        rej, stats = validate_programs(scratch('c01-replay'), 'MC_RingOpsTrace', 'RingOpsTrace', dict(OpTable=tab), TRACE_CFG, lines, chunks=1)
        for x in rej:
            ctx.violation(describe(x['event']), rp, sig=sig_of(x['event']))
        return

    # (T) record the real library, validate with TLC
    d = scratch('c01')
    tf = os.path.join(d, 'trace.ndjson')
    _, res, _ = vrun(['c01', 'record', '--trace', tf, '--table', os.path.join(SPEC, 'tables', 'ringops.json'),
                      '--seed', ctx.seed, '--tier', ctx.tier])
    evs = [json.loads(x) for x in open(tf)]
    log("[c01] %d events recorded" % len(evs))
    rej, stats = validate_programs(d, 'MC_RingOpsTrace', 'RingOpsTrace', dict(OpTable=tab), TRACE_CFG, evs, chunks=NCPU - 2, max_rounds=12)
    ctx.add_trace_stats(stats, len(set(e['prog'] for e in evs)))
    ops = set((e.get('op') or e.get('ev')) for e in evs)
    ctx.cov['programs'] = len(evs)
    ctx.cov['distinct_nontrivial'] = len(set(str((e.get('op') or e['ev'], e.get('qv', e.get('q', 0)), e.get('pat', e.get('what', e.get('g', e.get('kk')))))) for e in evs))
    ctx.cov['rule'] = "one event per (operation, modulus, input pattern); distinct by that triple; %d operations / event kinds" % len(ops)
    ctx.sample({k: v for k, v in evs[len(evs) // 3].items() if k not in ('prog', 'fork')})
    ctx.sample({k: v for k, v in evs[-1].items() if k not in ('prog', 'fork')})
    for x in rej:
        e = x['event']
        # reproduce: record again with another process / same seed and look for the same event
        rp = dict(family='ringops', events=[])
        if x['fork'] > 0 and e['ev'] not in ('ew', 'cert', 'monomial', 'evalpoly', 'eq', 'range'):
            root = [y for y in evs if y['prog'] == e['prog'] and y['fork'] == 0]
            rp['events'] += [{k: v for k, v in root[0].items() if k not in ('prog', 'fork')}]
        rp['events'].append({k: v for k, v in e.items() if k not in ('prog', 'fork')})
        d2 = scratch('c01-repro')
        tf2 = os.path.join(d2, 't.ndjson')
        vrun(['c01', 'record', '--trace', tf2, '--table', os.path.join(SPEC, 'tables', 'ringops.json'), '--seed', ctx.seed, '--tier', ctx.tier])
        again = [json.loads(y) for y in open(tf2)]
        same = [y for y in again if y['prog'] == e['prog'] and y['fork'] == e['fork']]
        if not same or same[0].get('out') != e.get('out') or same[0].get('x') != e.get('x'):
            raise Inconclusive("rejected event not reproduced by a second recording: " + describe(e))
        ctx.violation(describe(e), rp, sig=sig_of(e))
