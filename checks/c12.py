"""C12: homomorphic linear transformations compute the plaintext matrix-vector product."""
import json, os
from concurrent.futures import ThreadPoolExecutor
from vlib import *

TRACE_CFG = ['SPECIFICATION TraceSpec', 'CONSTRAINT Progress', 'POSTCONDITION TraceAccepted', 'CHECK_DEADLOCK FALSE']
NJOBS = 12


def sig_of(e):
    c = e.get('cfg', {})
    return "lt:%s:%s:nm=%d:%s" % (e['set'], e['mode'], len(c.get('mats', [])), "bsgs" if any(m['ratio'] >= 0 for m in c.get('mats', [])) else "plain")


def describe(e):
    return json.dumps({k: v for k, v in e.items() if k in ('set', 'mode', 'cfg', 'err', 'panic', 'msg', 'cons', 'lvlout', 'scin', 'scout', 'inok', 'req', 'adv', 'idx')})[:700]


def run(ctx):
    ctx.assumptions += [
        "bgv: 2x4 slots (t=17), 2x8 (t=97, two P primes, keys and transformations at LevelP 0 and 1), 2x16 (t=193, plaintext ring = ciphertext ring); ckks: 4 and 8 slots sparse (two P primes), 16 slots full, 8 slots on the conjugate-invariant ring; all with an auxiliary modulus (hoisting needs one)",
        "every non-empty set of diagonals with indices in (-4, 4) is enumerated by TLC for the 4-slot sets (every ratio, level and single-evaluation entry point); for 8 and 16 slots the sets of diagonals, ratios in {-1,0,1,2}, levels, receivers and the many / sequential entry points are sampled from the seed",
        "diagonal entries: uniform mod t (bgv), Gaussian integers in [-3,3] (ckks), all-ones and one-entry-per-row diagonals; ckks outputs must be within 1/64 of the exact Gaussian integer",
        "every call runs on a key set holding exactly the advertised Galois elements (at the transformation's LevelP) and the receiver holds unrelated data",
    ]
    if ctx.replay:
        rp = json.load(open(ctx.replay))
        d = scratch('c12-replay')
        stage_specs(d)
        cf = os.path.join(d, 'cfg.ndjson')
        open(cf, 'w').write(json.dumps(rp['event']['cfg']) + "\n")
        tf = os.path.join(d, 't.ndjson')
        vrun(['c12', 'exec', '--cfgs', cf, '--trace', tf, '--seed', ctx.seed])
        evs = [json.loads(x) for x in open(tf)]
        rej, stats = validate_programs(d, 'MC_LinTransTrace', 'LinTransTrace', {}, TRACE_CFG, evs, chunks=1, sigfn=sig_of)
        ctx.add_trace_stats(stats, len(evs))
        for x in rej:
            ctx.violation(describe(x['event']), dict(family='lintrans', event=x['event']), sig=sig_of(x['event']))
        return
    d = scratch('c12-mc')
    stage_specs(d)
    write_mc(d, 'MC_LinTransMC', 'LinTransMC', dict(Hs=set([2, 4]), T=97, Ratios=set([-1, 0, 1, 2]), NegToo=True),
             ['SPECIFICATION MSpec', 'INVARIANT RegroupOK', 'INVARIANT FindOK', 'INVARIANT RotOK'])
    r = tlc(d, 'MC_LinTransMC', timeout=900)
    ctx.add_mc(r, 'LinTransMC h<=4 (mod 97)')
    if not ctx.quick:
        write_mc(d, 'MC_LinTransMC8', 'LinTransMC', dict(Hs=set([8]), T=0, Ratios=set([-1, 0, 1, 2]), NegToo=False),
                 ['SPECIFICATION MSpec', 'INVARIANT RegroupOK', 'INVARIANT FindOK', 'INVARIANT RotOK'])
        r = tlc(d, 'MC_LinTransMC8', timeout=3000)
        ctx.add_mc(r, 'LinTransMC h=8 (Gaussian integers)')
    d = scratch('c12-gen')
    stage_specs(d)
    write_mc(d, 'MC_LinTransGen', 'LinTransGen', dict(H=4, Ratios=set([-1, 0, 1] if ctx.quick else [-1, 0, 1, 2]), Modes=set(["single", "new"]), MaxLvl=1 if ctx.quick else 2),
             ['SPECIFICATION Spec', 'INVARIANT Emit'])
    r = tlc(d, 'MC_LinTransGen', timeout=900)
    ctx.add_mc(r, 'LinTransGen h=4')
    cfgs = progs_from(r)
    log("[c12] %d transformations enumerated" % len(cfgs))
    d = scratch('c12')
    samples = 30 if ctx.quick else 250

    def job(i):
        cf = os.path.join(d, 'cfg%d.ndjson' % i)
        open(cf, 'w').write("\n".join(cfgs[i::NJOBS]) + "\n")
        tf = os.path.join(d, 't%d.ndjson' % i)
        vrun(['c12', 'exec', '--cfgs', cf, '--trace', tf, '--seed', int(ctx.seed) * 100 + i, '--samples', samples])
        evs = [json.loads(x) for x in open(tf)]
        for e in evs:
            e['prog'] = e['prog'] * NJOBS + i
        return evs

    evs = []
    with ThreadPoolExecutor(max_workers=NJOBS) as ex:
        for part in ex.map(job, range(NJOBS)):
            evs += part
    log("[c12] %d events" % len(evs))
    rej, stats = validate_programs(d, 'MC_LinTransTrace', 'LinTransTrace', {}, TRACE_CFG, evs, max_rounds=15, chunks=NCPU - 2, sigfn=sig_of)
    ctx.add_trace_stats(stats, len(evs))
    ctx.cov['programs'] = len(evs)
    ctx.cov['distinct_nontrivial'] = len(set(json.dumps(e['cfg'], sort_keys=True) for e in evs))
    ctx.cov['rule'] = "one event per output ciphertext; distinct by scenario record (set, mode, levels, diagonal sets, ratios)"
    for e in (evs[5], evs[-5]):
        ctx.sample({k: v for k, v in e.items() if k in ('set', 'mode', 'cfg', 'lvlout', 'x', 'out')})
    for x in rej:
        e = x['event']
        ctx.violation(describe(e), dict(family='lintrans', event=e), sig=sig_of(e))
