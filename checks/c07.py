"""C07: encoders are inverse to decoders on the whole message space."""
import json, os
from vlib import *

TRACE_CFG = ['SPECIFICATION TraceSpec', 'CONSTRAINT Progress', 'POSTCONDITION TraceAccepted', 'CHECK_DEADLOCK FALSE']


def sig_of(e):
    return "enc:%s:%s:%s:%s:slots=%s" % (e['ev'], e.get('set'), e.get('ity', 'b' if e.get('batched') else 'c'), e.get('oty', 's' if e.get('signed') else 'u'), e.get('slots', e.get('len')))


def describe(e):
    return json.dumps({k: (v if not isinstance(v, list) or len(str(v)) < 100 else str(v)[:100] + '..') for k, v in e.items() if k not in ('prog', 'fork', 'indep')})[:700]


def run(ctx):
    ctx.assumptions += [
        "bgv: t in {17, 97, 193, 257, 12289} (plaintext ring smaller than / equal to the ciphertext ring), value classes 0, 1, t-1, t, t+1, (t+-1)/2, 2^63-1, 2^63, 2^64-1, MinInt64, MaxInt64, -t, -t-1 (residues by math/big), lengths 0,1,2,n-1,n, every level, four unit scales, batched and coefficient encodings, signed/unsigned in and out, fresh and used encoders; the whole message space of length <= 2 over Z_17 is enumerated by TLC",
        "ckks: dyadic values (<= 20 fractional bits, magnitudes 2^-20 .. 2^6), every slot count, scales 2^30/2^45/2^55, float64 and 128-bit encoders, four input and two output types, DecodePublic with logprec 10 and 16; standard and conjugate-invariant ring",
        "for vectors longer than 64 (bgv) / 32 (ckks) entries the harness compares the tail itself and logs the head",
    ]
    d = scratch('c07-gen')
    stage_specs(d)
    write_mc(d, 'MC_EncodingGen', 'EncodingGen', dict(T=17, MaxLen=2), ['SPECIFICATION Spec', 'INVARIANT Emit', 'INVARIANT SelfAccept'])
    r = tlc(d, 'MC_EncodingGen', timeout=600)
    ctx.add_mc(r, 'EncodingGen message space Z_17^{<=2}')
    msgs = progs_from(r)
    log("[c07] %d messages enumerated" % len(msgs))
    mf = os.path.join(d, 'msgs.ndjson')
    open(mf, 'w').write("\n".join(msgs) + "\n")
    tf = os.path.join(d, 't.ndjson')
    vrun(['c07', 'record', '--trace', tf, '--msgs', mf, '--seed', ctx.seed, '--tier', ctx.tier])
    evs = [json.loads(x) for x in open(tf)]
    log("[c07] %d events" % len(evs))
    import re as _re
    kre = [k['signature_re'] for k in ctx.known if k.get('signature_re')]
    known_evs = [e for e in evs if any(_re.fullmatch(r, sig_of(e)) for r in kre)]
    other = [e for e in evs if not any(_re.fullmatch(r, sig_of(e)) for r in kre)]
    rej, stats = validate_programs(d, 'MC_EncodingTrace', 'EncodingTrace', {}, TRACE_CFG, other, max_rounds=15, chunks=NCPU - 2, sigfn=sig_of)
    ctx.add_trace_stats(stats, len(other))
    if known_evs:   # the recorded finding is re-observed in a run of its own so that it cannot exhaust the rejection budget
        rej2, stats2 = validate_programs(scratch('c07-known'), 'MC_EncodingTrace', 'EncodingTrace', {}, TRACE_CFG, known_evs, max_rounds=100, chunks=2, sigfn=sig_of)
        ctx.add_trace_stats(stats2, len(known_evs))
        rej += rej2
    ctx.cov['programs'] = len(evs)
    ctx.cov['distinct_nontrivial'] = len(set((sig_of(e), e.get('len'), e.get('scale'), e.get('lvl'), e.get('slots'), e.get('lgscale'), e.get('prec'), e.get('logprec')) for e in evs))
    ctx.cov['rule'] = "one event per encode/decode round trip; distinct by (scheme set, types, length/slots, scale, level, precision)"
    ctx.sample({k: v for k, v in evs[7].items() if k not in ('prog', 'fork', 'indep')})
    ctx.sample({k: v for k, v in evs[-3].items() if k not in ('prog', 'fork', 'indep')})
    for x in rej:
        e = x['event']
        ctx.violation(describe(e), dict(family='encoding', event=e), sig=sig_of(e))
