"""Shared driver of the RlweCore family (C03 fresh encryption, C04 key switching)."""
import json, os
from vlib import *

TRACE_CFG = ['SPECIFICATION TraceSpec', 'CONSTRAINT Progress', 'POSTCONDITION TraceAccepted', 'CHECK_DEADLOCK FALSE']
NJOBS = 12


def sig_of(e):
    c = e.get('cfg', {})
    if e['ev'] in ('enc',):
        return "rlwe:enc:%s:%s:%s:deg=%s" % (c.get('ps'), c.get('key'), c.get('prov'), c.get('deg'))
    if e['ev'] == 'keynoise':
        return "rlwe:keynoise:%s" % e.get('what')
    return "rlwe:%s:%s:%s:base2=%s:comp=%s:lvlp=%s" % (e['ev'], c.get('ps'), c.get('kind'), c.get('base2'), c.get('comp'), c.get('lvlp'))


def describe(e):
    return json.dumps({k: v for k, v in e.items() if k not in ('prog', 'fork', 'indep')})[:700]


def run_family(ctx, which):
    if ctx.replay:
        rp = json.load(open(ctx.replay))
        d = scratch(ctx.prop.lower() + '-replay')
        stage_specs(d)
        cf = os.path.join(d, 'cfg.ndjson')
        open(cf, 'w').write(json.dumps(rp['event']['cfg']) + "\n")
        tf = os.path.join(d, 't.ndjson')
        vrun(['c03', 'exec', '--cfgs', cf, '--trace', tf, '--seed', rp.get('seed', 1)])
        evs = [json.loads(x) for x in open(tf)]
        rej, stats = validate_programs(d, 'MC_RlweCoreTrace', 'RlweCoreTrace', {}, TRACE_CFG, evs, chunks=1, sigfn=sig_of)
        ctx.add_trace_stats(stats, len(evs))
        for x in rej:
            ctx.violation(describe(x['event']), dict(family='rlwecore', event=x['event']), sig=sig_of(x['event']))
        return
    psets = json.loads(vrun(['c03', 'psets'])[0].strip().splitlines()[0])
    d = scratch(ctx.prop.lower() + '-gen')
    stage_specs(d)
    quick = ctx.quick
    consts = dict(
        PSets=[dict(name=p['name'], nq=p['nq'], np=p['np']) for p in psets],
        Base2s=set([0, 8, 16] if quick else [0, 4, 8, 16, 27]),
        Kinds=set(["evk", "relin", "autom", "automhoisted", "automlazy"]) if which == 'ksw' else set(["evk"]),
        Provs=set(["new", "shallow", "withkey", "withprng"]),
        Which=which)
    write_mc(d, 'MC_RlweCoreGen', 'RlweCoreGen', consts, ['SPECIFICATION Spec', 'INVARIANT Emit'])
    r = tlc(d, 'MC_RlweCoreGen', timeout=900)
    ctx.add_mc(r, 'RlweCoreGen configurations')
    cfgs = progs_from(r)
    log("[%s] %d configurations enumerated" % (ctx.prop, len(cfgs)))
    if not cfgs:
        raise Inconclusive("generator produced no configuration")
    d = scratch(ctx.prop.lower())

    def job(i):
        cf = os.path.join(d, 'cfg%d.ndjson' % i)
        part = cfgs[i::NJOBS]
        if not part:
            return []
        open(cf, 'w').write("\n".join(part) + "\n")
        tf = os.path.join(d, 't%d.ndjson' % i)
        vrun(['c03', 'exec', '--cfgs', cf, '--trace', tf, '--seed', int(ctx.seed) * 100 + i])
        evs = [json.loads(x) for x in open(tf)]
        for e in evs:
            e['prog'] = e['prog'] * NJOBS + i
        return evs

    evs = []
    from concurrent.futures import ThreadPoolExecutor
    with ThreadPoolExecutor(max_workers=NJOBS) as ex:
        for part in ex.map(job, range(NJOBS)):
            evs += part
    log("[%s] %d events" % (ctx.prop, len(evs)))
    rej, stats = validate_programs(d, 'MC_RlweCoreTrace', 'RlweCoreTrace', {}, TRACE_CFG, evs, max_rounds=15, chunks=NCPU - 2, sigfn=sig_of)
    ctx.add_trace_stats(stats, len(evs))
    ctx.cov['programs'] = len(cfgs)
    ctx.cov['distinct_nontrivial'] = len(set(json.dumps(e.get('cfg', e.get('what')), sort_keys=True) + e['ev'] for e in evs))
    ctx.cov['rule'] = "one event per executed configuration; distinct by configuration record"
    for e in (evs[3], evs[len(evs) // 2], evs[-2]):
        ctx.sample({k: v for k, v in e.items() if k not in ('prog', 'fork', 'indep')})
    for x in rej:
        e = x['event']
        ctx.violation(describe(e), dict(family='rlwecore', event=e), sig=sig_of(e))
