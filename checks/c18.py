"""C18: bootstrapping restores levels, preserves the message, confines sparse keys."""
import json, os
from concurrent.futures import ThreadPoolExecutor
from vlib import *

TRACE_CFG = ['SPECIFICATION TraceSpec', 'CONSTRAINT Progress', 'POSTCONDITION TraceAccepted', 'CHECK_DEADLOCK FALSE']


def describe(e):
    d = {k: v for k, v in e.items() if k not in ('prog', 'fork', 'provgal', 'advgal', 'reqgal') and v not in ('', None, 0, False)}
    if e.get('ev') == 'keys':
        d['galois'] = dict(provided=len(e['provgal']), advertised=len(e['advgal']), requested=len(e['reqgal']),
                           missing=sorted(set(e['advgal']) - set(e['provgal']))[:5], extra=sorted(set(e['provgal']) - set(e['advgal']))[:5],
                           unrequested=sorted(set(e['provgal']) - set(e['reqgal']))[:5], unprovided=sorted(set(e['reqgal']) - set(e['provgal']))[:5])
    return json.dumps(d)[:900]


def run(ctx):
    ctx.assumptions += [
        "circuits run on size-reduced variants (bootstrapping ring degree 2^10, residual degree 2^10 / 2^9 / 2^7 / conjugate-invariant 2^9; message ratio corrected for the ring degree as the repository's fast tests do); full-size default sets are instantiated for their depth arithmetic only (and for log2(QP) in C19)",
        "precision floor: the repository's own floor for reduced-size sets, log2(scale) - (logN + 2) - 10 bits, on the worst slot",
        "requested Galois keys are observed through a recording key set installed in an evaluator assembled exactly as NewEvaluator assembles it",
        "homomorphic encoding/decoding are checked as mutual inverses with plain matrices at full packing (dft package); sparse packing and the scaled matrices are covered end to end by the bootstraps",
    ]
    d = scratch('c18-mc')
    stage_specs(d)
    write_mc(d, 'MC_Bootstrap', 'Bootstrap', dict(MaxRes=3 if ctx.quick else 5, MaxDepth=4 if ctx.quick else 6),
             ['SPECIFICATION Spec', 'INVARIANT NeverNegative', 'INVARIANT Restores', 'INVARIANT S2CLands'])
    r = tlc(d, 'MC_Bootstrap', timeout=1800)
    ctx.add_mc(r, 'Bootstrap stage machine')
    d = scratch('c18')
    NPART = 3 if ctx.quick else 6

    def job(part):
        tf = os.path.join(d, 't%d.ndjson' % part)
        vrun(['c18', 'run', '--trace', tf, '--seed', ctx.seed, '--part', part, '--parts', NPART] + ([] if ctx.quick else ['--thorough']), timeout=3300)
        return [json.loads(x) for x in open(tf)]

    evs = []
    with ThreadPoolExecutor(max_workers=NPART) as ex:
        for e in ex.map(job, range(NPART)):
            evs += e
    for e in evs:
        e['fork'] = 0
    kinds = {}
    for e in evs:
        kinds[e['ev']] = kinds.get(e['ev'], 0) + 1
    log("[c18] events: %s" % kinds)
    # a rejected event only removes itself: mark every event as its own alternative
    progs = {}
    for i, e in enumerate(evs):
        progs.setdefault(e['prog'], []).append(e)
    rej, stats = validate_programs(d, 'MC_BootstrapTrace', 'BootstrapTrace', {}, TRACE_CFG, evs, max_rounds=30, chunks=2)
    # programs whose params event was accepted but a later event rejected: re-validate the rest without the rejected event
    more = []
    for x in rej:
        e = x['event']
        rest = [y for y in progs[e['prog']] if y is not e and y['ev'] != 'stage']
        if e['ev'] != 'params' and rest:
            r2, _ = validate_programs(scratch('c18-re'), 'MC_BootstrapTrace', 'BootstrapTrace', {}, TRACE_CFG, rest, max_rounds=30, chunks=1)
            while r2:
                more += r2
                bad = r2[0]['event']
                rest = [y for y in rest if y is not bad]
                if not rest or bad['ev'] == 'params':
                    break
                r2, _ = validate_programs(scratch('c18-re'), 'MC_BootstrapTrace', 'BootstrapTrace', {}, TRACE_CFG, rest, max_rounds=30, chunks=1)
    rej += more
    ctx.add_trace_stats(stats, len(progs))
    ctx.cov['programs'] = len(progs)
    ctx.cov['distinct_nontrivial'] = len(set((e.get('variant'), e.get('api'), e.get('inlvl'), e.get('batch'), e.get('logslots'), e.get('name')) for e in evs))
    ctx.cov['rule'] = "a case = (parameter variant, API, input level, batch size, slot count) of a bootstrap, a stage of the circuit, a key inventory, a pair of homomorphic DFT factorisations, or a default parameter set's depth arithmetic"
    ctx.notes['variants'] = sorted(set(e.get('variant') for e in evs if e.get('variant')))
    ctx.notes['worst_precision_bits'] = min([e['precbits'] for e in evs if e['ev'] == 'boot' and not e['err'] and not e['panic']] or [0])
    b = [e for e in evs if e['ev'] == 'boot']
    ctx.sample({k: v for k, v in b[len(b) // 2].items() if k not in ('prog', 'fork', 'provgal', 'advgal', 'reqgal')})
    k = [e for e in evs if e['ev'] == 'keys']
    if k:
        ctx.sample(json.loads(describe(k[0])))
    seen = set()
    for x in rej:
        e = x['event']
        if e['ev'] == 'boot':
            s = "btp:boot:%s:%s:%s:%s" % (e.get('variant'), e.get('api'), 'lvl>0' if e.get('inlvl', 0) > 0 else 'lvl0',
                                          'panic' if e.get('panic') else ('err' if e.get('err') else 'value'))
            if e.get('api') == 'BootstrapMany' and e.get('batch', 1) > 1:
                s += ":batch>1"
        else:
            s = "btp:%s:%s:%s" % (e['ev'], e.get('variant') or e.get('name'), 'panic' if e.get('panic') else ('err' if e.get('err') else 'value'))
        if s in seen:
            continue
        seen.add(s)
        ctx.violation(describe(e), dict(family='bootstrap', event=e), sig=s)
