"""ApproxEval family (ckks.Evaluator): serves C06 (values/metadata/errors) and C09 (frame, aliasing, history)."""
import json, os
from concurrent.futures import ThreadPoolExecutor
from vlib import *

TRACE_CFG = ['SPECIFICATION TraceSpec', 'CONSTRAINT Progress', 'POSTCONDITION TraceAccepted', 'CHECK_DEADLOCK FALSE']
ALL_OPS = ["Add", "Sub", "Mul", "MulRelin", "MulThenAdd", "MulRelinThenAdd", "Rescale", "RescaleTo", "Relinearize", "Rotate", "Conjugate", "ScaleUp", "DropLevel", "SetScale"]
ROTS = [1, 2, 3, -1, 5, 8, 9, -11, 0]
U = 1048576


def consts_for(pset):
    out, _, _ = vrun(['c06', 'consts', '--pset', pset])
    c = json.loads(out.strip().splitlines()[-1])
    base = dict(NS=c['NS'], L=c['L'], NR=4, LQ=c['LQ'], LDelta=c['LDelta'], K=c['K'], Real=c['Real'],
                MaxDepth=2, MaxFb=8, MaxMb=7, ScaleTol=48)
    return c, base


def pools(c, pset, small=False):
    v1 = [[1, 0], [-1, 0], [2, 1], [0, -3], [4, 4], [-2, 3], [0, 0], [1, -1]]
    v2 = [[1, 2], [-3, 0], [5, -1], [2, 2], [0, 1], [-4, 3], [7, 0], [1, 1]]
    v3 = [[1, 0], [-2, 0], [3, 0], [0, 0], [5, 0], [-1, 0], [2, 0], [4, 0]]
    if c['Real']:
        v1 = [[x, 0] for x, _ in v1]
        v2 = [[x, 0] for x, _ in v2]
    vec = [dict(v=v1, fb=0), dict(v=v2, fb=2), dict(v=v3, fb=1)]
    scal = [(2, 0, 0, 'int'), (-3, 0, 0, 'bigint'), (1, 1, 0, 'c128'), (1, 0, 1, 'f64'), (3, -1, 2, 'c128'), (-5, 0, 2, 'bigfloat'),
            (1, 2, 1, 'bigcomplex'), (3, 0, 0, 'uint'), (0, 0, 0, 'int'), (0, 1, 0, 'bigcomplex'), (-1, 0, 0, 'f64')]
    if c['Real']:
        scal = [s for s in scal if s[1] == 0]
    if small:
        vec = vec[:2]
        scal = [s for s in scal if s[3] in ('int', 'f64', 'c128', 'bigcomplex')][:4]
    delta_bits = c['LDelta'] // U
    return dict(VecPool=fs(*vec), ScalarPool=fs(*[dict(re=a, im=b, fb=f, ty=t) for a, b, f, t in scal]),
                PtScales=set([c['LDelta'], (delta_bits - 15) * U]), VecLens=set([8, 3] if pset in ('S', 'H') else [8]),
                RotPool=set(ROTS), LdPool=set([0, 1] if pset in ('S', 'H') else [0]))


def presets(c, pset):
    v1 = [[1, 0], [-1, 0], [2, 1], [0, -3], [4, 4], [-2, 3], [0, 0], [1, -1]]
    v2 = [[1, 2], [-3, 0], [5, -1], [2, 2], [0, 1], [-4, 3], [7, 0], [1, 1]]
    if c['Real']:
        v1 = [[x, 0] for x, _ in v1]
        v2 = [[x, 0] for x, _ in v2]
    L, D = c['L'], c['LDelta']
    out = {}
    for keys in ("full", "gal", "none"):
        pre = [dict(op="Reset", keys=keys),
               dict(op="Load", o=1, v=v1, fb=0, ls=D, lvl=L, ld=0), dict(op="Load", o=2, v=v2, fb=2, ls=D, lvl=L, ld=0),
               dict(op="Load", o=3, v=v1, fb=0, ls=D, lvl=L - c['K'], ld=0),
               dict(op="Mul", a=1, b=dict(k="ct", r=2), o=4, new=True, k=0)]
        out["X-" + keys] = pre
    # Y: a rescaled product (scale ~ Delta, one level down), an upscaled register and a degree-2 register
    out["Y"] = [dict(op="Reset", keys="full"),
                dict(op="Load", o=1, v=v1, fb=0, ls=D, lvl=L, ld=0), dict(op="Load", o=2, v=v2, fb=2, ls=D, lvl=L, ld=0),
                dict(op="MulRelin", a=1, b=dict(k="ct", r=2), o=3, new=True, k=0),
                dict(op="Rescale", a=3, b=dict(k="none"), o=3, new=False, k=0),
                dict(op="Mul", a=1, b=dict(k="ct", r=1), o=4, new=True, k=0)]
    # Z: a degree-2 product at scale Delta^2 next to degree-1 registers at Delta^2 and Delta^3 (unequal scales, unequal degrees)
    ptD = dict(k="pt", v=v1, fb=0, ls=D, lvl=L)
    out["Z"] = [dict(op="Reset", keys="full"),
                dict(op="Load", o=1, v=v2, fb=2, ls=D, lvl=L, ld=0),
                dict(op="Mul", a=1, b=dict(k="ct", r=1), o=2, new=True, k=0),
                dict(op="Mul", a=1, b=ptD, o=3, new=True, k=0),
                dict(op="Mul", a=3, b=ptD, o=4, new=True, k=0)]
    # W: registers of different slot dimensions (sparse sets only): 1 and 3 at the set's dimensions, 2 and 4 at the maximum
    if pset in ('S', 'H'):
        out["W"] = [dict(op="Reset", keys="full"),
                    dict(op="Load", o=1, v=v1, fb=0, ls=D, lvl=L, ld=0), dict(op="Load", o=2, v=v2, fb=2, ls=D, lvl=L, ld=1),
                    dict(op="Load", o=3, v=v1, fb=0, ls=D, lvl=L - c['K'], ld=0),
                    dict(op="Load", o=4, v=v2, fb=2, ls=D, lvl=L, ld=1)]
    return out


def describe(e):
    b = e.get('b') or {}
    return "%s(a=%s, b=%s, out=%s%s, k=%s) err=%s panic=%s res=%s %s" % (
        e.get('op'), e.get('a'), json.dumps({k: v for k, v in b.items() if k in ('k', 'r', 'fb', 're', 'im', 'ty', 'len', 'ls', 'lvl')}),
        e.get('o'), ' new' if e.get('new') else '', e.get('k'), e.get('err'), e.get('panic'), json.dumps(e.get('res'))[:300], (e.get('msg') or '')[:80])


def signature(e):
    b = e.get('b') or {}
    alias = []
    if not e.get('new'):
        if e.get('o') == e.get('a'):
            alias.append('out=op0')
        if b.get('k') == 'ct' and b.get('r') == e.get('o'):
            alias.append('out=op1')
    if b.get('k') == 'ct' and b.get('r') == e.get('a'):
        alias.append('op0=op1')
    return "ckks:%s:%s:%s%s" % (e.get('op'), b.get('k', '-'), '+'.join(alias) or 'noalias', ':panic' if e.get('panic') else '')


def fork_programs(progs, plen):
    groups = {}
    for p in progs:
        st = json.loads(p)
        groups.setdefault(json.dumps(st[:plen]), []).append(st[plen:])
    out, index = [], []
    for pre, tails in groups.items():
        pre = json.loads(pre)
        for i in range(0, len(tails), 300):
            steps, idx = list(pre) + [dict(op="Save")], {}
            for j, t in enumerate(tails[i:i + 300]):
                steps += t + [dict(op="Restore")]
                idx[j + 1] = pre + t
            out.append(json.dumps(steps))
            index.append(idx)
    return out, index


def exec_and_validate(ctx, d, pset, base, progs, tag, frame, plen=None):
    nprogs = len(progs)
    index = None
    if plen:
        progs, index = fork_programs(progs, plen)
    nproc = max(1, min(NCPU // 2, len(progs)))
    lines = []

    def run_part(i):
        part = progs[i::nproc]
        pf = os.path.join(d, 'progs-%s-%d.ndjson' % (tag, i))
        open(pf, 'w').write("\n".join(part) + "\n")
        tf = os.path.join(d, 'trace-%s-%d.ndjson' % (tag, i))
        vrun(['c06', 'exec', '--pset', pset, '--progs', pf, '--trace', tf, '--seed', ctx.seed + i, '--rots', json.dumps(ROTS)])
        evs = [json.loads(x) for x in open(tf)]
        for e in evs:
            e['prog'] = (e['prog'] - 1) * nproc + i + 1
            if index is not None and e.get('fork', 0) > 0 and e.get('op') not in ('Save', 'Restore'):
                e['indep'] = True     # an alternative tried from the checkpoint
        return evs

    with ThreadPoolExecutor(max_workers=nproc) as ex:
        for evs in ex.map(run_part, range(nproc)):
            lines += evs
    consts = dict(base, CheckFrame=frame, TolBits=12)
    rej, stats = validate_programs(d, 'MC_ApproxEvalTrace', 'ApproxEvalTrace', consts, TRACE_CFG, lines, sigfn=(signature if index is not None else None))
    ctx.add_trace_stats(stats, nprogs - len(rej))
    ctx.cov["programs"] += nprogs
    for r in rej[:12]:
        e = r['event']
        if index is not None:
            prog = index[r['prog'] - 1][1][:e['idx']] if r['fork'] == 0 else index[r['prog'] - 1][r['fork']]
            stepno = len(prog)
        else:
            prog = json.loads(progs[r['prog'] - 1])
            stepno = e['idx']
        d2 = scratch('c06-repro')
        open(os.path.join(d2, 'p.ndjson'), 'w').write(json.dumps(prog) + "\n")
        vrun(['c06', 'exec', '--pset', pset, '--progs', os.path.join(d2, 'p.ndjson'), '--trace', os.path.join(d2, 't.ndjson'), '--seed', ctx.seed + 1000, '--rots', json.dumps(ROTS)])
        l2 = open(os.path.join(d2, 't.ndjson')).read().splitlines()
        rej2, _ = validate_programs(d2, 'MC_ApproxEvalTrace', 'ApproxEvalTrace', consts, TRACE_CFG, l2, chunks=1)
        if not rej2 or rej2[0]['event']['idx'] != stepno:
            raise Inconclusive("rejection of ckks program %d step %d not reproduced in isolation: %s" % (r['prog'], stepno, describe(e)))
        ctx.violation(describe(e), dict(family='approxeval', pset=pset, frame=frame, program=prog, step=stepno, event=e), sig=signature(e))
    return len(rej)


def run_approxeval(ctx, frame):
    psets = ["S", "R", "H"] if ctx.quick else ["S", "F", "R", "H"]
    nsim = 200 if ctx.quick else 3000
    if ctx.replay:
        rp = json.load(open(ctx.replay))
        c, base = consts_for(rp['pset'])
        d = scratch('c06-replay')
        exec_and_validate(ctx, d, rp['pset'], base, [json.dumps(rp['program'])], 'replay', rp.get('frame', frame))
        return
    for pi, pset in enumerate(psets):
        c, base = consts_for(pset)
        d = scratch('c06-%s' % pset)
        stage_specs(d)
        if pi == 0 or not ctx.quick or pset == 'H':
            for pname, prefix in presets(c, pset).items():
                if ctx.quick and (pname in ('X-gal',) or (pset == 'H' and pname not in ('X-full', 'W'))):
                    continue
                small = dict(base, Randomize=False, Depth=len(prefix) + 1, SimLen=0, OpPool=set(ALL_OPS), KeyKinds=set(["full"]), Prefix=prefix, **pools(c, pset, small=True))
                write_mc(d, 'MC_ApproxEvalGen', 'ApproxEvalGen', small, ['SPECIFICATION GenSpec', 'INVARIANT Emit', 'INVARIANT TypeOK'])
                r = tlc(d, 'MC_ApproxEvalGen', timeout=1500)
                ctx.add_mc(r, 'ApproxEvalGen exhaustive pset=%s preset=%s' % (pset, pname))
                progs = progs_from(r)
                log("[c06] exhaustive %s/%s: %d states, %d programs" % (pset, pname, r.distinct, len(progs)))
                if progs:
                    ctx.sample(dict(kind="exhaustive ckks program", pset=pset, preset=pname, program=json.loads(progs[len(progs) // 2])))
                    exec_and_validate(ctx, d, pset, base, progs, 'exh-' + pname, frame, plen=len(prefix))
        gen = dict(base, Randomize=True, Depth=12, SimLen=28, Prefix=[], OpPool=set(ALL_OPS), KeyKinds=set(["full", "gal", "none"]), **pools(c, pset))
        write_mc(d, 'MC_ApproxEvalSim', 'ApproxEvalGen', gen, ['SPECIFICATION GenSpec', 'INVARIANT Emit', 'INVARIANT TypeOK'])
        r = tlc(d, 'MC_ApproxEvalSim', workers=1, simulate=nsim, depth=28, seed=ctx.seed * 11 + pi, timeout=1500)
        if r.violated or r.errors:
            raise Inconclusive("ApproxEvalGen simulation failed: %s %s" % (r.violated, r.errors[:2]))
        ctx.cov["transitions"] += r.generated
        progs = progs_from(r)
        log("[c06] simulation pset=%s: %d programs" % (pset, len(progs)))
        if progs:
            ctx.sample(dict(kind="simulated ckks program", pset=pset, program=json.loads(progs[0])))
            exec_and_validate(ctx, d, pset, base, progs, 'sim', frame)
    ctx.cov["distinct_nontrivial"] = ctx.cov["programs"]
    ctx.cov["rule"] = ctx.cov.get("rule", "") + " ckks programs are behaviours of spec/ApproxEvalGen.tla (breadth-first from preset register files, and TLC simulation); distinct by TLC's fingerprint of the history variable."
