"""C15: t-out-of-N threshold: any t parties reconstruct, fewer cannot."""
import json, os
from vlib import *

TRACE_CFG = ['SPECIFICATION TraceSpec', 'CONSTRAINT Progress', 'POSTCONDITION TraceAccepted', 'CHECK_DEADLOCK FALSE']


def describe(e):
    return json.dumps({k: (v if not isinstance(v, list) or len(v) < 8 else str(v)[:60] + '...') for k, v in e.items() if k not in ('prog', 'fork', 'sum', 'secret', 'coeffs')})


def run(ctx):
    ctx.assumptions += [
        "toy fields: rlwe parameters with N=16 and a single prime q in {97,193,12289}; every logged vector (shares, aggregated shares, additive shares, their sum) is recomputed by TLC",
        "real size (LogN=10, 55/40/45-bit Q + 50-bit P, points up to 2^64-1): reconstruction identity on sampled coefficients of every modulus and listing independence (byte equality)",
        "public points are chosen distinct and non-zero modulo every modulus (a collision modulo q makes Lagrange interpolation undefined)",
    ]
    # (M) the design, exhaustively on scalars
    d = scratch('c15-mc')
    stage_specs(d)
    write_mc(d, 'MC_ThresholdMC', 'ThresholdMC', dict(Q=97, MaxN=3, PointPool=set([1, 2, 96] if ctx.quick else [1, 2, 96, 50]),
                                                    ValPool=set([0, 96] if ctx.quick else [0, 1, 96])),
             ['SPECIFICATION TSpec', 'INVARIANT Reconstruct', 'INVARIANT ListingIndependent'])
    r = tlc(d, 'MC_ThresholdMC', timeout=2400)
    ctx.add_mc(r, 'ThresholdMC')
    log("[c15] design: %d states" % r.distinct)
    # (T) the real library
    d = scratch('c15')
    tf = os.path.join(d, 't.ndjson')
    vrun(['c15', 'record', '--trace', tf, '--seed', ctx.seed, '--tier', ctx.tier])
    evs = [json.loads(x) for x in open(tf)]
    log("[c15] %d events, %d set-ups" % (len(evs), len(set(e['prog'] for e in evs))))
    rej, stats = validate_programs(d, 'MC_ThresholdTrace', 'ThresholdTrace', {}, TRACE_CFG, evs, max_rounds=10, chunks=NCPU - 2)
    ctx.add_trace_stats(stats, len(set(e['prog'] for e in evs)))
    ctx.cov['programs'] = len(set(e['prog'] for e in evs))
    ctx.cov['distinct_nontrivial'] = len(set((e['prog'], str(e.get('active'))) for e in evs if e['ev'] in ('recon', 'bigrecon', 'toofew')))
    ctx.cov['rule'] = "a case = (modulus, N, t, public points, active subset, listing order); all 1<=t<=N<=4 (5 thorough), all subsets, up to 6 listings each"
    s = [e for e in evs if e['ev'] == 'recon']
    ctx.sample({k: v for k, v in s[len(s) // 2].items() if k not in ('prog', 'fork')})
    for x in rej:
        e = x['event']
        setup = [y for y in evs if y['prog'] == e['prog'] and y['ev'] == 'setup'][0]
        ctx.violation(describe(e) + " setup=" + describe(setup), dict(family='threshold', setup=setup, event=e),
                      sig="thr:%s:%s" % (e['ev'], 'panic' if e.get('panic') else 'err' if e.get('err') else 'value'))
