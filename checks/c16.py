"""C16: collective key switching, share conversion and refresh preserve the message."""
import json, os
from concurrent.futures import ThreadPoolExecutor
from vlib import *

TRACE_CFG = ['SPECIFICATION TraceSpec', 'CONSTRAINT Progress', 'POSTCONDITION TraceAccepted', 'CHECK_DEADLOCK FALSE']


def sig_of(e):
    return "mps:%s:%s:%s" % (e.get('ev'), e.get('proto', '-'), 'panic' if e.get('panic') else ('err' if e.get('err') else 'value'))


def describe(e):
    return json.dumps({k: v for k, v in e.items() if k not in ('prog', 'fork', 'qdivn') and v not in ('', None)})


def gen_schedules(ctx, d, n, hops, sim=None):
    write_mc(d, 'MC_MPKeyGenGen', 'MPKeyGenGen', dict(Party=set(range(1, n + 1)), MaxShares=4 * n, WireHops=hops),
             ['SPECIFICATION GSpec', 'INVARIANT Emit', 'INVARIANT NoDoubleCount', 'INVARIANT Functional'])
    if sim:
        r = tlc(d, 'MC_MPKeyGenGen', workers=1, simulate=sim, depth=4 * n, seed=ctx.seed, timeout=900)
        if r.violated or r.errors:
            raise Inconclusive("MPKeyGenGen simulation failed: %s" % r.errors[:2])
        ctx.cov['transitions'] += r.generated
        return progs_from(r)[:sim]
    r = tlc(d, 'MC_MPKeyGenGen', timeout=900)
    ctx.add_mc(r, 'MPKeyGenGen all schedules N=%d hops<=%d' % (n, hops))
    return progs_from(r)


def run(ctx):
    ctx.assumptions += [
        "output noise bound is worst case: n shares of at most 6 sigma_eff each on top of the input's noise (public-key variant: plus ring degree times the error bound)",
        "smudging noise of a share is measured by removing c1*(s_in - s_out) (and the party's own mask) with the parties' secrets: floor(log2 variance) >= 2 lg sigma - 2, infinity norm <= 6 sigma_eff; not measured for the public-key variant and the approximate conversions",
        "approximate scheme: values compared within the worst-case slot error 2^(lg sigma + lg n + logN + 5) / scale (at least 1e-5); the sum of additive shares is compared with the centred decryption of the input, coefficient by coefficient",
        "parameter sets LogN=9: bgv t=97 and 65537 with 4 Q primes, ckks with 5 Q primes (full, 8 slots, conjugate-invariant); aggregation schedules from MPKeyGenGen",
    ]
    # (M) the protocol algebra on scalars
    d = scratch('c16-mc')
    stage_specs(d)
    pool = set([0, 1, 16]) if ctx.quick else set([0, 1, 16, 5])
    write_mc(d, 'MC_MPSwitchMC', 'MPSwitchMC', dict(Q=17, MaxN=2, Pool=pool, ErrPool=set([0, 16]) if ctx.quick else set([0, 1, 16]), MsgPool=set([0, 3])),
             ['SPECIFICATION Spec', 'INVARIANT KSCorrect', 'INVARIANT E2SCorrect', 'INVARIANT RoundTrip'])
    r = tlc(d, 'MC_MPSwitchMC', timeout=2400)
    ctx.add_mc(r, 'MPSwitchMC')
    if not ctx.quick:
        write_mc(d, 'MC_MPSwitchMC', 'MPSwitchMC', dict(Q=17, MaxN=3, Pool=set([1, 16]), ErrPool=set([0, 16]), MsgPool=set([0, 3])),
                 ['SPECIFICATION Spec', 'INVARIANT KSCorrect', 'INVARIANT E2SCorrect', 'INVARIANT RoundTrip'])
        r = tlc(d, 'MC_MPSwitchMC', timeout=2400)
        ctx.add_mc(r, 'MPSwitchMC N<=3')
    log("[c16] algebra: %d states" % ctx.cov['states'])
    # schedules
    d = scratch('c16-gen')
    stage_specs(d)
    scheds = {1: ['[{"ev":"gen","party":1,"id":1}]']}
    scheds[2] = gen_schedules(ctx, d, 2, 1)
    scheds[3] = gen_schedules(ctx, d, 3, 1 if not ctx.quick else 0)
    if ctx.quick:
        scheds[4] = gen_schedules(ctx, d, 4, 0)[ctx.seed % 7::7]
        scheds[8] = gen_schedules(ctx, d, 8, 1, sim=12)
    else:
        scheds[4] = gen_schedules(ctx, d, 4, 0)
        scheds[5] = gen_schedules(ctx, d, 5, 1, sim=60)
        scheds[6] = gen_schedules(ctx, d, 6, 1, sim=40)
        scheds[8] = gen_schedules(ctx, d, 8, 1, sim=40)
    for n, s in scheds.items():
        log("[c16] N=%d: %d schedules" % (n, len(s)))
    # configurations per parameter set
    out, _, _ = vrun(['c16', 'describe'])
    sets = json.loads([l for l in out.splitlines() if l.startswith('RESULT ')][0][7:])
    programs = []
    for st in sets:
        for n in sorted(scheds):
            write_mc(d, 'MC_MPSwitchGen', 'MPSwitchGen', dict(LgQ=st['lgq'], LgT=st['lgt'], LogN=st['logn'], NParties=n, Scheme=st['scheme'],
                                                               SigmaSet=set([3, 10, 20, 30]) if st['scheme'] == 'bgv' else set([3, 10, 20])),
                     ['SPECIFICATION GSpec', 'INVARIANT Emit'])
            r = tlc(d, 'MC_MPSwitchGen', timeout=900)
            ctx.add_mc(r, 'MPSwitchGen %s N=%d' % (st['name'], n))
            cfgs = [json.loads(x) for x in progs_from(r)]
            if st['scheme'] == 'ckks':
                cfgs = [c for c in cfgs if c['f'] not in ('coef', 'id', 'permdec', 'permenc')]
            if st['name'] != 'bgv97' and st['name'] != 'ckks':
                # secondary sets: thinner
                cfgs = cfgs[ctx.seed % 3::3]
            if ctx.quick:
                cfgs = cfgs[(ctx.seed + n) % 6::6]
            elif n > 4:
                cfgs = cfgs[(ctx.seed + n) % 4::4]
            sl = scheds[n]
            for i, c in enumerate(cfgs):
                programs.append(dict(set=st['name'], n=n, c=c, sched=json.loads(sl[(i * 7 + ctx.seed) % len(sl)])))
        # every schedule of three parties on two protocols of this set
        if st['name'] in ('bgv97', 'ckks'):
            top = len(st['lgq']) - 1
            for sch in scheds[3]:
                for c in (dict(proto='ks', inlvl=top - 1, outlvl=top - 1, lgsigma=10, sc='default', f='none'),
                          dict(proto='refresh', inlvl=1, outlvl=top, lgsigma=10, sc='default', f='none')):
                    programs.append(dict(set=st['name'], n=3, c=c, sched=json.loads(sch)))
    if ctx.replay:
        rp = json.load(open(ctx.replay))
        programs = [rp['program']]
    log("[c16] %d programs" % len(programs))
    d = scratch('c16')
    pf = os.path.join(d, 'progs.ndjson')
    open(pf, 'w').write("\n".join(json.dumps(p) for p in programs) + "\n")
    NPART = NCPU - 2

    def job(part):
        tf = os.path.join(d, 't%d.ndjson' % part)
        vrun(['c16', 'run', '--progs', pf, '--trace', tf, '--seed', ctx.seed, '--part', part, '--parts', NPART], timeout=3000)
        return [json.loads(x) for x in open(tf)]

    evs = []
    with ThreadPoolExecutor(max_workers=NPART) as ex:
        for e in ex.map(job, range(NPART)):
            evs += e
    # program index -> program (for replay files)
    byprog = {}
    for part in range(NPART):
        idx = [i for i in range(len(programs)) if i % NPART == part]
        for k, i in enumerate(idx):
            byprog[part * 1_000_000 + k + 1] = programs[i]
    nof = {}
    for e in evs:
        if e['ev'] == 'new':
            nof[e['prog']] = e.get('n') or 3
    for e in evs:
        e['fork'] = 0
    log("[c16] %d events" % len(evs))
    rejs = []
    for n in sorted(set(nof.values())):
        sub = [e for e in evs if nof.get(e['prog']) == n]
        consts = dict(Party=set(range(1, n + 1)), MaxShares=64)
        rej, stats = validate_programs(scratch('c16-tv%d' % n), 'MC_MPSwitchTrace', 'MPSwitchTrace', consts, TRACE_CFG, sub, max_rounds=30)
        ctx.add_trace_stats(stats, len(set(e['prog'] for e in sub)))
        rejs += rej
    ctx.cov['programs'] = len(set(e['prog'] for e in evs))
    ctx.cov['distinct_nontrivial'] = len(set(json.dumps([p['set'], p['n'], p['c']], sort_keys=True) for p in programs))
    ctx.cov['rule'] = "a case = (parameter set, number of parties, protocol configuration from MPSwitchGen, aggregation schedule from MPKeyGenGen); counted: distinct (set, parties, configuration)"
    fin = [e for e in evs if e['ev'] == 'final']
    if fin:
        ctx.sample({k: v for k, v in fin[len(fin) // 2].items() if k not in ('prog', 'fork', 'qdivn')})
    sm = [e for e in evs if e['ev'] == 'smudge']
    if sm:
        ctx.sample({k: v for k, v in sm[len(sm) // 2].items() if k in ('ev', 'proto', 'set', 'party', 'lgsigma', 'varbits', 'maxbits')})
    ctx.notes['finals'] = len(fin)
    ctx.notes['smudge_events'] = len(sm)
    seen = set()
    for x in rejs:
        e = x['event']
        pg = byprog.get(e['prog'])
        s = sig_of(e) + ":" + (e.get('set') or (pg or {}).get('set', '-'))
        if e['ev'] == 'final':
            s += ":%s:%s:%s" % (e.get('sc'), e.get('f'), 'same' if e.get('same') else 'diff')
        if s in seen:
            continue
        seen.add(s)
        ctx.violation(describe(e), dict(family='mpswitch', program=pg, event=e), sig=s)
