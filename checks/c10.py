"""C10: copies are complete, independent and safe to use concurrently."""
import json, os, re
from vlib import *

TRACE_CFG = ['SPECIFICATION TraceSpec', 'CONSTRAINT Progress', 'POSTCONDITION TraceAccepted', 'CHECK_DEADLOCK FALSE']
CLASSES = ["config", "ro", "scratch", "rand", "lazy"]
POLICY = Raw('[orig |-> {}, shallow |-> {"config", "ro"}, rebind |-> {"config", "ro", "scratch", "rand", "lazy"}]')
BAD = Raw('[orig |-> {}, shallow |-> {"config", "ro", "lazy"}, rebind |-> {"config", "ro", "scratch", "rand", "lazy"}]')


def describe(e):
    d = {k: v for k, v in e.items() if k not in ('prog', 'fork', 'ops') and v not in ('', None, [], False)}
    d['failing_ops'] = [o for o in e.get('ops', []) if not (o['eq'] and o['again'] and (not o['errcopy'] or o['errorig']))]
    return json.dumps(d)[:900]


def run(ctx):
    ctx.assumptions += [
        "memory of an object = slice backing arrays and maps reachable through reflection (unexported fields included); closures and channels are not followed",
        "operation batteries are finite: rlwe/bgv(both modes)/ckks/rgsw evaluators, encryptors (sk, pk), decryptor, encoders (bgv, ckks 53 and 128 bits), basis extender, ring level views, deep copies of ciphertexts, plaintexts, keys, polynomials; multiparty protocols are probed through a two-party run in which the second party uses a ShallowCopy (sigma = 2^20)",
        "randomised results (encryptions, protocol shares) are compared through classes of their noise, deterministic ones through digests",
        "data races are decided by Go's race detector on schedules at operation granularity (2..16 goroutines, own copy each, shared keys and parameters)",
    ]
    # (M) the ownership design: all interleavings; a policy sharing a lazily filled table must violate
    d = scratch('c10-mc')
    stage_specs(d)
    gor = set([1, 2, 3]) if ctx.quick else set([1, 2, 3, 4])
    for pol, name in ((POLICY, 'design'), (BAD, 'mutant')):
        write_mc(d, 'MC_Ownership', 'Ownership', dict(Classes=CLASSES, Goroutines=gor, Kinds=set(["orig", "shallow", "rebind"]), SharePolicy=pol),
                 ['SPECIFICATION Spec', 'INVARIANT NoConflict', 'INVARIANT Independent'])
        r = tlc(d, 'MC_Ownership', timeout=1800)
        if name == 'design':
            ctx.add_mc(r, 'Ownership')
        elif not r.violated:
            raise Inconclusive("the mutant policy (shallow copies share a lazily filled table) violates nothing: invariants vacuous")
    # (G) schedules
    d = scratch('c10')
    stage_specs(d)
    scheds = []
    for G, L, sim in ((2, 2, None), (3, 1, None), (4, 2, 12), (8, 2, 6), (16, 1, 3)) if ctx.quick else ((2, 2, None), (3, 2, 200), (4, 2, 40), (8, 3, 20), (16, 2, 10)):
        write_mc(d, 'MC_OwnershipGen', 'OwnershipGen', dict(G=G, OpsN=3, SeqLen=L, KindSet=set(["orig", "shallow"])), ['SPECIFICATION GSpec', 'INVARIANT Emit'])
        if sim:
            r = tlc(d, 'MC_OwnershipGen', workers=1, simulate=sim, depth=G + 1, seed=ctx.seed, timeout=600)
            if r.violated or r.errors:
                raise Inconclusive("OwnershipGen simulation failed: %s" % r.errors[:2])
            scheds += progs_from(r)[:sim]
        else:
            r = tlc(d, 'MC_OwnershipGen', timeout=600)
            ctx.add_mc(r, 'OwnershipGen G=%d' % G)
            scheds += progs_from(r)
    scheds = list(dict.fromkeys(scheds))
    if ctx.quick:
        scheds = scheds[ctx.seed % 3::3]
    sf = os.path.join(d, 'scheds.ndjson')
    open(sf, 'w').write("\n".join(scheds) + "\n")
    log("[c10] %d schedules" % len(scheds))
    # (T) copies
    tf = os.path.join(d, 'copy.ndjson')
    vrun(['c10', 'run', '--mode', 'copy', '--trace', tf, '--seed', ctx.seed], timeout=3000)
    evs = [json.loads(x) for x in open(tf)]
    # schedules under the race detector
    tf2 = os.path.join(d, 'sched.ndjson')
    racelog = os.path.join(d, 'race')
    for f in os.listdir(d):
        if f.startswith('race.'):
            os.remove(os.path.join(d, f))
    out, _, rc = vrun(['c10', 'run', '--mode', 'sched', '--trace', tf2, '--scheds', sf, '--seed', ctx.seed], race=True, timeout=3400,
                      env={'GORACE': 'halt_on_error=0 exitcode=0 history_size=3'}, check=False)
    if not os.path.exists(tf2):
        raise Inconclusive("race-detector run produced no trace:\n" + out[-3000:])
    sevs = [json.loads(x) for x in open(tf2)]
    # attribute race reports to schedules through the markers on the same stream
    cur, races, sample = None, {}, {}
    for line in out.splitlines():
        m = re.match(r'SCHED-BEGIN (\d+)', line)
        if m:
            cur = int(m.group(1))
        elif line.startswith('SCHED-END'):
            cur = None
        elif 'WARNING: DATA RACE' in line:
            races[cur] = races.get(cur, 0) + 1
        elif cur in races and cur not in sample and re.search(r'lattigo/v6/[\w/]+\.[\w\(\)\*\.]+\(', line):
            sample[cur] = line.strip()
    unattributed = races.pop(None, 0)
    if unattributed and sevs:
        races[sevs[-1]['prog']] = races.get(sevs[-1]['prog'], 0) + unattributed
    for e in sevs:
        e['races'] = races.get(e['prog'], 0)
        if e['races']:
            e['msg'] = (e.get('msg') or '') + ' race at ' + sample.get(e['prog'], '?')
        e['prog'] += 100000
    allevs = evs + sevs
    for e in allevs:
        e['fork'] = 0
        e.setdefault('written', [])
        e.setdefault('ops', [])
    log("[c10] %d copy events, %d schedule events, %d race reports" % (len(evs), len(sevs), sum(races.values())))
    rej, stats = validate_programs(d, 'MC_OwnershipTrace', 'OwnershipTrace', {}, TRACE_CFG, allevs, max_rounds=40, chunks=4)
    ctx.add_trace_stats(stats, len(allevs))
    ctx.cov['programs'] = len(allevs)
    ctx.cov['distinct_nontrivial'] = len(set((e['subject'], e.get('kind'), e.get('sched')) for e in allevs))
    ctx.cov['rule'] = "a case = (type, copy constructor) compared with its original, or (type, schedule from OwnershipGen) run under the race detector"
    ctx.notes['subjects'] = sorted(set(e['subject'] for e in evs))
    ctx.notes['shared_regions_hashed'] = sum(e.get('nshared', 0) for e in evs)
    ctx.sample({k: v for k, v in evs[0].items() if k not in ('prog', 'fork')})
    if sevs:
        ctx.sample({k: v for k, v in sevs[len(sevs) // 2].items() if k not in ('prog', 'fork', 'ops', 'written')})
    seen = set()
    for x in rej:
        e = x['event']
        if e['ev'] == 'copy':
            bad = [o['op'] for o in e['ops'] if not (o['eq'] and o['again'] and (not o['errcopy'] or o['errorig']))]
            s = "own:copy:%s:%s:%s" % (e['subject'], e.get('kind'), 'panic' if e.get('panic') else ('written' if e.get('written') else ('shared' if e.get('deep') and e.get('nshared') else 'ops:' + ",".join(bad))))
        else:
            s = "own:sched:%s:%s" % (e['subject'], 'panic' if e.get('panic') else ('race' if e.get('races') else 'result'))
        if s in seen:
            continue
        seen.add(s)
        ctx.violation(describe(e), dict(family='ownership', event=e), sig=s)
