"""C17: samplers respect their distribution contract and are reproducible from a seed."""
import json, math, os
from concurrent.futures import ThreadPoolExecutor
from vlib import *

TRACE_CFG = ['SPECIFICATION TraceSpec', 'CONSTRAINT Progress', 'POSTCONDITION TraceAccepted', 'CHECK_DEADLOCK FALSE']
TOY3 = [97, 193, 257]          # N = 16: q = 1 mod 32
TOY3N256 = [12289, 7681, 10753]  # N = 256: q = 1 mod 512


def gauss_probs(sigma, bound, t):
    """P(|x| <= t) for x = floor(|Z| sigma + 1/2) * sign, conditioned on |Z| sigma <= bound."""
    cdf = lambda v: math.erf(v / (sigma * math.sqrt(2)))
    norm = cdf(bound)
    return min(cdf(t + 0.5), norm) / norm


def fams(ctx):
    """The sampler configurations: a mathematical description each (distribution, ring, thresholds and the
    probabilities the contract implies) -- nothing here is taken from the code under test."""
    out = []

    def add(id, dist, logn=4, moduli=None, bits=None, statn=0, **kw):
        f = dict(id=id, dist=dist, logn=logn, moduli=moduli or [], bits=bits or [], np=0, sigma=0.0, bound=0.0, p=0.0, h=0,
                 mont=False, t1=0.0, t2=0.0, big=False, statn=statn)
        f.update(kw)
        n = 1 << logn
        if dist in ('uniform', 'uniformqp'):
            q0 = (moduli or [1 << (bits[0] - 1)])[0] if moduli else (1 << bits[0])
            f['p1'] = round(4096 * (q0 + 1) / (2 * q0)) if moduli else 2048
            f['p2'] = round(4096 * (q0 - 1) / (2 * q0)) if moduli else 2048
            f['ent'] = int(n * math.log2(q0))
        elif dist == 'gaussian':
            s, b = f['sigma'], f['bound']
            if f['big']:
                f['t1'], f['t2'] = s, 2 * s
                norm = math.erf(b / (s * math.sqrt(2)))
                f['p1'] = round(4096 * min(math.erf(1 / math.sqrt(2)), norm) / norm)
                f['p2'] = round(4096 * min(math.erf(2 / math.sqrt(2)), norm) / norm)
                f['ent'] = n * 50
            else:
                f['t1'], f['t2'] = float(math.floor(s)), float(math.floor(2 * s))
                f['p1'] = round(4096 * gauss_probs(s, b, f['t1']))
                f['p2'] = round(4096 * gauss_probs(s, b, f['t2']))
                p0 = gauss_probs(s, b, 0)
                f['ent'] = int(n * -math.log2(max(p0, 1e-300))) if p0 < 1 else 0
        elif dist == 'ternaryP':
            p = f['p']
            f['p1'] = round(4096 * p)
            f['p2'] = round(4096 * p / 2)
            f['ent'] = int(n * -math.log2(max(1 - p, p / 2)))
        elif dist == 'ternaryH':
            h = min(f['h'], n)
            f['p1'] = round(4096 * h / n)
            f['p2'] = round(4096 * h / n / 2)
            f['ent'] = int(math.log2(math.comb(n, h)) + h)
        out.append(f)

    S = 65536 if not ctx.quick else 32768
    add('u-toy', 'uniform', moduli=TOY3, statn=S)
    add('u-257', 'uniform', moduli=[257, 97, 193], statn=S)
    add('u-12289', 'uniform', logn=8, moduli=TOY3N256, statn=S)
    add('u-real', 'uniform', logn=10, bits=[55, 45, 60], statn=S)
    add('uqp-toy', 'uniformqp', moduli=[97, 193, 257, 353], np=2, statn=S)
    add('uqp-real', 'uniformqp', logn=9, bits=[50, 40, 55], np=1, statn=S)
    add('g-3.2', 'gaussian', moduli=TOY3, sigma=3.2, bound=19.2, statn=S)
    add('g-3.2-mont', 'gaussian', moduli=TOY3, sigma=3.2, bound=19.2, mont=True, statn=S)
    add('g-3.2-n256', 'gaussian', logn=8, moduli=TOY3N256, sigma=3.2, bound=19.2, statn=S)
    add('g-0.5', 'gaussian', logn=8, moduli=TOY3N256, sigma=0.5, bound=1.0, statn=S)
    add('g-1', 'gaussian', moduli=TOY3, sigma=1.0, bound=6.0, statn=S)
    add('g-trunc', 'gaussian', logn=8, moduli=TOY3N256, sigma=100.0, bound=150.0, statn=S)
    add('g-real', 'gaussian', logn=10, bits=[55, 45, 60], sigma=3.2, bound=19.2, statn=S)
    add('g-2p40', 'gaussian', logn=6, bits=[55, 45, 60], sigma=2.0 ** 40, bound=2.0 ** 42, statn=S)
    add('g-2p55', 'gaussian', logn=6, bits=[60, 59, 58], sigma=2.0 ** 55, bound=2.0 ** 60, statn=S)
    add('g-big', 'gaussian', logn=6, bits=[60, 59, 58], sigma=2.0 ** 60, bound=2.0 ** 66, big=True, statn=S)
    add('g-big-trunc', 'gaussian', logn=6, bits=[60, 59, 58], sigma=2.0 ** 64, bound=2.0 ** 65, big=True, statn=S)
    add('g-big-mont', 'gaussian', logn=6, bits=[60, 59, 58], sigma=1.5 * 2.0 ** 70, bound=9 * 2.0 ** 70, big=True, mont=True, statn=S)
    for p, name in ((0.5, 'half'), (2.0 / 3, '2third'), (0.1, 'tenth'), (0.9, '9tenth')):
        add('tp-' + name, 'ternaryP', logn=8, moduli=TOY3N256, p=p, statn=S)
    add('tp-half-mont', 'ternaryP', moduli=TOY3, p=0.5, mont=True, statn=S)
    add('tp-2third-real', 'ternaryP', logn=10, bits=[55, 45, 60], p=2.0 / 3, mont=True, statn=S)
    hs = [1, 2, 5, 8, 15, 16, 17] if ctx.quick else list(range(1, 19))
    for h in hs:
        add('th-%d' % h, 'ternaryH', moduli=TOY3, h=h, mont=(h % 2 == 0), statn=4096)
    for h in ([32, 192] if ctx.quick else [1, 31, 32, 33, 64, 192, 255, 256, 300]):
        add('th-n256-%d' % h, 'ternaryH', logn=8, moduli=TOY3N256, h=h, statn=S)
    add('th-real-192', 'ternaryH', logn=10, bits=[55, 45, 60], h=192, mont=True, statn=S)
    return out


def sig_of(e):
    return "smp:%s:%s:%s:%s" % (e.get('ev'), e.get('fam', '-').split('-')[0], e.get('op', '-'), 'panic' if e.get('panic') else 'value')


def describe(e):
    return json.dumps({k: v for k, v in e.items() if k not in ('prog', 'fork') and v not in ('', None)})


def run(ctx):
    ctx.assumptions += [
        "the sampled value of ReadAndAdd is output minus input, row by row; a Montgomery sampler adds/writes the Montgomery form of its sample (brought back with big.Int arithmetic before comparison)",
        "statistical clauses are one-sided acceptance tests with false-alarm probability < 2^-60 per test (Hoeffding, dev^2 >= 22 n): counts of |x| <= floor(sigma), |x| <= floor(2 sigma) (gaussian), non-zero / positive (ternary), lower half / odd (uniform), sign balance",
        "distinct keys / freshness are demanded only of samples with at least 80 bits of min-entropy",
        "indistinguishability of streams under distinct keys is not a state property; only inequality of digests is decided",
    ]
    # (M) the buffer / pointer design: every interleaving of calls on level views, every rejection pattern, Reset
    d = scratch('c17-mc')
    stage_specs(d)
    for kind in ('uniform', 'gaussian'):
        for share in (True, False):
            write_mc(d, 'MC_SamplerMC', 'SamplerMC',
                     dict(Kind=kind, BufTok=4, NCoef=3, MaxLevel=1 if ctx.quick else 2, MaxCalls=3, MaxTok=80, SharePtr=share),
                     ['SPECIFICATION Spec', 'INVARIANT NoReuse', 'INVARIANT Replay'])
            r = tlc(d, 'MC_SamplerMC', timeout=1800)
            if share:
                ctx.add_mc(r, 'SamplerMC %s' % kind)
            elif kind == 'uniform' and 'NoReuse' not in r.violated:
                raise Inconclusive("the mutant design (views copy buffer and pointer) does not violate NoReuse: the invariant is vacuous")
    log("[c17] design: %d states" % ctx.cov['states'])

    # (G) call sequences from the specification
    d = scratch('c17')
    stage_specs(d)
    ops, views = set(['read', 'new', 'add']), set(['base', 'v0', 'v1', 'v0of1', 'v0fresh'])
    seqs = []
    for L in ((1, 2) if ctx.quick else (1, 2, 3)):
        write_mc(d, 'MC_SamplerGen', 'SamplerGen', dict(Len0=L, Ops=ops, Views=views), ['SPECIFICATION GSpec', 'INVARIANT Emit'])
        r = tlc(d, 'MC_SamplerGen', timeout=900)
        ctx.add_mc(r, 'SamplerGen len %d' % L)
        seqs += progs_from(r)
    for L, num in (((4, 40), (6, 20)) if ctx.quick else ((4, 300), (6, 200), (9, 60))):
        write_mc(d, 'MC_SamplerGen', 'SamplerGen', dict(Len0=L, Ops=ops, Views=views), ['SPECIFICATION GSpec', 'INVARIANT Emit'])
        r = tlc(d, 'MC_SamplerGen', workers=1, simulate=num, depth=L + 1, seed=ctx.seed, timeout=900)
        if r.violated or r.errors:
            raise Inconclusive("SamplerGen simulation failed: %s" % r.errors[:2])
        seqs += progs_from(r)[:num]
    seqs = list(dict.fromkeys(seqs))
    log("[c17] %d call sequences" % len(seqs))
    F = fams(ctx)
    if ctx.replay:
        rp = json.load(open(ctx.replay))
        F = [f for f in F if f['id'] == rp['fam']] or F
        if rp.get('seq'):
            seqs = [json.dumps(rp['seq'])]
    # the exhaustive length-3 sequences only on one family per distribution (cost), the others on all
    CORE = ('u-toy', 'uqp-toy', 'g-3.2-mont', 'tp-half-mont', 'tp-2third', 'th-5', 'g-big')
    exh = 2 if ctx.quick else 3          # exhaustive length reserved for the core families
    long3 = [q for q in seqs if len(json.loads(q)) == exh]
    short = [q for q in seqs if len(json.loads(q)) != exh and (exh == 2 or len(json.loads(q)) != 2)] + long3[ctx.seed % 8::8]
    if not ctx.quick:
        short += [q for q in seqs if len(json.loads(q)) == 2][ctx.seed % 3::3]
    NPART = NCPU - 2
    jobs = []
    for tag, fl, sl, extras in (('a', F, short, True), ('b', [f for f in F if f['id'] in CORE], long3, False)):
        if not fl or not sl:
            continue
        ff = os.path.join(d, 'fams-%s.json' % tag)
        json.dump(fl, open(ff, 'w'))
        sf = os.path.join(d, 'seqs-%s.ndjson' % tag)
        open(sf, 'w').write("\n".join(sl) + "\n")
        for part in range(NPART):
            jobs.append((tag, ff, sf, part, extras))

    def job(j):
        tag, ff, sf, part, extras = j
        tf = os.path.join(d, 't%s%d.ndjson' % (tag, part))
        vrun(['c17', 'run', '--fams', ff, '--seqs', sf, '--trace', tf, '--seed', ctx.seed, '--part', part, '--parts', NPART] + (['--extras'] if extras else []), timeout=3000)
        out = [json.loads(x) for x in open(tf)]
        for e in out:
            e['prog'] = (tag, e['prog'])
            e['fork'] = 0
        return out

    evs = []
    with ThreadPoolExecutor(max_workers=NPART) as ex:
        for e in ex.map(job, jobs):
            evs += e
    ids = {}
    for e in evs:
        e['prog'] = ids.setdefault(e['prog'], len(ids) + 1)
    log("[c17] %d events, %d programs" % (len(evs), len(set(e['prog'] for e in evs))))
    famrec = {f['id']: dict(dist=f['dist'], h=f['h'], p1=f['p1'], p2=f['p2'], ent=f['ent']) for f in F}
    for x in ('bytes', 'expand', 'crp'):
        famrec[x] = dict(dist='none', h=0, p1=0, p2=0, ent=0)
    consts = dict(Fams=Raw("[f \\in {%s} |-> CASE %s]" % (", ".join(tla(k) for k in famrec),
                                                        " [] ".join("f = %s -> %s" % (tla(k), tla(v)) for k, v in famrec.items()))))
    rej, stats = validate_programs(d, 'MC_SamplerTrace', 'SamplerTrace', consts, TRACE_CFG, evs, max_rounds=20, chunks=NCPU - 2, sigfn=None)
    nprog = len(set(e['prog'] for e in evs))
    ctx.add_trace_stats(stats, nprog)
    ctx.cov['programs'] = nprog
    ctx.cov['distinct_nontrivial'] = len(set((e['fam'], e['d']) for e in evs if e['ev'] == 'call' and e.get('rep') == 'A'))
    ctx.cov['rule'] = ("a case = (sampler configuration, call sequence from SamplerGen) run by replicas A,B (same key), M (other Montgomery setting), "
                       "R (after Reset), C (other key), W (WithPRNG); counted: distinct sampled values of replica A. %d configurations x %d sequences" % (len(F), len(seqs)))
    c = [e for e in evs if e['ev'] == 'call']
    ctx.sample({k: v for k, v in c[len(c) // 2].items() if k not in ('prog', 'fork')})
    st = [e for e in evs if e['ev'] == 'stat']
    if st:
        ctx.sample({k: v for k, v in st[len(st) // 2].items() if k not in ('prog', 'fork', 'd', 'd0')})
    seen = set()
    byprog = {}
    for e in evs:
        byprog.setdefault(e['prog'], []).append(e)
    for x in rej:
        e = x['event']
        s = sig_of(e) + ":" + e.get('fam', '')
        if s in seen:
            continue
        seen.add(s)
        seq = [dict(op=y['op'], view=y['view']) for y in byprog[e['prog']] if y['ev'] == 'call' and y.get('rep') == 'A']
        ctx.violation(describe(e), dict(family='sampler', fam=e.get('fam'), seq=seq, event=e), sig=s)
