"""C03: fresh encryptions decrypt to the message with an error within the declared distribution."""
from checks.rlwecore import run_family


def run(ctx):
    ctx.assumptions += [
        "seven parameter sets at N=2^10 (1..5 Q primes of 35..60 bits, 0..3 P primes, sparse ternary secret with sigma 8, conjugate-invariant ring); every level, degree 0/1/2 targets, NTT x Montgomery plaintext domains, encryptors obtained by NewEncryptor / ShallowCopy / WithKey / WithPRNG",
        "the error is measured by decrypting with the secret key and subtracting the plaintext; bounds are the worst case over the declared distributions (spec/RlweCore.tla FreshBits), the lower bounds are std >= sigma/2 (sk) or 1/4 (pk) and two encryptions of one plaintext differ",
        "N is fixed to 2^10: the bounds scale with N but the code paths do not",
    ]
    run_family(ctx, 'enc')
