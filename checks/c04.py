"""C04: key switching keeps the message and adds at most the error of its key parameterisation."""
import json
from checks.rlwecore import run_family
from checks.ringpack import run_ringpack


def run(ctx):
    ctx.assumptions += [
        "seven parameter sets at N=2^10; evaluation keys for every (LevelQ, LevelP, BaseTwoDecomposition, Compressed) the library accepts, applied at every ciphertext level <= LevelQ, both ciphertext domains; EvaluationKey, Relinearize, Automorphism, AutomorphismHoisted, AutomorphismHoistedLazy+ModDown",
        "a key without P is only exercised with a base-2 decomposition (without, the added error is of the order of a whole prime: recorded in DESIGN.md as outside the contract)",
        "compressed keys: Expand on the key and on a serialised copy agree bit for bit, a second Expand changes nothing, and the expanded key then switches correctly",
    ]
    fam = None
    if ctx.replay:
        fam = json.load(open(ctx.replay)).get('family')
    if fam in (None, 'rlwecore'):
        run_family(ctx, 'ksw')
    if fam in (None, 'ringpack'):
        run_ringpack(ctx)
