"""C08: serialisation is faithful, size-exact, stream-composable and fails cleanly."""
import json, os
from concurrent.futures import ThreadPoolExecutor
from vlib import *

TRACE_CFG = ['SPECIFICATION TraceSpec', 'CONSTRAINT Progress', 'POSTCONDITION TraceAccepted', 'CHECK_DEADLOCK FALSE']
WENTRIES = ["wt_plain", "wt_bufio", "wt_buffer", "marshal"]
RENTRIES = ["rf_bufio", "rf_buffer", "rf_plain", "unmarshal"]
PRIORS = ["fresh", "other", "same"]
CHUNKS = ["whole", "one", "half", "rand", "dataerr", "buf17", "buf100"]


def sconsts(objs, maxwire):
    return dict(Objs=fs(*objs), WEntries=set(WENTRIES), REntries=set(RENTRIES), Priors=set(PRIORS), Chunks=set(CHUNKS),
                MaxWire=maxwire, AllocBoundMB=64)


def sig_of(e):
    if e['ev'] in ('readfault', 'writefault'):
        return "ser:%s:%s:%s:%s" % (e['ev'], e.get('fault'), e['t'], e.get('entry'))
    return "ser:%s:%s:%s:%s:%s" % (e['ev'], e['t'], e.get('entry'), e.get('prior', '-'), 'chunked' if e.get('chunk', 'whole') != 'whole' else 'whole')


def describe(e):
    return json.dumps({k: v for k, v in e.items() if k not in ('prog', 'fork', 'dig') and v not in ('', None)})


def run(ctx):
    _run_stream(ctx)
    # cross-layer phase: serialised objects must work as operands of later homomorphic operations
    from checks.pipeline import run_pipeline
    run_pipeline(ctx)


def _run_stream(ctx):
    ctx.assumptions += [
        "objects are built on LogN=4..6 parameter sets (1-50 KB encodings); 29 type classes x 2-5 values each",
        "equality of a decoded object = identical re-encoding, identical BinarySize and every Equal method in both directions",
        "plain io.Reader entry points are only required to report the right count (the library documents its internal buffering)",
        "a corrupted payload byte may decode to another valid object; for corruptions only 'no panic, <= 64 MB allocated, count <= input' is demanded",
    ]
    out, _, _ = vrun(['c08', 'types'])
    types = json.loads(out.strip().splitlines()[-1])
    objs = [dict(t=t, v=v) for t in sorted(types) for v in range(types[t])]
    if os.environ.get('VERIF_C08_TYPES'):      # development aid: restrict the type classes
        import re as _re
        objs = [o for o in objs if _re.search(os.environ['VERIF_C08_TYPES'], o['t'])]

    # (M) the stream model, exhaustively, on three objects and streams of up to 3 segments
    d = scratch('c08-mc')
    stage_specs(d)
    small = objs[:3]
    c = sconsts(small, 3)
    c['Chunks'] = set(["whole", "one"]); c['Priors'] = set(["fresh", "other"])
    c['LenOf'] = Raw("[o \\in mc_Objs |-> 8 + o.v]")
    write_mc(d, 'MC_StreamGen', 'StreamGen', c, ['SPECIFICATION GSpec', 'INVARIANT Composable', 'INVARIANT PrefixRead'])
    r = tlc(d, 'MC_StreamGen', timeout=1200)
    ctx.add_mc(r, 'Stream model, 3 objects, <=3 segments')
    log("[c08] model: %d states" % r.distinct)

    if ctx.replay:
        rp = json.load(open(ctx.replay))
        d = scratch('c08-replay')
        with open(os.path.join(d, 's.ndjson'), 'w') as f:
            f.write(json.dumps(rp['scenario']) + "\n")
        tf = os.path.join(d, 't.ndjson')
        vrun(['c08', 'exec', '--scen', os.path.join(d, 's.ndjson'), '--trace', tf, '--seed', ctx.seed])
        evs = [json.loads(x) for x in open(tf)]
        rej, _ = validate_programs(d, 'MC_StreamTrace', 'StreamTrace', dict(sconsts(objs, 4)), TRACE_CFG, evs, chunks=1)
        for x in rej:
            ctx.violation(describe(x['event']), rp, sig=sig_of(x['event']))
        return

    # (G) every (object, write entry, read entry, prior, chunking) as a single-object scenario, plus simulated multi-object streams
    d = scratch('c08-gen')
    stage_specs(d)
    c = sconsts(objs, 1)
    c['LenOf'] = Raw("[o \\in mc_Objs |-> 8]")
    if ctx.quick:   # quick: every object x entries; priors/chunkings on a rotating subset
        c['Chunks'] = set(["whole", "one", "rand", "buf17"]); c['Priors'] = set(["fresh", "other"])
    write_mc(d, 'MC_StreamGen', 'StreamGen', c, ['SPECIFICATION GSpec', 'INVARIANT Emit', 'INVARIANT Composable'])
    r = tlc(d, 'MC_StreamGen', timeout=1500)
    ctx.add_mc(r, 'StreamGen single-object scenarios')
    scen = progs_from(r)
    c = sconsts(objs, 3)
    c['LenOf'] = Raw("[o \\in mc_Objs |-> 8]")
    write_mc(d, 'MC_StreamSim', 'StreamGen', c, ['SPECIFICATION GSpec', 'INVARIANT Emit'])
    r2 = tlc(d, 'MC_StreamSim', workers=1, simulate=(600 if ctx.quick else 6000), depth=7, seed=ctx.seed, timeout=1500)
    scen2 = [s for s in progs_from(r2)]
    log("[c08] scenarios: %d single-object, %d multi-object" % (len(scen), len(scen2)))
    scen += scen2
    ctx.sample(dict(kind="scenario", steps=json.loads(scen[len(scen) // 2])))
    ctx.sample(dict(kind="multi-object scenario", steps=json.loads(scen2[0])))

    nproc = NCPU - 2
    def run_part(i):
        part = scen[i::nproc]
        pf = os.path.join(d, 'scen-%d.ndjson' % i)
        open(pf, 'w').write("\n".join(part) + "\n")
        tf = os.path.join(d, 'trace-%d.ndjson' % i)
        vrun(['c08', 'exec', '--scen', pf, '--trace', tf, '--seed', ctx.seed + i])
        evs = [json.loads(x) for x in open(tf)]
        for e in evs:
            e['prog'] = (e['prog'] - 1) * nproc + i + 1
        # fault sweeps (truncation at every offset class, header corruption, failing writers)
        tf2 = os.path.join(d, 'ftrace-%d.ndjson' % i)
        vrun(['c08', 'exec', '--trace', tf2, '--seed', ctx.seed, '--tier', ctx.tier, '--part', i, '--parts', nproc])
        ev2 = [json.loads(x) for x in open(tf2)]
        for e in ev2:
            e['prog'] = 10_000_000 + (e['prog'] - 1) * nproc + i + 1
            e['indep'] = True
        return evs, ev2

    evs, fevs = [], []
    with ThreadPoolExecutor(max_workers=nproc) as ex:
        for a, b in ex.map(run_part, range(nproc)):
            evs += a
            fevs += b
    log("[c08] %d scenario events, %d fault events" % (len(evs), len(fevs)))
    ctx.sample({k: v for k, v in fevs[len(fevs) // 2].items() if k not in ('prog', 'fork')})
    consts = sconsts(objs, 4)
    rej, stats = validate_programs(d, 'MC_StreamTrace', 'StreamTrace', consts, TRACE_CFG, evs + fevs, max_rounds=60, sigfn=sig_of)
    ctx.add_trace_stats(stats, len(scen))
    ctx.cov['programs'] = len(scen)
    ctx.cov['fault_cases'] = len(fevs)
    ctx.cov['distinct_nontrivial'] = len(set(sig_of(e) + str(e.get('v')) + str(e.get('offset')) for e in evs + fevs if e['ev'] != 'new'))
    ctx.cov['rule'] = "scenarios = behaviours of spec/StreamGen.tla (exhaustive for one object per stream, simulated for up to 3); fault cases = (object, entry, fault kind, offset); distinct by those coordinates"
    seen = set()
    for x in rej:
        e = x['event']
        s = sig_of(e)
        if s in seen:      # one replay per signature is enough
            continue
        seen.add(s)
        if e['ev'] in ('readfault', 'writefault', 'json'):
            # deterministic single call: reproduce by running the sweep of that part again
            rp = dict(family='stream', fault=e)
            ctx.violation(describe(e), rp, sig=s)
            continue
        prog_evs = [y for y in evs if y['prog'] == e['prog'] and y['ev'] != 'new']
        steps = [dict(ev=y['ev'], t=y['t'], v=y['v'], entry=y['entry'], prior=y.get('prior', ''), chunk=y.get('chunk', '')) for y in prog_evs]
        writes = [s2 for s2 in steps if s2['ev'] == 'write']
        reads = [s2 for s2 in steps if s2['ev'] == 'read']
        d2 = scratch('c08-repro')
        open(os.path.join(d2, 's.ndjson'), 'w').write(json.dumps(writes + reads) + "\n")
        vrun(['c08', 'exec', '--scen', os.path.join(d2, 's.ndjson'), '--trace', os.path.join(d2, 't.ndjson'), '--seed', ctx.seed + 99])
        ev2 = [json.loads(y) for y in open(os.path.join(d2, 't.ndjson'))]
        rej2, _ = validate_programs(d2, 'MC_StreamTrace', 'StreamTrace', consts, TRACE_CFG, ev2, chunks=1)
        if not rej2:
            raise Inconclusive("rejected scenario not reproduced: " + describe(e))
        ctx.violation(describe(e), dict(family='stream', scenario=writes + reads, event=e), sig=s)
