"""C20: RGSW external products and blind rotations compute the encrypted look-up."""
import json, os
from concurrent.futures import ThreadPoolExecutor
from vlib import *

TRACE_CFG = ['SPECIFICATION TraceSpec', 'CONSTRAINT Progress', 'POSTCONDITION TraceAccepted', 'CHECK_DEADLOCK FALSE']


def describe(e):
    d = {k: v for k, v in e.items() if k not in ('prog', 'fork', 'tbl') and v not in ('', None)}
    return json.dumps(d)[:900]


def run(ctx):
    ctx.assumptions += [
        "external products run on a ring of degree 16 (the library's minimum) so that TLC recomputes the negacyclic product m*g over the integers; messages are small integers times Q/128",
        "noise bound is worst case: max(input noise x 1-norm of g, N x digits x digit size x error bound / P), two components, plus log N for the product with the secret",
        "blind rotation: LWE degree 16, modulus 0x3001; blind-rotation degree 64/256/1024, modulus 0x7fff801; noiseless trivial samples under a secret whose coefficients sum to zero exercise every grid point with zero drift; encrypted samples (secret of Hamming weight 1, 2, 4, dense) accept the table entries within the worst-case drift ceil((3h+2)/2)+1+ceil(20*2N/q) (rounding, mask coefficients made odd or zero)",
        "the interval of a test polynomial is half open [a,b[ as the code documents (']0,1['): the point x = b is not tested",
    ]
    d = scratch('c20-mc')
    stage_specs(d)
    write_mc(d, 'MC_RgswMC', 'RgswMC', dict(N=4, Vals=set([0, 1])), ['SPECIFICATION Spec', 'INVARIANT Commutes', 'INVARIANT Distributes', 'INVARIANT ShiftOK',
                                                                      'INVARIANT XaOK', 'INVARIANT TableOK', 'INVARIANT WrapOK'])
    r = tlc(d, 'MC_RgswMC', timeout=1800)
    ctx.add_mc(r, 'RgswMC N=4')
    d = scratch('c20')
    stage_specs(d)
    write_mc(d, 'MC_RgswGen', 'RgswGen', {}, ['SPECIFICATION GSpec', 'INVARIANT Emit'])
    r = tlc(d, 'MC_RgswGen', timeout=900)
    ctx.add_mc(r, 'RgswGen')
    cfgs = progs_from(r)
    if ctx.quick:
        cfgs = cfgs[ctx.seed % 2::2]
    if ctx.replay:
        rp = json.load(open(ctx.replay))
        if rp.get('cfg'):
            cfgs = [json.dumps(rp['cfg'])]
    log("[c20] %d external-product configurations" % len(cfgs))
    cf = os.path.join(d, 'cfgs.ndjson')
    open(cf, 'w').write("\n".join(cfgs) + "\n")
    NPART = NCPU - 2

    def job(part):
        tf = os.path.join(d, 't%d.ndjson' % part)
        vrun(['c20', 'run', '--cfgs', cf, '--trace', tf, '--seed', ctx.seed, '--part', part, '--parts', NPART] + ([] if ctx.quick else ['--thorough']), timeout=3300)
        return [json.loads(x) for x in open(tf)]

    evs = []
    with ThreadPoolExecutor(max_workers=NPART) as ex:
        for e in ex.map(job, range(NPART)):
            evs += e
    for e in evs:
        e['fork'] = 0
    kinds = {}
    for e in evs:
        kinds[e['ev']] = kinds.get(e['ev'], 0) + 1
    log("[c20] events: %s" % kinds)
    rej, stats = validate_programs(d, 'MC_RgswTrace', 'RgswTrace', {}, TRACE_CFG, evs, max_rounds=40, chunks=NCPU - 2)
    ctx.add_trace_stats(stats, len(set(e['prog'] for e in evs)))
    ctx.cov['programs'] = len(set(e['prog'] for e in evs))
    ctx.cov['distinct_nontrivial'] = len(set(json.dumps(e.get('cfg'), sort_keys=True) for e in evs if e['ev'] == 'xp')) + len(set((e['prog'], e['k']) for e in evs if e['ev'] == 'br'))
    ctx.cov['rule'] = "a case = an external-product configuration of RgswGen (path x in/out of place x level x message class x RGSW plaintext class x RGSW-level operation), or a (function, ring degree, secret weight, grid point) of a blind rotation"
    ctx.notes['paths'] = {p: sum(1 for e in evs if e['ev'] == 'xp' and e.get('path') == p) for p in ('32bit', 'single', 'multi')}
    xp = [e for e in evs if e['ev'] == 'xp']
    if xp:
        ctx.sample({k: v for k, v in xp[len(xp) // 2].items() if k not in ('prog', 'fork')})
    br = [e for e in evs if e['ev'] == 'br']
    if br:
        ctx.sample({k: v for k, v in br[len(br) // 2].items() if k not in ('prog', 'fork')})
    seen = set()
    setup = {e['prog']: e for e in evs if e['ev'] == 'brsetup'}
    for x in rej:
        e = x['event']
        if e['ev'] == 'xp':
            c = e['cfg']
            s = "rgsw:xp:%s:%s:%s:%s:%s" % (e.get('path'), 'inplace' if c['inplace'] else 'outofplace', c['gop'], 'low' if c['lowlevel'] else 'top',
                                            'panic' if e.get('panic') else ('value' if e.get('got') is not None else 'noise'))
        elif e['ev'] == 'br':
            su = setup.get(e['prog'], {})
            s = "rgsw:br:%s:n%s:%s:%s" % (e.get('f'), su.get('nbr'), 'trivial' if e.get('trivial') else 'h%d' % e.get('h', 0), 'panic' if e.get('panic') else 'value')
        else:
            s = "rgsw:%s" % e['ev']
        if s in seen:
            continue
        seen.add(s)
        ctx.violation(describe(e), dict(family='rgsw', cfg=e.get('cfg'), event=e), sig=s)
