"""C02: RNS basis extension, rescaling (and decomposition) match integer division."""
import json, os
from vlib import *

TRACE_CFG = ['SPECIFICATION TraceSpec', 'CONSTRAINT Progress', 'POSTCONDITION TraceAccepted', 'CHECK_DEADLOCK FALSE']


def sig_of(e):
    if e['ev'] == 'decomp':
        return "rns:decomp:nq=%d:np=%d:alpha=%s:digit=%s" % (len(e.get('qs', [])), len(e.get('ps', [])), e.get('alpha'), e.get('digit'))
    return "rns:%s:%s" % (e['ev'], e.get('kind', e.get('dir', ('round' if e.get('rounded') else 'floor') + ('-ntt' if e.get('ntt') else ''))))


def describe(e):
    return json.dumps({k: (v if not isinstance(v, list) else str(v)[:70]) for k, v in e.items() if k not in ('prog', 'fork')})[:500]


def run(ctx):
    ctx.assumptions += [
        "toy chains Q within {17,97,113}, P within {193,241} (QP < 2^30): every value of [0,Q) resp. [0,QP) for every (levelQ, levelP) and every number of consecutive rescalings; TLC computes the expectation",
        "real-size chains (25..61 bit primes, #Q up to 6, #P up to 3): boundary values k*q +-3, k*q+q/2 +-3, +-Q/2, Q/4; the harness reconstructs integers with math/big CRT and TLC checks the defining inequalities with BigNat (quotient witnesses untrusted)",
        "gadget decomposition (Decomposer.DecomposeAndSplit) is exercised through the gadget products of C04, not here",
    ]
    d = scratch('c02-mc')
    stage_specs(d)
    write_mc(d, 'MC_RnsScalingMC', 'RnsScalingMC', dict(Qs=[17, 97], Ps=[193] if ctx.quick else [193, 241]),
             ['SPECIFICATION MSpec'] + ['INVARIANT ' + x for x in ['RoundIsNearest', 'FloorIsFloor', 'ManyComposes', 'ExactModUp', 'ExactModDown', 'CenteredRange']])
    r = tlc(d, 'MC_RnsScalingMC', timeout=1500)
    ctx.add_mc(r, 'RnsScalingMC')
    log("[c02] spec sanity: %d states" % r.distinct)
    d = scratch('c02')
    tf = os.path.join(d, 't.ndjson')
    vrun(['c02', 'record', '--trace', tf, '--seed', ctx.seed, '--tier', ctx.tier])
    evs = [json.loads(x) for x in open(tf)]
    for e in evs:
        e['indep'] = True
    log("[c02] %d events" % len(evs))
    rej, stats = validate_programs(d, 'MC_RnsScalingTrace', 'RnsScalingTrace', {}, TRACE_CFG, evs, max_rounds=12, chunks=NCPU - 2, sigfn=sig_of)
    ctx.add_trace_stats(stats, len(evs))
    ctx.cov['programs'] = len(evs)
    ctx.cov['distinct_nontrivial'] = len(set(sig_of(e) + str(e.get('qs', e.get('qv', ''))) + str(e.get('nb', '')) + str(e.get('x', ''))[:40] for e in evs))
    ctx.cov['rule'] = "one event per call (8 coefficients on toy chains) or per coefficient (real size); distinct by operation, chain, levels and values"
    ctx.sample({k: v for k, v in evs[len(evs) // 5].items() if k not in ('prog', 'fork')})
    ctx.sample({k: v for k, v in evs[-1].items() if k not in ('prog', 'fork')})
    for x in rej:
        e = x['event']
        ctx.violation(describe(e), dict(family='rns', event=e), sig=sig_of(e))
