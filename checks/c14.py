"""C14: collective keys are keys of the ideal secret, whatever the share order."""
import json, os
from concurrent.futures import ThreadPoolExecutor
from vlib import *

TRACE_CFG = ['SPECIFICATION TraceSpec', 'CONSTRAINT Progress', 'POSTCONDITION TraceAccepted', 'CHECK_DEADLOCK FALSE']


def sig_of(e):
    return "mpkg:%s:%s:%s" % (e.get('ev'), e.get('proto', '-'), 'panic' if e.get('panic') else ('err' if e.get('err') else 'ok'))


def describe(e):
    return json.dumps({k: v for k, v in e.items() if k not in ('prog', 'fork') and v not in ('', None)})


def gen_schedules(ctx, d, n, hops, sim=None):
    write_mc(d, 'MC_MPKeyGenGen', 'MPKeyGenGen', dict(Party=set(range(1, n + 1)), MaxShares=4 * n, WireHops=hops),
             ['SPECIFICATION GSpec', 'INVARIANT Emit', 'INVARIANT NoDoubleCount', 'INVARIANT Functional'])
    if sim:
        r = tlc(d, 'MC_MPKeyGenGen', workers=1, simulate=sim, depth=4 * n, seed=ctx.seed, timeout=900)
        if r.violated or r.errors:
            raise Inconclusive("MPKeyGenGen simulation failed: %s" % r.errors[:2])
        ctx.cov['transitions'] += r.generated
    else:
        r = tlc(d, 'MC_MPKeyGenGen', timeout=900)
        ctx.add_mc(r, 'MPKeyGenGen all schedules N=%d hops<=%d' % (n, hops))
    return progs_from(r)


def run(ctx):
    ctx.assumptions += [
        "aggregated shares are compared through a digest of their encoding; modular addition is exact, so equal member sets must give equal digests",
        "the finalised key is used by the single-party bgv/rlwe evaluator and decrypted with the ideal secret sum(sk_i); its noise may exceed the noise of a single-party key of the same secret by at most ceil(log2 N)+4 bits",
        "parameter sets: LogN=9, t=97, seven key parameterisations incl. unequal prime sizes with base-2 decompositions and a set without P",
    ]
    d = scratch('c14-gen')
    stage_specs(d)
    scheds = {}
    scheds[3] = gen_schedules(ctx, d, 3, 1)
    if ctx.quick:
        s4 = gen_schedules(ctx, d, 4, 0)
        scheds[4] = s4[::max(1, len(s4) // 60)]
        s6 = gen_schedules(ctx, d, 6, 1, sim=40)
        scheds[6] = s6[:30]
    else:
        scheds[4] = gen_schedules(ctx, d, 4, 1)
        scheds[2] = gen_schedules(ctx, d, 2, 2)
        scheds[1] = ['[{"ev":"gen","party":1,"id":1},{"ev":"wire","a":1,"out":2}]']
        scheds[5] = gen_schedules(ctx, d, 5, 1, sim=300)[:200]
        scheds[8] = gen_schedules(ctx, d, 8, 2, sim=300)[:150]
    for n, s in scheds.items():
        log("[c14] N=%d: %d schedules" % (n, len(s)))
    ctx.sample(dict(kind="schedule", parties=3, steps=json.loads(scheds[3][len(scheds[3]) // 2])))

    if ctx.replay:
        rp = json.load(open(ctx.replay))
        scheds = {rp['parties']: [json.dumps(rp['schedule'])]}

    jobs = []
    NPART = 6
    for n, s in scheds.items():
        pf = os.path.join(d, 'sched-%d.ndjson' % n)
        open(pf, 'w').write("\n".join(s) + "\n")
        for part in range(NPART):
            jobs.append((n, pf, part))

    def run_job(job):
        n, pf, part = job
        tf = os.path.join(d, 'trace-%d-%d.ndjson' % (n, part))
        vrun(['c14', 'exec', '--scheds', pf, '--trace', tf, '--parties', n, '--seed', ctx.seed, '--part', part, '--parts', NPART], timeout=3000)
        evs = [json.loads(x) for x in open(tf)]
        for e in evs:
            e['prog'] = n * 1_000_000 + part * 100_000 + e['prog']
            e['n'] = n
        return evs

    allevs = []
    with ThreadPoolExecutor(max_workers=NCPU - 2) as ex:
        for evs in ex.map(run_job, jobs):
            allevs += evs
    log("[c14] %d events" % len(allevs))
    rejs = []
    for n in scheds:
        evs = [e for e in allevs if e['n'] == n]
        consts = dict(Party=set(range(1, n + 1)), MaxShares=64)
        rej, stats = validate_programs(scratch('c14-tv%d' % n), 'MC_MPKeyGenTrace', 'MPKeyGenTrace', consts, TRACE_CFG, evs, max_rounds=30)
        ctx.add_trace_stats(stats, len(set(e['prog'] for e in evs)))
        rejs += [(n, x) for x in rej]
    ctx.cov['programs'] = len(set(e['prog'] for e in allevs))
    ctx.cov['distinct_nontrivial'] = len(set((e.get('proto'), e.get('cfg'), e['n']) for e in allevs if e['ev'] == 'new')) * 1 + sum(len(s) for s in scheds.values())
    ctx.cov['rule'] = "a case = (aggregation schedule from MPKeyGenGen, protocol, key parameterisation, number of parties); schedules are distinct TLC behaviours"
    fin = [e for e in allevs if e['ev'] == 'final']
    if fin:
        ctx.sample({k: v for k, v in fin[len(fin) // 2].items() if k not in ('prog', 'fork')})
    seen = set()
    for n, x in rejs:
        e = x['event']
        key = (sig_of(e), e.get('cfg'))
        # find the program's cfg/proto
        head = [y for y in allevs if y['prog'] == e['prog'] and y['ev'] == 'new']
        cfg = head[0].get('cfg') if head else None
        proto = head[0].get('proto') if head else None
        s = "%s:%s" % (sig_of(e), cfg)
        if s in seen:
            continue
        seen.add(s)
        steps = [dict(ev=y['ev'], party=y.get('party', 0), id=y.get('id', 0), a=y.get('a', 0), b=y.get('b', 0), out=y.get('out', 0))
                 for y in allevs if y['prog'] == e['prog'] and y['ev'] in ('gen', 'agg', 'wire')]
        ctx.violation(describe(dict(e, cfg=cfg, proto=proto)), dict(family='mpkeygen', parties=n, schedule=steps, cfg=cfg, proto=proto, event=e), sig=s)
