from checks.inteval import run_inteval
from checks.approxeval import run_approxeval
from checks.c13 import run_polyeval
from checks.frame import run_frame


def run(ctx):
    ctx.assumptions += [
        "frame condition compared through MarshalBinary snapshots of every register and value copies of scalar/slice/plaintext operands",
        "scratch buffers of the evaluator are overwritten with garbage before every call (history independence)",
    ]
    fam = None
    if ctx.replay:
        import json
        fam = json.load(open(ctx.replay)).get('family')
    if fam in (None, 'inteval'):
        run_inteval(ctx, frame=True)
    if fam in (None, 'approxeval'):
        run_approxeval(ctx, frame=True)
    if fam in (None, 'polyeval'):
        run_polyeval(ctx, frame=True)
    if fam in (None, 'frame'):
        run_frame(ctx)
