from checks.inteval import run_inteval
from checks.approxeval import run_approxeval


def run(ctx):
    ctx.assumptions += [
        "frame condition compared through MarshalBinary snapshots of every register and value copies of scalar/slice/plaintext operands",
        "scratch buffers of the evaluator are overwritten with garbage before every call (history independence)",
    ]
    run_inteval(ctx, frame=True)
    run_approxeval(ctx, frame=True)
