"""Composite circuits (sign, step, max, min, inverse): a phase of C13 (last clause of the property)."""
import json, os, random
from concurrent.futures import ThreadPoolExecutor
from vlib import *

TRACE_CFG = ['SPECIFICATION TraceSpec', 'CONSTRAINT Progress', 'POSTCONDITION TraceAccepted', 'CHECK_DEADLOCK FALSE']
NJOBS = 14
# the bootstrappers lattigo itself provides: SecretKeyBootstrapper (minimum level 0; only consistent with one modulus per
# rescaling) and bootstrapping.Evaluator (minimum level = moduli per rescaling)
MININS = {1: set([0, 1]), 2: set([2])}
COMPS = {2: set(["default", "chain", "chainx4", "even4"]), 1: set(["chain", "chainx4", "even4"])}


def sig_of(e):
    c = e['cfg']
    return "comp:%s:%s:%s:minin=%s:logmax=%s:scaling=%s" % (c['set'], c['circuit'], c['comp'], c['minin'], c['logmax'], c.get('scaling', 4))


def describe(e):
    return json.dumps({k: v for k, v in e.items() if k not in ('prog', 'fork', 'indep', 'cfg')})[:700]


def run_composite(ctx):
    ctx.assumptions += [
        "composite circuits: sign / step / max / min with the shipped default composite sign polynomial (scale 2^90 only), twelve compositions of 1.5x-0.5x^3, five of the degree-7 map followed by two cubic ones, and (plain evaluation only) two polynomials of degree 4, a power of two; Goldschmidt division and the inverse on the positive, negative and full domain with and without interval normalisation (2^-4 <= |x| <= 2^4); ring degree 2^9, scale 2^90 with two moduli per rescaling (standard and conjugate-invariant ring) and scale 2^45 with one; every usable input level; inputs include the end points of the stated domain",
        "the bootstrapper is the repository's decrypt-and-re-encrypt SecretKeyBootstrapper behind a recorder, announcing the minimum input levels lattigo's own bootstrappers announce (0 or 1 with one modulus per rescaling, 2 with two); a minimum level of 1 with two moduli per rescaling makes the Goldschmidt division fail (TLC shows it on the model, see DESIGN 11.3) and is not driven",
        "references are computed outside lattigo: Clenshaw recurrence on 256-bit floats for the composites, the ideal functions directly; floors: log2(scale) - logN - 12 bits on the worst slot (relative for 1/x), and the composite's own plaintext accuracy for the ideal function",
        "mod 1: the three configurations of the repository's test (sine with arcsine, discrete and continuous cosine with double angle; K of the last reduced to 40) at half its ring degree, through EvaluateNew and EvaluateAndScaleNew with scaling 1, 2 and 1/2, prepared as that test prepares its input; reference: float64 sine / arcsine",
    ]
    info = json.loads(vrun(['c13', 'compsets'])[0].strip().splitlines()[0])
    d = scratch('c13-comp-mc')
    stage_specs(d)
    # (M) level schedules; the two repaired defects are kept as mutants that TLC must find
    boots = fs((1, 0), (1, 1), (2, 2))
    base = dict(MaxLvl=9 if ctx.quick else 13, MaxPolys=2 if ctx.quick else 3, MaxDepth=3 if ctx.quick else 4, Boots=boots, MaxIters=4 if ctx.quick else 6)
    for old_t, old_r in ((False, False), (True, False), (False, True)):
        write_mc(d, 'MC_CompositeMC', 'CompositeMC', dict(base, OldThresholds=old_t, OldRatio=old_r),
                 ['SPECIFICATION MSpec'] + ['INVARIANT ' + x for x in ('EvalOK', 'GateOK', 'GateExact', 'GoldOK')])
        r = tlc(d, 'MC_CompositeMC', timeout=2400)
        if not old_t and not old_r:
            ctx.add_mc(r, 'CompositeMC')
        elif old_t and 'GateOK' not in r.violated:
            raise Inconclusive("the mutant extremum gate (thresholds that ignore the minimum level) does not violate GateOK: vacuous")
        elif old_r and 'GateExact' not in r.violated:
            raise Inconclusive("the mutant extremum gate (scale matched to the wrong moduli) does not violate GateExact: vacuous")
    if ctx.replay:
        rp = json.load(open(ctx.replay))
        cfgs = [json.dumps(rp['event']['cfg'])]
    else:
        sets = [dict(name=s['name'], maxlevel=s['maxlevel'], lpr=s['lpr'], logscale=s['logscale'], logn=s['logn'], ci=s['ci'],
                     minins=MININS[s['lpr']] if s['name'] != 'm45' else set(), comps=COMPS[s['lpr']] if s['name'] != 'm45' else set(),
                     mod1=set(["sinarc", "cosd", "cosc"]) if s['name'] == 'm45' else set()) for s in info['sets']]
        dg = scratch('c13-comp-gen')
        stage_specs(dg)
        write_mc(dg, 'MC_CompositeGen', 'CompositeGen',
                 dict(Sets=sets, Comps=info['comps'], Circuits=set(["sign", "step", "max", "min", "gold", "invpos", "invneg", "invfull"]), LogMaxs=set([0, 4])),
                 ['SPECIFICATION Spec', 'INVARIANT Emit'])
        r = tlc(dg, 'MC_CompositeGen', timeout=900)
        ctx.add_mc(r, 'CompositeGen configurations')
        allc = [json.loads(c) for c in progs_from(r)]
        # the composite of two degree-4 polynomials is not a sign approximant: it only goes through the plain evaluation
        allc = [c for c in allc if c['comp'] != 'even4' or c['circuit'] in ('sign', 'step')]
        if ctx.quick:
            # one configuration per distinct predicted schedule (sign family); the inverse at every level
            rnd = random.Random(int(ctx.seed) + 13)
            rnd.shuffle(allc)
            seen, keep = set(), []
            for c in allc:
                k = (c['set'], c['circuit'], c['comp'], c['minin'], c['logmax'], tuple(c['sig']))
                if c['circuit'] == 'mod1':
                    keep.append(c)
                elif c['sig'][0] < 0:     # inverse: every level with the cheapest sign polynomial, a seeded fifth of the rest
                    if c['comp'] == 'chain' or (c['circuit'] == 'invfull' and rnd.random() < 0.2):
                        keep.append(c)
                elif k not in seen:
                    seen.add(k)
                    keep.append(c)
            allc = keep
        cfgs = [json.dumps({k: v for k, v in c.items() if k != 'sig'}) for c in allc]
    log("[c13] composite: %d configurations" % len(cfgs))
    d = scratch('c13-comp')

    def job(i):
        cf = os.path.join(d, 'cfg%d.ndjson' % i)
        open(cf, 'w').write("".join(x + "\n" for x in cfgs[i::NJOBS]))
        tf = os.path.join(d, 't%d.ndjson' % i)
        vrun(['c13', 'composite', '--cfgs', cf, '--trace', tf, '--seed', int(ctx.seed) * 100 + i])
        evs = [json.loads(x) for x in open(tf)]
        for e in evs:
            e['prog'] = e['prog'] * NJOBS + i
        return evs

    evs = []
    with ThreadPoolExecutor(max_workers=NJOBS) as ex:
        for part in ex.map(job, range(NJOBS)):
            evs += part
    rej, stats = validate_programs(d, 'MC_CompositeTrace', 'CompositeTrace', {}, TRACE_CFG, evs, max_rounds=15, chunks=NCPU - 2, sigfn=sig_of)
    ctx.add_trace_stats(stats, len(evs))
    ctx.cov['programs'] = ctx.cov.get('programs', 0) + len(evs)
    ctx.cov['distinct_nontrivial'] = ctx.cov.get('distinct_nontrivial', 0) + len(set(json.dumps(e['cfg'], sort_keys=True) for e in evs))
    ctx.cov['rule'] = ctx.cov.get('rule', '') + " composite circuits: one event per configuration of spec/CompositeGen.tla."
    if evs:
        ctx.sample({k: v for k, v in evs[len(evs) // 2].items() if k not in ('prog', 'fork', 'indep', 'cfg')})
    for x in rej:
        e = x['event']
        ctx.violation(describe(e), dict(family='composite', event=e), sig=sig_of(e))
