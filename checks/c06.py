from checks.approxeval import run_approxeval


def run(ctx):
    ctx.assumptions += [
        "messages are exact dyadic Gaussian rationals (<= 8 fractional bits, |x| <= 2^7), at most 2 multiplications deep; compared with 12 bits of absolute precision (relative above 1)",
        "scales are compared as log2 in units of 2^-20 bit (tolerance 48 units): a missing/extra prime or power of the default scale is visible, two primes of the same size are not distinguished",
        "projection = lattigo Decryptor + ckks.Encoder.Decode with the recorded scale and dimensions (the encoder itself is decided by C07)",
        "additions are only generated for operands whose scales are equal within 2^-14 or whose ratio exceeds 2^20 (documented integer-ratio alignment)",
    ]
    run_approxeval(ctx, frame=False)
