"""Cross-layer programs (spec/Pipeline.tla): encode -> encrypt -> evaluate -> stream -> evaluate with wired keys ->
collective key switch -> decrypt.  Run as an additional phase of C08 (objects must survive the stream as operands of
later homomorphic operations) and usable on its own."""
import json, os
from concurrent.futures import ThreadPoolExecutor
from vlib import *

TRACE_CFG = ['SPECIFICATION TraceSpec', 'CONSTRAINT Progress', 'POSTCONDITION TraceAccepted', 'CHECK_DEADLOCK FALSE']
CONSTS = dict(T=97, Regs=set(["x", "y"]), MaxLevel=2, Pool=fs([3, 96, 0, 50], [1, 2, 3, 4]))


def describe(e):
    return json.dumps({k: v for k, v in e.items() if k not in ('prog', 'fork') and v not in ('', None, [])})[:700]


def run_pipeline(ctx):
    d = scratch('pipe')
    stage_specs(d)
    progs = []
    # exhaustive short programs, simulated longer ones
    for steps, sim in ((3, None), (4, 1500 if ctx.quick else None), (5, 1500 if ctx.quick else 6000), (7, 1000 if ctx.quick else 4000)):
        consts = dict(CONSTS, MaxSteps=steps)
        write_mc(d, 'MC_PipelineGen', 'PipelineGen', consts, ['SPECIFICATION Spec', 'INVARIANT Emit', 'INVARIANT TypeOK'])
        if sim:
            r = tlc(d, 'MC_PipelineGen', workers=1, simulate=sim, depth=steps + 1, seed=ctx.seed, timeout=900)
            if r.violated or r.errors:
                raise Inconclusive("PipelineGen simulation failed: %s" % r.errors[:2])
            ctx.cov['transitions'] += r.generated
            progs += progs_from(r)[:sim]
        else:
            r = tlc(d, 'MC_PipelineGen', timeout=1800)
            ctx.add_mc(r, 'PipelineGen %d steps' % steps)
            progs += progs_from(r)
    progs = list(dict.fromkeys(progs))
    if ctx.quick:
        short = [p for p in progs if len(json.loads(p)) <= 3]
        longer = [p for p in progs if len(json.loads(p)) > 3]
        progs = short[ctx.seed % 3::3] + longer
    log("[pipe] %d cross-layer programs" % len(progs))
    pf = os.path.join(d, 'progs.ndjson')
    open(pf, 'w').write("\n".join(progs) + "\n")
    NPART = NCPU - 2

    def job(part):
        tf = os.path.join(d, 't%d.ndjson' % part)
        vrun(['pipe', 'run', '--progs', pf, '--trace', tf, '--seed', ctx.seed, '--part', part, '--parts', NPART], timeout=3000)
        return [json.loads(x) for x in open(tf)]

    evs = []
    with ThreadPoolExecutor(max_workers=NPART) as ex:
        for e in ex.map(job, range(NPART)):
            evs += e
    for e in evs:
        e['fork'] = 0
    consts = dict(CONSTS, MaxSteps=99)
    rej, stats = validate_programs(d, 'MC_PipelineTrace', 'PipelineTrace', consts, TRACE_CFG, evs, max_rounds=30, chunks=NCPU - 2)
    nprog = len(set(e['prog'] for e in evs))
    ctx.add_trace_stats(stats, nprog)
    ctx.notes['pipeline_programs'] = nprog
    ctx.notes['pipeline_events'] = len(evs)
    sw = [e for e in evs if e['ev'] == 'read']
    if sw:
        ctx.sample(dict(kind='pipeline', event={k: v for k, v in sw[len(sw) // 2].items() if k not in ('prog', 'fork')}))
    seen = set()
    byprog = {}
    for e in evs:
        byprog.setdefault(e['prog'], []).append(e)
    for x in rej:
        e = x['event']
        prior = [y['ev'] for y in byprog[e['prog']] if y['ev'] != 'new' and y is not e][:8]
        s = "pipe:%s:%s" % (e['ev'], 'panic' if e.get('panic') else ('err' if e.get('err') else 'value'))
        if s in seen:
            continue
        seen.add(s)
        steps = [dict(op=y['ev'], r=y.get('r', ''), v=y.get('v', []), how=y.get('how', ''), a=y.get('a', ''), b=y.get('b', ''), out=y.get('out', ''), k=y.get('k', 0), order=y.get('order', 0), chunk=y.get('chunk', 0), p=y.get('p', 0), m=y.get('m', 0))
                 for y in byprog[e['prog']] if y['ev'] != 'new']
        ctx.violation(describe(e) + " after " + ",".join(prior), dict(family='pipeline', program=steps, event=e), sig=s)


def run(ctx):
    run_pipeline(ctx)
