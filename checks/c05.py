from checks.inteval import run_inteval


def run(ctx):
    ctx.assumptions += [
        "projection = lattigo Decryptor + bgv.Encoder.Decode with scale forced to 1 (the encoder itself is decided by C07)",
        "model slot vectors of width 4 stand for all real slots (first 2 slots + periodic tail); the harness checks every real slot against its class",
        "noise budget: programs are pruned by the specification's worst-case noise recurrence (IntEval.tla: nb, Budget)",
    ]
    fam = None
    if ctx.replay:
        import json
        fam = json.load(open(ctx.replay)).get('family', 'inteval')
    if fam in (None, 'inteval'):
        run_inteval(ctx, frame=False)
    if fam in (None, 'bigint'):
        from checks.bigint import run_bigint
        run_bigint(ctx)
