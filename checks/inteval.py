"""IntEval family (bgv.Evaluator): serves C05 (values/metadata/errors) and C09 (frame condition,
aliasing and history independence on the same generated programs)."""
import json, os
from vlib import *

TRACE_CFG = ['SPECIFICATION TraceSpec', 'CONSTRAINT Progress', 'POSTCONDITION TraceAccepted', 'CHECK_DEADLOCK FALSE']

ALL_OPS = ["Add", "Sub", "Mul", "MulRelin", "MulScaleInvariant", "MulRelinScaleInvariant", "MulThenAdd",
           "MulRelinThenAdd", "Rescale", "Relinearize", "DropLevel", "Match"]


def consts_for(pset):
    out, _, _ = vrun(['c05', 'consts', '--pset', pset])
    c = json.loads(out.strip().splitlines()[-1])
    T = c['T']
    base = dict(T=T, VW=4, L=c['L'], NR=4, QModT=c['QModT'], LogQ=c['LogQ'], LogN=c['LogN'], LogT=c['LogT'],
                NB0=c['LogT'] + 8, KSB=c['LogT'] + c['LogN'] + 14, ClsRes=c['ClsRes'])
    return c, base


def pools(T, small=False):
    h = (T - 1) // 2
    vec = [[0, 0, 0, 0], [1, T - 1, h, h + 1], [2, 3, 5, 7], [T - 1, T - 1, T - 1, T - 1], [1, 0, 0, 1]]
    svec = [[-1, -T - 1, -h, T + 1], [0, -2, 3, -T], [5, -7, 11, -13]]
    scal = [(0, 0, 'u64'), (0, 1, 'int'), (0, -1, 'i64'), (0, T, 'u64'), (0, -T - 1, 'i64'), (0, h, 'bigint'),
            (1, 0, 'u64'), (2, 0, 'u64'), (3, 0, 'i64'), (4, 0, 'int'), (1, 5, 'bigint'), (3, -7, 'bigint'),
            (2, -3, 'u64'), (4, -2, 'i64'), (0, 2, 'bigint')]
    scales = [1, 2, T - 1, 55 % T]
    if small:
        vec = [[1, T - 1, h, h + 1], [2, 3, 5, 7]]
        svec = [[-1, -T - 1, -h, T + 1]]
        scal = [(0, -1, 'i64'), (2, 0, 'u64'), (3, -7, 'bigint')]
        scales = [1, 55 % T]
    return dict(VecPool=fs(*vec), SVecPool=fs(*svec), ScalePool=set(scales),
                ScalarPool=fs(*[dict(cls=a, d=b, ty=c) for (a, b, c) in scal]))


def describe(e):
    b = e.get('b') or {}
    return "%s(a=%s, b=%s, out=%s%s) mode/keys per Reset; err=%s panic=%s res=%s %s" % (
        e['op'], e.get('a'), json.dumps({k: v for k, v in b.items() if k in ('k', 'r', 'v', 's', 'ty', 'cls', 'd', 'short')}),
        e.get('o'), ' new' if e.get('new') else '', e.get('err'), e.get('panic'), json.dumps(e.get('res')), e.get('msg', '')[:80])


def signature(prog_steps, e):
    """A coarse, stable signature of a failing step (for known-findings matching)."""
    b = e.get('b') or {}
    alias = []
    if not e.get('new'):
        if e.get('o') == e.get('a'):
            alias.append('out=op0')
        if b.get('k') == 'ct' and b.get('r') == e.get('o'):
            alias.append('out=op1')
    if b.get('k') == 'ct' and b.get('r') == e.get('a'):
        alias.append('op0=op1')
    return "bgv:%s:%s:%s%s" % (e['op'], b.get('k', '-'), '+'.join(alias) or 'noalias', ':panic' if e.get('panic') else '')


def exec_and_validate(ctx, d, pset, base, progs, tag, frame):
    """Run programs on the real evaluator, validate the recorded trace with TLC, reproduce rejections."""
    pf = os.path.join(d, 'progs-%s.ndjson' % tag)
    with open(pf, 'w') as f:
        f.write("\n".join(progs) + "\n")
    tf = os.path.join(d, 'trace-%s.ndjson' % tag)
    _, res, _ = vrun(['c05', 'exec', '--pset', pset, '--progs', pf, '--trace', tf, '--seed', ctx.seed])
    lines = open(tf).read().splitlines()
    consts = dict(base, CheckFrame=frame, CheckNoise=False)
    rej, stats = validate_programs(d, 'MC_IntEvalTrace', 'IntEvalTrace', consts, TRACE_CFG, lines)
    ctx.add_trace_stats(stats, len(progs) - len(rej))
    ctx.cov["programs"] += len(progs)
    for r in rej:
        prog = json.loads(progs[r['prog'] - 1])
        e = r['event']
        # reproduce: the program alone, fresh process, must be rejected again at the same step
        d2 = scratch('c05-repro')
        stage_specs(d2)
        with open(os.path.join(d2, 'p.ndjson'), 'w') as f:
            f.write(json.dumps(prog) + "\n")
        vrun(['c05', 'exec', '--pset', pset, '--progs', os.path.join(d2, 'p.ndjson'), '--trace', os.path.join(d2, 't.ndjson'), '--seed', ctx.seed + 1000])
        l2 = open(os.path.join(d2, 't.ndjson')).read().splitlines()
        rej2, _ = validate_programs(d2, 'MC_IntEvalTrace', 'IntEvalTrace', consts, TRACE_CFG, l2)
        if not rej2 or rej2[0]['event']['idx'] != e['idx']:
            raise Inconclusive("rejection of program %d step %d not reproduced in isolation" % (r['prog'], e['idx']))
        ctx.violation(describe(e), dict(family='inteval', pset=pset, frame=frame, program=prog, step=e['idx'], event=e),
                      sig=signature(prog, e))
    return len(rej)


def run_inteval(ctx, frame):
    psets = ["A", "B"] if ctx.quick else ["A", "B", "C"]
    nsim = 250 if ctx.quick else 4000
    if ctx.replay:
        rp = json.load(open(ctx.replay))
        c, base = consts_for(rp['pset'])
        d = scratch('c05-replay')
        stage_specs(d)
        exec_and_validate(ctx, d, rp['pset'], base, [json.dumps(rp['program'])], 'replay', rp.get('frame', frame))
        return
    for pi, pset in enumerate(psets):
        c, base = consts_for(pset)
        T = c['T']
        d = scratch('c05-%s' % pset)
        stage_specs(d)
        # (M) exhaustive model check of the specification on a small instance + (G) all its programs
        if pi == 0 or not ctx.quick:
            small = dict(base, NR=2, Randomize=False, Depth=2 + (1 if ctx.quick else 2), SimLen=0, OpPool=set(ALL_OPS),
                         Modes=set(["bgv", "bfv"]), RlkKinds=set(["full", "nil"]), FreeFrom=c['L'] - 1, **pools(T, small=True))
            write_mc(d, 'MC_IntEvalGen', 'IntEvalGen', small,
                     ['SPECIFICATION GenSpec', 'INVARIANT Emit', 'INVARIANT TypeOK', 'INVARIANT DecodeExact', 'INVARIANT InBudget'])
            r = tlc(d, 'MC_IntEvalGen', timeout=1500)
            ctx.add_mc(r, 'IntEvalGen exhaustive pset=%s' % pset)
            progs = progs_from(r)
            log("[c05] exhaustive: %d states, %d programs" % (r.distinct, len(progs)))
            if progs:
                ctx.sample(dict(kind="exhaustive program", pset=pset, program=json.loads(progs[len(progs) // 2])))
                exec_and_validate(ctx, d, pset, base, progs, 'exh', frame)
        # (G) simulated longer programs
        gen = dict(base, Randomize=True, Depth=14, SimLen=30, OpPool=set(ALL_OPS), Modes=set(["bgv", "bfv"]),
                   RlkKinds=set(["full", "fulll", "empty", "nil"]), FreeFrom=0, **pools(T))
        gen['RlkKinds'] = set(["full", "empty", "nil"])
        write_mc(d, 'MC_IntEvalSim', 'IntEvalGen', gen, ['SPECIFICATION GenSpec', 'INVARIANT Emit', 'INVARIANT TypeOK', 'INVARIANT DecodeExact'])
        r = tlc(d, 'MC_IntEvalSim', workers=1, simulate=nsim, depth=30, seed=ctx.seed * 7 + pi, timeout=1500)
        if r.violated or r.errors:
            raise Inconclusive("generator spec failed: %s %s" % (r.violated, r.errors[:2]))
        ctx.cov["transitions"] += r.generated
        progs = progs_from(r)
        log("[c05] simulation pset=%s: %d programs" % (pset, len(progs)))
        ctx.sample(dict(kind="simulated program", pset=pset, program=json.loads(progs[0])))
        exec_and_validate(ctx, d, pset, base, progs, 'sim', frame)
    ctx.cov["distinct_nontrivial"] = ctx.cov["programs"]
    ctx.cov["rule"] = ("programs are behaviours of spec/IntEvalGen.tla (breadth-first over small pools, and TLC simulation); "
                       "distinct by TLC's fingerprint of the history variable; every one has >= 1 evaluator call after the loads")
