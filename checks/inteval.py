"""IntEval family (bgv.Evaluator): serves C05 (values/metadata/errors) and C09 (frame condition,
aliasing and history independence on the same generated programs)."""
import json, os
from concurrent.futures import ThreadPoolExecutor
from vlib import *

TRACE_CFG = ['SPECIFICATION TraceSpec', 'CONSTRAINT Progress', 'POSTCONDITION TraceAccepted', 'CHECK_DEADLOCK FALSE']

ALL_OPS = ["Add", "Sub", "Mul", "MulRelin", "MulScaleInvariant", "MulRelinScaleInvariant", "MulThenAdd",
           "MulRelinThenAdd", "Rescale", "Relinearize", "DropLevel", "Match"]


def consts_for(pset):
    out, _, _ = vrun(['c05', 'consts', '--pset', pset])
    c = json.loads(out.strip().splitlines()[-1])
    T = c['T']
    base = dict(T=T, VW=4, L=c['L'], NR=4, QModT=c['QModT'], LogQ=c['LogQ'], LogN=c['LogN'], LogT=c['LogT'],
                NB0=c['LogT'] + 8, KSB=c['LogT'] + c['LogN'] + 14, ClsRes=c['ClsRes'])
    return c, base


def pools(T, small=False):
    h = (T - 1) // 2
    vec = [[0, 0, 0, 0], [1, T - 1, h, h + 1], [2, 3, 5, 7], [T - 1, T - 1, T - 1, T - 1], [1, 0, 0, 1]]
    svec = [[-1, -T - 1, -h, T + 1], [0, -2, 3, -T], [5, -7, 11, -13]]
    scal = [(0, 0, 'u64'), (0, 1, 'int'), (0, -1, 'i64'), (0, T, 'u64'), (0, -T - 1, 'i64'), (0, h, 'bigint'),
            (1, 0, 'u64'), (2, 0, 'u64'), (3, 0, 'i64'), (4, 0, 'int'), (1, 5, 'bigint'), (3, -7, 'bigint'),
            (2, -3, 'u64'), (4, -2, 'i64'), (0, 2, 'bigint')]
    scales = [1, 2, T - 1, 55 % T]
    if small:
        vec = [[1, T - 1, h, h + 1], [2, 3, 5, 7]]
        svec = [[-1, -T - 1, -h, T + 1]]
        scal = [(0, -1, 'i64'), (2, 0, 'u64'), (3, -7, 'bigint')]
        scales = [1, 55 % T]
    return dict(VecPool=fs(*vec), SVecPool=fs(*svec), ScalePool=set(scales),
                ScalarPool=fs(*[dict(cls=a, d=b, ty=c) for (a, b, c) in scal]))


def presets(T, L):
    """Register files reached through real calls, from which every single call is enumerated."""
    h = (T - 1) // 2
    v1, v2, v3 = [1, T - 1, h, h + 1], [2, 3, 5, 7], [T - 1, 2, 0, 1]
    out = {}
    for mode in ("bgv", "bfv"):
        for rlk in ("full", "nil"):
            if rlk == "nil" and mode == "bgv":
                tag = "bgv-nokeys"
            else:
                tag = mode + "-" + rlk
            # X: three degree-1 registers with different scales/levels and one degree-2 product
            out["X-" + tag] = [dict(op="Reset", mode=mode, rlk=rlk),
                               dict(op="Load", o=1, v=v1, s=1, lvl=L), dict(op="Load", o=2, v=v2, s=55 % T, lvl=L),
                               dict(op="Load", o=3, v=v3, s=1, lvl=L - 1),
                               dict(op="Mul", a=1, b=dict(k="ct", r=2), o=4, new=True)]
        # Y: two degree-2 registers with different scales (stale third components)
        out["Y-" + mode] = [dict(op="Reset", mode=mode, rlk="full"),
                            dict(op="Load", o=1, v=v1, s=1, lvl=L), dict(op="Load", o=2, v=v2, s=55 % T, lvl=L - 1),
                            dict(op="Mul", a=1, b=dict(k="ct", r=1), o=3, new=True),
                            dict(op="Mul", a=1, b=dict(k="ct", r=2), o=4, new=True)]
    return out


def describe(e):
    b = e.get('b') or {}
    return "%s(a=%s, b=%s, out=%s%s) mode/keys per Reset; err=%s panic=%s res=%s %s" % (
        e['op'], e.get('a'), json.dumps({k: v for k, v in b.items() if k in ('k', 'r', 'v', 's', 'ty', 'cls', 'd', 'short')}),
        e.get('o'), ' new' if e.get('new') else '', e.get('err'), e.get('panic'), json.dumps(e.get('res')), e.get('msg', '')[:80])


def signature(prog_steps, e):
    """A coarse, stable signature of a failing step (for known-findings matching)."""
    b = e.get('b') or {}
    alias = []
    if not e.get('new'):
        if e.get('o') == e.get('a'):
            alias.append('out=op0')
        if b.get('k') == 'ct' and b.get('r') == e.get('o'):
            alias.append('out=op1')
    if b.get('k') == 'ct' and b.get('r') == e.get('a'):
        alias.append('op0=op1')
    return "bgv:%s:%s:%s%s" % (e['op'], b.get('k', '-'), '+'.join(alias) or 'noalias', ':panic' if e.get('panic') else '')


def fork_programs(progs, plen):
    """Programs sharing a prefix of plen steps become one program: prefix, Save, (tail, Restore)*."""
    groups = {}
    for p in progs:
        st = json.loads(p)
        groups.setdefault(json.dumps(st[:plen]), []).append(st[plen:])
    out, index = [], []
    for pre, tails in groups.items():
        pre = json.loads(pre)
        for i in range(0, len(tails), 400):
            steps, idx = list(pre) + [dict(op="Save")], {}
            for j, t in enumerate(tails[i:i + 400]):
                steps += t + [dict(op="Restore")]
                idx[j + 1] = pre + t
            out.append(json.dumps(steps))
            index.append(idx)
    return out, index


def exec_and_validate(ctx, d, pset, base, progs, tag, frame, plen=None):
    """Run programs on the real evaluator, validate the recorded trace with TLC, reproduce rejections."""
    nprogs = len(progs)
    index = None
    if plen:
        progs, index = fork_programs(progs, plen)
    nproc = max(1, min(NCPU // 2, len(progs)))
    lines = []

    def run_part(i):
        part = progs[i::nproc]
        pf = os.path.join(d, 'progs-%s-%d.ndjson' % (tag, i))
        with open(pf, 'w') as f:
            f.write("\n".join(part) + "\n")
        tf = os.path.join(d, 'trace-%s-%d.ndjson' % (tag, i))
        vrun(['c05', 'exec', '--pset', pset, '--progs', pf, '--trace', tf, '--seed', ctx.seed + i])
        evs = [json.loads(x) for x in open(tf).read().splitlines()]
        for e in evs:       # program ids are global
            e['prog'] = (e['prog'] - 1) * nproc + i + 1
        return evs

    with ThreadPoolExecutor(max_workers=nproc) as ex:
        for evs in ex.map(run_part, range(nproc)):
            lines += evs
    consts = dict(base, CheckFrame=frame, CheckNoise=False)
    rej, stats = validate_programs(d, 'MC_IntEvalTrace', 'IntEvalTrace', consts, TRACE_CFG, lines)
    ctx.add_trace_stats(stats, nprogs - len(rej))
    ctx.cov["programs"] += nprogs
    for r in rej[:12]:
        e = r['event']
        if index is not None:
            if r['fork'] == 0:     # the preset prefix itself is rejected
                prog = index[r['prog'] - 1][1][:e['idx']]
            else:
                prog = index[r['prog'] - 1][r['fork']]
            stepno = len(prog)
        else:
            prog = json.loads(progs[r['prog'] - 1])
            stepno = e['idx']
        # reproduce: the program alone, fresh process, must be rejected again at the same step
        d2 = scratch('c05-repro')
        with open(os.path.join(d2, 'p.ndjson'), 'w') as f:
            f.write(json.dumps(prog) + "\n")
        vrun(['c05', 'exec', '--pset', pset, '--progs', os.path.join(d2, 'p.ndjson'), '--trace', os.path.join(d2, 't.ndjson'), '--seed', ctx.seed + 1000])
        l2 = open(os.path.join(d2, 't.ndjson')).read().splitlines()
        rej2, _ = validate_programs(d2, 'MC_IntEvalTrace', 'IntEvalTrace', consts, TRACE_CFG, l2, chunks=1)
        if not rej2 or rej2[0]['event']['idx'] != stepno:
            raise Inconclusive("rejection of program %d step %d not reproduced in isolation" % (r['prog'], stepno))
        ctx.violation(describe(e), dict(family='inteval', pset=pset, frame=frame, program=prog, step=stepno, event=e),
                      sig=signature(prog, e))
    return len(rej)


def run_inteval(ctx, frame):
    psets = ["A", "B"] if ctx.quick else ["A", "B", "C"]
    nsim = 250 if ctx.quick else 4000
    if ctx.replay:
        rp = json.load(open(ctx.replay))
        c, base = consts_for(rp['pset'])
        d = scratch('c05-replay')
        stage_specs(d)
        exec_and_validate(ctx, d, rp['pset'], base, [json.dumps(rp['program'])], 'replay', rp.get('frame', frame))
        return
    for pi, pset in enumerate(psets):
        c, base = consts_for(pset)
        T = c['T']
        d = scratch('c05-%s' % pset)
        stage_specs(d)
        # (M) exhaustive model check of the specification from preset register files + (G) all these programs
        if pi == 0 or not ctx.quick:
            for pname, prefix in presets(T, c['L']).items():
                small = dict(base, NR=4, Randomize=False, Depth=len(prefix) + 1, SimLen=0, OpPool=set(ALL_OPS),
                             Modes=set(["bgv"]), RlkKinds=set(["full"]), FreeFrom=0, Prefix=prefix, **pools(T, small=True))
                write_mc(d, 'MC_IntEvalGen', 'IntEvalGen', small,
                         ['SPECIFICATION GenSpec', 'INVARIANT Emit', 'INVARIANT TypeOK', 'INVARIANT DecodeExact', 'INVARIANT InBudget'])
                r = tlc(d, 'MC_IntEvalGen', timeout=1500)
                ctx.add_mc(r, 'IntEvalGen exhaustive pset=%s preset=%s' % (pset, pname))
                progs = progs_from(r)
                log("[c05] exhaustive %s/%s: %d states, %d programs" % (pset, pname, r.distinct, len(progs)))
                if progs:
                    ctx.sample(dict(kind="exhaustive program", pset=pset, preset=pname, program=json.loads(progs[len(progs) // 2])))
                    exec_and_validate(ctx, d, pset, base, progs, 'exh-' + pname, frame, plen=len(prefix))
        # (G) simulated longer programs
        gen = dict(base, Randomize=True, Depth=14, SimLen=30, Prefix=[], OpPool=set(ALL_OPS), Modes=set(["bgv", "bfv"]),
                   RlkKinds=set(["full", "fulll", "empty", "nil"]), FreeFrom=0, **pools(T))
        gen['RlkKinds'] = set(["full", "empty", "nil"])
        write_mc(d, 'MC_IntEvalSim', 'IntEvalGen', gen, ['SPECIFICATION GenSpec', 'INVARIANT Emit', 'INVARIANT TypeOK', 'INVARIANT DecodeExact'])
        r = tlc(d, 'MC_IntEvalSim', workers=1, simulate=nsim, depth=30, seed=ctx.seed * 7 + pi, timeout=1500)
        if r.violated or r.errors:
            raise Inconclusive("generator spec failed: %s %s" % (r.violated, r.errors[:2]))
        ctx.cov["transitions"] += r.generated
        progs = progs_from(r)
        log("[c05] simulation pset=%s: %d programs" % (pset, len(progs)))
        ctx.sample(dict(kind="simulated program", pset=pset, program=json.loads(progs[0])))
        exec_and_validate(ctx, d, pset, base, progs, 'sim', frame)
    ctx.cov["distinct_nontrivial"] = ctx.cov["programs"]
    ctx.cov["rule"] = ("programs are behaviours of spec/IntEvalGen.tla (breadth-first over small pools, and TLC simulation); "
                       "distinct by TLC's fingerprint of the history variable; every one has >= 1 evaluator call after the loads")
