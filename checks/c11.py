"""C11: rotations and slot sums follow the Galois algebra; advertised key lists suffice."""
import json, os
from concurrent.futures import ThreadPoolExecutor
from vlib import *

TRACE_CFG = ['SPECIFICATION TraceSpec', 'CONSTRAINT Progress', 'POSTCONDITION TraceAccepted', 'CHECK_DEADLOCK FALSE']
NJOBS = 13


def sig_of(e):
    return "gal:%s:%s:%s" % (e['ev'], e.get('scheme', '-'), e.get('op', '-'))


def describe(e):
    return json.dumps({k: (v if not isinstance(v, list) or len(str(v)) < 80 else str(v)[:80] + '..') for k, v in e.items() if k not in ('prog', 'fork', 'indep')})[:600]


def run(ctx):
    ctx.assumptions += [
        "every call runs on an evaluator whose key set holds exactly the Galois keys the library advertises for that call (a recording rlwe.EvaluationKeySet); a request outside the list or an error is a violation",
        "bgv: 2x8 (plaintext ring smaller than ciphertext ring, with and without P) and 2x16 (equal rings); ckks: 32 slots full, 8/2/1 slots sparse, conjugate-invariant ring, a set without P; all (batch, n) with n*batch <= slots",
        "huge rotation amounts (2^40, 2^62, MaxInt64, MinInt64+1) are reduced modulo the row length by the harness with math/big",
        "Trace: rlwe evaluator on rings of degree 16, 32, 64 (NTT and coefficient-domain ciphertexts, with and without P) and on conjugate-invariant rings of degree 16 and 32, every depth logN in [0, LogN), input and receiver at equal and different levels, in place and into a receiver holding unrelated data; the plaintext has non-zero integer coefficients scaled by 2^30, read back coefficient by coefficient",
    ]
    d = scratch('c11-mc')
    stage_specs(d)
    write_mc(d, 'MC_GaloisMC', 'GaloisMC', dict(Ms=set([16, 32, 64] if ctx.quick else [16, 32, 64, 128]), KRange=Raw("-12..12" if ctx.quick else "-40..40"), NMax=8),
             ['SPECIFICATION MSpec'] + ['INVARIANT ' + x for x in ['Compose', 'Inverse', 'LogExp', 'Periodic', 'OrderTwo', 'TreeOK']])
    r = tlc(d, 'MC_GaloisMC', timeout=2400)
    ctx.add_mc(r, 'GaloisMC')
    log("[c11] group laws / tree: %d states" % r.distinct)
    for skip in (False, True):
        write_mc(d, 'MC_GaloisTraceMC', 'GaloisTraceMC', dict(MaxLogN=4 if ctx.quick else 5, SkipLast=skip), ['SPECIFICATION TSpec', 'INVARIANT TraceTheorem', 'INVARIANT CountOK'])
        r = tlc(d, 'MC_GaloisTraceMC', timeout=2400)
        if not skip:
            ctx.add_mc(r, 'GaloisTraceMC')
        elif 'TraceTheorem' not in r.violated:
            raise Inconclusive("the mutant trace loop (conjugate-invariant ring, one doubling short) does not violate TraceTheorem: the invariant is vacuous")
    d = scratch('c11')

    def job(i):
        tf = os.path.join(d, 't%d.ndjson' % i)
        vrun(['c11', 'record', '--trace', tf, '--seed', ctx.seed, '--tier', ctx.tier, '--part', i])
        return [json.loads(x) for x in open(tf)]

    evs = []
    with ThreadPoolExecutor(max_workers=NJOBS) as ex:
        for part in ex.map(job, range(NJOBS)):
            evs += part
    log("[c11] %d events" % len(evs))
    rej, stats = validate_programs(d, 'MC_GaloisTrace', 'GaloisTrace', {}, TRACE_CFG, evs, max_rounds=15, chunks=NCPU - 2, sigfn=sig_of)
    ctx.add_trace_stats(stats, len(evs))
    ctx.cov['programs'] = len(evs)
    ctx.cov['distinct_nontrivial'] = len(set((e['ev'], e.get('scheme'), e.get('op'), e.get('off'), e.get('n'), e.get('k')) for e in evs))
    ctx.cov['rule'] = "one event per call; distinct by (operation, scheme/layout, batch, n, k)"
    s = [e for e in evs if e['ev'] == 'ptsum']
    ctx.sample({k: v for k, v in s[len(s) // 3].items() if k not in ('prog', 'fork', 'indep')})
    for x in rej:
        e = x['event']
        ctx.violation(describe(e), dict(family='galois', event=e), sig=sig_of(e))
