"""Frame condition of non-evaluator operations: a phase of C09."""
import json, os
from vlib import *

TRACE_CFG = ['SPECIFICATION TraceSpec', 'CONSTRAINT Progress', 'POSTCONDITION TraceAccepted', 'CHECK_DEADLOCK FALSE']


def sig_of(e):
    return "frame:%s:%s" % (e.get('layer'), e.get('op'))


def run_frame(ctx):
    ctx.assumptions += [
        "operations outside the evaluators (bgv / ckks Encode, Decode, DecodePublic; Encrypt / EncryptZero under sk and pk; Decrypt of degree 1 and 2; GenPublicKey / RelinearizationKey / GaloisKey / EvaluationKey; every GenShare / AggregateShares / finalisation of the collective public-key, relinearisation (both rounds), Galois and evaluation-key protocols; collective key switching to a secret and to a public key, integer share conversions both ways, bgv and ckks refresh; Shamir share generation, aggregation and the combiner): every argument is digested through its binary encoding before and after the call, and the call is repeated from the same seed with outputs that held other values (larger degree / level, other keys or shares)",
        "receivers keep the metadata of a fresh one (EncryptZero and share-to-encryption take their configuration from it); a round-two relinearisation share is its first component per digit (the second one of the container is not written and not used)",
    ]
    d = scratch('c09-frame')
    stage_specs(d)
    evs = []
    seeds = [int(ctx.seed)] if ctx.quick else [int(ctx.seed) + k for k in range(4)]
    only = None
    if ctx.replay:
        only = os.path.join(d, 'only.json')
        json.dump([json.load(open(ctx.replay))['event']['op']], open(only, 'w'))
    for sd in seeds:
        tf = os.path.join(d, 't%d.ndjson' % sd)
        vrun(['frame', 'exec', '--trace', tf, '--seed', sd] + (['--only', only] if only else []))
        part = [json.loads(x) for x in open(tf)]
        for e in part:
            e['prog'] = e['prog'] + 1000 * sd
        evs += part
    rej, stats = validate_programs(d, 'MC_FrameTrace', 'FrameTrace', {}, TRACE_CFG, evs, max_rounds=50, chunks=4, sigfn=sig_of)
    ctx.add_trace_stats(stats, len(evs))
    ctx.cov['programs'] = ctx.cov.get('programs', 0) + len(evs)
    ctx.cov['distinct_nontrivial'] = ctx.cov.get('distinct_nontrivial', 0) + len(set(e['op'] for e in evs))
    ctx.cov['rule'] = ctx.cov.get('rule', '') + " frame phase: one event per operation and seed."
    for x in rej:
        e = x['event']
        ctx.violation(json.dumps({k: v for k, v in e.items() if k not in ('prog', 'fork', 'indep')})[:700], dict(family='frame', event=e), sig=sig_of(e))
