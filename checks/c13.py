"""C13: homomorphic polynomial evaluation returns p(x) at the advertised depth and scale."""
import json, os
from concurrent.futures import ThreadPoolExecutor
from vlib import *

TRACE_CFG = ['SPECIFICATION TraceSpec', 'CONSTRAINT Progress', 'POSTCONDITION TraceAccepted', 'CHECK_DEADLOCK FALSE']
NJOBS = 14


def sig_of(e):
    c = e.get('cfg', {})
    if e['ev'] == 'basis':
        return "poly:basis:%s:%s" % (c.get('a'), c.get('b'))
    if e['ev'] in ('factor', 'peval', 'pevalmod', 'chebapx'):
        return "poly:tool:%s:%s:deg=%s:%s" % (e['ev'], e.get('basis', 'mono'), len(e.get('p', [])) - 1, e.get('parity', e.get('P', '-')))
    return "poly:%s:%s:%s:deg=%s:%s:inv=%s" % (e['set'], c.get('basis'), c.get('mode'), c.get('deg'), c.get('parity'), c.get('invariant'))


def describe(e):
    return json.dumps({k: v for k, v in e.items() if k not in ('prog', 'fork', 'indep')})[:700]


def run(ctx):
    fam = None
    if ctx.replay:
        fam = json.load(open(ctx.replay)).get('family')
    if fam in (None, 'polyeval'):
        run_polyeval(ctx)
    if fam in (None, 'composite'):
        from checks.composite import run_composite
        run_composite(ctx)


def run_polyeval(ctx, frame=False):
    """frame=True is the C09 phase: a seeded sixth of the shapes, validated against the frame condition only."""
    tmod = 'PolyFrameTrace' if frame else 'PolyEvalTrace'
    if frame:
        ctx.assumptions += ["polynomial evaluators (bgv and ckks): a seeded share of the C13 shapes; the ciphertext, polynomial / polynomial-vector and power-basis arguments are digested before and after, and every call is repeated on the same evaluator"]
    else:
      ctx.assumptions += [
        "bgv: t=97, 16 slots, six 42..56-bit moduli, standard and scale-invariant mode; ckks: 8 slots sparse on N=2^10 (standard and conjugate-invariant ring), six moduli, scale 2^45",
        "TLC enumerates every shape: degree 0..15, monomial / Chebyshev (interval [-1,1]) basis, general / odd / even with the parity flags set, zeroed leading and linear coefficient, single polynomial / two-polynomial vector with a third of the slots unmapped / precomputed power basis, input level one below / exactly / above the documented depth, default and non-default target scale",
        "coefficients are seeded: uniform mod t (bgv), integers in [-3,3] (ckks); ckks inputs are half-integers in [-1,1] so the exact value is a dyadic rational TLC computes; tolerance 2^-10",
    ]
    if ctx.replay:
        rp = json.load(open(ctx.replay))
        cfgs = [json.dumps(rp['event']['cfg'])] if 'cfg' in rp['event'] else []
        if rp['event']['ev'] in ('basis', 'factor', 'peval', 'pevalmod', 'chebapx'):
            cfgs = []
    else:
        sets = json.loads(vrun(['c13', 'sets'])[0].strip().splitlines()[0])
        d = scratch('c13-gen')
        stage_specs(d)
        write_mc(d, 'MC_PolyEvalGen', 'PolyEvalGen', dict(Sets=sets, MaxDeg=15 if not ctx.quick else 15, Parities=set(["gen", "odd", "even"]), Modes=set(["single", "vector", "pbasis"]),
                                                       Scales=set(["default", "other"])), ['SPECIFICATION Spec', 'INVARIANT Emit', 'INVARIANT SelfCheck'])
        r = tlc(d, 'MC_PolyEvalGen', timeout=900)
        ctx.add_mc(r, 'PolyEvalGen shapes')
        cfgs = progs_from(r)
        if ctx.quick:     # the quick tier runs every shape of the sparse axes and a seeded third of the rest
            import random
            rnd = random.Random(int(ctx.seed))
            cfgs = [c for c in cfgs if rnd.random() < 0.34 or json.loads(c)['deg'] in (0, 1, 4, 8)]
        if frame:
            import random
            rnd = random.Random(int(ctx.seed) + 9)
            cfgs = [c for c in cfgs if rnd.random() < (0.17 if ctx.quick else 0.5)]
    log("[c13] %d shapes" % len(cfgs))
    d = scratch('c13')

    def job(i):
        cf = os.path.join(d, 'cfg%d.ndjson' % i)
        open(cf, 'w').write("".join(x + "\n" for x in cfgs[i::NJOBS]))
        tf = os.path.join(d, 't%d.ndjson' % i)
        vrun(['c13', 'exec', '--cfgs', cf, '--trace', tf, '--seed', int(ctx.seed) * 100 + i] + (['--basis'] if i == 0 else []))
        evs = [json.loads(x) for x in open(tf)]
        for e in evs:
            e['prog'] = e['prog'] * NJOBS + i
        return evs

    evs = []
    with ThreadPoolExecutor(max_workers=NJOBS) as ex:
        for part in ex.map(job, range(NJOBS)):
            evs += part
    log("[c13] %d events" % len(evs))
    import re as _re
    kre = [k['signature_re'] for k in ctx.known if k.get('signature_re')]
    known_evs = [e for e in evs if any(_re.fullmatch(r, sig_of(e)) for r in kre)]
    other = [e for e in evs if not any(_re.fullmatch(r, sig_of(e)) for r in kre)]
    rej, stats = validate_programs(d, 'MC_' + tmod, tmod, {}, TRACE_CFG, other, max_rounds=15, chunks=NCPU - 2, sigfn=sig_of)
    ctx.add_trace_stats(stats, len(other))
    if known_evs:   # recorded findings are re-observed in a run of their own so that they cannot exhaust the rejection budget
        rej2, stats2 = validate_programs(scratch('c13-known'), 'MC_' + tmod, tmod, {}, TRACE_CFG, known_evs, max_rounds=400, chunks=4, sigfn=sig_of)
        ctx.add_trace_stats(stats2, len(known_evs))
        rej += rej2
    ctx.cov['programs'] = ctx.cov.get('programs', 0) + len(evs)
    nd = len(set(json.dumps(e.get('cfg', e.get('p')), sort_keys=True) for e in evs))
    if frame:
        ctx.cov['distinct_nontrivial'] = ctx.cov.get('distinct_nontrivial', 0) + nd
        ctx.cov['rule'] = ctx.cov.get('rule', '') + " polynomial evaluations: one event per shape of spec/PolyEvalGen.tla, validated against FrameOK of spec/PolyEval.tla."
    else:
        ctx.cov['distinct_nontrivial'] = nd
        ctx.cov['rule'] = "one event per evaluation; distinct by shape record"
    for e in (evs[len(evs) // 3], evs[-20 if len(evs) > 20 else 0]):
        ctx.sample({k: v for k, v in e.items() if k not in ('prog', 'fork', 'indep')})
    for x in rej:
        e = x['event']
        ctx.violation(describe(e), dict(family='polyeval', event=e), sig=sig_of(e))
