#!/bin/sh
# Builds the Go harness once from files on disk (offline). Every check rebuilds it against /repo's current tree.
set -e
cd /verif/harness
export GOFLAGS=-mod=mod GOPROXY=off GOSUMDB=off GOTOOLCHAIN=local
cp /repo/go.sum go.sum
mkdir -p /verif/.work/bin
go build -tags verif -o /verif/.work/bin/vrun ./cmd/vrun
echo setup ok
