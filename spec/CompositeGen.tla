----------------------------- MODULE CompositeGen -----------------------------
(* Enumerates the configurations of the composite circuits; for the sign family the predicted schedule (number of  *)
(* bootstraps, output level) is attached so that the orchestration can keep one configuration per distinct schedule. *)
EXTENDS Composite, TLC, Json
CONSTANTS Sets,      \* sequence of [name, maxlevel, lpr, logscale, logn, ci, minins (set), comps (set of names), mod1 (set of mod1 types)]
          Comps,     \* function name -> sequence of depths
          Circuits, LogMaxs
VARIABLES cfg, phase
Init == cfg = [x |-> 0] /\ phase = "start"
Sig(s, c, comp, lv, mi) ==
    IF c \in {"sign", "step"} THEN LET r == Evaluate(Comps[comp], lv, s.lpr, mi, s.maxlevel) IN <<Len(r.boots), r.lvl>>
    ELSE IF c \in {"max", "min"} THEN LET r == StepDiff(Comps[comp], lv, s.lpr, mi, s.maxlevel, FALSE, FALSE) IN <<Len(r.boots), r.lvl>>
    ELSE <<0 - 1, lv>>
\* mod 1 (the repository's configurations): the input sits at the top level, the output scaling is 1, 2 or 1/2 (in quarters)
Mod1Cfgs(s) == {[set |-> s.name, circuit |-> "mod1", comp |-> t, inlvl |-> s.maxlevel, minin |-> 0, logmax |-> 0, scaling |-> sc, sig |-> <<0 - 1, 0>>] :
                   t \in s.mod1, sc \in {4, 8, 2}}
Lvls(s, mi) == {lv \in 0..s.maxlevel : lv >= mi /\ Usable(lv, s.lpr)}
CfgsOf(s, c, mi) == {[set |-> s.name, circuit |-> c, comp |-> comp, inlvl |-> lv, minin |-> mi, logmax |-> lm, scaling |-> 4, sig |-> Sig(s, c, comp, lv, mi)] :
                        comp \in s.comps, lv \in Lvls(s, mi), lm \in (IF c \in {"invpos", "invneg", "invfull"} THEN LogMaxs ELSE {0})}
Cfgs == UNION {UNION {UNION {CfgsOf(Sets[i], c, mi) : mi \in Sets[i].minins} : c \in Circuits} : i \in 1..Len(Sets)}
        \cup UNION {Mod1Cfgs(Sets[i]) : i \in 1..Len(Sets)}
Next == /\ phase = "start"
        /\ \E c \in Cfgs : cfg' = c
        /\ phase' = "done"
Spec == Init /\ [][Next]_<<cfg, phase>>
Emit == phase # "done" \/ PrintT(<<"PROG", ToJson(cfg)>>)
=============================================================================
