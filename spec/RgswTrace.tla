------------------------------ MODULE RgswTrace ------------------------------
EXTENDS Rgsw, Json
Trace == ndJsonDeserialize("trace.ndjson")
VARIABLES l, tbl, nbr
tvars == <<l, tbl, nbr>>
Ev == Trace[l]
TrReset == Ev.ev = "reset" /\ UNCHANGED <<tbl, nbr>>
TrXP == Ev.ev = "xp" /\ XPOK(Ev) /\ UNCHANGED <<tbl, nbr>>
TrSetup == Ev.ev = "brsetup" /\ tbl' = Ev.tbl /\ nbr' = Ev.nbr /\ Len(Ev.tbl) = Ev.nbr + 1
TrBR == Ev.ev = "br" /\ BROK(tbl, nbr, Ev) /\ UNCHANGED <<tbl, nbr>>
TrKeys == Ev.ev = "keys" /\ KeysOK([Ev EXCEPT !.reqbrk = {Ev.reqbrk[i] : i \in 1..Len(Ev.reqbrk)}, !.provbrk = {Ev.provbrk[i] : i \in 1..Len(Ev.provbrk)},
                                            !.reqgal = {Ev.reqgal[i] : i \in 1..Len(Ev.reqgal)}, !.provgal = {Ev.provgal[i] : i \in 1..Len(Ev.provgal)}])
          /\ UNCHANGED <<tbl, nbr>>
TraceNext == l <= Len(Trace) /\ l' = l + 1 /\ (TrReset \/ TrXP \/ TrSetup \/ TrBR \/ TrKeys)
TraceInit == l = 1 /\ tbl = <<>> /\ nbr = 0 /\ TLCSet(1, 1)
TraceSpec == TraceInit /\ [][TraceNext]_tvars
Progress == TLCSet(1, IF TLCGet(1) > l THEN TLCGet(1) ELSE l)
TraceAccepted ==
    LET n == TLCGet(1) - 1 IN
    IF n = Len(Trace) THEN TRUE ELSE PrintT(<<"TRACE_REJECTED_AT", n + 1>>) /\ FALSE
=============================================================================
