------------------------------ MODULE Ownership ------------------------------
(* Copy constructors and concurrent use (ShallowCopy / WithKey / WithPRNG / AtLevel / CopyNew).               *)
(*                                                                                                          *)
(* The heap of an object is a set of cells, each of a class:                                                 *)
(*   "config"  mode flags, parameters, distribution parameters: a copy must hold an equal value               *)
(*   "ro"      precomputed tables, rings, keys: may be shared, never written after construction               *)
(*   "lazy"    a table filled on first use: shared only if every write is idempotent and synchronised -- the   *)
(*             design forbids sharing it between concurrently usable objects                                 *)
(*   "scratch" buffers an operation writes: a concurrently usable copy owns fresh ones                        *)
(*   "rand"    generator / sampler state: a concurrently usable copy owns a fresh one                         *)
(* A copy constructor maps every cell of the original to a cell of the copy: the same cell (shared) or a      *)
(* new one (fresh) with an equal value for "config".  Policy(kind) says which classes a kind of copy may      *)
(* share: "shallow" (documented concurrently usable) shares config and ro only; "rebind" (WithKey, AtLevel,   *)
(* WithPRNG: documented not concurrently usable with the receiver) may share everything; "deep" shares        *)
(* nothing.  Goroutines run operations as Begin/End pairs on their own object; an operation reads config,     *)
(* ro, lazy cells and writes scratch, rand and (first use) lazy cells of its object.                          *)
(* Invariants: NoConflict -- two running operations never overlap on a cell one of them writes;                *)
(* Preserved -- a copy's config equals the original's;  Independent -- an operation on a concurrently usable   *)
(* copy never writes a cell of the original.                                                                  *)
EXTENDS Integers, FiniteSets, Sequences, TLC

CONSTANTS Classes,      \* class of each cell of the original, a sequence, e.g. <<"config","ro","scratch","rand","lazy">>
          Goroutines,   \* e.g. 1..3
          Kinds,        \* kinds of copies in use, e.g. {"orig","shallow","rebind"}
          SharePolicy   \* kind -> set of classes the constructor shares with the original (the design under test)

NCells == Len(Classes)
Cells == 1..NCells
\* cell ids: the original owns cells 1..NCells; the copy of goroutine g owns NCells*g + c when fresh
CellOf(g, kind, c) == IF kind = "orig" \/ Classes[c] \in SharePolicy[kind] THEN c ELSE NCells * g + c

VARIABLES kindOf,    \* goroutine -> kind of the object it uses
          running,   \* goroutine -> BOOLEAN
          lazyDone   \* set of lazy cells already filled
vars == <<kindOf, running, lazyDone>>

Reads(g)  == {CellOf(g, kindOf[g], c) : c \in {x \in Cells : Classes[x] \in {"config", "ro", "lazy"}}}
Writes(g) == {CellOf(g, kindOf[g], c) : c \in {x \in Cells : Classes[x] \in {"scratch", "rand"}}}
             \cup {CellOf(g, kindOf[g], c) : c \in {x \in Cells : Classes[x] = "lazy" /\ CellOf(g, kindOf[g], x) \notin lazyDone}}

\* which kinds may run concurrently with others: only the original and shallow copies
Concurrent(k) == k \in {"orig", "shallow"}

Begin(g) == /\ ~running[g]
            /\ (Concurrent(kindOf[g]) \/ \A h \in Goroutines : ~running[h])      \* a rebind copy runs alone
            /\ (\A h \in Goroutines : running[h] => Concurrent(kindOf[h]))
            /\ running' = [running EXCEPT ![g] = TRUE]
            /\ UNCHANGED <<kindOf, lazyDone>>
End(g) == /\ running[g]
          /\ running' = [running EXCEPT ![g] = FALSE]
          /\ lazyDone' = lazyDone \cup {CellOf(g, kindOf[g], c) : c \in {x \in Cells : Classes[x] = "lazy"}}
          /\ UNCHANGED kindOf

Init == /\ kindOf \in {f \in [Goroutines -> Kinds] : Cardinality({g \in Goroutines : f[g] = "orig"}) <= 1}
        /\ running = [g \in Goroutines |-> FALSE] /\ lazyDone = {}
Next == \E g \in Goroutines : Begin(g) \/ End(g)
Spec == Init /\ [][Next]_vars

NoConflict == \A g, h \in Goroutines : (g # h /\ running[g] /\ running[h]) =>
                 (Writes(g) \cap (Reads(h) \cup Writes(h)) = {})
Independent == \A g \in Goroutines : (kindOf[g] = "shallow") => (Writes(g) \cap Cells = {})
-----------------------------------------------------------------------------
(* Contract on what the harness observes of a real (original, copy) pair (OwnershipTrace).                   *)
CopyOK(e) ==
  /\ ~e.panic
  /\ \A i \in 1..Len(e.ops) :                      \* same behaviour: every operation, same result, nothing fails only on the copy
        /\ e.ops[i].eq                              \* copy's result equals the original's (digest, or statistic class)
        /\ e.ops[i].again                           \* the original's result is unchanged after the copy was used
        /\ (e.ops[i].errcopy => e.ops[i].errorig)
  /\ (e.concurrent => Len(e.written) = 0)          \* a concurrently usable copy writes no memory it shares with the original
  /\ (e.deep => e.nshared = 0 /\ e.origintact)     \* a deep copy shares nothing; mutating every byte of it leaves the original intact
  /\ e.origgraph                                   \* deriving the copy rebinds nothing in the original (same reachable backing arrays and maps)

SchedOK(e) == ~e.panic /\ e.races = 0 /\ e.seqequal
=============================================================================
