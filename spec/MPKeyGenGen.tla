----------------------------- MODULE MPKeyGenGen -----------------------------
(* Enumerates every way of aggregating the shares of the parties (all merge orders, both operand  *)
(* orders, in-place or fresh outputs, optional wire hops) and emits each complete schedule.      *)
EXTENDS MPKeyGen, TLC, Json
CONSTANTS WireHops     \* max number of serialisation hops in a schedule
VARIABLES hist, hops
gvars == <<shares, seen, final, hist, hops>>

NextId == Cardinality(DOMAIN shares) + 1

GGen == /\ Cardinality(DOMAIN shares) < Cardinality(Party)
        /\ LET i == Cardinality(DOMAIN shares) + 1 IN
           /\ GenShare(i, i, "t", i)
           /\ hist' = Append(hist, [ev |-> "gen", party |-> i, id |-> i])
        /\ UNCHANGED hops

Live == {id \in DOMAIN shares : \A other \in DOMAIN shares : other = id \/ ~(shares[id].members \subseteq shares[other].members /\ shares[id].members # shares[other].members)}

GAgg == /\ Cardinality(DOMAIN shares) >= Cardinality(Party)
        /\ \E a, b \in Live : \E inplace \in {0, 1, 2} :
             /\ a # b /\ shares[a].members \cap shares[b].members = {}
             /\ \A c \in Live : c \in {a, b} \/ (shares[c].members \cap (shares[a].members \cup shares[b].members) = {})
             /\ LET out == IF inplace = 1 THEN a ELSE IF inplace = 2 THEN b ELSE NextId IN
                /\ Aggregate(a, b, out, FALSE, 0)
                /\ hist' = Append(hist, [ev |-> "agg", a |-> a, b |-> b, out |-> out])
        /\ UNCHANGED hops

GWire == /\ hops < WireHops /\ Cardinality(DOMAIN shares) >= Cardinality(Party)
         /\ \E a \in Live : /\ Wire(a, NextId, 0)
                            /\ hist' = Append(hist, [ev |-> "wire", a |-> a, out |-> NextId])
         /\ hops' = hops + 1

Complete == \E id \in DOMAIN shares : shares[id].members = Party
GNext == ~Complete /\ (GGen \/ GAgg \/ GWire)
GInit == MInit /\ hist = <<>> /\ hops = 0
GSpec == GInit /\ [][GNext]_gvars

Emit == ~Complete \/ PrintT(<<"PROG", ToJson(hist)>>)
\* once complete, stop
StopWhenComplete == ~Complete
=============================================================================
