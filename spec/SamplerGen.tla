------------------------------ MODULE SamplerGen ------------------------------
(* Enumerates (or, under -simulate, samples) call sequences on one sampler family: every call names the     *)
(* view object it is made on and the variant.  Views: the sampler returned by the constructor ("base"),      *)
(* AtLevel(0) / AtLevel(1) views kept and re-used ("v0", "v1"), a view of a view ("v0of1"), and a view       *)
(* object made anew for this call ("v0fresh").  Each complete sequence is emitted as a JSON program.         *)
EXTENDS Integers, Sequences, TLC, Json
CONSTANTS Len0,      \* exact length of the emitted sequences
          Ops, Views
VARIABLES hist
Init == hist = <<>>
Next == /\ Len(hist) < Len0
        /\ \E o \in Ops, v \in Views : hist' = Append(hist, [op |-> o, view |-> v])
GSpec == Init /\ [][Next]_hist
Emit == Len(hist) < Len0 \/ PrintT(<<"PROG", ToJson(hist)>>)
=============================================================================
