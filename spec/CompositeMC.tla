----------------------------- MODULE CompositeMC -----------------------------
(* Exhaustive check of the level schedules for every sequence of up to MaxPolys polynomial depths, every input   *)
(* level and the bootstrappers the library itself provides: (lpr, minin) in Boots.                                *)
EXTENDS Composite, TLC
CONSTANTS MaxLvl, MaxPolys, MaxDepth, Boots, OldThresholds, OldRatio, MaxIters
VARIABLES depths, inlvl, bt, iters
mvars == <<depths, inlvl, bt, iters>>
DepthSeqs == UNION {[1..n -> 1..MaxDepth] : n \in 1..MaxPolys}
MInit == depths \in DepthSeqs /\ bt \in Boots /\ inlvl \in 0..MaxLvl /\ iters \in 1..MaxIters
MNext == UNCHANGED mvars
MSpec == MInit /\ [][MNext]_mvars
Lpr == bt[1]
MinIn == bt[2]
Valid == inlvl >= MinIn /\ Usable(inlvl, Lpr) /\ Admitted(depths, Lpr, MinIn, MaxLvl)
\* Evaluate: never starved, ends at a level the bootstrapper accepts, bootstraps only when the next polynomial does not fit
EvalOK == Valid => LET r == Evaluate(depths, inlvl, Lpr, MinIn, MaxLvl) IN
              /\ r.slack >= 0 /\ r.lvl >= MinIn
              /\ \A i \in 1..Len(r.boots) : r.boots[i] >= MinIn
\* Max / Min: the result holds a message and its scale is exactly the one of the step function
GateOK == Valid => LET r == StepDiff(depths, inlvl, Lpr, MinIn, MaxLvl, OldThresholds, OldRatio) IN
              /\ r.slack >= 0 /\ Usable(r.lvl, Lpr)
GateExact == Valid => StepDiff(depths, inlvl, Lpr, MinIn, MaxLvl, OldThresholds, OldRatio).exact
\* Goldschmidt: no product starts below one rescaling's worth of usable levels
GoldOK == (Valid /\ MaxLvl >= 2 * Lpr + MinIn) =>
              LET r == Gold(iters, inlvl, inlvl, 1000, Lpr, MinIn, MaxLvl) IN r.low >= 2 * Lpr - 1
=============================================================================
