----------------------------- MODULE ThresholdMC -----------------------------
(* Exhaustive check of the threshold design on scalars of Z_Q: every (N, t), every injective choice of      *)
(* public points, secrets and polynomial coefficients from small pools, every active set of size t and     *)
(* every listing order reconstructs the sum of the secrets; listing order is irrelevant.                    *)
EXTENDS Threshold, TLC, SequencesExt
CONSTANTS Q, MaxN, PointPool, ValPool

VARIABLES nn, tt, pts, polys, act      \* parties, threshold, points (seq), dealer polynomials (seq of seq of 1-vectors), active listing (seq of points)
tvars == <<nn, tt, pts, polys, act>>

InjSeqs(S, k) == {s \in [1..k -> S] : \A i, j \in 1..k : i # j => s[i] # s[j]}

TInit == /\ nn \in 1..MaxN /\ tt \in 1..nn
         /\ pts \in InjSeqs(PointPool, nn)
         /\ polys \in [1..nn -> [1..tt -> {<<v>> : v \in ValPool}]]
         /\ act \in UNION {InjSeqs({pts[i] : i \in 1..nn}, k) : k \in {tt}}
TNext == UNCHANGED tvars
TSpec == TInit /\ [][TNext]_tvars

Agg(x) == SumVecs([i \in 1..nn |-> ShareVec(polys[i], x, 1, Q)], 1, Q)
Additive(x) == ScaleVec(Agg(x), Lagrange(act, x, Q), 1, Q)
SecretSum == SumVecs([i \in 1..nn |-> polys[i][1]], 1, Q)

Reconstruct == SumVecs([k \in 1..Len(act) |-> Additive(act[k])], 1, Q) = SecretSum
ListingIndependent == \A k \in 1..Len(act) : Lagrange(act, act[k], Q) = Lagrange(Reverse(act), act[k], Q)
=============================================================================
