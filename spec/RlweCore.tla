------------------------------ MODULE RlweCore ------------------------------
(***************************************************************************)
(* Encryption / decryption / evaluation keys of core/rlwe at the level of  *)
(* what a holder of the secret key can measure: the error polynomial of a  *)
(* fresh ciphertext, of a public key, of an evaluation-key row, and of the *)
(* output of a key switch, as integer magnitudes (bits) and a standard     *)
(* deviation (in thousandths).                                             *)
(*                                                                         *)
(* Fresh encryption (C03), worst case over the declared distributions      *)
(*   (B = rounded error bound, secrets ternary, H = Hamming weight):       *)
(*   sk            : |e| <= B                                              *)
(*   pk, no P      : |e| <= N*B + B + N*B                                  *)
(*   pk, with P    : the above divided by P, plus rounding (1 + H)         *)
(* and from below: the error is not degenerate (std >= sigma/2 for sk, a   *)
(* quarter unit otherwise, two encryptions differ); a wrong key decrypts   *)
(* to something of the order of the modulus.                               *)
(*                                                                         *)
(* Key switching (C04): for a key with D digit rows of at most `digitbits` *)
(* bits, auxiliary modulus of lgp bits:                                    *)
(*   |e_out| <= |e_in| + N * D * 2^digitbits * B / P + rounding (1 + H)    *)
(***************************************************************************)
EXTENDS Integers, Sequences, FiniteSets

Max2(a, b) == IF a >= b THEN a ELSE b
Max3(a, b, c) == Max2(a, Max2(b, c))

\* ceil(log2) bounds, all in bits
FreshBits(key, hasP, lgn, bbits, hbits, lgp) ==
    IF key = "sk" THEN bbits
    ELSE IF ~hasP THEN lgn + bbits + 2
    ELSE Max2(lgn + bbits + 2 - lgp, hbits + 1) + 1

FreshOK(e) ==
    /\ ~e.err /\ ~e.panic
    /\ e.metaeq /\ e.lvlout = e.lvlexp
    /\ e.errbits <= FreshBits(e.key, e.hasp, e.lgn, e.bbits, e.hbits, e.lgp)
    /\ e.differs
    /\ IF e.key = "sk" THEN 2 * e.stdmilli >= e.sigmamilli ELSE e.stdmilli >= 250
    /\ e.wrongbits >= e.logq - 4
    \* every component carries its error: without an auxiliary modulus c1 / pk1 = u + e1 / pk1 is of the order of the
    \* modulus (it is the small u itself exactly when c1 has no error); the logged value is logq where this does not apply
    /\ e.maskbits >= e.logq - 4

\* a public key or an evaluation-key row: an sk-style error
KeyNoiseOK(e) == ~e.err /\ ~e.panic /\ e.errbits <= e.bbits /\ 2 * e.stdmilli >= e.sigmamilli

\* worst case: |e_out| <= |e_in| + N*D*2^digitbits*B/P + (1+H)/2
KSBitsWorst(e) == Max3(e.inbits, e.lgn + e.lgd + e.digitbits + e.bbits - e.lgp + 1, e.hbits + 2) + 2
\* what the check enforces: the same three terms with sums of independent centred variables replaced by
\* 16 (resp. 13) standard deviations: sqrt(N*D) * 2^digitbits * sigma * 16 / P and sqrt(H+1) * 4
\* (a false alarm has probability below 2^-90 per coefficient; a wrong digit count, a missing division by P,
\* a skipped row or a non-centred digit shows as several bits)
KSBits(e) == Max3(e.inbits, ((e.lgn + e.lgd + 1) \div 2) + e.digitbits + 4 - e.lgp, ((e.hbits + 1) \div 2) + 2) + 1

KeySwitchOK(e) ==
    /\ ~e.err /\ ~e.panic
    /\ e.metaeq /\ e.lvlout = e.lvlexp
    /\ e.errbits <= KSBits(e)
    /\ KSBits(e) <= KSBitsWorst(e) + 1

\* a compressed key expands to the key generated uncompressed from the same randomness, and expanding is idempotent
ExpandOK(e) == ~e.err /\ ~e.panic /\ e.eq /\ e.twice
=============================================================================
