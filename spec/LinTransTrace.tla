---------------------------- MODULE LinTransTrace ----------------------------
(* Validates recorded linear-transformation calls (harness/internal/c12) against LinTrans.            *)
EXTENDS LinTrans, Json, TLC
Trace == ndJsonDeserialize("trace.ndjson")
VARIABLE l
Ev == Trace[l]
ToSet(s) == {s[i] : i \in 1..Len(s)}
KsOf(m) == {m.diags[i].k : i \in 1..Len(m.diags)}
IsSeq(e) == e.mode \in {"seq", "seqnew"}
RECURSIVE ProdSc(_, _, _)
ProdSc(mats, T, n) == IF n = 0 THEN 1 ELSE (ProdSc(mats, T, n - 1) * mats[n].sc) % T
RECURSIVE ProdQ(_, _, _)
ProdQ(qf, T, n) == IF n = 0 THEN 1 ELSE (ProdQ(qf, T, n - 1) * qf[n]) % T
RECURSIVE SumSc(_, _)
SumSc(mats, n) == IF n = 0 THEN 0 ELSE SumSc(mats, n - 1) + mats[n].sc
RECURSIVE SumQ(_, _)
SumQ(qf, n) == IF n = 0 THEN 0 ELSE SumQ(qf, n - 1) + qf[n]
Abs(x) == IF x < 0 THEN -x ELSE x

\* the level the evaluation documents: min(input, receiver, matrix); *New variants allocate the receiver at the matrix level
LevelOK(e) ==
    IF IsSeq(e) THEN e.lvlout = SeqLevel(e.mats, Min2(e.lvlin, IF e.mode = "seq" THEN e.lvlrecv ELSE e.mats[1].lvl), Len(e.mats))
    ELSE e.lvlout = Min2(e.lvlin, Min2(IF e.mode \in {"single", "many"} THEN e.lvlrecv ELSE e.mats[1].lvl, e.mats[1].lvl))
\* scale: product of input and matrix scales, divided by the moduli removed by the rescalings of a sequence
ScaleOK(e) ==
    IF e.T > 0 THEN (e.scout * ProdQ(e.qf, e.T, Len(e.qf))) % e.T = (e.scin * ProdSc(e.mats, e.T, Len(e.mats))) % e.T
    ELSE Abs(e.scout - (e.scin + SumSc(e.mats, Len(e.mats)) - SumQ(e.qf, Len(e.qf)))) <= 8
\* Permutation.GetDiagonals: the diagonals are the matrix that sends slot `from` of row r to slot `to`, times the scaling
PermOK(m, h) ==
    m.isperm =>
      /\ \A i \in 1..Len(m.perm) : LET p == m.perm[i] IN
            \E d \in 1..Len(m.diags) : /\ (m.diags[d].k - (p.from - p.to)) % h = 0
                                      /\ m.diags[d].v[p.r + 1][p.to + 1] = p.sc
      /\ \A d \in 1..Len(m.diags) : \A r \in 1..Len(m.diags[d].v) : \A j \in 1..h :
            (m.diags[d].v[r][j][1] # 0 \/ m.diags[d].v[r][j][2] # 0) =>
                \E i \in 1..Len(m.perm) : /\ m.perm[i].r = r - 1 /\ m.perm[i].to = j - 1
                                          /\ (m.diags[d].k - (m.perm[i].from - m.perm[i].to)) % h = 0
                                          /\ m.perm[i].sc = m.diags[d].v[r][j]
LtOK(e) ==
    /\ \A i \in 1..Len(e.mats) : PermOK(e.mats[i], e.h)
    /\ ~e.err /\ ~e.panic
    /\ e.cons /\ e.inok
    /\ e.out = ApplySeq(e.mats, e.x, e.T, Len(e.mats))
    /\ ToSet(e.req) \subseteq ToSet(e.adv)
    /\ LevelOK(e)
    /\ ScaleOK(e)
TraceNext == /\ l <= Len(Trace) /\ l' = l + 1 /\ Ev.ev = "lt" /\ LtOK(Ev)
TraceInit == l = 1 /\ TLCSet(1, 1)
TraceSpec == TraceInit /\ [][TraceNext]_l
Progress == TLCSet(1, IF TLCGet(1) > l THEN TLCGet(1) ELSE l)
TraceAccepted ==
    LET n == TLCGet(1) - 1 IN
    IF n = Len(Trace) THEN TRUE ELSE PrintT(<<"TRACE_REJECTED_AT", n + 1>>) /\ FALSE
=============================================================================
