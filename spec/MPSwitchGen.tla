----------------------------- MODULE MPSwitchGen -----------------------------
(* Enumerates the admissible protocol configurations: protocol, input and output level, smudging parameter,  *)
(* scale class of the input, transform, chain of the parameter set.  A configuration is admissible when the  *)
(* worst-case noise of the result still fits under the modulus of the level the result lives at (the         *)
(* "protocol minimum" of the property).                                                                      *)
EXTENDS Integers, Sequences, TLC, Json
CONSTANTS LgQ,       \* cumulative bit sizes of the chain: LgQ[l+1] = floor(log2 Q_l)
          LgT,       \* bits of the plaintext modulus (integer scheme) / of the scale plus message (approximate)
          LogN, NParties, Scheme, SigmaSet
VARIABLE c
Protos == {"ks0", "ks", "pks", "e2s", "s2e", "refresh", "transform"}
Sigmas == SigmaSet
MaxL == Len(LgQ) - 1
Max(a, b) == IF a > b THEN a ELSE b
Lg(n) == CHOOSE k \in 0..16 : (2^k >= n) /\ (k = 0 \/ 2^(k-1) < n)
Budget(p, lvl, sg) == LgT + Max(sg + 3, IF p = "pks" THEN LogN + 6 ELSE 8) + Lg(NParties) + 4 < LgQ[lvl + 1]
Configs == {x \in [proto : Protos, inlvl : 0..MaxL, outlvl : 0..MaxL, lgsigma : Sigmas, sc : {"default", "other"},
                   f : {"none", "id", "neg", "times3", "perm", "coef", "permdec", "permenc"}] :
              /\ Budget(x.proto, x.inlvl, x.lgsigma)
              /\ (x.proto \in {"s2e", "refresh", "transform"} => Budget(x.proto, x.outlvl, x.lgsigma))
              /\ (x.proto \in {"ks0", "ks", "pks", "e2s"} => x.outlvl = x.inlvl)
              /\ (x.proto = "s2e" => x.inlvl = x.outlvl)
              /\ ((x.proto = "transform") = (x.f # "none"))
              /\ (x.proto = "pks" => x.lgsigma <= 20)
              \* the scale of an output whose encoding differs from the input's is not documented: default scale only
              /\ (x.f \in {"permdec", "permenc"} => x.sc = "default")}
Init == c \in Configs
Next == UNCHANGED c
GSpec == Init /\ [][Next]_c
Emit == PrintT(<<"PROG", ToJson(c)>>)
=============================================================================
