------------------------------ MODULE PolyEval ------------------------------
(***************************************************************************)
(* Homomorphic polynomial evaluation (circuits/common/polynomial and the   *)
(* bgv / ckks wrappers) at the level of slot values.                       *)
(*                                                                         *)
(* Integer scheme: slots are residues mod T, the result is p(x) mod T.     *)
(* Approximate scheme: inputs are half-integers x = x2/2 and coefficients  *)
(* are integers, so every value is an exact dyadic rational; outputs are   *)
(* recorded as round(value * 2^16) and must be within Tol of the exact     *)
(* value.  Chebyshev basis: p(u) = sum c_k T_k(u) on the already mapped    *)
(* input u (the documented change of basis u = (2x - a - b)/(b - a) is     *)
(* checked as a separate event).                                           *)
(*                                                                         *)
(* Level accounting: the evaluation consumes Depth(deg) = ceil(log2(deg+1))*)
(* rescalings (none in the scale-invariant integer mode), the output scale *)
(* is the requested one, too few levels is refused with an error.          *)
(* A polynomial vector maps each slot to one polynomial or to none (0).    *)
(***************************************************************************)
EXTENDS Integers, Sequences, FiniteSets

RECURSIVE CeilLog2(_)
CeilLog2(n) == IF n <= 1 THEN 0 ELSE 1 + CeilLog2((n + 1) \div 2)
Depth(deg) == CeilLog2(deg + 1)
Abs(x) == IF x < 0 THEN -x ELSE x
Pow2(n) == 2 ^ n

\* ---- integer scheme: Horner mod T; c is the coefficient sequence c[1] = constant term
RECURSIVE HornerMod(_, _, _, _)
HornerMod(c, x, T, k) == IF k > Len(c) THEN 0 ELSE (c[k] + x * HornerMod(c, x, T, k + 1)) % T
EvalMod(c, x, T) == HornerMod(c, x % T, T, 1)

\* ---- approximate scheme, monomial basis: value * 2^d with x = x2/2, d = Len(c) - 1
\* H(k) = sum_{j >= k} c[j] x2^(j-k) 2^(d-(j-1)) = c[k] 2^(d-(k-1)) + x2 H(k+1)
RECURSIVE HornerDy(_, _, _)
HornerDy(c, x2, k) ==
    LET d == Len(c) - 1 IN
    IF k > Len(c) THEN 0 ELSE c[k] * Pow2(d - (k - 1)) + x2 * HornerDy(c, x2, k + 1)
MonoNum(c, x2) == HornerDy(c, x2, 1)

\* ---- Chebyshev basis on u = u2/2: S_k = 2^k T_k(u), S_0 = 1, S_1 = u2, S_{k+1} = 2 u2 S_k - 4 S_{k-1}  (2u = u2)
RECURSIVE ChebS(_, _)
ChebS(u2, k) == IF k = 0 THEN 1 ELSE IF k = 1 THEN u2 ELSE 2 * u2 * ChebS(u2, k - 1) - 4 * ChebS(u2, k - 2)
\* value * 2^d = sum_k c_k S_k 2^(d-k)
RECURSIVE ChebSum(_, _, _)
ChebSum(c, u2, k) == LET d == Len(c) - 1 IN IF k > Len(c) THEN 0 ELSE c[k] * ChebS(u2, k - 1) * Pow2(d - (k - 1)) + ChebSum(c, u2, k + 1)
ChebNum(c, u2) == ChebSum(c, u2, 1)

\* exact value scaled by 2^16 (degrees up to 16)
Exact16(basis, c, x2) == (IF basis = "cheb" THEN ChebNum(c, x2) ELSE MonoNum(c, x2)) * Pow2(16 - (Len(c) - 1))

Tol == 64    \* 2^-10

\* ---- one evaluation; polys: sequence of coefficient sequences (same length), map[i] in 0..Len(polys)
SlotOK(e, i) ==
    LET m == e.map[i] IN
    IF e.T > 0 THEN e.out[i] = (IF m = 0 THEN 0 ELSE EvalMod(e.polys[m], e.x[i], e.T))
    ELSE Abs(e.out[i] - (IF m = 0 THEN 0 ELSE Exact16(e.basis, e.polys[m], e.x[i]))) <= Tol
Deg(e) == Len(e.polys[1]) - 1
Needed(e) == IF e.invariant THEN 0 ELSE Depth(Deg(e)) * e.perrescale
\* the documented admission rule counts Depth(deg) levels in both modes; in the scale-invariant mode an input
\* below it may be refused or evaluated, but never answered wrongly
Refused(e) == e.err /\ ~e.panic
EvalOK(e) ==
    IF e.lvlin < Needed(e) THEN Refused(e)
    ELSE IF e.invariant /\ e.lvlin < Depth(Deg(e)) /\ e.err THEN Refused(e)
    ELSE /\ ~e.err /\ ~e.panic
         /\ \A i \in 1..Len(e.x) : SlotOK(e, i)
         /\ e.lvlout = e.lvlin - Needed(e)
         /\ e.scdiff = 0
         /\ e.inok                    \* the input ciphertext is left intact
         /\ e.polyok                  \* so is the polynomial (vector) argument
         /\ e.again                   \* and the same call on the same evaluator returns the same ciphertext again

\* frame condition alone (decided under C09): whenever the call is admitted and answers, its arguments are intact
\* and the evaluator carries no state from one call into the next
FrameOK(e) == (~e.err /\ ~e.panic) => (e.inok /\ e.polyok /\ e.again)

\* ---- documented change of basis for the Chebyshev interval [a, b]: u = scalar * x + constant, with
\* scalar = 2/(b-a), constant = (-a-b)/(b-a); recorded as scalar*(b-a) and constant*(b-a) rounded to 2^-16
BasisOK(e) == e.sc16 = 2 * 65536 /\ e.ct16 = (0 - e.a - e.b) * 65536

\* ---- plaintext-side tools (utils/bignum): exact integer identities --------------------------------------------------
\* p(x) for integer coefficients c (c[1] constant) at the integer x: monomial basis / Chebyshev basis on [-1, 1]
RECURSIVE HornerInt(_, _, _)
HornerInt(c, x, k) == IF k > Len(c) THEN 0 ELSE c[k] + x * HornerInt(c, x, k + 1)
RECURSIVE ChebT(_, _)
ChebT(x, k) == IF k = 0 THEN 1 ELSE IF k = 1 THEN x ELSE 2 * x * ChebT(x, k - 1) - ChebT(x, k - 2)
RECURSIVE ChebInt(_, _, _)
ChebInt(c, x, k) == IF k > Len(c) THEN 0 ELSE c[k] * ChebT(x, k - 1) + ChebInt(c, x, k + 1)
EvalInt(basis, c, x) == IF basis = "cheb" THEN ChebInt(c, x, 1) ELSE HornerInt(c, x, 1)
\* Factorize(n): p = q * B_n + r with B_n = X^n (monomial) or T_n (Chebyshev), r of degree below n, q of degree deg - n;
\* two polynomials of degree <= 9 that agree on 11 points are equal (the points are small: TLC integers are 32 bits)
FactorOK(e) ==
    /\ ~e.err /\ ~e.panic
    /\ Len(e.r) = e.n /\ Len(e.q) = Len(e.p) - e.n
    /\ \A x \in -5..5 :
          EvalInt(e.basis, e.p, x) = EvalInt(e.basis, e.q, x) * (IF e.basis = "cheb" THEN ChebT(x, e.n) ELSE x ^ e.n) + EvalInt(e.basis, e.r, x)
\* Evaluate at x = x2 / 2: value * 2^deg exactly
PlainEvalOK(e) ==
    /\ ~e.err /\ ~e.panic /\ e.imzero
    /\ e.num = (IF e.basis = "cheb" THEN ChebNum(e.p, e.x2) ELSE MonoNum(e.p, e.x2))
\* EvaluateModP: the representative of p(x) in [0, P - 1]
EvalModPOK(e) == ~e.err /\ ~e.panic /\ e.out = EvalMod(e.p, e.x, e.P)
\* ChebyshevApproximation of x^k on [a, b] with at least k + 1 nodes is the interpolant of a polynomial of degree k,
\* i.e. x^k itself: evaluated at x = x2/2 through its own change of basis it gives (x2)^k / 2^k; recorded times 2^10
RECURSIVE IPow(_, _)
IPow(x, k) == IF k = 0 THEN 1 ELSE x * IPow(x, k - 1)      \* TLC rejects 0^0 and negative bases
ChebApxOK(e) ==
    /\ ~e.err /\ ~e.panic /\ e.ischeb
    /\ e.deg <= e.nodes
    /\ Len(e.xs) = 2 * (e.b - e.a) + 1
    /\ \A i \in 1..Len(e.xs) :
          LET want == IPow(e.xs[i], e.k) * (2 ^ (10 - e.k))     \* k <= 5 and |x2| <= 16: below 2^31
              d == e.num[i] - want
          IN  d \in -1..1
=============================================================================
