--------------------------- MODULE GaloisTraceMC ---------------------------
(* The doubling loop of Trace equals gap times the documented projection, on both ring types, for every *)
(* trace depth and every basis vector (and one dense vector) of rings of degree 4..2^MaxLogN.            *)
EXTENDS Galois, TLC
CONSTANTS MaxLogN, SkipLast        \* SkipLast = TRUE is the mutant: the conjugate-invariant loop stops one step early
VARIABLES LogN, logN, k, ci
tvars == <<LogN, logN, k, ci>>
TInit == LogN \in 2..MaxLogN /\ logN \in 0..(LogN - 1) /\ k \in 0..(2^LogN) /\ ci \in BOOLEAN
TNext == UNCHANGED tvars
TSpec == TInit /\ [][TNext]_tvars
Vec == IF k = 0 THEN [j \in 1..(2^LogN) |-> j + 1] ELSE [j \in 1..(2^LogN) |-> IF j = k THEN 3 ELSE 0]
Up == IF SkipLast THEN TraceAcc(CIUp(Vec), logN, LogN - 2, 4 * Len(Vec)) ELSE TraceCIUp(Vec, LogN, logN)
TraceTheorem ==
    LET gap == TraceGap(LogN, logN, ci) IN
    IF ci THEN CISymmetric(Up) /\ CIDown(Up) = CScale(gap, TraceProj(Vec, LogN, logN, TRUE))
    ELSE TraceStd(Vec, LogN, logN) = CScale(gap, TraceProj(Vec, LogN, logN, FALSE))
\* the loop applies exactly Cardinality(TraceEls) doublings: gap = 2^(number of elements)
CountOK == 2^Cardinality(TraceEls(LogN, logN, ci)) = TraceGap(LogN, logN, ci)
=============================================================================
