------------------------------ MODULE Bootstrap ------------------------------
(* CKKS bootstrapping (circuits/ckks/bootstrapping) as a stage machine over levels, with its key inventory.   *)
(*                                                                                                          *)
(*   in --ScaleDown--> scaledDown (level 0) --ModUp (+ dense->sparse->dense encapsulation)--> modUp (top      *)
(*   level of the bootstrapping chain) --CoeffsToSlots--> c2s --EvalMod--> evalMod --SlotsToCoeffs--> s2c     *)
(*   --> out (residual top level, default scale)                                                             *)
(* Each homomorphic stage consumes the depth the parameter object announces (DepthCoeffsToSlots, DepthEvalMod, *)
(* DepthSlotsToCoeffs); the chain of the bootstrapping parameters is the residual chain plus an optional       *)
(* reserved prime (iterated mode) plus the circuit's depth.                                                   *)
(* Key inventory: relinearisation key, Galois keys for exactly GaloisElements(params) and the conjugation,     *)
(* ring-switching keys iff the residual ring differs (degree or type), and iff an ephemeral sparse secret is   *)
(* used: EvkDenseToSparse -- the only key protected by the sparse secret -- at the first prime of Q and of P    *)
(* (LevelQ = LevelP = 0) and EvkSparseToDense.                                                                *)
EXTENDS Integers, Sequences, FiniteSets, TLC

\* the option product of the design (MC): depths are non-negative and add up, levels never go negative
CONSTANTS MaxRes, MaxDepth
VARIABLES stage, lvl, cfg
vars == <<stage, lvl, cfg>>
Cfgs == [res : 0..MaxRes, dc2s : 1..MaxDepth, dem : 1..MaxDepth, ds2c : 1..MaxDepth, reserved : 0..1, inlvl : 0..MaxRes]
Top(c) == c.res + c.reserved + c.ds2c + c.dem + c.dc2s
Init == cfg \in Cfgs /\ stage = "in" /\ lvl = cfg.inlvl
Step(from, to, newlvl) == stage = from /\ stage' = to /\ lvl' = newlvl /\ UNCHANGED cfg
Next == \/ Step("in", "scaledDown", 0)
        \/ Step("scaledDown", "modUp", Top(cfg))
        \/ Step("modUp", "c2s", lvl - cfg.dc2s)
        \/ Step("c2s", "evalMod", lvl - cfg.dem)
        \/ Step("evalMod", "s2c", lvl - cfg.ds2c)
        \/ Step("s2c", "out", cfg.res)
Spec == Init /\ [][Next]_vars
NeverNegative == lvl >= 0
Restores == stage = "out" => lvl = cfg.res
S2CLands == stage = "s2c" => lvl = cfg.res + cfg.reserved

-----------------------------------------------------------------------------
\* contract on the parameter objects, keys, stages and results of the real evaluator
ParamsOK(e) ==
  /\ e.btpmax - e.dc2s - e.dem - e.ds2c = e.resmax + e.reserved
  /\ e.depth = e.btpmax - e.resmax
  /\ e.outlevel = e.resmax
  /\ e.dc2s >= 1 /\ e.dem >= 1 /\ e.ds2c >= 1

StageLevel(p, name, prev) ==
  CASE name = "scaledown" -> 0
    [] name = "modup"     -> p.btpmax
    [] name = "c2s"       -> prev - p.dc2s
    [] name = "evalmod"   -> prev - p.dem
    [] name = "s2c"       -> prev - p.ds2c

ToSet(s) == {s[i] : i \in 1..Len(s)}
KeysOK(e) ==
  /\ ~e.panic /\ ~e.err
  /\ e.hasrlk
  /\ ToSet(e.provgal) = ToSet(e.advgal)                       \* exactly the advertised Galois keys
  /\ ToSet(e.reqgal) \subseteq ToSet(e.provgal)               \* the evaluator requests nothing else
  /\ (e.fullrun => ToSet(e.provgal) \subseteq ToSet(e.reqgal))  \* and uses all of them (full-slot run)
  /\ (e.ephemeral > 0) = e.hasd2s /\ e.hasd2s = e.hass2d
  /\ (e.hasd2s => e.d2slq = 0 /\ e.d2slp = 0)                 \* the sparse-secret key lives at the smallest modulus
  /\ (e.hass2d => e.s2dlq = e.btpmax)
  /\ (e.n1 # e.n2 /\ ~e.ci) = (e.hasn1n2 /\ e.hasn2n1)
  /\ e.ci = (e.hasr2c /\ e.hasc2r)

\* the repository's own floor for reduced-size sets: log2(scale) - (logN + 2) - 10 bits
BootOK(e) ==
  /\ ~e.panic /\ ~e.err
  /\ e.outlvl = e.resmax /\ e.scaleok
  /\ e.precbits >= e.logscale - e.logn - 12
  /\ e.precbits >= e.announced              \* iterated mode: the sum of the announced per-iteration precisions (minus 5 bits)
=============================================================================
