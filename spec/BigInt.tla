------------------------------- MODULE BigInt -------------------------------
(***************************************************************************)
(* The integer evaluator at word-size plaintext moduli (33 to 58 bits).    *)
(* Same contract as IntEval.tla (message, recorded scale, level, degree,   *)
(* worst-case noise bits), but the numbers no longer fit TLC's integers:   *)
(* messages and scales are big naturals (BigNat.tla), and a congruence     *)
(* x * y = out (mod T) is stated with its quotient, x * y = k * T + out    *)
(* with out < T, so that nothing about the arithmetic is taken on trust.   *)
(* The abstract part (level, degree, noise bits) decides which programs    *)
(* are generated; the numeric part is bound to the recorded run.           *)
(***************************************************************************)
EXTENDS Integers, Sequences, FiniteSets, TLC, BigNat

CONSTANTS Regs, L, LogQ, LogN, LogT, MaxSteps,
          NObs,                     \* observed slots per register
          TBN, QModT, QProd, QWit   \* T; q_i mod T; Q_l mod T and the quotients of its recurrence (trace validation)

VARIABLES reg, hist
vars == <<reg, hist>>

Min2(a, b) == IF a <= b THEN a ELSE b
Max2(a, b) == IF a >= b THEN a ELSE b
Null == [live |-> FALSE, lvl |-> 0, deg |-> 0, nb |-> 0, m |-> <<>>, s |-> <<>>]
Live(r) == reg[r].live

NB0 == LogT + 8
KSB == LogT + LogN + 14
RECURSIVE SumLogQ(_)
SumLogQ(l) == IF l < 0 THEN 0 ELSE SumLogQ(l - 1) + LogQ[l + 1]
Budget(l) == SumLogQ(l) - 3
TensorNb(na, nb) == na + nb + LogN + LogT + 2

\* ---- abstract results: [lvl, deg, nb] ------------------------------------------------------------------------------
BinAbs(op, a, b) ==
    LET x == reg[a]
        y == reg[b]
        lv == Min2(x.lvl, y.lvl)
    IN CASE op \in {"Add", "Sub"} -> [lvl |-> lv, deg |-> Max2(x.deg, y.deg), nb |-> Max2(x.nb, y.nb) + LogT + 1]
         [] op = "Mul"      -> [lvl |-> lv, deg |-> 2, nb |-> TensorNb(x.nb, y.nb)]
         [] op = "MulRelin" -> [lvl |-> lv, deg |-> 1, nb |-> Max2(TensorNb(x.nb, y.nb), KSB) + 1]
         [] op = "MulSI"    -> [lvl |-> lv, deg |-> 1, nb |-> Max2(Max2(x.nb, y.nb) + LogN + LogT + 4, KSB) + 1]
BinEnabled(op, a, b) ==
    /\ Live(a) /\ Live(b)
    /\ (op \in {"Mul", "MulRelin", "MulSI"} => reg[a].deg = 1 /\ reg[b].deg = 1)
    /\ BinAbs(op, a, b).nb <= Budget(BinAbs(op, a, b).lvl)
RescaleAbs(a) == [lvl |-> reg[a].lvl - 1, deg |-> reg[a].deg, nb |-> Max2(reg[a].nb - LogQ[reg[a].lvl + 1], LogN + LogT + 2) + 1]
RescaleEnabled(a) == Live(a) /\ reg[a].lvl >= 1 /\ RescaleAbs(a).nb <= Budget(reg[a].lvl - 1)
RelinAbs(a) == [lvl |-> reg[a].lvl, deg |-> 1, nb |-> Max2(reg[a].nb, KSB) + 1]
RelinEnabled(a) == Live(a) /\ reg[a].deg = 2 /\ RelinAbs(a).nb <= Budget(reg[a].lvl)
MulScAbs(a) == [lvl |-> reg[a].lvl, deg |-> reg[a].deg, nb |-> reg[a].nb + LogT]
MulScEnabled(a) == Live(a) /\ MulScAbs(a).nb <= Budget(reg[a].lvl)
PtMulAbs(a) == [lvl |-> reg[a].lvl, deg |-> reg[a].deg, nb |-> reg[a].nb + LogN + LogT + 1]
PtMulEnabled(a) == Live(a) /\ PtMulAbs(a).nb <= Budget(reg[a].lvl)
PtAddAbs(a) == [lvl |-> reg[a].lvl, deg |-> reg[a].deg, nb |-> reg[a].nb + LogT + 1]     \* scale matching may multiply by a unit
PtAddEnabled(a) == Live(a) /\ PtAddAbs(a).nb <= Budget(reg[a].lvl)
\* out <- out + a * b with relinearisation: the product is brought to the scale of out (or both to a common one)
MTAAbs(a, b, o) == [lvl |-> Min2(Min2(reg[a].lvl, reg[b].lvl), reg[o].lvl), deg |-> 1,
                    nb |-> Max2(Max2(reg[o].nb, TensorNb(reg[a].nb, reg[b].nb)) + LogT, KSB) + 1]
MTAEnabled(a, b, o) == /\ Live(a) /\ Live(b) /\ Live(o) /\ o # a /\ o # b
                       /\ reg[a].deg = 1 /\ reg[b].deg = 1 /\ reg[o].deg = 1
                       /\ MTAAbs(a, b, o).nb <= Budget(MTAAbs(a, b, o).lvl)
LoadEnabled(lvl) == NB0 <= Budget(lvl)

Put(o, abs, m, s) == reg' = [reg EXCEPT ![o] = [live |-> TRUE, lvl |-> abs.lvl, deg |-> abs.deg, nb |-> abs.nb, m |-> m, s |-> s]]
Log(e) == hist' = Append(hist, e)

\* ---- numeric contracts -----------------------------------------------------------------------------------------------
IsRes(x) == BNIsNat(x) /\ BNLess(x, TBN)
ModMul(x, y, out, k) == IsRes(out) /\ BNIsNat(k) /\ BNEq(BNMul(x, y), BNAdd(BNMul(k, TBN), out))
ModAdd(x, y, out) == IsRes(out) /\ (BNEq(BNAdd(x, y), out) \/ BNEq(BNAdd(x, y), BNAdd(out, TBN)))
ModSub(x, y, out) == IsRes(out) /\ (BNEq(x, BNAdd(out, y)) \/ BNEq(BNAdd(x, TBN), BNAdd(out, y)))      \* x - y = out
IsUnit(s) == IsRes(s) /\ BNNorm(s) # <<>>       \* T is prime
NegQ(l) == BNSub(TBN, QProd[l + 1])             \* -Q_l mod T
\* the constants are consistent: Q_l mod T = (Q_{l-1} mod T) * (q_l mod T) mod T
ConstsOK == \A i \in 1..(L + 1) :
               ModMul(IF i = 1 THEN <<1>> ELSE QProd[i - 1], QModT[i], QProd[i], QWit[i])

\* ---- actions; the numeric fields (m, s) and the witnesses come from the recorded run (<<>> in generation) ---------------
Load(o, lvl, kind, m, s) ==
    /\ LoadEnabled(lvl)
    /\ Put(o, [lvl |-> lvl, deg |-> 1, nb |-> NB0], m, s)
    /\ Log([op |-> "Load", a |-> 0, b |-> 0, o |-> o, lvl |-> lvl, kind |-> kind])
Bin(op, a, b, o, m, s) ==
    /\ BinEnabled(op, a, b)
    /\ Put(o, BinAbs(op, a, b), m, s)
    /\ Log([op |-> op, a |-> a, b |-> b, o |-> o, lvl |-> 0, kind |-> ""])
Rescale(a, o, s) ==
    /\ RescaleEnabled(a)
    /\ Put(o, RescaleAbs(a), reg[a].m, s)
    /\ Log([op |-> "Rescale", a |-> a, b |-> 0, o |-> o, lvl |-> 0, kind |-> ""])
Relin(a, o) ==
    /\ RelinEnabled(a)
    /\ Put(o, RelinAbs(a), reg[a].m, reg[a].s)
    /\ Log([op |-> "Relin", a |-> a, b |-> 0, o |-> o, lvl |-> 0, kind |-> ""])
MulSc(a, kind, o, m) ==
    /\ MulScEnabled(a)
    /\ Put(o, MulScAbs(a), m, reg[a].s)
    /\ Log([op |-> "MulSc", a |-> a, b |-> 0, o |-> o, lvl |-> 0, kind |-> kind])

AddSc(a, kind, o, m) ==
    /\ Live(a) /\ reg[a].nb + 1 <= Budget(reg[a].lvl)
    /\ Put(o, [lvl |-> reg[a].lvl, deg |-> reg[a].deg, nb |-> reg[a].nb + 1], m, reg[a].s)
    /\ Log([op |-> "AddSc", a |-> a, b |-> 0, o |-> o, lvl |-> 0, kind |-> kind])
MulPt(a, kind, o, m, s) ==
    /\ PtMulEnabled(a)
    /\ Put(o, PtMulAbs(a), m, s)
    /\ Log([op |-> "MulPt", a |-> a, b |-> 0, o |-> o, lvl |-> 0, kind |-> kind])
AddPt(a, kind, o, m, s) ==
    /\ PtAddEnabled(a)
    /\ Put(o, PtAddAbs(a), m, s)
    /\ Log([op |-> "AddPt", a |-> a, b |-> 0, o |-> o, lvl |-> 0, kind |-> kind])
MulRelinThenAdd(a, b, o, m, s) ==
    /\ MTAEnabled(a, b, o)
    /\ Put(o, MTAAbs(a, b, o), m, s)
    /\ Log([op |-> "MulRelinThenAdd", a |-> a, b |-> b, o |-> o, lvl |-> 0, kind |-> ""])

Init == reg = [r \in Regs |-> Null] /\ hist = <<>>
TypeOK == \A r \in Regs : reg[r].lvl \in 0..L /\ reg[r].deg \in 0..2
InBudget == \A r \in Regs : Live(r) => reg[r].nb <= Budget(reg[r].lvl)
=============================================================================
