------------------------------ MODULE RingOps ------------------------------
(***************************************************************************)
(* Contracts of lattigo's arithmetic layer (package ring), stated over     *)
(* exact integers.                                                         *)
(*                                                                         *)
(*  - element-wise operations: a table (CONSTANT OpTable, transcribed from *)
(*    the doc comments, see tools/mk_ringops_table.py) gives for every     *)
(*    method a congruence  sum(lhs) == sum(rhs) (mod q)  over the factors  *)
(*    a, b, c, s, sm, R = 2^64, out,  the output range  out < k*q + slack  *)
(*    and the input ranges.  The congruence is evaluated either with TLC   *)
(*    integers (toy moduli < 2^15) or with BigNat and untrusted witnesses  *)
(*    (moduli up to 61 bits).                                              *)
(*  - structure operations (NTT, INTT, automorphisms, monomial products,   *)
(*    negacyclic products) on toy rings: the NTT is specified order-       *)
(*    agnostically as evaluation at a vector w of N distinct roots of      *)
(*    X^N+1 (X^2N+1 for the conjugate-invariant ring, where the log        *)
(*    carries u_j = w_j + w_j^-1).                                         *)
(***************************************************************************)
EXTENDS Integers, Sequences, FiniteSets, BigNat

CONSTANT OpTable      \* [name |-> [lhs, rhs, k, slack, ina, inb, inc, s, sm]]

MulQ(x, y, q) == ((x % q) * (y % q)) % q
RECURSIVE PowQ(_, _, _)
PowQ(x, e, q) == IF e = 0 THEN 1 % q
                 ELSE IF e % 2 = 0 THEN PowQ(MulQ(x, x, q), e \div 2, q)
                 ELSE MulQ(x, PowQ(MulQ(x, x, q), e \div 2, q), q)
R64(q) == PowQ(2, 64, q)

-----------------------------------------------------------------------------
(* element-wise contracts, toy moduli                                      *)
Factor(f, env) == CASE f = "a" -> env.a [] f = "b" -> env.b [] f = "c" -> env.c [] f = "s" -> env.s
                    [] f = "sm" -> env.sm [] f = "out" -> env.out [] f = "R" -> env.R

RECURSIVE TermQ(_, _, _)
TermQ(t, env, q) == IF Len(t) = 0 THEN 1 % q ELSE MulQ(Factor(Head(t), env), TermQ(Tail(t), env, q), q)
RECURSIVE SumQ(_, _, _)
SumQ(ts, env, q) == IF Len(ts) = 0 THEN 0 ELSE (TermQ(Head(ts), env, q) + SumQ(Tail(ts), env, q)) % q

InRange(x, m, q) == IF m <= 0 THEN x >= 0 ELSE x >= 0 /\ x < m * q

EwHolds(op, q, a, b, c, s, sm, out) ==
    LET t   == OpTable[op]
        env == [a |-> a, b |-> b, c |-> c, s |-> s, sm |-> sm, out |-> out, R |-> R64(q)]
    IN /\ SumQ(t.lhs, env, q) = SumQ(t.rhs, env, q)
       /\ out >= 0 /\ out < t.k * q + t.slack

EwInputsOK(op, q, a, b, c, s, sm) ==
    LET t == OpTable[op] IN
    InRange(a, t.ina, q) /\ InRange(b, t.inb, q) /\ InRange(c, t.inc, q) /\ InRange(s, t.s, q) /\ InRange(sm, t.sm, q)

-----------------------------------------------------------------------------
(* element-wise contracts, big moduli with witnesses                       *)
BFactor(f, env) == CASE f = "a" -> env.a [] f = "b" -> env.b [] f = "c" -> env.c [] f = "s" -> env.s
                     [] f = "sm" -> env.sm [] f = "out" -> env.out [] f = "R" -> Two64

RECURSIVE BTerm(_, _)
BTerm(t, env) == IF Len(t) = 0 THEN <<1>> ELSE BNMul(BFactor(Head(t), env), BTerm(Tail(t), env))
RECURSIVE BSum(_, _)
BSum(ts, env) == IF Len(ts) = 0 THEN <<>> ELSE BNAdd(BTerm(Head(ts), env), BSum(Tail(ts), env))

BInRange(x, m, q) == IF m <= 0 THEN BNLess(x, Two64) ELSE BNLess(x, BNMul(BNFromInt(m), q))

CertHolds(op, e) ==
    LET t == OpTable[op] IN
    /\ BNIsNat(e.q) /\ BNIsNat(e.out) /\ BNIsNat(e.w1) /\ BNIsNat(e.w2)
    /\ BNEq(BNAdd(BSum(t.lhs, e), BNMul(e.w1, e.q)), BNAdd(BSum(t.rhs, e), BNMul(e.w2, e.q)))
    /\ BNLess(e.out, BNAdd(BNMul(BNFromInt(t.k), e.q), BNFromInt(t.slack)))
    /\ BInRange(e.a, t.ina, e.q) /\ BInRange(e.b, t.inb, e.q) /\ BInRange(e.c, t.inc, e.q)
    /\ BInRange(e.sm, t.sm, e.q)

-----------------------------------------------------------------------------
(* structure operations on toy rings                                       *)

\* negacyclic product in Z_q[X]/(X^n+1); polynomials are 1-indexed sequences of length n
NegaMul(a, b, n, q) ==
    [k \in 1..n |->
        LET RECURSIVE S(_)
            S(i) == IF i > n THEN 0
                    ELSE LET j0 == (k - i) % n          \* index (0-based) of the partner
                             sg == IF i - 1 + j0 >= n THEN q - 1 ELSE 1
                         IN (MulQ(sg, MulQ(a[i], b[j0 + 1], q), q) + S(i + 1)) % q
        IN S(1)]

\* multiplication by X^k, k any integer
MonomialMul(a, k, n, q) ==
    LET kk == k % (2 * n) IN
    [i \in 1..n |->
        LET src == (i - 1 - kk) % (2 * n)         \* exponent e with e + kk == i-1 (mod 2n)
        IN IF src < n THEN a[src + 1] % q ELSE (q - (a[src - n + 1] % q)) % q]

\* Galois automorphism X -> X^g (g odd) in the coefficient domain
Autom(a, g, n, q) ==
    [i \in 1..n |->
        LET RECURSIVE F(_)
            F(j) == IF j > n THEN 0
                    ELSE LET e == ((j - 1) * g) % (2 * n) IN
                         IF e = i - 1 THEN a[j] % q
                         ELSE IF e = i - 1 + n THEN (q - (a[j] % q)) % q
                         ELSE F(j + 1)
        IN F(1)]

\* evaluation of a polynomial at x (Horner)
EvalAt(a, x, n, q) ==
    LET RECURSIVE H(_)
        H(i) == IF i = 0 THEN 0 ELSE (MulQ(H(i - 1), x, q) + a[n - i + 1]) % q
    IN H(n)      \* a[1] + a[2] x + ... + a[n] x^(n-1)

\* conjugate-invariant ring: the element a_0 + sum a_i (X^i + X^-i) evaluated through u = w + w^-1:
\* c_0 = 2, c_1 = u, c_i = u c_(i-1) - c_(i-2)  gives  c_i = w^i + w^-i
RECURSIVE Cheb(_, _, _)
Cheb(i, u, q) == IF i = 0 THEN 2 % q ELSE IF i = 1 THEN u % q
                 ELSE (MulQ(u, Cheb(i - 1, u, q), q) - Cheb(i - 2, u, q)) % q
ChebSeq(u, m, q) ==      \* <<c_1, ..., c_m>> computed iteratively
    LET RECURSIVE B(_, _, _)
        B(i, prev, cur) == IF i > m THEN <<>> ELSE <<cur>> \o B(i + 1, cur, (MulQ(u, cur, q) - prev) % q)
    IN B(1, 2 % q, u % q)
EvalAtCI(a, u, n, q) ==
    LET cs == ChebSeq(u, n, q)
        RECURSIVE S(_)
        S(i) == IF i > n THEN 0 ELSE (MulQ(a[i], cs[i - 1], q) + S(i + 1)) % q
    IN (a[1] + (IF n >= 2 THEN S(2) ELSE 0)) % q

\* roots: standard ring w_j^n = -1; conjugate-invariant ring (degree n, roots of X^2n+1): c_2n(u_j) = -2
RootsOK(w, n, q, ci) ==
    /\ Len(w) = n
    /\ \A j \in 1..n : w[j] \in 0..q-1
    /\ \A j, k \in 1..n : j # k => w[j] # w[k]
    /\ IF ci THEN \A j \in 1..n : ChebSeq(w[j], 2 * n, q)[2 * n] = (q - 2) % q
       ELSE \A j \in 1..n : PowQ(w[j], n, q) = q - 1

Eval(a, x, n, q, ci) == IF ci THEN EvalAtCI(a, x, n, q) ELSE EvalAt(a, x, n, q)

\* out is the transform of a: out[j] == a(w_j), with out[j] < k*q
IsNTT(a, out, w, n, q, ci, k) ==
    \A j \in 1..n : out[j] >= 0 /\ out[j] < k * q /\ out[j] % q = Eval(a, w[j], n, q, ci)

\* automorphism in the NTT domain: the image evaluates a at w_j^g.
\* standard ring: position of w_j^g;  CI ring: u(w^g) = c_g(u)
NTTAutomImage(ahat, g, w, n, q, ci) ==
    [j \in 1..n |->
        LET tgt == IF ci THEN ChebSeq(w[j], g % (4 * n), q)[g % (4 * n)] ELSE PowQ(w[j], g % (2 * n), q)
            jj  == CHOOSE x \in 1..n : w[x] = tgt
        IN ahat[jj] % q]

\* product in the conjugate-invariant ring through the embedding into Z_q[X]/(X^2n+1)
UnfoldCI(a, n, q) == [i \in 1..(2 * n) |-> IF i <= n THEN a[i] % q
                                           ELSE IF i = n + 1 THEN 0 ELSE (q - (a[2 * n - i + 2] % q)) % q]
MulCI(a, b, n, q) == LET p == NegaMul(UnfoldCI(a, n, q), UnfoldCI(b, n, q), 2 * n, q) IN [i \in 1..n |-> p[i]]
RingMul(a, b, n, q, ci) == IF ci THEN MulCI(a, b, n, q) ELSE NegaMul(a, b, n, q)
=============================================================================
