------------------------------ MODULE GaloisMC ------------------------------
(* Exhaustive check of the group laws and of the tree evaluation of partial traces for small M. *)
EXTENDS Galois, TLC
CONSTANTS Ms, KRange, NMax
VARIABLES M, a, b, n, off
mvars == <<M, a, b, n, off>>
MInit == M \in Ms /\ a \in KRange /\ b \in KRange /\ n \in 1..NMax /\ off \in 1..3
MNext == UNCHANGED mvars
MSpec == MInit /\ [][MNext]_mvars

Compose   == MulM(GalEl(a, M), GalEl(b, M), M) = GalEl(a + b, M)
Inverse   == MulM(GalEl(a, M), GalInv(GalEl(a, M), M), M) = 1 /\ GalInv(GalEl(a, M), M) = GalEl(-a, M)
LogExp    == DLog(GalEl(a, M), M) = a % Ord(M)
Periodic  == GalEl(a, M) = GalEl(a % Ord(M), M) /\ GalEl(a + Ord(M), M) = GalEl(a, M)
OrderTwo  == MulM(M - 1, M - 1, M) = 1 /\ \A k \in 0..(Ord(M) - 1) : PowM(5, k, M) # M - 1

\* the log(n)+HW(n) rotate-and-accumulate tree of PartialTracesSum computes the plain sum of rotations.
\* (transcription of the loop of core/rlwe/inner_sum.go on a single row of 8 slots)
Row == << <<1, 0>>, <<2, 0>>, <<3, 0>>, <<5, 0>>, <<7, 0>>, <<11, 0>>, <<13, 0>>, <<17, 0>> >>
Pt1 == <<Row>>
RECURSIVE TwoPow(_)
TwoPow(i) == IF i = 0 THEN 1 ELSE 2 * TwoPow(i - 1)
RECURSIVE Tree(_, _, _, _, _)
\* state: acc (running power-of-two sums), res (accumulated result, or <<>>), i (bit index), nn, offset
Tree(acc, res, i, nn, offset) ==
    IF (nn \div TwoPow(i)) = 0 THEN res
    ELSE LET bit == (nn \div TwoPow(i)) % 2
             k == nn - (nn % TwoPow(i + 1))          \* n with the i+1 low bits cleared
             res2 == IF bit = 1
                     THEN (IF res = <<>> THEN RotRows(acc, k * offset)
                           ELSE PtAdd(res, RotRows(acc, k * offset), 0))
                     ELSE res
             acc2 == PtAdd(acc, RotRows(acc, TwoPow(i) * offset), 0)
         IN Tree(acc2, res2, i + 1, nn, offset)
TreeOK == Tree(Pt1, <<>>, 0, n, off) = PartialTraces(Pt1, off, n, 0)
=============================================================================
