----------------------------- MODULE ApproxEval -----------------------------
(***************************************************************************)
(* Abstract machine of lattigo's approximate-arithmetic evaluator          *)
(* (schemes/ckks).  A register holds                                       *)
(*   m     the message: n slots, each an exact dyadic Gaussian rational    *)
(*         <<re, im>> / 2^fb  (fb = fractional bits of the register)       *)
(*   ls    log2 of the recorded scale in units of 2^-20 bit                *)
(*   lvl, deg, md  level, degree, multiplicative depth used so far         *)
(* The specification states, per public call, the exact slot-wise value,   *)
(* the level, the degree and the scale the documentation promises.  The    *)
(* real result is compared with the exact value up to TolBits of absolute  *)
(* precision (relative for large values); generated programs stay within   *)
(* MaxDepth multiplications so that this tolerance is implied by the       *)
(* scales and the noise.  Scales are compared in the log domain with a     *)
(* resolution of 2^-20 bit: a missing or extra prime, or a wrong power of  *)
(* the default scale, is visible; two primes of the same size are not      *)
(* distinguished.                                                          *)
(***************************************************************************)
EXTENDS Integers, Sequences, FiniteSets, TLC

CONSTANTS
    NS,        \* number of slots of the model vector
    L,         \* maximum level
    NR,        \* registers
    LQ,        \* LQ[i] = log2(q_{i-1}) in units of 2^-20 bit
    LDelta,    \* log2(default scale), same unit
    K,         \* levels consumed per rescaling (1: PREC64, 2: PREC128)
    Real,      \* TRUE for the conjugate-invariant ring (real slots only)
    MaxDepth, MaxFb, MaxMb,
    ScaleTol   \* tolerance on ls

VARIABLES reg, keys
vars == <<reg, keys>>

Reg == 1..NR
Slot == 1..NS

Min2(a, b) == IF a <= b THEN a ELSE b
Max2(a, b) == IF a >= b THEN a ELSE b
Abs(x) == IF x < 0 THEN -x ELSE x
RECURSIVE Pow2(_)
Pow2(k) == IF k <= 0 THEN 1 ELSE 2 * Pow2(k - 1)

Dead == [ok |-> FALSE, m |-> [i \in Slot |-> <<0, 0>>], fb |-> 0, ls |-> 0, sx |-> [two |-> 0, e |-> <<>>], lvl |-> 0, deg |-> 1, md |-> 0, ld |-> 0]

\* complex arithmetic on numerators
CAdd(x, y) == <<x[1] + y[1], x[2] + y[2]>>
CSub(x, y) == <<x[1] - y[1], x[2] - y[2]>>
CMul(x, y) == <<x[1] * y[1] - x[2] * y[2], x[1] * y[2] + x[2] * y[1]>>
CScale(x, c) == <<x[1] * c, x[2] * c>>
CConj(x) == <<x[1], -x[2]>>

\* bring a vector with fb fractional bits to fb2 >= fb
Lift(v, fb, fb2) == [i \in Slot |-> CScale(v[i], Pow2(fb2 - fb))]

MagOK(v, fb) == \A i \in Slot : Abs(v[i][1]) <= Pow2(fb + MaxMb) /\ Abs(v[i][2]) <= Pow2(fb + MaxMb)

\* log2 of the primes consumed at level l by one rescaling
RECURSIVE LQsum(_, _)
LQsum(l, k) == IF k = 0 THEN 0 ELSE LQ[l + 1] + LQsum(l - 1, k - 1)

\* Symbolic scale: 2^two / prod_i q_i^e[i+1].  Two scales are the same number iff their symbolic forms are equal
\* (the default scale is a power of two; the primes are distinct and not powers of two).
SxPow2(k)  == [two |-> k, e |-> [i \in 1..(L + 1) |-> 0]]
SxMul(x, y) == [two |-> x.two + y.two, e |-> [i \in 1..(L + 1) |-> x.e[i] + y.e[i]]]
\* division / multiplication by the K primes consumed at level l
SxDivQ(x, l) == [two |-> x.two, e |-> [i \in 1..(L + 1) |-> IF i - 1 <= l /\ i - 1 > l - K THEN x.e[i] + 1 ELSE x.e[i]]]
SxMulQ(x, l) == [two |-> x.two, e |-> [i \in 1..(L + 1) |-> IF i - 1 <= l /\ i - 1 > l - K THEN x.e[i] - 1 ELSE x.e[i]]]
RECURSIVE SxLsAcc(_, _)
SxLsAcc(x, i) == IF i = 0 THEN 0 ELSE x.e[i] * LQ[i] + SxLsAcc(x, i - 1)
LsOf(x) == x.two * 1048576 - SxLsAcc(x, L + 1)
DeltaBits == LDelta \div 1048576

-----------------------------------------------------------------------------
(* Second operands: b.k \in {"ct", "pt", "sc", "vec", "none"}                *)
(*   pt : [v, fb, ls, lvl]   a plaintext encoded at scale ls                 *)
(*   sc : [re, im, fb, ty]   one scalar (a Gaussian integer iff fb = 0)      *)
(*   vec: [v, fb, ty, len]   a vector of len <= NS values (rest zero)        *)
IsCt(b) == b.k = "ct"
BOk(b)  == IF IsCt(b) THEN reg[b.r].ok ELSE TRUE
BVec(b) == CASE b.k = "ct"  -> reg[b.r].m
             [] b.k = "pt"  -> [i \in Slot |-> b.v[i]]
             [] b.k = "sc"  -> [i \in Slot |-> <<b.re, b.im>>]
             [] b.k = "vec" -> [i \in Slot |-> IF i <= b.len THEN b.v[i] ELSE <<0, 0>>]
BFb(b)  == IF IsCt(b) THEN reg[b.r].fb ELSE b.fb
BLvl(b) == IF IsCt(b) THEN reg[b.r].lvl ELSE IF b.k = "pt" THEN b.lvl ELSE L
BDeg(b) == IF IsCt(b) THEN reg[b.r].deg ELSE 0
BMd(b)  == IF IsCt(b) THEN reg[b.r].md ELSE 0
BLs(b)  == IF IsCt(b) THEN reg[b.r].ls ELSE IF b.k = "pt" THEN b.ls ELSE 0
BSx(b)  == IF IsCt(b) THEN reg[b.r].sx ELSE IF b.k = "pt" THEN SxPow2(b.ls \div 1048576) ELSE SxPow2(0)
IsPoly(b) == b.k \in {"ct", "pt"}
GaussInt(b) == b.k = "sc" /\ b.fb = 0

LvlOut(st) == Min2(reg[st.a].lvl, Min2(BLvl(st.b), IF st.new THEN L ELSE reg[st.o].lvl))

\* scales are compatible for an addition when they are (nearly) equal or their ratio is so large
\* that rounding it to an integer is immaterial (the documented integer-ratio alignment)
Compatible(ls0, ls1) == LET d == Abs(ls0 - ls1) IN d <= 64 \/ d >= 20 * 1048576

MkOut(m, fb, sx, lvl, deg, md) == [ok |-> TRUE, m |-> m, fb |-> fb, ls |-> LsOf(sx), sx |-> sx, lvl |-> lvl, deg |-> deg, md |-> md, ld |-> 0]
\* the larger of two scales (they are compatible: equal, or far apart)
SxMax(x, y) == IF LsOf(x) >= LsOf(y) THEN x ELSE y
\* ordering of scales is only modelled when it is unambiguous at the resolution of ls
Same(x, y)  == x = y
Above(x, y) == LsOf(x) > LsOf(y) + 64
Ordered(x, y) == Same(x, y) \/ Above(x, y) \/ Above(y, x)

AddSubRes(st, sub) ==
    LET a == reg[st.a]  b == st.b
        fb2 == Max2(a.fb, BFb(b))
        x == Lift(a.m, a.fb, fb2)   y == Lift(BVec(b), BFb(b), fb2)
        m2 == [i \in Slot |-> IF sub THEN CSub(x[i], y[i]) ELSE CAdd(x[i], y[i])]
        lv == LvlOut(st)
    IN IF IsPoly(b)
       THEN [err |-> FALSE, pre |-> Compatible(a.ls, BLs(b)),
             degs |-> {Max2(a.deg, BDeg(b))} \cup (IF st.new THEN {} ELSE {Max2(Max2(a.deg, BDeg(b)), reg[st.o].deg)}),
             out |-> MkOut(m2, fb2, SxMax(a.sx, BSx(b)), lv, 1, Max2(a.md, BMd(b)))]
       ELSE [err |-> FALSE, pre |-> TRUE,
             degs |-> {a.deg} \cup (IF st.new THEN {} ELSE {Max2(a.deg, reg[st.o].deg)}),
             out |-> MkOut(m2, fb2, a.sx, lv, 1, a.md)]

\* multiplication; relin only matters for ct x ct
MulRes(st, relin) ==
    LET a == reg[st.a]  b == st.b
        fb2 == a.fb + BFb(b)
        y == BVec(b)
        m2 == [i \in Slot |-> CMul(a.m[i], y[i])]
        lv == LvlOut(st)
    IN IF IsCt(b)
       THEN [err |-> a.deg + BDeg(b) > 2 \/ (relin /\ keys # "full"), pre |-> TRUE, degs |-> {IF relin THEN 1 ELSE 2},
             out |-> MkOut(m2, fb2, SxMul(a.sx, BSx(b)), lv, 1, Max2(a.md, BMd(b)) + 1)]
       ELSE IF b.k = "pt"
       THEN [err |-> FALSE, pre |-> TRUE, degs |-> {a.deg}, out |-> MkOut(m2, fb2, SxMul(a.sx, BSx(b)), lv, 1, a.md + 1)]
       ELSE IF GaussInt(b)
       THEN [err |-> FALSE, pre |-> TRUE, degs |-> {a.deg}, out |-> MkOut(m2, fb2, a.sx, lv, 1, a.md)]
       ELSE \* a scalar that is not a Gaussian integer, or a vector: encoded at the scale of the current prime(s)
            [err |-> FALSE, pre |-> lv >= K - 1, degs |-> {a.deg},
             out |-> MkOut(m2, fb2, SxMulQ(a.sx, lv), lv, 1, a.md + 1)]

\* out <- out + a*b
MulThenAddRes(st, relin) ==
    LET a == reg[st.a]  b == st.b  o == reg[st.o]
        fbp == a.fb + BFb(b)
        fb2 == Max2(o.fb, fbp)
        y == BVec(b)
        prod == Lift([i \in Slot |-> CMul(a.m[i], y[i])], fbp, fb2)
        old == Lift(o.m, o.fb, fb2)
        m2 == [i \in Slot |-> CAdd(old[i], prod[i])]
        lv == LvlOut(st)
    IN IF IsPoly(b)
       THEN LET alias == st.o = st.a \/ (IsCt(b) /\ b.r = st.o)
                rl == relin /\ IsCt(b)
                target == SxMul(a.sx, BSx(b))
            IN \* the accumulator is brought up to the scale of the product when it is at least 2^20 below it;
               \* an accumulator above the product scale is outside the documented use
               [err |-> alias \/ a.deg + BDeg(b) > 2 \/ (rl /\ keys # "full"),
                pre |-> Same(o.sx, target) \/ LsOf(target) - o.ls >= 20 * 1048576,
                degs |-> IF IsCt(b) THEN (IF rl THEN {Max2(1, o.deg)} ELSE {2}) ELSE {Max2(a.deg, o.deg)},
                out |-> MkOut(m2, fb2, target, lv, 1, Max2(o.md, Max2(a.md, BMd(b)) + 1))]
       ELSE IF GaussInt(b)
       THEN \* equal scales: plain accumulation; accumulator above a: the constant absorbs the ratio; a above: refused.
            \* (out = op0 is documented as refused but the scalar path accepts it: not generated)
            [err |-> Above(a.sx, o.sx), pre |-> Ordered(a.sx, o.sx) /\ st.o # st.a /\ (Above(o.sx, a.sx) => o.ls - a.ls >= 20 * 1048576),
             degs |-> {Max2(a.deg, o.deg)},
             out |-> MkOut(m2, fb2, o.sx, lv, 1, Max2(o.md, a.md))]
       ELSE \* non-integer scalar / vector: with equal scales the accumulator is first scaled by the current prime(s);
            \* vectors go through the plaintext path, which refuses out = op0
            [err |-> Above(a.sx, o.sx) \/ (b.k = "vec" /\ st.o = st.a),
             pre |-> Ordered(a.sx, o.sx) /\ (b.k = "vec" \/ st.o # st.a) /\ lv >= K - 1 /\ (Above(o.sx, a.sx) => o.ls - a.ls >= 20 * 1048576),
             degs |-> {Max2(a.deg, o.deg)},
             out |-> MkOut(m2, fb2, IF Same(a.sx, o.sx) THEN SxMulQ(o.sx, lv) ELSE o.sx, lv, 1, Max2(o.md, a.md + 1))]

RescaleRes(st) ==
    LET a == reg[st.a] IN
    [err |-> a.lvl <= K - 1, pre |-> TRUE, degs |-> {a.deg},
     out |-> IF a.lvl <= K - 1 THEN Dead ELSE MkOut(a.m, a.fb, SxDivQ(a.sx, a.lvl), a.lvl - K, 1, a.md)]

\* RescaleTo(default scale): divide by the last prime, one prime at a time, while the scale stays at or above half the
\* default scale; the result does not depend on the receiver (whatever its level or degree was).  "clear" is false when a
\* decision falls within the resolution of the log-scale: such calls are outside the contract modelled here.
SxDiv1(x, l) == [two |-> x.two, e |-> [i \in 1..(L + 1) |-> IF i - 1 = l THEN x.e[i] + 1 ELSE x.e[i]]]
RECURSIVE RTo(_, _)
RTo(x, l) ==
    IF l < 0 THEN [sx |-> x, lvl |-> l, clear |-> TRUE]
    ELSE LET y == SxDiv1(x, l)
             gap == LsOf(y) - (LDelta - 1048576)
         IN IF Abs(gap) <= 64 THEN [sx |-> x, lvl |-> l, clear |-> FALSE]
            ELSE IF gap < 0 THEN [sx |-> x, lvl |-> l, clear |-> TRUE]
            ELSE RTo(y, l - 1)
RescaleToRes(st) ==
    LET a == reg[st.a]
        r == RTo(a.sx, a.lvl)
    IN [err |-> a.lvl = 0, pre |-> r.clear /\ r.lvl >= 0, degs |-> {a.deg},
        out |-> IF a.lvl = 0 THEN Dead ELSE MkOut(a.m, a.fb, r.sx, r.lvl, 1, a.md)]

RelinRes(st) ==
    LET a == reg[st.a] IN
    [err |-> a.deg # 2 \/ keys # "full", pre |-> TRUE, degs |-> {1},
     out |-> MkOut(a.m, a.fb, a.sx, IF st.new THEN a.lvl ELSE Min2(a.lvl, reg[st.o].lvl), 1, a.md)]

\* rotation by k (any integer) / conjugation: require the Galois key; degree must be 1
RotRes(st) ==
    LET a == reg[st.a]
        lv == IF st.new THEN a.lvl ELSE Min2(a.lvl, reg[st.o].lvl)
    \* the rotation by 0 is the identity and needs no key; its result carries the input's message, scale and level rule all the same
    IN [err |-> (keys = "none" /\ st.k # 0) \/ a.deg # 1 \/ (~st.new /\ reg[st.o].deg # 1), pre |-> TRUE, degs |-> {1},
        out |-> MkOut([i \in Slot |-> a.m[((i - 1 + st.k) % NS) + 1]], a.fb, a.sx, lv, 1, a.md)]

ConjRes(st) ==
    LET a == reg[st.a]
        lv == IF st.new THEN a.lvl ELSE Min2(a.lvl, reg[st.o].lvl)
    IN [err |-> Real \/ keys = "none" \/ a.deg # 1 \/ (~st.new /\ reg[st.o].deg # 1), pre |-> TRUE, degs |-> {1},
        out |-> MkOut([i \in Slot |-> CConj(a.m[i])], a.fb, a.sx, lv, 1, a.md)]

\* ScaleUp by an integer factor 2^st.k: message unchanged, scale multiplied
ScaleUpRes(st) ==
    LET a == reg[st.a] IN
    [err |-> FALSE, pre |-> TRUE, degs |-> {a.deg},
     out |-> MkOut(a.m, a.fb, SxMul(a.sx, SxPow2(st.k)), IF st.new THEN a.lvl ELSE Min2(a.lvl, reg[st.o].lvl), 1, a.md)]

BinOps == {"Add", "Sub", "Mul", "MulRelin", "MulThenAdd", "MulRelinThenAdd"}
UnOps  == {"Rescale", "RescaleTo", "Relinearize", "Rotate", "Conjugate", "ScaleUp"}
NoNew  == {"MulThenAdd", "MulRelinThenAdd", "Rescale", "RescaleTo"}

Res(st) ==
    CASE st.op = "Add" -> AddSubRes(st, FALSE)
      [] st.op = "Sub" -> AddSubRes(st, TRUE)
      [] st.op = "Mul" -> MulRes(st, FALSE)
      [] st.op = "MulRelin" -> MulRes(st, TRUE)
      [] st.op = "MulThenAdd" -> MulThenAddRes(st, FALSE)
      [] st.op = "MulRelinThenAdd" -> MulThenAddRes(st, TRUE)
      [] st.op = "Rescale" -> RescaleRes(st)
      [] st.op = "RescaleTo" -> RescaleToRes(st)
      [] st.op = "Relinearize" -> RelinRes(st)
      [] st.op = "Rotate" -> RotRes(st)
      [] st.op = "Conjugate" -> ConjRes(st)
      [] st.op = "ScaleUp" -> ScaleUpRes(st)

Callable(st) ==
    /\ st.a \in Reg /\ reg[st.a].ok /\ st.o \in Reg
    /\ (st.op \in BinOps => BOk(st.b))
    /\ (st.op \in NoNew => ~st.new)
    /\ (~st.new => reg[st.o].ok)

\* the real values of the conjugate-invariant ring have no imaginary part
RealOK(r) == Real => \A i \in Slot : r.m[i][2] = 0

\* slot dimensions recorded on the output (ld = 0: the dimensions of the parameter set's plaintexts, 1: the maximum): the
\* larger of the two operands' for a binary operation between ciphertexts, the input's otherwise. Accumulating and
\* plaintext / vector operands are only driven between registers of equal dimensions (see LdSafe).
LdOut(st) == IF st.op \in {"Add", "Sub", "Mul", "MulRelin"} /\ st.b.k = "ct" THEN Max2(reg[st.a].ld, reg[st.b.r].ld)
             ELSE reg[st.a].ld
LdSafe(st) ==
    LET la == reg[st.a].ld IN
    /\ (st.op \in {"MulThenAdd", "MulRelinThenAdd"} => reg[st.o].ld = la /\ (st.b.k = "ct" => reg[st.b.r].ld = la))
    /\ (st.op \in BinOps /\ st.b.k \in {"pt", "vec"} => la = 0)

\* ch.deg: degree reported by the implementation where two are admissible; ch.err: error reported; ch.lvl: level reported
Call(st, ch) ==
    /\ Callable(st)
    /\ LET r == Res(st) IN
       /\ r.pre                         \* the call is inside the contract covered by this specification
       /\ ch.err = r.err
       /\ (~r.err => ch.deg \in r.degs)
       \* ch.lvl: the rotation by 0 is a plain copy, which may keep the level of its input where the general path takes the minimum
       /\ reg' = [reg EXCEPT ![st.o] = IF r.err THEN Dead
                                       ELSE [r.out EXCEPT !.deg = ch.deg, !.ld = LdOut(st),
                                                          !.lvl = IF st.op = "Rotate" /\ st.k = 0 /\ ch.lvl = reg[st.a].lvl THEN ch.lvl ELSE @]]
    /\ UNCHANGED keys

Load(o, v, fb, ls, lvl, ld) ==
    /\ o \in Reg /\ lvl \in 0..L /\ ld \in 0..1
    /\ ls % 1048576 = 0
    /\ reg' = [reg EXCEPT ![o] = [MkOut(v, fb, SxPow2(ls \div 1048576), lvl, 1, 0) EXCEPT !.ld = ld]]
    /\ UNCHANGED keys

DropLevel(a, k) ==
    /\ a \in Reg /\ reg[a].ok /\ k \in 0..reg[a].lvl
    /\ reg' = [reg EXCEPT ![a].lvl = @ - k]
    /\ UNCHANGED keys

\* SetScale(ct, default scale * 2^k), in place: the message is unchanged and the recorded scale is the target; the ratio
\* target / current is applied as a constant, which costs one rescaling unless the ratio is an integer (the scale
\* is then 2^j with j at most the target's exponent). Without a level left for that rescaling the call fails.
SetScaleInt(a, k) == (\A i \in 1..(L + 1) : reg[a].sx.e[i] = 0) /\ reg[a].sx.two <= DeltaBits + k
SetScaleErr(a, k) == ~SetScaleInt(a, k) /\ reg[a].lvl <= K - 1
SetScale(a, k, err) ==
    /\ a \in Reg /\ reg[a].ok /\ k \in 0..2
    /\ Abs(reg[a].ls - (DeltaBits + k) * 1048576) <= 8 * 1048576      \* contract covered here: a ratio within 2^-8 .. 2^8
    /\ err = SetScaleErr(a, k)
    /\ reg' = [reg EXCEPT ![a] = IF err THEN Dead
                                ELSE [MkOut(reg[a].m, reg[a].fb, SxPow2(DeltaBits + k), IF SetScaleInt(a, k) THEN reg[a].lvl ELSE reg[a].lvl - K, reg[a].deg, reg[a].md) EXCEPT !.ld = reg[a].ld]]
    /\ UNCHANGED keys

Reset(ks) == keys' = ks /\ reg' = [r \in Reg |-> Dead]

Init == keys = "full" /\ reg = [r \in Reg |-> Dead]

-----------------------------------------------------------------------------
TypeOK == \A r \in Reg : reg[r].lvl \in 0..L /\ reg[r].deg \in 1..2 /\ reg[r].fb >= 0

RECURSIVE LQall(_)
LQall(l) == IF l < 0 THEN 0 ELSE LQ[l + 1] + LQall(l - 1)

\* generator discipline: exact arithmetic stays within TLC integers, the scaled message fits the modulus of
\* its level with 4 bits to spare, the scale is large enough and few multiplications are chained, so that the
\* tolerance of the comparison is implied by the scales and the noise
InBounds == \A r \in Reg : reg[r].ok =>
               /\ reg[r].fb <= MaxFb /\ MagOK(reg[r].m, reg[r].fb) /\ reg[r].md <= MaxDepth
               /\ reg[r].ls >= LDelta - 2 * 1048576
               /\ reg[r].ls + (MaxMb + 4) * 1048576 <= LQall(reg[r].lvl)
=============================================================================
