------------------------------ MODULE BigIntGen ------------------------------
(* Programs for the word-size plaintext moduli: two loads, then evaluator calls that stay within the noise budget. *)
EXTENDS BigInt, Json
CONSTANTS Kinds, ScKinds, Ops
Loaded == Cardinality({r \in Regs : Live(r)})
Next == /\ Len(hist) < MaxSteps
        /\ \/ /\ Loaded < 2                                   \* the first two steps load registers 1 and 2
              /\ \E lvl \in {L, L - 1}, kind \in Kinds : Load(Loaded + 1, lvl, kind, <<>>, <<>>)
           \/ /\ Loaded >= 2
              /\ \/ \E op \in Ops \cap {"Add", "Sub", "Mul", "MulRelin", "MulSI"}, a, b, o \in Regs : Bin(op, a, b, o, <<>>, <<>>)
                 \/ "Rescale" \in Ops /\ \E a, o \in Regs : Rescale(a, o, <<>>)
                 \/ "Relin" \in Ops /\ \E a, o \in Regs : Relin(a, o)
                 \/ "MulSc" \in Ops /\ \E a, o \in Regs, kind \in ScKinds : MulSc(a, kind, o, <<>>)
                 \/ "AddSc" \in Ops /\ \E a, o \in Regs, kind \in ScKinds : AddSc(a, kind, o, <<>>)
                 \/ "MulPt" \in Ops /\ \E a, o \in Regs, kind \in {"one", "rand"} : MulPt(a, kind, o, <<>>, <<>>)
                 \/ "AddPt" \in Ops /\ \E a, o \in Regs, kind \in {"same", "rand"} : AddPt(a, kind, o, <<>>, <<>>)
                 \/ "MulRelinThenAdd" \in Ops /\ \E a, b, o \in Regs : MulRelinThenAdd(a, b, o, <<>>, <<>>)
Spec == Init /\ [][Next]_vars
\* emitted: programs of full length
Emit == (Len(hist) < MaxSteps) \/ PrintT(<<"PROG", ToJson(hist)>>)
=============================================================================
