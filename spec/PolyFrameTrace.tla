--------------------------- MODULE PolyFrameTrace ---------------------------
EXTENDS PolyEval, Json, TLC
Trace == ndJsonDeserialize("trace.ndjson")
VARIABLE l
Ev == Trace[l]
TraceNext == /\ l <= Len(Trace) /\ l' = l + 1
             /\ \/ Ev.ev = "poly" /\ FrameOK(Ev)
                \/ Ev.ev \in {"basis", "factor", "peval", "pevalmod", "chebapx"}
TraceInit == l = 1 /\ TLCSet(1, 1)
TraceSpec == TraceInit /\ [][TraceNext]_l
Progress == TLCSet(1, IF TLCGet(1) > l THEN TLCGet(1) ELSE l)
TraceAccepted ==
    LET n == TLCGet(1) - 1 IN
    IF n = Len(Trace) THEN TRUE ELSE PrintT(<<"TRACE_REJECTED_AT", n + 1>>) /\ FALSE
=============================================================================
