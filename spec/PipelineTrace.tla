---------------------------- MODULE PipelineTrace ----------------------------
(* Every step of a program executed on the real stack (bgv encoder, rlwe encryptor, bgv evaluator, rlwe          *)
(* (de)serialisation over one bufio stream, multiparty key switch, decryptor) logs the register it wrote,        *)
(* decrypted under the key the model assigns; the values, level and degree must be the model's.                 *)
EXTENDS Pipeline, Json
Trace == ndJsonDeserialize("trace.ndjson")
VARIABLE l
tvars == <<reg, wire, wired, hist, l>>
Ev == Trace[l]
Obs(r) == /\ ~Ev.err /\ ~Ev.panic
          /\ Ev.vals = reg'[r].vals /\ Ev.lvl = reg'[r].lvl /\ Ev.deg = 1
TrNew == Ev.ev = "new" /\ reg' = [r \in Regs |-> Null] /\ wire' = <<>> /\ wired' = [k \in {1, 2} |-> FALSE] /\ hist' = <<>>
TrEnc == Ev.ev = "enc" /\ Enc(Ev.r, Ev.v, Ev.how) /\ Obs(Ev.r)
TrAdd == Ev.ev = "add" /\ Add(Ev.a, Ev.b, Ev.out) /\ Obs(Ev.out)
TrMul == Ev.ev = "mulr" /\ MulR(Ev.a, Ev.b, Ev.out) /\ Obs(Ev.out)
TrRot == Ev.ev = "rot" /\ Rot(Ev.a, Ev.k, Ev.out) /\ Obs(Ev.out)
TrWrite == Ev.ev = "write" /\ ~Ev.err /\ ~Ev.panic /\ Write(Ev.a) /\ Ev.nbytes = Ev.binsize
TrRead == Ev.ev = "read" /\ Read(Ev.out, Ev.chunk) /\ Obs(Ev.out) /\ Ev.nbytes = Ev.binsize
TrWireKeys == Ev.ev = "wirekeys" /\ ~Ev.err /\ ~Ev.panic /\ WireKeys(Ev.k) /\ Ev.nbytes = Ev.binsize
TrSwitch == Ev.ev = "switch" /\ Switch(Ev.a, Ev.out, Ev.order) /\ Obs(Ev.out)
TrRefresh == Ev.ev = "refresh" /\ Refresh(Ev.a, Ev.out, Ev.order) /\ Obs(Ev.out)
TrPoly == Ev.ev = "poly" /\ Poly(Ev.a, Ev.out, Ev.p) /\ Obs(Ev.out)
TrLin == Ev.ev = "lin" /\ Lin(Ev.a, Ev.out, Ev.m) /\ Obs(Ev.out)
TraceNext == /\ l <= Len(Trace) /\ l' = l + 1
             /\ (TrNew \/ TrEnc \/ TrAdd \/ TrMul \/ TrRot \/ TrWrite \/ TrRead \/ TrWireKeys \/ TrSwitch \/ TrRefresh \/ TrPoly \/ TrLin)
TraceInit == Init /\ l = 1 /\ TLCSet(1, 1)
TraceSpec == TraceInit /\ [][TraceNext]_tvars
Progress == TLCSet(1, IF TLCGet(1) > l THEN TLCGet(1) ELSE l)
TraceAccepted ==
    LET n == TLCGet(1) - 1 IN
    IF n = Len(Trace) THEN TRUE ELSE PrintT(<<"TRACE_REJECTED_AT", n + 1>>) /\ FALSE
=============================================================================
