----------------------------- MODULE RnsScalingMC -----------------------------
(* Exhaustive sanity of the RnsScaling definitions on a toy chain: rounded division is within 1/2, iterated *)
(* division composes, ModUp/ModDown oracles accept the exact answers.                                       *)
EXTENDS RnsScaling, TLC
CONSTANTS Qs, Ps
VARIABLE x
Q == Prod(Qs)
P == Prod(Ps)
MInit == x \in 0..(Q * P - 1)
MNext == UNCHANGED x
MSpec == MInit /\ [][MNext]_x
qlast == Qs[Len(Qs)]
RoundIsNearest == x < Q => LET y == DivRound1(x, qlast) IN 2 * Abs(qlast * y - x) <= qlast
FloorIsFloor   == x < Q => LET y == DivFloor1(x, qlast) IN qlast * y <= x /\ x < qlast * y + qlast
ManyComposes   == x < Q /\ Len(Qs) >= 2 =>
                    DivMany(x, Qs, 2, TRUE) = DivRound1(DivRound1(x, qlast), Qs[Len(Qs) - 1])
ExactModUp     == x < Q => ModUpOK(x, Q, Ps, [j \in 1..Len(Ps) |-> Centered(x, Q) % Ps[j]])
ExactModDown   == ModDownOK(x, P, Qs, [i \in 1..Len(Qs) |-> ((2 * x + P) \div (2 * P)) % Qs[i]])
CenteredRange  == x < Q => 2 * Abs(Centered(x, Q)) <= Q /\ (Centered(x, Q) - x) % Q = 0
=============================================================================
