----------------------------- MODULE GaloisTrace -----------------------------
(* Validation of rotation / inner-sum / replication calls and of the advertised Galois-key lists against Galois. *)
EXTENDS Galois, Json, TLC
Trace == ndJsonDeserialize("trace.ndjson")
VARIABLE l
Ev == Trace[l]

\* the logged matrix equals the expected one (all slots)
Same(a, b) == /\ Len(a) = Len(b)
              /\ \A r \in 1..Len(a) : Len(a[r]) = Len(b[r]) /\ \A j \in 1..Len(a[r]) : a[r][j][1] = b[r][j][1] /\ a[r][j][2] = b[r][j][2]

\* every key the evaluation asked for was advertised, and nothing failed for a missing key
Sufficient == /\ ~Ev.err /\ ~Ev.panic /\ Ev.cons
              /\ \A i \in 1..Len(Ev.req) : \E j \in 1..Len(Ev.adv) : Ev.adv[j] = Ev.req[i]

\* Parameters.GaloisElement / ModInvGaloisElement / SolveDiscreteLogGaloisElement (k reduced modulo M/4 by the harness)
TrGalEl == /\ Ev.ev = "galel"
           /\ Ev.g = GalEl(Ev.kr, Ev.m)
           /\ Ev.ginv = GalEl(-Ev.kr, Ev.m) /\ MulM(Ev.g, Ev.ginv, Ev.m) = 1
           /\ Ev.dlog = Ev.kr % Ord(Ev.m)
           /\ Ev.gsum = MulM(Ev.g, Ev.g2, Ev.m)          \* element(k) * element(k2) = element(k + k2)

TrRot == /\ Ev.ev = "rot" /\ Sufficient
         /\ Same(Ev.out, RotRows(Ev.v, Ev.kr))
TrSwap == /\ Ev.ev = "swap" /\ Sufficient
          /\ Same(Ev.out, IF Len(Ev.v) = 2 THEN SwapRows(Ev.v) ELSE Conj(Ev.v))
\* several rotations of one input at once (hoisted variants): every one equals the plain rotation
TrHoisted == /\ Ev.ev = "hoisted" /\ Sufficient
             /\ \A i \in 1..Len(Ev.ks) : Same(Ev.outs[i], RotRows(Ev.v, Ev.ks[i]))
TrSum == /\ Ev.ev = "ptsum" /\ Sufficient
         /\ Same(Ev.out, IF Ev.whole THEN InnerSumWhole(Ev.v, Ev.off, Ev.n, Ev.t) ELSE PartialTraces(Ev.v, Ev.off, Ev.n, Ev.t))
\* Trace on the rlwe evaluator: the plaintext polynomial is projected on the coefficients at multiples of the gap;
\* the result sits at the smaller of the two levels, the input is left intact, the keys asked for are advertised
TrTrace == /\ Ev.ev = "trace" /\ Sufficient
           /\ Ev.out = TraceProj(Ev.v, Ev.logn, Ev.lgn, Ev.ci)
           /\ Ev.inok /\ Ev.nttok
           \* the level is the smaller of the two; when nothing is to be summed (gap 1) the call is a plain copy of the input
           /\ (Ev.lvlout = Ev.lvlmin \/ (TraceGap(Ev.logn, Ev.lgn, Ev.ci) = 1 /\ Ev.lvlout = Ev.lvlin))
\* PartialTracesSum / InnerFunction(+) on the rlwe evaluator, read in the coefficient domain
TrCSum == /\ Ev.ev = "csum" /\ Sufficient
          /\ Ev.out = SumAutos(Ev.v, Ev.off, Ev.n, Ev.m, Ev.ci)
          /\ Ev.inok
\* Average / TraceNew: every slot becomes the mean of the cnt slots congruent to it modulo 2^lb (inputs are multiples of cnt)
RECURSIVE SumCong(_, _, _, _)
SumCong(row, j, b, k) == IF k = 0 THEN <<0, 0>> ELSE VAdd(SumCong(row, j, b, k - 1), row[(((j - 1) % b) + (k - 1) * b) + 1], 0)
TrAvg == /\ Ev.ev = "avg" /\ Sufficient
         /\ LET row == Ev.v[1]  b == 2 ^ Ev.lb IN
            \A j \in 1..Len(row) : LET s == SumCong(row, j, b, Ev.cnt) IN
                /\ Ev.out[1][j][1] * Ev.cnt = s[1]
                \* the full trace (depth 0) also folds X -> X^-1: the mean is projected on its real part
                /\ Ev.out[1][j][2] * Ev.cnt = (IF Ev.op = "TraceNew" /\ Ev.lb = 0 THEN 0 ELSE s[2])
\* documented refusals (n*batch > slots, non-positive arguments, ...): an error, not a panic
TrRefuse == /\ Ev.ev = "refuse" /\ Ev.err /\ ~Ev.panic

TraceNext == /\ l <= Len(Trace) /\ l' = l + 1
             /\ (TrGalEl \/ TrRot \/ TrSwap \/ TrHoisted \/ TrSum \/ TrTrace \/ TrCSum \/ TrAvg \/ TrRefuse)
TraceInit == l = 1 /\ TLCSet(1, 1)
TraceSpec == TraceInit /\ [][TraceNext]_l
Progress == TLCSet(1, IF TLCGet(1) > l THEN TLCGet(1) ELSE l)
TraceAccepted ==
    LET n == TLCGet(1) - 1 IN
    IF n = Len(Trace) THEN TRUE ELSE PrintT(<<"TRACE_REJECTED_AT", n + 1>>) /\ FALSE
=============================================================================
