-------------------------------- MODULE Frame --------------------------------
(***************************************************************************)
(* Frame condition and history independence of operations that are not     *)
(* evaluator methods (C09): encoders, encryptor, decryptor, key generator, *)
(* collective key generation / key switching / conversions / refresh,      *)
(* threshold. One event = one operation run twice from the same seed: with *)
(* freshly allocated outputs (args) and with outputs that held other       *)
(* values, of a larger degree or level where that applies (dargs).         *)
(***************************************************************************)
EXTENDS Integers, Sequences
InputsIntact(args) == \A i \in 1..Len(args) : args[i].role = "in" => args[i].same
\* the outputs own their storage: overwriting everything reachable from them after the call leaves every input as it was
\* (otherwise a later write into the receiver would change an object that is not an argument of that write)
Separate(args) == \A i \in 1..Len(args) : args[i].role = "in" => args[i].sep
FrameOK(e) ==
    /\ ~e.panic /\ ~e.dpanic
    /\ InputsIntact(e.args) /\ InputsIntact(e.dargs)      \* whether or not the call succeeds
    /\ Separate(e.args) /\ Separate(e.dargs)
    /\ e.err = e.derr                                     \* the outcome does not depend on the receiver's past
    /\ (~e.err => e.again)                                \* nor does the value written to the outputs
=============================================================================
