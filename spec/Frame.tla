-------------------------------- MODULE Frame --------------------------------
(***************************************************************************)
(* Frame condition and history independence of operations that are not     *)
(* evaluator methods (C09): encoders, encryptor, decryptor, key generator, *)
(* collective key generation / key switching / conversions / refresh,      *)
(* threshold. One event = one operation run twice from the same seed: with *)
(* freshly allocated outputs (args) and with outputs that held other       *)
(* values, of a larger degree or level where that applies (dargs).         *)
(***************************************************************************)
EXTENDS Integers, Sequences
InputsIntact(args) == \A i \in 1..Len(args) : args[i].role = "in" => args[i].same
FrameOK(e) ==
    /\ ~e.panic /\ ~e.dpanic
    /\ InputsIntact(e.args) /\ InputsIntact(e.dargs)      \* whether or not the call succeeds
    /\ e.err = e.derr                                     \* the outcome does not depend on the receiver's past
    /\ (~e.err => e.again)                                \* nor does the value written to the outputs
=============================================================================
