-------------------------------- MODULE Rgsw --------------------------------
(* RGSW external products and blind rotations (core/rgsw, core/rgsw/blindrot).                               *)
(*                                                                                                          *)
(* External product: for an RLWE ciphertext of m and an RGSW ciphertext of a small polynomial g, the result   *)
(* decrypts to the negacyclic product m*g in Z[X]/(X^N+1) (messages are small integers times a scale, so the  *)
(* product is compared over the integers), with noise below the bound implied by the decomposition; RGSW      *)
(* ciphertexts add (AddLazy/Reduce) and multiply by X^alpha - 1 as their plaintexts do.                        *)
(*                                                                                                          *)
(* Blind rotation: the test polynomial of a function f on [a,b[ tabulates f on the grid x_k, k = -N/2..N/2-1   *)
(* (N the blind-rotation ring degree); the rotation by the phase k of an LWE sample returns f(x_k); a phase    *)
(* that drifted by delta grid steps (modulus switching of a and the LWE error) returns the table entry at     *)
(* k + delta, where leaving the interval wraps negacyclically (the value at the other end, negated).          *)
EXTENDS Integers, Sequences, FiniteSets, TLC

\* negacyclic product of two integer vectors of equal length n (1-indexed sequences, coefficient i-1)
NegaTerm(m, g, n, k, x) ==
  LET y == ((((k - x) % n) + n) % n) + 1      \* (x-1) + (y-1) = k-1 mod n
  IN IF (x - 1) + (y - 1) >= n THEN 0 - (m[x] * g[y]) ELSE m[x] * g[y]
RECURSIVE NegaSum(_, _, _, _, _)
NegaSum(m, g, n, k, x) == IF x > n THEN 0 ELSE NegaTerm(m, g, n, k, x) + NegaSum(m, g, n, k, x + 1)
NegaCoeff(m, g, n, k) == NegaSum(m, g, n, k, 1)
NegaMul(m, g) == LET n == Len(m) IN [k \in 1..n |-> NegaCoeff(m, g, n, k)]

AddVec(a, b) == [i \in 1..Len(a) |-> a[i] + b[i]]
\* X^alpha - 1 as a vector, 0 <= alpha < 2n
Monomial(n, alpha) == LET a == (alpha % n) IN [i \in 1..n |-> IF i = a + 1 THEN (IF alpha >= n THEN -1 ELSE 1) ELSE 0]
XaMinusOne(n, alpha) == [i \in 1..n |-> Monomial(n, alpha)[i] - (IF i = 1 THEN 1 ELSE 0)]

\* the plaintext of the RGSW operand after the recorded RGSW-level operation
EffectiveG(e) == CASE e.gop = "plain" -> e.g
                   [] e.gop = "add"   -> AddVec(e.g, e.g2)
                   [] e.gop = "mulxa" -> NegaMul(e.g, XaMinusOne(Len(e.g), e.alpha))
                   [] e.gop = "mulxaadd" -> AddVec(e.g2, NegaMul(e.g, XaMinusOne(Len(e.g), e.alpha)))

Max(a, b) == IF a > b THEN a ELSE b
\* worst-case noise in bits: the input's noise times the 1-norm of g, plus one gadget product
\* (ring degree x digits x digit size x error bound, divided by P when there is one), two components
XPNoiseBound(e) == Max(e.innoise + e.lgg1, e.logn + e.lgdigits + e.digitbits + 5 - e.lgp) + e.logn + 3

XPOK(e) == /\ ~e.panic /\ ~e.err
           /\ e.got = NegaMul(e.m, EffectiveG(e))
           /\ e.noise <= XPNoiseBound(e)

\* blind rotation: tbl is the table over k = -N/2..N/2 (index k + N/2 + 1); entry N/2+N/2+1 (x = b) is not
\* reachable: the interval is half open
Wrap(tbl, nbr, idx) ==
  LET h == nbr \div 2 IN
  IF idx >= h THEN -tbl[idx - nbr + h + 1]
  ELSE IF idx < -h THEN -tbl[idx + nbr + h + 1]
  ELSE tbl[idx + h + 1]
BROK(tbl, nbr, e) == /\ ~e.panic /\ ~e.err
                     /\ \E dl \in (-e.d)..(e.d) : e.got = Wrap(tbl, nbr, e.k + dl)

\* key inventory: everything requested was provided (sufficiency), and over a dense run everything provided
\* is requested (exactness)
KeysOK(e) == /\ ~e.panic
             /\ e.reqbrk \subseteq e.provbrk /\ e.reqgal \subseteq e.provgal
             /\ (e.dense => e.provbrk \subseteq e.reqbrk /\ e.provgal \subseteq e.reqgal)
=============================================================================
