----------------------------- MODULE RingPackGen -----------------------------
(* Programs over four ciphertext registers and one map of extracted ciphertexts. Outputs go to the lowest free    *)
(* register, so that programs differing by a renaming are generated once.                                          *)
EXTENDS RingPack, TLC, Json
CONSTANTS MinLog, MaxLog, MaxOps, IdxMenu, PermMenu      \* IdxMenu: set of sequences; PermMenu: set of <<mul, shift>>
VARIABLES regs, mp, hist, live
vars == <<regs, mp, hist, live>>
Reg == 0..3
Free == {r \in Reg : regs[r] = 0}
First(S) == CHOOSE r \in S : \A q \in S : r <= q
NoMap == [keys |-> {}, naive |-> FALSE]
Init == regs = [r \in Reg |-> 0] /\ mp = NoMap /\ hist = <<>> /\ live = TRUE
Put(o) == hist' = Append(hist, o)
Can == live /\ Len(hist) < MaxOps
Enc == /\ Can /\ Cardinality(Free) >= 3 /\ Len(hist) <= 1
       /\ \E n \in MinLog..MaxLog : LET r == First(Free) IN
            /\ regs' = [regs EXCEPT ![r] = n] /\ Put([op |-> "enc", r |-> r, logn |-> n, a |-> 0, b |-> 0 - 1])
       /\ UNCHANGED <<mp, live>>
Split == /\ Can /\ Cardinality(Free) >= 2
         /\ \E a \in Reg \ Free : \E both \in BOOLEAN :
              LET r == First(Free)
                  b == IF both THEN First(Free \ {r}) ELSE 0 - 1 IN
              /\ Put([op |-> "split", a |-> a, r |-> r, b |-> b])
              /\ IF regs[a] > MinLog THEN /\ regs' = [q \in Reg |-> IF q = r \/ q = b THEN regs[a] - 1 ELSE regs[q]] /\ live' = TRUE
                 ELSE regs' = regs /\ live' = FALSE          \* a documented refusal ends the program
         /\ UNCHANGED mp
Merge == /\ Can /\ Cardinality(Free) >= 1
         /\ \E a \in Reg \ Free : \E b \in ((Reg \ Free) \ {a}) \cup {0 - 1} :
              /\ (b >= 0 => regs[b] = regs[a])
              /\ LET r == First(Free) IN
                   /\ Put([op |-> "merge", a |-> a, b |-> b, r |-> r])
                   /\ IF regs[a] < MaxLog THEN regs' = [regs EXCEPT ![r] = regs[a] + 1] /\ live' = TRUE
                      ELSE regs' = regs /\ live' = FALSE
         /\ UNCHANGED mp
Switch == /\ Can /\ Cardinality(Free) >= 1
          /\ \E a \in Reg \ Free : \E up \in BOOLEAN :
               /\ (up => regs[a] < MaxLog) /\ (~up => regs[a] > MinLog)
               /\ LET r == First(Free) IN
                    /\ Put([op |-> IF up THEN "swup" ELSE "swdown", a |-> a, r |-> r, b |-> 0 - 1])
                    /\ regs' = [regs EXCEPT ![r] = IF up THEN regs[a] + 1 ELSE regs[a] - 1]
          /\ UNCHANGED <<mp, live>>
SeqSet(s) == {s[i] : i \in 1..Len(s)}
Extract == /\ Can /\ mp = NoMap
           /\ \E a \in Reg \ Free : \E idx \in IdxMenu : \E nv \in BOOLEAN :
                /\ \A i \in 1..Len(idx) : idx[i] < 2^regs[a]
                /\ Put([op |-> "extract", a |-> a, idx |-> idx, naive |-> nv, b |-> 0 - 1])
                /\ mp' = [keys |-> SeqSet(idx), naive |-> nv]
           /\ UNCHANGED <<regs, live>>
Permute == /\ Can /\ mp # NoMap /\ hist[Len(hist)].op = "extract"
           /\ \E pm \in PermMenu :
                /\ Put([op |-> "permute", mul |-> pm[1], shift |-> pm[2], a |-> 0, b |-> 0 - 1])
                /\ mp' = [mp EXCEPT !.keys = {(((k * pm[1] + pm[2]) % (2^MaxLog)) + 2^MaxLog) % (2^MaxLog) : k \in mp.keys}]
           /\ UNCHANGED <<regs, live>>
Repack == /\ Can /\ mp # NoMap /\ Cardinality(Free) >= 1
          /\ \E nv \in BOOLEAN :
               /\ ~(nv /\ mp.naive)            \* the naive repacking is documented for constant inputs only
               /\ LET r == First(Free) IN
                    /\ Put([op |-> "repack", naive |-> nv, r |-> r, a |-> 0, b |-> 0 - 1])
                    /\ regs' = [regs EXCEPT ![r] = MaxLog]
               /\ mp' = NoMap
          /\ UNCHANGED live
Next == Enc \/ Split \/ Merge \/ Switch \/ Extract \/ Permute \/ Repack
Spec == Init /\ [][Next]_vars
\* a program is emitted when it ends with a library call other than the bare encryption
Emit == (Len(hist) < 2 \/ hist[Len(hist)].op \in {"enc", "permute"}) \/ PrintT(<<"PROG", ToJson(hist)>>)
=============================================================================
