----------------------------- MODULE LinTransGen -----------------------------
(* Enumerates every linear transformation over rows of H slots by its set of non-zero diagonals (positive and     *)
(* negative indices), every baby-step giant-step ratio and the single-evaluation entry points.                     *)
EXTENDS LinTrans, TLC, Json
CONSTANTS H, Ratios, Modes, MaxLvl
VARIABLES cfg, phase
IdxSets == {S \in SUBSET ((1 - H)..(H - 1)) : S # {} /\ \A a, b \in S : a # b => Res(a, H) # Res(b, H)}
SetToSeq(S) == LET RECURSIVE F(_) F(R) == IF R = {} THEN <<>> ELSE LET m == CHOOSE a \in R : \A b \in R : a <= b IN <<m>> \o F(R \ {m}) IN F(S)
Init == cfg = [x |-> 0] /\ phase = "start"
Next == /\ phase = "start"
        /\ \E S \in IdxSets, r \in Ratios, md \in Modes, lv \in 0..MaxLvl :
              cfg' = [set |-> "", h |-> H, mode |-> md, lvlin |-> MaxLvl, lvlrecv |-> MaxLvl, lvlp |-> 0, kind |-> "random",
                      mats |-> <<[ks |-> SetToSeq(S), ratio |-> r, lvl |-> lv]>>]
        /\ phase' = "done"
Spec == Init /\ [][Next]_<<cfg, phase>>
Emit == phase # "done" \/ PrintT(<<"PROG", ToJson(cfg)>>)
=============================================================================
