---------------------------- MODULE EncodingTrace ----------------------------
EXTENDS Encoding, Json, TLC
Trace == ndJsonDeserialize("trace.ndjson")
VARIABLE l
Ev == Trace[l]
TrInt == Ev.ev = "int" /\ ~Ev.err /\ ~Ev.panic /\ IntRoundTrip(Ev.t, Ev.n, Ev.inres, Ev.out, Ev.signed)
TrIntMul == Ev.ev = "intmul" /\ ~Ev.err /\ ~Ev.panic /\ IntProduct(Ev.t, Ev.a, Ev.b, Ev.out)
TrApprox == Ev.ev = "approx" /\ ~Ev.err /\ ~Ev.panic /\ ApproxRoundTrip(Ev.vals, Ev.out, Ev.lgscale, Ev.lgn, Ev.prec)
TrPublic == Ev.ev = "public" /\ ~Ev.err /\ ~Ev.panic /\ PublicRoundTrip(Ev.vals, Ev.out, Ev.lgscale, Ev.lgn, Ev.prec, Ev.logprec)
TrApproxMul == Ev.ev = "approxmul" /\ ~Ev.err /\ ~Ev.panic /\ ApproxProduct(Ev.a, Ev.b, Ev.out)
\* Embed writes into a ring.Poly what Encode writes, and into a ringqp.Poly the same integers modulo Q and modulo P
TrEmbed == Ev.ev = "embed" /\ ~Ev.err /\ ~Ev.panic /\ Ev.samer /\ Ev.sameq /\ Ev.samep
TrFFT == Ev.ev = "fft" /\ ~Ev.err /\ ~Ev.panic /\ FFTRoundTrip(Ev.vals, Ev.out)
\* documented refusals (too many values)
TrQuant == Ev.ev = "quant" /\ ~Ev.err /\ ~Ev.panic /\ QuantOK(Ev.re, Ev.im, Ev.lgscale, Ev.c0, Ev.c1)
TrRefuse == Ev.ev = "refuse" /\ Ev.err /\ ~Ev.panic
TraceNext == /\ l <= Len(Trace) /\ l' = l + 1 /\ (TrInt \/ TrIntMul \/ TrApprox \/ TrPublic \/ TrApproxMul \/ TrEmbed \/ TrFFT \/ TrQuant \/ TrRefuse)
TraceInit == l = 1 /\ TLCSet(1, 1)
TraceSpec == TraceInit /\ [][TraceNext]_l
Progress == TLCSet(1, IF TLCGet(1) > l THEN TLCGet(1) ELSE l)
TraceAccepted ==
    LET n == TLCGet(1) - 1 IN
    IF n = Len(Trace) THEN TRUE ELSE PrintT(<<"TRACE_REJECTED_AT", n + 1>>) /\ FALSE
=============================================================================
