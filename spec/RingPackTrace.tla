---------------------------- MODULE RingPackTrace ----------------------------
EXTENDS RingPack, Json, TLC
Trace == ndJsonDeserialize("trace.ndjson")
VARIABLE l
Ev == Trace[l]
TraceNext == /\ l <= Len(Trace) /\ l' = l + 1 /\ Ev.ev = "rp"
             /\ \/ Ev.op = "enc" /\ EncOK(Ev)
                \/ Ev.op = "split" /\ SplitOK(Ev)
                \/ Ev.op = "merge" /\ MergeOK(Ev)
                \/ Ev.op = "swdown" /\ SwDownOK(Ev)
                \/ Ev.op = "swup" /\ SwUpOK(Ev)
                \/ Ev.op = "extract" /\ ExtractOK(Ev)
                \/ Ev.op = "repack" /\ RepackOK(Ev)
                \/ Ev.op = "r2c" /\ R2COK(Ev)
                \/ Ev.op = "c2r" /\ C2ROK(Ev)
TraceInit == l = 1 /\ TLCSet(1, 1)
TraceSpec == TraceInit /\ [][TraceNext]_l
Progress == TLCSet(1, IF TLCGet(1) > l THEN TLCGet(1) ELSE l)
TraceAccepted ==
    LET n == TLCGet(1) - 1 IN
    IF n = Len(Trace) THEN TRUE ELSE PrintT(<<"TRACE_REJECTED_AT", n + 1>>) /\ FALSE
=============================================================================
