----------------------------- MODULE BigIntTrace -----------------------------
(* Every step executed on the real bgv.Evaluator logs what the written register decrypts and decodes to (with the   *)
(* recorded scale), its recorded scale, level and degree, plus the quotients of the reductions modulo T.            *)
EXTENDS BigInt, Json
Trace == ndJsonDeserialize("trace.ndjson")
VARIABLE l
tvars == <<reg, hist, l>>
Ev == Trace[l]
Obs(o) == /\ ~Ev.err /\ ~Ev.panic
          /\ Ev.lvl = reg'[o].lvl /\ Ev.deg = reg'[o].deg
          /\ Len(Ev.m) = NObs /\ \A i \in 1..NObs : IsRes(Ev.m[i])
          /\ IsUnit(Ev.s)
TrNew == Ev.ev = "new" /\ reg' = [r \in Regs |-> Null] /\ hist' = <<>>
TrLoad == /\ Ev.ev = "step" /\ Ev.op = "Load"
          /\ Load(Ev.o, Ev.lvlarg, Ev.kind, Ev.m, Ev.s) /\ Obs(Ev.o)
          /\ Ev.m = Ev.v /\ BNEq(Ev.s, Ev.sv)                       \* what was encoded, at the scale requested
          /\ (Ev.kind = "one" => BNEq(Ev.s, <<1>>)) /\ (Ev.kind = "tm1" => BNEq(BNAdd(Ev.s, <<1>>), TBN))
TrBin == /\ Ev.ev = "step" /\ Ev.op \in {"Add", "Sub", "Mul", "MulRelin", "MulSI"}
         /\ Bin(Ev.op, Ev.a, Ev.b, Ev.o, Ev.m, Ev.s) /\ Obs(Ev.o)
         /\ LET x == reg[Ev.a]
                y == reg[Ev.b] IN
            CASE Ev.op = "Add" -> /\ \A i \in 1..NObs : ModAdd(x.m[i], y.m[i], Ev.m[i])
                                  /\ (BNEq(x.s, y.s) => BNEq(Ev.s, x.s))        \* otherwise the common scale is left open
              [] Ev.op = "Sub" -> /\ \A i \in 1..NObs : ModSub(x.m[i], y.m[i], Ev.m[i])
                                  /\ (BNEq(x.s, y.s) => BNEq(Ev.s, x.s))
              [] Ev.op \in {"Mul", "MulRelin"} ->
                                  /\ \A i \in 1..NObs : ModMul(x.m[i], y.m[i], Ev.m[i], Ev.kv[i])
                                  /\ ModMul(x.s, y.s, Ev.s, Ev.ks)              \* scale = s_a * s_b
              [] Ev.op = "MulSI" ->
                                  /\ \A i \in 1..NObs : ModMul(x.m[i], y.m[i], Ev.m[i], Ev.kv[i])
                                  /\ ModMul(x.s, y.s, Ev.r, Ev.ks)              \* scale * (-Q_l) = s_a * s_b
                                  /\ ModMul(Ev.s, NegQ(Ev.lvl), Ev.r, Ev.ks2)
TrRescale == /\ Ev.ev = "step" /\ Ev.op = "Rescale"
             /\ Rescale(Ev.a, Ev.o, Ev.s) /\ Obs(Ev.o)
             /\ Ev.m = reg[Ev.a].m
             /\ ModMul(Ev.s, QModT[reg[Ev.a].lvl + 1], BNNorm(reg[Ev.a].s), Ev.ks)   \* scale * q_l = old scale
TrRelin == /\ Ev.ev = "step" /\ Ev.op = "Relin"
           /\ Relin(Ev.a, Ev.o) /\ Obs(Ev.o)
           /\ Ev.m = reg[Ev.a].m /\ BNEq(Ev.s, reg[Ev.a].s)
ScalarOK == /\ IsRes(Ev.cm)
            /\ (Ev.kind = "neg1" => BNEq(BNAdd(Ev.cm, <<1>>), TBN))
            /\ (Ev.kind = "half" => BNEq(BNAdd(Ev.cm, Ev.cm), BNAdd(TBN, <<1>>)))
TrMulSc == /\ Ev.ev = "step" /\ Ev.op = "MulSc"
           /\ MulSc(Ev.a, Ev.kind, Ev.o, Ev.m) /\ Obs(Ev.o)
           /\ ScalarOK
           /\ \A i \in 1..NObs : ModMul(reg[Ev.a].m[i], Ev.cm, Ev.m[i], Ev.kv[i])
           /\ BNEq(Ev.s, reg[Ev.a].s)
TrAddSc == /\ Ev.ev = "step" /\ Ev.op = "AddSc"
           /\ AddSc(Ev.a, Ev.kind, Ev.o, Ev.m) /\ Obs(Ev.o) /\ ScalarOK
           /\ \A i \in 1..NObs : ModAdd(reg[Ev.a].m[i], Ev.cm, Ev.m[i])
           /\ BNEq(Ev.s, reg[Ev.a].s)
\* plaintext operands: the vector and the scale it was encoded at are inputs of the step
PtOK == Len(Ev.v) = NObs /\ (\A i \in 1..NObs : IsRes(Ev.v[i])) /\ IsUnit(Ev.sv)
TrMulPt == /\ Ev.ev = "step" /\ Ev.op = "MulPt"
           /\ MulPt(Ev.a, Ev.kind, Ev.o, Ev.m, Ev.s) /\ Obs(Ev.o) /\ PtOK
           /\ \A i \in 1..NObs : ModMul(reg[Ev.a].m[i], Ev.v[i], Ev.m[i], Ev.kv[i])
           /\ ModMul(reg[Ev.a].s, Ev.sv, Ev.s, Ev.ks)
TrAddPt == /\ Ev.ev = "step" /\ Ev.op = "AddPt"
           /\ AddPt(Ev.a, Ev.kind, Ev.o, Ev.m, Ev.s) /\ Obs(Ev.o) /\ PtOK
           /\ \A i \in 1..NObs : ModAdd(reg[Ev.a].m[i], Ev.v[i], Ev.m[i])
           /\ (BNEq(Ev.sv, reg[Ev.a].s) => BNEq(Ev.s, reg[Ev.a].s))
\* out <- out + a * b: the product residues are logged with their quotients; when the product's scale is the scale
\* of out it is kept, otherwise the common scale is left open
TrMTA == /\ Ev.ev = "step" /\ Ev.op = "MulRelinThenAdd"
         /\ MulRelinThenAdd(Ev.a, Ev.b, Ev.o, Ev.m, Ev.s) /\ Obs(Ev.o)
         /\ Len(Ev.pr) = NObs
         /\ \A i \in 1..NObs : /\ ModMul(reg[Ev.a].m[i], reg[Ev.b].m[i], Ev.pr[i], Ev.kv[i])
                                /\ ModAdd(reg[Ev.o].m[i], Ev.pr[i], Ev.m[i])
         /\ BNEq(Ev.so, reg[Ev.o].s)
         /\ ModMul(reg[Ev.a].s, reg[Ev.b].s, Ev.r, Ev.ks)
         /\ (BNEq(Ev.r, reg[Ev.o].s) => BNEq(Ev.s, reg[Ev.o].s))
\* rlwe.Scale modulo T called directly: Mul is the product, Div its inverse, the operands are left as they were
TrScale == /\ Ev.ev = "scale" /\ ~Ev.err /\ ~Ev.panic /\ Ev.xkeep
           /\ ModMul(Ev.x, Ev.y, Ev.mul, Ev.kmul)
           /\ ModMul(Ev.div, Ev.y, BNNorm(Ev.x), Ev.kdiv)
           /\ UNCHANGED <<reg, hist>>
TraceNext == /\ l <= Len(Trace) /\ l' = l + 1
             /\ (TrNew \/ TrLoad \/ TrBin \/ TrRescale \/ TrRelin \/ TrMulSc \/ TrAddSc \/ TrMulPt \/ TrAddPt \/ TrMTA \/ TrScale)
TraceInit == Init /\ l = 1 /\ TLCSet(1, 1) /\ ConstsOK
TraceSpec == TraceInit /\ [][TraceNext]_tvars
Progress == TLCSet(1, IF TLCGet(1) > l THEN TLCGet(1) ELSE l)
TraceAccepted ==
    LET n == TLCGet(1) - 1 IN
    IF n = Len(Trace) THEN TRUE ELSE PrintT(<<"TRACE_REJECTED_AT", n + 1>>) /\ FALSE
=============================================================================
