----------------------------- MODULE SamplerTrace -----------------------------
(* Validation of traces recorded from the real samplers (ring.UniformSampler, GaussianSampler,             *)
(* TernarySampler, ringqp.UniformSampler, sampling.KeyedPRNG) against the contract of Sampler.               *)
(*                                                                                                          *)
(* A program = one sampler configuration Fams[fam] and one call sequence, executed by several replicas:      *)
(*   rep "A": key 1;  "B": key 1 again (second generator, second family);  "M": key 1, the other            *)
(*   Montgomery setting;  "R": generator of A after Reset with a new family;  "C": key 2.                     *)
(* For every call the harness logs the digest of the *sampled value* (for ReadAndAdd: output minus input,    *)
(* row by row, brought back from the Montgomery form with big.Int arithmetic) and its projection             *)
(* (support, cross-modulus consistency, counts).  The specification keeps memo[key][i] = digest of step i:   *)
(* same key and same call sequence => same digest (Deterministic, Replay, Montgomery = plain * 2^64);         *)
(* another key => another digest (when the sample has >= 80 bits of entropy); inside one run no sampled       *)
(* value repeats (Fresh: randomness is never re-used between calls or views).                                *)
EXTENDS SamplerContract, Json

CONSTANT Fams     \* fam id -> [dist, h, p1, p2, ent]
Trace == ndJsonDeserialize("trace.ndjson")
VARIABLES l, memo, run    \* memo: <<key, step>> -> digest;  run: [key, seen (digests of row 0 so far)]
tvars == <<l, memo, run>>
Ev == Trace[l]
Empty == [x \in {} |-> 0]
Put(f, k, v) == [x \in DOMAIN f \cup {k} |-> IF x = k THEN v ELSE f[x]]
F == Fams[Ev.fam]

TrReset == /\ Ev.ev = "reset" /\ memo' = Empty /\ run' = [key |-> 0, seen |-> {}]
TrNew == /\ Ev.ev = "new" /\ run' = [key |-> Ev.key, seen |-> {}] /\ UNCHANGED memo

TrCall ==
  /\ Ev.ev = "call" /\ ~Ev.panic
  /\ CallOK(F, Ev)
  /\ LET k == <<run.key, Ev.step>> o == <<3 - run.key, Ev.step>> IN
     /\ (k \in DOMAIN memo => memo[k] = Ev.d)                                   \* Deterministic / Replay / Montgomery
     /\ (F.ent >= 80 /\ o \in DOMAIN memo => memo[o] # Ev.d)                    \* distinct keys differ
     /\ (F.ent >= 80 => Ev.d0 \notin run.seen)                                  \* Fresh
     /\ memo' = Put(memo, k, Ev.d)
  /\ run' = [run EXCEPT !.seen = @ \cup {Ev.d0}]

TrStat == /\ Ev.ev = "stat" /\ StatOK(F, Ev) /\ UNCHANGED <<memo, run>>

\* the keyed generator itself: the first n bytes are a function of the key (whatever the chunking, before
\* and after Reset, through Key()); logged as (key, n, digest)
TrBytes ==
  /\ Ev.ev = "bytes" /\ ~Ev.panic
  /\ LET k == <<Ev.key, Ev.n>> IN
     /\ (k \in DOMAIN memo => memo[k] = Ev.d)
     /\ (\A j \in DOMAIN memo : j[2] = Ev.n /\ j[1] # Ev.key => memo[j] # Ev.d)
     /\ memo' = Put(memo, k, Ev.d)
  /\ UNCHANGED run

\* key expansion and common-reference-string sampling: same seed and same call sequence => same polynomials,
\* another seed => other polynomials
TrExpand ==
  /\ Ev.ev = "expand" /\ ~Ev.panic /\ ~Ev.err
  /\ LET k == <<Ev.key, Ev.step>> IN
     /\ (k \in DOMAIN memo => memo[k] = Ev.d)
     /\ (\A j \in DOMAIN memo : j[2] = Ev.step /\ j[1] # Ev.key => memo[j] # Ev.d)
     /\ memo' = Put(memo, k, Ev.d)
  /\ UNCHANGED run

TraceNext == /\ l <= Len(Trace) /\ l' = l + 1
             /\ (TrReset \/ TrNew \/ TrCall \/ TrStat \/ TrBytes \/ TrExpand)
TraceInit == l = 1 /\ memo = Empty /\ run = [key |-> 0, seen |-> {}] /\ TLCSet(1, 1)
TraceSpec == TraceInit /\ [][TraceNext]_tvars
Progress == TLCSet(1, IF TLCGet(1) > l THEN TLCGet(1) ELSE l)
TraceAccepted ==
    LET n == TLCGet(1) - 1 IN
    IF n = Len(Trace) THEN TRUE ELSE PrintT(<<"TRACE_REJECTED_AT", n + 1>>) /\ FALSE
=============================================================================
