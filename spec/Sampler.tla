------------------------------- MODULE Sampler -------------------------------
(* Samplers of package ring (uniform, Gaussian, ternary) and the keyed generator of utils/sampling.        *)
(*                                                                                                          *)
(* Design part (checked exhaustively by TLC, SamplerMC.cfg).  A keyed generator is a stream of numbered     *)
(* tokens (one token = one 8-byte word of BLAKE2b-XOF output): token k of key K is a fixed value, so two     *)
(* generators with the same key deliver the same tokens in the same order and Reset restarts at token 0.    *)
(* A sampler *family* (the sampler returned by the constructor and every AtLevel view derived from it) owns *)
(* ONE buffer of BufTok tokens and ONE read pointer (ring/sampler.go: randomBuffer, shared by pointer        *)
(* between views).  A call consumes tokens from the pointer onwards and refills the buffer from the          *)
(* generator when the pointer reaches the end.  Rejection sampling makes the number of tokens a call         *)
(* consumes data dependent: a token is rejected iff it is in Rej.                                           *)
(*   uniform : refill iff ptr = 0 or ptr = BufTok on entry, then one accepted token per coefficient and      *)
(*             modulus of the view's level                                                                  *)
(*   gaussian: refill on every entry (pointer kept), one accepted token per coefficient, the same value is   *)
(*             written to every modulus of the view's level                                                 *)
(* Invariants: a token never reaches two output coefficients (NoReuse); what a call returns is a function    *)
(* of the key and of the family's call history only, never of which view object made the call (the views     *)
(* have no state of their own); after Reset a new family replays the same outputs (Replay).                  *)
(*                                                                                                          *)
(* Contract part (used by SamplerTrace on events recorded from the real samplers): the distribution          *)
(* contract of a single call and of aggregated statistics, as integer inequalities.                          *)
EXTENDS Integers, Sequences, FiniteSets, TLC

CONSTANTS Kind,        \* "uniform" | "gaussian"
          BufTok,      \* tokens per buffer
          NCoef,       \* coefficients per polynomial (toy)
          MaxLevel,    \* views operate at level 0..MaxLevel (level l has l+1 moduli)
          MaxCalls,    \* bound on the calls of one behaviour
          MaxTok,      \* bound on generator tokens
          SharePtr     \* TRUE: views share buffer and pointer (the design); FALSE: a view copies them (mutant used to show the invariant is not vacuous)

VARIABLES next,    \* next token the generator delivers
          buf,     \* family buffer: sequence of tokens
          ptr,     \* family read pointer 0..BufTok
          vbuf,    \* level -> [buf, ptr] private state of a view (only used when ~SharePtr)
          out,     \* sequence of calls: [lvl, toks: sequence of sequences (one per modulus row)]
          rej,     \* set of rejected tokens (chosen initially)
          first    \* outputs of the first epoch (before Reset), for Replay
vars == <<next, buf, ptr, vbuf, out, rej, first>>

Tok == 0..MaxTok
Refill(nx) == [i \in 1..BufTok |-> nx + i - 1]

\* consume accepted tokens one by one: state s = [next, buf, ptr, got]; need k accepted tokens
RECURSIVE Take(_, _)
Take(s, k) ==
  IF k = 0 THEN s
  ELSE LET s1 == IF s.ptr = BufTok THEN [s EXCEPT !.buf = Refill(s.next), !.next = s.next + BufTok, !.ptr = 0] ELSE s
           t  == s1.buf[s1.ptr + 1]
           s2 == [s1 EXCEPT !.ptr = s1.ptr + 1]
       IN IF t \in rej THEN Take(s2, k) ELSE Take([s2 EXCEPT !.got = Append(s2.got, t)], k - 1)

Entry(b, p, nx) ==
  IF Kind = "uniform"
  THEN IF p = 0 \/ p = BufTok THEN [next |-> nx + BufTok, buf |-> Refill(nx), ptr |-> 0, got |-> <<>>]
                              ELSE [next |-> nx, buf |-> b, ptr |-> p, got |-> <<>>]
  ELSE [next |-> nx + BufTok, buf |-> Refill(nx), ptr |-> p, got |-> <<>>]

Rows(lvl) == IF Kind = "uniform" THEN lvl + 1 ELSE 1

\* under ~SharePtr the base sampler (level MaxLevel) uses buf/ptr and a view of a lower level uses the
\* private copy it took when it was made (MakeView)
Private(lvl) == ~SharePtr /\ lvl < MaxLevel
Call(lvl) ==
  /\ Len(out) < MaxCalls
  /\ LET b == IF Private(lvl) THEN vbuf[lvl].buf ELSE buf
         p == IF Private(lvl) THEN vbuf[lvl].ptr ELSE ptr
         s == Take(Entry(b, p, next), Rows(lvl) * NCoef)
     IN /\ s.next <= MaxTok
        /\ next' = s.next
        /\ IF Private(lvl) THEN vbuf' = [vbuf EXCEPT ![lvl] = [buf |-> s.buf, ptr |-> s.ptr]] /\ UNCHANGED <<buf, ptr>>
                            ELSE buf' = s.buf /\ ptr' = s.ptr /\ UNCHANGED vbuf
        /\ out' = Append(out, [lvl |-> lvl, toks |-> s.got])
  /\ UNCHANGED <<rej, first>>

\* AtLevel: under the design a view holds a pointer to the family's buffer, nothing happens to the state
MakeView(lvl) == /\ Private(lvl)
                 /\ vbuf' = [vbuf EXCEPT ![lvl] = [buf |-> buf, ptr |-> ptr]]
                 /\ UNCHANGED <<next, buf, ptr, out, rej, first>>

\* Reset of the generator followed by the construction of a new family on it
Reset == /\ first = <<>> /\ out # <<>>
         /\ first' = out /\ out' = <<>> /\ next' = 0
         /\ buf' = Refill(0) /\ ptr' = 0
         /\ vbuf' = [l \in 0..MaxLevel |-> [buf |-> Refill(0), ptr |-> 0]]
         /\ UNCHANGED rej

Init == /\ next = 0 /\ buf = Refill(0) /\ ptr = 0
        /\ vbuf = [l \in 0..MaxLevel |-> [buf |-> Refill(0), ptr |-> 0]]
        /\ out = <<>> /\ first = <<>>
        /\ rej \in SUBSET (0..(2 * BufTok))      \* which of the early tokens are rejected
Next == (\E l \in 0..MaxLevel : Call(l) \/ MakeView(l)) \/ Reset
Spec == Init /\ [][Next]_vars

AllToks(o) == UNION {{o[i].toks[j] : j \in 1..Len(o[i].toks)} : i \in 1..Len(o)}
NTok(o) == LET RECURSIVE S(_) S(i) == IF i = 0 THEN 0 ELSE Len(o[i].toks) + S(i - 1) IN S(Len(o))
\* no token reaches two coefficients, and no rejected token reaches any
NoReuse == Cardinality(AllToks(out)) = NTok(out) /\ AllToks(out) \cap rej = {}
\* after Reset, the same call sequence returns the same tokens
Replay == first # <<>> =>
            \A i \in 1..Len(out) : i <= Len(first) /\ (\A j \in 1..i : first[j].lvl = out[j].lvl) => out[i].toks = first[i].toks

=============================================================================
