------------------------------ MODULE StreamGen ------------------------------
(* Scenario generator / exhaustive model of Stream: every scenario writes up to MaxWire       *)
(* objects on one stream through some entry points and reads them back through others.        *)
EXTENDS Stream, TLC, Json

CONSTANTS LenOf     \* a length per object, only to make the model concrete

VARIABLE hist
gvars == <<wire, rpos, known, bytesW, bytesR, hist>>

GWrite == \E o \in Objs : \E e \in WEntries :
            /\ rpos = 0
            /\ Write(o, e, LenOf[o], LenOf[o], LenOf[o], 0)
            /\ hist' = Append(hist, [ev |-> "write", t |-> o.t, v |-> o.v, entry |-> e])
GRead == \E e \in REntries : \E p \in Priors : \E c \in Chunks :
            /\ rpos < Len(wire)
            /\ Read(wire[rpos + 1].obj, e, p, c, wire[rpos + 1].len, -1, TRUE)
            /\ hist' = Append(hist, [ev |-> "read", entry |-> e, prior |-> p, chunk |-> c])
GNext == GWrite \/ GRead
GInit == SInit /\ hist = <<>>
GSpec == GInit /\ [][GNext]_gvars

\* a scenario is complete when everything written has been read back
Emit == ~(Len(wire) > 0 /\ rpos = Len(wire)) \/ PrintT(<<"PROG", ToJson(hist)>>)
=============================================================================
