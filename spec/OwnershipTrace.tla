--------------------------- MODULE OwnershipTrace ---------------------------
EXTENDS Integers, Sequences, FiniteSets, TLC, Json
Trace == ndJsonDeserialize("trace.ndjson")
VARIABLE l
Ev == Trace[l]
CopyOK(e) ==
  /\ ~e.panic
  /\ \A i \in 1..Len(e.ops) : e.ops[i].eq /\ e.ops[i].again /\ (e.ops[i].errcopy => e.ops[i].errorig)
  /\ (e.concurrent => Len(e.written) = 0)
  /\ (e.deep => e.nshared = 0 /\ e.origintact)
  /\ e.origgraph
SchedOK(e) == ~e.panic /\ e.races = 0 /\ e.seqequal
TrCopy == Ev.ev = "copy" /\ CopyOK(Ev)
TrSched == Ev.ev = "sched" /\ SchedOK(Ev)
TrReset == Ev.ev = "reset"
TraceNext == l <= Len(Trace) /\ l' = l + 1 /\ (TrCopy \/ TrSched \/ TrReset)
TraceInit == l = 1 /\ TLCSet(1, 1)
TraceSpec == TraceInit /\ [][TraceNext]_l
Progress == TLCSet(1, IF TLCGet(1) > l THEN TLCGet(1) ELSE l)
TraceAccepted ==
    LET n == TLCGet(1) - 1 IN
    IF n = Len(Trace) THEN TRUE ELSE PrintT(<<"TRACE_REJECTED_AT", n + 1>>) /\ FALSE
=============================================================================
