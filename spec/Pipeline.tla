------------------------------ MODULE Pipeline ------------------------------
(* Cross-layer programs: encode -> encrypt (secret or public key) -> evaluate -> serialise onto one shared     *)
(* stream -> deserialise (into fresh or used receivers) -> evaluate with keys that travelled over the same       *)
(* stream -> collective key switch to another shared key / collective refresh -> polynomial evaluation ->        *)
(* linear transformation -> decrypt -> decode.                                                                  *)
(*                                                                                                          *)
(* A register holds the message of a ciphertext: a vector over Z_T of period 4 along each row of slots (so that  *)
(* a rotation by k acts as a cyclic shift of the 4 values), its level and the key it is encrypted under; the    *)
(* stream is a FIFO of such abstract ciphertexts.  The evaluation keys of a key are "local" or "wired" (they     *)
(* went through the stream before being used).  The specification is the oracle for the values: whatever the    *)
(* route a ciphertext took, decrypting it under the key the model says returns the vector the model computed.   *)
EXTENDS Integers, Sequences, FiniteSets, TLC

CONSTANTS T,          \* plaintext modulus
          Regs,       \* register names
          MaxLevel,
          Pool,       \* message vectors to encrypt
          MaxSteps

VARIABLES reg,        \* register -> [vals, lvl, key] or Null
          wire,       \* sequence of [vals, lvl, key]
          wired,      \* key -> BOOLEAN: evaluation keys of this key were replaced by their deserialised copies
          hist

vars == <<reg, wire, wired, hist>>
Null == [vals |-> <<>>, lvl |-> -1, key |-> 0]
Live(r) == reg[r].lvl >= 0

AddV(a, b) == [i \in 1..4 |-> (a[i] + b[i]) % T]
MulV(a, b) == [i \in 1..4 |-> (a[i] * b[i]) % T]
RotV(a, k) == [i \in 1..4 |-> a[((i - 1 + k) % 4) + 1]]
Min(a, b) == IF a < b THEN a ELSE b

Log(e) == hist' = Append(hist, e)

Enc(r, v, how) == /\ ~Live(r)            \* fresh encryptions go to empty registers (keeps programs about what follows)
                  /\ reg' = [reg EXCEPT ![r] = [vals |-> v, lvl |-> MaxLevel, key |-> 1]]
                  /\ Log([op |-> "enc", r |-> r, v |-> v, how |-> how])
                  /\ UNCHANGED <<wire, wired>>

Add(a, b, out) == /\ Live(a) /\ Live(b) /\ reg[a].key = reg[b].key
                  /\ reg' = [reg EXCEPT ![out] = [vals |-> AddV(reg[a].vals, reg[b].vals), lvl |-> Min(reg[a].lvl, reg[b].lvl), key |-> reg[a].key]]
                  /\ Log([op |-> "add", a |-> a, b |-> b, out |-> out])
                  /\ UNCHANGED <<wire, wired>>

\* multiplication with relinearisation followed by a rescale: one level consumed
MulR(a, b, out) == /\ Live(a) /\ Live(b) /\ reg[a].key = reg[b].key /\ Min(reg[a].lvl, reg[b].lvl) >= 1
                   /\ reg' = [reg EXCEPT ![out] = [vals |-> MulV(reg[a].vals, reg[b].vals), lvl |-> Min(reg[a].lvl, reg[b].lvl) - 1, key |-> reg[a].key]]
                   /\ Log([op |-> "mulr", a |-> a, b |-> b, out |-> out])
                   /\ UNCHANGED <<wire, wired>>

Rot(a, k, out) == /\ Live(a)
                  /\ reg' = [reg EXCEPT ![out] = [reg[a] EXCEPT !.vals = RotV(reg[a].vals, k)]]
                  /\ Log([op |-> "rot", a |-> a, k |-> k, out |-> out])
                  /\ UNCHANGED <<wire, wired>>

Write(a) == /\ Live(a) /\ Len(wire) < 3
            /\ wire' = Append(wire, reg[a])
            /\ Log([op |-> "write", a |-> a])
            /\ UNCHANGED <<reg, wired>>

\* the receiver may be a register that already holds something else (prior state must not matter)
\* chunk: the underlying reader delivers at most that many bytes per call (fragmenting transports)
Read(out, chunk) == /\ wire # <<>>
                    /\ reg' = [reg EXCEPT ![out] = Head(wire)]
                    /\ wire' = Tail(wire)
                    /\ Log([op |-> "read", out |-> out, chunk |-> chunk])
                    /\ UNCHANGED wired

\* the evaluation keys of key k go over the (empty) stream and replace the local ones
WireKeys(k) == /\ ~wired[k] /\ wire = <<>>
               /\ wired' = [wired EXCEPT ![k] = TRUE]
               /\ Log([op |-> "wirekeys", k |-> k])
               /\ UNCHANGED <<reg, wire>>

\* collective key switch (two parties, shares aggregated in either order) from key 1 to key 2
Switch(a, out, order) == /\ Live(a) /\ reg[a].key = 1
                         /\ reg' = [reg EXCEPT ![out] = [reg[a] EXCEPT !.key = 2]]
                         /\ Log([op |-> "switch", a |-> a, out |-> out, order |-> order])
                         /\ UNCHANGED <<wire, wired>>

\* collective refresh (two parties holding the shares of the ciphertext's key, shares aggregated in either order):
\* the message and the key are unchanged, the level is back at the maximum
Refresh(a, out, order) == /\ Live(a)
                          /\ reg' = [reg EXCEPT ![out] = [reg[a] EXCEPT !.lvl = MaxLevel]]
                          /\ Log([op |-> "refresh", a |-> a, out |-> out, order |-> order])
                          /\ UNCHANGED <<wire, wired>>

\* polynomial evaluation (bgv polynomial evaluator on the evaluator of the ciphertext's key, monomial basis): p applied
\* slot-wise; both menu polynomials have degree 2 or 3 and consume two levels
PolyMenu == <<<<1, 0, 1>>, <<0, 2, 0, 1>>>>                  \* 1 + x^2 ;  2x + x^3   (constant coefficient first)
RECURSIVE Horner(_, _, _)
Horner(c, x, k) == IF k > Len(c) THEN 0 ELSE (c[k] + x * Horner(c, x, k + 1)) % T
PolyV(c, a) == [i \in 1..4 |-> Horner(c, a[i], 1)]
Poly(a, out, p) == /\ Live(a) /\ reg[a].lvl >= 2
                   /\ reg' = [reg EXCEPT ![out] = [vals |-> PolyV(PolyMenu[p], reg[a].vals), lvl |-> reg[a].lvl - 2, key |-> reg[a].key]]
                   /\ Log([op |-> "poly", a |-> a, out |-> out, p |-> p])
                   /\ UNCHANGED <<wire, wired>>

\* linear transformation with the diagonals 0 and 1 (bgv lintrans evaluator, rotation key of the ciphertext's key),
\* followed by a rescale: out[i] = d0[i] * a[i] + d1[i] * a[i + 1]; one level consumed
LinMenu == <<[d0 |-> <<1, 2, 3, 4>>, d1 |-> <<5, 0, 1, 2>>], [d0 |-> <<0, 0, 0, 0>>, d1 |-> <<1, 1, 1, 1>>]>>
LinV(m, a) == [i \in 1..4 |-> (m.d0[i] * a[i] + m.d1[i] * a[(i % 4) + 1]) % T]
Lin(a, out, m) == /\ Live(a) /\ reg[a].lvl >= 1
                  /\ reg' = [reg EXCEPT ![out] = [vals |-> LinV(LinMenu[m], reg[a].vals), lvl |-> reg[a].lvl - 1, key |-> reg[a].key]]
                  /\ Log([op |-> "lin", a |-> a, out |-> out, m |-> m])
                  /\ UNCHANGED <<wire, wired>>

Init == reg = [r \in Regs |-> Null] /\ wire = <<>> /\ wired = [k \in {1, 2} |-> FALSE] /\ hist = <<>>
Next == /\ Len(hist) < MaxSteps
        /\ \/ \E r \in Regs, v \in Pool, how \in {"sk", "pk"} : Enc(r, v, how)
           \/ \E a, b, out \in Regs : Add(a, b, out) \/ MulR(a, b, out)
           \/ \E a, out \in Regs, k \in {1, 3} : Rot(a, k, out)
           \/ \E a \in Regs : Write(a)
           \/ \E out \in Regs, chunk \in {1, 7, 4096} : Read(out, chunk)
           \/ \E k \in {1, 2} : WireKeys(k)
           \/ \E a, out \in Regs, order \in {0, 1} : Switch(a, out, order)
           \/ \E a, out \in Regs, order \in {0, 1} : Refresh(a, out, order)
           \/ \E a, out \in Regs, p \in 1..Len(PolyMenu) : Poly(a, out, p)
           \/ \E a, out \in Regs, m \in 1..Len(LinMenu) : Lin(a, out, m)
Spec == Init /\ [][Next]_vars

TypeOK == \A r \in Regs : reg[r].lvl \in -1..MaxLevel
\* a FIFO: what is read is what was written, in order (holds by construction; stated for the trace)
LevelsNeverNegative == \A r \in Regs : reg[r].lvl >= -1
=============================================================================
