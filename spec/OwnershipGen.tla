---------------------------- MODULE OwnershipGen ----------------------------
(* Schedules for the race-detector runs: G goroutines, each with the kind of object it uses and the          *)
(* operation sequence it performs (one goroutine is added per step).                                         *)
EXTENDS Integers, Sequences, TLC, Json
CONSTANTS G, OpsN, SeqLen, KindSet
VARIABLE s
Init == s = <<>>
Next == /\ Len(s) < G
        /\ \E k \in KindSet, o \in [1..SeqLen -> 1..OpsN] : s' = Append(s, [kind |-> k, ops |-> o])
GSpec == Init /\ [][Next]_s
Emit == Len(s) < G \/ PrintT(<<"PROG", ToJson(s)>>)
=============================================================================
