---------------------------- MODULE RlweCoreTrace ----------------------------
EXTENDS RlweCore, Json, TLC
Trace == ndJsonDeserialize("trace.ndjson")
VARIABLE l
Ev == Trace[l]
TrEnc == Ev.ev = "enc" /\ FreshOK(Ev)
TrKey == Ev.ev = "keynoise" /\ KeyNoiseOK(Ev)
TrKs == Ev.ev = "ksw" /\ KeySwitchOK(Ev)
TrExpand == Ev.ev = "expand" /\ ExpandOK(Ev)
TrRefuse == Ev.ev = "refuse" /\ Ev.err /\ ~Ev.panic
TraceNext == /\ l <= Len(Trace) /\ l' = l + 1 /\ (TrEnc \/ TrKey \/ TrKs \/ TrExpand \/ TrRefuse)
TraceInit == l = 1 /\ TLCSet(1, 1)
TraceSpec == TraceInit /\ [][TraceNext]_l
Progress == TLCSet(1, IF TLCGet(1) > l THEN TLCGet(1) ELSE l)
TraceAccepted ==
    LET n == TLCGet(1) - 1 IN
    IF n = Len(Trace) THEN TRUE ELSE PrintT(<<"TRACE_REJECTED_AT", n + 1>>) /\ FALSE
=============================================================================
