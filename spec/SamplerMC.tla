------------------------------ MODULE SamplerMC ------------------------------
(* Exhaustive check of the buffer / pointer design of Sampler (all interleavings of calls on level views,   *)
(* all rejection patterns of the early tokens, Reset).                                                      *)
EXTENDS Sampler
View == <<next, buf, ptr, vbuf, out, rej, first>>
=============================================================================
