------------------------------ MODULE LinTrans ------------------------------
(***************************************************************************)
(* Homomorphic linear transformations (circuits/common/lintrans and the    *)
(* bgv / ckks wrappers) at the level of plaintext slots.                   *)
(*                                                                         *)
(* A plaintext is a matrix rows x h of slot values (Galois.tla). A linear  *)
(* transformation is given by its non-zero diagonals: a sequence of        *)
(* records [k |-> index in (-h, h), v |-> rows x h matrix]; it maps x to   *)
(*      out[r][i] = sum_d  d.v[r][i] * x[r][(i + d.k) mod h]               *)
(* independently on every row.                                             *)
(*                                                                         *)
(* The evaluator either rotates the input once per diagonal (N1 = 0) or    *)
(* regroups the diagonals k = j + i (j multiple of N1, 0 <= i < N1) as     *)
(*      sum_j Rot_j( sum_i Rot_{-j}(diag_{j+i}) * Rot_i(x) )               *)
(* (baby-step giant-step); BSGSRegroup is that formula and LinTransMC      *)
(* checks it equals MatVec.  FindN1 is FindBestBSGSRatio, Rotations the    *)
(* set of rotations either algorithm performs; the advertised Galois       *)
(* elements must be exactly their images.                                  *)
(***************************************************************************)
EXTENDS Galois

VMul(u, v, T) == <<Red(u[1] * v[1] - u[2] * v[2], T), Red(u[1] * v[2] + u[2] * v[1], T)>>
PtMul(a, b, T) == [r \in 1..Len(a) |-> [j \in 1..Len(a[r]) |-> VMul(a[r][j], b[r][j], T)]]

RECURSIVE MatVecUpTo(_, _, _, _)
MatVecUpTo(diags, x, T, n) ==
    IF n = 0 THEN PtZero(x)
    ELSE PtAdd(MatVecUpTo(diags, x, T, n - 1), PtMul(diags[n].v, RotRows(x, diags[n].k), T), T)
MatVec(diags, x, T) == MatVecUpTo(diags, x, T, Len(diags))

\* ---- baby-step giant-step bookkeeping (BSGSIndex / FindBestBSGSRatio)
Res(k, h) == k % h
Giant(k, h, N1) == (Res(k, h) \div N1) * N1
Baby(k, h, N1) == Res(k, h) % N1
Giants(K, h, N1) == {Giant(k, h, N1) : k \in K}
Babies(K, h, N1) == {Baby(k, h, N1) : k \in K}

RECURSIVE FindFrom(_, _, _, _)
FindFrom(K, h, logMax, N1) ==
    IF N1 >= h THEN 1
    ELSE LET nb1 == Cardinality(Giants(K, h, N1)) - 1
             nb2 == Cardinality(Babies(K, h, N1)) - 1
             mx == 2 ^ logMax
         IN IF nb1 = 0 THEN (IF nb2 > 0 THEN N1 \div 2 ELSE FindFrom(K, h, logMax, 2 * N1))
            ELSE IF nb2 = mx * nb1 THEN N1
            ELSE IF nb2 > mx * nb1 THEN N1 \div 2
            ELSE FindFrom(K, h, logMax, 2 * N1)
\* ratio < 0: the plain algorithm, encoded as N1 = 0
FindN1(K, h, ratio) == IF ratio < 0 THEN 0 ELSE FindFrom(K, h, ratio, 1)

\* rotations performed (zero needs no key)
Rotations(K, h, N1) == (IF N1 = 0 THEN {Res(k, h) : k \in K} ELSE Giants(K, h, N1) \cup Babies(K, h, N1)) \ {0}
AdvertisedGalEls(K, h, N1, M) == {GalEl(r, M) : r \in Rotations(K, h, N1)}

\* the regrouped evaluation
SelSeq(diags, P(_)) == LET F[i \in 0..Len(diags)] == IF i = 0 THEN <<>> ELSE IF P(diags[i]) THEN Append(F[i - 1], diags[i]) ELSE F[i - 1] IN F[Len(diags)]
RECURSIVE SumOver(_, _, _, _, _, _)
SumOver(js, diags, x, T, h, N1) ==
    IF js = {} THEN PtZero(x)
    ELSE LET j == CHOOSE q \in js : TRUE
             grp == SelSeq(diags, LAMBDA d : Giant(d.k, h, N1) = j)
             inner == MatVec([i \in 1..Len(grp) |-> [k |-> Baby(grp[i].k, h, N1), v |-> RotRows(grp[i].v, -j)]], x, T)
         IN PtAdd(SumOver(js \ {j}, diags, x, T, h, N1), RotRows(inner, j), T)
BSGSRegroup(diags, x, T, h, N1) == SumOver(Giants({diags[i].k : i \in 1..Len(diags)}, h, N1), diags, x, T, h, N1)

\* ---- a call: the matrices of `mats` applied one after the other (one matrix unless EvaluateSequential)
RECURSIVE ApplySeq(_, _, _, _)
ApplySeq(mats, x, T, n) == IF n = 0 THEN x ELSE MatVec(mats[n].diags, ApplySeq(mats, x, T, n - 1), T)

Min2(a, b) == IF a <= b THEN a ELSE b
\* level after the call: single evaluation min(in, receiver, matrix); sequential: a rescale after every matrix
RECURSIVE SeqLevel(_, _, _)
SeqLevel(mats, lvl, n) == IF n = 0 THEN lvl ELSE Min2(SeqLevel(mats, lvl, n - 1), mats[n].lvl) - 1
=============================================================================
