------------------------------ MODULE IntEval ------------------------------
(***************************************************************************)
(* Abstract machine of lattigo's integer evaluator (schemes/bgv, both the  *)
(* BGV mode and the scale-invariant BFV mode).                             *)
(*                                                                         *)
(* State: a register file of ciphertext objects.  A register holds         *)
(*   m    the ideal message (ghost), a vector over Z_T of model width VW   *)
(*   raw  what the ciphertext decodes to with scale 1 (the representation  *)
(*        the implementation computes on: raw = m * s)                     *)
(*   s    the recorded scale (a unit of Z_T), lvl, deg                     *)
(*   nb   a worst-case bound, in bits, of the ciphertext noise             *)
(* One action per public evaluator call.  Each action states the value,    *)
(* level, degree and scale the documentation of bgv.Evaluator promises and *)
(* when an error is required / forbidden.                                  *)
(* Fields the documentation leaves open (the common scale picked by scale  *)
(* matching, the degree of a pre-allocated output that was larger) are     *)
(* parameters of the action ("choice" record ch): a generator picks them   *)
(* from a small set, a trace specification binds them from the log.        *)
(*                                                                         *)
(* Model vectors: VW = 2*W entries.  Entries 1..W stand for the first W    *)
(* real slots, entries W+1..2W for all remaining slots (periodic pattern), *)
(* so that short vector operands (length W, rest implicitly zero) have an  *)
(* exact model.                                                            *)
(***************************************************************************)
EXTENDS Integers, Sequences, FiniteSets, TLC

CONSTANTS
    T,          \* plaintext modulus, prime, < 2^15
    VW,         \* model vector width (even)
    L,          \* maximum level
    NR,         \* number of ciphertext registers
    QModT,      \* QModT[i] = q_{i-1} mod T, i \in 1..L+1
    LogQ,       \* LogQ[i]  = floor(log2 q_{i-1})
    LogN, LogT, \* ring degree / plaintext modulus in bits (ceil)
    NB0,        \* noise bits of a fresh encryption
    KSB,        \* noise bits added by a relinearisation
    ClsRes      \* residues mod T of the symbolic scalar bases (see ScRes)

VARIABLES reg, mode, rlk

vars == <<reg, mode, rlk>>

Reg  == 1..NR
Idx  == 1..VW
W    == VW \div 2

Min2(a, b) == IF a <= b THEN a ELSE b
Max2(a, b) == IF a >= b THEN a ELSE b

MulM(a, b) == (a * b) % T
RECURSIVE PowM(_, _)
PowM(a, e) == IF e = 0 THEN 1
              ELSE IF e % 2 = 0 THEN PowM(MulM(a, a), e \div 2)
              ELSE MulM(a, PowM(MulM(a, a), e \div 2))
InvM(a) == PowM(a % T, T - 2)

VZero          == [i \in Idx |-> 0]
VAdd(u, v)     == [i \in Idx |-> (u[i] + v[i]) % T]
VSub(u, v)     == [i \in Idx |-> (u[i] - v[i]) % T]
VMul(u, v)     == [i \in Idx |-> MulM(u[i], v[i])]
VScale(u, c)   == [i \in Idx |-> MulM(u[i], c % T)]

RECURSIVE QProd(_)
QProd(l) == IF l < 0 THEN 1 ELSE MulM(QProd(l - 1), QModT[l + 1])   \* Q_l mod T
NegQInv(l) == InvM(T - QProd(l))                                       \* (-Q_l)^{-1} mod T
RECURSIVE SumLogQ(_)
SumLogQ(l) == IF l < 0 THEN 0 ELSE SumLogQ(l - 1) + LogQ[l + 1]
Budget(l)  == SumLogQ(l) - 3

Dead == [ok |-> FALSE, m |-> VZero, raw |-> VZero, s |-> 1, lvl |-> 0, deg |-> 1, nb |-> 0]

-----------------------------------------------------------------------------
(* Second operands.  b.k \in {"ct","pt","sc","vec"}.                       *)
ScRes(b) == (ClsRes[b.cls + 1] + b.d) % T
    \* scalar = base(cls) + d with base \in <<0, 2^63, 2^64-1, -2^63, 2^63-1>>

Eff(b) == CASE b.k = "pt"  -> [i \in Idx |-> b.v[i] % T]
            [] b.k = "vec" -> [i \in Idx |-> IF b.short /\ i > W THEN 0 ELSE b.v[i] % T]
            [] b.k = "sc"  -> [i \in Idx |-> ScRes(b)]

IsCt(b)  == b.k = "ct"
BM(b)    == IF IsCt(b) THEN reg[b.r].m   ELSE Eff(b)
BDeg(b)  == IF IsCt(b) THEN reg[b.r].deg ELSE 0
BLvl(b)  == IF IsCt(b) THEN reg[b.r].lvl ELSE IF b.k = "pt" THEN b.lvl ELSE L
BNb(b)   == IF IsCt(b) THEN reg[b.r].nb  ELSE 0
BS(b)    == IF IsCt(b) THEN reg[b.r].s   ELSE IF b.k = "pt" THEN b.s ELSE 1
BOk(b)   == IF IsCt(b) THEN reg[b.r].ok  ELSE TRUE
IsPoly(b) == b.k \in {"ct", "pt"}            \* rlwe.ElementInterface operands

\* level of the result: min over operands and (for in-place outputs) the output object
LvlOut(st) == LET la == reg[st.a].lvl
                  lb == BLvl(st.b)
                  lo == IF st.new THEN L ELSE reg[st.o].lvl
              IN Min2(la, Min2(lb, lo))

\* noise of a tensor product of two ciphertexts / of a ciphertext and a plaintext-like operand
TensorNb(na, nb) == na + nb + LogN + LogT + 2
PtMulNb(na)      == na + LogN + LogT + 1
ScMulNb(na)      == na + LogT

-----------------------------------------------------------------------------
(* Result of a step: a record [err, out] plus, for MatchScalesAndLevel,    *)
(* a second updated register.  "ch" carries the open choices:              *)
(*   ch.s   common scale picked by scale matching                          *)
(*   ch.deg degree of the output where two values are admissible           *)
(*   ch.err whether the call returned an error where that is open          *)

MkOut(m, raw, s, lvl, deg, nb) ==
    [ok |-> TRUE, m |-> m, raw |-> raw, s |-> s, lvl |-> lvl, deg |-> deg, nb |-> nb]

BRaw(b) == IF IsCt(b) THEN reg[b.r].raw ELSE VScale(Eff(b), BS(b))

\* Add / Sub ----------------------------------------------------------------
\* equal scales: component-wise sum; unequal scales: both sides are multiplied by small
\* factors r0, r1 with r0*s0 = r1*s1 = ch.s (scale matching) before being summed;
\* scalars and vectors are first brought to the scale of the ciphertext.
AddSubRes(st, ch, sub) ==
    LET a  == reg[st.a]
        b  == st.b
        lv == LvlOut(st)
        mb == BM(b)
        m2 == IF sub THEN VSub(a.m, mb) ELSE VAdd(a.m, mb)
    IN IF IsPoly(b)
       THEN LET same == a.s = BS(b)
                s2   == IF same THEN a.s ELSE ch.s
                ra   == IF same THEN a.raw ELSE VScale(a.raw, MulM(s2, InvM(a.s)))
                rb   == IF same THEN BRaw(b) ELSE VScale(BRaw(b), MulM(s2, InvM(BS(b))))
                raw2 == IF sub THEN VSub(ra, rb) ELSE VAdd(ra, rb)
                dmin == Max2(a.deg, BDeg(b))
                nb2  == Max2(a.nb, BNb(b)) + 1 + (IF same THEN 0 ELSE LogT)
            IN [err |-> FALSE, degs |-> {dmin} \cup (IF st.new THEN {} ELSE {Max2(dmin, reg[st.o].deg)}),
                out |-> MkOut(m2, raw2, s2, lv, ch.deg, nb2)]
       ELSE LET rb   == VScale(mb, a.s)
                raw2 == IF sub THEN VSub(a.raw, rb) ELSE VAdd(a.raw, rb)
            IN [err |-> FALSE, degs |-> {a.deg} \cup (IF st.new THEN {} ELSE {Max2(a.deg, reg[st.o].deg)}),
                out |-> MkOut(m2, raw2, a.s, lv, ch.deg, a.nb + 1)]

\* standard tensoring (Mul / MulRelin in bgv mode; plaintext-like operands in any mode)
MulStdRes(st, ch, relin) ==
    LET a  == reg[st.a]
        b  == st.b
        lv == LvlOut(st)
        m2 == VMul(a.m, BM(b))
    IN IF IsCt(b)
       THEN LET tooHigh == a.deg + BDeg(b) > 2
                noKey   == relin /\ rlk # "full"
            IN [err |-> tooHigh \/ noKey, degs |-> {1, 2},
                out |-> MkOut(m2, VMul(a.raw, BRaw(b)), MulM(a.s, BS(b)), lv, IF relin THEN 1 ELSE 2,
                              IF relin THEN Max2(TensorNb(a.nb, BNb(b)), KSB) + 1 ELSE TensorNb(a.nb, BNb(b)))]
       ELSE IF b.k = "sc"
       THEN [err |-> FALSE, degs |-> {1, 2},
             out |-> MkOut(m2, VScale(a.raw, ScRes(b)), a.s, lv, a.deg, ScMulNb(a.nb))]
       ELSE \* pt (own scale) or vec (encoded at scale 1)
            [err |-> FALSE, degs |-> {1, 2},
             out |-> MkOut(m2, VMul(a.raw, BRaw(b)), MulM(a.s, BS(b)), lv, a.deg, PtMulNb(a.nb))]

\* scale-invariant tensoring (MulScaleInvariant / MulRelinScaleInvariant, and Mul / MulRelin in bfv mode):
\* round(T/Q_l * ct0 (x) ct1) carries the product of the raw values divided by (-Q_l mod T)
MulSIRes(st, ch, relin) ==
    LET a  == reg[st.a]
        b  == st.b
        lv == LvlOut(st)
        m2 == VMul(a.m, BM(b))
    IN IF IsCt(b)
       THEN LET tooHigh == a.deg + BDeg(b) > 2
                noKey   == relin /\ rlk # "full"
                s2      == MulM(MulM(a.s, BS(b)), NegQInv(lv))
            IN [err |-> tooHigh \/ noKey, degs |-> {1, 2},
                out |-> MkOut(m2, VScale(VMul(a.raw, BRaw(b)), NegQInv(lv)), s2, lv, IF relin THEN 1 ELSE 2,
                              Max2(Max2(a.nb, BNb(b)) + LogN + LogT + 4, IF relin THEN KSB ELSE 0) + 1)]
       ELSE MulStdRes(st, ch, relin)

\* MulThenAdd / MulRelinThenAdd: out <- out + a*b
MulThenAddRes(st, ch, relin) ==
    LET a  == reg[st.a]
        b  == st.b
        o  == reg[st.o]
        lv == LvlOut(st)
        m2 == VAdd(o.m, VMul(a.m, BM(b)))
    IN IF IsPoly(b)
       THEN LET alias   == st.o = st.a \/ (IsCt(b) /\ b.r = st.o)
                tooHigh == a.deg + BDeg(b) > 2
                rl      == relin /\ IsCt(b)
                noKey   == rl /\ rlk # "full"
                target  == MulM(a.s, BS(b))
                same    == target = o.s
                s2      == IF same THEN o.s ELSE ch.s
                prod    == VMul(a.raw, BRaw(b))
                raw2    == IF same THEN VAdd(o.raw, prod)
                           ELSE VAdd(VScale(o.raw, MulM(s2, InvM(o.s))), VScale(prod, MulM(s2, InvM(target))))
                pnb     == IF IsCt(b) THEN TensorNb(a.nb, BNb(b)) ELSE PtMulNb(a.nb)
                nb2     == Max2(Max2(o.nb, pnb) + (IF same THEN 0 ELSE LogT), IF rl THEN KSB ELSE 0) + 1
                d2      == IF IsCt(b) THEN (IF rl THEN Max2(1, o.deg) ELSE 2) ELSE Max2(a.deg, o.deg)
            IN [err |-> alias \/ tooHigh \/ noKey, degs |-> {1, 2}, out |-> MkOut(m2, raw2, s2, lv, d2, nb2)]
       ELSE \* scalar / vector: multiplied by (out scale / a scale), the output keeps its scale.
            \* "returns an error if op0 == opOut" is documented; vectors go through the plaintext
            \* path and must be refused, for scalars either outcome is accepted.
            LET ratio == MulM(o.s, InvM(a.s))
                raw2  == VAdd(o.raw, VMul(a.raw, VScale(BM(b), ratio)))
            IN [err |-> st.o = st.a /\ b.k = "vec", errOpen |-> st.o = st.a /\ b.k = "sc", degs |-> {1, 2},
                out |-> MkOut(m2, raw2, o.s, lv, Max2(a.deg, o.deg), Max2(o.nb, PtMulNb(a.nb) + LogT) + 1)]

\* Rescale (bgv mode): rounded division by q_lvl
RescaleRes(st, ch) ==
    LET a == reg[st.a]
        o == reg[st.o]
    IN [err |-> mode = "bgv" /\ (a.lvl = 0 \/ o.lvl < a.lvl - 1), degs |-> {1, 2},
        out |-> IF a.lvl = 0 THEN Dead
                ELSE LET qi == InvM(QModT[a.lvl + 1]) IN
                     MkOut(a.m, VScale(a.raw, qi), MulM(a.s, qi), a.lvl - 1, a.deg,
                           Max2(a.nb - LogQ[a.lvl + 1], LogN + LogT + 2) + 1)]

RelinRes(st, ch) ==
    LET a == reg[st.a]
        lv == IF st.new THEN a.lvl ELSE Min2(a.lvl, reg[st.o].lvl)
    IN [err |-> a.deg # 2 \/ rlk # "full", degs |-> {1, 2},
        out |-> MkOut(a.m, a.raw, a.s, lv, 1, Max2(a.nb, KSB) + 1)]

-----------------------------------------------------------------------------
BinOps == {"Add", "Sub", "Mul", "MulRelin", "MulScaleInvariant", "MulRelinScaleInvariant",
           "MulThenAdd", "MulRelinThenAdd"}
AccOps == {"MulThenAdd", "MulRelinThenAdd"}
UnOps  == {"Rescale", "Relinearize"}

Res(st, ch) ==
    CASE st.op = "Add"  -> AddSubRes(st, ch, FALSE)
      [] st.op = "Sub"  -> AddSubRes(st, ch, TRUE)
      [] st.op = "Mul"  -> IF mode = "bfv" /\ st.b.k # "sc" THEN MulSIRes(st, ch, FALSE) ELSE MulStdRes(st, ch, FALSE)
      [] st.op = "MulRelin" -> IF mode = "bfv" /\ st.b.k # "sc" THEN MulSIRes(st, ch, TRUE) ELSE MulStdRes(st, ch, TRUE)
      [] st.op = "MulScaleInvariant"      -> IF st.b.k = "sc" THEN MulStdRes(st, ch, FALSE) ELSE MulSIRes(st, ch, FALSE)
      [] st.op = "MulRelinScaleInvariant" -> IF st.b.k = "sc" THEN MulStdRes(st, ch, TRUE)  ELSE MulSIRes(st, ch, TRUE)
      [] st.op = "MulThenAdd"      -> MulThenAddRes(st, ch, FALSE)
      [] st.op = "MulRelinThenAdd" -> MulThenAddRes(st, ch, TRUE)
      [] st.op = "Rescale"     -> RescaleRes(st, ch)
      [] st.op = "Relinearize" -> RelinRes(st, ch)

\* structural preconditions of a call (operands exist and hold a value)
Callable(st) ==
    /\ st.a \in Reg /\ reg[st.a].ok
    /\ st.o \in Reg
    /\ (st.op \in BinOps => BOk(st.b))
    /\ (st.op \in AccOps => ~st.new)
    /\ (st.op = "Rescale" => ~st.new)
    /\ (~st.new => reg[st.o].ok)

\* A call: the output register takes the specified value; an error leaves the output unusable
\* (its content after a failed call is not specified); every other register is unchanged.
Call(st, ch) ==
    /\ Callable(st)
    /\ LET r == Res(st, ch) IN
       /\ ch.deg \in r.degs
       /\ (ch.err = r.err \/ (ch.err /\ "errOpen" \in DOMAIN r /\ r.errOpen))
       /\ IF st.op = "Rescale" /\ mode = "bfv"
          THEN UNCHANGED reg          \* documented no-op of the scale-invariant evaluator
          ELSE reg' = [reg EXCEPT ![st.o] = IF ch.err THEN Dead ELSE r.out]
    /\ UNCHANGED <<mode, rlk>>

\* the smallest admissible output degree (the one a generator assumes)
MinDeg(st, ch) == LET ds == Res(st, ch).degs IN CHOOSE x \in ds : \A y \in ds : x <= y

\* Load: a fresh encryption of vector v at level lvl with scale s is placed in register o
Load(o, v, s, lvl) ==
    /\ o \in Reg /\ lvl \in 0..L /\ s \in 1..T-1
    /\ LET mv == [i \in Idx |-> v[i] % T] IN
       reg' = [reg EXCEPT ![o] = MkOut(mv, VScale(mv, s), s, lvl, 1, NB0)]
    /\ UNCHANGED <<mode, rlk>>

\* DropLevel(a, k): in place
DropLevel(a, k) ==
    /\ a \in Reg /\ reg[a].ok /\ k \in 0..reg[a].lvl
    /\ reg' = [reg EXCEPT ![a].lvl = @ - k]
    /\ UNCHANGED <<mode, rlk>>

\* MatchScalesAndLevel(a, o): both in place; afterwards both have scale sNew and the minimum level
MatchScalesAndLevel(a, o, sNew) ==
    /\ a \in Reg /\ o \in Reg /\ a # o /\ reg[a].ok /\ reg[o].ok
    /\ sNew \in 1..T-1
    /\ (reg[a].s = reg[o].s => sNew = reg[a].s)
    /\ LET lv == Min2(reg[a].lvl, reg[o].lvl) IN
       reg' = [reg EXCEPT ![a] = MkOut(reg[a].m, VScale(reg[a].raw, MulM(sNew, InvM(reg[a].s))), sNew, lv, reg[a].deg, reg[a].nb + LogT),
                          ![o] = MkOut(reg[o].m, VScale(reg[o].raw, MulM(sNew, InvM(reg[o].s))), sNew, lv, reg[o].deg, reg[o].nb + LogT)]
    /\ UNCHANGED <<mode, rlk>>

\* a new evaluator / key configuration; all registers are released
Reset(md, rk) ==
    /\ md \in {"bgv", "bfv"} /\ rk \in {"full", "empty", "nil"}
    /\ mode' = md /\ rlk' = rk
    /\ reg' = [r \in Reg |-> Dead]

Init == mode = "bgv" /\ rlk = "full" /\ reg = [r \in Reg |-> Dead]

-----------------------------------------------------------------------------
(* Design invariants checked by TLC on the bounded model.                  *)
TypeOK ==
    /\ mode \in {"bgv", "bfv"} /\ rlk \in {"full", "empty", "nil"}
    /\ \A r \in Reg : /\ reg[r].s \in 1..T-1
                      /\ reg[r].lvl \in 0..L
                      /\ reg[r].deg \in 1..2
                      /\ \A i \in Idx : reg[r].m[i] \in 0..T-1 /\ reg[r].raw[i] \in 0..T-1

\* decoding with the recorded scale yields the ideal message
DecodeExact == \A r \in Reg : reg[r].ok => reg[r].m = VScale(reg[r].raw, InvM(reg[r].s))

\* every live ciphertext is inside the noise budget of its level (generator discipline)
InBudget == \A r \in Reg : reg[r].ok => reg[r].nb <= Budget(reg[r].lvl)
=============================================================================
