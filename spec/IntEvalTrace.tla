---------------------------- MODULE IntEvalTrace ----------------------------
(***************************************************************************)
(* Trace validation for IntEval: every line of trace.ndjson is one public  *)
(* call performed on the real bgv.Evaluator, with the projection of the    *)
(* concrete result.  Each line must be a step of the specification from    *)
(* the state the specification reached on the previous lines; fields the   *)
(* documentation leaves open are bound from the log.                       *)
(***************************************************************************)
EXTENDS IntEval, Json

CONSTANTS CheckFrame,  \* TRUE: also demand the frame condition (inputs untouched) -- property C09
          CheckNoise   \* TRUE: the measured noise must not exceed the model's bound (calibration runs)

Trace == ndJsonDeserialize("trace.ndjson")

VARIABLES l, ckpt      \* position in the trace; a saved register file (Save / Restore events)
tvars == <<reg, mode, rlk, l, ckpt>>

Ev == Trace[l]

\* the logged projection of a register equals the specification's register
Match(rv, r) ==
    /\ rv.ok = r.ok
    /\ r.ok => /\ rv.cons
               /\ rv.s = r.s /\ rv.lvl = r.lvl /\ rv.deg = r.deg
               /\ \A i \in Idx : rv.raw[i] = r.raw[i]
               /\ (CheckNoise => rv.nbits <= r.nb)

FrameOK == CheckFrame => Ev.frame

TraceCall ==
    /\ Ev.op \in BinOps \cup UnOps
    /\ ~Ev.panic
    /\ LET st == [op |-> Ev.op, a |-> Ev.a, b |-> Ev.b, o |-> Ev.o, new |-> Ev.new]
           ch == [s |-> Ev.res.s, deg |-> Ev.res.deg, err |-> Ev.err]
       IN /\ Call(st, ch)
          /\ Match(Ev.res, reg'[Ev.o])
    /\ FrameOK

TraceLoad ==
    /\ Ev.op = "Load"
    /\ Load(Ev.o, Ev.v, Ev.s, Ev.lvl)
    /\ Match(Ev.res, reg'[Ev.o])

TraceDrop ==
    /\ Ev.op = "DropLevel" /\ ~Ev.panic /\ ~Ev.err
    /\ DropLevel(Ev.a, Ev.k)
    /\ Match(Ev.res, reg'[Ev.a])
    /\ FrameOK

TraceMatch ==
    /\ Ev.op = "Match" /\ ~Ev.panic /\ ~Ev.err
    /\ MatchScalesAndLevel(Ev.a, Ev.o, Ev.res.s)
    /\ Match(Ev.res, reg'[Ev.o]) /\ Match(Ev.resa, reg'[Ev.a])
    /\ FrameOK

\* the driver skips a step whose operands hold no value (a register is released by a failed
\* call); the specification must agree that the call is not possible in its own state
TraceSkip ==
    /\ Ev.op = "Skip"
    /\ LET st == [op |-> Ev.sop, a |-> Ev.a, b |-> Ev.b, o |-> Ev.o, new |-> Ev.new] IN
       CASE Ev.sop \in BinOps \cup UnOps -> ~Callable(st)
         [] Ev.sop = "DropLevel" -> ~(reg[Ev.a].ok /\ Ev.k <= reg[Ev.a].lvl)
         [] Ev.sop = "Match" -> ~(reg[Ev.a].ok /\ reg[Ev.o].ok /\ Ev.a # Ev.o)
    /\ UNCHANGED <<reg, mode, rlk>>

TraceReset ==
    /\ Ev.op = "Reset"
    /\ Reset(Ev.mode, Ev.rlk)

\* the driver checkpoints the register file and tries many single calls from it
TraceSave    == Ev.op = "Save" /\ ckpt' = reg /\ UNCHANGED <<reg, mode, rlk>>
TraceRestore == Ev.op = "Restore" /\ reg' = ckpt /\ UNCHANGED <<mode, rlk, ckpt>>

TraceNext ==
    /\ l <= Len(Trace)
    /\ l' = l + 1
    /\ \/ (TraceCall \/ TraceLoad \/ TraceDrop \/ TraceMatch \/ TraceReset \/ TraceSkip) /\ UNCHANGED ckpt
       \/ TraceSave \/ TraceRestore

TraceInit == Init /\ l = 1 /\ ckpt = reg /\ TLCSet(1, 1)
TraceSpec == TraceInit /\ [][TraceNext]_tvars

\* high-water mark of consumed lines (register 1), for locating a rejection
Progress == TLCSet(1, IF TLCGet(1) > l THEN TLCGet(1) ELSE l)

TraceAccepted ==
    LET n == TLCGet(1) - 1 IN
    IF n = Len(Trace) THEN TRUE
    ELSE /\ PrintT(<<"TRACE_REJECTED_AT", n + 1>>)
         /\ FALSE
=============================================================================
