------------------------------ MODULE RingPack ------------------------------
(***************************************************************************)
(* Ciphertexts over a tower of ring degrees 2^MinLog .. 2^MaxLog with the  *)
(* same moduli (core/rlwe/ring_packing.go, evaluator_evaluationkey.go):    *)
(* what a holder of the secret keys of every degree decrypts, as vectors   *)
(* of plaintext coefficients.                                              *)
(*   Split   : ctN[X] = even[Y] + X * odd[Y], Y = X^2 (odd may be omitted) *)
(*   Merge   : the inverse (an omitted odd half counts as zero)            *)
(*   SwDown / SwUp : ApplyEvaluationKey with a ring-switching key,         *)
(*             X -> Y = X^2 keeps the even coefficients / Y -> X^2         *)
(*   Extract : for i in idx a ciphertext of the smallest degree whose      *)
(*             constant coefficient is c[i]; the other coefficients are    *)
(*             zero unless the naive variant is used                       *)
(*   Repack  : a ciphertext of the largest degree with coefficient i equal *)
(*             to the constant coefficient of entry i and zero elsewhere   *)
(*             (naive variant: only for entries that are constants)        *)
(***************************************************************************)
EXTENDS Integers, Sequences, FiniteSets

Even(c) == [j \in 1..(Len(c) \div 2) |-> c[2 * j - 1]]
Odd(c) == [j \in 1..(Len(c) \div 2) |-> c[2 * j]]
Zeros(n) == [k \in 1..n |-> 0]
Interleave(e, o) == [k \in 1..(2 * Len(e)) |-> IF k % 2 = 1 THEN e[(k + 1) \div 2] ELSE o[k \div 2]]

Refused(e) == e.err /\ ~e.panic
Done(e) == ~e.err /\ ~e.panic /\ e.cons /\ e.inok

SplitOK(e) ==
    IF e.inlogn <= e.minlog THEN Refused(e)           \* documented: nothing below the smallest degree
    ELSE /\ Done(e) /\ e.outlogn = e.inlogn - 1 /\ e.out = Even(e.in)
         /\ (e.has2 => e.out2logn = e.inlogn - 1 /\ e.out2 = Odd(e.in))
MergeOK(e) ==
    IF e.inlogn >= e.maxlog THEN Refused(e)
    ELSE /\ Done(e) /\ e.outlogn = e.inlogn + 1
         /\ e.out = Interleave(e.in, IF e.has2 THEN e.in2 ELSE Zeros(Len(e.in)))
SwDownOK(e) == Done(e) /\ e.outlogn = e.inlogn - 1 /\ e.out = Even(e.in)
SwUpOK(e) == Done(e) /\ e.outlogn = e.inlogn + 1 /\ e.out = Interleave(e.in, Zeros(Len(e.in)))
ExtractOK(e) ==
    /\ Done(e)
    /\ Len(e.mout) = Len(e.args.idx)
    /\ \A k \in 1..Len(e.args.idx) :
          \E j \in 1..Len(e.mout) : LET x == e.mout[j] IN
              /\ x.i = e.args.idx[k] /\ x.c0 = e.in[x.i + 1] /\ x.logn = e.minlog
              /\ (~e.naive => x.rest0)
Pow2(n) == 2^n
RepackOK(e) ==
    /\ Done(e) /\ e.outlogn = e.maxlog /\ Len(e.out) = Pow2(e.maxlog)
    /\ \A k \in 1..Len(e.out) :
          e.out[k] = (IF \E j \in 1..Len(e.min) : e.min[j].i = k - 1
                      THEN e.min[CHOOSE j \in 1..Len(e.min) : e.min[j].i = k - 1].c0 ELSE 0)
EncOK(e) == Done(e)

\* ---- standard / conjugate-invariant swap (ckks.DomainSwitcher), slot values in sixteenths -----------------------
\* RealToComplex: the real vector, with zero imaginary parts, at the same scale; ComplexToReal: the real parts, at
\* twice the scale (lgscale is the ratio of the scales in thousandths); both at the smaller of the two levels
Min2(a, b) == IF a < b THEN a ELSE b
R2COK(e) == /\ Done(e) /\ e.outre = e.re /\ \A i \in 1..Len(e.outim) : e.outim[i] = 0
            /\ e.lvlout = Min2(e.lvlin, e.lvlrecv) /\ e.lgscale = 1000
C2ROK(e) == /\ Done(e) /\ e.outre = e.re /\ \A i \in 1..Len(e.outim) : e.outim[i] = 0
            /\ e.lvlout = Min2(e.lvlin, e.lvlrecv) /\ e.lgscale = 2000
=============================================================================
