--------------------------- MODULE RnsScalingTrace ---------------------------
EXTENDS RnsScaling, Json, TLC
Trace == ndJsonDeserialize("trace.ndjson")
VARIABLE l
Ev == Trace[l]

Col(out, j) == [i \in 1..Len(out) |-> out[i][j]]      \* residues of coefficient j over the output moduli

TrDiv == /\ Ev.ev = "div"
         /\ LET rem == SubSeq(Ev.qs, 1, Len(Ev.qs) - Ev.nb) IN
            \A j \in 1..Len(Ev.x) :
               LET y == DivMany(Ev.x[j], Ev.qs, Ev.nb, Ev.rounded) IN
               \A i \in 1..Len(rem) : Ev.out[i][j] = y % rem[i]

TrModUp == /\ Ev.ev = "modup"
           /\ \A j \in 1..Len(Ev.x) : ModUpOK(Ev.x[j], Prod(Ev.src), Ev.dst, Col(Ev.out, j))

TrModDown == /\ Ev.ev = "moddown"
             /\ \A j \in 1..Len(Ev.x) :
                  IF Ev.kind = "QPtoP" THEN ModDownQPtoPOK(Ev.x[j], Prod(Ev.qs), Ev.ps, Col(Ev.out, j))
                  ELSE ModDownOK(Ev.x[j], Prod(Ev.ps), Ev.qs, Col(Ev.out, j))

TrDecomp == /\ Ev.ev = "decomp"
            /\ \A j \in 1..Len(Ev.x[1]) : DigitOK(Ev.qs, Ev.ps, Ev.alpha, Ev.digit, Col(Ev.x, j), Col(Ev.dq, j), Col(Ev.dp, j))

TrExt == /\ Ev.ev = "extsmall"
         /\ \A j \in 1..Len(Ev.v) : ExtendSmallOK(Ev.v[j], Ev.dst, Col(Ev.out, j))

\* real size: q*y <= x + h < q*y + q  with y = yrec + wrap*Qrem, and yrec's residues certified: yrec = k_i q_i + out_i
TrBigDiv ==
    /\ Ev.ev = "bigdiv"
    /\ LET y  == BNAdd(Ev.yrec, IF Ev.wrap THEN Ev.qrem ELSE <<>>)
           xh == BNAdd(Ev.x, Ev.h)
           qy == BNMul(Ev.q, y)
       IN /\ ~BNLess(xh, qy) /\ BNLess(xh, BNAdd(qy, Ev.q))
          /\ BNLess(Ev.yrec, Ev.qrem)
          /\ IF Ev.rounded THEN BNEq(BNAdd(BNMul(<<2>>, Ev.h), <<1>>), Ev.q) ELSE BNEq(Ev.h, <<>>)
          /\ \A i \in 1..Len(Ev.qi) : BNLess(Ev.outi[i], Ev.qi[i]) /\ BNEq(Ev.yrec, BNAdd(BNMul(Ev.ki[i], Ev.qi[i]), Ev.outi[i]))

\* real size ModDownQPtoQ: |P*y - x| <= 3P/2 with y = yrec + wrap*Q
TrBigModDown ==
    /\ Ev.ev = "bigmoddown"
    /\ LET y == BNAdd(Ev.yrec, IF Ev.wrap THEN Ev.qall ELSE <<>>)
           py2 == BNMul(<<2>>, BNMul(Ev.p, y))
           x2 == BNMul(<<2>>, Ev.x)
           p3 == BNMul(<<3>>, Ev.p)
       IN /\ ~BNLess(BNAdd(py2, p3), x2) /\ ~BNLess(BNAdd(x2, p3), py2)
          /\ BNLess(Ev.yrec, Ev.qall)
          /\ \A i \in 1..Len(Ev.qi) : BNLess(Ev.outi[i], Ev.qi[i]) /\ BNEq(Ev.yrec, BNAdd(BNMul(Ev.ki[i], Ev.qi[i]), Ev.outi[i]))

\* real size ModUp: out_j + 2A + w_j p_j = x + m*A + w1_j p_j, m = e - c + 2, c = [x centred negative], e in {-1,0,1}, e = 0 if 4|v| < A
TrBigModUp ==
    /\ Ev.ev = "bigmodup"
    /\ LET neg == BNLess(Ev.a, BNMul(<<2>>, Ev.x))              \* 2x > A: the centred value is x - A
           c   == IF neg THEN 1 ELSE 0
           absv == IF neg THEN Ev.absv ELSE Ev.x                 \* |v|; for negative v the harness supplies A - x, checked below
           small == BNLess(BNMul(<<4>>, absv), Ev.a)
       IN /\ Ev.m \in 0..3 /\ (Ev.m - 2 + c) \in {-1, 0, 1}
          /\ (neg => BNEq(BNAdd(Ev.absv, Ev.x), Ev.a))
          /\ (small => Ev.m - 2 + c = 0)
          /\ \A j \in 1..Len(Ev.pj) :
                /\ BNLess(Ev.outj[j], BNMul(<<2>>, Ev.pj[j]))
                /\ BNEq(BNAdd(BNAdd(Ev.outj[j], BNMul(<<2>>, Ev.a)), BNMul(Ev.wj[j], Ev.pj[j])),
                        BNAdd(BNAdd(Ev.x, BNMul(BNFromInt(Ev.m), Ev.a)), BNMul(Ev.w1j[j], Ev.pj[j])))

TraceNext == /\ l <= Len(Trace) /\ l' = l + 1
             /\ (TrDiv \/ TrModUp \/ TrModDown \/ TrDecomp \/ TrExt \/ TrBigDiv \/ TrBigModDown \/ TrBigModUp)
TraceInit == l = 1 /\ TLCSet(1, 1)
TraceSpec == TraceInit /\ [][TraceNext]_l
Progress == TLCSet(1, IF TLCGet(1) > l THEN TLCGet(1) ELSE l)
TraceAccepted ==
    LET n == TLCGet(1) - 1 IN
    IF n = Len(Trace) THEN TRUE ELSE PrintT(<<"TRACE_REJECTED_AT", n + 1>>) /\ FALSE
=============================================================================
