---------------------------- MODULE RingOpsTrace ----------------------------
(***************************************************************************)
(* Validation of traces recorded from package ring against RingOps.        *)
(* Every line is one call on the real ring.Ring / ring.SubRing with its    *)
(* inputs and output (toy moduli: plain integers, real-size moduli: limbs  *)
(* plus untrusted witnesses).  The only state is the ring under test: the  *)
(* root vector read off the implementation by a "roots" event and checked  *)
(* before it is used.                                                      *)
(***************************************************************************)
EXTENDS RingOps, Json, TLC

Trace == ndJsonDeserialize("trace.ndjson")

VARIABLES l, cur
tvars == <<l, cur>>

Ev == Trace[l]
NoRing == [q |-> 0, n |-> 0, ci |-> FALSE, w |-> <<>>]

TrEw ==
    /\ Ev.ev = "ew"
    /\ Len(Ev.a) = Ev.n /\ Len(Ev.out) = Ev.n
    /\ \A j \in 1..Ev.n :
          /\ EwInputsOK(Ev.op, Ev.q, Ev.a[j], Ev.b[j], Ev.c[j], Ev.s, Ev.sm)
          /\ EwHolds(Ev.op, Ev.q, Ev.a[j], Ev.b[j], Ev.c[j], Ev.s, Ev.sm, Ev.out[j])
    /\ UNCHANGED cur

TrCert ==
    /\ Ev.ev = "cert"
    /\ CertHolds(Ev.op, Ev)
    /\ UNCHANGED cur

TrRoots ==
    /\ Ev.ev = "roots"
    /\ RootsOK(Ev.w, Ev.n, Ev.q, Ev.ci)
    /\ cur' = [q |-> Ev.q, n |-> Ev.n, ci |-> Ev.ci, w |-> Ev.w]

HasRing == cur.n > 0

\* forward transform (k = documented range multiplier of the variant)
TrNTT ==
    /\ Ev.ev = "ntt" /\ HasRing
    /\ \A j \in 1..cur.n : Ev.a[j] >= 0 /\ Ev.a[j] < Ev.kin * cur.q
    /\ IsNTT(Ev.a, Ev.out, cur.w, cur.n, cur.q, cur.ci, Ev.k)
    /\ UNCHANGED cur

\* documented output range of a lazy variant: out < k*q
TrRange ==
    /\ Ev.ev = "range"
    /\ \A j \in 1..Ev.n : Ev.out[j] >= 0 /\ Ev.out[j] < Ev.k * Ev.q
    /\ UNCHANGED cur

\* inverse transform: the output is the (unique) polynomial whose evaluations are the input
TrINTT ==
    /\ Ev.ev = "intt" /\ HasRing
    /\ \A j \in 1..cur.n : Ev.out[j] >= 0 /\ Ev.out[j] < Ev.k * cur.q
    /\ \A j \in 1..cur.n : Ev.a[j] >= 0 /\ Ev.a[j] < Ev.kin * cur.q
    /\ \A j \in 1..cur.n : Ev.a[j] % cur.q = Eval(Ev.out, cur.w[j], cur.n, cur.q, cur.ci)
    /\ UNCHANGED cur

\* ring product computed through the transforms
TrMul ==
    /\ Ev.ev = "mul" /\ HasRing
    /\ LET e == RingMul(Ev.a, Ev.b, cur.n, cur.q, cur.ci) IN
       \A j \in 1..cur.n : Ev.out[j] = e[j]
    /\ UNCHANGED cur

TrAutom ==
    /\ Ev.ev = "autom" /\ HasRing /\ ~cur.ci
    /\ LET e == Autom(Ev.a, Ev.g, cur.n, cur.q) IN
       \A j \in 1..cur.n : Ev.out[j] % cur.q = e[j] /\ Ev.out[j] >= 0 /\ Ev.out[j] <= cur.q
    /\ UNCHANGED cur

\* automorphism in the NTT domain, optionally accumulated on c (lazy: < 2q)
TrAutomNTT ==
    /\ Ev.ev = "automntt" /\ HasRing
    /\ LET e == NTTAutomImage(Ev.a, Ev.g, cur.w, cur.n, cur.q, cur.ci) IN
       \A j \in 1..cur.n :
          /\ Ev.out[j] >= 0 /\ Ev.out[j] < Ev.k * cur.q
          /\ Ev.out[j] % cur.q = (e[j] + (IF Ev.acc THEN Ev.c[j] ELSE 0)) % cur.q
    /\ UNCHANGED cur

TrMonomial ==
    /\ Ev.ev = "monomial"
    /\ LET e == MonomialMul(Ev.a, Ev.kk, Ev.n, Ev.q) IN
       \A j \in 1..Ev.n : Ev.out[j] % Ev.q = e[j] /\ Ev.out[j] >= 0 /\ Ev.out[j] <= Ev.q
    /\ UNCHANGED cur

\* EvalPolyScalar: out = sum_i p_i * s^i (coefficient-wise Horner)
TrEvalPoly ==
    /\ Ev.ev = "evalpoly"
    /\ \A j \in 1..Ev.n :
         LET col == [i \in 1..Len(Ev.ps) |-> Ev.ps[i][j]] IN
         Ev.out[j] = EvalAt(col, Ev.s % Ev.q, Len(Ev.ps), Ev.q)
    /\ UNCHANGED cur

\* equality of two big-number vectors (e.g. INTT(NTT(a)) = a at 61-bit moduli)
TrEq ==
    /\ Ev.ev = "eq"
    /\ Len(Ev.x) = Len(Ev.y)
    /\ \A j \in 1..Len(Ev.x) : BNEq(Ev.x[j], Ev.y[j])
    /\ UNCHANGED cur

TraceNext ==
    /\ l <= Len(Trace)
    /\ l' = l + 1
    /\ (TrEw \/ TrCert \/ TrRoots \/ TrRange \/ TrNTT \/ TrINTT \/ TrMul \/ TrAutom \/ TrAutomNTT \/ TrMonomial \/ TrEvalPoly \/ TrEq)

TraceInit == l = 1 /\ cur = NoRing /\ TLCSet(1, 1)
TraceSpec == TraceInit /\ [][TraceNext]_tvars

Progress == TLCSet(1, IF TLCGet(1) > l THEN TLCGet(1) ELSE l)

TraceAccepted ==
    LET n == TLCGet(1) - 1 IN
    IF n = Len(Trace) THEN TRUE
    ELSE /\ PrintT(<<"TRACE_REJECTED_AT", n + 1>>)
         /\ FALSE
=============================================================================
