----------------------------- MODULE RlweCoreGen -----------------------------
(* Enumerates the admissible configurations of fresh encryptions and of evaluation keys.                 *)
EXTENDS RlweCore, TLC, Json
CONSTANTS PSets,       \* sequence of records [name, nq, np, ci]
          Base2s, Kinds, Provs, Which
VARIABLES cfg, phase
Init == cfg = [x |-> 0] /\ phase = "start"

EncCfgs == UNION {{[ev |-> "enc", ps |-> PSets[i].name, key |-> k, prov |-> pr, lvl |-> l, deg |-> d, ntt |-> nt, mont |-> mo] :
              k \in {"sk", "pk"}, pr \in Provs, l \in 0..(PSets[i].nq - 1), d \in {0, 1, 2}, nt \in BOOLEAN, mo \in BOOLEAN} : i \in 1..Len(PSets)}

\* admissible: degree 0 only with a secret key (seeded c1); the key-level combinations the library accepts
EncOK(c) == (c.deg = 0 => c.key = "sk")

KsCfgs == UNION {{[ev |-> "ksw", ps |-> PSets[i].name, kind |-> kd, lvlq |-> lq, lvlp |-> lp, base2 |-> b2, comp |-> cp, ctlvl |-> cl, ntt |-> nt] :
              kd \in Kinds, lq \in 0..(PSets[i].nq - 1), lp \in (-1)..(PSets[i].np - 1), b2 \in Base2s, cp \in BOOLEAN, cl \in 0..(PSets[i].nq - 1), nt \in BOOLEAN} : i \in 1..Len(PSets)}
NP(c) == LET i == CHOOSE j \in 1..Len(PSets) : PSets[j].name = c.ps IN PSets[i].np
KsOK(c) == /\ c.ctlvl <= c.lvlq
           /\ (c.lvlp = -1) = (NP(c) = 0)              \* a key without P only on a set without P
           /\ (c.base2 > 0 => c.lvlp <= 0)             \* bit decomposition goes with at most one auxiliary prime
           /\ (NP(c) = 0 => c.base2 > 0)               \* without P, a decomposition is required to control the noise
           /\ (c.kind \in {"automhoisted", "automlazy"} => NP(c) > 0 /\ c.base2 = 0)   \* hoisting is documented as RNS-decomposition only

Next == /\ phase = "start"
        /\ \E c \in (IF Which = "enc" THEN {x \in EncCfgs : EncOK(x)} ELSE {x \in KsCfgs : KsOK(x)}) : cfg' = c
        /\ phase' = "done"
Spec == Init /\ [][Next]_<<cfg, phase>>
Emit == phase # "done" \/ PrintT(<<"PROG", ToJson(cfg)>>)
=============================================================================
