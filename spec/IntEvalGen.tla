----------------------------- MODULE IntEvalGen -----------------------------
(***************************************************************************)
(* Program generator for IntEval: the history variable makes every         *)
(* behaviour a distinct program; programs are printed as JSON and replayed *)
(* on the real evaluator.  With Randomize = TRUE (simulation mode) the     *)
(* operands of a step are drawn with RandomElement so that the branching   *)
(* per step stays small; with Randomize = FALSE (breadth-first mode) every *)
(* combination of the pools is enumerated.                                 *)
(***************************************************************************)
EXTENDS IntEval, Json

CONSTANTS Randomize, Depth, VecPool, SVecPool, ScalePool, ScalarPool, OpPool, Modes, RlkKinds, FreeFrom, SimLen, Prefix

VARIABLE hist
gvars == <<reg, mode, rlk, hist>>

Pick(S) == IF Randomize THEN {RandomElement(S)} ELSE S

CtOperands  == {[k |-> "ct", r |-> r] : r \in Reg}
PtOperands  == {[k |-> "pt", v |-> v, s |-> s, lvl |-> l] : v \in VecPool, s \in ScalePool, l \in 0..L}
ScOperands  == {[k |-> "sc", cls |-> x.cls, d |-> x.d, ty |-> x.ty] : x \in ScalarPool}
VecOperands == {[k |-> "vec", v |-> v, ty |-> "u64", short |-> sh] : v \in VecPool, sh \in BOOLEAN}
               \cup {[k |-> "vec", v |-> v, ty |-> "i64", short |-> sh] : v \in SVecPool, sh \in BOOLEAN}

\* (the dummy parameter keeps TLC from caching the random draw as a constant)
Operands(n) == IF Randomize
            THEN LET kind == RandomElement({"ct", "ctt", "pt", "sc", "vec"}) IN
                 CASE kind \in {"ct", "ctt"}  -> {RandomElement(CtOperands)}
                   [] kind = "pt"  -> {[k |-> "pt", v |-> RandomElement(VecPool), s |-> RandomElement(ScalePool), lvl |-> RandomElement(0..L)]}
                   [] kind = "sc"  -> {RandomElement(ScOperands)}
                   [] kind = "vec" -> {RandomElement(VecOperands)}
            ELSE CtOperands \cup PtOperands \cup ScOperands \cup VecOperands

Choices(n) == {[s |-> s, deg |-> d, err |-> e] : s \in Pick(ScalePool), d \in 1..2, e \in BOOLEAN}

GenCall ==
    \E op \in Pick(OpPool \cap (BinOps \cup UnOps)) : \E a \in Pick(Reg) : \E o \in Pick(Reg) : \E nw \in Pick(BOOLEAN) :
    \E b \in (IF op \in BinOps THEN Operands(Len(hist)) ELSE {[k |-> "none"]}) :
        LET st == [op |-> op, a |-> a, b |-> b, o |-> o, new |-> nw] IN
        /\ (b.k = "pt" => b.lvl >= 0)
        /\ \E ch \in Choices(Len(hist)) : Call(st, ch) /\ ch.deg = MinDeg(st, ch)
        /\ InBudget'
        /\ hist' = Append(hist, st)

GenLoad ==
    \E o \in Pick(Reg) : \E v \in Pick(VecPool) : \E s \in Pick(ScalePool) : \E l \in Pick(0..L) :
        /\ Load(o, v, s, l)
        /\ hist' = Append(hist, [op |-> "Load", o |-> o, v |-> v, s |-> s, lvl |-> l])

GenDrop ==
    /\ "DropLevel" \in OpPool
    /\ \E a \in Pick(Reg) : \E k \in Pick(1..2) :
        /\ DropLevel(a, k)
        /\ InBudget'
        /\ hist' = Append(hist, [op |-> "DropLevel", a |-> a, k |-> k])

GenMatch ==
    /\ "Match" \in OpPool
    /\ \E a \in Pick(Reg) : \E o \in Pick(Reg) : \E s \in Pick(ScalePool) :
        /\ MatchScalesAndLevel(a, o, s)
        /\ InBudget'
        /\ hist' = Append(hist, [op |-> "Match", a |-> a, o |-> o])

GenReset ==
    \E md \in Pick(Modes) : \E rk \in Pick(RlkKinds) :
        /\ Reset(md, rk)
        /\ hist' = Append(hist, [op |-> "Reset", mode |-> md, rlk |-> rk])

\* a fixed prefix (a "preset" register file reached through real calls) ...
PrefixStep(st) ==
    /\ CASE st.op = "Reset" -> Reset(st.mode, st.rlk)
         [] st.op = "Load"  -> Load(st.o, st.v, st.s, st.lvl)
         [] OTHER           -> \E ch \in {[s |-> s, deg |-> d, err |-> e] : s \in ScalePool, d \in 1..2, e \in BOOLEAN} :
                                    Call(st, ch) /\ ch.deg = MinDeg(st, ch)
    /\ hist' = Append(hist, st)

\* ... or a Reset followed by a load of every register; then the program is free
GenNext ==
    \/ /\ Len(hist) < Len(Prefix) /\ PrefixStep(Prefix[Len(hist) + 1])
    \/ /\ Prefix = <<>> /\ Len(hist) = 0 /\ GenReset
    \/ /\ Prefix = <<>> /\ Len(hist) \in 1..NR
       /\ \E v \in Pick(VecPool) : \E s \in Pick(ScalePool) : \E l \in Pick(FreeFrom..L) :
            /\ Load(Len(hist), v, s, l)
            /\ hist' = Append(hist, [op |-> "Load", o |-> Len(hist), v |-> v, s |-> s, lvl |-> l])
    \/ /\ Len(hist) >= (IF Prefix = <<>> THEN NR + 1 ELSE Len(Prefix)) /\ Len(hist) < Depth
       /\ (GenCall \/ GenCall \/ GenCall \/ GenLoad \/ GenDrop \/ GenMatch)
    \/ /\ Randomize /\ UNCHANGED gvars     \* a random draw may hit a disabled call

GenInit == Init /\ hist = <<>>
GenSpec == GenInit /\ [][GenNext]_gvars

\* emit each program of full length once (breadth-first) or when the walk ends (simulation)
Emit == IF Randomize
        THEN TLCGet("level") < SimLen \/ Len(hist) <= NR \/ PrintT(<<"PROG", ToJson(hist)>>)
        ELSE Len(hist) < Depth \/ PrintT(<<"PROG", ToJson(hist)>>)
=============================================================================
