----------------------------- MODULE StreamTrace -----------------------------
(* Validation of serialisation traces recorded from the real library against Stream. *)
EXTENDS Stream, Json, TLC

Trace == ndJsonDeserialize("trace.ndjson")
VARIABLE l
tvars == <<wire, rpos, known, bytesW, bytesR, l>>
Ev == Trace[l]
O(e) == [t |-> e.t, v |-> e.v]

TrNew == Ev.ev = "new" /\ NewScenario

TrWrite == /\ Ev.ev = "write" /\ ~Ev.err /\ ~Ev.panic
           /\ Write(O(Ev), Ev.entry, Ev.size, Ev.n, Ev.len, Ev.dig)

TrRead == /\ Ev.ev = "read" /\ ~Ev.err /\ ~Ev.panic
          /\ Read(O(Ev), Ev.entry, Ev.prior, Ev.chunk, Ev.n, Ev.consumed, Ev.equal)

\* a read of a damaged segment / a write on a failing writer: state unchanged, outcome must be a clean failure
TrFault == /\ Ev.ev \in {"readfault", "writefault"}
           /\ FailClean(Ev.err, Ev.panic, Ev.allocmb)
           /\ UNCHANGED svars

\* JSON codecs offered by some types: a round trip must reproduce the object
TrJson == /\ Ev.ev = "json" /\ ~Ev.err /\ ~Ev.panic /\ Ev.equal
          /\ UNCHANGED svars

TraceNext == /\ l <= Len(Trace) /\ l' = l + 1
             /\ (TrNew \/ TrWrite \/ TrRead \/ TrFault \/ TrJson)
TraceInit == SInit /\ l = 1 /\ TLCSet(1, 1)
TraceSpec == TraceInit /\ [][TraceNext]_tvars
Progress == TLCSet(1, IF TLCGet(1) > l THEN TLCGet(1) ELSE l)
TraceAccepted ==
    LET n == TLCGet(1) - 1 IN
    IF n = Len(Trace) THEN TRUE ELSE PrintT(<<"TRACE_REJECTED_AT", n + 1>>) /\ FALSE
=============================================================================
