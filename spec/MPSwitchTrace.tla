---------------------------- MODULE MPSwitchTrace ----------------------------
EXTENDS MPSwitch, Json
Trace == ndJsonDeserialize("trace.ndjson")
VARIABLE l
tvars == <<shares, seen, final, l>>
Ev == Trace[l]
TrNew   == Ev.ev = "new" /\ NewRun
TrGen   == Ev.ev = "gen" /\ ~Ev.err /\ ~Ev.panic /\ GenShare(Ev.party, Ev.id, Ev.tag, Ev.dig)
TrAgg   == Ev.ev = "agg" /\ ~Ev.panic /\ Aggregate(Ev.a, Ev.b, Ev.out, Ev.err, Ev.dig)
TrWire  == Ev.ev = "wire" /\ ~Ev.err /\ ~Ev.panic /\ Wire(Ev.a, Ev.out, Ev.dig)
TrFinal == Ev.ev = "final" /\ ~Ev.err /\ ~Ev.panic /\ FinalizeSwitch(Ev.a, Ev)
TrSmudge == Ev.ev = "smudge" /\ SmudgeOK(Ev) /\ UNCHANGED mvars
TrMin == Ev.ev = "minlevel" /\ ~Ev.panic /\ MinLevelOK(Ev) /\ UNCHANGED mvars
\* a refresh below the minimum level must be refused with an error, not computed wrongly
TrRefused == Ev.ev = "refused" /\ ~Ev.panic /\ Ev.err /\ UNCHANGED mvars
TraceNext == /\ l <= Len(Trace) /\ l' = l + 1
             /\ (TrNew \/ TrGen \/ TrAgg \/ TrWire \/ TrFinal \/ TrSmudge \/ TrMin \/ TrRefused)
TraceInit == MInit /\ l = 1 /\ TLCSet(1, 1)
TraceSpec == TraceInit /\ [][TraceNext]_tvars
Progress == TLCSet(1, IF TLCGet(1) > l THEN TLCGet(1) ELSE l)
TraceAccepted ==
    LET n == TLCGet(1) - 1 IN
    IF n = Len(Trace) THEN TRUE ELSE PrintT(<<"TRACE_REJECTED_AT", n + 1>>) /\ FALSE
=============================================================================
