--------------------------- MODULE ApproxEvalTrace ---------------------------
(* Trace validation for ApproxEval: every line is one public call on the real ckks.Evaluator with the      *)
(* projection of the result (decrypted, decoded with the recorded scale, in fixed point 2^-20).            *)
EXTENDS ApproxEval, Json

CONSTANTS CheckFrame, TolBits      \* absolute tolerance 2^-TolBits (relative above 1)

Trace == ndJsonDeserialize("trace.ndjson")
VARIABLES l, ckpt
tvars == <<reg, keys, l, ckpt>>
Ev == Trace[l]

\* |logged - exact| <= 2^(20-TolBits) * max(1, |exact|) on both parts (logged values are in units of 2^-20)
Close(x, num, fb) ==
    LET exact == num * Pow2(20 - fb)
        tol == Pow2(20 - TolBits) * (1 + Abs(num) \div Pow2(fb))
    IN Abs(x - exact) <= tol

Match(rv, r) ==
    /\ rv.ok = r.ok
    /\ r.ok => /\ rv.cons
               /\ rv.lvl = r.lvl /\ rv.deg = r.deg /\ rv.ld = r.ld
               /\ Abs(rv.ls - r.ls) <= ScaleTol
               /\ \A i \in Slot : Close(rv.vals[i][1], r.m[i][1], r.fb) /\ Close(rv.vals[i][2], r.m[i][2], r.fb)

FrameOK == CheckFrame => Ev.frame

TraceCall ==
    /\ Ev.op \in BinOps \cup UnOps /\ ~Ev.panic
    /\ LET st == [op |-> Ev.op, a |-> Ev.a, b |-> Ev.b, o |-> Ev.o, new |-> Ev.new, k |-> Ev.k] IN
       /\ Call(st, [deg |-> Ev.res.deg, err |-> Ev.err, lvl |-> Ev.res.lvl])
       /\ Match(Ev.res, reg'[Ev.o])
    /\ FrameOK

TraceLoad == /\ Ev.op = "Load"
             /\ Load(Ev.o, [i \in Slot |-> Ev.v[i]], Ev.fb, Ev.ls, Ev.lvl, Ev.ld)
             /\ Match(Ev.res, reg'[Ev.o])

TraceDrop == /\ Ev.op = "DropLevel" /\ ~Ev.panic /\ ~Ev.err
             /\ DropLevel(Ev.a, Ev.k) /\ Match(Ev.res, reg'[Ev.a]) /\ FrameOK

TraceSetScale == /\ Ev.op = "SetScale" /\ ~Ev.panic
                 /\ SetScale(Ev.a, Ev.k, Ev.err) /\ Match(Ev.res, reg'[Ev.a]) /\ FrameOK

TraceSkip == /\ Ev.op = "Skip"
             /\ LET st == [op |-> Ev.sop, a |-> Ev.a, b |-> Ev.b, o |-> Ev.o, new |-> Ev.new, k |-> Ev.k] IN
                IF Ev.sop = "DropLevel" THEN ~(reg[Ev.a].ok /\ Ev.k <= reg[Ev.a].lvl) ELSE IF Ev.sop = "SetScale" THEN ~reg[Ev.a].ok ELSE ~Callable(st)
             /\ UNCHANGED <<reg, keys>>

TraceReset == Ev.op = "Reset" /\ Reset(Ev.keys)
TraceSave == Ev.op = "Save" /\ ckpt' = reg /\ UNCHANGED <<reg, keys>>
TraceRestore == Ev.op = "Restore" /\ reg' = ckpt /\ UNCHANGED <<keys, ckpt>>

TraceNext == /\ l <= Len(Trace) /\ l' = l + 1
             /\ \/ (TraceCall \/ TraceLoad \/ TraceDrop \/ TraceSetScale \/ TraceReset \/ TraceSkip) /\ UNCHANGED ckpt
                \/ TraceSave \/ TraceRestore
TraceInit == Init /\ l = 1 /\ ckpt = reg /\ TLCSet(1, 1)
TraceSpec == TraceInit /\ [][TraceNext]_tvars
Progress == TLCSet(1, IF TLCGet(1) > l THEN TLCGet(1) ELSE l)
TraceAccepted ==
    LET n == TLCGet(1) - 1 IN
    IF n = Len(Trace) THEN TRUE ELSE PrintT(<<"TRACE_REJECTED_AT", n + 1>>) /\ FALSE
=============================================================================
