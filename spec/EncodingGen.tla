----------------------------- MODULE EncodingGen -----------------------------
(* Enumerates the whole message space of short vectors over Z_t (t = 17) for the integer encoder. *)
EXTENDS Encoding, TLC, Json
CONSTANTS T, MaxLen
VARIABLES v, done
Init == v = <<>> /\ done = FALSE
Next == \/ ~done /\ Len(v) < MaxLen /\ \E x \in 0..(T - 1) : v' = Append(v, x) /\ done' = FALSE
        \/ ~done /\ Len(v) >= 1 /\ done' = TRUE /\ UNCHANGED v
Spec == Init /\ [][Next]_<<v, done>>
Emit == ~done \/ PrintT(<<"PROG", ToJson(v)>>)
\* the contract accepts the exact answer for every message (non-vacuity of IntRoundTrip)
SelfAccept == IntRoundTrip(T, MaxLen, v, [i \in 1..MaxLen |-> IF i <= Len(v) THEN v[i] ELSE 0], FALSE)
=============================================================================
