------------------------------ MODULE MPSwitch ------------------------------
(* Collective key switching (to a shared secret incl. the zero key = decryption, to a public key), share     *)
(* conversion (encryption-to-shares, shares-to-encryption) and refresh / masked transform of package         *)
(* multiparty, mpbgv, mpckks.                                                                                *)
(*                                                                                                          *)
(* Algebra (checked exhaustively by TLC on scalars of Z_Q, MPSwitchMC).  A ciphertext of message m under    *)
(* s = sum s_i is (c0, c1) with c0 + c1 s = m + e.                                                           *)
(*   KS    share_i = c1 (s_i - s'_i) + e_i                       out = (c0 + sum share_i, c1)                 *)
(*   E2S   pub_i   = c1 s_i + e_i - M_i,  additive_i = M_i (+ c0 + sum pub_i for the collecting party)        *)
(*   S2E   share_i = -a s_i + e_i + M_i                          out = (sum share_i, a)                       *)
(*   refresh = S2E o f o E2S with out at the level of the reference polynomial a                              *)
(* Invariants: out decrypts under s' = sum s'_i to m + e + sum e_i (KSCorrect); additive shares sum to         *)
(* m + e + sum e_i (E2SCorrect); S2E o E2S keeps the message (RoundTrip); all of it whatever the order in      *)
(* which shares are added (sums are taken over sets).                                                        *)
(*                                                                                                          *)
(* Contract of the real protocols (used by MPSwitchTrace): shares aggregate as in MPKeyGen (member sets,      *)
(* order-independent digests, refusal of mismatching levels); the finalised output must carry the message     *)
(* (or f of it), at the level and scale the protocol documents, with noise inside the worst-case bound; every  *)
(* share carries smudging noise no smaller than requested.                                                   *)
EXTENDS MPKeyGen, TLC

Max(a, b) == IF a > b THEN a ELSE b
Min(a, b) == IF a < b THEN a ELSE b
Lg(n) == CHOOSE k \in 0..16 : (2^k >= n) /\ (k = 0 \/ 2^(k-1) < n)     \* ceil(log2 n), n >= 1

\* Worst-case noise (bits, infinity norm in the coefficient domain, multiplied by the plaintext modulus for the
\* integer scheme as the harness measures it): n shares of at most 6 sigma_eff each plus the input's noise;
\* the public-key variant adds u*e_pk + e (ring degree times the error bound); the approximate refresh rescales the
\* masked plaintext from the input's scale to the default scale (lgratio bits), a transform may multiply it
NoiseBound(e) == e.lgt + Max(e.innoise, Max(e.lgsigma + 3, IF e.proto = "pks" THEN e.logn + 6 ELSE 0) + Lg(e.n)) + 2 + e.lgratio

\* the level and scale the protocols document
WantLevel(e) == IF e.proto \in {"ks0", "ks", "pks", "e2s"} THEN e.inlvl ELSE e.outlvl
FinalOK(e) ==
  /\ e.same                          \* message (or f(message)) preserved / additive shares sum to the message
  /\ e.lvl = WantLevel(e)
  /\ e.scaleok                       \* the recorded scale is the one the message is encoded at
  /\ e.noise <= NoiseBound(e)

FinalizeSwitch(a, e) ==
    /\ a \in DOMAIN shares /\ shares[a].members = Party
    /\ FinalOK(e)
    /\ final' = TRUE
    /\ UNCHANGED <<shares, seen>>

\* smudging: the error of a share has variance >= sigma^2/4 (in bits: floor(log2 var) >= 2 lg sigma - 2) and
\* stays inside the truncation bound 6 sigma_eff (sigma_eff^2 = sigma^2 + sigma_fresh^2)
SmudgeOK(e) == e.varbits >= 2 * e.lgsigma - 2 /\ e.maxbits <= Max(e.lgsigma, 2) + 4

\* minimum level for the approximate refresh: masks of logbound bits from each of n parties must fit:
\* floor(Q_L / n) >= 2^logbound.  qdivn[L+1] = bit length of floor(Q_L / n).
TrueMin(qdivn, logbound) == IF \E L \in 1..Len(qdivn) : qdivn[L] > logbound
                            THEN (CHOOSE L \in 1..Len(qdivn) : qdivn[L] > logbound /\ \A K \in 1..(L-1) : qdivn[K] <= logbound) - 1
                            ELSE -1
MinLevelOK(e) == LET tm == TrueMin(e.qdivn, e.logbound) IN
                 IF e.ok THEN tm >= 0 /\ e.minlevel >= tm /\ e.minlevel < Len(e.qdivn)
                         ELSE TRUE      \* declining is always safe
=============================================================================
