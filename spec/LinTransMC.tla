----------------------------- MODULE LinTransMC -----------------------------
(* Design checks: the regrouped (baby-step giant-step) evaluation equals the matrix-vector product for every set  *)
(* of diagonals, every power-of-two N1 and the N1 chosen by FindN1; rotations stay inside the advertised set.      *)
EXTENDS LinTrans, TLC
CONSTANTS Hs, T, Ratios, NegToo   \* NegToo: also enumerate negative representatives (small h only)
VARIABLES h, K, n1, rows
vars == <<h, K, n1, rows>>
Pow2Upto(n) == {p \in 1..n : \E e \in 0..8 : p = 2 ^ e}
IdxSets(hh) == {S \in SUBSET ((IF NegToo THEN 1 - hh ELSE 0)..(hh - 1)) : S # {} /\ \A a, b \in S : a # b => Res(a, hh) # Res(b, hh)}
Init == h = 0 /\ K = {} /\ n1 = 0 /\ rows = 1
Next == /\ h = 0
        /\ \E hh \in Hs : \E S \in IdxSets(hh) : \E n \in Pow2Upto(hh) \cup {FindN1(S, hh, r) : r \in Ratios} : \E rr \in {1, 2} :
              h' = hh /\ K' = S /\ n1' = n /\ rows' = rr
MSpec == Init /\ [][Next]_vars
\* generic values: every diagonal entry and every input slot distinct
SetToSeqHelper(S) == LET RECURSIVE F(_) F(R) == IF R = {} THEN <<>> ELSE LET m == CHOOSE a \in R : \A b \in R : a <= b IN <<m>> \o F(R \ {m}) IN F(S)
KSeq == SetToSeqHelper(K)
DiagsOf == [i \in 1..Len(KSeq) |-> [k |-> KSeq[i], v |-> [r \in 1..rows |-> [j \in 1..h |-> <<Red(7 * i + 3 * j + 11 * r, T), IF T = 0 THEN i - j ELSE 0>>]]]]
XOf == [r \in 1..rows |-> [j \in 1..h |-> <<Red(5 * j + 2 * r + 1, T), IF T = 0 THEN j + r ELSE 0>>]]
RegroupOK == h = 0 \/ n1 = 0 \/ BSGSRegroup(DiagsOf, XOf, T, h, n1) = MatVec(DiagsOf, XOf, T)
FindOK == h = 0 \/ \A r \in Ratios : LET f == FindN1(K, h, r) IN (r < 0 /\ f = 0) \/ (r >= 0 /\ f \in Pow2Upto(h))
RotOK == h = 0 \/ (\A r \in Rotations(K, h, n1) : r \in 1..(h - 1))
=============================================================================
