------------------------------ MODULE BridgeGen ------------------------------
(* Configurations of the standard / conjugate-invariant swap: direction, key parameterisation, levels of the input and *)
(* of the receiver (not above the level of the key).                                                                   *)
EXTENDS Integers, TLC, Json
CONSTANTS MaxLvl, Keys          \* Keys: set of [name, lvlq]
VARIABLES cfg, phase
Init == cfg = [x |-> 0] /\ phase = "start"
Cfgs == {[dir |-> d, key |-> k.name, lvlin |-> li, lvlrecv |-> lr] : d \in {"r2c", "c2r"}, k \in Keys, li \in 0..MaxLvl, lr \in 0..MaxLvl}
KeyLvl(c) == (CHOOSE k \in Keys : k.name = c.key).lvlq
Next == /\ phase = "start"
        /\ \E c \in {x \in Cfgs : (IF x.lvlin < x.lvlrecv THEN x.lvlin ELSE x.lvlrecv) <= KeyLvl(x)} : cfg' = c
        /\ phase' = "done"
Spec == Init /\ [][Next]_<<cfg, phase>>
Emit == phase # "done" \/ PrintT(<<"PROG", ToJson(cfg)>>)
=============================================================================
