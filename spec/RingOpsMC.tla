----------------------------- MODULE RingOpsMC -----------------------------
(***************************************************************************)
(* Model-checks the definitions of RingOps against the algebra they are    *)
(* meant to capture, on Z_17[X]/(X^8+1) (and its conjugate-invariant       *)
(* subring of degree 4): every initial state is one choice of operands,    *)
(* the invariants are the ring laws.  This is what makes RingOps usable as *)
(* the oracle of the trace validation.                                     *)
(***************************************************************************)
EXTENDS RingOps, TLC, SequencesExt

CONSTANTS PolyPool, GalPool, ShiftPool

Q == 17
N == 8
Roots == {x \in 1..Q-1 : PowQ(x, N, Q) = Q - 1}          \* the 8 roots of X^8+1 mod 17
RootSeq == SetToSortSeq(Roots, LAMBDA x, y : x < y)

VARIABLES a, b, g, k
mcvars == <<a, b, g, k>>

MCInit == a \in PolyPool /\ b \in PolyPool /\ g \in GalPool /\ k \in ShiftPool
MCNext == UNCHANGED mcvars
MCSpec == MCInit /\ [][MCNext]_mcvars

XPow(e) == MonomialMul([i \in 1..N |-> IF i = 1 THEN 1 ELSE 0], e, N, Q)

RootsAreRoots  == Cardinality(Roots) = N /\ RootsOK(RootSeq, N, Q, FALSE)
MulCommutes    == NegaMul(a, b, N, Q) = NegaMul(b, a, N, Q)
MonomialIsMul  == MonomialMul(a, k, N, Q) = NegaMul(a, XPow(k), N, Q)
EvalIsHom      == \A w \in Roots : EvalAt(NegaMul(a, b, N, Q), w, N, Q) = MulQ(EvalAt(a, w, N, Q), EvalAt(b, w, N, Q), Q)
AutomIsHom     == Autom(NegaMul(a, b, N, Q), g, N, Q) = NegaMul(Autom(a, g, N, Q), Autom(b, g, N, Q), N, Q)
AutomEvaluates == \A w \in Roots : EvalAt(Autom(a, g, N, Q), w, N, Q) = EvalAt(a, PowQ(w, g, Q), N, Q)
AutomComposes  == Autom(Autom(a, g, N, Q), 3, N, Q) = Autom(a, (3 * g) % (2 * N), N, Q)
\* the transform of the spec is inverted by evaluation: NTT o Autom = permutation of NTT
NTTAutom       == LET ah == [j \in 1..N |-> EvalAt(a, RootSeq[j], N, Q)]
                      ga == [j \in 1..N |-> EvalAt(Autom(a, g, N, Q), RootSeq[j], N, Q)]
                  IN NTTAutomImage(ah, g, RootSeq, N, Q, FALSE) = ga
\* conjugate-invariant subring of degree 4 inside degree 8: evaluation through u = w + w^-1
CIa == [i \in 1..4 |-> a[i]]
CIb == [i \in 1..4 |-> b[i]]
CIEval         == \A w \in Roots : EvalAtCI(CIa, (w + PowQ(w, Q - 2, Q)) % Q, 4, Q) = EvalAt(UnfoldCI(CIa, 4, Q), w, 8, Q)
CIMulIsHom     == \A w \in Roots : LET u == (w + PowQ(w, Q - 2, Q)) % Q IN
                     EvalAtCI(MulCI(CIa, CIb, 4, Q), u, 4, Q) = MulQ(EvalAtCI(CIa, u, 4, Q), EvalAtCI(CIb, u, 4, Q), Q)
CIRoots        == LET us == {(w + PowQ(w, Q - 2, Q)) % Q : w \in Roots} IN
                  Cardinality(us) = 4 /\ \A u \in us : ChebSeq(u, 8, Q)[8] = Q - 2
=============================================================================
