---------------------------- MODULE MPKeyGenTrace ----------------------------
EXTENDS MPKeyGen, Json, TLC
Trace == ndJsonDeserialize("trace.ndjson")
VARIABLE l
tvars == <<shares, seen, final, l>>
Ev == Trace[l]

TrNew   == Ev.ev = "new" /\ NewRun
TrGen   == Ev.ev = "gen" /\ ~Ev.err /\ ~Ev.panic /\ GenShare(Ev.party, Ev.id, Ev.tag, Ev.dig)
TrAgg   == Ev.ev = "agg" /\ ~Ev.panic /\ Aggregate(Ev.a, Ev.b, Ev.out, Ev.err, Ev.dig)
TrWire  == Ev.ev = "wire" /\ ~Ev.err /\ ~Ev.panic /\ Wire(Ev.a, Ev.out, Ev.dig)
TrFinal == Ev.ev = "final" /\ ~Ev.err /\ ~Ev.panic /\ Finalize(Ev.a, Ev.works, Ev.noise, Ev.bound)
\* identical reference polynomials for identical call sequences on the common reference string
TrCrs   == Ev.ev = "crs" /\ Ev.same /\ UNCHANGED mvars

TraceNext == /\ l <= Len(Trace) /\ l' = l + 1
             /\ (TrNew \/ TrGen \/ TrAgg \/ TrWire \/ TrFinal \/ TrCrs)
TraceInit == MInit /\ l = 1 /\ TLCSet(1, 1)
TraceSpec == TraceInit /\ [][TraceNext]_tvars
Progress == TLCSet(1, IF TLCGet(1) > l THEN TLCGet(1) ELSE l)
TraceAccepted ==
    LET n == TLCGet(1) - 1 IN
    IF n = Len(Trace) THEN TRUE ELSE PrintT(<<"TRACE_REJECTED_AT", n + 1>>) /\ FALSE
=============================================================================
