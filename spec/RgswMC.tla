------------------------------- MODULE RgswMC -------------------------------
(* Sanity of the definitions on a tiny ring: the negacyclic product is commutative, distributes over addition, *)
(* X^n = -1, multiplication by X^alpha - 1 agrees with shifting, and the blind-rotation table read through the   *)
(* rotation of the test polynomial (transcribed from InitTestPolynomial / Evaluate) equals Wrap.                *)
EXTENDS Rgsw
CONSTANTS N, Vals
VARIABLES a, b, c, alpha
vars == <<a, b, c, alpha>>
Vec == [1..N -> Vals]
Init == a \in Vec /\ b \in Vec /\ c \in Vec /\ alpha \in 0..(2 * N - 1)
Next == UNCHANGED vars
Spec == Init /\ [][Next]_vars
Commutes == NegaMul(a, b) = NegaMul(b, a)
Distributes == NegaMul(a, AddVec(b, c)) = AddVec(NegaMul(a, b), NegaMul(a, c))
ShiftOK == LET s == NegaMul(a, Monomial(N, alpha))
               k == (alpha % N)
           IN \A i \in 1..N : s[i] = (LET src == ((((i - 1 - k) % N) + N) % N) + 1
                                           wrapped == (i - 1) < k
                                           sg == (IF alpha >= N THEN -1 ELSE 1) * (IF wrapped THEN -1 ELSE 1)
                                       IN sg * a[src])
XaOK == NegaMul(a, XaMinusOne(N, alpha)) = [i \in 1..N |-> NegaMul(a, Monomial(N, alpha))[i] - a[i]]
\* the test polynomial F of a table tbl over k = -N/2..N/2 (transcription of InitTestPolynomial):
\*   F[i] = tbl(-i) for 0 <= i <= N/2,  F[i] = -tbl(N - i) for N/2 < i < N; the rotation by phase k returns the
\*   constant coefficient of F * X^k (k in -N..N-1), which must be Wrap(tbl, N, k)
Tbl == [j \in 1..(N + 1) |-> a[((j - 1) % N) + 1] + (2 * (j \div (N + 1)))]
F == [i \in 1..N |-> IF i - 1 <= N \div 2 THEN Tbl[-(i - 1) + N \div 2 + 1] ELSE -Tbl[(N - (i - 1)) + N \div 2 + 1]]
Coeff0(k) == LET kk == ((k % (2 * N)) + (2 * N)) % (2 * N) IN NegaMul(F, Monomial(N, kk))[1]
\* the constant coefficient of X^k * F is the table entry at k for every k of the interval, and wraps outside
TableOK == \A k \in (-(N \div 2))..(N \div 2 - 1) : Coeff0(k) = Wrap(Tbl, N, k)
WrapOK == \A k \in ((N \div 2)..(N - 1)) \cup ((-N)..(-(N \div 2) - 1)) : Coeff0(k) = Wrap(Tbl, N, k)
=============================================================================
