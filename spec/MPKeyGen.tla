------------------------------ MODULE MPKeyGen ------------------------------
(***************************************************************************)
(* Collective key generation (multiparty: public key, relinearisation key  *)
(* in two rounds, Galois key, generic evaluation key) at the level of      *)
(* shares.                                                                 *)
(*                                                                         *)
(* A share is abstractly the set of parties whose contribution it contains *)
(* together with the parameters it was generated for (protocol, round,     *)
(* Galois element, evaluation-key parameterisation).  GenShare(i) yields   *)
(* {i}; Aggregate(a, b) yields the union when the tags agree and must be   *)
(* refused when they do not; a trip through serialisation is the identity. *)
(* Because aggregation is an exact sum, the aggregate is a function of the *)
(* member set alone (OrderIndependent): the specification remembers the    *)
(* digest first seen for each (tag, member set) and every later aggregate  *)
(* of the same members must show the same digest.  The key finalised from  *)
(* the share of all parties must work as a key of the ideal secret         *)
(* sum(sk_i) with noise at most log2(N) + slack bits above the single-     *)
(* party bound.                                                            *)
(***************************************************************************)
EXTENDS Integers, Sequences, FiniteSets

CONSTANTS Party,        \* set of parties, e.g. 1..N
          MaxShares     \* bound on share identifiers in one run

VARIABLES shares,   \* id -> [members, tag]    (function on the ids allocated so far)
          seen,     \* set of [tag, members, dig]: digests observed
          final     \* whether a key was finalised from the full share

mvars == <<shares, seen, final>>

Ids == 1..MaxShares
MInit == shares = [i \in {} |-> 0] /\ seen = {} /\ final = FALSE

Fresh(id) == id \in Ids /\ id \notin DOMAIN shares
Put(id, s) == [x \in DOMAIN shares \cup {id} |-> IF x = id THEN s ELSE shares[x]]

\* the digest of a share is a function of (tag, members)
DigestOK(tag, members, dig) == \A r \in seen : (r.tag = tag /\ r.members = members) => r.dig = dig
Note(tag, members, dig) == seen' = seen \cup {[tag |-> tag, members |-> members, dig |-> dig]}

GenShare(i, id, tag, dig) ==
    /\ i \in Party /\ Fresh(id)
    /\ DigestOK(tag, {i}, dig) /\ Note(tag, {i}, dig)
    /\ shares' = Put(id, [members |-> {i}, tag |-> tag])
    /\ UNCHANGED final

\* aggregation of two shares: refused iff the tags differ; members must be disjoint (a party contributes once)
Aggregate(a, b, out, err, dig) ==
    /\ a \in DOMAIN shares /\ b \in DOMAIN shares /\ (Fresh(out) \/ out \in {a, b})
    /\ shares[a].members \cap shares[b].members = {}
    /\ err = (shares[a].tag # shares[b].tag)
    /\ IF err THEN UNCHANGED <<shares, seen>>
       ELSE LET mem == shares[a].members \cup shares[b].members IN
            /\ DigestOK(shares[a].tag, mem, dig) /\ Note(shares[a].tag, mem, dig)
            /\ shares' = Put(out, [members |-> mem, tag |-> shares[a].tag])
    /\ UNCHANGED final

\* serialise + deserialise: identity on the abstract share, and on its digest
Wire(a, out, dig) ==
    /\ a \in DOMAIN shares /\ Fresh(out)
    /\ DigestOK(shares[a].tag, shares[a].members, dig)
    /\ shares' = Put(out, shares[a])
    /\ UNCHANGED <<seen, final>>

\* the key: only from the share of everybody; it must work and its noise is bounded
Finalize(a, works, noiseBits, boundBits) ==
    /\ a \in DOMAIN shares /\ shares[a].members = Party
    /\ works /\ noiseBits <= boundBits
    /\ final' = TRUE
    /\ UNCHANGED <<shares, seen>>

NewRun == shares' = [i \in {} |-> 0] /\ seen' = {} /\ final' = FALSE

\* design invariants
NoDoubleCount == \A id \in DOMAIN shares : shares[id].members \subseteq Party /\ shares[id].members # {}
Functional == \A r1, r2 \in seen : (r1.tag = r2.tag /\ r1.members = r2.members) => r1.dig = r2.dig
=============================================================================
