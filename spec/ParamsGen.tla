----------------------------- MODULE ParamsGen -----------------------------
(* Emits every well-formed feature vector with at most MaxDev deviations from the default literal, together   *)
(* with the outcome the specification requires.                                                              *)
EXTENDS Params, Json
CONSTANT MaxDev
VARIABLE v
Init == v \in {x \in Vectors : WellFormed(x) /\ Deviations(x) <= MaxDev}
Next == UNCHANGED v
GSpec == Init /\ [][Next]_v
Emit == PrintT(<<"PROG", ToJson([v |-> v, req |-> Required(v)])>>)
\* sanity of the specification itself
Consistent == (Required(v) = "accept") => ~Rejecting(v) /\ ~Open(v)
=============================================================================
