------------------------------- MODULE Stream -------------------------------
(***************************************************************************)
(* Serialisation contract of every lattigo object offering                 *)
(* BinarySize / WriteTo / ReadFrom / MarshalBinary / UnmarshalBinary.      *)
(*                                                                         *)
(* The wire is a sequence of segments, one per written object.  A segment  *)
(* remembers which object produced it, its length and a digest of its      *)
(* bytes.  Objects are identified by (type, variant).                      *)
(*                                                                         *)
(*   Write(o, entry): appends exactly BinarySize(o) bytes, returns that    *)
(*     number, and the bytes are the same through every entry point.       *)
(*   Read(entry, prior, chunking): the next segment is decoded into a      *)
(*     receiver that previously held `prior`; the value equals the written *)
(*     object whatever prior and chunking were; the call reports the       *)
(*     segment's length and (on a shared buffered reader) consumes exactly *)
(*     that many bytes, so that the following objects can be read.         *)
(*   Faults (truncation, corruption of a header field, failing writer):    *)
(*     the call returns an error -- no panic, no success, bounded memory.  *)
(***************************************************************************)
EXTENDS Integers, Sequences, FiniteSets

CONSTANTS Objs,         \* set of object ids (records [t, v])
          WEntries,     \* writing entry points
          REntries,     \* reading entry points
          Priors, Chunks,
          MaxWire,      \* bound on the number of segments of one stream
          AllocBoundMB  \* memory a failing read may allocate

VARIABLES wire,    \* sequence of segments [obj, len, dig]
          rpos,    \* number of segments already read back
          known,   \* obj -> [len, dig] as first observed in this scenario (function on a subset of Objs)
          bytesW, bytesR   \* bytes written / consumed so far

svars == <<wire, rpos, known, bytesW, bytesR>>

SInit == wire = <<>> /\ rpos = 0 /\ known = [o \in {} |-> 0] /\ bytesW = 0 /\ bytesR = 0

\* a successful write of object o: size announced = bytes produced = n returned; same bytes as any earlier write of o
Write(o, entry, size, n, len, dig) ==
    /\ entry \in WEntries /\ Len(wire) < MaxWire
    /\ size = len /\ n = len /\ len > 0
    /\ (o \in DOMAIN known => known[o] = [len |-> len, dig |-> dig])
    /\ known' = [x \in DOMAIN known \cup {o} |-> IF x = o THEN [len |-> len, dig |-> dig] ELSE known[x]]
    /\ wire' = Append(wire, [obj |-> o, len |-> len, dig |-> dig])
    /\ bytesW' = bytesW + len
    /\ UNCHANGED <<rpos, bytesR>>

\* a successful read of the next segment; consumed = -1 when the entry point wraps the stream
\* in its own buffer (plain io.Reader: only the returned count is constrained)
Read(o, entry, prior, chunk, n, consumed, equal) ==
    /\ entry \in REntries /\ prior \in Priors /\ chunk \in Chunks
    /\ rpos < Len(wire)
    /\ wire[rpos + 1].obj = o
    /\ equal
    /\ n = wire[rpos + 1].len
    /\ (consumed = -1 \/ consumed = wire[rpos + 1].len)
    /\ rpos' = rpos + 1
    /\ bytesR' = bytesR + wire[rpos + 1].len
    /\ UNCHANGED <<wire, known, bytesW>>

\* outcome of a call on damaged input / failing output
FailClean(err, panicked, allocMB) == err /\ ~panicked /\ allocMB <= AllocBoundMB

NewScenario == wire' = <<>> /\ rpos' = 0 /\ known' = [o \in {} |-> 0] /\ bytesW' = 0 /\ bytesR' = 0

\* design invariants
Composable == rpos <= Len(wire) /\ bytesR <= bytesW
PrefixRead == bytesR = IF rpos = 0 THEN 0 ELSE
                 LET RECURSIVE S(_) S(i) == IF i = 0 THEN 0 ELSE wire[i].len + S(i - 1) IN S(rpos)
=============================================================================
