----------------------------- MODULE PipelineGen -----------------------------
(* Emits every behaviour of Pipeline of exactly MaxSteps steps that ends in a state worth observing (something   *)
(* travelled over the stream or switched key or was multiplied).                                                *)
EXTENDS Pipeline, Json
Interesting == \E i \in 1..Len(hist) : hist[i].op \in {"read", "switch", "wirekeys", "refresh"}
Emit == (Len(hist) < MaxSteps \/ ~Interesting) \/ PrintT(<<"PROG", ToJson(hist)>>)
=============================================================================
