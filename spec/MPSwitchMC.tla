----------------------------- MODULE MPSwitchMC -----------------------------
(* The protocol algebra on scalars of Z_Q: every choice of secrets, masks, errors and reference value from   *)
(* small pools, for 1..MaxN parties.                                                                         *)
EXTENDS Integers, FiniteSets, Sequences, TLC
CONSTANTS Q, MaxN, Pool, ErrPool, MsgPool
VARIABLES n, s, sp, M, er, c1, a, m, e0
vars == <<n, s, sp, M, er, c1, a, m, e0>>
Mod(x) == x % Q
RECURSIVE Sum(_, _)
Sum(f, k) == IF k = 0 THEN 0 ELSE f[k] + Sum(f, k - 1)
Init == /\ n \in 1..MaxN
        /\ s \in [1..MaxN -> Pool] /\ sp \in [1..MaxN -> Pool] /\ M \in [1..MaxN -> Pool] /\ er \in [1..MaxN -> ErrPool]
        /\ c1 \in Pool /\ a \in Pool /\ m \in MsgPool /\ e0 \in ErrPool
Next == UNCHANGED vars
Spec == Init /\ [][Next]_vars
S  == Sum(s, n)
SP == Sum(sp, n)
c0 == Mod(m + e0 - c1 * S)
KSShare(i) == Mod(c1 * (s[i] - sp[i]) + er[i])
KSOut0 == Mod(c0 + Sum([i \in 1..MaxN |-> KSShare(i)], n))
KSCorrect == Mod(KSOut0 + c1 * SP) = Mod(m + e0 + Sum(er, n))
E2SPub(i) == Mod(c1 * s[i] + er[i] - M[i])
Additive(i) == IF i = 1 THEN Mod(M[1] + c0 + Sum([j \in 1..MaxN |-> E2SPub(j)], n)) ELSE M[i]
E2SCorrect == Mod(Sum([i \in 1..MaxN |-> Additive(i)], n)) = Mod(m + e0 + Sum(er, n))
S2EShare(i) == Mod(er[i] + Additive(i) - a * s[i])
RoundTrip == Mod(Mod(Sum([i \in 1..MaxN |-> S2EShare(i)], n)) + a * S) = Mod(m + e0 + 2 * Sum(er, n))
=============================================================================
