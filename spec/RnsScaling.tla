----------------------------- MODULE RnsScaling -----------------------------
(***************************************************************************)
(* Integer meaning of lattigo's RNS scaling layer (ring/scaling.go,        *)
(* ring/basis_extension.go, ringqp.ExtendBasisSmallNormAndCenter).         *)
(* A polynomial coefficient is an integer x given by its residues; each    *)
(* operation is specified on that integer:                                 *)
(*   DivFloor_k   floor division by the last k moduli, one after the other *)
(*   DivRound_k   rounded (half up) division: floor((x + (q-1)/2) / q)     *)
(*   ModUp        the centred value v of x mod A is re-expressed modulo B: *)
(*                result == v + e*A with e in {-1,0,1}, e = 0 if 4|v| < A  *)
(*   ModDownQPtoQ round(x / P) up to +-1, modulo Q                         *)
(*   ModDownQPtoP x / Q up to +-1, modulo P (documented as floored)        *)
(*   ExtendSmall  a small centred value has the same centred value in P    *)
(* Toy instances use TLC integers (QP < 2^31); real-size instances are     *)
(* checked through BigNat inequalities on reconstructed integers.          *)
(***************************************************************************)
EXTENDS Integers, Sequences, FiniteSets, BigNat

RECURSIVE Prod(_)
Prod(s) == IF Len(s) = 0 THEN 1 ELSE Head(s) * Prod(Tail(s))

DivRound1(x, q) == (x + (q - 1) \div 2) \div q
DivFloor1(x, q) == x \div q

\* divide by the last k moduli of the chain qs, one after the other
RECURSIVE DivMany(_, _, _, _)
DivMany(x, qs, k, rounded) ==
    IF k = 0 THEN x
    ELSE LET q == qs[Len(qs)] IN
         DivMany(IF rounded THEN DivRound1(x, q) ELSE DivFloor1(x, q), SubSeq(qs, 1, Len(qs) - 1), k - 1, rounded)

Centered(x, m) == IF 2 * (x % m) > m THEN (x % m) - m ELSE x % m        \* representative in (-m/2, m/2]
Abs(v) == IF v < 0 THEN -v ELSE v

\* out (residues modulo the moduli bs) extends the centred value of x mod A
ModUpOK(x, A, bs, out) ==
    LET v == Centered(x, A) IN
    \E e \in {-1, 0, 1} :
        /\ (4 * Abs(v) < A => e = 0)
        /\ \A j \in 1..Len(bs) : out[j] \in 0..(2 * bs[j] - 1) /\ out[j] % bs[j] = (v + e * A) % bs[j]
           \* (the output range of ModUpQtoP / ModUpPtoQ is not documented; the kernels return lazily reduced values)

\* out == round(x / P) +- 1 modulo every q_i
ModDownOK(x, P, qs, out) ==
    LET y0 == (2 * x + P) \div (2 * P) IN          \* round(x/P) for x >= 0
    \E d \in {-1, 0, 1} : \A i \in 1..Len(qs) : out[i] \in 0..(qs[i] - 1) /\ out[i] = (y0 + d) % qs[i]

\* out == floor(x / Q) +- 1 modulo every p_j
ModDownQPtoPOK(x, Q, ps, out) ==
    LET y0 == x \div Q IN
    \E d \in {-1, 0, 1} : \A j \in 1..Len(ps) : out[j] \in 0..(ps[j] - 1) /\ out[j] = (y0 + d) % ps[j]

\* same centred value in the target basis
ExtendSmallOK(v, bs, out) == \A j \in 1..Len(bs) : out[j] = v % bs[j]

\* ---- RNS gadget decomposition (ring.Decomposer.DecomposeAndSplit): digit i of x is the centred representative of x modulo
\* the i-th group of alpha consecutive primes of Q, written on every modulus of Q and of P. Hence the digits recombine to x
\* against the gadget vector (Chinese remainders) and each is bounded by (half) its digit modulus.
Group(qs, alpha, i) == {j \in 1..Len(qs) : j > i * alpha /\ j <= (i + 1) * alpha}
GroupMod(qs, alpha, i) == Prod([k \in 1..Cardinality(Group(qs, alpha, i)) |-> qs[i * alpha + k]])
\* the (at most two) candidates for the centred representative given one residue: r and r - G; the digit is the one that
\* matches all the residues written, and its absolute value is at most (G + 1) / 2
DigitOK(qs, ps, alpha, i, xres, dqres, dpres) ==
    LET G == GroupMod(qs, alpha, i)
        grp == Group(qs, alpha, i)
        consistent(v) == /\ \A j \in 1..Len(qs) : dqres[j] = v % qs[j]
                         /\ \A j \in 1..Len(ps) : dpres[j] = v % ps[j]
                         /\ \A j \in grp : v % qs[j] = xres[j]
                         /\ 2 * Abs(v) <= G + 1
        q1 == qs[i * alpha + 1]                 \* candidates: the integers of the range congruent to x modulo the first prime of the group
    IN \E k \in (0 - (G \div q1) - 1)..(G \div q1 + 1) : consistent(xres[i * alpha + 1] + k * q1)
=============================================================================
