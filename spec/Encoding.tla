------------------------------ MODULE Encoding ------------------------------
(***************************************************************************)
(* Encoder / decoder contracts (schemes/bgv/encoder.go, schemes/ckks/       *)
(* encoder.go).                                                            *)
(* Integer scheme: a vector of len <= n integers, encoded (batched or      *)
(* coefficient-wise) at any level with any scale that is a unit of Z_t,    *)
(* decodes to the same residues modulo t; positions beyond len decode to   *)
(* 0; signed outputs are the representative of absolute value <= (t+1)/2;  *)
(* the product of two encodings decodes to the slot-wise product.          *)
(* Approximate scheme: values are dyadic rationals given in units of 2^-20 *)
(* (so that the model is exact); decoding returns them within              *)
(*   2^(lgN + 1 - lgScale) + |v| * 2^(4 - prec)                            *)
(* and public decoding returns multiples of 2^-logprec within that         *)
(* distance plus half a step.                                              *)
(***************************************************************************)
EXTENDS Integers, Sequences, FiniteSets

Abs(x) == IF x < 0 THEN -x ELSE x
RECURSIVE Pow2(_)
Pow2(k) == IF k <= 0 THEN 1 ELSE 2 * Pow2(k - 1)

\* ---- integer scheme
\* inres: residues of the inputs (length len); out: n decoded values
IntRoundTrip(t, n, inres, out, signed) ==
    /\ Len(out) = n /\ Len(inres) <= n
    /\ \A i \in 1..n :
         LET want == IF i <= Len(inres) THEN inres[i] % t ELSE 0 IN
         /\ out[i] % t = want
         /\ IF signed THEN 2 * Abs(out[i]) <= t + 1 ELSE out[i] \in 0..(t - 1)

IntProduct(t, a, b, out) == \A i \in 1..Len(out) : out[i] % t = ((a[i] % t) * (b[i] % t)) % t

\* ---- approximate scheme (units of 2^-20)
\* tolerance in units for a value of magnitude |v| (units), scale 2^lgScale, ring degree 2^lgN, working precision prec bits
Min2(a, b) == IF a <= b THEN a ELSE b
Tol(v, lgScale, lgN, prec) == Pow2(20 + lgN + 1 - lgScale) + Abs(v) \div Pow2(Min2(prec - 4, 30)) + 1

ApproxRoundTrip(vals, out, lgScale, lgN, prec) ==
    /\ Len(out) = Len(vals)
    /\ \A i \in 1..Len(vals) :
         /\ Abs(out[i][1] - vals[i][1]) <= Tol(vals[i][1], lgScale, lgN, prec)
         /\ Abs(out[i][2] - vals[i][2]) <= Tol(vals[i][2], lgScale, lgN, prec)

\* quantisation of a single slot (values in units of 2^-20, scale 2^lgScale <= 2^20): the two coefficients of the plaintext
\* polynomial are the real and the imaginary part times the scale, rounded to an integer: off by at most half a unit
QuantOK(re, im, lgScale, c0, c1) ==
    /\ 2 * Abs(c0 * Pow2(20 - lgScale) - re) <= Pow2(20 - lgScale)
    /\ 2 * Abs(c1 * Pow2(20 - lgScale) - im) <= Pow2(20 - lgScale)

\* public decoding with logprec <= 20: every part is a multiple of 2^-logprec and within tolerance + half a step
PublicRoundTrip(vals, out, lgScale, lgN, prec, logprec) ==
    /\ Len(out) = Len(vals)
    /\ \A i \in 1..Len(vals) : \A c \in 1..2 :
         /\ out[i][c] % Pow2(20 - logprec) = 0
         /\ Abs(out[i][c] - vals[i][c]) <= Tol(vals[i][c], lgScale, lgN, prec) + Pow2(20 - logprec - 1)

\* the product of two encodings (values in sixteenths) decodes to the slot-wise complex product (in 1/256), within 2 units
ApproxProduct(a, b, out) ==
    /\ Len(out) = Len(a)
    /\ \A i \in 1..Len(a) :
         /\ Abs(out[i][1] - (a[i][1] * b[i][1] - a[i][2] * b[i][2])) <= 2
         /\ Abs(out[i][2] - (a[i][1] * b[i][2] + a[i][2] * b[i][1])) <= 2
\* the special FFT and its inverse are mutual inverses (units of 2^-20; float64 or 128-bit arithmetic on at most 2^12 points)
FFTRoundTrip(vals, out) ==
    /\ Len(out) = Len(vals)
    /\ \A i \in 1..Len(vals) : Abs(out[i][1] - vals[i][1]) <= 2 /\ Abs(out[i][2] - vals[i][2]) <= 2
=============================================================================
