---------------------------- MODULE ParamsTrace ----------------------------
(* Validates what the real constructors, GenModuli, codecs and exported parameter sets did against Params.   *)
EXTENDS Params, Json, BigNat
Trace == ndJsonDeserialize("trace.ndjson")
VARIABLE l
Ev == Trace[l]
TrLit == Ev.ev = "lit" /\ Ev.v \in Vectors /\ WellFormed(Ev.v) /\ OutcomeOK(Ev.v, Ev.outcome, Ev.sound) /\ Ev.litok    \* and the literal (the tables its slices are cut from) is left as it was
TrGen == Ev.ev = "gen" /\ ~Ev.panic /\ GenOK(Ev)
TrTrip == Ev.ev = "trip" /\ ~Ev.panic /\ ~Ev.err /\ Ev.equal
TrSec == Ev.ev = "sec" /\ ~Ev.panic /\ ~Ev.err /\ SecOK(Ev)
TrDerived == Ev.ev = "derived" /\ DerivedOK(Ev)
\* lazy-accumulation margin of a chain: m = floor(2^64 / max(moduli)), i.e. m * max <= 2^64 < (m + 1) * max
TwoTo64 == <<0, 0, 0, 0, 0, 16>>
MarginOK(e) == \E i \in 1..Len(e.mods) :
                  /\ \A j \in 1..Len(e.mods) : ~BNLess(e.mods[i], e.mods[j])
                  /\ ~BNLess(TwoTo64, BNMul(e.m, e.mods[i]))
                  /\ BNLess(TwoTo64, BNMul(BNAdd(e.m, <<1>>), e.mods[i]))
TrMargin == Ev.ev = "margin" /\ MarginOK(Ev)
TrReset == Ev.ev = "reset"
TraceNext == l <= Len(Trace) /\ l' = l + 1 /\ (TrLit \/ TrGen \/ TrTrip \/ TrSec \/ TrDerived \/ TrMargin \/ TrReset)
TraceInit == l = 1 /\ TLCSet(1, 1)
TraceSpec == TraceInit /\ [][TraceNext]_l
Progress == TLCSet(1, IF TLCGet(1) > l THEN TLCGet(1) ELSE l)
TraceAccepted ==
    LET n == TLCGet(1) - 1 IN
    IF n = Len(Trace) THEN TRUE ELSE PrintT(<<"TRACE_REJECTED_AT", n + 1>>) /\ FALSE
=============================================================================
