------------------------------- MODULE BigNat -------------------------------
(***************************************************************************)
(* Natural numbers beyond TLC's 32-bit integers: little-endian sequences   *)
(* of limbs in base 2^12.  Only what certificates need: addition,          *)
(* multiplication, comparison.  No division: congruences are checked with  *)
(* witnesses (x + w1*q = y + w2*q), which need not be trusted.             *)
(***************************************************************************)
EXTENDS Integers, Sequences

Base == 4096

BN0 == <<>>

RECURSIVE BNNorm(_)
BNNorm(x) == IF Len(x) > 0 /\ x[Len(x)] = 0 THEN BNNorm(SubSeq(x, 1, Len(x) - 1)) ELSE x

BNIsNat(x) == \A i \in 1..Len(x) : x[i] \in 0..(Base - 1)

Limb(x, i) == IF i <= Len(x) THEN x[i] ELSE 0

RECURSIVE BNAddC(_, _, _, _)
BNAddC(x, y, i, c) ==
    IF i > Len(x) /\ i > Len(y) THEN (IF c = 0 THEN <<>> ELSE <<c>>)
    ELSE LET t == Limb(x, i) + Limb(y, i) + c IN <<t % Base>> \o BNAddC(x, y, i + 1, t \div Base)
BNAdd(x, y) == BNNorm(BNAddC(x, y, 1, 0))

RECURSIVE BNMulLimbC(_, _, _, _)
BNMulLimbC(x, d, i, c) ==
    IF i > Len(x) THEN (IF c = 0 THEN <<>> ELSE <<c % Base>> \o (IF c \div Base = 0 THEN <<>> ELSE <<c \div Base>>))
    ELSE LET t == x[i] * d + c IN <<t % Base>> \o BNMulLimbC(x, d, i + 1, t \div Base)

RECURSIVE BNMulAcc(_, _, _)
BNMulAcc(x, y, j) ==      \* sum over limbs y[j..] of x * y[j] * Base^(j-1)
    IF j > Len(y) THEN <<>>
    ELSE BNAdd([k \in 1..(j - 1) |-> 0] \o BNMulLimbC(x, y[j], 1, 0), BNMulAcc(x, y, j + 1))
BNMul(x, y) == BNNorm(BNMulAcc(x, y, 1))

RECURSIVE BNCmpAt(_, _, _)
BNCmpAt(x, y, i) == IF i = 0 THEN 0 ELSE IF x[i] < y[i] THEN -1 ELSE IF x[i] > y[i] THEN 1 ELSE BNCmpAt(x, y, i - 1)
BNCmp(a, b) == LET x == BNNorm(a)
                   y == BNNorm(b)
               IN IF Len(x) < Len(y) THEN -1 ELSE IF Len(x) > Len(y) THEN 1 ELSE BNCmpAt(x, y, Len(x))
BNLess(a, b) == BNCmp(a, b) = -1
BNEq(a, b)   == BNNorm(a) = BNNorm(b)

\* x - y for x >= y (borrow chain); undefined (an error) otherwise
RECURSIVE BNSubB(_, _, _, _)
BNSubB(x, y, i, b) ==
    IF i > Len(x) THEN <<>>
    ELSE LET t == x[i] - Limb(y, i) - b IN
         IF t < 0 THEN <<t + Base>> \o BNSubB(x, y, i + 1, 1) ELSE <<t>> \o BNSubB(x, y, i + 1, 0)
BNSub(x, y) == BNNorm(BNSubB(BNNorm(x), BNNorm(y), 1, 0))

RECURSIVE BNFromInt(_)
BNFromInt(n) == IF n = 0 THEN <<>> ELSE <<n % Base>> \o BNFromInt(n \div Base)

RECURSIVE BNProd(_)      \* product of a sequence of big naturals
BNProd(fs) == IF Len(fs) = 0 THEN <<1>> ELSE BNMul(Head(fs), BNProd(Tail(fs)))
RECURSIVE BNSum(_)
BNSum(ts) == IF Len(ts) = 0 THEN <<>> ELSE BNAdd(Head(ts), BNSum(Tail(ts)))

Two64 == <<0, 0, 0, 0, 0, 16>>     \* 2^64 = 16 * 4096^5
=============================================================================
