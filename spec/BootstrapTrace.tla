--------------------------- MODULE BootstrapTrace ---------------------------
EXTENDS Integers, Sequences, FiniteSets, TLC, Json
Trace == ndJsonDeserialize("trace.ndjson")
VARIABLES l, p, last
tvars == <<l, p, last>>
Ev == Trace[l]
ParamsOK(e) ==
  /\ e.btpmax - e.dc2s - e.dem - e.ds2c = e.resmax + e.reserved
  /\ e.depth = e.btpmax - e.resmax
  /\ e.outlevel = e.resmax
  /\ e.dc2s >= 1 /\ e.dem >= 1 /\ e.ds2c >= 1
StageLevel(q, name, prev) ==
  CASE name = "scaledown" -> 0
    [] name = "modup"     -> q.btpmax
    [] name = "c2s"       -> prev - q.dc2s
    [] name = "evalmod"   -> prev - q.dem
    [] name = "s2c"       -> prev - q.ds2c
ToSet(s) == {s[i] : i \in 1..Len(s)}
KeysOK(e) ==
  /\ ~e.panic /\ ~e.err
  /\ e.hasrlk
  /\ ToSet(e.provgal) = ToSet(e.advgal)
  /\ ToSet(e.reqgal) \subseteq ToSet(e.provgal)
  /\ (e.fullrun => ToSet(e.provgal) \subseteq ToSet(e.reqgal))
  /\ (e.ephemeral > 0) = e.hasd2s /\ e.hasd2s = e.hass2d
  /\ (e.hasd2s => e.d2slq = 0 /\ e.d2slp = 0)
  /\ (e.hass2d => e.s2dlq = e.btpmax)
  /\ (e.n1 # e.n2 /\ ~e.ci) = (e.hasn1n2 /\ e.hasn2n1)
  /\ e.ci = (e.hasr2c /\ e.hasc2r)
BootOK(e) ==
  /\ ~e.panic /\ ~e.err
  /\ e.outlvl = e.resmax /\ e.scaleok
  /\ e.precbits >= e.logscale - e.logn - 12
  /\ e.precbits >= e.announced              \* iterated mode: the sum of the announced per-iteration precisions (minus 5 bits)

TrParams == Ev.ev = "params" /\ ~Ev.panic /\ ~Ev.err /\ ParamsOK(Ev) /\ p' = Ev /\ last' = -1
TrStage == /\ Ev.ev = "stage" /\ ~Ev.panic /\ ~Ev.err
           /\ Ev.lvl = StageLevel(p, Ev.name, last)
           /\ last' = Ev.lvl /\ UNCHANGED p
TrKeys == Ev.ev = "keys" /\ KeysOK(Ev) /\ UNCHANGED <<p, last>>
TrBoot == Ev.ev = "boot" /\ BootOK(Ev) /\ UNCHANGED <<p, last>>
\* the two homomorphic transforms are mutual inverses (precision floor as for a bootstrap)
TrDft == Ev.ev = "dftinv" /\ ~Ev.panic /\ ~Ev.err /\ Ev.precbits >= Ev.logscale - Ev.logn - 12 /\ UNCHANGED <<p, last>>
TrReset == Ev.ev = "reset" /\ UNCHANGED <<p, last>>
TraceNext == l <= Len(Trace) /\ l' = l + 1 /\ (TrParams \/ TrStage \/ TrKeys \/ TrBoot \/ TrDft \/ TrReset)
TraceInit == l = 1 /\ p = [btpmax |-> 0] /\ last = -1 /\ TLCSet(1, 1)
TraceSpec == TraceInit /\ [][TraceNext]_tvars
Progress == TLCSet(1, IF TLCGet(1) > l THEN TLCGet(1) ELSE l)
TraceAccepted ==
    LET n == TLCGet(1) - 1 IN
    IF n = Len(Trace) THEN TRUE ELSE PrintT(<<"TRACE_REJECTED_AT", n + 1>>) /\ FALSE
=============================================================================
