------------------------------ MODULE Threshold ------------------------------
(***************************************************************************)
(* t-out-of-N threshold secret sharing of an RLWE secret key (multiparty/  *)
(* threshold.go) over a toy prime field Z_q, coefficient-wise on vectors.  *)
(*                                                                         *)
(*  dealer i: Shamir polynomial P_i(X) = s_i + c_i1 X + ... + c_i(t-1)     *)
(*            X^(t-1) with vector coefficients; share for the party with   *)
(*            public point x_j:  P_i(x_j)                                  *)
(*  party j : aggregated share  S_j = sum_i P_i(x_j)  (any order)          *)
(*  any t active parties A: additive share of j in A                      *)
(*            S_j * prod_{l in A, l # j} x_l / (x_l - x_j)                 *)
(*  and these additive shares sum to sum_i s_i, whatever A (|A| = t) and   *)
(*  whatever the order in which A is listed; fewer than t is refused.      *)
(***************************************************************************)
EXTENDS Integers, Sequences, FiniteSets, BigNat

MulF(x, y, q) == ((x % q) * (y % q)) % q
RECURSIVE PowF(_, _, _)
PowF(x, e, q) == IF e = 0 THEN 1 % q
                 ELSE IF e % 2 = 0 THEN PowF(MulF(x, x, q), e \div 2, q)
                 ELSE MulF(x, PowF(MulF(x, x, q), e \div 2, q), q)
InvF(x, q) == PowF(x % q, q - 2, q)

\* value of the Shamir polynomial with coefficient vectors cs (sequence of vectors) at point x, coordinate w
EvalShamir(cs, x, w, q) ==
    LET RECURSIVE H(_)
        H(k) == IF k = 0 THEN 0 ELSE (MulF(H(k - 1), x, q) + cs[Len(cs) - k + 1][w]) % q
    IN H(Len(cs))

ShareVec(cs, x, n, q) == [w \in 1..n |-> EvalShamir(cs, x, w, q)]

\* Lagrange coefficient at 0 of the party with point xj among the points in the sequence act
Lagrange(act, xj, q) ==
    LET RECURSIVE P(_)
        P(k) == IF k = 0 THEN 1 % q
                ELSE IF act[k] = xj THEN P(k - 1)
                ELSE MulF(P(k - 1), MulF(act[k], InvF((act[k] - xj) % q, q), q), q)
    IN P(Len(act))

SumVecs(vs, n, q) ==       \* vs: sequence of vectors
    [w \in 1..n |-> LET RECURSIVE S(_) S(k) == IF k = 0 THEN 0 ELSE (S(k - 1) + vs[k][w]) % q IN S(Len(vs))]

ScaleVec(v, c, n, q) == [w \in 1..n |-> MulF(v[w], c, q)]
=============================================================================
