------------------------------ MODULE Composite ------------------------------
(***************************************************************************)
(* Composite circuits built on the polynomial evaluator (C13, last clause): *)
(* minimax composite polynomials p_k o ... o p_1 (sign, step), the extremum *)
(* gate (max, min) and the inverse (Goldschmidt division with interval      *)
(* normalisation and sign), driven with a bootstrapper that accepts levels  *)
(* >= minin and returns level maxlvl; lpr moduli are consumed per rescaling.*)
(*                                                                          *)
(* Two parts:                                                               *)
(*  - the LEVEL SCHEDULE of the circuits as a small machine, model-checked  *)
(*    (CompositeMC) for "no evaluation is ever starved of levels, the       *)
(*    result holds a message, the scale comes out exact"; the schedule also *)
(*    steers the generator (one configuration per distinct schedule) but is *)
(*    never an acceptance criterion for the code;                           *)
(*  - the CONTRACT of one recorded evaluation: no error on the stated       *)
(*    domain, a usable level, the announced scale, and the error inside the *)
(*    stated one (bits of agreement with the ideal function / with the      *)
(*    plaintext composite computed outside lattigo).                        *)
(***************************************************************************)
EXTENDS Integers, Sequences, FiniteSets

Min2(a, b) == IF a < b THEN a ELSE b
MaxOf(s) == IF Len(s) = 0 THEN 0 ELSE CHOOSE m \in {s[i] : i \in 1..Len(s)} : \A i \in 1..Len(s) : s[i] <= m

\* ---- minimax.Evaluator.Evaluate ------------------------------------------------------------------------------
\* admission: after a bootstrap every polynomial must fit
Admitted(depths, lpr, minin, maxlvl) == maxlvl >= MaxOf(depths) * lpr + minin
\* result: level after the last polynomial, levels at which a bootstrap was requested, lowest level a polynomial started from
\* in excess of its need (starve < 0 means an evaluation without enough levels)
RECURSIVE Sched(_, _, _, _, _, _, _, _)
Sched(depths, k, lvl, boots, slack, lpr, minin, maxlvl) ==
    IF k > Len(depths) THEN [lvl |-> lvl, boots |-> boots, slack |-> slack]
    ELSE LET need == depths[k] * lpr + minin
             doboot == lvl < need
             l0 == IF doboot THEN maxlvl ELSE lvl
         IN Sched(depths, k + 1, l0 - depths[k] * lpr, IF doboot THEN Append(boots, lvl) ELSE boots,
                  Min2(slack, l0 - need), lpr, minin, maxlvl)
Evaluate(depths, inlvl, lpr, minin, maxlvl) == Sched(depths, 1, inlvl, <<>>, 1000, lpr, minin, maxlvl)

\* ---- comparison.Evaluator.Max / Min: step(diff) * diff (+ op1) ------------------------------------------------
\* OldThresholds / OldRatio are the two defects found with this model and repaired in lattigo (see DESIGN 11.3);
\* they are kept as mutants: TLC must find the violation when they are switched on.
StepDiff(depths, inlvl, lpr, minin, maxlvl, OldThresholds, OldRatio) ==
    LET m == IF OldThresholds THEN 0 ELSE minin
        b0 == inlvl < 2 * lpr + m
        ld == IF b0 THEN maxlvl ELSE inlvl
        s == Sched(depths, 1, ld, IF b0 THEN <<inlvl>> ELSE <<>>, 1000, lpr, minin, maxlvl)
        b1 == s.lvl < lpr + m
        ls == IF b1 THEN maxlvl ELSE s.lvl
        ratiolvl == IF OldRatio THEN Min2(ld, ls) ELSE Min2(ld - lpr, ls)    \* moduli the scale of diff is set to
        prodlvl == Min2(ld - lpr, ls)                                       \* moduli the product is rescaled by
    IN [lvl |-> prodlvl - lpr, boots |-> IF b1 THEN Append(s.boots, s.lvl) ELSE s.boots, slack |-> s.slack,
        exact |-> ratiolvl = prodlvl]

\* a level holds a message iff the moduli up to it exceed the scale: with lpr moduli per rescaling, level >= lpr - 1
Usable(lvl, lpr) == lvl >= lpr - 1

\* ---- Goldschmidt division: a, b advance by one rescaling per iteration; bootstraps are requested when a level
\* EQUALS the bootstrapper's minimum or lpr - 1 (the code's rule). Returns the lowest level a product started from.
RECURSIVE Gold(_, _, _, _, _, _, _)
Gold(it, la, lb, low, lpr, minin, maxlvl) ==
    IF it = 0 THEN [lvl |-> la, low |-> low]
    ELSE LET hit(l) == l = minin \/ l = lpr - 1
             lb0 == IF hit(lb) THEN maxlvl ELSE lb
             la0 == IF hit(la) THEN maxlvl ELSE la
             lb1 == lb0 - lpr                      \* b = b * b, rescaled
             lb2 == IF hit(lb1) THEN maxlvl ELSE lb1
             lt == Min2(la0, lb2) - lpr            \* tmp = a * b, rescaled; a is brought to tmp's level
         IN Gold(it - 1, lt, lb2, Min2(low, Min2(lb0, Min2(la0, lb2))), lpr, minin, maxlvl)

\* ---- contract of one recorded evaluation ---------------------------------------------------------------------
\* floor of the scheme precision in bits (worst slot), as the repository's own tests compute it, with 10 bits of slack
Floor(e) == e.logscale - e.logn - 12
SignFamily == {"sign", "step", "max", "min"}
ContractOK(e) ==
    /\ ~e.err /\ ~e.panic
    /\ Usable(e.outlvl, e.lpr)
    /\ e.scaleok
    /\ IF e.circuit \in SignFamily
       THEN /\ e.precplain >= Floor(e)                                  \* the homomorphic result is the plaintext composite
            /\ e.precideal >= Min2(e.plainideal, Floor(e)) - 1          \* hence the ideal function up to the composite's stated error
       ELSE e.precideal >= Floor(e)                                     \* 1/x, relative
=============================================================================
