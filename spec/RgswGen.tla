------------------------------- MODULE RgswGen -------------------------------
(* Enumerates external-product configurations: parameter set (path), key decomposition, levels, in place or    *)
(* not, message and RGSW plaintext classes, RGSW-level operation.                                             *)
EXTENDS Integers, Sequences, TLC, Json
VARIABLE c
Sets == {"q28", "q28b4", "q55", "q2p1", "q2p1b20", "q2p2", "q3p2", "q28p1", "q28p1b0", "q28p2", "q2lowp1"}
Configs == [set : Sets, inplace : BOOLEAN, lowlevel : BOOLEAN, mcls : {"mono", "ternary", "const", "dense"},
            gcls : {"one", "mono", "negmono", "ternary", "const"}, gop : {"plain", "add", "mulxa", "mulxaadd"}]
Init == c \in {x \in Configs : (x.lowlevel => x.set \in {"q2p1", "q2p2", "q3p2", "q2lowp1"})}
Next == UNCHANGED c
GSpec == Init /\ [][Next]_c
Emit == PrintT(<<"PROG", ToJson(c)>>)
=============================================================================
