--------------------------- MODULE SamplerContract ---------------------------
(* Distribution contract of the samplers of package ring, as integer inequalities over the projection the *)
(* harness logs.  Used by SamplerTrace; the buffer / pointer design is in Sampler.                           *)
EXTENDS Integers, Sequences, FiniteSets, TLC

(* Contract of one call, on the projection the harness logs (all integers fit 32 bits).                       *)
(*  n     coefficients of the polynomial, rows: moduli written                                                 *)
(*  cons  every row holds the same centred integer vector (not demanded of uniform samples)                    *)
(*  nover coefficients outside the support (uniform: >= q_i; gaussian: |x| > floor(bound + 1/2); ternary: |x|>1)*)
(*  nnz, npos, nneg  non-zero / positive / negative coefficients                                              *)
CallOK(f, e) ==
  /\ e.nover = 0
  /\ (f.dist # "uniform" => e.cons)
  /\ (f.dist = "ternaryH" => e.nnz = (IF f.h < e.n THEN f.h ELSE e.n))
  /\ e.npos + e.nneg = e.nnz

Abs(x) == IF x < 0 THEN -x ELSE x
\* dev is the Hoeffding deviation for a 2^-62 two-sided tail over n Bernoulli trials: dev^2 >= 22 n (least such)
DevOK(dev, n) == dev * dev >= 22 * n /\ (dev - 1) * (dev - 1) < 22 * n
\* a count c out of n trials is compatible with probability num/4096 (num rounded, hence the +n slack)
CountOK(c, n, num, dev) == Abs(4096 * c - num * n) <= 4096 * dev + n
\* signs are balanced: |npos - nneg|^2 <= 88 (npos + nneg)   (guard against 32-bit overflow first)
SignsOK(npos, nneg) == Abs(npos - nneg) <= 3000 /\ (npos - nneg) * (npos - nneg) <= 88 * (npos + nneg) + 88

StatOK(f, e) ==
  /\ e.n <= 65536 /\ DevOK(e.dev, e.n)
  /\ CountOK(e.c1, e.n, f.p1, e.dev)
  /\ CountOK(e.c2, e.n, f.p2, e.dev)
  /\ (f.dist # "uniform" => SignsOK(e.npos, e.nneg))
=============================================================================
