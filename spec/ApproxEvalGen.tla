---------------------------- MODULE ApproxEvalGen ----------------------------
(* Program generator for ApproxEval (see IntEvalGen for the scheme): breadth-first from preset register   *)
(* files reached through real calls, and random walks with RandomElement.                                  *)
EXTENDS ApproxEval, Json

CONSTANTS Randomize, Depth, SimLen, Prefix, VecPool, ScalarPool, OpPool, KeyKinds, RotPool, PtScales, VecLens, LdPool

VARIABLE hist
gvars == <<reg, keys, hist>>

Pick(S) == IF Randomize THEN {RandomElement(S)} ELSE S

CtOps(n)  == {[k |-> "ct", r |-> r] : r \in Reg}
PtOps(n)  == {[k |-> "pt", v |-> x.v, fb |-> x.fb, ls |-> s, lvl |-> l] : x \in VecPool, s \in PtScales, l \in 0..L}
ScOps(n)  == {[k |-> "sc", re |-> x.re, im |-> x.im, fb |-> x.fb, ty |-> x.ty] : x \in ScalarPool}
VecOps(n) == {[k |-> "vec", v |-> x.v, fb |-> x.fb, ty |-> t, len |-> ln] : x \in VecPool, t \in {"c128", "f64", "bigfloat", "bigcomplex"}, ln \in VecLens}

RealVec(b) == b.k \in {"sc"} \/ \A i \in 1..Len(b.v) : TRUE

Operands(n) == IF Randomize
               THEN LET kind == RandomElement({"ct", "ctt", "pt", "sc", "vec"}) IN
                    CASE kind \in {"ct", "ctt"} -> {RandomElement(CtOps(n))}
                      [] kind = "pt"  -> {RandomElement(PtOps(n))}
                      [] kind = "sc"  -> {RandomElement(ScOps(n))}
                      [] kind = "vec" -> {RandomElement(VecOps(n))}
               ELSE CtOps(n) \cup PtOps(n) \cup ScOps(n) \cup VecOps(n)

\* real-typed operands carry no imaginary part
TypeFits(b) == CASE b.k = "vec" -> (b.ty \in {"f64", "bigfloat"} => \A i \in 1..NS : b.v[i][2] = 0)
                 [] b.k = "sc"  -> (b.ty \in {"f64", "int", "uint", "bigint", "bigfloat"} => b.im = 0) /\ (b.ty \in {"int", "uint", "bigint"} => b.fb = 0)
                 [] OTHER -> TRUE
RealFits(b) == Real => CASE b.k \in {"vec", "pt"} -> \A i \in 1..NS : b.v[i][2] = 0
                         [] b.k = "sc" -> b.im = 0
                         [] OTHER -> TRUE

GenCall ==
    \E op \in Pick(OpPool \cap (BinOps \cup UnOps)) : \E a \in Pick(Reg) : \E o \in Pick(Reg) : \E nw \in Pick(BOOLEAN) :
    \E k \in (IF op \in {"Rotate", "ScaleUp"} THEN Pick(RotPool) ELSE {0}) :
    \E b \in (IF op \in BinOps THEN Operands(Len(hist)) ELSE {[k |-> "none"]}) :
        LET st == [op |-> op, a |-> a, b |-> b, o |-> o, new |-> nw, k |-> IF op = "ScaleUp" THEN 1 + (k % 3) ELSE k] IN
        /\ TypeFits(b) /\ RealFits(b)
        \* the level of a rotation by 0 into a receiver below the input is left open (plain copy or minimum, see Call):
        \* programs whose continuation would depend on it are not generated
        /\ ((op = "Rotate" /\ k = 0 /\ ~nw /\ reg[o].ok) => reg[o].lvl >= reg[a].lvl)
        /\ (Callable(st) => LdSafe(st))
        /\ \E d \in 1..2 : \E e \in BOOLEAN : Call(st, [deg |-> d, err |-> e, lvl |-> 0 - 1]) /\ (e \/ d = CHOOSE x \in Res(st).degs : \A y \in Res(st).degs : x <= y)
        /\ InBounds'
        /\ hist' = Append(hist, st)

GenLoad ==
    \E o \in Pick(Reg) : \E x \in Pick(VecPool) : \E l \in Pick(0..L) :
        /\ (Real => \A i \in 1..NS : x.v[i][2] = 0)
        /\ \E d \in Pick(LdPool) :
             /\ Load(o, [i \in Slot |-> x.v[i]], x.fb, LDelta, l, d)
             /\ InBounds'
             /\ hist' = Append(hist, [op |-> "Load", o |-> o, v |-> x.v, fb |-> x.fb, ls |-> LDelta, lvl |-> l, ld |-> d])

GenDrop == /\ "DropLevel" \in OpPool
           /\ \E a \in Pick(Reg) : \E k \in Pick(1..2) :
                /\ DropLevel(a, k) /\ InBounds'
                /\ hist' = Append(hist, [op |-> "DropLevel", a |-> a, k |-> k])

GenSetScale == /\ "SetScale" \in OpPool
               /\ \E a \in Pick(Reg) : \E k \in Pick(0..2) :
                    /\ SetScale(a, k, FALSE) /\ InBounds'
                    /\ hist' = Append(hist, [op |-> "SetScale", a |-> a, k |-> k])

GenReset == \E ks \in Pick(KeyKinds) : Reset(ks) /\ hist' = Append(hist, [op |-> "Reset", keys |-> ks])

PrefixStep(st) ==
    /\ CASE st.op = "Reset" -> Reset(st.keys)
         [] st.op = "Load"  -> Load(st.o, [i \in Slot |-> st.v[i]], st.fb, st.ls, st.lvl, st.ld)
         [] st.op = "DropLevel" -> DropLevel(st.a, st.k)
         [] st.op = "SetScale" -> SetScale(st.a, st.k, FALSE)
         [] OTHER -> \E d \in 1..2 : Call(st, [deg |-> d, err |-> FALSE, lvl |-> 0 - 1]) /\ d = CHOOSE x \in Res(st).degs : \A y \in Res(st).degs : x <= y
    /\ hist' = Append(hist, st)

GenNext ==
    \/ /\ Len(hist) < Len(Prefix) /\ PrefixStep(Prefix[Len(hist) + 1])
    \/ /\ Prefix = <<>> /\ Len(hist) = 0 /\ GenReset
    \/ /\ Prefix = <<>> /\ Len(hist) \in 1..NR
       /\ \E x \in Pick(VecPool) : \E l \in Pick(0..L) :
            /\ (Real => \A i \in 1..NS : x.v[i][2] = 0)
            /\ \E d \in Pick(LdPool) :
                 /\ Load(Len(hist), [i \in Slot |-> x.v[i]], x.fb, LDelta, l, d) /\ InBounds'
                 /\ hist' = Append(hist, [op |-> "Load", o |-> Len(hist), v |-> x.v, fb |-> x.fb, ls |-> LDelta, lvl |-> l, ld |-> d])
    \/ /\ Len(hist) >= (IF Prefix = <<>> THEN NR + 1 ELSE Len(Prefix)) /\ Len(hist) < Depth
       /\ (GenCall \/ GenCall \/ GenCall \/ GenLoad \/ GenDrop \/ GenSetScale)
    \/ /\ Randomize /\ UNCHANGED gvars

GenInit == Init /\ hist = <<>>
GenSpec == GenInit /\ [][GenNext]_gvars
Emit == IF Randomize
        THEN TLCGet("level") < SimLen \/ Len(hist) <= NR \/ PrintT(<<"PROG", ToJson(hist)>>)
        ELSE Len(hist) < Depth \/ PrintT(<<"PROG", ToJson(hist)>>)
=============================================================================
