----------------------------- MODULE PolyEvalGen -----------------------------
(* Enumerates the shapes of polynomial evaluations; the driver fills in coefficient values from its seed.          *)
EXTENDS PolyEval, TLC, Json
CONSTANTS Sets,        \* sequence of [name, maxlvl, cheb, invariant, vec (BOOLEAN: polynomial vectors apply, i.e. full packing)]
          MaxDeg, Parities, Modes, Scales
VARIABLES cfg, phase
Init == cfg = [x |-> 0] /\ phase = "start"
\* shapes worth running: the level is one of {too few by one, just enough, the documented depth, one more, maximum}; zeroed leading coefficient only
\* for deg >= 2; parity flags need a matching degree; polynomial vectors need full packing
Lvls(i, d, inv) == LET need == IF inv THEN 0 ELSE Depth(d) IN {need - 1, need, Depth(d), Depth(d) + 1, Sets[i].maxlvl} \cap 0..Sets[i].maxlvl
Pars(d) == {"gen"} \cup (IF d % 2 = 1 THEN {"odd"} ELSE IF d >= 2 THEN {"even"} ELSE {})
Cfgs == UNION {UNION {UNION {{[set |-> Sets[i].name, basis |-> b, deg |-> d, parity |-> par, mode |-> md, lvlin |-> lv, tscale |-> ts, lead0 |-> z, invariant |-> inv] :
                  b \in (IF Sets[i].cheb THEN {"mono", "cheb"} ELSE {"mono"}), par \in Pars(d) \cap Parities,
                  md \in (IF Sets[i].vec THEN Modes ELSE Modes \ {"vector"}),
                  lv \in Lvls(i, d, inv), ts \in Scales, z \in (IF d >= 2 THEN BOOLEAN ELSE {FALSE})} :
                  inv \in (IF Sets[i].invariant THEN BOOLEAN ELSE {FALSE})} : d \in 0..MaxDeg} : i \in 1..Len(Sets)}
Next == /\ phase = "start"
        /\ \E c \in Cfgs : cfg' = c
        /\ phase' = "done"
Spec == Init /\ [][Next]_<<cfg, phase>>
Emit == phase # "done" \/ PrintT(<<"PROG", ToJson(cfg)>>)
\* the dyadic evaluators agree with direct evaluation at integer points (x2 even)
SelfCheck == \A x \in -2..2 : MonoNum(<<1, 2, 3>>, 2 * x) = (1 + 2 * x + 3 * x * x) * 4
            /\ ChebNum(<<0, 0, 1>>, 2 * x) = (2 * x * x - 1) * 4 /\ ChebNum(<<0, 0, 0, 1>>, 1) = (0 - 8)   \* T_3(1/2) = -1
=============================================================================
