------------------------------- MODULE Params -------------------------------
(* Acceptance of parameter literals (rlwe / bgv / ckks NewParametersFromLiteral), generation of moduli      *)
(* from bit-size requests, encodings of parameter objects, derived quantities and the security table of     *)
(* the exported parameter sets.                                                                             *)
(*                                                                                                          *)
(* A literal is abstracted to a feature vector; Required(v) is the outcome the documentation demands:        *)
(*   "reject"  a documented requirement is violated: the constructor must return an error (never panic)      *)
(*   "accept"  every documented requirement holds: the constructor must succeed and the context must be      *)
(*             arithmetically sound                                                                          *)
(*   "open"    documentation and constants disagree (moduli of 61..63 bits: MaxModuliSize = 60, CheckModuli  *)
(*             admits more; a prime shared by Q and P): either outcome, but accept => sound                   *)
(* Sources: doc comments of rlwe.ParametersLiteral / NewParametersFromLiteral / NewParameters / CheckModuli /  *)
(* GenModuli, ring.NewRing*, bgv.NewParameters, ckks.NewParametersFromLiteral.                               *)
EXTENDS Integers, Sequences, FiniteSets, TLC

LogNClass == {"below", "min", "mid", "above"}       \* MinLogN-1, MinLogN, 10, MaxLogN+1
Src       == {"list", "log", "both", "none"}
QFault    == {"good", "composite", "nonntt", "halfntt", "dup", "shared", "bits61", "bits62", "bits63", "zero", "one", "two"}
PFault    == {"good", "composite", "nonntt", "halfntt", "dup", "bits62", "bits63", "bits64"}
LogFault  == {"good", "zero", "neg", "q61", "p62", "huge", "scarce"}
RingT     == {"std", "ci", "bad"}
Scheme    == {"rlwe", "bgv", "ckks"}
TClass    == {"good", "small", "zero", "dividesQ", "aboveQ0", "smallorder", "composite", "even"}   \* bgv plaintext modulus
SClass    == {"s0", "s45", "s128", "s129"}                                                           \* ckks LogDefaultScale

Default == [logn |-> "mid", qsrc |-> "list", psrc |-> "list", qf |-> "good", pf |-> "good", lf |-> "good",
            rt |-> "std", scheme |-> "rlwe", t |-> "good", s |-> "s45"]

Vectors == [logn : LogNClass, qsrc : Src, psrc : Src, qf : QFault, pf : PFault, lf : LogFault,
            rt : RingT, scheme : Scheme, t : TClass, s : SClass]

\* a fault is only expressible when the field that carries it is present
WellFormed(v) ==
  /\ (v.qf # "good" => v.qsrc \in {"list", "both"})
  /\ (v.pf # "good" => v.psrc \in {"list", "both"})
  /\ (v.qf = "shared" => v.psrc = "list" /\ v.pf = "good")
  /\ (v.lf # "good" => (v.qsrc \in {"log", "both"} \/ v.psrc \in {"log", "both"}))
  /\ (v.lf \in {"zero", "neg", "q61", "huge", "scarce"} => v.qsrc \in {"log", "both"})
  /\ (v.lf = "p62" => v.psrc \in {"log", "both"})
  /\ (v.scheme # "bgv" => v.t = "good")
  /\ (v.scheme # "ckks" => v.s = "s45")
  /\ (v.t = "dividesQ" => v.qsrc = "list")
  /\ (v.scheme = "bgv" => v.rt = "std")                       \* bgv literals have no ring type

Rejecting(v) ==
  \/ v.logn \in {"below", "above"}
  \/ v.qsrc \in {"both", "none"}
  \/ v.psrc = "both"
  \/ v.qf \in {"composite", "nonntt", "dup", "bits63", "zero", "one", "two"}
  \/ v.pf \in {"composite", "nonntt", "dup", "bits64"}
  \/ v.lf \in {"zero", "neg", "q61", "p62", "huge", "scarce"}
  \/ v.rt = "bad"
  \* a prime that is 1 modulo 2N only: friendly for the standard ring, not for the conjugate-invariant one (root order 4N)
  \/ (v.rt = "ci" /\ (v.qf = "halfntt" \/ v.pf = "halfntt"))
  \/ (v.scheme = "bgv" /\ v.t \in {"zero", "dividesQ", "aboveQ0", "smallorder", "composite", "even"})
  \/ (v.scheme = "ckks" /\ v.s = "s129")

Open(v) == v.qf \in {"bits61", "bits62", "shared"} \/ v.pf \in {"bits62", "bits63"}

Required(v) == IF Rejecting(v) THEN "reject" ELSE IF Open(v) THEN "open" ELSE "accept"

\* the observed outcome of the real constructor is allowed
OutcomeOK(v, outcome, sound) ==
  /\ outcome \in {"accept", "reject"}                       \* never a panic
  /\ (Required(v) = "reject" => outcome = "reject")
  /\ (Required(v) = "accept" => outcome = "accept")
  /\ (outcome = "accept" => sound)

Deviations(v) == Cardinality({k \in DOMAIN Default : v[k] # Default[k]})

-----------------------------------------------------------------------------
\* generated moduli: distinct primes of exactly the requested sizes, 1 modulo the root order
GenOK(e) ==
  IF e.err THEN e.mustfail \/ e.mayfail
  ELSE /\ ~e.mustfail /\ e.distinct /\ Len(e.got) = Len(e.req)
       /\ \A i \in 1..Len(e.req) : e.got[i][1] = e.req[i] /\ e.got[i][2] = 1 /\ e.got[i][3] = 1

\* 128-bit security: the largest log2(QP) per ring degree and secret class.  "dense": uniform ternary
\* (HomomorphicEncryption.org standard, classical, for LogN 10..15; LogN 16 from the bound claimed by the
\* sets of https://eprint.iacr.org/2022/024 the library ships); "h192": Hamming weight 192 (same source).
MaxLogQP == [dense |-> [x \in 10..16 |-> CASE x = 10 -> 27 [] x = 11 -> 54 [] x = 12 -> 109 [] x = 13 -> 218
                                            [] x = 14 -> 438 [] x = 15 -> 881 [] x = 16 -> 1793],
             h192  |-> [x \in 15..16 |-> IF x = 15 THEN 768 ELSE 1553]]
\* logqp100 = ceil(100 * log2(QP)); namebound = the number in the set's own name (0 if none), a rounded
\* figure: the set may exceed it by less than two bits
SecOK(e) ==
  /\ e.cls \in DOMAIN MaxLogQP /\ e.logn \in DOMAIN MaxLogQP[e.cls]
  /\ e.logqp100 <= 100 * MaxLogQP[e.cls][e.logn] + 99
  /\ (e.namebound > 0 => e.logqp100 <= 100 * e.namebound + 199)

\* derived quantities agree with their definitions
Pow2(k) == LET RECURSIVE P(_) P(i) == IF i = 0 THEN 1 ELSE 2 * P(i - 1) IN P(k)
DerivedOK(e) ==
  /\ e.maxlevel = e.qcount - 1
  /\ e.n = Pow2(e.logn)
  /\ e.logqfloor + 1 = e.qbitlen /\ e.logqpfloor + 1 = e.qpbitlen
  /\ (e.scheme = "ckks" => e.maxslots = (IF e.ci THEN e.n ELSE e.n \div 2) /\ Pow2(e.logmaxslots) = e.maxslots)
  /\ (e.scheme = "bgv" => e.maxslots = e.tn /\ Pow2(e.logmaxslots) = e.maxslots /\ e.tn <= e.n)
  /\ e.nthroot = (IF e.ci THEN 4 * e.n ELSE 2 * e.n)
=============================================================================
