---------------------------- MODULE ThresholdTrace ----------------------------
(* Validation of threshold set-ups recorded from multiparty.Thresholdizer / Combiner against Threshold.  *)
(* Toy runs (q < 2^15) are recomputed coefficient by coefficient; real-size runs log limbs and are        *)
(* checked for the reconstruction identity and listing independence.                                     *)
EXTENDS Threshold, Json, TLC

Trace == ndJsonDeserialize("trace.ndjson")
VARIABLES l, cfg, polys, agg, add     \* cfg: [q, n, t, pts]; polys: dealer -> coefficient vectors; agg: point -> vector; add: listing-key -> vectors
tvars == <<l, cfg, polys, agg, add>>
Ev == Trace[l]
Empty == [x \in {} |-> 0]
Put(f, k, v) == [x \in DOMAIN f \cup {k} |-> IF x = k THEN v ELSE f[x]]

TrSetup == /\ Ev.ev = "setup"
           /\ cfg' = [q |-> Ev.q, n |-> Ev.n, t |-> Ev.t, pts |-> Ev.pts]
           /\ polys' = Empty /\ agg' = Empty /\ add' = Empty

TrPoly == /\ Ev.ev = "poly" /\ Len(Ev.coeffs) = cfg.t
          /\ polys' = Put(polys, Ev.dealer, Ev.coeffs)
          /\ UNCHANGED <<cfg, agg, add>>

\* share of dealer i for recipient point x: exactly the evaluation of the dealer's polynomial
TrShare == /\ Ev.ev = "share" /\ Ev.dealer \in DOMAIN polys
           /\ Ev.val = ShareVec(polys[Ev.dealer], Ev.x % cfg.q, cfg.n, cfg.q)
           /\ UNCHANGED <<cfg, polys, agg, add>>

\* aggregated share of a recipient, dealers summed in the logged order: the sum over all dealers
TrAgg == /\ Ev.ev = "aggshare" /\ ~Ev.err
         /\ {Ev.order[k] : k \in 1..Len(Ev.order)} = DOMAIN polys
         /\ Ev.val = SumVecs([k \in 1..Len(Ev.order) |-> ShareVec(polys[Ev.order[k]], Ev.x % cfg.q, cfg.n, cfg.q)], cfg.n, cfg.q)
         /\ (Ev.x \in DOMAIN agg => agg[Ev.x] = Ev.val)
         /\ agg' = Put(agg, Ev.x, Ev.val)
         /\ UNCHANGED <<cfg, polys, add>>

ActPts == [k \in 1..Len(Ev.active) |-> Ev.active[k] % cfg.q]

\* additive share derived by one active party
TrCombine == /\ Ev.ev = "combine" /\ ~Ev.err /\ ~Ev.panic
             /\ Len(Ev.active) = cfg.t /\ Ev.x \in DOMAIN agg
             /\ Ev.val = ScaleVec(agg[Ev.x], Lagrange(ActPts, Ev.x % cfg.q, cfg.q), cfg.n, cfg.q)
             /\ UNCHANGED <<cfg, polys, agg, add>>

\* the additive shares of the t active parties sum to the sum of the secrets
TrRecon == /\ Ev.ev = "recon" /\ ~Ev.err /\ ~Ev.panic
           /\ Ev.sum = SumVecs([i \in 1..Len(Ev.dealers) |-> polys[Ev.dealers[i]][1]], cfg.n, cfg.q)
           /\ UNCHANGED <<cfg, polys, agg, add>>

\* fewer than t active parties: refused
TrTooFew == /\ Ev.ev = "toofew" /\ Ev.err /\ ~Ev.panic /\ Len(Ev.active) < cfg.t
            /\ UNCHANGED <<cfg, polys, agg, add>>

\* real-size runs: reconstruction identity and listing independence on limb vectors
TrBigRecon == /\ Ev.ev = "bigrecon" /\ ~Ev.err /\ ~Ev.panic
              /\ Len(Ev.sum) = Len(Ev.secret)
              /\ \A k \in 1..Len(Ev.sum) : BNEq(Ev.sum[k], Ev.secret[k])
              /\ Ev.samelisting
              /\ UNCHANGED <<cfg, polys, agg, add>>

TraceNext == /\ l <= Len(Trace) /\ l' = l + 1
             /\ (TrSetup \/ TrPoly \/ TrShare \/ TrAgg \/ TrCombine \/ TrRecon \/ TrTooFew \/ TrBigRecon)
TraceInit == l = 1 /\ cfg = [q |-> 2, n |-> 0, t |-> 0, pts |-> <<>>] /\ polys = Empty /\ agg = Empty /\ add = Empty /\ TLCSet(1, 1)
TraceSpec == TraceInit /\ [][TraceNext]_tvars
Progress == TLCSet(1, IF TLCGet(1) > l THEN TLCGet(1) ELSE l)
TraceAccepted ==
    LET n == TLCGet(1) - 1 IN
    IF n = Len(Trace) THEN TRUE ELSE PrintT(<<"TRACE_REJECTED_AT", n + 1>>) /\ FALSE
=============================================================================
