"""Shared machinery of the /verif checks: building the Go harness against /repo's current
working tree, running TLC (model checking, behaviour generation, trace validation), and
writing evidence files.  Exit codes: 0 held, 1 reproduced violation, 2 inconclusive."""
import json, os, re, shutil, subprocess, sys, time, hashlib, threading

VERIF = os.path.dirname(os.path.dirname(os.path.abspath(__file__)))
REPO = "/repo"
WORK = os.path.join(VERIF, ".work")
SPEC = os.path.join(VERIF, "spec")
HARNESS = os.path.join(VERIF, "harness")
BIN = os.path.join(WORK, "bin")
NCPU = os.cpu_count() or 4

GOENV = dict(os.environ, GOFLAGS="-mod=mod", GOPROXY="off", GOSUMDB="off", GOTOOLCHAIN="local",
             GONOSUMCHECK="1", GONOSUMDB="*")


class Inconclusive(Exception):
    pass


def log(*a):
    print(*a, flush=True)


def sh(cmd, cwd=None, env=None, timeout=None, check=True, capture=True):
    p = subprocess.run(cmd, cwd=cwd, env=env, timeout=timeout, shell=isinstance(cmd, str),
                       stdout=subprocess.PIPE if capture else None,
                       stderr=subprocess.STDOUT if capture else None, text=True)
    if check and p.returncode != 0:
        raise Inconclusive("command failed (%d): %s\n%s" % (p.returncode, cmd, (p.stdout or "")[-4000:]))
    return p


_built = {}
_build_lock = threading.Lock()


def build_vrun(race=False):
    """(Re)build the harness binary against /repo's current working tree, hooks enabled."""
    name = "vrun-race" if race else "vrun"
    with _build_lock:
        return _build_vrun_locked(name, race)


def _build_vrun_locked(name, race):
    if name in _built:
        return _built[name]
    os.makedirs(BIN, exist_ok=True)
    shutil.copy(os.path.join(REPO, "go.sum"), os.path.join(HARNESS, "go.sum"))
    out = os.path.join(BIN, name)
    cmd = ["go", "build", "-tags", "verif"] + (["-race"] if race else []) + ["-o", out, "./cmd/vrun"]
    t0 = time.time()
    p = sh(cmd, cwd=HARNESS, env=GOENV, timeout=1200, check=False)
    if p.returncode != 0:
        raise Inconclusive("harness does not build against /repo:\n" + p.stdout[-6000:])
    log("[build] %s in %.1fs" % (name, time.time() - t0))
    _built[name] = out
    return out


def vrun(args, race=False, timeout=3600, env=None, check=True):
    """Run the harness; returns (stdout, RESULT dict or None, returncode)."""
    exe = build_vrun(race)
    e = dict(GOENV)
    if env:
        e.update(env)
    p = sh([exe] + [str(a) for a in args], cwd=WORK, env=e, timeout=timeout, check=False)
    res = None
    for line in p.stdout.splitlines():
        if line.startswith("RESULT "):
            res = json.loads(line[7:])
    if check and p.returncode != 0:
        raise Inconclusive("harness failed (%d): vrun %s\n%s" % (p.returncode, " ".join(map(str, args)), p.stdout[-4000:]))
    return p.stdout, res, p.returncode


def scratch(name):
    d = os.path.join(WORK, name)
    shutil.rmtree(d, ignore_errors=True)
    os.makedirs(d)
    return d


# ----------------------------------------------------------------------------- TLA+ values

def tla(v):
    """Python value -> TLA+ expression."""
    if isinstance(v, bool):
        return "TRUE" if v else "FALSE"
    if isinstance(v, int):
        return str(v)
    if isinstance(v, str):
        return '"%s"' % v
    if isinstance(v, (list, tuple)):
        return "<<" + ", ".join(tla(x) for x in v) + ">>"
    if isinstance(v, (set, frozenset)):
        return "{" + ", ".join(sorted(tla(x) for x in v)) + "}"
    if isinstance(v, dict):
        return "[" + ", ".join("%s |-> %s" % (k, tla(x)) for k, x in v.items()) + "]"
    if isinstance(v, Raw):
        return v.s
    raise TypeError(type(v))


class Raw:
    def __init__(self, s):
        self.s = s


def fs(*items):
    """A TLA+ set of arbitrary (possibly unhashable) python values."""
    return Raw("{" + ", ".join(tla(x) for x in items) + "}")


def write_mc(dirpath, mcname, extends, consts, cfg_lines):
    """Write MC module <mcname>.tla extending `extends` with constant definitions, and its cfg.
    consts: dict name -> python value.  Constants are bound with `Name <- mc_Name`."""
    defs, subs = [], []
    for k, v in consts.items():
        defs.append("mc_%s == %s" % (k, tla(v)))
        subs.append("  %s <- mc_%s" % (k, k))
    with open(os.path.join(dirpath, mcname + ".tla"), "w") as f:
        f.write("---- MODULE %s ----\nEXTENDS %s\n%s\n====\n" % (mcname, extends, "\n".join(defs)))
    with open(os.path.join(dirpath, mcname + ".cfg"), "w") as f:
        f.write("CONSTANTS\n" + "\n".join(subs) + "\n" + "\n".join(cfg_lines) + "\n")


def stage_specs(dirpath):
    for fn in os.listdir(SPEC):
        if fn.endswith(".tla"):
            shutil.copy(os.path.join(SPEC, fn), dirpath)


class TLCResult:
    def __init__(self, out, rc, wall):
        self.out, self.rc, self.wall = out, rc, wall
        m = re.findall(r"(\d+) states generated, (\d+) distinct states found", out)
        self.generated = int(m[-1][0]) if m else 0
        self.distinct = int(m[-1][1]) if m else 0
        self.ok = ("Model checking completed. No error has been found." in out) or \
                  ("Finished in" in out and "Error:" not in out and rc == 0)
        self.violated = re.findall(r"Invariant (\S+) is violated", out)
        self.errors = [l for l in out.splitlines() if l.startswith("Error:")]
        self.printed = [l for l in out.splitlines() if l.startswith("<<")]

    def rejected_at(self):
        for l in self.printed:
            m = re.match(r'<<"TRACE_REJECTED_AT", (\d+)', l)
            if m:
                return int(m.group(1))
        return None


def tlc(dirpath, module, workers=None, simulate=None, depth=None, seed=None, timeout=1800, extra=(), deadlock=False, heap=None):
    """Run TLC on dirpath/<module>.tla with <module>.cfg."""
    meta = os.path.join(dirpath, "meta-" + module)
    shutil.rmtree(meta, ignore_errors=True)
    cmd = ["timeout", str(timeout), "tlc", "-metadir", meta, "-config", module + ".cfg",
           "-workers", str(workers or NCPU)]
    if not deadlock:
        cmd.append("-deadlock")          # disable deadlock checking
    if simulate is not None:
        cmd += ["-simulate", "num=%d" % simulate]
    if depth is not None:
        cmd += ["-depth", str(depth)]
    if seed is not None:
        cmd += ["-seed", str(seed)]
    cmd += list(extra) + [module + ".tla"]
    env = dict(os.environ)
    if heap:
        env["JAVA_TOOL_OPTIONS"] = "-Xmx%s -Xss512m" % heap
    else:
        env["JAVA_TOOL_OPTIONS"] = "-Xss512m"
    t0 = time.time()
    p = subprocess.run(cmd, cwd=dirpath, env=env, stdout=subprocess.PIPE, stderr=subprocess.STDOUT, text=True)
    wall = time.time() - t0
    shutil.rmtree(meta, ignore_errors=True)
    if p.returncode == 124:
        raise Inconclusive("TLC timed out after %ds on %s" % (timeout, module))
    with open(os.path.join(dirpath, module + ".out"), "w") as f:
        f.write(p.stdout)
    return TLCResult(p.stdout, p.returncode, wall)


def progs_from(res):
    """Extract the JSON programs printed by a generator run (PrintT(<<"PROG", ToJson(hist)>>))."""
    out, seen = [], set()
    for l in res.printed:
        m = re.match(r'<<"PROG", "(.*)">>$', l)
        if not m:
            continue
        s = m.group(1).replace('\\"', '"').replace("\\\\", "\\")
        if s in seen:
            continue
        seen.add(s)
        out.append(s)
    return out


# ----------------------------------------------------------------------------- findings / evidence

def load_known(prop):
    path = os.path.join(VERIF, "known_findings.jsonl")
    out = []
    if os.path.exists(path):
        for line in open(path):
            line = line.strip()
            if not line or line.startswith("#"):
                continue
            if line.startswith("fixed:"):
                continue
            try:
                d = json.loads(line)
            except ValueError:
                continue
            if d.get("property") == prop:
                out.append(d)
    return out


def write_evidence(prop, tier, seed, level, coverage, wall, violations, assumptions):
    os.makedirs(os.path.join(VERIF, "evidence"), exist_ok=True)
    ev = {"property_id": prop, "tier": tier, "seed": int(seed), "level": level, "coverage": coverage,
          "assumptions": assumptions, "wall_s": round(wall, 2), "violations": int(violations)}
    with open(os.path.join(VERIF, "evidence", prop + ".json"), "w") as f:
        json.dump(ev, f, indent=1)


def save_replay(prop, name, obj):
    d = os.path.join(VERIF, "replays")
    os.makedirs(d, exist_ok=True)
    path = os.path.join(d, "%s-%s.json" % (prop, name))
    with open(path, "w") as f:
        json.dump(obj, f)
    return path


# ----------------------------------------------------------------------------- trace validation loop
from concurrent.futures import ThreadPoolExecutor


def _validate_chunk(dirpath, module, tracespec, consts, cfg_lines, evs, max_rounds, timeout, sigfn=None):
    stage_specs(dirpath)
    write_mc(dirpath, module, tracespec, consts, cfg_lines)
    rejections = []
    stats = dict(states=0, distinct=0, runs=0, events_accepted=0, wall=0.0)
    while evs:
        with open(os.path.join(dirpath, "trace.ndjson"), "w") as f:
            for e in evs:
                f.write(json.dumps(e) + "\n")
        r = tlc(dirpath, module, workers=1, timeout=timeout)
        stats["runs"] += 1
        stats["wall"] += r.wall
        n = r.rejected_at()
        if n is None:
            if not r.ok:
                raise Inconclusive("TLC failed on trace spec %s:\n%s" % (module, r.out[-3000:]))
            stats["states"] += r.generated
            stats["distinct"] += r.distinct
            stats["events_accepted"] += len(evs)
            break
        bad = evs[n - 1]
        rejections.append(dict(prog=bad.get("prog"), fork=bad.get("fork", 0), index=n, event=bad))
        stats["states"] += r.generated
        if sigfn is not None and bad.get("fork", 0) > 0:
            # drop every event with the same failure signature (they are reported once, through this one)
            # independent events ("indep") go alone, dependent ones take their whole program with them
            sg = sigfn(bad)
            hit = [e for e in evs if e.get("fork", 0) > 0 and sigfn(e) == sg]
            gone = set(e.get("prog") for e in hit if not e.get("indep"))
            evs = [e for e in evs if e.get("prog") not in gone and not (e.get("indep") and e.get("fork", 0) > 0 and sigfn(e) == sg)]
        elif bad.get("fork", 0) > 0:   # one alternative tried from a checkpoint: drop only that alternative
            evs = [e for e in evs if not (e.get("prog") == bad.get("prog") and e.get("fork", 0) == bad.get("fork"))]
        else:
            evs = [e for e in evs if e.get("prog") != bad.get("prog")]
        if len(rejections) >= max_rounds:
            log("[trace] more than %d rejections in one chunk; the rest of the chunk is not examined" % max_rounds)
            break
    return rejections, stats


def validate_programs(dirpath, module, tracespec, consts, cfg_lines, lines, max_rounds=25, timeout=1800, chunks=None, sigfn=None):
    """Validate an ndjson trace made of independent programs (each starting with a Reset event)
    against a trace specification.  When TLC rejects line n, the program (or the alternative tried
    from a checkpoint) containing it is set aside as a rejection and the rest is validated again,
    so that one rejection does not hide the rest of the trace.  Programs are spread over parallel
    TLC processes.  Returns (rejections, stats)."""
    evs = [json.loads(x) if isinstance(x, str) else x for x in lines]
    progs = sorted(set(e.get("prog") for e in evs))
    k = chunks or max(1, min(NCPU // 2, len(evs) // 4000 + 1))
    groups = [[] for _ in range(k)]
    where = {p: i % k for i, p in enumerate(progs)}
    for e in evs:
        groups[where[e.get("prog")]].append(e)
    base = os.path.basename(dirpath.rstrip("/"))
    with ThreadPoolExecutor(max_workers=k) as ex:
        futs = [ex.submit(_validate_chunk, scratch("%s-tv%d" % (base, i)), module, tracespec, consts, cfg_lines, g, max_rounds, timeout, sigfn)
                for i, g in enumerate(groups) if g]
        results = [f.result() for f in futs]
    rejections, stats = [], dict(states=0, distinct=0, runs=0, events_accepted=0, wall=0.0)
    for rj, st in results:
        rejections += rj
        for kk in stats:
            stats[kk] += st[kk]
    return rejections, stats


# ----------------------------------------------------------------------------- check context

class Ctx:
    """Collects what a check run covered and what it found."""

    def __init__(self, prop, tier, seed, replay=None):
        self.prop, self.tier, self.seed, self.replay = prop, tier, seed, replay
        self.level = "model_checking"
        self.cov = dict(states=0, transitions=0, traces_validated_against_impl=0, samples=[],
                        evaluations=0, distinct_nontrivial=0, rule="", programs=0)
        self.assumptions = []
        self.violations = []      # (replay_path, description)
        self.known_hits = []
        self.known = load_known(prop)
        self.notes = {}

    @property
    def quick(self):
        return self.tier == "quick"

    def add_mc(self, r, name):
        """Record an exhaustive TLC run; an invariant violation of the *specification* is a
        defect of the machinery (design inconsistency), never a verdict about the code."""
        if r.violated or not r.ok:
            raise Inconclusive("specification check %s failed: %s %s\n%s" % (name, r.violated, r.errors[:2], r.out[-2500:]))
        self.cov["states"] += r.distinct
        self.cov["transitions"] += r.generated
        self.notes.setdefault("tlc_runs", []).append(dict(name=name, generated=r.generated, distinct=r.distinct, wall_s=round(r.wall, 1)))

    def add_trace_stats(self, stats, ntraces):
        self.cov["states"] += stats.get("distinct", 0)
        self.cov["transitions"] += stats.get("states", 0)
        self.cov["traces_validated_against_impl"] += ntraces
        self.cov["evaluations"] += stats.get("events_accepted", 0)

    def sample(self, s):
        if len(self.cov["samples"]) < 6:
            self.cov["samples"].append(s)

    def violation(self, desc, replay_obj, sig=None):
        """Report a reproduced violation unless it is a listed known finding."""
        for k in self.known:
            if sig is not None and (k.get("signature") == sig or (k.get("signature_re") and re.fullmatch(k["signature_re"], sig))):
                if k not in self.known_hits:
                    self.known_hits.append(k)
                return
        name = hashlib.sha1(json.dumps(replay_obj, sort_keys=True).encode()).hexdigest()[:10]
        path = save_replay(self.prop, name, replay_obj)
        self.violations.append((path, desc))

    def finish(self, wall):
        for k in self.known_hits:
            print("KNOWN-FINDING: property=%s %s" % (self.prop, k.get("what", k.get("signature"))))
        cov = dict(self.cov)
        cov.update(self.notes)
        if not cov["samples"]:
            cov["samples"] = ["(no sample recorded)"]
        cov["known_findings_hit"] = [k.get("signature") for k in self.known_hits]
        write_evidence(self.prop, self.tier, self.seed, self.level, cov, wall, len(self.violations), self.assumptions)
        for path, desc in self.violations[:20]:
            print("VIOLATION property=%s replay=%s  # %s" % (self.prop, path, desc))
        if self.violations:
            return 1
        print("OK property=%s tier=%s states=%d transitions=%d traces=%d events=%d wall=%.0fs" % (
            self.prop, self.tier, cov["states"], cov["transitions"], cov["traces_validated_against_impl"], cov["evaluations"], wall))
        return 0
