package c01

import (
	"github.com/tuneinsight/lattigo/v6/ring"
	"github.com/tuneinsight/lattigo/v6/ring/ringqp"
)

// Element-wise operations of ringqp.Ring (polynomials modulo Q and P side by side): the contract of every operation is
// the one of the ring.Ring operation of the same name, modulus by modulus, at every pair of levels (levelP = -1: no P).
var qpOps = []string{"Add", "AddLazy", "Sub", "Neg", "MulScalar", "MForm", "IMForm", "MulCoeffsMontgomery", "MulCoeffsMontgomeryLazy",
	"MulCoeffsMontgomeryLazyThenAddLazy", "MulCoeffsMontgomeryThenSub", "MulCoeffsMontgomeryLazyThenSubLazy", "MulCoeffsMontgomeryThenAdd", "Reduce"}

func qpPoly(rq, rp *ring.Ring, rows [][]uint64) ringqp.Poly {
	nq := rq.Level() + 1
	p := ringqp.Poly{Q: polyFrom(rq, rows[:nq])}
	if rp != nil {
		p.P = polyFrom(rp, rows[nq:])
	}
	return p
}

func qpRows(p ringqp.Poly, rq, rp *ring.Ring) [][]uint64 {
	out := [][]uint64{}
	for i := 0; i <= rq.Level(); i++ {
		out = append(out, cp(p.Q.Coeffs[i]))
	}
	if rp != nil {
		for i := 0; i <= rp.Level(); i++ {
			out = append(out, cp(p.P.Coeffs[i]))
		}
	}
	return out
}

func callRingQP(r ringqp.Ring, op string, a, b, c [][]uint64, sc uint64) [][]uint64 {
	pa, pc := qpPoly(r.RingQ, r.RingP, a), qpPoly(r.RingQ, r.RingP, c)
	var pb ringqp.Poly
	if b != nil {
		pb = qpPoly(r.RingQ, r.RingP, b)
	}
	switch op {
	case "Add":
		r.Add(pa, pb, pc)
	case "AddLazy":
		r.AddLazy(pa, pb, pc)
	case "Sub":
		r.Sub(pa, pb, pc)
	case "Neg":
		r.Neg(pa, pc)
	case "MulScalar":
		r.MulScalar(pa, sc, pc)
	case "MForm":
		r.MForm(pa, pc)
	case "IMForm":
		r.IMForm(pa, pc)
	case "MulCoeffsMontgomery":
		r.MulCoeffsMontgomery(pa, pb, pc)
	case "MulCoeffsMontgomeryLazy":
		r.MulCoeffsMontgomeryLazy(pa, pb, pc)
	case "MulCoeffsMontgomeryLazyThenAddLazy":
		r.MulCoeffsMontgomeryLazyThenAddLazy(pa, pb, pc)
	case "MulCoeffsMontgomeryThenSub":
		r.MulCoeffsMontgomeryThenSub(pa, pb, pc)
	case "MulCoeffsMontgomeryLazyThenSubLazy":
		r.MulCoeffsMontgomeryLazyThenSubLazy(pa, pb, pc)
	case "MulCoeffsMontgomeryThenAdd":
		r.MulCoeffsMontgomeryThenAdd(pa, pb, pc)
	case "Reduce":
		r.Reduce(pa, pc)
	default:
		panic("ringqp: unknown op " + op)
	}
	return qpRows(pc, r.RingQ, r.RingP)
}

// elementwiseQP runs every operation of qpOps on ringqp.Ring at every (levelQ, levelP), levelP = -1 included.
func (d *driver) elementwiseQP(rq, rp *ring.Ring) {
	n := rq.N()
	full := ringqp.Ring{RingQ: rq, RingP: rp}
	for lq := 0; lq <= rq.Level(); lq++ {
		for lp := -1; lp <= rp.Level(); lp++ {
			if d.quick && lq == 1 && lp == 0 {
				continue
			}
			r := full.AtLevel(lq, lp)
			mods := append([]uint64{}, rq.ModuliChain()[:lq+1]...)
			if lp >= 0 {
				mods = append(mods, rp.ModuliChain()[:lp+1]...)
			}
			d.prog++
			d.fork = 0
			for _, name := range qpOps {
				sp, ok := d.table[name]
				if !ok {
					continue
				}
				for pi, pp := range patternPairs {
					if d.quick && pi%2 == 1 {
						continue
					}
					a := make([][]uint64, len(mods))
					b := make([][]uint64, len(mods))
					c := make([][]uint64, len(mods))
					for i, q := range mods {
						a[i] = d.pattern(pp[0], n, sp.Ina, q, true)
						inb, inc := sp.Inb, sp.Inc
						if inb == 0 {
							inb = 1
						}
						if inc == 0 {
							inc = 1
						}
						b[i] = d.pattern(pp[1], n, inb, q, true)
						c[i] = d.pattern(pp[2], n, inc, q, true)
					}
					var sc uint64
					sres := make([]uint64, len(mods))
					if sp.S == -1 {
						switch pp[1] {
						case "max":
							sc = ^uint64(0)
						case "zero":
							sc = 0
						case "q":
							sc = mods[0]
						default:
							sc = d.rng.Uint64()
						}
						for i, q := range mods {
							sres[i] = sc % q
						}
					}
					bb := b
					if sp.Inb == 0 {
						bb = nil
					}
					out := callRingQP(r, name, a, bb, c, sc)
					for i, q := range mods {
						p, f := d.next()
						d.w.Emit(ewEvent{Ev: "ew", Prog: p, Fork: f, Op: name, Q: q, N: n, A: a[i], B: b[i], C: c[i], S: sres[i], Sm: 0, Out: out[i], Pat: "qp:" + pp[0] + "/" + pp[1] + "/" + pp[2]})
					}
				}
			}
		}
	}
}
