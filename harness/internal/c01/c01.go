// Package c01 records calls of package ring (element-wise kernels, NTT, automorphisms, monomial
// products) on toy rings (plain integers) and on real-size moduli (limbs + witnesses) for
// validation against spec/RingOps.tla.
package c01

import (
	"encoding/json"
	"flag"
	"fmt"
	"math/big"
	"math/rand"
	"os"
	"sort"

	"github.com/tuneinsight/lattigo/v6/ring"

	"verif/harness/internal/tr"
)

type opSpec struct {
	Lhs   [][]string `json:"lhs"`
	Rhs   [][]string `json:"rhs"`
	K     int        `json:"k"`
	Ina   int        `json:"ina"`
	Inb   int        `json:"inb"`
	Inc   int        `json:"inc"`
	S     int        `json:"s"`
	Sm    int        `json:"sm"`
	Slack int        `json:"slack"`
	Level string     `json:"level"`
}

type ewEvent struct {
	Ev   string   `json:"ev"`
	Prog int      `json:"prog"`
	Fork int      `json:"fork"`
	Op   string   `json:"op"`
	Q    uint64   `json:"q"`
	N    int      `json:"n"`
	A    []uint64 `json:"a"`
	B    []uint64 `json:"b"`
	C    []uint64 `json:"c"`
	S    uint64   `json:"s"`
	Sm   uint64   `json:"sm"`
	Out  []uint64 `json:"out"`
	Pat  string   `json:"pat"`
}

type certEvent struct {
	Ev   string `json:"ev"`
	Prog int    `json:"prog"`
	Fork int    `json:"fork"`
	Op   string `json:"op"`
	Q    []int  `json:"q"`
	A    []int  `json:"a"`
	B    []int  `json:"b"`
	C    []int  `json:"c"`
	S    []int  `json:"s"`
	Sm   []int  `json:"sm"`
	Out  []int  `json:"out"`
	W1   []int  `json:"w1"`
	W2   []int  `json:"w2"`
	Pat  string `json:"pat"`
	Pos  int    `json:"pos"`
	Qv   uint64 `json:"qv"`
}

// Limbs converts a natural to little-endian base-4096 limbs.
func Limbs(x *big.Int) []int {
	out := []int{}
	t := new(big.Int).Set(x)
	m := big.NewInt(4096)
	r := new(big.Int)
	for t.Sign() > 0 {
		t.DivMod(t, m, r)
		out = append(out, int(r.Int64()))
	}
	return out
}

func LimbsU(x uint64) []int { return Limbs(new(big.Int).SetUint64(x)) }

var two64 = new(big.Int).Lsh(big.NewInt(1), 64)

// witnesses of sum(lhs) + w1*q = sum(rhs) + w2*q  (untrusted: TLC re-checks the identity)
func witnesses(sp opSpec, env map[string]*big.Int, q *big.Int) (w1, w2 *big.Int) {
	sum := func(ts [][]string) *big.Int {
		s := new(big.Int)
		for _, t := range ts {
			p := big.NewInt(1)
			for _, f := range t {
				p.Mul(p, env[f])
			}
			s.Add(s, p)
		}
		return s
	}
	d := new(big.Int).Sub(sum(sp.Lhs), sum(sp.Rhs))
	w1, w2 = new(big.Int), new(big.Int)
	if d.Sign() >= 0 {
		w2.Div(d, q)
	} else {
		w1.Div(new(big.Int).Neg(d), q)
	}
	return
}

type driver struct {
	table map[string]opSpec
	names []string
	rng   *rand.Rand
	w     *tr.Writer
	prog  int
	fork  int
	quick bool
}

func (d *driver) next() (int, int) { d.fork++; return d.prog, d.fork }

// value patterns for a coefficient vector with values < m*q (m<=0: any uint64, toy: < 8q)
func (d *driver) pattern(kind string, n int, m int, q uint64, toy bool) []uint64 {
	max := q
	if m > 0 {
		max = uint64(m) * q
	} else if toy {
		max = 8 * q
	} else {
		max = 0 // any uint64
	}
	rnd := func() uint64 {
		if max == 0 {
			return d.rng.Uint64()
		}
		return d.rng.Uint64() % max
	}
	top := max - 1 // wraps to 2^64-1 when max == 0
	v := make([]uint64, n)
	for i := range v {
		switch kind {
		case "rand":
			v[i] = rnd()
		case "max":
			v[i] = top
		case "zero":
			v[i] = 0
		case "qm1":
			v[i] = q - 1
		case "q":
			if max == 0 || max > q {
				v[i] = q
			} else {
				v[i] = q - 1
			}
		case "one":
			v[i] = 1
		case "ramp":
			if max == 0 {
				v[i] = uint64(i) * 0x0123456789abcdef
			} else {
				v[i] = (uint64(i)*uint64(i)*7 + 3) % max
			}
		case "mix": // extremes on alternating positions, distinct per lane
			switch i % 4 {
			case 0:
				v[i] = top
			case 1:
				v[i] = 0
			case 2:
				v[i] = q - 1
			default:
				v[i] = rnd()
			}
		}
	}
	return v
}

var patternPairs = [][3]string{
	{"rand", "rand", "rand"}, {"max", "max", "max"}, {"max", "zero", "max"}, {"zero", "max", "zero"},
	{"mix", "rand", "mix"}, {"rand", "mix", "max"}, {"qm1", "qm1", "qm1"}, {"q", "q", "zero"}, {"ramp", "ramp", "ramp"}, {"one", "max", "rand"},
}

func cp(v []uint64) []uint64 { return append([]uint64{}, v...) }

// callSub performs the operation on one SubRing; c is the previous content of the output.
func callSub(s *ring.SubRing, op string, a, b, c []uint64, sc, sm uint64) []uint64 {
	out := cp(c)
	switch op {
	case "Add":
		s.Add(a, b, out)
	case "AddLazy":
		s.AddLazy(a, b, out)
	case "Sub":
		s.Sub(a, b, out)
	case "SubLazy":
		s.SubLazy(a, b, out)
	case "Neg":
		s.Neg(a, out)
	case "Reduce":
		s.Reduce(a, out)
	case "ReduceLazy":
		s.ReduceLazy(a, out)
	case "MulCoeffsBarrett":
		s.MulCoeffsBarrett(a, b, out)
	case "MulCoeffsBarrettLazy":
		s.MulCoeffsBarrettLazy(a, b, out)
	case "MulCoeffsBarrettThenAdd":
		s.MulCoeffsBarrettThenAdd(a, b, out)
	case "MulCoeffsBarrettThenAddLazy":
		s.MulCoeffsBarrettThenAddLazy(a, b, out)
	case "MulCoeffsMontgomery":
		s.MulCoeffsMontgomery(a, b, out)
	case "MulCoeffsMontgomeryLazy":
		s.MulCoeffsMontgomeryLazy(a, b, out)
	case "MulCoeffsMontgomeryLazyThenNeg":
		s.MulCoeffsMontgomeryLazyThenNeg(a, b, out)
	case "MulCoeffsMontgomeryThenAdd":
		s.MulCoeffsMontgomeryThenAdd(a, b, out)
	case "MulCoeffsMontgomeryThenAddLazy":
		s.MulCoeffsMontgomeryThenAddLazy(a, b, out)
	case "MulCoeffsMontgomeryLazyThenAddLazy":
		s.MulCoeffsMontgomeryLazyThenAddLazy(a, b, out)
	case "MulCoeffsMontgomeryThenSub":
		s.MulCoeffsMontgomeryThenSub(a, b, out)
	case "MulCoeffsMontgomeryThenSubLazy":
		s.MulCoeffsMontgomeryThenSubLazy(a, b, out)
	case "MulCoeffsMontgomeryLazyThenSubLazy":
		s.MulCoeffsMontgomeryLazyThenSubLazy(a, b, out)
	case "MForm":
		s.MForm(a, out)
	case "MFormLazy":
		s.MFormLazy(a, out)
	case "IMForm":
		s.IMForm(a, out)
	case "AddLazyThenMulScalarMontgomery":
		s.AddLazyThenMulScalarMontgomery(a, b, sm, out)
	case "AddScalarLazyThenMulScalarMontgomery":
		s.AddScalarLazyThenMulScalarMontgomery(a, sc, sm, out)
	case "AddScalarLazy":
		s.AddScalarLazy(a, sc, out)
	case "AddScalarLazyThenNegTwoModulusLazy":
		s.AddScalarLazyThenNegTwoModulusLazy(a, sc, out)
	case "MulScalarMontgomery":
		s.MulScalarMontgomery(a, sm, out)
	case "MulScalarMontgomeryLazy":
		s.MulScalarMontgomeryLazy(a, sm, out)
	case "MulScalarMontgomeryThenAdd":
		s.MulScalarMontgomeryThenAdd(a, sm, out)
	case "MulScalarMontgomeryThenAddScalar":
		s.MulScalarMontgomeryThenAddScalar(a, sc, sm, out)
	case "SubThenMulScalarMontgomeryTwoModulus":
		s.SubThenMulScalarMontgomeryTwoModulus(a, b, sm, out)
	default:
		panic("callSub: unknown op " + op)
	}
	return out
}

// ring-level methods that have no SubRing twin of the same name
var ringOnly = map[string]bool{"AddScalar": true, "SubScalar": true, "MulScalar": true, "MulScalarThenAdd": true, "MulScalarThenSub": true,
	"AddScalarBigint": true, "SubScalarBigint": true, "MulScalarBigint": true, "MulScalarBigintThenAdd": true,
	"MulRNSScalarMontgomery": true, "MulByVectorMontgomery": true, "MulByVectorMontgomeryThenAddLazy": true}

func polyFrom(r *ring.Ring, rows [][]uint64) ring.Poly {
	p := r.NewPoly()
	for i := range rows {
		copy(p.Coeffs[i], rows[i])
	}
	return p
}

// callRing performs a ring.Ring method at the ring's level on all moduli.
// scBig is the (possibly negative / huge) scalar of the Bigint variants; sc the uint64 scalar; smv the RNS Montgomery scalar.
func callRing(r *ring.Ring, op string, a, b, c [][]uint64, sc uint64, scBig *big.Int, smv []uint64) [][]uint64 {
	pa, pc := polyFrom(r, a), polyFrom(r, c)
	var pb ring.Poly
	if b != nil {
		pb = polyFrom(r, b)
	}
	switch op {
	case "Add":
		r.Add(pa, pb, pc)
	case "AddLazy":
		r.AddLazy(pa, pb, pc)
	case "Sub":
		r.Sub(pa, pb, pc)
	case "SubLazy":
		r.SubLazy(pa, pb, pc)
	case "Neg":
		r.Neg(pa, pc)
	case "Reduce":
		r.Reduce(pa, pc)
	case "ReduceLazy":
		r.ReduceLazy(pa, pc)
	case "MulCoeffsBarrett":
		r.MulCoeffsBarrett(pa, pb, pc)
	case "MulCoeffsBarrettLazy":
		r.MulCoeffsBarrettLazy(pa, pb, pc)
	case "MulCoeffsBarrettThenAdd":
		r.MulCoeffsBarrettThenAdd(pa, pb, pc)
	case "MulCoeffsBarrettThenAddLazy":
		r.MulCoeffsBarrettThenAddLazy(pa, pb, pc)
	case "MulCoeffsMontgomery":
		r.MulCoeffsMontgomery(pa, pb, pc)
	case "MulCoeffsMontgomeryLazy":
		r.MulCoeffsMontgomeryLazy(pa, pb, pc)
	case "MulCoeffsMontgomeryLazyThenNeg":
		r.MulCoeffsMontgomeryLazyThenNeg(pa, pb, pc)
	case "MulCoeffsMontgomeryThenAdd":
		r.MulCoeffsMontgomeryThenAdd(pa, pb, pc)
	case "MulCoeffsMontgomeryThenAddLazy":
		r.MulCoeffsMontgomeryThenAddLazy(pa, pb, pc)
	case "MulCoeffsMontgomeryLazyThenAddLazy":
		r.MulCoeffsMontgomeryLazyThenAddLazy(pa, pb, pc)
	case "MulCoeffsMontgomeryThenSub":
		r.MulCoeffsMontgomeryThenSub(pa, pb, pc)
	case "MulCoeffsMontgomeryThenSubLazy":
		r.MulCoeffsMontgomeryThenSubLazy(pa, pb, pc)
	case "MulCoeffsMontgomeryLazyThenSubLazy":
		r.MulCoeffsMontgomeryLazyThenSubLazy(pa, pb, pc)
	case "MForm":
		r.MForm(pa, pc)
	case "MFormLazy":
		r.MFormLazy(pa, pc)
	case "IMForm":
		r.IMForm(pa, pc)
	case "AddScalar":
		r.AddScalar(pa, sc, pc)
	case "SubScalar":
		r.SubScalar(pa, sc, pc)
	case "MulScalar":
		r.MulScalar(pa, sc, pc)
	case "MulScalarThenAdd":
		r.MulScalarThenAdd(pa, sc, pc)
	case "MulScalarThenSub":
		r.MulScalarThenSub(pa, sc, pc)
	case "AddScalarBigint":
		r.AddScalarBigint(pa, scBig, pc)
	case "SubScalarBigint":
		r.SubScalarBigint(pa, scBig, pc)
	case "MulScalarBigint":
		r.MulScalarBigint(pa, scBig, pc)
	case "MulScalarBigintThenAdd":
		r.MulScalarBigintThenAdd(pa, scBig, pc)
	case "MulRNSScalarMontgomery":
		r.MulRNSScalarMontgomery(pa, ring.RNSScalar(smv), pc)
	case "MulByVectorMontgomery":
		r.MulByVectorMontgomery(pa, b[0], pc)
	case "MulByVectorMontgomeryThenAddLazy":
		r.MulByVectorMontgomeryThenAddLazy(pa, b[0], pc)
	default:
		panic("callRing: unknown op " + op)
	}
	out := make([][]uint64, len(a))
	for i := range out {
		out[i] = cp(pc.Coeffs[i])
	}
	return out
}

func minU(xs []uint64) uint64 {
	m := xs[0]
	for _, x := range xs {
		if x < m {
			m = x
		}
	}
	return m
}

// elementwise runs every table operation on the ring with every pattern pair and emits one event per modulus (toy)
// or one certificate per sampled coefficient (real size).
func (d *driver) elementwise(r *ring.Ring, toy bool, positions []int) {
	n := r.N()
	mods := r.ModuliChain()[:r.Level()+1]
	for _, name := range d.names {
		sp := d.table[name]
		for pi, pp := range patternPairs {
			if d.quick && !toy && pi%2 == 1 {
				continue
			}
			a := make([][]uint64, len(mods))
			b := make([][]uint64, len(mods))
			c := make([][]uint64, len(mods))
			for i, q := range mods {
				a[i] = d.pattern(pp[0], n, sp.Ina, q, toy)
				inb := sp.Inb
				if inb == 0 {
					inb = 1
				}
				b[i] = d.pattern(pp[1], n, inb, q, toy)
				inc := sp.Inc
				if inc == 0 {
					inc = 1
				}
				c[i] = d.pattern(pp[2], n, inc, q, toy)
			}
			if name == "MulByVectorMontgomery" || name == "MulByVectorMontgomeryThenAddLazy" {
				// one vector for all moduli: must be reduced for each of them
				v := d.pattern(pp[1], n, 1, minU(mods), toy)
				for i := range b {
					b[i] = v
				}
			}
			// scalars
			var sc uint64
			scBig := new(big.Int)
			sres := make([]uint64, len(mods)) // residue of the scalar per modulus
			switch sp.S {
			case 1:
				switch pp[1] {
				case "max", "qm1", "q":
					sc = minU(mods) - 1
				case "zero":
					sc = 0
				default:
					sc = d.rng.Uint64() % minU(mods)
				}
				for i := range sres {
					sres[i] = sc
				}
			case -1:
				switch pp[1] {
				case "max":
					sc = ^uint64(0)
				case "zero":
					sc = 0
				case "q":
					sc = mods[0]
				default:
					sc = d.rng.Uint64()
				}
				for i, q := range mods {
					sres[i] = sc % q
				}
			case -2:
				switch pp[1] {
				case "max":
					scBig.Lsh(big.NewInt(1), 200)
					scBig.Sub(scBig, big.NewInt(1))
				case "zero":
					scBig.SetInt64(0)
				case "q": // negative, magnitude within one word
					mags := []uint64{1, 3, 65536, ^uint64(0), d.rng.Uint64()}
					scBig.SetUint64(mags[d.rng.Intn(len(mags))])
					scBig.Neg(scBig)
				case "mix":
					scBig.SetInt64(-1)
					scBig.Mul(scBig, new(big.Int).SetUint64(d.rng.Uint64()))
					scBig.Lsh(scBig, 70)
					scBig.Sub(scBig, big.NewInt(12345))
				default:
					scBig.SetUint64(d.rng.Uint64())
				}
				for i, q := range mods {
					sres[i] = new(big.Int).Mod(scBig, new(big.Int).SetUint64(q)).Uint64()
				}
			}
			smv := make([]uint64, len(mods))
			if sp.Sm != 0 {
				for i, q := range mods {
					switch pp[0] {
					case "max", "qm1":
						smv[i] = q - 1
					case "zero":
						smv[i] = 0
					default:
						smv[i] = d.rng.Uint64() % q
					}
				}
			}
			var out [][]uint64
			if sp.Level == "sub" || (!ringOnly[name] && pi%2 == 0) {
				// SubRing entry point
				out = make([][]uint64, len(mods))
				for i := range mods {
					out[i] = callSub(r.SubRings[i], name, a[i], b[i], c[i], sres[i], smv[i])
				}
			} else {
				bb := b
				if sp.Inb == 0 {
					bb = nil
				}
				out = callRing(r, name, a, bb, c, sc, scBig, smv)
			}
			for i, q := range mods {
				if toy {
					p, f := d.next()
					d.w.Emit(ewEvent{Ev: "ew", Prog: p, Fork: f, Op: name, Q: q, N: n, A: a[i], B: b[i], C: c[i], S: sres[i], Sm: smv[i], Out: out[i], Pat: pp[0] + "/" + pp[1] + "/" + pp[2]})
					continue
				}
				qb := new(big.Int).SetUint64(q)
				for _, pos := range positions {
					env := map[string]*big.Int{
						"a": new(big.Int).SetUint64(a[i][pos]), "b": new(big.Int).SetUint64(b[i][pos]), "c": new(big.Int).SetUint64(c[i][pos]),
						"s": new(big.Int).SetUint64(sres[i]), "sm": new(big.Int).SetUint64(smv[i]), "out": new(big.Int).SetUint64(out[i][pos]), "R": two64,
					}
					w1, w2 := witnesses(sp, env, qb)
					p, f := d.next()
					d.w.Emit(certEvent{Ev: "cert", Prog: p, Fork: f, Op: name, Q: Limbs(qb), A: LimbsU(a[i][pos]), B: LimbsU(b[i][pos]), C: LimbsU(c[i][pos]),
						S: LimbsU(sres[i]), Sm: LimbsU(smv[i]), Out: LimbsU(out[i][pos]), W1: Limbs(w1), W2: Limbs(w2), Pat: pp[0] + "/" + pp[1] + "/" + pp[2], Pos: pos, Qv: q})
				}
			}
		}
	}
}

type structEvent struct {
	Ev   string     `json:"ev"`
	Prog int        `json:"prog"`
	Fork int        `json:"fork"`
	Q    uint64     `json:"q,omitempty"`
	N    int        `json:"n,omitempty"`
	Ci   bool       `json:"ci"`
	W    []uint64   `json:"w,omitempty"`
	A    []uint64   `json:"a,omitempty"`
	B    []uint64   `json:"b,omitempty"`
	C    []uint64   `json:"c,omitempty"`
	Out  []uint64   `json:"out,omitempty"`
	K    int        `json:"k"`
	Kin  int        `json:"kin"`
	G    uint64     `json:"g"`
	Kk   int        `json:"kk"`
	Acc  bool       `json:"acc"`
	S    uint64     `json:"s"`
	Ps   [][]uint64 `json:"ps,omitempty"`
	What string     `json:"what,omitempty"`
}

// structure runs NTT / INTT / products / automorphisms / monomials on one toy sub-ring.
func (d *driver) structure(r *ring.Ring, ci bool) {
	n := r.N()
	for i, s := range r.SubRings[:r.Level()+1] {
		q := s.Modulus
		rl := r.AtLevel(i)
		single := func(v []uint64) ring.Poly { // polynomial with v on modulus i (others zero)
			p := r.NewPoly()
			copy(p.Coeffs[i], v)
			return p
		}
		// the root vector is read off the implementation: NTT(X) (u_j = w_j + w_j^-1 for the CI ring)
		x := make([]uint64, n)
		x[1] = 1
		px := single(x)
		rl.NTT(px, px)
		d.prog++
		d.fork = 0
		d.w.Emit(structEvent{Ev: "roots", Prog: d.prog, Fork: 0, Q: q, N: n, Ci: ci, W: cp(px.Coeffs[i])})

		pats := []string{"rand", "max", "qm1", "mix", "ramp", "one", "zero", "rand"}
		for _, pat := range pats {
			a := d.pattern(pat, n, 1, q, true)
			// forward
			pa, po := single(a), r.NewPoly()
			s.NTT(a, po.Coeffs[i])
			p, f := d.next()
			d.w.Emit(structEvent{Ev: "ntt", Prog: p, Fork: f, A: a, Out: cp(po.Coeffs[i]), K: 1, Kin: 1, What: "NTT " + pat})
			s.NTTLazy(a, po.Coeffs[i])
			p, f = d.next()
			d.w.Emit(structEvent{Ev: "ntt", Prog: p, Fork: f, A: a, Out: cp(po.Coeffs[i]), K: 64, Kin: 1, What: "NTTLazy value " + pat})
			p, f = d.next()
			d.w.Emit(structEvent{Ev: "range", Prog: p, Fork: f, Q: q, N: n, Ci: ci, Out: cp(po.Coeffs[i]), K: 6, What: "NTTLazy range"})
			rl.NTT(pa, po)
			ahat := cp(po.Coeffs[i])
			// inverse (input: fully reduced transform, and an arbitrary vector)
			for _, in := range [][]uint64{ahat, a} {
				s.INTT(in, po.Coeffs[i])
				p, f = d.next()
				d.w.Emit(structEvent{Ev: "intt", Prog: p, Fork: f, A: in, Out: cp(po.Coeffs[i]), K: 1, Kin: 1, What: "INTT " + pat})
				s.INTTLazy(in, po.Coeffs[i])
				p, f = d.next()
				d.w.Emit(structEvent{Ev: "intt", Prog: p, Fork: f, A: in, Out: cp(po.Coeffs[i]), K: 2, Kin: 1, What: "INTTLazy " + pat})
			}
			// ring product through the transforms
			b := d.pattern("rand", n, 1, q, true)
			if pat == "max" {
				b = d.pattern("max", n, 1, q, true)
			}
			pb := single(b)
			rl.NTT(pb, pb)
			rl.MForm(pb, pb)
			pah := single(ahat)
			pc := r.NewPoly()
			rl.MulCoeffsMontgomery(pah, pb, pc)
			rl.INTT(pc, pc)
			p, f = d.next()
			d.w.Emit(structEvent{Ev: "mul", Prog: p, Fork: f, A: a, B: b, Out: cp(pc.Coeffs[i]), What: "INTT(NTT(a) o NTT(b)) " + pat})
			// lazy chain: NTTLazy output (< 6q is reduced first by ReduceLazy to < 2q) multiplied
		}
		// automorphisms
		nth := r.NthRoot()
		gals := []uint64{}
		for g := uint64(1); g < nth && len(gals) < 40; g += 2 {
			gals = append(gals, g)
		}
		if d.quick {
			gals = []uint64{3, 5, 25, nth - 1, nth - 3, nth/2 + 1, nth/2 - 1, 7}
		}
		if ci { // only the rotation subgroup <5> acts on the conjugate-invariant ring
			gals = gals[:0]
			g := uint64(1)
			for k := 0; k < n && k < 24; k++ {
				g = g * 5 % nth
				gals = append(gals, g)
			}
		}
		for gi, g := range gals {
			if g >= nth {
				continue
			}
			a := d.pattern([]string{"rand", "mix", "max"}[gi%3], n, 1, q, true)
			pa, po := single(a), r.NewPoly()
			if !ci {
				rl.Automorphism(pa, g, po)
				p, f := d.next()
				d.w.Emit(structEvent{Ev: "autom", Prog: p, Fork: f, A: a, G: g, Out: cp(po.Coeffs[i])})
			}
			rl.AutomorphismNTT(pa, g, po)
			p, f := d.next()
			d.w.Emit(structEvent{Ev: "automntt", Prog: p, Fork: f, A: a, G: g, Out: cp(po.Coeffs[i]), K: 1, C: make([]uint64, n)})
			idx, err := ring.AutomorphismNTTIndex(n, nth, g)
			if err == nil {
				c := d.pattern("rand", n, 1, q, true)
				pc := single(c)
				rl.AutomorphismNTTWithIndexThenAddLazy(pa, idx, pc)
				p, f = d.next()
				d.w.Emit(structEvent{Ev: "automntt", Prog: p, Fork: f, A: a, G: g, Out: cp(pc.Coeffs[i]), K: 2, C: c, Acc: true})
				rl.AutomorphismNTTWithIndex(pa, idx, po)
				p, f = d.next()
				d.w.Emit(structEvent{Ev: "automntt", Prog: p, Fork: f, A: a, G: g, Out: cp(po.Coeffs[i]), K: 1, C: make([]uint64, n)})
			}
		}
		// monomial products (standard ring semantics)
		if !ci {
			ks := []int{0, 1, -1, n - 1, n, n + 1, 2*n - 1, 2 * n, 2*n + 1, -n, -n - 1, -2 * n, -2*n + 1, 3 * n, 5*n + 3, 9} // k < -2N is outside the (undocumented) domain: the implementation reduces k + 2N
			for ki, k := range ks {
				a := d.pattern([]string{"rand", "mix", "max", "qm1"}[ki%4], n, 1, q, true)
				pa, po := single(a), r.NewPoly()
				rl.MultByMonomial(pa, k, po)
				p, f := d.next()
				d.w.Emit(structEvent{Ev: "monomial", Prog: p, Fork: f, Q: q, N: n, A: a, Kk: k, Out: cp(po.Coeffs[i])})
			}
		}
		// EvalPolyScalar
		for _, deg := range []int{1, 2, 5} {
			ps := make([][]uint64, deg+1)
			pp := make([]ring.Poly, deg+1)
			for j := range ps {
				ps[j] = d.pattern([]string{"rand", "max", "mix"}[j%3], n, 1, q, true)
				pp[j] = single(ps[j])
			}
			sc := []uint64{0, 1, q - 1, d.rng.Uint64()}[deg%4]
			po := r.NewPoly()
			rl.EvalPolyScalar(pp, sc, po)
			p, f := d.next()
			d.w.Emit(structEvent{Ev: "evalpoly", Prog: p, Fork: f, Q: q, N: n, Ps: ps, S: sc, Out: cp(po.Coeffs[i])})
		}
	}
}

// nttFriendlyPrimes returns the smallest and the largest prime of the given bit size with q = 1 mod m.
func nttFriendlyPrimes(bits int, m uint64) []uint64 {
	out := []uint64{}
	lo := uint64(1) << uint(bits-1)
	hi := uint64(1)<<uint(bits) - 1
	c := lo - lo%m + 1
	if c < lo {
		c += m
	}
	for ; c <= hi && c > 0; c += m {
		if new(big.Int).SetUint64(c).ProbablyPrime(32) {
			out = append(out, c)
			break
		}
	}
	c = hi - hi%m + 1
	if c > hi {
		c -= m
	}
	for ; c >= lo; c -= m {
		if new(big.Int).SetUint64(c).ProbablyPrime(32) {
			if len(out) == 0 || out[0] != c {
				out = append(out, c)
			}
			break
		}
	}
	return out
}

type eqEvent struct {
	Ev   string  `json:"ev"`
	Prog int     `json:"prog"`
	Fork int     `json:"fork"`
	What string  `json:"what"`
	X    [][]int `json:"x"`
	Y    [][]int `json:"y"`
}

func limbsVec(v []uint64) [][]int {
	out := make([][]int, len(v))
	for i := range v {
		out[i] = LimbsU(v[i])
	}
	return out
}

// realsize: element-wise certificates and NTT round trips / products at 5..61-bit moduli.
func (d *driver) realsize(bitsList []int) {
	n := 16
	positions := []int{0, 3, 7, 8, 12, 15}
	if !d.quick {
		positions = []int{0, 1, 2, 3, 4, 5, 6, 7, 8, 9, 10, 11, 12, 13, 14, 15}
	}
	for _, bits := range bitsList {
		for _, q := range nttFriendlyPrimes(bits, uint64(2*n)) {
			r, err := ring.NewRing(n, []uint64{q})
			if err != nil {
				continue // not accepted by the library: outside C01's scope (C19)
			}
			d.prog++
			d.fork = 0
			d.elementwise(r, false, positions)
			// NTT round trip and product at real size
			s := r.SubRings[0]
			for _, pat := range []string{"rand", "max", "mix"} {
				a := d.pattern(pat, n, 1, q, false)
				b := d.pattern("rand", n, 1, q, false)
				if pat == "max" {
					b = d.pattern("max", n, 1, q, false)
				}
				ah, back := make([]uint64, n), make([]uint64, n)
				s.NTT(a, ah)
				s.INTT(ah, back)
				p, f := d.next()
				d.w.Emit(eqEvent{Ev: "eq", Prog: p, Fork: f, What: fmt.Sprintf("INTT(NTT(a))=a q=%d %s", q, pat), X: limbsVec(back), Y: limbsVec(a)})
				s.NTTLazy(a, ah)
				s.Reduce(ah, ah)
				s.INTTLazy(ah, back)
				s.Reduce(back, back)
				p, f = d.next()
				d.w.Emit(eqEvent{Ev: "eq", Prog: p, Fork: f, What: fmt.Sprintf("Reduce(INTTLazy(Reduce(NTTLazy(a))))=a q=%d %s", q, pat), X: limbsVec(back), Y: limbsVec(a)})
				// product: INTT(NTT(a) o NTT(b)) against the negacyclic product computed with math/big
				bh, ch := make([]uint64, n), make([]uint64, n)
				s.NTT(a, ah)
				s.NTT(b, bh)
				s.MForm(bh, bh)
				s.MulCoeffsMontgomery(ah, bh, ch)
				s.INTT(ch, ch)
				want := negaMulBig(a, b, q)
				p, f = d.next()
				d.w.Emit(eqEvent{Ev: "eq", Prog: p, Fork: f, What: fmt.Sprintf("INTT(NTT(a)oNTT(b))=a*b q=%d %s", q, pat), X: limbsVec(ch), Y: limbsVec(want)})
			}
		}
	}
}

func negaMulBig(a, b []uint64, q uint64) []uint64 {
	n := len(a)
	qb := new(big.Int).SetUint64(q)
	acc := make([]*big.Int, n)
	for i := range acc {
		acc[i] = new(big.Int)
	}
	t := new(big.Int)
	for i := 0; i < n; i++ {
		for j := 0; j < n; j++ {
			t.Mul(new(big.Int).SetUint64(a[i]), new(big.Int).SetUint64(b[j]))
			k := i + j
			if k >= n {
				acc[k-n].Sub(acc[k-n], t)
			} else {
				acc[k].Add(acc[k], t)
			}
		}
	}
	out := make([]uint64, n)
	for i := range out {
		out[i] = acc[i].Mod(acc[i], qb).Uint64()
	}
	return out
}

// Main is the entry point of `vrun c01 record ...`.
func Main(args []string) int {
	fs := flag.NewFlagSet("c01", flag.ExitOnError)
	trace := fs.String("trace", "", "output ndjson trace")
	table := fs.String("table", "", "ringops.json")
	seed := fs.Int64("seed", 1, "seed")
	tier := fs.String("tier", "quick", "quick|thorough")
	part := fs.String("part", "all", "toy|real|all")
	fs.Parse(args[1:])
	d := &driver{rng: rand.New(rand.NewSource(*seed)), w: tr.NewWriter(*trace), quick: *tier == "quick"}
	defer d.w.Close()
	b, err := os.ReadFile(*table)
	tr.Must(err)
	tr.Must(json.Unmarshal(b, &d.table))
	for k := range d.table {
		d.names = append(d.names, k)
	}
	sort.Strings(d.names)

	if *part == "toy" || *part == "all" {
		type rc struct {
			n    int
			mods []uint64
			ci   bool
		}
		rings := []rc{{8, []uint64{17, 97, 113}, false}, {16, []uint64{97, 193, 257}, false}, {32, []uint64{193, 257, 449}, false},
			{8, []uint64{97, 193, 257}, true}, {16, []uint64{193, 257, 449}, true}, {32, []uint64{257, 641, 769}, true}}
		ri := 0
		for _, c := range rings {
			var r *ring.Ring
			var err error
			if c.ci {
				r, err = ring.NewRingConjugateInvariant(c.n, c.mods)
			} else {
				r, err = ring.NewRing(c.n, c.mods)
			}
			tr.Must(err)
			// every other ring is the one that comes back from its own binary encoding (same arithmetic, same type)
			if ri++; ri%2 == 0 {
				b, err := r.MarshalBinary()
				tr.Must(err)
				r2 := new(ring.Ring)
				tr.Must(r2.UnmarshalBinary(b))
				r = r2
			}
			if !c.ci {
				for lvl := 0; lvl <= r.Level(); lvl++ {
					if d.quick && lvl == 1 {
						continue
					}
					d.prog++
					d.fork = 0
					d.elementwise(r.AtLevel(lvl), true, nil)
				}
			}
			d.structure(r, c.ci)
		}
		// ringqp.Ring: Q and P side by side
		rq, err := ring.NewRing(16, []uint64{97, 193, 257})
		tr.Must(err)
		rp, err := ring.NewRing(16, []uint64{449, 577})
		tr.Must(err)
		d.elementwiseQP(rq, rp)
	}
	if *part == "real" || *part == "all" {
		bits := []int{61, 60, 59, 55, 50, 45, 40, 36, 33, 32, 31, 30, 25, 20, 16, 12, 8, 6}
		if d.quick {
			bits = []int{61, 60, 56, 45, 33, 31, 20, 9}
		}
		d.realsize(bits)
	}
	res := tr.Result{Events: d.w.N, Cases: d.prog}
	res.Print()
	return 0
}
