// Package c12 executes linear-transformation scenarios (TLC-enumerated for 4 slots per row, sampled for more) on
// the bgv and ckks lintrans evaluators, each with a key set holding exactly the advertised Galois keys, and records
// the decoded vectors for validation against spec/LinTrans.tla.
package c12

import (
	"bufio"
	"encoding/json"
	"flag"
	"fmt"
	"math"
	"math/big"
	"math/rand"
	"os"
	"sort"

	bgvlt "github.com/tuneinsight/lattigo/v6/circuits/bgv/lintrans"
	ckkslt "github.com/tuneinsight/lattigo/v6/circuits/ckks/lintrans"
	"github.com/tuneinsight/lattigo/v6/core/rlwe"
	"github.com/tuneinsight/lattigo/v6/ring"
	"github.com/tuneinsight/lattigo/v6/schemes/bgv"
	"github.com/tuneinsight/lattigo/v6/schemes/ckks"
	"github.com/tuneinsight/lattigo/v6/utils/sampling"

	"verif/harness/internal/tr"
)

type ev map[string]interface{}

type matCfg struct {
	Ks    []int `json:"ks"`
	Ratio int   `json:"ratio"`
	Lvl   int   `json:"lvl"`
}

type scen struct {
	Set     string   `json:"set"`
	H       int      `json:"h"`
	Mode    string   `json:"mode"`
	LvlIn   int      `json:"lvlin"`
	LvlRecv int      `json:"lvlrecv"`
	LvlP    int      `json:"lvlp"`
	Mats    []matCfg `json:"mats"`
	Kind    string   `json:"kind"` // random | ones | perm
}

type mat [][][2]int64 // rows x h x (re, im)

// recKS exposes exactly the advertised Galois keys (at one P level) and records every request
type recKS struct {
	adv     map[uint64]bool
	cache   map[[2]uint64]*rlwe.GaloisKey
	gen     func(g uint64, lvlp int) *rlwe.GaloisKey
	lvlp    int
	req     []uint64
	missing bool
}

func (k *recKS) GetGaloisKey(g uint64) (*rlwe.GaloisKey, error) {
	k.req = append(k.req, g)
	if !k.adv[g] {
		k.missing = true
		return nil, fmt.Errorf("GaloisKey[%d] was not advertised", g)
	}
	id := [2]uint64{g, uint64(k.lvlp)}
	if gk, ok := k.cache[id]; ok {
		return gk, nil
	}
	gk := k.gen(g, k.lvlp)
	k.cache[id] = gk
	return gk, nil
}
func (k *recKS) GetGaloisKeysList() (l []uint64) {
	for g := range k.adv {
		l = append(l, g)
	}
	return
}
func (k *recKS) GetRelinearizationKey() (*rlwe.RelinearizationKey, error) {
	return nil, fmt.Errorf("no relinearization key")
}
func (k *recKS) ShallowCopy() rlwe.EvaluationKeySet { return k }

type setCtx struct {
	name   string
	scheme string
	bp     bgv.Parameters
	cp     ckks.Parameters
	rp     rlwe.Parameters
	sk     *rlwe.SecretKey
	becd   *bgv.Encoder
	cecd   *ckks.Encoder
	enc    *rlwe.Encryptor
	dec    *rlwe.Decryptor
	ks     *recKS
	beval  *bgv.Evaluator
	ceval  *ckks.Evaluator
	T      uint64
	h      int
	rows   int
	logd   ring.Dimensions
	real   bool
	maxLvl int
}

type setDef struct {
	Name   string `json:"name"`
	Scheme string `json:"scheme"`
	H      int    `json:"h"`
	MaxLvl int    `json:"maxlvl"`
	NP     int    `json:"np"`
	bl     bgv.ParametersLiteral
	cl     ckks.ParametersLiteral
	logS   int
}

var setDefs = []setDef{
	{Name: "bgv-2x4", Scheme: "bgv", H: 4, MaxLvl: 2, NP: 1, bl: bgv.ParametersLiteral{LogN: 10, LogQ: []int{56, 46, 46}, LogP: []int{56}, PlaintextModulus: 17}},
	{Name: "bgv-2x8-2P", Scheme: "bgv", H: 8, MaxLvl: 2, NP: 2, bl: bgv.ParametersLiteral{LogN: 10, LogQ: []int{56, 46, 46}, LogP: []int{57, 57}, PlaintextModulus: 97}},
	{Name: "bgv-2x16-full", Scheme: "bgv", H: 16, MaxLvl: 1, NP: 1, bl: bgv.ParametersLiteral{LogN: 5, LogQ: []int{56, 46}, LogP: []int{56}, PlaintextModulus: 193}},
	{Name: "ckks-4", Scheme: "ckks", H: 4, MaxLvl: 2, NP: 1, cl: ckks.ParametersLiteral{LogN: 10, LogQ: []int{60, 45, 45}, LogP: []int{55}, LogDefaultScale: 25}, logS: 2},
	{Name: "ckks-8-2P", Scheme: "ckks", H: 8, MaxLvl: 3, NP: 2, cl: ckks.ParametersLiteral{LogN: 10, LogQ: []int{58, 45, 45, 45}, LogP: []int{60, 60}, LogDefaultScale: 25}, logS: 3},
	{Name: "ckks-16-full", Scheme: "ckks", H: 16, MaxLvl: 2, NP: 1, cl: ckks.ParametersLiteral{LogN: 5, LogQ: []int{60, 45, 45}, LogP: []int{55}, LogDefaultScale: 25}, logS: 4},
	// 64 slots with a 60-bit prime in the chain: dense matrices reach baby-step blocks of 8 diagonals, the lazy-accumulation threshold
	{Name: "ckks-64-q60", Scheme: "ckks", H: 64, MaxLvl: 1, NP: 1, cl: ckks.ParametersLiteral{LogN: 7, LogQ: []int{60, 45}, LogP: []int{61}, LogDefaultScale: 25}, logS: 6},
	{Name: "bgv-2x64-q60", Scheme: "bgv", H: 64, MaxLvl: 1, NP: 1, bl: bgv.ParametersLiteral{LogN: 7, LogQ: []int{60, 46}, LogP: []int{61}, PlaintextModulus: 257}},
	{Name: "ckks-ci-8", Scheme: "ckks", H: 8, MaxLvl: 2, NP: 1, cl: ckks.ParametersLiteral{LogN: 10, LogQ: []int{60, 45, 45}, LogP: []int{55}, LogDefaultScale: 25, RingType: ring.ConjugateInvariant}, logS: 3},
}

var ctxs = map[string]*setCtx{}

func getCtx(name string) *setCtx {
	if c, ok := ctxs[name]; ok {
		return c
	}
	var def setDef
	for _, d := range setDefs {
		if d.Name == name {
			def = d
		}
	}
	c := &setCtx{name: name, scheme: def.Scheme, h: def.H, maxLvl: def.MaxLvl}
	if def.Scheme == "bgv" {
		p, err := bgv.NewParametersFromLiteral(def.bl)
		tr.Must(err)
		c.bp, c.rp, c.T, c.rows = p, p.Parameters, p.PlaintextModulus(), 2
		c.logd = p.LogMaxDimensions()
		c.becd = bgv.NewEncoder(p)
	} else {
		p, err := ckks.NewParametersFromLiteral(def.cl)
		tr.Must(err)
		c.cp, c.rp, c.rows = p, p.Parameters, 1
		c.logd = ring.Dimensions{Rows: 0, Cols: def.logS}
		c.cecd = ckks.NewEncoder(p)
		c.real = p.RingType() == ring.ConjugateInvariant
	}
	if 1<<c.logd.Cols != c.h {
		panic(fmt.Sprintf("%s: h=%d but cols=%d", name, c.h, 1<<c.logd.Cols))
	}
	kg := rlwe.NewKeyGenerator(c.rp)
	c.sk = kg.GenSecretKeyNew()
	c.enc = rlwe.NewEncryptor(c.rp, c.sk)
	c.dec = rlwe.NewDecryptor(c.rp, c.sk)
	c.ks = &recKS{cache: map[[2]uint64]*rlwe.GaloisKey{}, gen: func(g uint64, lvlp int) *rlwe.GaloisKey {
		return kg.GenGaloisKeyNew(g, c.sk, rlwe.EvaluationKeyParameters{LevelP: &lvlp})
	}}
	c.ks.adv = map[uint64]bool{}
	if def.Scheme == "bgv" {
		c.beval = bgv.NewEvaluator(c.bp, c.ks)
	} else {
		c.ceval = ckks.NewEvaluator(c.cp, c.ks)
	}
	ctxs[name] = c
	return c
}

func guarded(f func() error) (err error, pan bool, msg string) {
	defer func() {
		if r := recover(); r != nil {
			pan, msg = true, fmt.Sprint(r)
			if len(msg) > 150 {
				msg = msg[:150]
			}
		}
	}()
	if err = f(); err != nil {
		msg = err.Error()
		if len(msg) > 150 {
			msg = msg[:150]
		}
	}
	return
}

func (c *setCtx) newMat() mat {
	m := make(mat, c.rows)
	for r := range m {
		m[r] = make([][2]int64, c.h)
	}
	return m
}

func (c *setCtx) randMat(rng *rand.Rand, kind string, small int64) mat {
	m := c.newMat()
	for r := range m {
		for j := range m[r] {
			switch {
			case kind == "ones":
				m[r][j] = [2]int64{1, 0}
			case c.scheme == "bgv":
				m[r][j] = [2]int64{int64(rng.Uint64() % c.T), 0}
			default:
				m[r][j] = [2]int64{rng.Int63n(2*small+1) - small, rng.Int63n(2*small+1) - small}
				if c.real {
					m[r][j][1] = 0
				}
			}
		}
	}
	if kind == "sparse" { // a diagonal with a single non-zero entry per row
		for r := range m {
			keep := rng.Intn(c.h)
			for j := range m[r] {
				if j != keep {
					m[r][j] = [2]int64{}
				}
			}
		}
	}
	return m
}

// permDiags draws, for every slot, at most one of the diagonals ks (so every slot receives from one slot) with a
// scaling factor, and lets the library's Permutation.GetDiagonals build the diagonals.
func (c *setCtx) permDiags(rng *rand.Rand, ks []int) (map[int]mat, []ev) {
	var perm []ev
	var bperm bgvlt.Permutation[uint64]
	var cperm ckkslt.Permutation[complex128]
	for r := 0; r < c.rows; r++ {
		for to := 0; to < c.h; to++ {
			if len(ks) == 0 || (rng.Intn(4) == 0 && !(r == c.rows-1 && to == c.h-1 && len(perm) == 0)) {
				continue
			}
			k := ks[rng.Intn(len(ks))]
			from := ((to+k)%c.h + c.h) % c.h
			if c.scheme == "bgv" {
				sc := 1 + rng.Uint64()%(c.T-1)
				bperm[r] = append(bperm[r], bgvlt.PermutationMapping[uint64]{From: from, To: to, Scaling: sc})
				perm = append(perm, ev{"r": r, "from": from, "to": to, "sc": [2]int64{int64(sc), 0}})
			} else {
				re, im := rng.Int63n(7)-3, rng.Int63n(7)-3
				if c.real {
					im = 0
				}
				if re == 0 && im == 0 {
					re = 1
				}
				cperm = append(cperm, ckkslt.PermutationMapping[complex128]{From: from, To: to, Scaling: complex(float64(re), float64(im))})
				perm = append(perm, ev{"r": r, "from": from, "to": to, "sc": [2]int64{re, im}})
			}
		}
	}
	dm := map[int]mat{}
	if c.scheme == "bgv" {
		for k, v := range bperm.GetDiagonals(c.logd.Cols + 1) {
			m := c.newMat()
			for r := range m {
				for j := range m[r] {
					m[r][j] = [2]int64{int64(v[r*c.h+j]), 0}
				}
			}
			dm[k] = m
		}
	} else {
		for k, v := range cperm.GetDiagonals(c.logd.Cols) {
			m := c.newMat()
			for j := range m[0] {
				m[0][j] = [2]int64{int64(real(v[j])), int64(imag(v[j]))}
			}
			dm[k] = m
		}
	}
	return dm, perm
}

func (c *setCtx) bgvVec(m mat) []uint64 {
	v := make([]uint64, c.rows*c.h)
	for r := range m {
		for j := range m[r] {
			v[r*c.h+j] = uint64(m[r][j][0])
		}
	}
	return v
}

func (c *setCtx) ckksVec(m mat) []complex128 {
	v := make([]complex128, c.h)
	for j := range m[0] {
		v[j] = complex(float64(m[0][j][0]), float64(m[0][j][1]))
	}
	return v
}

func (c *setCtx) encrypt(x mat, lvl int) *rlwe.Ciphertext {
	var pt *rlwe.Plaintext
	if c.scheme == "bgv" {
		pt = bgv.NewPlaintext(c.bp, lvl)
		tr.Must(c.becd.Encode(c.bgvVec(x), pt))
	} else {
		pt = ckks.NewPlaintext(c.cp, lvl)
		pt.LogDimensions = c.logd
		tr.Must(c.cecd.Encode(c.ckksVec(x), pt))
	}
	ct, err := c.enc.EncryptNew(pt)
	tr.Must(err)
	return ct
}

func (c *setCtx) decode(ct *rlwe.Ciphertext) (mat, bool) {
	m := c.newMat()
	if ct == nil {
		return m, false
	}
	pt := c.dec.DecryptNew(ct)
	if c.scheme == "bgv" {
		v := make([]uint64, c.rows*c.h)
		if c.becd.Decode(pt, v) != nil {
			return m, false
		}
		for r := range m {
			for j := range m[r] {
				m[r][j] = [2]int64{int64(v[r*c.h+j]), 0}
			}
		}
		return m, true
	}
	if pt.LogDimensions != c.logd {
		return m, false
	}
	v := make([]complex128, c.h)
	if c.cecd.Decode(pt, v) != nil {
		return m, false
	}
	cons := true
	for i := range v {
		re, im := math.Round(real(v[i])), math.Round(imag(v[i]))
		if math.Abs(re-real(v[i])) > 1.0/64 || math.Abs(im-imag(v[i])) > 1.0/64 || math.IsNaN(re) || math.IsNaN(im) || math.Abs(re) > 1e9 || math.Abs(im) > 1e9 {
			cons = false
			re, im = 0, 0
		}
		m[0][i] = [2]int64{int64(re), int64(im)}
	}
	return m, cons
}

func ls(s rlwe.Scale) int64 {
	f, _ := s.Value.Float64()
	return int64(math.Round(math.Log2(f) * (1 << 20)))
}

type ltAny struct {
	b bgvlt.LinearTransformation
	c ckkslt.LinearTransformation
}

func (c *setCtx) run(sc scen, rng *rand.Rand) []ev {
	M := c.rp.RingQ().NthRoot()
	base := func() ev {
		return ev{"ev": "lt", "set": c.name, "scheme": c.scheme, "T": c.T, "M": M, "h": c.h, "rows": c.rows, "mode": sc.Mode, "lvlin": sc.LvlIn, "lvlrecv": sc.LvlRecv, "lvlp": sc.LvlP, "kind": sc.Kind, "cfg": sc}
	}
	x := c.randMat(rng, "random", 9)
	ct := c.encrypt(x, sc.LvlIn)
	type matRec struct {
		Diags []ev  `json:"diags"`
		Lvl   int   `json:"lvl"`
		Ratio int   `json:"ratio"`
		N1    int   `json:"n1"`
		Sc    int64 `json:"sc"`
		Perm  []ev  `json:"perm"`
		IsPerm bool `json:"isperm"`
	}
	var mats []matRec
	var lts []ltAny
	adv := map[uint64]bool{}
	// level at which each matrix of a sequence acts (a rescale follows every matrix)
	cur := sc.LvlIn
	var setupErr string
	for i, mc := range sc.Mats {
		dm := map[int]mat{}
		var drec []ev
		var perm []ev
		if sc.Kind == "perm" {
			// a slot mapping restricted to the chosen diagonals, turned into diagonals by Permutation.GetDiagonals
			dm, perm = c.permDiags(rng, mc.Ks)
			mc.Ks = mc.Ks[:0:0]
			for k := range dm {
				mc.Ks = append(mc.Ks, k)
			}
			sort.Ints(mc.Ks)
			for _, k := range mc.Ks {
				drec = append(drec, ev{"k": k, "v": dm[k]})
			}
		} else {
			for _, k := range mc.Ks {
				kind := sc.Kind
				d := c.randMat(rng, kind, 3)
				dm[k] = d
				drec = append(drec, ev{"k": k, "v": d})
			}
		}
		lvlAct := mc.Lvl
		if cur < lvlAct {
			lvlAct = cur
		}
		rec := matRec{Diags: drec, Lvl: mc.Lvl, Ratio: mc.Ratio, Perm: perm, IsPerm: sc.Kind == "perm"}
		if rec.Perm == nil {
			rec.Perm = []ev{}
		}
		var one ltAny
		err, pan, msg := guarded(func() error {
			if c.scheme == "bgv" {
				s := uint64(1 + rng.Intn(int(c.T-1)))
				if i%2 == 0 {
					s = 1
				}
				rec.Sc = int64(s)
				msc := c.bp.NewScale(s)
				if rng.Intn(2) == 0 {
					msc = rlwe.NewScale(s) // a plain scale, without the plaintext modulus attached
				}
				lp := bgvlt.Parameters{DiagonalsIndexList: mc.Ks, LevelQ: mc.Lvl, LevelP: sc.LvlP, Scale: msc, LogDimensions: c.logd, LogBabyStepGiantStepRatio: mc.Ratio}
				lt := bgvlt.NewLinearTransformation(c.bp, lp)
				dg := bgvlt.Diagonals[uint64]{}
				for k, d := range dm {
					dg[k] = c.bgvVec(d)
				}
				if err := bgvlt.Encode(c.becd, dg, lt); err != nil {
					return err
				}
				for _, g := range lt.GaloisElements(c.bp) {
					adv[g] = true
				}
				rec.N1 = lt.N1
				one.b = lt
			} else {
				// a sequence rescales after every matrix: the matrix scale is the modulus removed; otherwise 2^20,
				// which keeps value * 2^25 * 2^20 below the 60-bit modulus of level 0
				scale := rlwe.NewScale(1 << 20)
				if sc.Mode == "seq" || sc.Mode == "seqnew" {
					scale = rlwe.NewScale(c.cp.Q()[lvlAct])
				}
				rec.Sc = ls(scale)
				lp := ckkslt.Parameters{DiagonalsIndexList: mc.Ks, LevelQ: mc.Lvl, LevelP: sc.LvlP, Scale: scale, LogDimensions: c.logd, LogBabyStepGiantStepRatio: mc.Ratio}
				lt := ckkslt.NewTransformation(c.cp, lp)
				dg := ckkslt.Diagonals[complex128]{}
				for k, d := range dm {
					dg[k] = c.ckksVec(d)
				}
				if err := ckkslt.Encode(c.cecd, dg, lt); err != nil {
					return err
				}
				for _, g := range ckkslt.GaloisElements(c.cp, lp) {
					adv[g] = true
				}
				rec.N1 = lt.N1
				one.c = lt
			}
			return nil
		})
		if err != nil || pan {
			setupErr = fmt.Sprintf("encode matrix %d: %s", i, msg)
			break
		}
		mats = append(mats, rec)
		lts = append(lts, one)
		if sc.Mode == "seq" || sc.Mode == "seqnew" {
			cur = lvlAct - 1
		}
	}
	if setupErr != "" {
		e := base()
		e["err"], e["panic"], e["msg"], e["mats"], e["x"], e["out"], e["cons"] = true, false, setupErr, []int{}, x, x, false
		e["adv"], e["req"], e["lvlout"], e["scin"], e["scout"], e["qf"] = []uint64{}, []uint64{}, -1, 0, 0, []int64{}
		return []ev{e}
	}
	advl := []uint64{}
	for g := range adv {
		advl = append(advl, g)
	}
	sort.Slice(advl, func(i, j int) bool { return advl[i] < advl[j] })
	c.ks.adv, c.ks.req, c.ks.missing, c.ks.lvlp = adv, nil, false, sc.LvlP

	recv := func() *rlwe.Ciphertext {
		out := rlwe.NewCiphertext(c.rp, 1, sc.LvlRecv)
		for i := range out.Value { // a reused receiver
			ring.NewUniformSampler(prng(), c.rp.RingQ().AtLevel(sc.LvlRecv)).Read(out.Value[i])
		}
		return out
	}
	var outs []*rlwe.Ciphertext
	err, pan, msg := guarded(func() error {
		if c.scheme == "bgv" {
			le := bgvlt.NewEvaluator(c.beval)
			bl := make([]bgvlt.LinearTransformation, len(lts))
			for i := range lts {
				bl[i] = lts[i].b
			}
			switch sc.Mode {
			case "single":
				o := recv()
				outs = []*rlwe.Ciphertext{o}
				return le.Evaluate(ct, bl[0], o)
			case "new":
				o, err := le.EvaluateNew(ct, bl[0])
				outs = []*rlwe.Ciphertext{o}
				return err
			case "many":
				for range bl {
					outs = append(outs, recv())
				}
				return le.EvaluateMany(ct, bl, outs)
			case "manynew":
				var err error
				outs, err = le.EvaluateManyNew(ct, bl)
				return err
			case "seq":
				o := recv()
				outs = []*rlwe.Ciphertext{o}
				return le.EvaluateSequential(ct, bl, o)
			case "seqnew":
				o, err := le.EvaluateSequentialNew(ct, bl)
				outs = []*rlwe.Ciphertext{o}
				return err
			}
		} else {
			le := ckkslt.NewEvaluator(c.ceval)
			cl := make([]ckkslt.LinearTransformation, len(lts))
			for i := range lts {
				cl[i] = lts[i].c
			}
			switch sc.Mode {
			case "single":
				o := recv()
				outs = []*rlwe.Ciphertext{o}
				return le.Evaluate(ct, cl[0], o)
			case "new":
				o, err := le.EvaluateNew(ct, cl[0])
				outs = []*rlwe.Ciphertext{o}
				return err
			case "many":
				for range cl {
					outs = append(outs, recv())
				}
				return le.EvaluateMany(ct, cl, outs)
			case "manynew":
				var err error
				outs, err = le.EvaluateManyNew(ct, cl)
				return err
			case "seq":
				o := recv()
				outs = []*rlwe.Ciphertext{o}
				return le.EvaluateSequential(ct, cl, o)
			case "seqnew":
				o, err := le.EvaluateSequentialNew(ct, cl)
				outs = []*rlwe.Ciphertext{o}
				return err
			}
		}
		return fmt.Errorf("unknown mode %s", sc.Mode)
	})
	req := append([]uint64{}, c.ks.req...)
	// the input must be left as it was
	xin, _ := c.decode(ct)
	inOK := fmt.Sprint(xin) == fmt.Sprint(x) && ct.Level() == sc.LvlIn
	seq := sc.Mode == "seq" || sc.Mode == "seqnew"
	var evs []ev
	nOut := len(mats)
	if seq {
		nOut = 1
	}
	for i := 0; i < nOut; i++ {
		e := base()
		e["err"], e["panic"], e["msg"], e["adv"], e["req"], e["x"], e["inok"], e["idx"] = err != nil, pan, msg, advl, req, x, inOK, i
		if seq {
			e["mats"] = mats
		} else {
			e["mats"] = mats[i : i+1]
		}
		var o *rlwe.Ciphertext
		if err == nil && !pan && i < len(outs) {
			o = outs[i]
		}
		out, cons := c.decode(o)
		e["out"], e["cons"] = out, cons
		e["lvlout"], e["scin"], e["scout"] = -1, 0, 0
		qf := []int64{}
		if o != nil {
			e["lvlout"] = o.Level()
			if c.scheme == "bgv" {
				e["scin"], e["scout"] = int64(ct.Scale.Uint64()), int64(o.Scale.Uint64())
			} else {
				e["scin"], e["scout"] = ls(ct.Scale), ls(o.Scale)
			}
		}
		if seq { // the rescale constants of the model: q_l mod T (bgv), log2 q_l (ckks) at the level each matrix acts
			cur := sc.LvlIn
			for _, mc := range sc.Mats {
				l := mc.Lvl
				if cur < l {
					l = cur
				}
				if l < 0 {
					l = 0
				}
				q := c.rp.Q()[l]
				if c.scheme == "bgv" {
					qf = append(qf, int64(new(big.Int).Mod(new(big.Int).SetUint64(q), new(big.Int).SetUint64(c.T)).Uint64()))
				} else {
					qf = append(qf, ls(rlwe.NewScale(q)))
				}
				cur = l - 1
			}
		}
		e["qf"] = qf
		evs = append(evs, e)
	}
	return evs
}

var prngCtr int

func prng() sampling.PRNG {
	prngCtr++
	p, err := sampling.NewKeyedPRNG([]byte(fmt.Sprintf("c12-%d", prngCtr)))
	tr.Must(err)
	return p
}

// ---- sampler for the larger dimensions
func sample(rng *rand.Rand, def setDef, quick bool) scen {
	h := def.H
	pickKs := func() []int {
		var ks []int
		style := rng.Intn(5)
		for r := 0; r < h; r++ {
			var take bool
			switch style {
			case 0:
				take = rng.Intn(2) == 0
			case 1:
				take = rng.Intn(4) == 0
			case 2:
				take = true
			case 3:
				take = r%4 == 0 || rng.Intn(6) == 0 // multiples of N1 candidates
			default:
				take = r < 3
			}
			if !take {
				continue
			}
			k := r
			if r > 0 && rng.Intn(3) == 0 {
				k = r - h
			}
			ks = append(ks, k)
		}
		if len(ks) == 0 {
			ks = []int{rng.Intn(h)}
		}
		return ks
	}
	modes := []string{"single", "new", "many", "manynew", "seq", "seqnew"}
	sc := scen{Set: def.Name, H: h, Mode: modes[rng.Intn(len(modes))], LvlP: rng.Intn(def.NP), Kind: []string{"random", "random", "ones", "sparse", "perm", "perm"}[rng.Intn(6)]}
	n := 1
	if sc.Mode != "single" && sc.Mode != "new" {
		n = 2 + rng.Intn(2)
	}
	seq := sc.Mode == "seq" || sc.Mode == "seqnew"
	sc.LvlIn = rng.Intn(def.MaxLvl + 1)
	if seq && sc.LvlIn < n {
		sc.LvlIn = def.MaxLvl
		if n > def.MaxLvl {
			n = def.MaxLvl
		}
	}
	sc.LvlRecv = rng.Intn(def.MaxLvl + 1)
	for i := 0; i < n; i++ {
		m := matCfg{Ks: pickKs(), Ratio: []int{-1, 0, 1, 2, 0, 1}[rng.Intn(6)], Lvl: rng.Intn(def.MaxLvl + 1)}
		if seq && m.Lvl < n-i {
			m.Lvl = def.MaxLvl
		}
		sc.Mats = append(sc.Mats, m)
	}
	if seq {
		sc.LvlRecv = def.MaxLvl
	}
	return sc
}

// Main: vrun c12 sets | exec --cfgs f --trace out [--samples n]
func Main(args []string) int {
	fs := flag.NewFlagSet("c12", flag.ExitOnError)
	cfgs := fs.String("cfgs", "", "TLC-generated scenarios (one JSON record per line)")
	trace := fs.String("trace", "", "trace")
	seed := fs.Int64("seed", 1, "seed")
	samples := fs.Int("samples", 0, "number of sampled scenarios per parameter set")
	only := fs.String("set", "", "restrict to one parameter set")
	fs.Parse(args[1:])
	if args[0] == "sets" {
		b, _ := json.Marshal(setDefs)
		fmt.Println(string(b))
		return 0
	}
	tr.Seed(uint64(*seed))
	rng := rand.New(rand.NewSource(*seed))
	w := tr.NewWriter(*trace)
	defer w.Close()
	n := 0
	emit := func(sc scen) {
		n++
		c := getCtx(sc.Set)
		for i, e := range c.run(sc, rng) {
			e["prog"], e["fork"], e["indep"] = n, i+1, true
			w.Emit(e)
		}
	}
	if *cfgs != "" {
		f, err := os.Open(*cfgs)
		tr.Must(err)
		sc := bufio.NewScanner(f)
		sc.Buffer(make([]byte, 1<<20), 1<<24)
		for sc.Scan() {
			var s scen
			tr.Must(json.Unmarshal(sc.Bytes(), &s))
			for _, d := range setDefs {
				if d.H == s.H && (*only == "" || *only == d.Name) && (s.Set == "" || s.Set == d.Name) {
					s2 := s
					s2.Set = d.Name
					if s2.LvlIn > d.MaxLvl {
						s2.LvlIn = d.MaxLvl
					}
					emit(s2)
				}
			}
		}
		f.Close()
	}
	for _, d := range setDefs {
		if *only != "" && *only != d.Name {
			continue
		}
		for i := 0; i < *samples; i++ {
			emit(sample(rng, d, true))
		}
		// dense matrices (every diagonal) at every ratio: the longest baby-step blocks, where the lazy accumulation of the
		// inner loop reaches its reduction threshold when a 60-bit prime is in the chain
		if *samples > 0 {
			all := make([]int, d.H)
			for i := range all {
				all[i] = i
			}
			for _, ratio := range []int{0, 1, 2, 3} {
				for _, kind := range []string{"random", "ones"} {
					emit(scen{Set: d.Name, H: d.H, Mode: "new", LvlIn: d.MaxLvl, LvlRecv: d.MaxLvl, LvlP: 0, Kind: kind,
						Mats: []matCfg{{Ks: all, Ratio: ratio, Lvl: d.MaxLvl}}})
				}
			}
		}
	}
	res := tr.Result{Events: w.N, Cases: n}
	res.Print()
	return 0
}
