// Package c20 drives rgsw external products (every code path: 32-bit, single auxiliary prime / bit
// decomposition, several auxiliary primes; in place and out of place; RGSW-level additions and
// multiplications by X^alpha - 1) on a ring of degree 16 so that TLC can recompute the negacyclic product,
// and blind rotations over every point of the discretisation grid, and records them for validation against
// spec/RgswTrace.tla.
package c20

import (
	"bufio"
	"encoding/json"
	"flag"
	"fmt"
	"math"
	"math/big"
	"os"
	"sort"

	"github.com/tuneinsight/lattigo/v6/core/rgsw"
	"github.com/tuneinsight/lattigo/v6/core/rgsw/blindrot"
	"github.com/tuneinsight/lattigo/v6/core/rlwe"
	"github.com/tuneinsight/lattigo/v6/ring"
	"github.com/tuneinsight/lattigo/v6/ring/ringqp"

	"verif/harness/internal/c19"
	"verif/harness/internal/tr"
)

type config struct {
	Set      string `json:"set"`
	InPlace  bool   `json:"inplace"`
	LowLevel bool   `json:"lowlevel"`
	MCls     string `json:"mcls"`
	GCls     string `json:"gcls"`
	GOp      string `json:"gop"`
}

type event struct {
	Ev        string  `json:"ev"`
	Prog      int     `json:"prog"`
	Fork      int     `json:"fork"`
	Cfg       *config `json:"cfg,omitempty"`
	M         []int   `json:"m,omitempty"`
	G         []int   `json:"g,omitempty"`
	G2        []int   `json:"g2,omitempty"`
	GOp       string  `json:"gop,omitempty"`
	Alpha     int     `json:"alpha"`
	Got       []int   `json:"got,omitempty"`
	Noise     int     `json:"noise"`
	InNoise   int     `json:"innoise"`
	LgG1      int     `json:"lgg1"`
	LogN      int     `json:"logn"`
	LgDigits  int     `json:"lgdigits"`
	DigitBits int     `json:"digitbits"`
	LgP       int     `json:"lgp"`
	Path      string  `json:"path,omitempty"`
	Err       bool    `json:"err"`
	Panic     bool    `json:"panic"`
	Msg       string  `json:"msg,omitempty"`
	// blind rotation
	NBR     int      `json:"nbr,omitempty"`
	Tbl     []int    `json:"tbl,omitempty"`
	K       int      `json:"k"`
	D       int      `json:"d"`
	GotV    int      `json:"-"`
	F       string   `json:"f,omitempty"`
	H       int      `json:"h,omitempty"`
	Slot    int      `json:"slot"`
	ReqBrk  []int    `json:"reqbrk,omitempty"`
	ProvBrk []int    `json:"provbrk,omitempty"`
	ReqGal  []uint64 `json:"reqgal,omitempty"`
	ProvGal []uint64 `json:"provgal,omitempty"`
	Dense   bool     `json:"dense"`
}

type brEvent struct {
	Ev    string `json:"ev"`
	Prog  int    `json:"prog"`
	Fork  int    `json:"fork"`
	K     int    `json:"k"`
	D     int    `json:"d"`
	Got   int    `json:"got"`
	Slot  int    `json:"slot"`
	F     string `json:"f"`
	H     int    `json:"h"`
	Triv  bool   `json:"trivial"`
	Err   bool   `json:"err"`
	Panic bool   `json:"panic"`
	Msg   string `json:"msg,omitempty"`
}

type pset struct {
	p     rlwe.Parameters
	base2 int
}

const logN = 4

func paramSets() map[string]pset {
	nth := uint64(2 << logN)
	av := map[uint64]bool{}
	mk := func(qbits, pbits []int, base2 int) pset {
		var q, p []uint64
		for _, b := range qbits {
			q = append(q, c19.Primes(b, nth, 1, av)...)
		}
		for _, b := range pbits {
			p = append(p, c19.Primes(b, nth, 1, av)...)
		}
		prm, err := rlwe.NewParametersFromLiteral(rlwe.ParametersLiteral{LogN: logN, Q: q, P: p, NTTFlag: true})
		tr.Must(err)
		return pset{prm, base2}
	}
	return map[string]pset{
		"q28":     mk([]int{28}, nil, 7),
		"q28b4":   mk([]int{28}, nil, 4),
		"q55":     mk([]int{55}, nil, 16),
		"q2p1":    mk([]int{50, 40}, []int{55}, 0),
		"q2p1b20": mk([]int{50, 40}, []int{55}, 20),
		"q2p2":    mk([]int{50, 40}, []int{45, 45}, 0),
		"q3p2":    mk([]int{45, 40, 40}, []int{50, 50}, 0),
		"q28p1":   mk([]int{28}, []int{30}, 7),
		"q28p1b0": mk([]int{28}, []int{30}, 0),
		"q28p2":   mk([]int{28}, []int{30, 30}, 0),
		"q2lowp1": mk([]int{28, 40}, []int{45}, 7),
	}
}

func vec(cls string, n int, seed int) []int {
	v := make([]int, n)
	switch cls {
	case "one":
		v[0] = 1
	case "mono":
		v[(seed*5+3)%n] = 1
	case "negmono":
		v[(seed*7+1)%n] = -1
	case "const":
		v[0] = 2
	case "ternary":
		for i := 0; i < 4; i++ {
			v[(seed*3+i*5)%n] = 1 - 2*((seed+i)%2)
		}
	case "dense":
		for i := range v {
			v[i] = (seed+i*i)%3 - 1
		}
	}
	return v
}

func l1(v []int) int {
	s := 0
	for _, x := range v {
		if x < 0 {
			s -= x
		} else {
			s += x
		}
	}
	return s
}

func lg(x int) int {
	b := 0
	for (1 << uint(b)) < x {
		b++
	}
	return b
}

func setPoly(r *ring.Ring, v []int, scale *big.Int) ring.Poly {
	p := r.NewPoly()
	cs := make([]*big.Int, r.N())
	for i := range cs {
		cs[i] = new(big.Int).Mul(big.NewInt(int64(v[i])), scale)
	}
	r.SetCoefficientsBigint(cs, p)
	return p
}

// decode: centred decryption divided by scale, rounded; noise = bits of the remainder
func decode(p rlwe.Parameters, ct *rlwe.Ciphertext, sk *rlwe.SecretKey, scale *big.Int) (vals []int, noise int) {
	pt := rlwe.NewDecryptor(p, sk).DecryptNew(ct)
	rq := p.RingQ().AtLevel(ct.Level())
	d := rq.NewPoly()
	d.CopyLvl(ct.Level(), pt.Value)
	if pt.IsNTT {
		rq.INTT(d, d)
	}
	cs := make([]*big.Int, rq.N())
	for i := range cs {
		cs[i] = new(big.Int)
	}
	rq.PolyToBigintCentered(d, 1, cs)
	half := new(big.Int).Rsh(scale, 1)
	for _, c := range cs {
		q := new(big.Int).Add(c, half)
		q.Div(q, scale) // Euclidean: floor for positive divisor
		r := new(big.Int).Sub(c, new(big.Int).Mul(q, scale))
		if b := r.BitLen(); b > noise {
			noise = b
		}
		vals = append(vals, int(q.Int64()))
	}
	return
}

func guarded(f func() error) (err error, pan bool, msg string) {
	defer func() {
		if r := recover(); r != nil {
			pan, msg = true, fmt.Sprint(r)
		}
	}()
	err = f()
	if err != nil {
		msg = err.Error()
	}
	return
}

func externalProduct(ps pset, c config, seed int) event {
	p := ps.p
	n := p.N()
	e := event{Ev: "xp", Cfg: &c, GOp: c.GOp, LogN: p.LogN()}
	kg := rlwe.NewKeyGenerator(p)
	sk := kg.GenSecretKeyNew()
	levelQ, levelP := p.MaxLevelQ(), p.MaxLevelP()
	if c.LowLevel {
		levelQ = 0
		if levelP > 0 && c.Set == "q3p2" {
			levelQ = 1
		}
	}
	// scale of the RLWE message: a quarter of the modulus divided by the largest product coefficient
	Q := p.RingQ().ModulusAtLevel[levelQ]
	scale := new(big.Int).Rsh(Q, 7)
	e.M = vec(c.MCls, n, seed)
	e.G = vec(c.GCls, n, seed+1)
	e.Alpha = (seed*11 + 5) % (2 * n)
	rq := p.RingQ().AtLevel(levelQ)
	rqp := p.RingQP().AtLevel(levelQ, levelP)
	ptm := rlwe.NewPlaintext(p, levelQ)
	ptm.Value = setPoly(rq, e.M, scale)
	rq.NTT(ptm.Value, ptm.Value)
	ptm.IsNTT = true
	ct := rlwe.NewCiphertext(p, 1, levelQ)
	tr.Must(rlwe.NewEncryptor(p, sk).Encrypt(ptm, ct))
	_, e.InNoise = decode(p, ct, sk, scale)
	encs := 0
	encG := func(g []int) *rgsw.Ciphertext {
		pt := rlwe.NewPlaintext(p, levelQ)
		pt.Value = setPoly(rq, g, big.NewInt(1))
		// the plaintext is handed over in one of its four representations (domain x Montgomery form): same g
		encs++
		if rep := (seed + encs) % 4; true {
			pt.IsNTT, pt.IsMontgomery = rep&1 == 0, rep&2 != 0
			if pt.IsNTT {
				rq.NTT(pt.Value, pt.Value)
			}
			if pt.IsMontgomery {
				rq.MForm(pt.Value, pt.Value)
			}
		}
		rc := rgsw.NewCiphertext(p, levelQ, levelP, ps.base2)
		tr.Must(rgsw.NewEncryptor(p, sk).Encrypt(pt, rc))
		return rc
	}
	rg := encG(e.G)
	eff := e.G
	err, pan, msg := guarded(func() error {
		switch c.GOp {
		case "add":
			e.G2 = vec("mono", n, seed+2)
			r2 := encG(e.G2)
			out := rgsw.NewCiphertext(p, levelQ, levelP, ps.base2)
			rgsw.AddLazy(rg, rqp, out)
			rgsw.AddLazy(r2, rqp, out)
			rgsw.Reduce(out, rqp, out)
			rg = out
			eff = make([]int, n)
			for i := range eff {
				eff[i] = e.G[i] + e.G2[i]
			}
		case "mulxa", "mulxaadd":
			xa := ringqp.Poly{Q: rq.NewMonomialXi(e.Alpha)}
			one := rq.NewMonomialXi(0)
			rq.Sub(xa.Q, one, xa.Q)
			rq.NTT(xa.Q, xa.Q)
			rq.MForm(xa.Q, xa.Q)
			if levelP > -1 {
				rp := p.RingP().AtLevel(levelP)
				xa.P = rp.NewMonomialXi(e.Alpha)
				rp.Sub(xa.P, rp.NewMonomialXi(0), xa.P)
				rp.NTT(xa.P, xa.P)
				rp.MForm(xa.P, xa.P)
			}
			out := rgsw.NewCiphertext(p, levelQ, levelP, ps.base2)
			if c.GOp == "mulxa" {
				rgsw.MulByXPowAlphaMinusOneLazy(rg, xa, rqp, out)
			} else {
				e.G2 = vec("mono", n, seed+2)
				out = encG(e.G2)
				rgsw.MulByXPowAlphaMinusOneThenAddLazy(rg, xa, rqp, out)
			}
			rgsw.Reduce(out, rqp, out)
			rg = out
			eff = nil
		}
		ev := rgsw.NewEvaluator(p, nil)
		out := ct
		if !c.InPlace {
			out = rlwe.NewCiphertext(p, 1, levelQ)
			*out.MetaData = *ct.MetaData
			// the output is not assumed to be zero
			for i := range out.Value {
				for j := range out.Value[i].Coeffs {
					for k := range out.Value[i].Coeffs[j] {
						out.Value[i].Coeffs[j][k] = uint64(k*7+j+3) % 1000
					}
				}
			}
		}
		ev.ExternalProduct(ct, rg, out)
		e.Got, e.Noise = decode(p, out, sk, scale)
		return nil
	})
	e.Err, e.Panic, e.Msg = err != nil, pan, msg
	if eff != nil {
		e.LgG1 = lg(l1(eff) + 1)
	} else {
		e.LgG1 = lg(2*l1(e.G)+l1(e.G2)+1)
	}
	// decomposition: digits and digit size
	digits := 0
	for _, k := range rg.Value[0].BaseTwoDecompositionVectorSize() {
		digits += k
	}
	e.LgDigits = lg(digits)
	if ps.base2 > 0 {
		e.DigitBits = ps.base2
	} else {
		// RNS digits: a digit is as large as the product of the Q primes grouped with one P basis
		e.DigitBits = 0
		for _, q := range p.Q()[:levelQ+1] {
			if b := new(big.Int).SetUint64(q).BitLen(); b > e.DigitBits {
				e.DigitBits = b
			}
		}
		if levelP > 0 {
			e.DigitBits *= levelP + 1
		}
	}
	if levelP > -1 {
		e.LgP = p.RingP().ModulusAtLevel[levelP].BitLen() - 1
	}
	switch {
	case levelP < 1 && levelQ == 0 && levelP == -1 && p.Q()[0]>>29 == 0:
		e.Path = "32bit"
	case levelP < 1:
		e.Path = "single"
	default:
		e.Path = "multi"
	}
	if e.Got == nil {
		e.Got = []int{}
	}
	return e
}

// ---------------------------------------------------------------------------------------------- blind rotation

type recBRK struct {
	inner  blindrot.BlindRotationEvaluationKeySet
	reqBrk map[int]bool
	reqGal map[uint64]bool
}

type recEvk struct {
	inner rlwe.EvaluationKeySet
	req   map[uint64]bool
}

func (r *recEvk) GetGaloisKey(g uint64) (*rlwe.GaloisKey, error) {
	r.req[g] = true
	return r.inner.GetGaloisKey(g)
}
func (r *recEvk) GetGaloisKeysList() []uint64 { return r.inner.GetGaloisKeysList() }
func (r *recEvk) ShallowCopy() rlwe.EvaluationKeySet { return &recEvk{r.inner.ShallowCopy(), r.req} }
func (r *recEvk) GetRelinearizationKey() (*rlwe.RelinearizationKey, error) {
	return r.inner.GetRelinearizationKey()
}

func (r *recBRK) GetBlindRotationKey(i int) (*rgsw.Ciphertext, error) {
	r.reqBrk[i] = true
	return r.inner.GetBlindRotationKey(i)
}
func (r *recBRK) GetEvaluationKeySet() (rlwe.EvaluationKeySet, error) {
	in, err := r.inner.GetEvaluationKeySet()
	if err != nil {
		return nil, err
	}
	return &recEvk{in, r.reqGal}, nil
}

func table(f string, nbr int, seed int) []int {
	t := make([]int, nbr+1)
	for j := range t {
		k := j - nbr/2
		switch f {
		case "sign":
			switch {
			case k > 0:
				t[j] = 1
			case k < 0:
				t[j] = -1
			}
		case "identity": // x on [-3, 3], rounded
			t[j] = int(math.Round(6 * float64(k) / float64(nbr)))
		case "step": // not odd: f(a) = 0, f(b) = 2
			if k >= 0 {
				t[j] = 2
			}
		case "table":
			t[j] = (k*k*7+k*3+seed)%7 - 3
		}
	}
	return t
}

var brEvals = map[int]*blindrot.Evaluator{}

func blindRotations(w *tr.Writer, prog *int, logNBR int, f string, h int, trivial bool, seed int, kstep int) {
	*prog++
	fork := 0
	nlwe := 16
	paramsBR, err := rlwe.NewParametersFromLiteral(rlwe.ParametersLiteral{LogN: logNBR, Q: []uint64{0x7fff801}, NTTFlag: true})
	tr.Must(err)
	xs := ring.DistributionParameters(ring.Ternary{H: h})
	if h == 0 {
		xs = ring.Ternary{P: 2.0 / 3}
	}
	// every other set-up gives the LWE side a second prime: the sample handed to Evaluate then sits below the top level
	// of its parameters, and the rounding to 2N must use the modulus of the sample's own level
	lweQ := []uint64{0x3001}
	if seed%2 == 1 {
		lweQ = append(lweQ, 0x3401) // 13313 = 1 mod 32, prime
	}
	paramsLWE, err := rlwe.NewParametersFromLiteral(rlwe.ParametersLiteral{LogN: 4, Q: lweQ, Xs: xs, NTTFlag: false})
	tr.Must(err)
	q0LWE := paramsLWE.Q()[0]
	nbr := paramsBR.N()
	tbl := table(f, nbr, seed)
	w.Emit(event{Ev: "brsetup", Prog: *prog, NBR: nbr, Tbl: tbl, F: f, H: h})
	// g(x) on [a, b] = [-1, 1]: the table entry of the nearest grid point
	g := func(x float64) float64 {
		k := int(math.Round(x * float64(nbr) / 2))
		return float64(tbl[k+nbr/2])
	}
	QBR := float64(paramsBR.Q()[0])
	scaleBR := QBR / 16
	testPoly := blindrot.InitTestPolynomial(g, rlwe.NewScale(scaleBR), paramsBR.RingQ(), -1, 1)
	skLWE := rlwe.NewKeyGenerator(paramsLWE).GenSecretKeyNew()
	if trivial {
		// a mask coefficient that switches to 0 is treated like 1 (it contributes s_i to the phase): a noiseless
		// sample with a = 0 is rotated by the sum of the secret's coefficients; take a secret whose sum is 0
		for {
			c := skLWE.CopyNew()
			rl := paramsLWE.RingQ().AtLevel(0)
			rl.INTT(c.Value.Q, c.Value.Q)
			rl.IMForm(c.Value.Q, c.Value.Q)
			sum := int64(0)
			for _, v := range c.Value.Q.Coeffs[0] {
				if v > q0LWE/2 {
					sum -= int64(q0LWE - v)
				} else {
					sum += int64(v)
				}
			}
			if sum == 0 {
				break
			}
			skLWE = rlwe.NewKeyGenerator(paramsLWE).GenSecretKeyNew()
		}
	}
	skBR := rlwe.NewKeyGenerator(paramsBR).GenSecretKeyNew()
	base2 := 7
	brk := blindrot.GenEvaluationKeyNew(paramsBR, skBR, paramsLWE, skLWE, rlwe.EvaluationKeyParameters{BaseTwoDecomposition: &base2})
	rec := &recBRK{inner: brk, reqBrk: map[int]bool{}, reqGal: map[uint64]bool{}}
	// one evaluator per ring degree serves every key set of the run (the keys are an argument of Evaluate: nothing of
	// an earlier key set, generated under other secrets, may survive in the evaluator)
	ev := brEvals[logNBR]
	if ev == nil {
		ev = blindrot.NewEvaluator(paramsBR, paramsLWE)
		brEvals[logNBR] = ev
	}
	q := paramsLWE.Q()[0]
	// drift allowed: modulus switching of the h non-zero secret coefficients and of b (half a step each), plus the error
	hh := h
	if h == 0 {
		hh = nlwe
	}
	d := 0
	if !trivial {
		// per non-zero secret coefficient: half a step of rounding plus one step when the mask coefficient is made odd
		// (or is zero and treated like one); half a step for b; the LWE error
		d = (3*hh+1+1)/2 + 1 + int(math.Ceil(20*float64(2*nbr)/float64(q)))
	}
	var ks []int
	for k := -nbr / 2; k < nbr/2; k += kstep {
		ks = append(ks, k)
	}
	ks = append(ks, nbr/2-1, -nbr/2+1)
	for batch := 0; batch < len(ks); batch += nlwe {
		end := batch + nlwe
		if end > len(ks) {
			end = len(ks)
		}
		cur := ks[batch:end]
		pt := rlwe.NewPlaintext(paramsLWE, 0)
		for i, k := range cur {
			// phase = round(k * q / 2N): the modulus switch maps it back to k exactly
			v := new(big.Int).Mul(big.NewInt(int64(k)), new(big.Int).SetUint64(q))
			den := big.NewInt(int64(2 * nbr))
			v.Add(v, new(big.Int).Rsh(den, 1))
			v.Div(v, den)
			v.Mod(v, new(big.Int).SetUint64(q))
			pt.Value.Coeffs[0][i] = v.Uint64()
		}
		ct := rlwe.NewCiphertext(paramsLWE, 1, 0)
		if trivial {
			ct.Value[0].Copy(pt.Value)
		} else {
			tr.Must(rlwe.NewEncryptor(paramsLWE, skLWE).Encrypt(pt, ct))
		}
		polys := map[int]*ring.Poly{}
		for i := range cur {
			polys[i] = &testPoly
		}
		var res map[int]*rlwe.Ciphertext
		err, pan, msg := guarded(func() (e error) { res, e = ev.Evaluate(ct, polys, rec); return })
		for i, k := range cur {
			fork++
			be := brEvent{Ev: "br", Prog: *prog, Fork: fork, K: k, D: d, Slot: i, F: f, H: h, Triv: trivial, Err: err != nil, Panic: pan, Msg: msg}
			if res != nil && res[i] != nil {
				ptr := rlwe.NewDecryptor(paramsBR, skBR).DecryptNew(res[i])
				rq := paramsBR.RingQ()
				if ptr.IsNTT {
					rq.INTT(ptr.Value, ptr.Value)
				}
				c := ptr.Value.Coeffs[0][0]
				x := float64(c)
				if c > paramsBR.Q()[0]/2 {
					x = -float64(paramsBR.Q()[0] - c)
				}
				be.Got = int(math.Round(x / scaleBR))
			} else if err == nil && !pan {
				be.Err, be.Msg = true, "no result for the requested slot"
			}
			w.Emit(be)
		}
	}
	// key inventory
	ke := event{Ev: "keys", Prog: *prog, Dense: !trivial && h == 0, ReqBrk: []int{}, ProvBrk: []int{}, ReqGal: []uint64{}, ProvGal: []uint64{}}
	for i := range rec.reqBrk {
		ke.ReqBrk = append(ke.ReqBrk, i)
	}
	for i := range brk.BlindRotationKeys {
		ke.ProvBrk = append(ke.ProvBrk, i)
	}
	for g := range rec.reqGal {
		ke.ReqGal = append(ke.ReqGal, g)
	}
	for _, gk := range brk.AutomorphismKeys {
		ke.ProvGal = append(ke.ProvGal, gk.GaloisElement)
	}
	sort.Ints(ke.ReqBrk)
	sort.Slice(ke.ReqGal, func(i, j int) bool { return ke.ReqGal[i] < ke.ReqGal[j] })
	sort.Slice(ke.ProvGal, func(i, j int) bool { return ke.ProvGal[i] < ke.ProvGal[j] })
	w.Emit(ke)
}

func Main(args []string) int {
	fs := flag.NewFlagSet("c20", flag.ExitOnError)
	cfgs := fs.String("cfgs", "", "external product configurations (ndjson)")
	trace := fs.String("trace", "", "trace output")
	seed := fs.Uint64("seed", 1, "seed")
	part := fs.Int("part", 0, "")
	parts := fs.Int("parts", 1, "")
	thorough := fs.Bool("thorough", false, "")
	fs.Parse(args[1:])
	tr.Seed(*seed)
	w := tr.NewWriter(*trace)
	prog := *part * 1_000_000
	sets := paramSets()
	f, err := os.Open(*cfgs)
	tr.Must(err)
	sc := bufio.NewScanner(f)
	k := 0
	for sc.Scan() {
		if k%*parts == *part {
			var c config
			tr.Must(json.Unmarshal(sc.Bytes(), &c))
			prog++
			e := externalProduct(sets[c.Set], c, int(*seed)+k)
			e.Prog = prog
			w.Emit(e)
		}
		k++
	}
	// blind rotations: jobs spread over the parts
	type job struct {
		logn    int
		f       string
		h       int
		trivial bool
		step    int
	}
	var jobs []job
	for _, fn := range []string{"sign", "identity", "step", "table"} {
		jobs = append(jobs, job{6, fn, 2, true, 1}, job{8, fn, 2, true, 1})
		if *thorough {
			jobs = append(jobs, job{10, fn, 2, true, 1})
		} else {
			jobs = append(jobs, job{10, fn, 2, true, 17})
		}
	}
	for _, h := range []int{1, 2, 4, 0} {
		for _, fn := range []string{"sign", "identity", "table"} {
			step := 13
			if *thorough {
				step = 3
			}
			jobs = append(jobs, job{8, fn, h, false, step})
			if *thorough || fn == "sign" {
				jobs = append(jobs, job{10, fn, h, false, step * 5})
			}
		}
	}
	for i, j := range jobs {
		if i%*parts == *part {
			blindRotations(w, &prog, j.logn, j.f, j.h, j.trivial, int(*seed)+i, j.step)
		}
	}
	w.Close()
	(&tr.Result{Events: w.N, Cases: prog - *part*1_000_000}).Print()
	return 0
}
