// Package c08 executes serialisation scenarios (generated from spec/StreamGen.tla) and fault
// sweeps on every serialisable lattigo type and records what happened for validation against
// spec/Stream.tla.
package c08

import (
	"bufio"
	"bytes"
	"crypto/sha256"
	"encoding"
	"encoding/hex"
	"encoding/json"
	"errors"
	"flag"
	"fmt"
	"github.com/tuneinsight/lattigo/v6/circuits/ckks/bootstrapping"
	"io"
	"math/big"
	"math/rand"
	"os"
	"reflect"
	"runtime"
	"sort"
	"testing/iotest"

	"github.com/tuneinsight/lattigo/v6/circuits/common/polynomial"
	"github.com/tuneinsight/lattigo/v6/core/rgsw"
	"github.com/tuneinsight/lattigo/v6/core/rlwe"
	"github.com/tuneinsight/lattigo/v6/multiparty"
	"github.com/tuneinsight/lattigo/v6/ring"
	"github.com/tuneinsight/lattigo/v6/ring/ringqp"
	"github.com/tuneinsight/lattigo/v6/schemes/bgv"
	"github.com/tuneinsight/lattigo/v6/schemes/ckks"
	"github.com/tuneinsight/lattigo/v6/utils/bignum"
	"github.com/tuneinsight/lattigo/v6/utils/buffer"
	"github.com/tuneinsight/lattigo/v6/utils/sampling"
	"github.com/tuneinsight/lattigo/v6/utils/structs"

	"verif/harness/internal/tr"
)

// object is what every serialisable type offers (through its pointer).
type object interface {
	io.WriterTo
	io.ReaderFrom
	encoding.BinaryMarshaler
	encoding.BinaryUnmarshaler
	BinarySize() int
}

type typeClass struct {
	name  string
	nv    int
	mk    func(v int) object // value number v (0 <= v < nv), freshly built each time
	fresh func() object      // zero receiver
}

type env struct {
	p     rlwe.Parameters
	bp    bgv.Parameters
	cp    ckks.Parameters
	kgen  *rlwe.KeyGenerator
	sk    *rlwe.SecretKey
	sk2   *rlwe.SecretKey
	pk    *rlwe.PublicKey
	prng  sampling.PRNG
	types []typeClass
}

func newEnv() *env {
	e := &env{}
	var err error
	e.p, err = rlwe.NewParametersFromLiteral(rlwe.ParametersLiteral{LogN: 4, LogQ: []int{35, 30, 30}, LogP: []int{35}, NTTFlag: true})
	tr.Must(err)
	e.bp, err = bgv.NewParametersFromLiteral(bgv.ParametersLiteral{LogN: 4, LogQ: []int{35, 30, 30}, LogP: []int{35}, PlaintextModulus: 97})
	tr.Must(err)
	e.cp, err = ckks.NewParametersFromLiteral(ckks.ParametersLiteral{LogN: 4, LogQ: []int{35, 30, 30}, LogP: []int{35}, LogDefaultScale: 25})
	tr.Must(err)
	e.kgen = rlwe.NewKeyGenerator(e.p)
	e.sk = e.kgen.GenSecretKeyNew()
	e.sk2 = e.kgen.GenSecretKeyNew()
	e.pk = e.kgen.GenPublicKeyNew(e.sk)
	e.prng, _ = sampling.NewPRNG()
	e.build()
	return e
}

func (e *env) randPoly(level int) ring.Poly {
	rq := e.p.RingQ().AtLevel(level)
	p := rq.NewPoly()
	ring.NewUniformSampler(e.prng, rq).Read(p)
	return p
}

func (e *env) ct(deg, lvl int, flags int) *rlwe.Ciphertext {
	ct := rlwe.NewCiphertextRandom(e.prng, e.p, deg, lvl)
	ct.IsNTT = flags&1 == 0
	ct.IsMontgomery = flags&2 != 0
	ct.IsBatched = flags&4 != 0
	ct.Scale = rlwe.NewScale(float64(3 + flags))
	ct.LogDimensions = ring.Dimensions{Rows: flags & 1, Cols: 1 + flags}
	return ct
}

func (e *env) add(name string, nv int, mk func(v int) object, fresh func() object) {
	e.types = append(e.types, typeClass{name, nv, mk, fresh})
}

func (e *env) build() {
	p := e.p
	L := p.MaxLevel()
	e.add("ring.Poly", 3, func(v int) object { x := e.randPoly([]int{L, 0, 1}[v]); return &x }, func() object { return &ring.Poly{} })
	e.add("ringqp.Poly", 3, func(v int) object {
		rqp := p.RingQP().AtLevel([]int{L, 0, 1}[v], []int{0, 0, -1}[v])
		x := rqp.NewPoly()
		ringqp.NewUniformSampler(e.prng, rqp).Read(x)
		return &x
	}, func() object { return &ringqp.Poly{} })
	e.add("structs.Vector[uint64]", 3, func(v int) object {
		x := structs.Vector[uint64](make([]uint64, []int{5, 0, 17}[v]))
		for i := range x {
			x[i] = uint64(i*7 + v)
		}
		return &x
	}, func() object { return &structs.Vector[uint64]{} })
	e.add("structs.Matrix[uint64]", 3, func(v int) object {
		rows := []int{3, 1, 4}[v]
		x := structs.Matrix[uint64](make([][]uint64, rows))
		for i := range x {
			x[i] = make([]uint64, 2+i+v)
			for j := range x[i] {
				x[i][j] = uint64(i*100 + j + v)
			}
		}
		return &x
	}, func() object { return &structs.Matrix[uint64]{} })
	e.add("structs.Vector[ring.Poly]", 2, func(v int) object {
		x := structs.Vector[ring.Poly]{e.randPoly(L), e.randPoly(L)}
		if v == 1 {
			x = structs.Vector[ring.Poly]{e.randPoly(0)}
		}
		return &x
	}, func() object { return &structs.Vector[ring.Poly]{} })
	e.add("structs.Map[int,ring.Poly]", 4, func(v int) object {
		x := structs.Map[int, ring.Poly]{}
		for i := 0; i < []int{2, 1, 3, 0}[v]; i++ { // value 3: the empty map
			pl := e.randPoly(i % (L + 1))
			x[i*3+v] = &pl
		}
		return &x
	}, func() object { return &structs.Map[int, ring.Poly]{} })
	e.add("rlwe.MetaData", 5, func(v int) object {
		m := &rlwe.MetaData{}
		m.Scale = rlwe.NewScale(float64(uint64(1) << uint(10*(v%3))))
		switch v {
		case 3: // a scale whose mantissa fills the 128 bits (what a rescaled product carries: 2^90 / q)
			m.Scale = rlwe.NewScale(new(big.Float).SetPrec(256).SetMantExp(big.NewFloat(1), 90)).Div(rlwe.NewScale(p.Q()[0]))
		case 4: // an integer scale modulo t
			m.Scale = rlwe.NewScaleModT(12345, 65537)
		}
		m.IsNTT = v != 1
		m.IsMontgomery = v == 0
		m.IsBatched = v != 2
		m.LogDimensions = ring.Dimensions{Rows: v % 3, Cols: 3 - v%3}
		return m
	}, func() object { return &rlwe.MetaData{} })
	e.add("rlwe.Plaintext", 3, func(v int) object {
		pt := rlwe.NewPlaintextRandom(e.prng, p, []int{L, 0, 1}[v])
		pt.IsNTT = v != 1
		pt.IsMontgomery = v == 2
		pt.Scale = rlwe.NewScale(float64(5 + v))
		if v == 1 {
			pt.Scale = rlwe.NewScale(new(big.Float).SetPrec(256).SetMantExp(big.NewFloat(1), 90)).Div(rlwe.NewScale(p.Q()[0]))
		}
		return pt
	}, func() object { return &rlwe.Plaintext{} })
	e.add("rlwe.Ciphertext", 5, func(v int) object {
		if v == 4 { // an element without metadata (the encoding has a presence flag for it)
			ct := e.ct(1, 1, 0)
			ct.MetaData = nil
			return ct
		}
		return e.ct([]int{1, 2, 0, 1}[v], []int{L, 1, 0, 0}[v], []int{0, 3, 5, 6}[v])
	},
		func() object { return &rlwe.Ciphertext{} })
	e.add("rlwe.SecretKey", 2, func(v int) object {
		if v == 0 {
			return e.kgen.GenSecretKeyNew()
		}
		return e.kgen.GenSecretKeyWithHammingWeightNew(4)
	}, func() object { return &rlwe.SecretKey{} })
	e.add("rlwe.PublicKey", 2, func(v int) object { return e.kgen.GenPublicKeyNew([]*rlwe.SecretKey{e.sk, e.sk2}[v]) }, func() object { return &rlwe.PublicKey{} })
	evkp := func(v int) rlwe.EvaluationKeyParameters {
		lq, lp := L, 0
		b2 := 0
		comp := false
		switch v {
		case 1:
			lq, b2 = 1, 0
		case 2:
			lp, b2 = -1, 8
		case 3:
			comp = true
		case 4:
			comp, lq = true, 0
		}
		return rlwe.EvaluationKeyParameters{LevelQ: &lq, LevelP: &lp, BaseTwoDecomposition: &b2, Compressed: comp}
	}
	e.add("rlwe.GadgetCiphertext", 3, func(v int) object {
		k := e.kgen.GenEvaluationKeyNew(e.sk, e.sk2, evkp(v))
		return &k.GadgetCiphertext
	}, func() object { return &rlwe.GadgetCiphertext{} })
	e.add("rlwe.EvaluationKey", 5, func(v int) object { return e.kgen.GenEvaluationKeyNew(e.sk, e.sk2, evkp(v)) }, func() object { return &rlwe.EvaluationKey{} })
	e.add("rlwe.RelinearizationKey", 4, func(v int) object { return e.kgen.GenRelinearizationKeyNew(e.sk, evkp(v)) }, func() object { return &rlwe.RelinearizationKey{} })
	e.add("rlwe.GaloisKey", 4, func(v int) object { return e.kgen.GenGaloisKeyNew(p.GaloisElement(v+1), e.sk, evkp(v)) }, func() object { return &rlwe.GaloisKey{} })
	e.add("rlwe.MemEvaluationKeySet", 4, func(v int) object {
		switch v {
		case 0:
			return rlwe.NewMemEvaluationKeySet(e.kgen.GenRelinearizationKeyNew(e.sk), e.kgen.GenGaloisKeysNew([]uint64{p.GaloisElement(1), p.GaloisElement(2)}, e.sk)...)
		case 1:
			return rlwe.NewMemEvaluationKeySet(nil)
		case 2:
			return rlwe.NewMemEvaluationKeySet(nil, e.kgen.GenGaloisKeyNew(p.GaloisElement(3), e.sk, evkp(3)))
		}
		return rlwe.NewMemEvaluationKeySet(e.kgen.GenRelinearizationKeyNew(e.sk, evkp(1)))
	}, func() object { return &rlwe.MemEvaluationKeySet{} })
	e.add("rlwe.Parameters", 3, func(v int) object {
		lit := []rlwe.ParametersLiteral{
			{LogN: 4, LogQ: []int{35, 30, 30}, LogP: []int{35}, NTTFlag: true},
			{LogN: 5, LogQ: []int{40}, NTTFlag: false, RingType: ring.ConjugateInvariant},
			{LogN: 6, LogQ: []int{30, 31}, LogP: []int{32, 33}, NTTFlag: true, Xs: ring.Ternary{H: 8}, Xe: ring.DiscreteGaussian{Sigma: 4.5, Bound: 20}},
		}[v]
		pp, err := rlwe.NewParametersFromLiteral(lit)
		tr.Must(err)
		return &pp
	}, func() object { return &rlwe.Parameters{} })
	e.add("bgv.Parameters", 2, func(v int) object {
		pp, err := bgv.NewParametersFromLiteral(bgv.ParametersLiteral{LogN: 4 + v, LogQ: []int{35, 30}, LogP: []int{35}, PlaintextModulus: []uint64{97, 193}[v]})
		tr.Must(err)
		return &pp
	}, func() object { return &bgv.Parameters{} })
	e.add("ckks.Parameters", 2, func(v int) object {
		pp, err := ckks.NewParametersFromLiteral(ckks.ParametersLiteral{LogN: 4 + v, LogQ: []int{35, 30}, LogP: []int{35}, LogDefaultScale: 25 + v, RingType: []ring.Type{ring.Standard, ring.ConjugateInvariant}[v]})
		tr.Must(err)
		return &pp
	}, func() object { return &ckks.Parameters{} })
	e.add("rgsw.Ciphertext", 2, func(v int) object {
		ct := rgsw.NewCiphertext(p, []int{L, 0}[v], 0, []int{0, 5}[v])
		enc := rgsw.NewEncryptor(p, e.sk)
		tr.Must(enc.EncryptZero(ct))
		return ct
	}, func() object { return &rgsw.Ciphertext{} })
	e.add("polynomial.PowerBasis", 3, func(v int) object {
		if v == 2 { // no power stored yet
			return &polynomial.PowerBasis{Basis: bignum.Chebyshev, Value: structs.Map[int, rlwe.Ciphertext]{}}
		}
		pb := polynomial.NewPowerBasis(e.ct(1, L, 0), []bignum.Basis{bignum.Monomial, bignum.Chebyshev}[v])
		if v == 1 {
			pb.Value[2] = e.ct(2, 1, 3)
			pb.Value[4] = e.ct(1, 0, 0)
		}
		return &pb
	}, func() object { return &polynomial.PowerBasis{} })
	// multiparty shares
	crs, _ := sampling.NewKeyedPRNG([]byte("crs"))
	e.add("multiparty.PublicKeyGenShare", 2, func(v int) object {
		pr := multiparty.NewPublicKeyGenProtocol(p)
		s := pr.AllocateShare()
		pr.GenShare([]*rlwe.SecretKey{e.sk, e.sk2}[v], pr.SampleCRP(crs), &s)
		return &s
	}, func() object { return &multiparty.PublicKeyGenShare{} })
	e.add("multiparty.EvaluationKeyGenShare", 3, func(v int) object {
		pr := multiparty.NewEvaluationKeyGenProtocol(p)
		s := pr.AllocateShare(evkp(v))
		tr.Must(pr.GenShare(e.sk, e.sk2, pr.SampleCRP(crs, evkp(v)), &s))
		return &s
	}, func() object { return &multiparty.EvaluationKeyGenShare{} })
	e.add("multiparty.GaloisKeyGenShare", 2, func(v int) object {
		pr := multiparty.NewGaloisKeyGenProtocol(p)
		s := pr.AllocateShare(evkp(v))
		tr.Must(pr.GenShare(e.sk, p.GaloisElement(v+1), pr.SampleCRP(crs, evkp(v)), &s))
		return &s
	}, func() object { return &multiparty.GaloisKeyGenShare{} })
	e.add("multiparty.RelinearizationKeyGenShare", 2, func(v int) object {
		pr := multiparty.NewRelinearizationKeyGenProtocol(p)
		eph, r1, _ := pr.AllocateShare(evkp(v))
		pr.GenShareRoundOne(e.sk, pr.SampleCRP(crs, evkp(v)), eph, &r1)
		return &r1
	}, func() object { return &multiparty.RelinearizationKeyGenShare{} })
	e.add("multiparty.KeySwitchShare", 2, func(v int) object {
		pr, err := multiparty.NewKeySwitchProtocol(p, ring.DiscreteGaussian{Sigma: 8, Bound: 48})
		tr.Must(err)
		lvl := []int{L, 0}[v]
		s := pr.AllocateShare(lvl)
		pr.GenShare(e.sk, e.sk2, e.ct(1, lvl, 0), &s)
		return &s
	}, func() object { return &multiparty.KeySwitchShare{} })
	e.add("multiparty.PublicKeySwitchShare", 2, func(v int) object {
		pr, err := multiparty.NewPublicKeySwitchProtocol(p, ring.DiscreteGaussian{Sigma: 8, Bound: 48})
		tr.Must(err)
		lvl := []int{L, 1}[v]
		s := pr.AllocateShare(lvl)
		pr.GenShare(e.sk, e.pk, e.ct(1, lvl, 0), &s)
		return &s
	}, func() object { return &multiparty.PublicKeySwitchShare{} })
	e.add("multiparty.RefreshShare", 2, func(v int) object {
		pr, err := multiparty.NewKeySwitchProtocol(p, ring.DiscreteGaussian{Sigma: 8, Bound: 48})
		tr.Must(err)
		s := multiparty.RefreshShare{EncToShareShare: pr.AllocateShare([]int{1, 0}[v]), ShareToEncShare: pr.AllocateShare(L)}
		pr.GenShare(e.sk, e.sk2, e.ct(1, []int{1, 0}[v], 0), &s.EncToShareShare)
		pr.GenShare(e.sk, e.sk2, e.ct(1, L, 0), &s.ShareToEncShare)
		s.MetaData = *e.ct(1, L, 3+v).MetaData
		return &s
	}, func() object { return &multiparty.RefreshShare{} })
	// the bootstrapping key bundle: optional keys in every combination that occurs (ring switching, ring swap,
	// encapsulation), each key distinct so that an exchange of two fields is visible
	e.add("bootstrapping.EvaluationKeys", 4, func(v int) object {
		kg := e.kgen
		mk := func(a, b *rlwe.SecretKey) *rlwe.EvaluationKey { return kg.GenEvaluationKeyNew(a, b) }
		k := &bootstrapping.EvaluationKeys{MemEvaluationKeySet: rlwe.NewMemEvaluationKeySet(kg.GenRelinearizationKeyNew(e.sk), kg.GenGaloisKeyNew(p.GaloisElement(1), e.sk))}
		switch v {
		case 0:
			k.EvkRealToCmplx, k.EvkCmplxToReal = mk(e.sk, e.sk2), mk(e.sk2, e.sk)
		case 1:
			k.EvkN1ToN2, k.EvkN2ToN1 = mk(e.sk, e.sk2), mk(e.sk2, e.sk)
		case 2:
			k.EvkDenseToSparse, k.EvkSparseToDense = mk(e.sk, e.sk2), mk(e.sk2, e.sk)
		case 3:
			k.EvkN1ToN2, k.EvkN2ToN1 = mk(e.sk, e.sk2), mk(e.sk2, e.sk)
			k.EvkRealToCmplx, k.EvkCmplxToReal = mk(e.sk, e.sk), mk(e.sk2, e.sk2)
			k.EvkDenseToSparse, k.EvkSparseToDense = mk(e.sk2, e.sk), mk(e.sk, e.sk2)
		}
		return k
	}, func() object { return &bootstrapping.EvaluationKeys{} })
	e.add("multiparty.ShamirSecretShare", 2, func(v int) object {
		thr := multiparty.NewThresholdizer(p)
		pol, err := thr.GenShamirPolynomial(2, []*rlwe.SecretKey{e.sk, e.sk2}[v])
		tr.Must(err)
		s := thr.AllocateThresholdSecretShare()
		thr.GenShamirSecretShare(multiparty.ShamirPublicPoint(3+v), pol, &s)
		return &s
	}, func() object { return &multiparty.ShamirSecretShare{} })
}

// ---------------------------------------------------------------------------- events

type event struct {
	Ev       string `json:"ev"`
	Prog     int    `json:"prog"`
	Fork     int    `json:"fork"`
	T        string `json:"t,omitempty"`
	V        int    `json:"v"`
	Entry    string `json:"entry,omitempty"`
	Prior    string `json:"prior,omitempty"`
	Chunk    string `json:"chunk,omitempty"`
	Size     int    `json:"size"`
	N        int    `json:"n"`
	Len      int    `json:"len"`
	Dig      string `json:"dig,omitempty"`
	Consumed int    `json:"consumed"`
	Equal    bool   `json:"equal"`
	Err      bool   `json:"err"`
	Panic    bool   `json:"panic"`
	AllocMB  int    `json:"allocmb"`
	Fault    string `json:"fault,omitempty"`
	Offset   int    `json:"offset"`
	Msg      string `json:"msg,omitempty"`
}

type plainWriter struct{ w io.Writer }

func (p plainWriter) Write(b []byte) (int, error) { return p.w.Write(b) }

type plainReader struct{ r io.Reader }

func (p plainReader) Read(b []byte) (int, error) { return p.r.Read(b) }

// failWriter fails once `limit` bytes have been accepted.
type failWriter struct {
	limit int
	n     int
}

func (f *failWriter) Write(b []byte) (int, error) {
	if f.n+len(b) > f.limit {
		k := f.limit - f.n
		if k < 0 {
			k = 0
		}
		f.n += k
		return k, errors.New("writer failed")
	}
	f.n += len(b)
	return len(b), nil
}

type randChunkReader struct {
	r   io.Reader
	rng *rand.Rand
}

func (c *randChunkReader) Read(b []byte) (int, error) {
	if len(b) == 0 {
		return 0, nil
	}
	k := 1 + c.rng.Intn(len(b))
	if k > 97 {
		k = 1 + c.rng.Intn(97)
	}
	return c.r.Read(b[:k])
}

func chunked(r io.Reader, chunk string, rng *rand.Rand) io.Reader {
	switch chunk {
	case "one":
		return iotest.OneByteReader(r)
	case "half":
		return iotest.HalfReader(r)
	case "rand":
		return &randChunkReader{r, rng}
	case "dataerr": // the last read returns data together with io.EOF
		return iotest.DataErrReader(r)
	}
	return r
}

func digest(b []byte) string {
	h := sha256.Sum256(b)
	return hex.EncodeToString(h[:6])
}

// guarded runs f, converting a panic into an outcome and measuring the allocation it caused.
func guarded(f func() error) (err error, panicked bool, allocMB int, msg string) {
	var m0, m1 runtime.MemStats
	runtime.ReadMemStats(&m0)
	func() {
		defer func() {
			if r := recover(); r != nil {
				panicked = true
				msg = fmt.Sprint(r)
			}
		}()
		err = f()
	}()
	runtime.ReadMemStats(&m1)
	allocMB = int((m1.TotalAlloc - m0.TotalAlloc) >> 20)
	if err != nil && msg == "" {
		msg = err.Error()
	}
	if len(msg) > 160 {
		msg = msg[:160]
	}
	return
}

// equalObjects: the decoded object must be indistinguishable from the written one: same re-encoding
// in both directions of every Equal method that exists, and same bytes when written again.
func equalObjects(want, have object) (eq bool) {
	defer func() {
		if r := recover(); r != nil { // a decoded object that cannot even be re-encoded is not equal
			eq = false
		}
	}()
	bw, e1 := want.MarshalBinary()
	bh, e2 := have.MarshalBinary()
	if e1 != nil || e2 != nil || !bytes.Equal(bw, bh) {
		return false
	}
	if want.BinarySize() != have.BinarySize() {
		return false
	}
	for _, pair := range [][2]object{{want, have}, {have, want}} {
		m := reflect.ValueOf(pair[0]).MethodByName("Equal")
		if !m.IsValid() || m.Type().NumIn() != 1 {
			continue
		}
		arg := reflect.ValueOf(pair[1])
		if m.Type().In(0) != arg.Type() {
			if arg.Kind() == reflect.Ptr && m.Type().In(0) == arg.Type().Elem() {
				arg = arg.Elem()
			} else {
				continue
			}
		}
		// an Equal method that cannot even compare the written object with itself (nil metadata) is not used
		if !selfEqual(m, pair[0]) {
			continue
		}
		out := m.Call([]reflect.Value{arg})
		if len(out) == 1 && out[0].Kind() == reflect.Bool && !out[0].Bool() {
			return false
		}
	}
	return true
}

func selfEqual(m reflect.Value, o object) (ok bool) {
	defer func() {
		if r := recover(); r != nil {
			ok = false
		}
	}()
	arg := reflect.ValueOf(o)
	if m.Type().In(0) != arg.Type() {
		if arg.Kind() == reflect.Ptr && m.Type().In(0) == arg.Type().Elem() {
			arg = arg.Elem()
		} else {
			return false
		}
	}
	out := m.Call([]reflect.Value{arg})
	return len(out) == 1 && out[0].Kind() == reflect.Bool && out[0].Bool()
}

type driver struct {
	e      *env
	w      *tr.Writer
	rng    *rand.Rand
	prog   int
	fork   int
	byName map[string]*typeClass
}

func (d *driver) emit(ev event) {
	d.fork++
	ev.Prog, ev.Fork = d.prog, d.fork
	d.w.Emit(ev)
}

func (d *driver) newScenario() {
	d.prog++
	d.fork = 0
	d.w.Emit(event{Ev: "new", Prog: d.prog, Fork: 0})
}

func (d *driver) receiver(tc *typeClass, prior string, v int) object {
	switch prior {
	case "fresh":
		return tc.fresh()
	case "same":
		return tc.mk(v)
	default: // "other": another value of the type (different size/flags where the type has several)
		return tc.mk((v + 1) % tc.nv)
	}
}

type scenStep struct {
	Ev    string `json:"ev"`
	T     string `json:"t"`
	V     int    `json:"v"`
	Entry string `json:"entry"`
	Prior string `json:"prior"`
	Chunk string `json:"chunk"`
}

// scenario executes one TLC-generated behaviour: writes on one stream, then reads in order.
func (d *driver) scenario(steps []scenStep) {
	d.newScenario()
	var stream bytes.Buffer
	bw := bufio.NewWriter(plainWriter{&stream})
	type seg struct {
		tc  *typeClass
		v   int
		obj object
		len int
	}
	var segs []seg
	var reads []scenStep
	for _, st := range steps {
		if st.Ev == "read" {
			reads = append(reads, st)
			continue
		}
		tc := d.byName[st.T]
		obj := tc.mk(st.V % tc.nv)
		// objects are random: within a scenario the same (t,v) must be the same object
		for _, s := range segs {
			if s.tc == tc && s.v == st.V%tc.nv {
				obj = s.obj
			}
		}
		before := stream.Len() + bw.Buffered()
		var n int64
		ev := event{Ev: "write", T: tc.name, V: st.V % tc.nv, Entry: st.Entry, Size: obj.BinarySize()}
		err, pan, _, msg := guarded(func() (err error) {
			switch st.Entry {
			case "wt_plain":
				if err = bw.Flush(); err != nil {
					return
				}
				n, err = obj.WriteTo(plainWriter{&stream})
			case "wt_bufio":
				n, err = obj.WriteTo(bw)
			case "wt_buffer":
				if err = bw.Flush(); err != nil {
					return
				}
				buf := buffer.NewBufferSize(obj.BinarySize())
				n, err = obj.WriteTo(buf)
				stream.Write(buf.Bytes())
			case "marshal":
				if err = bw.Flush(); err != nil {
					return
				}
				var b []byte
				b, err = obj.MarshalBinary()
				n = int64(len(b))
				stream.Write(b)
			}
			return
		})
		bw.Flush()
		all := stream.Bytes()
		ev.N, ev.Len, ev.Err, ev.Panic, ev.Msg = int(n), len(all)-before, err != nil, pan, msg
		if ev.Len > 0 && before <= len(all) {
			ev.Dig = digest(all[before:])
		}
		d.emit(ev)
		segs = append(segs, seg{tc, st.V % tc.nv, obj, ev.Len})
	}
	data := append([]byte{}, stream.Bytes()...)
	// shared readers
	pos := 0
	under := bytes.NewReader(data)
	var br *bufio.Reader
	brChunk := ""
	for i, st := range reads {
		if i >= len(segs) {
			break
		}
		s := segs[i]
		recv := d.receiver(s.tc, st.Prior, s.v)
		ev := event{Ev: "read", T: s.tc.name, V: s.v, Entry: st.Entry, Prior: st.Prior, Chunk: st.Chunk, Consumed: -1}
		var n int64
		err, pan, alloc, msg := guarded(func() (err error) {
			switch st.Entry {
			case "rf_bufio":
				// one bufio.Reader shared by consecutive rf_bufio reads
				if br == nil || brChunk != st.Chunk {
					under = bytes.NewReader(data[pos:])
					// "buf17" / "buf100": a buffered reader whose size is not a multiple of the element sizes
					switch st.Chunk {
					case "buf17":
						br = bufio.NewReaderSize(plainReader{under}, 17)
					case "buf100":
						br = bufio.NewReaderSize(plainReader{under}, 100)
					default:
						br = bufio.NewReader(plainReader{chunked(under, st.Chunk, d.rng)})
					}
					brChunk = st.Chunk
				}
				before := under.Len() + br.Buffered()
				n, err = recv.ReadFrom(br)
				ev.Consumed = before - (under.Len() + br.Buffered())
				if st.Chunk == "dataerr" { // iotest.DataErrReader reads ahead on its own: position not observable
					ev.Consumed = -1
				}
			case "rf_buffer":
				b := buffer.NewBuffer(data[pos:])
				n, err = recv.ReadFrom(b)
				ev.Consumed = len(data[pos:]) - b.Size()
				br = nil
			case "rf_plain":
				n, err = recv.ReadFrom(plainReader{chunked(bytes.NewReader(data[pos:pos+s.len]), st.Chunk, d.rng)})
				br = nil
			case "unmarshal":
				err = recv.UnmarshalBinary(data[pos : pos+s.len])
				n = int64(s.len)
				br = nil
			}
			return
		})
		ev.N, ev.Err, ev.Panic, ev.AllocMB, ev.Msg = int(n), err != nil, pan, alloc, msg
		if !ev.Err && !ev.Panic {
			ev.Equal = equalObjects(s.obj, recv)
		}
		d.emit(ev)
		pos += s.len
		if ev.Err || ev.Panic {
			break
		}
	}
}

// faults sweeps truncation offsets, header corruptions and writer failure offsets of one object.
func (d *driver) faults(tc *typeClass, v int, quick bool) {
	d.newScenario()
	obj := tc.mk(v)
	data, err := obj.MarshalBinary()
	if err != nil || len(data) == 0 {
		return
	}
	L := len(data)
	offs := map[int]bool{}
	for i := 0; i < 24 && i < L; i++ {
		offs[i] = true
	}
	for i := 1; i <= 12 && L-i >= 0; i++ {
		offs[L-i] = true
	}
	step := 1
	if quick {
		step = L/24 + 1
	} else if L > 4000 {
		step = L/1500 + 1
	}
	for i := 0; i < L; i += step {
		offs[i] = true
	}
	keys := make([]int, 0, len(offs))
	for k := range offs {
		keys = append(keys, k)
	}
	sort.Ints(keys)
	for _, k := range keys {
		for _, entry := range []string{"rf_bufio", "unmarshal", "rf_plain"} {
			if entry == "rf_plain" && k%3 != 0 {
				continue
			}
			recv := tc.fresh()
			err, pan, alloc, msg := guarded(func() error {
				switch entry {
				case "rf_bufio":
					_, e := recv.ReadFrom(bufio.NewReader(bytes.NewReader(data[:k])))
					return e
				case "rf_plain":
					_, e := recv.ReadFrom(plainReader{bytes.NewReader(data[:k])})
					return e
				default:
					return recv.UnmarshalBinary(data[:k])
				}
			})
			d.emit(event{Ev: "readfault", T: tc.name, V: v, Entry: entry, Fault: "truncate", Offset: k, Len: L, Err: err != nil, Panic: pan, AllocMB: alloc, Msg: msg})
		}
	}
	// header corruption: every byte of the first 32 and a sample of others set to 0xff / 0x80 / 0x00^
	cor := []int{}
	for i := 0; i < 40 && i < L; i++ {
		cor = append(cor, i)
	}
	for i := 40; i < L; i += L/16 + 1 {
		cor = append(cor, i)
	}
	for _, k := range cor {
		for _, val := range []byte{0xff, 0x7f} {
			if data[k] == val {
				continue
			}
			bad := append([]byte{}, data...)
			bad[k] = val
			recv := tc.fresh()
			var n int64
			_, pan, alloc, msg := guarded(func() (e error) {
				n, e = recv.ReadFrom(bufio.NewReader(bytes.NewReader(bad)))
				return e
			})
			// a corrupted payload byte legitimately decodes to another object: only clean behaviour is demanded:
			// no panic, bounded allocation, and never more bytes reported than exist
			ok := !pan && alloc <= 64 && int(n) <= L
			d.emit(event{Ev: "readfault", T: tc.name, V: v, Entry: "rf_bufio", Fault: "corrupt", Offset: k, Len: L, Err: ok, Panic: pan, AllocMB: alloc, Msg: msg})
		}
	}
	// failing writer at sampled offsets
	woffs := []int{0, 1, 7, 8, 9, L / 2, L - 33, L - 32, L - 31, L - 9, L - 8, L - 1}
	if !quick {
		for i := 0; i < L; i += L/300 + 1 {
			woffs = append(woffs, i)
		}
	}
	for _, k := range woffs {
		if k < 0 || k >= L {
			continue
		}
		for _, entry := range []string{"wt_plain", "wt_bufio"} {
			var n int64
			err, pan, alloc, msg := guarded(func() (e error) {
				fw := &failWriter{limit: k}
				if entry == "wt_plain" {
					n, e = obj.WriteTo(fw)
					return e
				}
				bw := bufio.NewWriterSize(fw, 64)
				n, e = obj.WriteTo(bw)
				if e == nil {
					e = bw.Flush() // the caller owns the buffered writer: the error may surface at its Flush
				}
				return e
			})
			d.emit(event{Ev: "writefault", T: tc.name, V: v, Entry: entry, Fault: "wfail", Offset: k, Len: L, N: int(n), Err: err != nil, Panic: pan, AllocMB: alloc, Msg: msg})
		}
	}
}

// jsonRoundTrips exercises the JSON codecs of the types offering them.
func (d *driver) jsonRoundTrips() {
	d.newScenario()
	type jt struct {
		name string
		mk   func(v int) interface{}
		fr   func(v int) interface{}
		eq   func(a, b interface{}) bool
	}
	rt := func(name string, v int, val, recv interface{}, eq func() bool) {
		var equal bool
		err, pan, alloc, msg := guarded(func() error {
			b, e := json.Marshal(val)
			if e != nil {
				return e
			}
			if e = json.Unmarshal(b, recv); e != nil {
				return e
			}
			equal = eq()
			return nil
		})
		d.emit(event{Ev: "json", T: name, V: v, Equal: equal, Err: err != nil, Panic: pan, AllocMB: alloc, Msg: msg})
	}
	for v := 0; v < 3; v++ {
		p := d.byName["rlwe.Parameters"].mk(v).(*rlwe.Parameters)
		for _, prior := range []int{-1, (v + 1) % 3} {
			recv := &rlwe.Parameters{}
			if prior >= 0 {
				recv = d.byName["rlwe.Parameters"].mk(prior).(*rlwe.Parameters)
			}
			rt("rlwe.Parameters", v, p, recv, func() bool { return p.Equal(recv) })
		}
		// metadata: every flag combination into a receiver that held the opposite flags
		m := d.byName["rlwe.MetaData"].mk(v).(*rlwe.MetaData)
		for _, prior := range []int{-1, (v + 1) % 3, (v + 2) % 3} {
			recv := &rlwe.MetaData{}
			if prior >= 0 {
				recv = d.byName["rlwe.MetaData"].mk(prior).(*rlwe.MetaData)
			}
			rt("rlwe.MetaData", v, m, recv, func() bool { return m.Equal(recv) })
		}
	}
	for v := 0; v < 2; v++ {
		bp := d.byName["bgv.Parameters"].mk(v).(*bgv.Parameters)
		recvb := d.byName["bgv.Parameters"].mk(1 - v).(*bgv.Parameters)
		rt("bgv.Parameters", v, bp, recvb, func() bool { return bp.Equal(recvb) })
		cp := d.byName["ckks.Parameters"].mk(v).(*ckks.Parameters)
		recvc := d.byName["ckks.Parameters"].mk(1 - v).(*ckks.Parameters)
		rt("ckks.Parameters", v, cp, recvc, func() bool { return cp.Equal(recvc) })
	}
}

// Main: `vrun c08 types` prints the type table; `vrun c08 exec --scen f --trace out --tier t`.
func Main(args []string) int {
	fs := flag.NewFlagSet("c08", flag.ExitOnError)
	scen := fs.String("scen", "", "scenario file (one JSON array per line)")
	trace := fs.String("trace", "", "output trace")
	seed := fs.Uint64("seed", 1, "seed")
	tier := fs.String("tier", "quick", "tier")
	part := fs.Int("part", 0, "fault sweep: this part")
	parts := fs.Int("parts", 1, "fault sweep: number of parts")
	fs.Parse(args[1:])
	tr.Seed(*seed)
	e := newEnv()
	switch args[0] {
	case "types":
		out := map[string]int{}
		for _, t := range e.types {
			out[t.name] = t.nv
		}
		b, _ := json.Marshal(out)
		fmt.Println(string(b))
		return 0
	case "exec":
		d := &driver{e: e, w: tr.NewWriter(*trace), rng: rand.New(rand.NewSource(int64(*seed))), byName: map[string]*typeClass{}}
		defer d.w.Close()
		for i := range e.types {
			d.byName[e.types[i].name] = &e.types[i]
		}
		if *scen != "" {
			f, err := os.Open(*scen)
			tr.Must(err)
			sc := bufio.NewScanner(f)
			sc.Buffer(make([]byte, 1<<20), 1<<26)
			for sc.Scan() {
				var steps []scenStep
				if err := json.Unmarshal(sc.Bytes(), &steps); err != nil {
					fmt.Fprintln(os.Stderr, "bad scenario:", err)
					return 2
				}
				d.scenario(steps)
			}
			f.Close()
		} else {
			k := 0
			for i := range e.types {
				for v := 0; v < e.types[i].nv; v++ {
					if k%*parts == *part {
						d.faults(&e.types[i], v, *tier == "quick")
					}
					k++
				}
			}
			if *part == 0 {
				d.jsonRoundTrips()
			}
		}
		res := tr.Result{Events: d.w.N, Cases: d.prog}
		res.Print()
		return 0
	}
	return 2
}
