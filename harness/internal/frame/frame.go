// Package frame records, for the operations of lattigo that are not evaluator methods (encoders, encryptor,
// decryptor, key generator, multiparty protocols, threshold), whether every argument other than the designated
// output is bit-for-bit unchanged after the call, and whether the result depends on what the output object held
// before -- for validation against spec/Frame.tla (C09).
package frame

import (
	"crypto/sha256"
	"encoding/binary"
	"encoding/hex"
	"encoding/json"
	"flag"
	"fmt"
	"math/big"
	"os"
	"reflect"
	"sort"
	"unsafe"

	"github.com/tuneinsight/lattigo/v6/core/rgsw"
	"github.com/tuneinsight/lattigo/v6/core/rlwe"
	"github.com/tuneinsight/lattigo/v6/multiparty"
	"github.com/tuneinsight/lattigo/v6/multiparty/mpbgv"
	"github.com/tuneinsight/lattigo/v6/multiparty/mpckks"
	"github.com/tuneinsight/lattigo/v6/ring"
	"github.com/tuneinsight/lattigo/v6/schemes/bgv"
	"github.com/tuneinsight/lattigo/v6/schemes/ckks"
	"github.com/tuneinsight/lattigo/v6/utils/sampling"

	"verif/harness/internal/tr"
)

type ev map[string]interface{}

type arg struct {
	Name string
	Role string // in | out
	V    interface{}
}

// digest of one argument: its binary encoding when it has one, the raw numbers otherwise
func dg(p interface{}) string {
	h := sha256.New()
	var b8 [8]byte
	switch x := p.(type) {
	case nil:
		h.Write([]byte("nil"))
	case interface{ MarshalBinary() ([]byte, error) }:
		if v := reflect.ValueOf(x); v.Kind() == reflect.Ptr && v.IsNil() {
			h.Write([]byte("nilptr"))
			break
		}
		b, err := x.MarshalBinary()
		if err != nil {
			h.Write([]byte("ERR" + err.Error()))
		}
		h.Write(b)
	case []uint64:
		for _, v := range x {
			binary.LittleEndian.PutUint64(b8[:], v)
			h.Write(b8[:])
		}
	case []int64:
		for _, v := range x {
			binary.LittleEndian.PutUint64(b8[:], uint64(v))
			h.Write(b8[:])
		}
	case ring.Poly:
		for _, row := range x.Coeffs {
			for _, v := range row {
				binary.LittleEndian.PutUint64(b8[:], v)
				h.Write(b8[:])
			}
		}
	case []*big.Int:
		for _, v := range x {
			h.Write([]byte(v.String() + ","))
		}
	case []multiparty.ShamirPublicPoint:
		for _, v := range x {
			binary.LittleEndian.PutUint64(b8[:], uint64(v))
			h.Write(b8[:])
		}
	default:
		h.Write([]byte(fmt.Sprintf("%v", x)))
	}
	return hex.EncodeToString(h.Sum(nil)[:8])
}

// an operation builds its arguments (receivers fresh or dirty) and returns the call
type fop struct {
	name  string
	layer string
	mk    func(dirty bool) (args []arg, call func() error)
}

func guarded(f func() error) (err error, pan bool, msg string) {
	defer func() {
		if r := recover(); r != nil {
			pan, msg = true, fmt.Sprint(r)
		}
	}()
	if err = f(); err != nil {
		msg = err.Error()
	}
	if len(msg) > 160 {
		msg = msg[:160]
	}
	return
}

func runOp(o fop, seed uint64) ev {
	e := ev{"ev": "frame", "op": o.name, "layer": o.layer}
	type st struct {
		outs string
		args []ev
		err  bool
		pan  bool
		msg  string
	}
	one := func(dirty bool) st {
		// everything (keys, protocol instances, inputs) is rebuilt from the same seed in the same order; receivers are
		// dirtied through twin instances, so that the call under test sees the same randomness in both runs
		tr.Seed(seed)
		var mk func(bool) ([]arg, func() error)
		for _, x := range ops(newFix()) {
			if x.name == o.name {
				mk = x.mk
			}
		}
		args, call := mk(dirty)
		before := make([]string, len(args))
		for i, a := range args {
			before[i] = dg(a.V)
		}
		tr.Seed(seed ^ 0x5555) // generators created during the call are keyed alike in both runs
		err, pan, msg := guarded(call)
		r := st{err: err != nil, pan: pan, msg: msg}
		h := sha256.New()
		for i, a := range args {
			after := dg(a.V)
			r.args = append(r.args, ev{"name": a.Name, "role": a.Role, "same": after == before[i]})
			if a.Role == "out" {
				h.Write([]byte(after))
			}
		}
		r.outs = hex.EncodeToString(h.Sum(nil)[:8])
		// storage: overwriting everything reachable from the outputs must not reach an input (no backing array of an
		// input may have been handed to a receiver)
		if !pan {
			for _, a := range args {
				if a.Role == "out" {
					clobber(reflect.ValueOf(a.V), map[uintptr]bool{}, 0)
				}
			}
			for i, a := range args {
				if a.Role == "in" {
					r.args[i]["sep"] = dg(a.V) == before[i] || !r.args[i]["same"].(bool)
				} else {
					r.args[i]["sep"] = true
				}
			}
		} else {
			for i := range r.args {
				r.args[i]["sep"] = true
			}
		}
		return r
	}
	fresh := one(false)
	dirty := one(true)
	e["args"], e["err"], e["panic"], e["msg"] = fresh.args, fresh.err, fresh.pan, fresh.msg
	e["dargs"], e["derr"], e["dpanic"] = dirty.args, dirty.err, dirty.pan
	e["again"] = fresh.outs == dirty.outs
	return e
}

// clobber flips every uint64 reachable from v through pointers, structs, slices, arrays and maps (lattice data lives in
// [][]uint64); shared tables are not reachable from data objects (shares, ciphertexts, keys, polynomials, vectors).
func clobber(v reflect.Value, seen map[uintptr]bool, depth int) {
	if depth > 12 || !v.IsValid() {
		return
	}
	switch v.Kind() {
	case reflect.Ptr:
		if v.IsNil() || seen[v.Pointer()] {
			return
		}
		seen[v.Pointer()] = true
		clobber(v.Elem(), seen, depth+1)
	case reflect.Interface:
		if !v.IsNil() {
			clobber(v.Elem(), seen, depth+1)
		}
	case reflect.Struct:
		switch v.Type().Name() {
		case "Ring", "SubRing", "Parameters", "Int", "Float":
			return
		}
		for i := 0; i < v.NumField(); i++ {
			f := v.Field(i)
			if f.CanAddr() {
				f = reflect.NewAt(f.Type(), unsafe.Pointer(f.UnsafeAddr())).Elem()
			}
			clobber(f, seen, depth+1)
		}
	case reflect.Slice:
		if v.IsNil() {
			return
		}
		if v.Type().Elem().Kind() == reflect.Uint64 {
			if v.Len() > 0 && v.Index(0).CanSet() {
				for i := 0; i < v.Len(); i++ {
					v.Index(i).SetUint(v.Index(i).Uint() ^ 0xa5a5a5a5a5a5a5a5)
				}
			}
			return
		}
		for i := 0; i < v.Len(); i++ {
			clobber(v.Index(i), seen, depth+1)
		}
	case reflect.Array:
		for i := 0; i < v.Len(); i++ {
			clobber(v.Index(i), seen, depth+1)
		}
	case reflect.Map:
		it := v.MapRange()
		for it.Next() {
			clobber(it.Value(), seen, depth+1)
		}
	}
}

// ------------------------------------------------------------------------------------------------------------------

type fix struct {
	bp                      bgv.Parameters
	cp                      ckks.Parameters
	p                       rlwe.Parameters
	kg, kgD                 *rlwe.KeyGenerator
	sk, sk2                 *rlwe.SecretKey
	pk                      *rlwe.PublicKey
	becd                    *bgv.Encoder
	cecd                    *ckks.Encoder
	nd                      ring.DistributionParameters
	ckgen                   *rlwe.KeyGenerator
	csk                     *rlwe.SecretKey
	crs                     func(tag string) *sampling.KeyedPRNG
	evkp                    rlwe.EvaluationKeyParameters
	bp2                     rlwe.Parameters
	unusedA, unusedB, dummy int
}

func ip(x int) *int { return &x }

func newFix() *fix {
	f := &fix{}
	var err error
	f.bp, err = bgv.NewParametersFromLiteral(bgv.ParametersLiteral{LogN: 8, LogQ: []int{45, 40, 40}, LogP: []int{45}, PlaintextModulus: 65537})
	tr.Must(err)
	f.cp, err = ckks.NewParametersFromLiteral(ckks.ParametersLiteral{LogN: 8, LogQ: []int{55, 45, 45}, LogP: []int{55}, LogDefaultScale: 45})
	tr.Must(err)
	f.p = f.bp.Parameters
	f.kg = rlwe.NewKeyGenerator(f.p)
	f.sk, f.sk2 = f.kg.GenSecretKeyNew(), f.kg.GenSecretKeyNew()
	f.pk = f.kg.GenPublicKeyNew(f.sk)
	f.kgD = rlwe.NewKeyGenerator(f.p)
	f.becd = bgv.NewEncoder(f.bp)
	f.cecd = ckks.NewEncoder(f.cp)
	f.nd = ring.DiscreteGaussian{Sigma: 8 * rlwe.DefaultNoise, Bound: 6 * 8 * rlwe.DefaultNoise}
	f.ckgen = rlwe.NewKeyGenerator(f.cp)
	f.csk = f.ckgen.GenSecretKeyNew()
	f.crs = func(tag string) *sampling.KeyedPRNG { x, e := sampling.NewKeyedPRNG([]byte(tag)); tr.Must(e); return x }
	return f
}

// receivers that "previously held something else"
func (f *fix) dirtyCt(p rlwe.Parameters, degree, level int, dirty bool) *rlwe.Ciphertext {
	if !dirty {
		return rlwe.NewCiphertext(p, degree, level)
	}
	ct := rlwe.NewCiphertext(p, 2, p.MaxLevel())
	src, _ := sampling.NewKeyedPRNG([]byte("dirty"))
	us := ring.NewUniformSampler(src, p.RingQ())
	for i := range ct.Value {
		us.Read(ct.Value[i])
	}
	ct.Resize(degree, level)
	return ct
}

func (f *fix) dirtyPoly(r *ring.Ring, dirty bool) ring.Poly {
	p := r.NewPoly()
	if dirty {
		src, _ := sampling.NewKeyedPRNG([]byte("dirty-poly"))
		ring.NewUniformSampler(src, r).Read(p)
	}
	return p
}

func (f *fix) bgvCt(level int) (*rlwe.Ciphertext, *rlwe.Plaintext) {
	v := make([]uint64, f.bp.MaxSlots())
	for i := range v {
		v[i] = uint64(i*7+3) % f.bp.PlaintextModulus()
	}
	pt := bgv.NewPlaintext(f.bp, level)
	tr.Must(f.becd.Encode(v, pt))
	ct, err := rlwe.NewEncryptor(f.bp, f.sk).EncryptNew(pt)
	tr.Must(err)
	return ct, pt
}

func (f *fix) ckksCt(level int) (*rlwe.Ciphertext, *rlwe.Plaintext) {
	v := make([]complex128, f.cp.MaxSlots())
	for i := range v {
		v[i] = complex(float64(i%5)-2, float64(i%3)-1)
	}
	pt := ckks.NewPlaintext(f.cp, level)
	tr.Must(f.cecd.Encode(v, pt))
	ct, err := rlwe.NewEncryptor(f.cp, f.csk).EncryptNew(pt)
	tr.Must(err)
	return ct, pt
}

func ops(f *fix) []fop {
	var out []fop
	add := func(layer, name string, mk func(dirty bool) ([]arg, func() error)) {
		out = append(out, fop{name: name, layer: layer, mk: mk})
	}
	p := f.p
	L := p.MaxLevel()

	// ---- encoders
	add("encoder", "bgv.Encode", func(d bool) ([]arg, func() error) {
		v := make([]uint64, f.bp.MaxSlots())
		for i := range v {
			v[i] = uint64(i) * 11 % f.bp.PlaintextModulus()
		}
		pt := bgv.NewPlaintext(f.bp, L)
		if d {
			pt.Value.Copy(f.dirtyPoly(f.bp.RingQ(), true))
		}
		return []arg{{"values", "in", v}, {"pt", "out", pt}}, func() error { return f.becd.Encode(v, pt) }
	})
	add("encoder", "bgv.Decode", func(d bool) ([]arg, func() error) {
		_, pt := f.bgvCt(1)
		v := make([]uint64, f.bp.MaxSlots())
		if d {
			for i := range v {
				v[i] = 0xdeadbeef
			}
		}
		return []arg{{"pt", "in", pt}, {"values", "out", v}}, func() error { return f.becd.Decode(pt, v) }
	})
	add("encoder", "ckks.Encode", func(d bool) ([]arg, func() error) {
		v := make([]float64, f.cp.MaxSlots())
		for i := range v {
			v[i] = float64(i%7) - 3.25
		}
		pt := ckks.NewPlaintext(f.cp, f.cp.MaxLevel())
		if d {
			pt.Value.Copy(f.dirtyPoly(f.cp.RingQ(), true))
		}
		return []arg{{"values", "in", fmt.Sprint(v)}, {"pt", "out", pt}}, func() error { return f.cecd.Encode(v, pt) }
	})
	add("encoder", "ckks.Decode", func(d bool) ([]arg, func() error) {
		_, pt := f.ckksCt(1)
		v := make([]float64, f.cp.MaxSlots())
		if d {
			for i := range v {
				v[i] = 1e9
			}
		}
		w := &v
		return []arg{{"pt", "in", pt}, {"values", "out", (*fslice)(w)}}, func() error { return f.cecd.Decode(pt, v) }
	})
	add("encoder", "ckks.DecodePublic", func(d bool) ([]arg, func() error) {
		_, pt := f.ckksCt(1)
		v := make([]float64, f.cp.MaxSlots())
		if d {
			for i := range v {
				v[i] = 1e9
			}
		}
		w := &v
		return []arg{{"pt", "in", pt}, {"values", "out", (*fslice)(w)}}, func() error { return f.cecd.DecodePublic(pt, v, 12) }
	})

	// ---- encryptor / decryptor
	for _, key := range []string{"sk", "pk"} {
		key := key
		add("encryptor", "Encrypt/"+key, func(d bool) ([]arg, func() error) {
			_, pt := f.bgvCt(1)
			var k rlwe.EncryptionKey = f.sk
			if key == "pk" {
				k = f.pk
			}
			enc := rlwe.NewEncryptor(f.bp, k)
			ct := f.dirtyCt(p, 1, 1, d)
			return []arg{{"pt", "in", pt}, {"key", "in", k}, {"ct", "out", ct}}, func() error { return enc.Encrypt(pt, ct) }
		})
		add("encryptor", "EncryptZero/"+key, func(d bool) ([]arg, func() error) {
			var k rlwe.EncryptionKey = f.sk
			if key == "pk" {
				k = f.pk
			}
			enc := rlwe.NewEncryptor(f.bp, k)
			ct := f.dirtyCt(p, 1, L, d)
			return []arg{{"key", "in", k}, {"ct", "out", ct}}, func() error { return enc.EncryptZero(ct) }
		})
	}
	add("decryptor", "Decrypt", func(d bool) ([]arg, func() error) {
		ct, _ := f.bgvCt(1)
		dec := rlwe.NewDecryptor(f.bp, f.sk)
		pt := rlwe.NewPlaintext(p, 1)
		if d {
			pt = rlwe.NewPlaintext(p, L)
			pt.Value.Copy(f.dirtyPoly(p.RingQ(), true))
			pt.Resize(0, 1)
		}
		return []arg{{"ct", "in", ct}, {"sk", "in", f.sk}, {"pt", "out", pt}}, func() error { dec.Decrypt(ct, pt); return nil }
	})
	add("decryptor", "Decrypt/deg2", func(d bool) ([]arg, func() error) {
		ct := f.dirtyCt(p, 2, L, true)
		ct.IsNTT = true
		dec := rlwe.NewDecryptor(f.bp, f.sk)
		pt := rlwe.NewPlaintext(p, L)
		if d {
			pt.Value.Copy(f.dirtyPoly(p.RingQ(), true))
		}
		return []arg{{"ct", "in", ct}, {"sk", "in", f.sk}, {"pt", "out", pt}}, func() error { dec.Decrypt(ct, pt); return nil }
	})

	// ---- key generator
	add("keygen", "GenPublicKey", func(d bool) ([]arg, func() error) {
		pk := rlwe.NewPublicKey(p)
		if d {
			pk = f.kgD.GenPublicKeyNew(f.sk2)
		}
		return []arg{{"sk", "in", f.sk}, {"pk", "out", pk}}, func() error { f.kg.GenPublicKey(f.sk, pk); return nil }
	})
	add("keygen", "GenRelinearizationKey", func(d bool) ([]arg, func() error) {
		rlk := rlwe.NewRelinearizationKey(p)
		if d {
			rlk = f.kgD.GenRelinearizationKeyNew(f.sk2)
		}
		return []arg{{"sk", "in", f.sk}, {"rlk", "out", rlk}}, func() error { f.kg.GenRelinearizationKey(f.sk, rlk); return nil }
	})
	add("keygen", "GenGaloisKey", func(d bool) ([]arg, func() error) {
		gk := rlwe.NewGaloisKey(p)
		if d {
			gk = f.kgD.GenGaloisKeyNew(p.GaloisElement(3), f.sk2)
		}
		return []arg{{"sk", "in", f.sk}, {"gk", "out", gk}}, func() error { f.kg.GenGaloisKey(p.GaloisElement(1), f.sk, gk); return nil }
	})
	add("keygen", "GenEvaluationKey", func(d bool) ([]arg, func() error) {
		evk := rlwe.NewEvaluationKey(p)
		if d {
			evk = f.kgD.GenEvaluationKeyNew(f.sk2, f.sk)
		}
		return []arg{{"skIn", "in", f.sk}, {"skOut", "in", f.sk2}, {"evk", "out", evk}}, func() error { f.kg.GenEvaluationKey(f.sk, f.sk2, evk); return nil }
	})

	// ---- collective key generation
	ckg := multiparty.NewPublicKeyGenProtocol(p)
	ckgD := multiparty.NewPublicKeyGenProtocol(p)
	add("mpkeygen", "ckg.GenShare", func(d bool) ([]arg, func() error) {
		crp := ckg.SampleCRP(f.crs("ckg"))
		sh := ckg.AllocateShare()
		if d {
			ckgD.GenShare(f.sk2, crp, &sh)
		}
		return []arg{{"sk", "in", f.sk}, {"crp", "in", &crpW{crp}}, {"share", "out", &sh}}, func() error { ckg.GenShare(f.sk, crp, &sh); return nil }
	})
	add("mpkeygen", "ckg.AggregateShares", func(d bool) ([]arg, func() error) {
		crp := ckg.SampleCRP(f.crs("ckg"))
		a, b, o := ckg.AllocateShare(), ckg.AllocateShare(), ckg.AllocateShare()
		ckg.GenShare(f.sk, crp, &a)
		ckg.GenShare(f.sk2, crp, &b)
		if d {
			ckgD.GenShare(f.sk2, crp, &o)
		}
		return []arg{{"a", "in", &a}, {"b", "in", &b}, {"out", "out", &o}}, func() error { ckg.AggregateShares(a, b, &o); return nil }
	})
	add("mpkeygen", "ckg.GenPublicKey", func(d bool) ([]arg, func() error) {
		crp := ckg.SampleCRP(f.crs("ckg"))
		a := ckg.AllocateShare()
		ckg.GenShare(f.sk, crp, &a)
		pk := rlwe.NewPublicKey(p)
		if d {
			pk = f.kgD.GenPublicKeyNew(f.sk2)
		}
		return []arg{{"share", "in", &a}, {"crp", "in", &crpW{crp}}, {"pk", "out", pk}}, func() error { ckg.GenPublicKey(a, crp, pk); return nil }
	})
	rkg := multiparty.NewRelinearizationKeyGenProtocol(p)
	rkgD := multiparty.NewRelinearizationKeyGenProtocol(p)
	add("mpkeygen", "rkg.GenShareRoundOne", func(d bool) ([]arg, func() error) {
		crp := rkg.SampleCRP(f.crs("rkg"))
		eph, r1, _ := rkg.AllocateShare()
		if d {
			rkgD.GenShareRoundOne(f.sk2, crp, eph, &r1)
		}
		return []arg{{"sk", "in", f.sk}, {"ephSk", "out", eph}, {"share", "out", &r1}}, func() error { rkg.GenShareRoundOne(f.sk, crp, eph, &r1); return nil }
	})
	add("mpkeygen", "rkg.GenShareRoundTwo", func(d bool) ([]arg, func() error) {
		crp := rkg.SampleCRP(f.crs("rkg"))
		eph, r1, r2 := rkg.AllocateShare()
		rkg.GenShareRoundOne(f.sk, crp, eph, &r1)
		if d {
			_, x, _ := rkgD.AllocateShare()
			eph2, _, _ := rkgD.AllocateShare()
			rkgD.GenShareRoundOne(f.sk2, crp, eph2, &x)
			r2 = x
		}
		return []arg{{"ephSk", "in", eph}, {"sk", "in", f.sk}, {"round1", "in", &r1}, {"share", "out", &round2W{&r2}}}, func() error { rkg.GenShareRoundTwo(eph, f.sk, r1, &r2); return nil }
	})
	add("mpkeygen", "rkg.AggregateShares", func(d bool) ([]arg, func() error) {
		crp := rkg.SampleCRP(f.crs("rkg"))
		e1, a, _ := rkg.AllocateShare()
		e2, b, _ := rkg.AllocateShare()
		_, o, _ := rkg.AllocateShare()
		rkg.GenShareRoundOne(f.sk, crp, e1, &a)
		rkg.GenShareRoundOne(f.sk2, crp, e2, &b)
		if d {
			e3, _, _ := rkgD.AllocateShare()
			rkgD.GenShareRoundOne(f.sk2, crp, e3, &o)
		}
		return []arg{{"a", "in", &a}, {"b", "in", &b}, {"out", "out", &o}}, func() error { rkg.AggregateShares(a, b, &o); return nil }
	})
	add("mpkeygen", "rkg.GenRelinearizationKey", func(d bool) ([]arg, func() error) {
		crp := rkg.SampleCRP(f.crs("rkg"))
		eph, r1, r2 := rkg.AllocateShare()
		rkg.GenShareRoundOne(f.sk, crp, eph, &r1)
		rkg.GenShareRoundTwo(eph, f.sk, r1, &r2)
		rlk := rlwe.NewRelinearizationKey(p)
		if d {
			rlk = f.kgD.GenRelinearizationKeyNew(f.sk2)
		}
		return []arg{{"round1", "in", &r1}, {"round2", "in", &r2}, {"rlk", "out", rlk}}, func() error { rkg.GenRelinearizationKey(r1, r2, rlk); return nil }
	})
	gkg := multiparty.NewGaloisKeyGenProtocol(p)
	gkgD := multiparty.NewGaloisKeyGenProtocol(p)
	add("mpkeygen", "gkg.GenShare", func(d bool) ([]arg, func() error) {
		crp := gkg.SampleCRP(f.crs("gkg"))
		sh := gkg.AllocateShare()
		if d {
			tr.Must(gkgD.GenShare(f.sk2, p.GaloisElement(5), crp, &sh))
		}
		return []arg{{"sk", "in", f.sk}, {"share", "out", &sh}}, func() error { return gkg.GenShare(f.sk, p.GaloisElement(1), crp, &sh) }
	})
	add("mpkeygen", "gkg.AggregateShares", func(d bool) ([]arg, func() error) {
		crp := gkg.SampleCRP(f.crs("gkg"))
		a, b, o := gkg.AllocateShare(), gkg.AllocateShare(), gkg.AllocateShare()
		tr.Must(gkg.GenShare(f.sk, p.GaloisElement(1), crp, &a))
		tr.Must(gkg.GenShare(f.sk2, p.GaloisElement(1), crp, &b))
		if d {
			tr.Must(gkgD.GenShare(f.sk2, p.GaloisElement(5), crp, &o))
		}
		return []arg{{"a", "in", &a}, {"b", "in", &b}, {"out", "out", &o}}, func() error { return gkg.AggregateShares(a, b, &o) }
	})
	add("mpkeygen", "gkg.GenGaloisKey", func(d bool) ([]arg, func() error) {
		crp := gkg.SampleCRP(f.crs("gkg"))
		a := gkg.AllocateShare()
		tr.Must(gkg.GenShare(f.sk, p.GaloisElement(1), crp, &a))
		gk := rlwe.NewGaloisKey(p)
		if d {
			gk = f.kgD.GenGaloisKeyNew(p.GaloisElement(3), f.sk2)
		}
		return []arg{{"share", "in", &a}, {"gk", "out", gk}}, func() error { return gkg.GenGaloisKey(a, crp, gk) }
	})
	evkg := multiparty.NewEvaluationKeyGenProtocol(p)
	evkgD := multiparty.NewEvaluationKeyGenProtocol(p)
	add("mpkeygen", "evkg.GenShare", func(d bool) ([]arg, func() error) {
		crp := evkg.SampleCRP(f.crs("evkg"))
		sh := evkg.AllocateShare()
		if d {
			tr.Must(evkgD.GenShare(f.sk2, f.sk, crp, &sh))
		}
		return []arg{{"skIn", "in", f.sk}, {"skOut", "in", f.sk2}, {"share", "out", &sh}}, func() error { return evkg.GenShare(f.sk, f.sk2, crp, &sh) }
	})
	add("mpkeygen", "evkg.GenEvaluationKey", func(d bool) ([]arg, func() error) {
		crp := evkg.SampleCRP(f.crs("evkg"))
		a := evkg.AllocateShare()
		tr.Must(evkg.GenShare(f.sk, f.sk2, crp, &a))
		evk := rlwe.NewEvaluationKey(p)
		if d {
			evk = f.kgD.GenEvaluationKeyNew(f.sk2, f.sk)
		}
		return []arg{{"share", "in", &a}, {"evk", "out", evk}}, func() error { return evkg.GenEvaluationKey(a, crp, evk) }
	})

	// ---- rlwe.Evaluator and rgsw (the scheme evaluators are driven by the IntEval / ApproxEval machines)
	type evalKit struct {
		ev  *rlwe.Evaluator
		swk *rlwe.EvaluationKey
	}
	mkEval := func(d bool) evalKit {
		galEls := []uint64{p.GaloisElement(1), p.GaloisElement(2), p.GaloisElementOrderTwoOrthogonalSubgroup()}
		galEls = append(galEls, rlwe.GaloisElementsForTrace(p, 2)...)
		galEls = append(galEls, rlwe.GaloisElementsForInnerSum(p, 1, 5)...)
		galEls = append(galEls, rlwe.GaloisElementsForReplicate(p, 1, 5)...)
		seen := map[uint64]bool{}
		uniq := []uint64{}
		for _, g := range galEls {
			if !seen[g] {
				seen[g] = true
				uniq = append(uniq, g)
			}
		}
		// the element lists come out of maps: a fixed order, so that both runs draw the same keys
		sort.Slice(uniq, func(i, j int) bool { return uniq[i] < uniq[j] })
		rlk := f.kg.GenRelinearizationKeyNew(f.sk)
		gks := f.kg.GenGaloisKeysNew(uniq, f.sk)
		swk := f.kg.GenEvaluationKeyNew(f.sk, f.sk2)
		ev := rlwe.NewEvaluator(p, rlwe.NewMemEvaluationKeySet(rlk, gks...))
		if d { // an evaluator that has been used on other data
			junk, junk2 := f.dirtyCt(p, 1, L, true), f.dirtyCt(p, 1, L, true)
			tr.Must(ev.Automorphism(junk, p.GaloisElement(2), junk2))
			tr.Must(ev.PartialTracesSum(junk, 1, 5, junk2))
			tr.Must(ev.ApplyEvaluationKey(junk, swk, junk2))
		}
		return evalKit{ev, swk}
	}
	add("rlweeval", "ApplyEvaluationKey", func(d bool) ([]arg, func() error) {
		k := mkEval(d)
		ct, _ := f.bgvCt(1)
		o := f.dirtyCt(p, 1, map[bool]int{false: 1, true: L}[d], d) // the used receiver sits at a higher level than the input
		return []arg{{"ct", "in", ct}, {"evk", "in", k.swk}, {"out", "out", o}}, func() error { return k.ev.ApplyEvaluationKey(ct, k.swk, o) }
	})
	add("rlweeval", "Relinearize", func(d bool) ([]arg, func() error) {
		k := mkEval(d)
		ct, _ := f.bgvCt(1)
		ct2, err := bgv.NewEvaluator(f.bp, nil).MulNew(ct, ct)
		tr.Must(err)
		o := f.dirtyCt(p, 1, map[bool]int{false: 1, true: L}[d], d) // the used receiver sits at a higher level than the input
		return []arg{{"ct", "in", ct2}, {"out", "out", o}}, func() error { return k.ev.Relinearize(ct2, o) }
	})
	add("rlweeval", "Automorphism", func(d bool) ([]arg, func() error) {
		k := mkEval(d)
		ct, _ := f.bgvCt(1)
		o := f.dirtyCt(p, 1, map[bool]int{false: 1, true: L}[d], d) // the used receiver sits at a higher level than the input
		return []arg{{"ct", "in", ct}, {"out", "out", o}}, func() error { return k.ev.Automorphism(ct, p.GaloisElement(1), o) }
	})
	add("rlweeval", "Automorphism/identity", func(d bool) ([]arg, func() error) {
		k := mkEval(d)
		ct, _ := f.bgvCt(1)
		o := f.dirtyCt(p, 1, map[bool]int{false: 1, true: L}[d], d) // the used receiver sits at a higher level than the input
		return []arg{{"ct", "in", ct}, {"out", "out", o}}, func() error { return k.ev.Automorphism(ct, 1, o) }
	})
	add("rlweeval", "AutomorphismHoisted", func(d bool) ([]arg, func() error) {
		k := mkEval(d)
		ct, _ := f.bgvCt(1)
		o := f.dirtyCt(p, 1, map[bool]int{false: 1, true: L}[d], d) // the used receiver sits at a higher level than the input
		return []arg{{"ct", "in", ct}, {"out", "out", o}}, func() error {
			k.ev.DecomposeNTT(1, p.MaxLevelP(), p.PCount(), ct.Value[1], ct.IsNTT, k.ev.BuffDecompQP)
			return k.ev.AutomorphismHoisted(1, ct, k.ev.BuffDecompQP, p.GaloisElement(2), o)
		}
	})
	add("rlweeval", "Trace", func(d bool) ([]arg, func() error) {
		k := mkEval(d)
		ct, _ := f.bgvCt(1)
		o := f.dirtyCt(p, 1, map[bool]int{false: 1, true: L}[d], d) // the used receiver sits at a higher level than the input
		return []arg{{"ct", "in", ct}, {"out", "out", o}}, func() error { return k.ev.Trace(ct, 2, o) }
	})
	add("rlweeval", "PartialTracesSum", func(d bool) ([]arg, func() error) {
		k := mkEval(d)
		ct, _ := f.bgvCt(1)
		o := f.dirtyCt(p, 1, map[bool]int{false: 1, true: L}[d], d) // the used receiver sits at a higher level than the input
		return []arg{{"ct", "in", ct}, {"out", "out", o}}, func() error { return k.ev.PartialTracesSum(ct, 1, 5, o) }
	})
	add("rlweeval", "Replicate", func(d bool) ([]arg, func() error) {
		k := mkEval(d)
		ct, _ := f.bgvCt(1)
		o := f.dirtyCt(p, 1, map[bool]int{false: 1, true: L}[d], d) // the used receiver sits at a higher level than the input

		return []arg{{"ct", "in", ct}, {"out", "out", o}}, func() error { return k.ev.Replicate(ct, 1, 5, o) }
	})
	mkRgsw := func(seedv uint64) *rgsw.Ciphertext {
		pt := rlwe.NewPlaintext(p, L)
		pt.IsNTT = true
		for i := range pt.Value.Coeffs {
			pt.Value.Coeffs[i][0] = seedv // the constant seedv (NTT of a constant is constant)
			for j := range pt.Value.Coeffs[i] {
				pt.Value.Coeffs[i][j] = seedv
			}
		}
		g := rgsw.NewCiphertext(p, L, p.MaxLevelP(), 0)
		tr.Must(rgsw.NewEncryptor(p, f.sk).Encrypt(pt, g))
		return g
	}
	// the four representations a plaintext can be handed over in
	for _, rep := range [][2]bool{{true, false}, {true, true}, {false, false}, {false, true}} {
		rep := rep
		add("rgsw", fmt.Sprintf("rgsw.Encrypt/ntt=%v,mont=%v", rep[0], rep[1]), func(d bool) ([]arg, func() error) {
			pt := rlwe.NewPlaintext(p, L)
			pt.IsNTT, pt.IsMontgomery = rep[0], rep[1]
			for i := range pt.Value.Coeffs {
				for j := range pt.Value.Coeffs[i] {
					pt.Value.Coeffs[i][j] = uint64(3 + j%5)
				}
			}
			enc := rgsw.NewEncryptor(p, f.sk) // before the receiver is dirtied: the generators are keyed in creation order
			g := rgsw.NewCiphertext(p, L, p.MaxLevelP(), 0)
			if d {
				g = mkRgsw(5)
			}
			return []arg{{"pt", "in", pt}, {"out", "out", g}}, func() error { return enc.Encrypt(pt, g) }
		})
	}
	add("rgsw", "rgsw.ExternalProduct", func(d bool) ([]arg, func() error) {
		g := mkRgsw(2)
		ct, _ := f.bgvCt(L)
		ev := rgsw.NewEvaluator(p, nil)
		if d {
			ev.ExternalProduct(f.dirtyCt(p, 1, L, true), mkRgsw(7), f.dirtyCt(p, 1, L, true))
		}
		o := f.dirtyCt(p, 1, L, d)
		return []arg{{"ct", "in", ct}, {"rgsw", "in", g}, {"out", "out", o}}, func() error { ev.ExternalProduct(ct, g, o); return nil }
	})

	// ---- collective key switching, conversions, refresh
	cks, err := multiparty.NewKeySwitchProtocol(p, f.nd)
	tr.Must(err)
	cksD, err := multiparty.NewKeySwitchProtocol(p, f.nd)
	tr.Must(err)
	add("mpswitch", "cks.GenShare", func(d bool) ([]arg, func() error) {
		ct, _ := f.bgvCt(1)
		sh := cks.AllocateShare(1)
		if d {
			sh = cksD.AllocateShare(L)
			cksD.GenShare(f.sk2, f.sk, f.dirtyCt(p, 1, L, true), &sh)
		}
		return []arg{{"skIn", "in", f.sk}, {"skOut", "in", f.sk2}, {"ct", "in", ct}, {"share", "out", &sh}}, func() error { cks.GenShare(f.sk, f.sk2, ct, &sh); return nil }
	})
	add("mpswitch", "cks.AggregateShares", func(d bool) ([]arg, func() error) {
		ct, _ := f.bgvCt(1)
		a, b, o := cks.AllocateShare(1), cks.AllocateShare(1), cks.AllocateShare(1)
		cks.GenShare(f.sk, f.sk2, ct, &a)
		cks.GenShare(f.sk2, f.sk, ct, &b)
		if d {
			cksD.GenShare(f.sk2, f.sk2, ct, &o)
		}
		return []arg{{"a", "in", &a}, {"b", "in", &b}, {"out", "out", &o}}, func() error { return cks.AggregateShares(a, b, &o) }
	})
	add("mpswitch", "cks.KeySwitch", func(d bool) ([]arg, func() error) {
		ct, _ := f.bgvCt(1)
		a := cks.AllocateShare(1)
		cks.GenShare(f.sk, f.sk2, ct, &a)
		o := f.dirtyCt(p, 1, 1, d)
		return []arg{{"ct", "in", ct}, {"combined", "in", &a}, {"out", "out", o}}, func() error { cks.KeySwitch(ct, a, o); return nil }
	})
	pcks, err := multiparty.NewPublicKeySwitchProtocol(p, f.nd)
	tr.Must(err)
	pcksD, err := multiparty.NewPublicKeySwitchProtocol(p, f.nd)
	tr.Must(err)
	add("mpswitch", "pcks.GenShare", func(d bool) ([]arg, func() error) {
		ct, _ := f.bgvCt(1)
		sh := pcks.AllocateShare(1)
		if d {
			pcksD.GenShare(f.sk2, f.pk, ct, &sh)
		}
		return []arg{{"sk", "in", f.sk}, {"pk", "in", f.pk}, {"ct", "in", ct}, {"share", "out", &sh}}, func() error { pcks.GenShare(f.sk, f.pk, ct, &sh); return nil }
	})
	add("mpswitch", "pcks.KeySwitch", func(d bool) ([]arg, func() error) {
		ct, _ := f.bgvCt(1)
		a := pcks.AllocateShare(1)
		pcks.GenShare(f.sk, f.pk, ct, &a)
		o := f.dirtyCt(p, 1, 1, d)
		return []arg{{"ct", "in", ct}, {"combined", "in", &a}, {"out", "out", o}}, func() error { pcks.KeySwitch(ct, a, o); return nil }
	})
	e2s, err := mpbgv.NewEncToShareProtocol(f.bp, f.nd)
	tr.Must(err)
	s2e, err := mpbgv.NewShareToEncProtocol(f.bp, f.nd)
	tr.Must(err)
	e2sD, err := mpbgv.NewEncToShareProtocol(f.bp, f.nd)
	tr.Must(err)
	s2eD, err := mpbgv.NewShareToEncProtocol(f.bp, f.nd)
	tr.Must(err)
	add("mpswitch", "bgv.e2s.GenShare", func(d bool) ([]arg, func() error) {
		ct, _ := f.bgvCt(1)
		sec := mpbgv.NewAdditiveShare(f.bp)
		pub := e2s.AllocateShare(1)
		if d {
			e2sD.GenShare(f.sk2, ct, &sec, &pub)
		}
		return []arg{{"sk", "in", f.sk}, {"ct", "in", ct}, {"secret", "out", &polyW{sec.Value}}, {"public", "out", &pub}}, func() error { e2s.GenShare(f.sk, ct, &sec, &pub); return nil }
	})
	add("mpswitch", "bgv.e2s.GetShare", func(d bool) ([]arg, func() error) {
		ct, _ := f.bgvCt(1)
		sec := mpbgv.NewAdditiveShare(f.bp)
		pub := e2s.AllocateShare(1)
		e2s.GenShare(f.sk, ct, &sec, &pub)
		o := mpbgv.NewAdditiveShare(f.bp)
		if d {
			o.Value.Copy(f.dirtyPoly(f.bp.RingT(), true))
		}
		return []arg{{"secret", "in", &polyW{sec.Value}}, {"aggregate", "in", &pub}, {"ct", "in", ct}, {"out", "out", &polyW{o.Value}}}, func() error { e2s.GetShare(&sec, pub, ct, &o); return nil }
	})
	add("mpswitch", "bgv.s2e.GenShare", func(d bool) ([]arg, func() error) {
		crp := s2e.SampleCRP(L, f.crs("s2e"))
		sec := mpbgv.NewAdditiveShare(f.bp)
		sec.Value.Copy(f.dirtyPoly(f.bp.RingT(), true))
		sh := s2e.AllocateShare(L)
		if d {
			tr.Must(s2eD.GenShare(f.sk2, crp, sec, &sh))
		}
		return []arg{{"sk", "in", f.sk}, {"secret", "in", &polyW{sec.Value}}, {"share", "out", &sh}}, func() error { return s2e.GenShare(f.sk, crp, sec, &sh) }
	})
	add("mpswitch", "bgv.s2e.GetEncryption", func(d bool) ([]arg, func() error) {
		crp := s2e.SampleCRP(L, f.crs("s2e"))
		sec := mpbgv.NewAdditiveShare(f.bp)
		sh := s2e.AllocateShare(L)
		tr.Must(s2e.GenShare(f.sk, crp, sec, &sh))
		o := f.dirtyCt(p, 1, L, d)
		return []arg{{"c0agg", "in", &sh}, {"out", "out", o}}, func() error { return s2e.GetEncryption(sh, crp, o) }
	})
	rfp, err := mpbgv.NewRefreshProtocol(f.bp, f.nd)
	tr.Must(err)
	rfpD, err := mpbgv.NewRefreshProtocol(f.bp, f.nd)
	tr.Must(err)
	add("mpswitch", "bgv.refresh.GenShare", func(d bool) ([]arg, func() error) {
		ct, _ := f.bgvCt(1)
		crp := rfp.SampleCRP(L, f.crs("rf"))
		sh := rfp.AllocateShare(1, L)
		if d {
			tr.Must(rfpD.GenShare(f.sk2, ct, crp, &sh))
		}
		return []arg{{"sk", "in", f.sk}, {"ct", "in", ct}, {"share", "out", &sh}}, func() error { return rfp.GenShare(f.sk, ct, crp, &sh) }
	})
	add("mpswitch", "bgv.refresh.Finalize", func(d bool) ([]arg, func() error) {
		ct, _ := f.bgvCt(1)
		crp := rfp.SampleCRP(L, f.crs("rf"))
		sh := rfp.AllocateShare(1, L)
		tr.Must(rfp.GenShare(f.sk, ct, crp, &sh))
		o := f.dirtyCt(p, 1, L, d)
		return []arg{{"ct", "in", ct}, {"share", "in", &sh}, {"out", "out", o}}, func() error { return rfp.Finalize(ct, crp, sh, o) }
	})
	crf, err := mpckks.NewRefreshProtocol(f.cp, 128, f.nd)
	tr.Must(err)
	crfD, err := mpckks.NewRefreshProtocol(f.cp, 128, f.nd)
	tr.Must(err)
	add("mpswitch", "ckks.refresh.GenShare", func(d bool) ([]arg, func() error) {
		ct, _ := f.ckksCt(1)
		crp := crf.SampleCRP(f.cp.MaxLevel(), f.crs("crf"))
		sh := crf.AllocateShare(1, f.cp.MaxLevel())
		if d {
			tr.Must(crfD.GenShare(f.csk, 30, ct, crp, &sh))
		}
		return []arg{{"sk", "in", f.csk}, {"ct", "in", ct}, {"share", "out", &sh}}, func() error { return crf.GenShare(f.csk, 30, ct, crp, &sh) }
	})
	add("mpswitch", "ckks.refresh.Finalize", func(d bool) ([]arg, func() error) {
		ct, _ := f.ckksCt(1)
		crp := crf.SampleCRP(f.cp.MaxLevel(), f.crs("crf"))
		sh := crf.AllocateShare(1, f.cp.MaxLevel())
		tr.Must(crf.GenShare(f.csk, 30, ct, crp, &sh))
		o := f.dirtyCt(f.cp.Parameters, 1, f.cp.MaxLevel(), d)
		return []arg{{"ct", "in", ct}, {"share", "in", &sh}, {"out", "out", o}}, func() error { return crf.Finalize(ct, crp, sh, o) }
	})

	// ---- threshold
	thr := multiparty.NewThresholdizer(p)
	thrD := multiparty.NewThresholdizer(p)
	add("threshold", "GenShamirSecretShare", func(d bool) ([]arg, func() error) {
		poly, err := thr.GenShamirPolynomial(2, f.sk)
		tr.Must(err)
		sh := thr.AllocateThresholdSecretShare()
		if d {
			thrD.GenShamirSecretShare(7, poly, &sh)
		}
		return []arg{{"poly", "in", &shamirW{poly}}, {"share", "out", &sh}}, func() error { thr.GenShamirSecretShare(3, poly, &sh); return nil }
	})
	add("threshold", "thr.AggregateShares", func(d bool) ([]arg, func() error) {
		poly, err := thr.GenShamirPolynomial(2, f.sk)
		tr.Must(err)
		a, b, o := thr.AllocateThresholdSecretShare(), thr.AllocateThresholdSecretShare(), thr.AllocateThresholdSecretShare()
		thr.GenShamirSecretShare(3, poly, &a)
		thr.GenShamirSecretShare(5, poly, &b)
		if d {
			thrD.GenShamirSecretShare(9, poly, &o)
		}
		return []arg{{"a", "in", &a}, {"b", "in", &b}, {"out", "out", &o}}, func() error { return thr.AggregateShares(a, b, &o) }
	})
	add("threshold", "GenAdditiveShare", func(d bool) ([]arg, func() error) {
		poly, err := thr.GenShamirPolynomial(2, f.sk)
		tr.Must(err)
		pts := []multiparty.ShamirPublicPoint{3, 5, 9}
		cmb := multiparty.NewCombiner(p, 3, pts, 2)
		own := thr.AllocateThresholdSecretShare()
		thr.GenShamirSecretShare(3, poly, &own)
		act := []multiparty.ShamirPublicPoint{5, 3}
		skOut := rlwe.NewSecretKey(p)
		if d {
			skOut = f.kgD.GenSecretKeyNew()
		}
		return []arg{{"actives", "in", act}, {"ownShare", "in", &own}, {"skOut", "out", skOut}}, func() error { return cmb.GenAdditiveShare(act, 3, own, skOut) }
	})
	return out
}

// wrappers giving a binary encoding to values that have none of their own
type fslice []float64

func (s *fslice) MarshalBinary() ([]byte, error) { return []byte(fmt.Sprintf("%.9g", []float64(*s))), nil }

type crpW struct{ c multiparty.PublicKeyGenCRP }

func (w *crpW) MarshalBinary() ([]byte, error) { return w.c.Value.MarshalBinary() }

type polyW struct{ p ring.Poly }

func (w *polyW) MarshalBinary() ([]byte, error) { return w.p.MarshalBinary() }

// a round-two share of the relinearisation protocol is one element per digit (the first component); the second
// component of the container is not part of it
type round2W struct{ s *multiparty.RelinearizationKeyGenShare }

func (w *round2W) MarshalBinary() ([]byte, error) {
	var out []byte
	for i := range w.s.Value {
		for j := range w.s.Value[i] {
			b, err := w.s.Value[i][j][0].MarshalBinary()
			if err != nil {
				return nil, err
			}
			out = append(out, b...)
		}
	}
	return out, nil
}

type shamirW struct{ s multiparty.ShamirPolynomial }

func (w *shamirW) MarshalBinary() ([]byte, error) {
	var out []byte
	for _, c := range w.s.Value {
		b, err := c.MarshalBinary()
		if err != nil {
			return nil, err
		}
		out = append(out, b...)
	}
	return out, nil
}

// Main: vrun frame ops | vrun frame exec --trace out --seed s
func Main(args []string) int {
	f := newFix()
	list := ops(f)
	if args[0] == "ops" {
		names := []string{}
		for _, o := range list {
			names = append(names, o.name)
		}
		b, _ := json.Marshal(names)
		fmt.Println(string(b))
		return 0
	}
	fs := flag.NewFlagSet("frame", flag.ExitOnError)
	trace := fs.String("trace", "", "trace")
	seed := fs.Uint64("seed", 1, "seed")
	only := fs.String("only", "", "JSON list of operation names (default: all)")
	fs.Parse(args[1:])
	want := map[string]bool{}
	if *only != "" {
		b, err := os.ReadFile(*only)
		tr.Must(err)
		var names []string
		tr.Must(json.Unmarshal(b, &names))
		for _, n := range names {
			want[n] = true
		}
	}
	w := tr.NewWriter(*trace)
	defer w.Close()
	n := 0
	for _, o := range list {
		if len(want) > 0 && !want[o.name] {
			continue
		}
		n++
		e := runOp(o, *seed)
		e["prog"], e["fork"], e["indep"] = n, 1, true
		w.Emit(e)
	}
	res := tr.Result{Events: w.N, Cases: n}
	res.Print()
	return 0
}
