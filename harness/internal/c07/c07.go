// Package c07 records encode/decode round trips of the bgv and ckks encoders for validation against
// spec/Encoding.tla.
package c07

import (
	"bufio"
	"encoding/json"
	"flag"
	"fmt"
	"math"
	"math/big"
	"math/rand"
	"os"

	"github.com/tuneinsight/lattigo/v6/core/rlwe"
	"github.com/tuneinsight/lattigo/v6/ring"
	"github.com/tuneinsight/lattigo/v6/schemes/bgv"
	"github.com/tuneinsight/lattigo/v6/schemes/ckks"
	"github.com/tuneinsight/lattigo/v6/utils/bignum"

	"verif/harness/internal/tr"
)

type ev map[string]interface{}

type driver struct {
	w     *tr.Writer
	rng   *rand.Rand
	prog  int
	fork  int
	quick bool
}

func (d *driver) emit(e ev) {
	d.fork++
	e["prog"], e["fork"], e["indep"] = d.prog, d.fork, true
	d.w.Emit(e)
}

func guarded(f func() error) (err error, pan bool, msg string) {
	defer func() {
		if r := recover(); r != nil {
			pan, msg = true, fmt.Sprint(r)
		}
	}()
	if err = f(); err != nil {
		msg = err.Error()
	}
	if len(msg) > 150 {
		msg = msg[:150]
	}
	return
}

func resU(x uint64, t uint64) int64 { return int64(x % t) }
func resI(x int64, t uint64) int64 {
	r := new(big.Int).Mod(big.NewInt(x), new(big.Int).SetUint64(t))
	return r.Int64()
}

// value classes for the integer encoder
func uvals(t uint64) []uint64 {
	return []uint64{0, 1, t - 1, t, t + 1, (t - 1) / 2, (t + 1) / 2, 1<<63 - 1, 1 << 63, math.MaxUint64, 2*t + 3}
}
func ivals(t uint64) []int64 {
	ti := int64(t)
	return []int64{0, 1, -1, ti - 1, -ti, -ti - 1, ti + 1, (ti - 1) / 2, -(ti - 1) / 2, (ti + 1) / 2, math.MaxInt64, math.MinInt64, math.MinInt64 + 1}
}

func (d *driver) bgvSet(lit bgv.ParametersLiteral, name string, extra [][]uint64) {
	p, err := bgv.NewParametersFromLiteral(lit)
	tr.Must(err)
	ecd := bgv.NewEncoder(p)
	t := p.PlaintextModulus()
	n := p.MaxSlots()
	d.prog++
	d.fork = 0
	lens := []int{0, 1, 2, n - 1, n}
	scales := []uint64{1, 2, t - 1, 55 % t}
	if scales[3] == 0 {
		scales[3] = 3
	}
	uv, iv := uvals(t), ivals(t)
	maxOut := n
	if maxOut > 64 {
		maxOut = 64
	}
	run := func(in interface{}, inres []int64, ln int, scale uint64, lvl int, batched bool, signedOut bool, fresh bool) {
		e := ecd
		if fresh {
			e = bgv.NewEncoder(p)
		}
		pt := bgv.NewPlaintext(p, lvl)
		pt.IsBatched = batched
		pt.Scale = p.NewScale(scale)
		var outI []int64
		err, pan, msg := guarded(func() error {
			if err := e.Encode(in, pt); err != nil {
				return err
			}
			if signedOut {
				o := make([]int64, n)
				if err := e.Decode(pt, o); err != nil {
					return err
				}
				outI = o
			} else {
				o := make([]uint64, n)
				if err := e.Decode(pt, o); err != nil {
					return err
				}
				outI = make([]int64, n)
				for i := range o {
					outI[i] = int64(o[i])
				}
			}
			return nil
		})
		if outI == nil {
			outI = make([]int64, n)
		}
		// long vectors: the first maxOut positions are logged, the others are checked for zero / equality here
		tailOK := true
		for i := maxOut; i < n; i++ {
			want := int64(0)
			if i < ln {
				want = inres[i]
			}
			if resI(outI[i], t) != want {
				tailOK = false
			}
		}
		lr := inres
		if len(lr) > maxOut {
			lr = lr[:maxOut]
		}
		d.emit(ev{"ev": "int", "set": name, "t": t, "n": maxOut, "inres": lr, "out": outI[:maxOut], "signed": signedOut, "scale": scale, "lvl": lvl, "batched": batched,
			"len": ln, "err": err != nil || !tailOK, "panic": pan, "msg": msg, "fresh": fresh})
	}
	k := 0
	for _, ln := range lens {
		if ln < 0 {
			continue
		}
		for _, scale := range scales {
			for lvl := 0; lvl <= p.MaxLevel(); lvl++ {
				for _, batched := range []bool{true, false} {
					for _, signedOut := range []bool{false, true} {
						for _, signedIn := range []bool{false, true} {
							k++
							if d.quick && (k%3 != 0) && ln != 1 {
								continue
							}
							if signedIn {
								in := make([]int64, ln)
								res := make([]int64, ln)
								for i := range in {
									in[i] = iv[(i+k)%len(iv)]
									res[i] = resI(in[i], t)
								}
								run(in, res, ln, scale, lvl, batched, signedOut, k%5 == 0)
							} else {
								in := make([]uint64, ln)
								res := make([]int64, ln)
								for i := range in {
									in[i] = uv[(i+k)%len(uv)]
									res[i] = resU(in[i], t)
								}
								run(in, res, ln, scale, lvl, batched, signedOut, k%5 == 0)
							}
						}
					}
				}
			}
		}
	}
	// TLC-enumerated message space
	for _, v := range extra {
		res := make([]int64, len(v))
		for i := range v {
			res[i] = int64(v[i])
		}
		run(append([]uint64{}, v...), res, len(v), 1, p.MaxLevel(), true, false, false)
		in := make([]int64, len(v))
		for i := range v {
			in[i] = int64(v[i]) - int64(t)*int64(i%2)
		}
		run(in, res, len(v), t-1, 0, false, true, false)
	}
	// too many values: refused
	{
		pt := bgv.NewPlaintext(p, 0)
		err, pan, msg := guarded(func() error { return ecd.Encode(make([]uint64, n+1), pt) })
		d.emit(ev{"ev": "refuse", "set": name, "err": err != nil, "panic": pan, "msg": msg})
	}
	// products of encodings in the plaintext ring
	rT := p.RingT()
	for it := 0; it < 6; it++ {
		a, b := make([]uint64, n), make([]uint64, n)
		for i := range a {
			a[i], b[i] = uv[(i+it)%len(uv)]%t, d.rng.Uint64()%t
		}
		pa, pb, pc := rT.NewPoly(), rT.NewPoly(), rT.NewPoly()
		sa, sb := p.NewScale(scales[it%4]), p.NewScale(scales[(it+1)%4])
		out := make([]uint64, n)
		err, pan, msg := guarded(func() error {
			if err := ecd.EncodeRingT(a, sa, pa); err != nil {
				return err
			}
			if err := ecd.EncodeRingT(b, sb, pb); err != nil {
				return err
			}
			rT.NTT(pa, pa)
			rT.NTT(pb, pb)
			rT.MulCoeffsBarrett(pa, pb, pc)
			rT.INTT(pc, pc)
			return ecd.DecodeRingT(pc, sa.Mul(sb), out)
		})
		m := n
		if m > 64 {
			m = 64
		}
		d.emit(ev{"ev": "intmul", "set": name, "t": t, "a": a[:m], "b": b[:m], "out": out[:m], "err": err != nil, "panic": pan, "msg": msg})
	}
}

func fix(x float64) int64 { return int64(math.Round(x * 1048576)) }

func (d *driver) ckksSet(lit ckks.ParametersLiteral, name string) {
	p, err := ckks.NewParametersFromLiteral(lit)
	tr.Must(err)
	d.prog++
	d.fork = 0
	real := p.RingType() == ring.ConjugateInvariant
	lgN := p.LogN()
	for _, prec := range []uint{53, 128} {
		ecd := ckks.NewEncoder(p, prec)
		for logSlots := 0; logSlots <= p.LogMaxSlots(); logSlots++ {
			if d.quick && logSlots > 3 && logSlots < p.LogMaxSlots()-1 {
				continue
			}
			n := 1 << uint(logSlots)
			for _, lgScale := range []int{30, 45, 55} {
				for lvl := 0; lvl <= p.MaxLevel(); lvl += p.MaxLevel() {
					// values: magnitudes from 2^-18 to 2^(logQ_lvl - lgScale - 3), dyadic with <= 20 fractional bits
					maxMag := 6
					vals := make([][2]int64, n)
					cv := make([]complex128, n)
					for i := range vals {
						mag := (i*7 + lvl) % (maxMag + 19)
						u := int64(1) << uint(mag) // units of 2^-20
						re := u * int64(1+d.rng.Intn(3)) * int64(1-2*d.rng.Intn(2))
						im := u * int64(d.rng.Intn(4)) * int64(1-2*d.rng.Intn(2))
						if real {
							im = 0
						}
						vals[i] = [2]int64{re, im}
						cv[i] = complex(float64(re)/1048576, float64(im)/1048576)
					}
					for _, ty := range []string{"c128", "f64", "bigfloat", "bigcomplex"} {
						if (ty == "f64" || ty == "bigfloat") && !real && logSlots > 0 && d.quick {
							continue
						}
						var in interface{}
						vv := vals
						switch ty {
						case "c128":
							in = cv
						case "f64":
							f := make([]float64, n)
							vv = make([][2]int64, n)
							for i := range f {
								f[i] = real64(cv[i])
								vv[i] = [2]int64{vals[i][0], 0}
							}
							in = f
						case "bigfloat":
							f := make([]*big.Float, n)
							vv = make([][2]int64, n)
							for i := range f {
								f[i] = new(big.Float).SetPrec(128).SetFloat64(real64(cv[i]))
								vv[i] = [2]int64{vals[i][0], 0}
							}
							in = f
						case "bigcomplex":
							f := make([]*bignum.Complex, n)
							for i := range f {
								f[i] = &bignum.Complex{new(big.Float).SetPrec(128).SetFloat64(real64(cv[i])), new(big.Float).SetPrec(128).SetFloat64(imag(cv[i]))}
							}
							in = f
						}
						pt := ckks.NewPlaintext(p, lvl)
						pt.LogDimensions = ring.Dimensions{Rows: 0, Cols: logSlots}
						pt.Scale = rlwe.NewScale(math.Ldexp(1, lgScale))
						for _, outTy := range []string{"c128", "bigcomplex"} {
							for _, logprec := range []int{0, 10, 16} {
								var out [][2]int64
								err, pan, msg := guarded(func() error {
									if err := ecd.Encode(in, pt); err != nil {
										return err
									}
									out = make([][2]int64, n)
									if outTy == "c128" {
										o := make([]complex128, n)
										if err := ecd.DecodePublic(pt, o, float64(logprec)); err != nil {
											return err
										}
										for i := range o {
											out[i] = [2]int64{fix(real64(o[i])), fix(imag(o[i]))}
										}
									} else {
										o := make([]*bignum.Complex, n)
										for i := range o {
											o[i] = &bignum.Complex{new(big.Float).SetPrec(128), new(big.Float).SetPrec(128)}
										}
										if err := ecd.DecodePublic(pt, o, float64(logprec)); err != nil {
											return err
										}
										for i := range o {
											re, _ := o[i][0].Float64()
											im, _ := o[i][1].Float64()
											out[i] = [2]int64{fix(re), fix(im)}
										}
									}
									return nil
								})
								if out == nil {
									out = make([][2]int64, n)
								}
								m := n
								if m > 32 {
									m = 32
								}
								e := ev{"set": name, "vals": vv[:m], "out": out[:m], "lgscale": lgScale, "lgn": lgN, "prec": int(prec), "logprec": logprec, "ity": ty, "oty": outTy,
									"slots": n, "lvl": lvl, "err": err != nil, "panic": pan, "msg": msg}
								if logprec == 0 {
									e["ev"] = "approx"
								} else {
									e["ev"] = "public"
								}
								d.emit(e)
							}
						}
					}
				}
			}
		}
	}
}

func real64(c complex128) float64 { return real(c) }

// Main: vrun c07 record --trace f --msgs file(optional TLC-enumerated vectors) --tier t
func Main(args []string) int {
	fs := flag.NewFlagSet("c07", flag.ExitOnError)
	trace := fs.String("trace", "", "trace")
	msgs := fs.String("msgs", "", "TLC-enumerated message vectors over Z_17 (one JSON array per line)")
	seed := fs.Int64("seed", 1, "seed")
	tier := fs.String("tier", "quick", "tier")
	fs.Parse(args[1:])
	tr.Seed(uint64(*seed))
	d := &driver{w: tr.NewWriter(*trace), rng: rand.New(rand.NewSource(*seed)), quick: *tier == "quick"}
	defer d.w.Close()
	var extra [][]uint64
	if *msgs != "" {
		f, err := os.Open(*msgs)
		tr.Must(err)
		sc := bufio.NewScanner(f)
		for sc.Scan() {
			var v []uint64
			tr.Must(json.Unmarshal(sc.Bytes(), &v))
			extra = append(extra, v)
		}
		f.Close()
	}
	d.bgvSet(bgv.ParametersLiteral{LogN: 10, LogQ: []int{50, 40}, PlaintextModulus: 17}, "bgv-t17-gap", extra)
	d.bgvSet(bgv.ParametersLiteral{LogN: 10, LogQ: []int{50, 40}, PlaintextModulus: 97}, "bgv-t97-gap", nil)
	d.bgvSet(bgv.ParametersLiteral{LogN: 5, LogQ: []int{50, 40}, PlaintextModulus: 193}, "bgv-t193-full", nil)
	d.bgvSet(bgv.ParametersLiteral{LogN: 7, LogQ: []int{50, 40}, PlaintextModulus: 257}, "bgv-t257-full", nil)
	d.bgvSet(bgv.ParametersLiteral{LogN: 10, LogQ: []int{50, 40}, PlaintextModulus: 12289}, "bgv-t12289-full", nil)
	d.ckksSet(ckks.ParametersLiteral{LogN: 6, LogQ: []int{60, 50}, LogDefaultScale: 45}, "ckks-std")
	d.ckksSet(ckks.ParametersLiteral{LogN: 6, LogQ: []int{60, 50}, LogDefaultScale: 45, RingType: ring.ConjugateInvariant}, "ckks-ci")
	d.ckksExtra(ckks.ParametersLiteral{LogN: 6, LogQ: []int{60, 50}, LogP: []int{55, 45}, LogDefaultScale: 45}, "ckks-std")
	d.ckksExtra(ckks.ParametersLiteral{LogN: 6, LogQ: []int{60, 50}, LogP: []int{55}, LogDefaultScale: 45, RingType: ring.ConjugateInvariant}, "ckks-ci")
	res := tr.Result{Events: d.w.N, Cases: d.prog}
	res.Print()
	return 0
}
