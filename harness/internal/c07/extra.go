package c07

import (
	"math"
	"math/big"

	"github.com/tuneinsight/lattigo/v6/core/rlwe"
	"github.com/tuneinsight/lattigo/v6/ring"
	"github.com/tuneinsight/lattigo/v6/ring/ringqp"
	"github.com/tuneinsight/lattigo/v6/schemes/ckks"
	"github.com/tuneinsight/lattigo/v6/utils/bignum"
)

// ckksExtra drives the rest of the approximate encoder's surface: the coefficient domain (IsBatched = false), products
// of encoded plaintexts, Embed into ring.Poly / ringqp.Poly receivers, and the exported special FFT / IFFT.
func (d *driver) ckksExtra(lit ckks.ParametersLiteral, name string) {
	p, err := ckks.NewParametersFromLiteral(lit)
	must(err)
	d.prog++
	d.fork = 0
	isReal := p.RingType() == ring.ConjugateInvariant
	lgN := p.LogN()
	// (q) quantisation: a single slot is its own embedding, so the plaintext polynomial holds round(scale * re) at X^0 and
	// round(scale * im) at X^(N/2): at small scales the rounding error is visible and must not exceed half a unit
	if !isReal {
		for _, prec := range []uint{53, 128} {
			ecd := ckks.NewEncoder(p, prec)
			for _, lgScale := range []int{4, 9, 13} {
				for k := 0; k < 24; k++ {
					re := int64(d.rng.Intn(1<<21)) - 1<<20 // units of 2^-20, |v| < 1
					im := int64(d.rng.Intn(1<<21)) - 1<<20
					if k%4 == 0 {
						re, im = -re, im // every sign pattern
					}
					if k%4 == 1 && (re < 0) == (im < 0) {
						im = -im
					}
					pt := ckks.NewPlaintext(p, p.MaxLevel())
					pt.LogDimensions = ring.Dimensions{Rows: 0, Cols: 0}
					pt.Scale = rlwe.NewScale(math.Exp2(float64(lgScale)))
					var c0, c1 int64
					err, pan, msg := guarded(func() error {
						var in interface{} = []complex128{complex(float64(re)/1048576, float64(im)/1048576)}
						if prec > 53 {
							in = []*bignum.Complex{{new(big.Float).SetPrec(prec).SetFloat64(float64(re) / 1048576), new(big.Float).SetPrec(prec).SetFloat64(float64(im) / 1048576)}}
						}
						if err := ecd.Encode(in, pt); err != nil {
							return err
						}
						rq := p.RingQ().AtLevel(pt.Level())
						pol := *pt.Value.CopyNew()
						if pt.IsNTT {
							rq.INTT(pol, pol)
						}
						cs := make([]*big.Int, rq.N())
						for i := range cs {
							cs[i] = new(big.Int)
						}
						rq.PolyToBigintCentered(pol, 1, cs)
						c0, c1 = cs[0].Int64(), cs[rq.N()/2].Int64()
						return nil
					})
					d.emit(ev{"ev": "quant", "set": name, "re": re, "im": im, "lgscale": lgScale, "c0": c0, "c1": c1, "prec": int(prec), "err": err != nil, "panic": pan, "msg": msg})
				}
			}
		}
	}
	for _, prec := range []uint{53, 128} {
		ecd := ckks.NewEncoder(p, prec)
		// (a) coefficient domain: real values on up to N coefficients
		for _, cnt := range []int{1, 3, p.N() / 2, p.N()} {
			for _, lgScale := range []int{30, 45} {
				for lvl := 0; lvl <= p.MaxLevel(); lvl += p.MaxLevel() {
					vals := make([][2]int64, cnt)
					f := make([]float64, cnt)
					for i := range f {
						u := int64(1) << uint((i*5+lvl)%22)
						re := u * int64(1+d.rng.Intn(3)) * int64(1-2*d.rng.Intn(2))
						vals[i] = [2]int64{re, 0}
						f[i] = float64(re) / 1048576
					}
					pt := ckks.NewPlaintext(p, lvl)
					pt.IsBatched = false
					pt.Scale = rlwe.NewScale(math.Ldexp(1, lgScale))
					out := make([][2]int64, cnt)
					err, pan, msg := guarded(func() error {
						if err := ecd.Encode(f, pt); err != nil {
							return err
						}
						o := make([]float64, cnt)
						if err := ecd.Decode(pt, o); err != nil {
							return err
						}
						for i := range o {
							out[i] = [2]int64{fix(o[i]), 0}
						}
						return nil
					})
					m := cnt
					if m > 32 {
						m = 32
					}
					d.emit(ev{"ev": "approx", "set": name, "dom": "coef", "vals": vals[:m], "out": out[:m], "lgscale": lgScale, "lgn": lgN, "prec": int(prec), "logprec": 0,
						"ity": "f64", "oty": "f64", "slots": cnt, "lvl": lvl, "err": err != nil, "panic": pan, "msg": msg})
				}
			}
		}
		// (a') boundary of the float64 fixed-point conversion: |value| * scale = 2^64 exactly, and its neighbours
		// (scale 2^55, value 2^9; units of 2^-20 keep these below 2^31), coefficient domain and constant slot vectors
		if p.MaxLevel() > 0 {
			lvl, lgScale := p.MaxLevel(), 55
			for _, dom := range []string{"coef", "slots"} {
				for _, base := range []int64{512, -512, 256, 1024} {
					cnt := 8
					vals := make([][2]int64, cnt)
					f := make([]float64, cnt)
					for i := range f {
						re := base * 1048576
						switch {
						case dom == "coef" && i%3 == 1:
							re += int64(i) // just above / below the boundary
						case dom == "coef" && i%3 == 2:
							re -= int64(i)
						}
						vals[i] = [2]int64{re, 0}
						f[i] = float64(re) / 1048576
					}
					pt := ckks.NewPlaintext(p, lvl)
					pt.IsBatched = dom == "slots"
					if dom == "slots" {
						pt.LogDimensions = ring.Dimensions{Rows: 0, Cols: 3}
					}
					pt.Scale = rlwe.NewScale(math.Ldexp(1, lgScale))
					out := make([][2]int64, cnt)
					err, pan, msg := guarded(func() error {
						if err := ecd.Encode(f, pt); err != nil {
							return err
						}
						o := make([]float64, cnt)
						if err := ecd.Decode(pt, o); err != nil {
							return err
						}
						for i := range o {
							out[i] = [2]int64{fix(o[i]), 0}
						}
						return nil
					})
					d.emit(ev{"ev": "approx", "set": name, "dom": dom + "-2^64", "vals": vals, "out": out, "lgscale": lgScale, "lgn": lgN, "prec": int(prec), "logprec": 0,
						"ity": "f64", "oty": "f64", "slots": cnt, "lvl": lvl, "err": err != nil, "panic": pan, "msg": msg})
				}
			}
		}
		// (b) the product of two encodings decodes to the slot-wise product (values in sixteenths, result in 1/256)
		for logSlots := 0; logSlots <= p.LogMaxSlots(); logSlots += maxInt(1, p.LogMaxSlots()/3) {
			if isReal && logSlots == 0 {
				continue // single slot on the conjugate-invariant ring: recorded known finding of the round-trip phase
			}
			n := 1 << uint(logSlots)
			a, b := make([][2]int64, n), make([][2]int64, n)
			ca, cb := make([]complex128, n), make([]complex128, n)
			for i := range a {
				a[i] = [2]int64{int64(d.rng.Intn(65) - 32), int64(d.rng.Intn(65) - 32)}
				b[i] = [2]int64{int64(d.rng.Intn(65) - 32), int64(d.rng.Intn(65) - 32)}
				if isReal {
					a[i][1], b[i][1] = 0, 0
				}
				ca[i] = complex(float64(a[i][0])/16, float64(a[i][1])/16)
				cb[i] = complex(float64(b[i][0])/16, float64(b[i][1])/16)
			}
			out := make([][2]int64, n)
			err, pan, msg := guarded(func() error {
				lvl := p.MaxLevel()
				pa, pb := ckks.NewPlaintext(p, lvl), ckks.NewPlaintext(p, lvl)
				pa.LogDimensions = ring.Dimensions{Rows: 0, Cols: logSlots}
				pb.LogDimensions = pa.LogDimensions
				pa.Scale, pb.Scale = rlwe.NewScale(math.Ldexp(1, 30)), rlwe.NewScale(math.Ldexp(1, 30))
				if err := ecd.Encode(ca, pa); err != nil {
					return err
				}
				if err := ecd.Encode(cb, pb); err != nil {
					return err
				}
				rq := p.RingQ().AtLevel(lvl)
				pc := ckks.NewPlaintext(p, lvl)
				pc.LogDimensions = pa.LogDimensions
				rq.MulCoeffsBarrett(pa.Value, pb.Value, pc.Value) // both in the NTT domain
				pc.Scale = pa.Scale.Mul(pb.Scale)
				o := make([]complex128, n)
				if err := ecd.Decode(pc, o); err != nil {
					return err
				}
				for i := range o {
					out[i] = [2]int64{int64(math.Round(real(o[i]) * 256)), int64(math.Round(imag(o[i]) * 256))}
				}
				return nil
			})
			m := n
			if m > 32 {
				m = 32
			}
			d.emit(ev{"ev": "approxmul", "set": name, "a": a[:m], "b": b[:m], "out": out[:m], "slots": n, "prec": int(prec), "err": err != nil, "panic": pan, "msg": msg})
		}
		// (c) Embed into a ring.Poly and into a ringqp.Poly: the Q part is what Encode writes, the P part holds the same integers
		for logSlots := 0; logSlots <= p.LogMaxSlots(); logSlots += maxInt(1, p.LogMaxSlots()/2) {
			if isReal && logSlots == 0 {
				continue
			}
			n := 1 << uint(logSlots)
			cv := make([]complex128, n)
			for i := range cv {
				cv[i] = complex(float64(d.rng.Intn(65)-32)/16, float64(d.rng.Intn(65)-32)/16)
				if isReal {
					cv[i] = complex(real(cv[i]), 0)
				}
			}
			sameQ, sameP, sameR := false, false, false
			err, pan, msg := guarded(func() error {
				lvl := p.MaxLevel()
				pt := ckks.NewPlaintext(p, lvl)
				pt.LogDimensions = ring.Dimensions{Rows: 0, Cols: logSlots}
				if err := ecd.Encode(cv, pt); err != nil {
					return err
				}
				rq := p.RingQ().AtLevel(lvl)
				pr := rq.NewPoly()
				if err := ecd.Embed(cv, pt.MetaData, pr); err != nil {
					return err
				}
				sameR = pr.Equal(&pt.Value)
				sameP = true
				if p.PCount() > 0 {
					qp := ringqp.Poly{Q: rq.NewPoly(), P: p.RingP().NewPoly()}
					if err := ecd.Embed(cv, pt.MetaData, qp); err != nil {
						return err
					}
					sameQ = qp.Q.Equal(&pt.Value)
					// the P residues are those of the centred integers read off the Q part
					tmp := rq.NewPoly()
					tmp.Copy(qp.Q)
					if pt.IsNTT {
						rq.INTT(tmp, tmp)
					}
					if pt.IsMontgomery {
						rq.IMForm(tmp, tmp)
					}
					bs := make([]*big.Int, p.N())
					for i := range bs {
						bs[i] = new(big.Int)
					}
					rq.PolyToBigintCentered(tmp, 1, bs)
					pp := p.RingP().NewPoly()
					pp.Copy(qp.P)
					if pt.IsNTT {
						p.RingP().INTT(pp, pp)
					}
					if pt.IsMontgomery {
						p.RingP().IMForm(pp, pp)
					}
					for j, s := range p.RingP().SubRings {
						for i := range bs {
							r := new(big.Int).Mod(bs[i], new(big.Int).SetUint64(s.Modulus)).Uint64()
							if pp.Coeffs[j][i] != r {
								sameP = false
							}
						}
					}
				} else {
					sameQ = true
				}
				return nil
			})
			d.emit(ev{"ev": "embed", "set": name, "slots": n, "prec": int(prec), "sameq": sameQ, "samep": sameP, "samer": sameR, "err": err != nil, "panic": pan, "msg": msg})
		}
		// (d) the exported special FFT / IFFT are mutual inverses (values in 2^-20 units)
		for logn := 1; logn <= p.LogMaxSlots(); logn++ {
			if isReal {
				break // the exported transforms are those of the standard ring
			}
			n := 1 << uint(logn)
			vals := make([][2]int64, n)
			cv := make([]complex128, n)
			for i := range cv {
				vals[i] = [2]int64{int64(d.rng.Intn(1<<22) - 1<<21), int64(d.rng.Intn(1<<22) - 1<<21)}
				cv[i] = complex(float64(vals[i][0])/1048576, float64(vals[i][1])/1048576)
			}
			for _, order := range []string{"ifft-fft", "fft-ifft"} {
				w := append([]complex128{}, cv...)
				wb := make([]*bignum.Complex, n)
				for i := range wb {
					wb[i] = &bignum.Complex{new(big.Float).SetPrec(prec).SetFloat64(real(cv[i])), new(big.Float).SetPrec(prec).SetFloat64(imag(cv[i]))}
				}
				var arg ckks.FloatSlice = w
				if prec > 53 { // the transforms take the slice type of the encoder's roots
					arg = wb
				}
				out := make([][2]int64, n)
				err, pan, msg := guarded(func() error {
					if order == "ifft-fft" {
						if err := ecd.IFFT(arg, logn); err != nil {
							return err
						}
						if err := ecd.FFT(arg, logn); err != nil {
							return err
						}
					} else {
						if err := ecd.FFT(arg, logn); err != nil {
							return err
						}
						if err := ecd.IFFT(arg, logn); err != nil {
							return err
						}
					}
					for i := range w {
						if prec > 53 {
							re, _ := wb[i][0].Float64()
							im, _ := wb[i][1].Float64()
							out[i] = [2]int64{fix(re), fix(im)}
						} else {
							out[i] = [2]int64{fix(real(w[i])), fix(imag(w[i]))}
						}
					}
					return nil
				})
				m := n
				if m > 32 {
					m = 32
				}
				d.emit(ev{"ev": "fft", "set": name, "order": order, "vals": vals[:m], "out": out[:m], "slots": n, "prec": int(prec), "err": err != nil, "panic": pan, "msg": msg})
			}
		}
	}
}

func maxInt(a, b int) int {
	if a > b {
		return a
	}
	return b
}

func must(err error) {
	if err != nil {
		panic(err)
	}
}
