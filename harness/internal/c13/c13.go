// Package c13 executes the polynomial-evaluation shapes enumerated by spec/PolyEvalGen.tla on the bgv and ckks
// polynomial evaluators and records inputs, coefficients and decoded outputs for validation against spec/PolyEval.tla.
package c13

import (
	"bufio"
	"encoding/json"
	"flag"
	"fmt"
	"math"
	"math/big"
	"math/rand"
	"os"

	bgvpoly "github.com/tuneinsight/lattigo/v6/circuits/bgv/polynomial"
	ckkspoly "github.com/tuneinsight/lattigo/v6/circuits/ckks/polynomial"
	compoly "github.com/tuneinsight/lattigo/v6/circuits/common/polynomial"
	"github.com/tuneinsight/lattigo/v6/core/rlwe"
	"github.com/tuneinsight/lattigo/v6/ring"
	"github.com/tuneinsight/lattigo/v6/schemes/bgv"
	"github.com/tuneinsight/lattigo/v6/schemes/ckks"
	"github.com/tuneinsight/lattigo/v6/utils/bignum"

	"verif/harness/internal/tr"
)

type ev map[string]interface{}

type cfg struct {
	Set       string `json:"set"`
	Basis     string `json:"basis"`
	Deg       int    `json:"deg"`
	Parity    string `json:"parity"`
	Mode      string `json:"mode"`
	LvlIn     int    `json:"lvlin"`
	TScale    string `json:"tscale"`
	Lead0     bool   `json:"lead0"`
	Invariant bool   `json:"invariant"`
}

type SetInfo struct {
	Name      string `json:"name"`
	MaxLvl    int    `json:"maxlvl"`
	Cheb      bool   `json:"cheb"`
	Invariant bool   `json:"invariant"`
	Vec       bool   `json:"vec"`
}

var Sets = []SetInfo{{"bgv", 5, false, true, true}, {"ckks", 5, true, false, false}, {"ckks-ci", 5, true, false, false}, {"ckks-full", 5, true, false, true}}

type sctx struct {
	name            string
	bp              bgv.Parameters
	cp              ckks.Parameters
	rp              rlwe.Parameters
	sk              *rlwe.SecretKey
	becd            *bgv.Encoder
	cecd            *ckks.Encoder
	enc             *rlwe.Encryptor
	dec             *rlwe.Decryptor
	beval           *bgv.Evaluator
	ceval           *ckks.Evaluator
	T               uint64
	n               int
	logd            ring.Dimensions
	bpe             *bgvpoly.Evaluator
	bpes            map[bool]*bgvpoly.Evaluator
	cpe             *ckkspoly.Evaluator
	calls, vecCalls int
}

var ctxs = map[string]*sctx{}

func getCtx(name string) *sctx {
	if c, ok := ctxs[name]; ok {
		return c
	}
	c := &sctx{name: name}
	switch name {
	case "bgv":
		p, err := bgv.NewParametersFromLiteral(bgv.ParametersLiteral{LogN: 10, LogQ: []int{56, 42, 42, 42, 42, 42}, LogP: []int{56}, PlaintextModulus: 97})
		tr.Must(err)
		c.bp, c.rp, c.T = p, p.Parameters, 97
		c.n = p.MaxSlots()
		c.becd = bgv.NewEncoder(p)
	default:
		lit := ckks.ParametersLiteral{LogN: 10, LogQ: []int{55, 45, 45, 45, 45, 45}, LogP: []int{55}, LogDefaultScale: 45}
		if name == "ckks-ci" {
			lit.RingType = ring.ConjugateInvariant
		}
		if name == "ckks-full" { // every slot in use: 16 slots
			lit.LogN = 5
		}
		p, err := ckks.NewParametersFromLiteral(lit)
		tr.Must(err)
		c.cp, c.rp = p, p.Parameters
		c.n = 8
		c.logd = ring.Dimensions{Rows: 0, Cols: 3}
		if name == "ckks-full" {
			c.n, c.logd = p.MaxSlots(), p.LogMaxDimensions()
		}
		c.cecd = ckks.NewEncoder(p)
	}
	kg := rlwe.NewKeyGenerator(c.rp)
	c.sk = kg.GenSecretKeyNew()
	c.enc = rlwe.NewEncryptor(c.rp, c.sk)
	c.dec = rlwe.NewDecryptor(c.rp, c.sk)
	evk := rlwe.NewMemEvaluationKeySet(kg.GenRelinearizationKeyNew(c.sk))
	if name == "bgv" {
		c.beval = bgv.NewEvaluator(c.bp, evk)
	} else {
		c.ceval = ckks.NewEvaluator(c.cp, evk)
	}
	ctxs[name] = c
	return c
}

func guarded(f func() error) (err error, pan bool, msg string) {
	defer func() {
		if r := recover(); r != nil {
			pan, msg = true, fmt.Sprint(r)
			if len(msg) > 150 {
				msg = msg[:150]
			}
		}
	}()
	if err = f(); err != nil {
		msg = err.Error()
		if len(msg) > 150 {
			msg = msg[:150]
		}
	}
	return
}

func depth(deg int) int { // ceil(log2(deg+1))
	d := 0
	for (1 << d) < deg+1 {
		d++
	}
	return d
}

// coefficient vector of the requested shape
func (c *sctx) coeffs(rng *rand.Rand, cf cfg) []int64 {
	v := make([]int64, cf.Deg+1)
	for k := range v {
		if c.T > 0 {
			v[k] = int64(rng.Intn(int(c.T)))
		} else {
			v[k] = int64(rng.Intn(7) - 3)
		}
		if cf.Parity == "odd" && k%2 == 0 || cf.Parity == "even" && k%2 == 1 {
			v[k] = 0
		}
	}
	// a non-zero leading coefficient unless the shape asks for a zero one; a zero somewhere in the middle too
	if v[cf.Deg] == 0 {
		v[cf.Deg] = 1
	}
	if cf.Lead0 {
		v[cf.Deg] = 0
		if cf.Deg >= 3 {
			v[1] = 0
		}
	}
	return v
}

func (c *sctx) poly(cf cfg, v []int64) bignum.Polynomial {
	basis := bignum.Monomial
	var interval interface{}
	if cf.Basis == "cheb" {
		basis = bignum.Chebyshev
		interval = [2]float64{-1, 1}
	}
	var p bignum.Polynomial
	if c.T > 0 {
		u := make([]uint64, len(v))
		for i := range v {
			u[i] = uint64(v[i])
		}
		p = bignum.NewPolynomial(basis, u, interval)
	} else {
		c.calls++
		if c.calls%2 == 0 {
			// the sparse form: absent coefficients are nil
			cc := make([]*bignum.Complex, len(v))
			for i := range v {
				if v[i] != 0 || i == len(v)-1 {
					cc[i] = &bignum.Complex{new(big.Float).SetInt64(v[i]), new(big.Float)}
				}
			}
			p = bignum.NewPolynomial(basis, cc, interval)
		} else {
			f := make([]float64, len(v))
			for i := range v {
				f[i] = float64(v[i])
			}
			p = bignum.NewPolynomial(basis, f, interval)
		}
	}
	switch cf.Parity {
	case "odd":
		p.IsEven = false
	case "even":
		p.IsOdd = false
	}
	return p
}

func (c *sctx) run(cf cfg, rng *rand.Rand) ev {
	e := ev{"ev": "poly", "cfg": cf, "set": c.name, "T": c.T, "basis": cf.Basis, "invariant": cf.Invariant, "perrescale": 1, "lvlin": cf.LvlIn}
	if cf.LvlIn < 0 {
		cf.LvlIn = 0
		e["lvlin"] = 0
	}
	n := c.n
	// input
	x := make([]int64, n)
	var ct *rlwe.Ciphertext
	if c.T > 0 {
		xs := make([]uint64, n)
		for i := range xs {
			xs[i] = uint64(rng.Intn(int(c.T)))
			x[i] = int64(xs[i])
		}
		pt := bgv.NewPlaintext(c.bp, cf.LvlIn)
		tr.Must(c.becd.Encode(xs, pt))
		var err error
		ct, err = c.enc.EncryptNew(pt)
		tr.Must(err)
	} else {
		xs := make([]float64, n)
		for i := range xs {
			x[i] = int64(rng.Intn(5) - 2) // x = x2/2 in [-1, 1]
			xs[i] = float64(x[i]) / 2
		}
		pt := ckks.NewPlaintext(c.cp, cf.LvlIn)
		pt.LogDimensions = c.logd
		tr.Must(c.cecd.Encode(xs, pt))
		var err error
		ct, err = c.enc.EncryptNew(pt)
		tr.Must(err)
	}
	before, _ := ct.MarshalBinary()
	// polynomials and mapping
	var polys [][]int64
	mapping := make([]int, n) // 0: not covered
	var p interface{}
	var target rlwe.Scale
	if c.T > 0 {
		target = c.bp.DefaultScale()
		if cf.TScale == "other" {
			target = c.bp.NewScale(uint64(2 + rng.Intn(90)))
		}
	} else {
		target = c.cp.DefaultScale()
		if cf.TScale == "other" {
			target = rlwe.NewScale(math.Exp2(44.25))
		}
	}
	err0, pan0, msg0 := guarded(func() error {
		switch cf.Mode {
		case "vector":
			npoly := 2
			bp := make([]bignum.Polynomial, npoly)
			for i := 0; i < npoly; i++ {
				v := c.coeffs(rng, cf)
				polys = append(polys, v)
				bp[i] = c.poly(cf, v)
			}
			m := map[int][]int{}
			c.vecCalls++
			for s := 0; s < n; s++ {
				which := s % 3         // 0 -> poly 0, 1 -> poly 1, 2 -> none
				if c.vecCalls%2 == 0 { // every other vector: only the first quarter of the slots is covered
					which = 2
					if s < n/4 {
						which = s % 2
					}
				}
				if which < npoly {
					m[which] = append(m[which], s)
					mapping[s] = which + 1
				}
			}
			if c.T > 0 {
				pv, err := compoly.NewPolynomialVector(bp, m)
				if err != nil {
					return err
				}
				p = bgvpoly.PolynomialVector(pv)
			} else {
				pv, err := ckkspoly.NewPolynomialVector(bp, m)
				if err != nil {
					return err
				}
				p = pv
			}
		default:
			v := c.coeffs(rng, cf)
			polys = append(polys, v)
			for s := range mapping {
				mapping[s] = 1
			}
			p = c.poly(cf, v)
		}
		return nil
	})
	e["x"], e["polys"], e["map"] = x, polys, mapping
	if err0 != nil || pan0 {
		e["err"], e["panic"], e["msg"], e["out"], e["lvlout"], e["scdiff"], e["inok"] = true, pan0, "setup: "+msg0, x, -1, 0, false
		e["polyok"], e["again"] = true, true
		return e
	}
	pd0 := polyDigest(p)
	var res *rlwe.Ciphertext
	err, pan, msg := guarded(func() error {
		var err error
		if c.T > 0 {
			c.beval.ScaleInvariant = cf.Invariant
			// one persistent polynomial evaluator per mode (the mode is read when the evaluator is built)
			if c.bpes == nil {
				c.bpes = map[bool]*bgvpoly.Evaluator{}
			}
			if c.bpes[cf.Invariant] == nil {
				c.bpes[cf.Invariant] = bgvpoly.NewEvaluator(c.bp, c.beval)
			}
			c.bpe = c.bpes[cf.Invariant]
			pe := c.bpe
			if cf.Mode == "pbasis" {
				pb := compoly.NewPowerBasis(ct, bignum.Monomial)
				if cf.Deg >= 2 { // some powers are already there
					if err := pb.GenPower(2, false, c.beval); err != nil {
						return err
					}
				}
				res, err = pe.EvaluateFromPowerBasis(pb, p, target)
			} else {
				res, err = pe.Evaluate(ct, p, target)
			}
			return err
		}
		if c.cpe == nil {
			c.cpe = ckkspoly.NewEvaluator(c.cp, c.ceval)
		}
		pe := c.cpe
		if cf.Mode == "pbasis" {
			basis := bignum.Monomial
			if cf.Basis == "cheb" {
				basis = bignum.Chebyshev
			}
			pb := compoly.NewPowerBasis(ct, basis)
			if cf.Deg >= 2 {
				if err := pb.GenPower(2, false, c.ceval); err != nil {
					return err
				}
			}
			res, err = pe.EvaluateFromPowerBasis(pb, p, target)
		} else {
			res, err = pe.Evaluate(ct, p, target)
		}
		return err
	})
	after, _ := ct.MarshalBinary()
	e["inok"] = string(before) == string(after)
	// frame condition on the polynomial argument, and insensitivity to history: the same call again
	e["polyok"] = polyDigest(p) == pd0
	e["again"] = true
	if err == nil && !pan && res != nil && cf.Mode != "pbasis" {
		var res2 *rlwe.Ciphertext
		err2, pan2, _ := guarded(func() (err error) {
			if c.T > 0 {
				res2, err = c.bpe.Evaluate(ct, p, target)
			} else {
				res2, err = c.cpe.Evaluate(ct, p, target)
			}
			return
		})
		if err2 != nil || pan2 || res2 == nil {
			e["again"] = false
		} else {
			b1, _ := res.MarshalBinary()
			b2, _ := res2.MarshalBinary()
			e["again"] = string(b1) == string(b2)
		}
	}
	if c.T > 0 {
		c.beval.ScaleInvariant = false
	}
	e["err"], e["panic"], e["msg"] = err != nil, pan, msg
	out := make([]int64, n)
	e["lvlout"], e["scdiff"] = -1, 0
	if err == nil && !pan && res != nil {
		e["lvlout"] = res.Level()
		pt := c.dec.DecryptNew(res)
		if c.T > 0 {
			v := make([]uint64, n)
			if c.becd.Decode(pt, v) == nil {
				for i := range v {
					out[i] = int64(v[i])
				}
			}
			if res.Scale.Cmp(target) != 0 {
				e["scdiff"] = 1
			}
		} else {
			v := make([]complex128, n)
			if pt.LogDimensions == c.logd && c.cecd.Decode(pt, v) == nil {
				for i := range v {
					r := math.Round(real(v[i]) * 65536)
					if math.IsNaN(r) || math.Abs(r) > 1e9 || math.Abs(imag(v[i])) > 1.0/1024 {
						r = 999999999
					}
					out[i] = int64(r)
				}
			} else {
				for i := range out {
					out[i] = 999999999
				}
			}
			a, _ := res.Scale.Value.Float64()
			b, _ := target.Value.Float64()
			e["scdiff"] = int64(math.Round(math.Log2(a/b) * (1 << 20)))
		}
	}
	e["out"] = out
	return e
}

// polyDigest renders the polynomial argument (coefficients incl. absent ones, flags, mapping).
func polyDigest(p interface{}) string {
	var ps []bignum.Polynomial
	var mp map[int][]int
	switch x := p.(type) {
	case bignum.Polynomial:
		ps = []bignum.Polynomial{x}
	case bgvpoly.PolynomialVector:
		for _, v := range x.Value {
			ps = append(ps, v.Polynomial)
		}
		mp = x.Mapping
	case ckkspoly.PolynomialVector:
		for _, v := range x.Value {
			ps = append(ps, v.Polynomial)
		}
		mp = x.Mapping
	default:
		return fmt.Sprintf("%T", p)
	}
	out := fmt.Sprint(mp)
	for _, q := range ps {
		out += fmt.Sprintf("|%v %v %v %v %v:", q.Basis, q.IsOdd, q.IsEven, q.A.String(), q.B.String())
		for _, c := range q.Coeffs {
			if c == nil {
				out += "nil,"
			} else {
				out += c[0].Text('g', 20) + "+" + c[1].Text('g', 20) + "i,"
			}
		}
	}
	return out
}

// documented change of basis for a Chebyshev interval
func basisEv(a, b int) ev {
	p := bignum.NewPolynomial(bignum.Chebyshev, []float64{1, 1}, [2]float64{float64(a), float64(b)})
	s, k := p.ChangeOfBasis()
	w := new(big.Float).SetInt64(int64(b - a))
	sf, _ := new(big.Float).Mul(s, w).Float64()
	kf, _ := new(big.Float).Mul(k, w).Float64()
	return ev{"ev": "basis", "a": a, "b": b, "sc16": int64(math.Round(sf * 65536)), "ct16": int64(math.Round(kf * 65536)), "cfg": map[string]int{"a": a, "b": b}, "set": "basis"}
}

// Main: vrun c13 sets | exec --cfgs f --trace out
func Main(args []string) int {
	fs := flag.NewFlagSet("c13", flag.ExitOnError)
	cfgs := fs.String("cfgs", "", "shapes (one JSON record per line)")
	trace := fs.String("trace", "", "trace")
	seed := fs.Int64("seed", 1, "seed")
	basis := fs.Bool("basis", false, "also record the change-of-basis events")
	fs.Parse(args[1:])
	if args[0] == "sets" {
		b, _ := json.Marshal(Sets)
		fmt.Println(string(b))
		return 0
	}
	tr.Seed(uint64(*seed))
	rng := rand.New(rand.NewSource(*seed))
	w := tr.NewWriter(*trace)
	defer w.Close()
	f, err := os.Open(*cfgs)
	tr.Must(err)
	defer f.Close()
	sc := bufio.NewScanner(f)
	sc.Buffer(make([]byte, 1<<20), 1<<24)
	n := 0
	for sc.Scan() {
		var cf cfg
		tr.Must(json.Unmarshal(sc.Bytes(), &cf))
		n++
		e := getCtx(cf.Set).run(cf, rng)
		e["prog"], e["fork"], e["indep"] = n, 1, true
		w.Emit(e)
	}
	if *basis {
		for _, ab := range [][2]int{{-1, 1}, {0, 2}, {-2, 2}, {-8, 8}, {1, 5}, {-3, 1}, {0, 1}, {-1, 0}, {-16, 48}} {
			n++
			e := basisEv(ab[0], ab[1])
			e["prog"], e["fork"], e["indep"] = n, 1, true
			w.Emit(e)
		}
	}
	if *basis {
		toolEvents(rng, func(e ev) {
			n++
			e["prog"], e["fork"], e["indep"] = n, 1, true
			w.Emit(e)
		})
		chebApproxEvents(func(e ev) {
			n++
			e["prog"], e["fork"], e["indep"] = n, 1, true
			w.Emit(e)
		})
	}
	res := tr.Result{Events: w.N, Cases: n}
	res.Print()
	return 0
}
