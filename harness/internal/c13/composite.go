package c13

// Composite circuits built on the polynomial evaluator (C13, last clause): minimax composite polynomials
// (sign, step, max, min) and the inverse (Goldschmidt division, positive / negative / full domain), run with a
// recording bootstrapper, for validation against spec/Composite.tla.
//
// The reference never comes from lattigo: composite polynomials are evaluated with a Clenshaw recurrence on
// big.Float (256 bits) written here, the ideal functions (sign, step, max, min, 1/x) directly.

import (
	"bufio"
	"encoding/json"
	"flag"
	"fmt"
	"math"
	"math/big"
	"math/bits"
	"math/rand"
	"os"

	"github.com/tuneinsight/lattigo/v6/circuits/ckks/bootstrapping"
	"github.com/tuneinsight/lattigo/v6/circuits/ckks/comparison"
	"github.com/tuneinsight/lattigo/v6/circuits/ckks/inverse"
	"github.com/tuneinsight/lattigo/v6/circuits/ckks/minimax"
	"github.com/tuneinsight/lattigo/v6/circuits/ckks/mod1"
	"github.com/tuneinsight/lattigo/v6/circuits/ckks/polynomial"
	"github.com/tuneinsight/lattigo/v6/core/rlwe"
	"github.com/tuneinsight/lattigo/v6/ring"
	"github.com/tuneinsight/lattigo/v6/schemes/ckks"

	"verif/harness/internal/tr"
)

type compCfg struct {
	Set     string `json:"set"`     // p90, p90ci, p45
	Circuit string `json:"circuit"` // sign, step, max, min, gold, invpos, invneg, invfull
	Comp    string `json:"comp"`    // default, chain, chainx4
	InLvl   int    `json:"inlvl"`   // level of the input ciphertext(s)
	MinIn   int    `json:"minin"`   // MinimumInputLevel announced by the bootstrapper
	LogMax  int    `json:"logmax"`  // inverse: the domain reaches 2^logmax (0: no interval normalisation)
	Scaling int    `json:"scaling"` // mod1: output scaling in quarters (4: 1, 8: 2, 2: 1/2); comp names the mod1 type
}

// CompSet describes a parameter set to the specification.
type CompSet struct {
	Name     string `json:"name"`
	MaxLevel int    `json:"maxlevel"`
	LPR      int    `json:"lpr"`
	LogScale int    `json:"logscale"`
	LogN     int    `json:"logn"`
	CI       bool   `json:"ci"`
}

var compLits = map[string]ckks.ParametersLiteral{
	"p90":   {LogN: 9, LogQ: []int{55, 55, 45, 45, 45, 45, 45, 45, 45, 45, 45, 45, 45, 45}, LogP: []int{60, 60}, LogDefaultScale: 90},
	"p90ci": {LogN: 9, LogQ: []int{55, 55, 45, 45, 45, 45, 45, 45, 45, 45, 45, 45, 45, 45}, LogP: []int{60, 60}, LogDefaultScale: 90, RingType: ring.ConjugateInvariant},
	"p45":   {LogN: 9, LogQ: []int{55, 45, 45, 45, 45, 45, 45, 45, 45, 45}, LogP: []int{60}, LogDefaultScale: 45},
	// the repository's mod1 test set, at half the ring degree
	"m45": {LogN: 9, LogQ: []int{55, 60, 60, 60, 60, 60, 60, 60, 60, 60, 60, 60, 60, 53}, LogP: []int{61, 61, 61, 61, 61}, Xs: ring.Ternary{H: 192}, LogDefaultScale: 45},
}

// CompSets is printed by `vrun c13 compsets`.
func CompSets() []CompSet {
	out := []CompSet{}
	for _, n := range []string{"p90", "p90ci", "p45", "m45"} {
		p, err := ckks.NewParametersFromLiteral(compLits[n])
		tr.Must(err)
		out = append(out, CompSet{n, p.MaxLevel(), p.LevelsConsumedPerRescaling(), p.LogDefaultScale(), p.LogN(), p.RingType() == ring.ConjugateInvariant})
	}
	return out
}

// composite polynomials by name; alpha: the sign is stated for |x| >= 2^-alpha
func compPoly(name string) (coeffs [][]string, alpha int) {
	switch name {
	case "default":
		return comparison.DefaultCompositePolynomialForSign, 30
	case "chain": // 1.5x - 0.5x^3 composed 12 times: |x| >= 2^-4
		for i := 0; i < 12; i++ {
			coeffs = append(coeffs, minimax.CoeffsSignX2Cheby)
		}
		return coeffs, 4
	case "even4": // two polynomials of degree 4 (a power of two): T_4 composed with a contraction; |x| <= 1
		return [][]string{{"0.125", "0.5", "0.25", "0", "0.125"}, {"0", "0.5", "0", "0", "0.5"}}, 4
	case "chainx4": // the degree-7 map composed 5 times, then the cubic twice: |x| >= 2^-4
		for i := 0; i < 5; i++ {
			coeffs = append(coeffs, minimax.CoeffsSignX4Cheby)
		}
		coeffs = append(coeffs, minimax.CoeffsSignX2Cheby, minimax.CoeffsSignX2Cheby)
		return coeffs, 4
	}
	panic("unknown composite " + name)
}

const refPrec = 256

func bf(x float64) *big.Float { return new(big.Float).SetPrec(refPrec).SetFloat64(x) }

// clenshaw evaluates sum c_k T_k(x) on [-1, 1]
func clenshaw(c []*big.Float, x *big.Float) *big.Float {
	b1, b2 := new(big.Float).SetPrec(refPrec), new(big.Float).SetPrec(refPrec)
	two := bf(2)
	tx := new(big.Float).SetPrec(refPrec).Mul(two, x)
	for k := len(c) - 1; k >= 1; k-- {
		t := new(big.Float).SetPrec(refPrec).Mul(tx, b1)
		t.Sub(t, b2)
		t.Add(t, c[k])
		b2, b1 = b1, t
	}
	r := new(big.Float).SetPrec(refPrec).Mul(x, b1)
	r.Sub(r, b2)
	return r.Add(r, c[0])
}

func parseAll(cs [][]string) [][]*big.Float {
	out := make([][]*big.Float, len(cs))
	for i := range cs {
		for _, s := range cs[i] {
			f, _, err := big.ParseFloat(s, 10, refPrec, big.ToNearestEven)
			tr.Must(err)
			out[i] = append(out[i], f)
		}
	}
	return out
}

func composite(cs [][]*big.Float, x *big.Float) *big.Float {
	y := x
	for _, c := range cs {
		y = clenshaw(c, y)
	}
	return y
}

// bits of agreement: -log2 |a - b| (capped)
func agree(a, b *big.Float) int {
	d := new(big.Float).SetPrec(refPrec).Sub(a, b)
	d.Abs(d)
	if d.Sign() == 0 {
		return 200
	}
	f, _ := d.Float64()
	if f == 0 {
		return 200
	}
	v := -math.Log2(f)
	if v > 200 {
		v = 200
	}
	if v < -200 {
		v = -200
	}
	return int(math.Floor(v))
}

// recBoot wraps the repository's decrypt-and-re-encrypt bootstrapper and records every call.
type recBoot struct {
	*bootstrapping.SecretKeyBootstrapper
	levels []int
	below  int
}

func (r *recBoot) Bootstrap(ct *rlwe.Ciphertext) (*rlwe.Ciphertext, error) {
	r.levels = append(r.levels, ct.Level())
	if ct.Level() < r.MinLevel {
		r.below++
	}
	return r.SecretKeyBootstrapper.Bootstrap(ct)
}

func (r *recBoot) BootstrapMany(cts []rlwe.Ciphertext) ([]rlwe.Ciphertext, error) {
	for i := range cts {
		ct, err := r.Bootstrap(&cts[i])
		if err != nil {
			return nil, err
		}
		cts[i] = *ct
	}
	return cts, nil
}

type compCtx struct {
	p    ckks.Parameters
	sk   *rlwe.SecretKey
	ecd  *ckks.Encoder
	enc  *rlwe.Encryptor
	dec  *rlwe.Decryptor
	eval *ckks.Evaluator
}

var compCtxs = map[string]*compCtx{}

func getCompCtx(name string) *compCtx {
	if c, ok := compCtxs[name]; ok {
		return c
	}
	p, err := ckks.NewParametersFromLiteral(compLits[name])
	tr.Must(err)
	c := &compCtx{p: p}
	kg := rlwe.NewKeyGenerator(p)
	c.sk = kg.GenSecretKeyNew()
	c.ecd = ckks.NewEncoder(p)
	c.enc = rlwe.NewEncryptor(p, c.sk)
	c.dec = rlwe.NewDecryptor(p, c.sk)
	var gks []*rlwe.GaloisKey
	if p.RingType() == ring.Standard {
		gks = append(gks, kg.GenGaloisKeyNew(p.GaloisElementForComplexConjugation(), c.sk))
	}
	c.eval = ckks.NewEvaluator(p, rlwe.NewMemEvaluationKeySet(kg.GenRelinearizationKeyNew(c.sk), gks...))
	compCtxs[name] = c
	return c
}

func (c *compCtx) encrypt(vals []*big.Float, level int) *rlwe.Ciphertext {
	pt := ckks.NewPlaintext(c.p, level)
	tr.Must(c.ecd.Encode(vals, pt))
	ct, err := c.enc.EncryptNew(pt)
	tr.Must(err)
	return ct
}

func (c *compCtx) decrypt(ct *rlwe.Ciphertext) []*big.Float {
	out := make([]*big.Float, c.p.MaxSlots())
	tr.Must(c.ecd.Decode(c.dec.DecryptNew(ct), out))
	return out
}

func sgn(x *big.Float) *big.Float { return bf(float64(x.Sign())) }

func (c *compCtx) runComposite(cf compCfg, rng *rand.Rand) ev {
	if cf.Circuit == "mod1" {
		return c.runMod1(cf, rng)
	}
	p := c.p
	slots := p.MaxSlots()
	e := ev{"ev": "comp", "cfg": cf, "set": cf.Set, "circuit": cf.Circuit, "comp": cf.Comp, "inlvl": cf.InLvl, "minin": cf.MinIn,
		"maxlevel": p.MaxLevel(), "lpr": p.LevelsConsumedPerRescaling(), "logscale": p.LogDefaultScale(), "logn": p.LogN(), "ci": p.RingType() == ring.ConjugateInvariant}
	btp := &recBoot{SecretKeyBootstrapper: bootstrapping.NewSecretKeyBootstrapper(p, c.sk)}
	btp.MinLevel = cf.MinIn
	mm := minimax.NewEvaluator(p, c.eval, btp)
	coeffs, alpha := compPoly(cf.Comp)
	polys := minimax.NewPolynomial(coeffs)
	ref := parseAll(coeffs)
	depths := make([]int, len(polys))
	for i := range polys {
		depths[i] = bits.Len64(uint64(polys[i].Degree()))
	}
	e["depths"], e["alpha"] = depths, alpha

	// inputs on the stated domain, end points included
	lo := math.Exp2(-float64(alpha))
	a := make([]*big.Float, slots)
	b := make([]*big.Float, slots)
	for i := range a {
		var x float64
		switch i {
		case 0:
			x = lo
		case 1:
			x = -lo
		case 2:
			x = 1
		case 3:
			x = -1
		default:
			x = lo + rng.Float64()*(1-lo)
			if rng.Intn(2) == 0 {
				x = -x
			}
		}
		a[i] = bf(x)
		b[i] = bf(0)
	}
	var out *rlwe.Ciphertext
	var want, plain []*big.Float // ideal function; plaintext composite (sign family only)
	var err error
	var pan bool
	var msg string
	half := bf(0.5)
	switch cf.Circuit {
	case "sign", "step":
		ct := c.encrypt(a, cf.InLvl)
		cmp := comparison.NewEvaluator(p, mm, polys)
		err, pan, msg = guarded(func() (e error) {
			if cf.Circuit == "sign" {
				out, e = cmp.Sign(ct)
			} else {
				out, e = cmp.Step(ct)
			}
			return
		})
		for i := range a {
			s, pl := sgn(a[i]), composite(ref, a[i])
			if cf.Circuit == "step" {
				s = new(big.Float).SetPrec(refPrec).Add(s, bf(1))
				s.Mul(s, half)
				pl = new(big.Float).SetPrec(refPrec).Add(pl, bf(1))
				pl.Mul(pl, half)
			}
			want = append(want, s)
			plain = append(plain, pl)
		}
	case "max", "min":
		// a, b in [-1/2, 1/2] with |a - b| >= 2^-alpha
		for i := range a {
			x, _ := a[i].Float64()
			u := (rng.Float64() - 0.5) * (1 - math.Abs(x))
			a[i] = bf(u + x/2)
			b[i] = bf(u - x/2)
		}
		cta, ctb := c.encrypt(a, cf.InLvl), c.encrypt(b, cf.InLvl)
		cmp := comparison.NewEvaluator(p, mm, polys)
		err, pan, msg = guarded(func() (e error) {
			if cf.Circuit == "max" {
				out, e = cmp.Max(cta, ctb)
			} else {
				out, e = cmp.Min(cta, ctb)
			}
			return
		})
		for i := range a {
			d := new(big.Float).SetPrec(refPrec).Sub(a[i], b[i])
			st := new(big.Float).SetPrec(refPrec).Add(composite(ref, d), bf(1))
			st.Mul(st, half)
			pl := new(big.Float).SetPrec(refPrec).Mul(st, d) // step * diff
			var w *big.Float
			if cf.Circuit == "max" {
				pl.Add(pl, b[i])
				w = a[i]
				if b[i].Cmp(a[i]) > 0 {
					w = b[i]
				}
			} else {
				pl.Sub(a[i], pl)
				w = a[i]
				if b[i].Cmp(a[i]) < 0 {
					w = b[i]
				}
			}
			want = append(want, w)
			plain = append(plain, pl)
		}
	case "gold", "invpos", "invneg", "invfull":
		// the inverse is driven on 2^-4 <= |x|: its values (up to 2^4) must fit the lowest level at the plaintext scale,
		// which is a matter of parameter capacity, whatever the sign polynomial can distinguish
		logmin := -4.0
		mn, mx := math.Exp2(logmin), math.Exp2(float64(cf.LogMax))
		if cf.Circuit == "gold" {
			mx = 2 - mn
		}
		for i := range a {
			var x float64
			switch i {
			case 0:
				x = mn
			case 1:
				x = mx
			case 2:
				x = 1
			default:
				x = mn + rng.Float64()*(mx-mn)
				if i%3 == 0 { // small values are where the iteration count matters
					x = mn * (1 + rng.Float64()*7)
				}
			}
			neg := cf.Circuit == "invneg" || (cf.Circuit == "invfull" && i%2 == 1)
			if neg {
				x = -x
			}
			a[i] = bf(x)
			want = append(want, new(big.Float).SetPrec(refPrec).Quo(bf(1), a[i]))
		}
		ct := c.encrypt(a, cf.InLvl)
		inv := inverse.NewEvaluator(p, mm)
		err, pan, msg = guarded(func() (e error) {
			switch cf.Circuit {
			case "gold":
				out, e = inv.GoldschmidtDivisionNew(ct, logmin)
			case "invpos":
				out, e = inv.EvaluatePositiveDomainNew(ct, logmin, float64(cf.LogMax))
			case "invneg":
				out, e = inv.EvaluateNegativeDomainNew(ct, logmin, float64(cf.LogMax))
			default:
				out, e = inv.EvaluateFullDomainNew(ct, logmin, float64(cf.LogMax), polys)
			}
			return
		})
	}
	e["err"], e["panic"], e["msg"] = err != nil, pan, msg
	e["boots"], e["below"] = append([]int{}, btp.levels...), btp.below
	e["outlvl"], e["scaleok"], e["precideal"], e["precplain"], e["plainideal"] = -1, false, -200, -200, 200
	if err == nil && !pan && out != nil {
		e["outlvl"] = out.Level()
		r := out.Scale.Float64() / p.DefaultScale().Float64()
		e["scaleok"] = math.Abs(math.Log2(r)) < 1e-3
		have := c.decrypt(out)
		wi, wp, pi := 200, 200, 200
		for i := range want {
			// relative agreement for the inverse (values up to 2^alpha), absolute otherwise
			h, w := have[i], want[i]
			if plain == nil {
				h = new(big.Float).SetPrec(refPrec).Mul(have[i], a[i])
				w = bf(1)
			}
			if v := agree(h, w); v < wi {
				wi = v
			}
			if plain != nil {
				if v := agree(have[i], plain[i]); v < wp {
					wp = v
				}
				if v := agree(plain[i], want[i]); v < pi {
					pi = v
				}
			}
		}
		e["precideal"], e["precplain"], e["plainideal"] = wi, wp, pi
	}
	return e
}

// CompositeMain: vrun c13 compsets | vrun c13 composite --cfgs f --trace out --seed s
func CompositeMain(args []string) int {
	if args[0] == "compsets" {
		comps := map[string][]int{}
		for _, n := range []string{"default", "chain", "chainx4", "even4"} {
			cs, _ := compPoly(n)
			for _, q := range minimax.NewPolynomial(cs) {
				comps[n] = append(comps[n], bits.Len64(uint64(q.Degree())))
			}
		}
		b, _ := json.Marshal(map[string]interface{}{"sets": CompSets(), "comps": comps})
		fmt.Println(string(b))
		return 0
	}
	fs := flag.NewFlagSet("c13composite", flag.ExitOnError)
	cfgs := fs.String("cfgs", "", "configurations (one JSON record per line)")
	trace := fs.String("trace", "", "trace")
	seed := fs.Int64("seed", 1, "seed")
	fs.Parse(args[1:])
	tr.Seed(uint64(*seed))
	rng := rand.New(rand.NewSource(*seed))
	w := tr.NewWriter(*trace)
	defer w.Close()
	f, err := os.Open(*cfgs)
	tr.Must(err)
	defer f.Close()
	sc := bufio.NewScanner(f)
	n := 0
	for sc.Scan() {
		var cf compCfg
		tr.Must(json.Unmarshal(sc.Bytes(), &cf))
		n++
		e := getCompCtx(cf.Set).runComposite(cf, rng)
		e["prog"], e["fork"], e["indep"] = n, 1, true
		w.Emit(e)
	}
	res := tr.Result{Events: w.N, Cases: n}
	res.Print()
	return 0
}

// mod1 configurations of the repository's test (K of the continuous cosine reduced)
var mod1Lits = map[string]mod1.ParametersLiteral{
	"sinarc": {LevelQ: 12, Mod1Type: mod1.SinContinuous, LogMessageRatio: 8, K: 14, Mod1Degree: 127, Mod1InvDegree: 7, LogScale: 60},
	"cosd":   {LevelQ: 12, Mod1Type: mod1.CosDiscrete, LogMessageRatio: 8, K: 12, Mod1Degree: 30, DoubleAngle: 3, LogScale: 60},
	"cosc":   {LevelQ: 12, Mod1Type: mod1.CosContinuous, LogMessageRatio: 4, K: 40, Mod1Degree: 63, DoubleAngle: 3, LogScale: 60},
}

// runMod1 follows the preparation of the repository's test (scale the message to Q0 / ratio, normalise by 1/(K*QDiff))
// and evaluates x mod 1 times `scaling`; the reference is computed with float64 sine / arcsine.
func (c *compCtx) runMod1(cf compCfg, rng *rand.Rand) ev {
	p := c.p
	e := ev{"ev": "comp", "cfg": cf, "set": cf.Set, "circuit": cf.Circuit, "comp": cf.Comp, "inlvl": cf.InLvl, "minin": 0,
		"maxlevel": p.MaxLevel(), "lpr": p.LevelsConsumedPerRescaling(), "logscale": p.LogDefaultScale(), "logn": p.LogN(), "ci": false,
		"depths": []int{}, "alpha": 0, "boots": []int{}, "below": 0, "outlvl": -1, "scaleok": false, "precideal": -200, "precplain": 200, "plainideal": 200}
	lit := mod1Lits[cf.Comp]
	mp, err := mod1.NewParametersFromLiteral(p, lit)
	tr.Must(err)
	scaling := float64(cf.Scaling) / 4
	n := p.MaxSlots()
	vals := make([]float64, n)
	K := mp.K - 1
	Q := mp.QDiff * mp.MessageRatio()
	for i := range vals {
		vals[i] = math.Round((rng.Float64()*2-1)*K)*Q + (rng.Float64()*2 - 1)
	}
	vals[0] = K*Q + 0.5
	vals[1] = -K*Q - 0.5
	pt := ckks.NewPlaintext(p, cf.InLvl)
	tr.Must(c.ecd.Encode(vals, pt))
	ct, err := c.enc.EncryptNew(pt)
	tr.Must(err)
	var out *rlwe.Ciphertext
	var pan bool
	var msg string
	err, pan, msg = guarded(func() error {
		sc := rlwe.NewScale(math.Exp2(math.Round(math.Log2(float64(p.Q()[0]) / mp.MessageRatio()))))
		sc = sc.Div(ct.Scale)
		if e := c.eval.ScaleUp(ct, rlwe.NewScale(math.Round(sc.Float64())), ct); e != nil {
			return e
		}
		sc = mp.ScalingFactor().Div(ct.Scale)
		sc = sc.Div(rlwe.NewScale(mp.MessageRatio()))
		if e := c.eval.ScaleUp(ct, rlwe.NewScale(math.Round(sc.Float64())), ct); e != nil {
			return e
		}
		if e := c.eval.Mul(ct, 1/(mp.K*mp.QDiff), ct); e != nil {
			return e
		}
		if e := c.eval.Rescale(ct, ct); e != nil {
			return e
		}
		me := mod1.NewEvaluator(c.eval, polynomial.NewEvaluator(p, c.eval), mp)
		var e error
		if cf.Scaling == 4 && cf.InLvl%2 == 0 {
			out, e = me.EvaluateNew(ct)
		} else {
			out, e = me.EvaluateAndScaleNew(ct, complex(scaling, 0))
		}
		return e
	})
	e["err"], e["panic"], e["msg"] = err != nil, pan, msg
	if err == nil && !pan && out != nil {
		e["outlvl"] = out.Level()
		e["scaleok"] = true // the scale of the output is whatever the evaluation records; the values below are decoded with it
		have := make([]float64, n)
		tr.Must(c.ecd.Decode(c.dec.DecryptNew(out), have))
		worst := 200
		for i := range vals {
			x := vals[i] / mp.MessageRatio() / mp.QDiff
			x = math.Sin(2 * math.Pi * x)
			if lit.Mod1InvDegree > 0 {
				x = math.Asin(x)
			}
			x = x * mp.MessageRatio() * mp.QDiff / (2 * math.Pi) * scaling
			if v := agree(bf(have[i]), bf(x)); v < worst {
				worst = v
			}
		}
		e["precideal"] = worst
	}
	return e
}
