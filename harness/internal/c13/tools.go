package c13

import (
	"math/big"
	"math/rand"

	"github.com/tuneinsight/lattigo/v6/utils/bignum"
)

// Plaintext-side polynomial tools of utils/bignum (C13, mechanism "plaintext-side polynomial tools"): Factorize,
// Evaluate and EvaluateModP on polynomials with small integer coefficients, recorded for exact re-computation by TLC.

func intsOf(p bignum.Polynomial) []int64 {
	out := make([]int64, len(p.Coeffs))
	for i, c := range p.Coeffs {
		if c != nil {
			f, _ := c[0].Float64()
			out[i] = int64(f)
		}
	}
	return out
}

func toolEvents(rng *rand.Rand, emit func(ev)) {
	for _, basis := range []string{"mono", "cheb"} {
		bs := bignum.Monomial
		var itv interface{}
		if basis == "cheb" {
			bs = bignum.Chebyshev
			itv = [2]float64{-1, 1}
		}
		for deg := 1; deg <= 9; deg++ {
			for _, parity := range []string{"gen", "odd", "even"} {
				if (parity == "odd" && deg%2 == 0) || (parity == "even" && deg%2 == 1) {
					continue
				}
				c := make([]int64, deg+1)
				for i := range c {
					c[i] = int64(rng.Intn(7) - 3)
					if (parity == "odd" && i%2 == 0) || (parity == "even" && i%2 == 1) {
						c[i] = 0
					}
				}
				if c[deg] == 0 {
					c[deg] = 2
				}
				if deg > 2 && rng.Intn(3) == 0 {
					c[deg-2] = 0
				}
				cf := make([]float64, len(c))
				for i := range c {
					cf[i] = float64(c[i])
				}
				p := bignum.NewPolynomial(bs, cf, itv)
				p.IsOdd, p.IsEven = parity == "odd", parity == "even"
				// Factorize for every admissible n
				for n := (deg >> 1); n <= deg; n++ {
					if n == 0 || (basis == "cheb" && 2*n < deg) {
						continue // documented precondition: n >= Degree/2 (the Chebyshev remainder has n coefficients to fold into)
					}
					var q, r bignum.Polynomial
					err, pan, msg := guarded(func() error { q, r = p.Factorize(n); return nil })
					e := ev{"ev": "factor", "basis": basis, "parity": parity, "p": c, "n": n, "q": []int64{}, "r": []int64{}, "err": err != nil, "panic": pan, "msg": msg}
					if !pan {
						e["q"], e["r"] = intsOf(q), intsOf(r)
					}
					emit(e)
				}
				// Evaluate at half-integers of [-1, 1]: value * 2^deg is an integer
				for _, x2 := range []int64{-2, -1, 0, 1, 2} {
					var y *bignum.Complex
					err, pan, msg := guarded(func() error { y = p.Evaluate(float64(x2) / 2); return nil })
					e := ev{"ev": "peval", "basis": basis, "p": c, "x2": x2, "num": int64(0), "imzero": true, "err": err != nil, "panic": pan, "msg": msg}
					if !pan && y != nil {
						v := new(big.Float).SetPrec(200).Mul(y[0], new(big.Float).SetInt64(1<<uint(deg)))
						f, _ := v.Float64()
						e["num"] = int64(f + 0.5*sgnf(f))
						e["exact"] = v.IsInt()
						e["imzero"] = y[1].Sign() == 0
					}
					emit(e)
				}
				// EvaluateModP (monomial basis): in [0, P-1] and congruent to p(x)
				if basis == "mono" {
					for _, P := range []int64{5, 97, 257} {
						for _, x := range []int64{0, 1, 4, P - 1, P, P + 3} {
							var y *big.Int
							err, pan, msg := guarded(func() error { y = p.EvaluateModP(big.NewInt(x), big.NewInt(P)); return nil })
							e := ev{"ev": "pevalmod", "p": c, "x": x, "P": P, "out": int64(-1), "err": err != nil, "panic": pan, "msg": msg}
							if !pan && y != nil && y.IsInt64() {
								e["out"] = y.Int64()
							}
							emit(e)
						}
					}
				}
			}
		}
	}
}

// chebApproxEvents: ChebyshevApproximation of x^k on [a, b] with Nodes >= k interpolates x^k exactly, so that the returned
// polynomial, evaluated through its own change of basis, reproduces x^k at every point of the interval.
func chebApproxEvents(emit func(ev)) {
	for _, ab := range [][2]int64{{-1, 1}, {-2, 3}, {0, 4}, {-8, 8}, {1, 5}} {
		for k := 0; k <= 5; k++ {
			for _, nodes := range []int{k, k + 1, k + 4} {
				if nodes == 0 {
					continue
				}
				var itv bignum.Interval
				itv.Nodes = nodes
				itv.A = *new(big.Float).SetPrec(128).SetInt64(ab[0])
				itv.B = *new(big.Float).SetPrec(128).SetInt64(ab[1])
				f := func(x *big.Float) *big.Float {
					y := new(big.Float).SetPrec(128).SetInt64(1)
					for i := 0; i < k; i++ {
						y.Mul(y, x)
					}
					return y
				}
				var p bignum.Polynomial
				err, pan, msg := guarded(func() error { p = bignum.ChebyshevApproximation(f, itv); return nil })
				e := ev{"ev": "chebapx", "a": ab[0], "b": ab[1], "k": k, "nodes": nodes, "deg": -1, "xs": []int64{}, "num": []int64{}, "ischeb": false, "err": err != nil, "panic": pan, "msg": msg}
				if !pan {
					e["deg"] = p.Degree()
					e["ischeb"] = p.Basis == bignum.Chebyshev
					xs, num := []int64{}, []int64{}
					for x2 := 2 * ab[0]; x2 <= 2*ab[1]; x2++ {
						var y *bignum.Complex
						_, pan2, _ := guarded(func() error {
							y = p.Evaluate(new(big.Float).SetPrec(128).Quo(new(big.Float).SetInt64(x2), new(big.Float).SetInt64(2)))
							return nil
						})
						if pan2 || y == nil {
							e["panic"] = true
							break
						}
						v, _ := new(big.Float).Mul(y[0], new(big.Float).SetInt64(1<<10)).Float64()
						xs, num = append(xs, x2), append(num, int64(v+0.5*sgnf(v)))
					}
					e["xs"], e["num"] = xs, num
				}
				emit(e)
			}
		}
	}
}

func sgnf(f float64) float64 {
	if f < 0 {
		return -1
	}
	return 1
}
