// Package c06 drives the real ckks.Evaluator with programs generated from the ApproxEval
// specification and logs the projection of the concrete state (decoded values in fixed point,
// log-scale, level, degree) after every call.
package c06

import (
	"bufio"
	"encoding/json"
	"flag"
	"fmt"
	"math"
	"math/big"
	"os"
	"reflect"

	"github.com/tuneinsight/lattigo/v6/core/rlwe"
	"github.com/tuneinsight/lattigo/v6/ring"
	"github.com/tuneinsight/lattigo/v6/ring/ringqp"
	"github.com/tuneinsight/lattigo/v6/schemes/ckks"
	"github.com/tuneinsight/lattigo/v6/utils/bignum"

	"verif/harness/internal/tr"
)

type BOp struct {
	K   string     `json:"k"`
	R   int        `json:"r,omitempty"`
	V   [][2]int64 `json:"v,omitempty"`
	Fb  int        `json:"fb"`
	Ls  int64      `json:"ls"`
	Lvl int        `json:"lvl"`
	Re  int64      `json:"re"`
	Im  int64      `json:"im"`
	Ty  string     `json:"ty,omitempty"`
	Len int        `json:"len"`
}

type Step struct {
	Op   string     `json:"op"`
	Sop  string     `json:"sop,omitempty"`
	A    int        `json:"a,omitempty"`
	B    *BOp       `json:"b,omitempty"`
	O    int        `json:"o,omitempty"`
	New  bool       `json:"new"`
	K    int        `json:"k"`
	V    [][2]int64 `json:"v,omitempty"`
	Fb   int        `json:"fb"`
	Ls   int64      `json:"ls"`
	Lvl  int        `json:"lvl"`
	Ld   int        `json:"ld"` // Load: 0 = the set's slot dimensions, 1 = the maximum
	Keys string     `json:"keys,omitempty"`
}

type RegView struct {
	Ok   bool       `json:"ok"`
	Vals [][2]int64 `json:"vals"`
	Ls   int64      `json:"ls"`
	Lvl  int        `json:"lvl"`
	Deg  int        `json:"deg"`
	Ld   int        `json:"ld"` // 0: the set's slot dimensions, 1: the maximum (when different), 2: anything else
	Cons bool       `json:"cons"`
}

type Event struct {
	Step
	Prog     int      `json:"prog"`
	Fork     int      `json:"fork"`
	Idx      int      `json:"idx"`
	Err      bool     `json:"err"`
	Panic    bool     `json:"panic"`
	Msg      string   `json:"msg,omitempty"`
	Res      *RegView `json:"res,omitempty"`
	Frame    bool     `json:"frame"`
	FrameMsg string   `json:"framemsg,omitempty"`
}

type PSet struct {
	Name   string
	Params ckks.Parameters
	Sparse bool // 8 slots (LogDimensions.Cols = 3); otherwise full packing with a periodic pattern
}

const NS = 8

func GetPSet(name string) PSet {
	var lit ckks.ParametersLiteral
	sparse := false
	switch name {
	case "S":
		lit = ckks.ParametersLiteral{LogN: 10, LogQ: []int{55, 45, 45, 45}, LogP: []int{55}, LogDefaultScale: 45}
		sparse = true
	case "F":
		lit = ckks.ParametersLiteral{LogN: 10, LogQ: []int{55, 45, 45, 45}, LogP: []int{55}, LogDefaultScale: 45}
	case "R":
		lit = ckks.ParametersLiteral{LogN: 10, LogQ: []int{55, 45, 45, 45}, LogP: []int{55}, LogDefaultScale: 45, RingType: ring.ConjugateInvariant}
	case "H": // two primes per rescaling
		lit = ckks.ParametersLiteral{LogN: 10, LogQ: []int{60, 60, 45, 45, 45, 45, 45, 45}, LogP: []int{60, 60}, LogDefaultScale: 90}
		sparse = true
	default:
		panic("unknown pset " + name)
	}
	p, err := ckks.NewParametersFromLiteral(lit)
	tr.Must(err)
	return PSet{name, p, sparse}
}

func log2fix(x *big.Float) int64 {
	mant := new(big.Float)
	exp := x.MantExp(mant)
	m, _ := mant.Float64()
	return int64(math.Round((float64(exp) + math.Log2(m)) * 1048576))
}

type Consts struct {
	NS     int     `json:"NS"`
	L      int     `json:"L"`
	LQ     []int64 `json:"LQ"`
	LDelta int64   `json:"LDelta"`
	K      int     `json:"K"`
	Real   bool    `json:"Real"`
}

func (ps PSet) Consts() Consts {
	p := ps.Params
	c := Consts{NS: NS, L: p.MaxLevel(), K: p.LevelsConsumedPerRescaling(), Real: p.RingType() == ring.ConjugateInvariant}
	for _, q := range p.Q() {
		c.LQ = append(c.LQ, log2fix(new(big.Float).SetUint64(q)))
	}
	ds := p.DefaultScale().Value
	c.LDelta = log2fix(&ds)
	return c
}

type Machine struct {
	PS      PSet
	p       ckks.Parameters
	n       int
	NR      int
	kgen    *rlwe.KeyGenerator
	sk      *rlwe.SecretKey
	rlk     *rlwe.RelinearizationKey
	gks     []*rlwe.GaloisKey
	ecd     *ckks.Encoder
	enc     *rlwe.Encryptor
	dec     *rlwe.Decryptor
	eval    *ckks.Evaluator
	regs    []*rlwe.Ciphertext
	ok      []bool
	saved   []*rlwe.Ciphertext
	savedOk []bool
	rots    []int
}

func NewMachine(ps PSet, nr int, rots []int) *Machine {
	m := &Machine{PS: ps, p: ps.Params, NR: nr, rots: rots}
	m.n = m.p.MaxSlots()
	if ps.Sparse {
		m.n = NS
	}
	m.kgen = rlwe.NewKeyGenerator(m.p)
	m.sk = m.kgen.GenSecretKeyNew()
	m.rlk = m.kgen.GenRelinearizationKeyNew(m.sk)
	els := []uint64{}
	seen := map[uint64]bool{}
	for _, k := range rots {
		g := m.p.GaloisElement(k)
		if !seen[g] && g != 1 {
			seen[g] = true
			els = append(els, g)
		}
	}
	if m.p.RingType() == ring.Standard {
		els = append(els, m.p.GaloisElementForComplexConjugation())
	}
	m.gks = m.kgen.GenGaloisKeysNew(els, m.sk)
	m.ecd = ckks.NewEncoder(m.p)
	m.enc = rlwe.NewEncryptor(m.p, m.sk)
	m.dec = rlwe.NewDecryptor(m.p, m.sk)
	m.reset("full")
	return m
}

func (m *Machine) reset(keys string) {
	var evk rlwe.EvaluationKeySet
	switch keys {
	case "full":
		evk = rlwe.NewMemEvaluationKeySet(m.rlk, m.gks...)
	case "gal":
		evk = rlwe.NewMemEvaluationKeySet(nil, m.gks...)
	default:
		evk = nil
	}
	m.eval = ckks.NewEvaluator(m.p, evk)
	m.regs = make([]*rlwe.Ciphertext, m.NR+1)
	m.ok = make([]bool, m.NR+1)
	for i := 1; i <= m.NR; i++ {
		m.regs[i] = ckks.NewCiphertext(m.p, 1, m.p.MaxLevel())
	}
}

func (m *Machine) logDims() ring.Dimensions {
	d := m.p.LogMaxDimensions()
	if m.PS.Sparse {
		d.Cols = 3
	}
	return d
}

func val(x [2]int64, fb int) complex128 {
	s := math.Ldexp(1, -fb)
	return complex(float64(x[0])*s, float64(x[1])*s)
}

// expand maps the model vector (NS entries) to the real slots: identical when sparse, periodic otherwise.
func (m *Machine) expand(v [][2]int64, fb int, ln int) []complex128 {
	out := make([]complex128, ln)
	for i := range out {
		out[i] = val(v[i%NS], fb)
	}
	return out
}

func (m *Machine) isReal() bool { return m.p.RingType() == ring.ConjugateInvariant }

func (m *Machine) view(ct *rlwe.Ciphertext, ok bool) *RegView {
	rv := &RegView{Ok: ok, Vals: make([][2]int64, NS), Cons: true, Deg: 1}
	if !ok || ct == nil {
		return rv
	}
	rv.Lvl, rv.Deg = ct.Level(), ct.Degree()
	sc := ct.Scale.Value
	rv.Ls = log2fix(&sc)
	pt := m.dec.DecryptNew(ct)
	n := 1 << uint(pt.LogDimensions.Cols+pt.LogDimensions.Rows)
	switch {
	case pt.LogDimensions == m.logDims():
		rv.Ld = 0
	case pt.LogDimensions == m.p.LogMaxDimensions():
		rv.Ld = 1
	default:
		rv.Ld, rv.Cons = 2, false // a slot count that none of the inputs had
		return rv
	}
	vals := make([]complex128, n)
	if err := m.ecd.Decode(pt, vals); err != nil {
		rv.Cons = false
		return rv
	}
	fix := func(x float64) int64 {
		y := math.Round(x * 1048576)
		if math.IsNaN(y) || math.Abs(y) > 1e15 {
			return 1 << 50
		}
		return int64(y)
	}
	for i := 0; i < NS; i++ {
		rv.Vals[i] = [2]int64{fix(real(vals[i])), fix(imag(vals[i]))}
	}
	for i := NS; i < n; i++ {
		w := [2]int64{fix(real(vals[i])), fix(imag(vals[i]))}
		ref := rv.Vals[i%NS]
		if d0, d1 := w[0]-ref[0], w[1]-ref[1]; d0 > 64 || d0 < -64 || d1 > 64 || d1 < -64 {
			rv.Cons = false
		}
	}
	return rv
}

type operand struct {
	val   interface{}
	check func() string
}

func (m *Machine) buildOperand(b *BOp) (op operand, err error) {
	none := func() string { return "" }
	switch b.K {
	case "ct":
		return operand{m.regs[b.R], none}, nil
	case "pt":
		pt := ckks.NewPlaintext(m.p, b.Lvl)
		pt.LogDimensions = m.logDims()
		pt.Scale = rlwe.NewScale(new(big.Float).SetPrec(128).SetMantExp(big.NewFloat(1), 0))
		// scale = 2^(ls/2^20): the generator only uses integer numbers of bits
		pt.Scale = rlwe.NewScale(new(big.Float).SetPrec(128).SetMantExp(big.NewFloat(1), int(b.Ls/1048576)))
		if err = m.ecd.Encode(m.expand(b.V, b.Fb, m.n), pt); err != nil {
			return
		}
		before, _ := pt.MarshalBinary()
		return operand{pt, func() string {
			after, _ := pt.MarshalBinary()
			if string(before) != string(after) {
				return "plaintext operand modified"
			}
			return ""
		}}, nil
	case "sc":
		re, im := math.Ldexp(float64(b.Re), -b.Fb), math.Ldexp(float64(b.Im), -b.Fb)
		switch b.Ty {
		case "c128":
			return operand{complex(re, im), none}, nil
		case "f64":
			return operand{re, none}, nil
		case "int":
			return operand{int(b.Re), none}, nil
		case "uint":
			if b.Re < 0 {
				return op, fmt.Errorf("negative uint")
			}
			return operand{uint64(b.Re), none}, nil
		case "bigint":
			v := big.NewInt(b.Re)
			orig := new(big.Int).Set(v)
			return operand{v, func() string {
				if v.Cmp(orig) != 0 {
					return "*big.Int operand modified"
				}
				return ""
			}}, nil
		case "bigfloat":
			v := new(big.Float).SetPrec(128).SetFloat64(re)
			orig := new(big.Float).Copy(v)
			return operand{v, func() string {
				if v.Cmp(orig) != 0 {
					return "*big.Float operand modified"
				}
				return ""
			}}, nil
		case "bigcomplex":
			v := &bignum.Complex{new(big.Float).SetPrec(128).SetFloat64(re), new(big.Float).SetPrec(128).SetFloat64(im)}
			o0, o1 := new(big.Float).Copy(v[0]), new(big.Float).Copy(v[1])
			return operand{v, func() string {
				if v[0].Cmp(o0) != 0 || v[1].Cmp(o1) != 0 {
					return "*bignum.Complex operand modified"
				}
				return ""
			}}, nil
		}
	case "vec":
		ln := m.n
		if m.PS.Sparse && b.Len < NS {
			ln = b.Len
		}
		c := m.expand(b.V, b.Fb, ln)
		switch b.Ty {
		case "c128":
			cpy := append([]complex128{}, c...)
			return operand{c, func() string {
				if !reflect.DeepEqual(c, cpy) {
					return "[]complex128 operand modified"
				}
				return ""
			}}, nil
		case "f64":
			f := make([]float64, ln)
			for i := range f {
				f[i] = real(c[i])
			}
			cpy := append([]float64{}, f...)
			return operand{f, func() string {
				if !reflect.DeepEqual(f, cpy) {
					return "[]float64 operand modified"
				}
				return ""
			}}, nil
		case "bigfloat":
			f := make([]*big.Float, ln)
			cpy := make([]*big.Float, ln)
			for i := range f {
				f[i] = new(big.Float).SetPrec(128).SetFloat64(real(c[i]))
				cpy[i] = new(big.Float).Copy(f[i])
			}
			return operand{f, func() string {
				for i := range f {
					if f[i].Cmp(cpy[i]) != 0 {
						return "[]*big.Float operand modified"
					}
				}
				return ""
			}}, nil
		case "bigcomplex":
			f := make([]*bignum.Complex, ln)
			for i := range f {
				f[i] = &bignum.Complex{new(big.Float).SetPrec(128).SetFloat64(real(c[i])), new(big.Float).SetPrec(128).SetFloat64(imag(c[i]))}
			}
			b0, _ := json.Marshal(f)
			return operand{f, func() string {
				b1, _ := json.Marshal(f)
				if string(b0) != string(b1) {
					return "[]*bignum.Complex operand modified"
				}
				return ""
			}}, nil
		}
	}
	return op, fmt.Errorf("unknown operand %s/%s", b.K, b.Ty)
}

func poisonPoly(p ring.Poly) {
	for i := range p.Coeffs {
		for j := range p.Coeffs[i] {
			p.Coeffs[i][j] = 0x0123456789abcdef ^ uint64(j*2654435761)
		}
	}
}

func (m *Machine) poison() {
	ev := m.eval
	for _, p := range ev.BuffQ() {
		poisonPoly(p)
	}
	// the evaluator's own encoder has encoded something else before (its reusable buffers hold another vector)
	if ev.Encoder != nil {
		junk := make([]complex128, m.n)
		for i := range junk {
			junk[i] = complex(float64(i%7)-3.25, float64(i%5)-1.75)
		}
		if m.isReal() {
			for i := range junk {
				junk[i] = complex(real(junk[i]), 0)
			}
		}
		pt := ckks.NewPlaintext(m.p, 0)
		pt.LogDimensions = m.logDims()
		_ = ev.Encoder.Encode(junk, pt)
	}
	b := ev.Evaluator.EvaluatorBuffers
	if b != nil {
		for i := range b.BuffQP {
			poisonPoly(b.BuffQP[i].Q)
			poisonPoly(b.BuffQP[i].P)
		}
		for i := range b.BuffDecompQP {
			poisonPoly(b.BuffDecompQP[i].Q)
			poisonPoly(b.BuffDecompQP[i].P)
		}
		poisonPoly(b.BuffInvNTT)
		if b.BuffCt != nil {
			for i := range b.BuffCt.Value {
				poisonPoly(b.BuffCt.Value[i])
			}
		}
	}
}

var _ = ringqp.Poly{}

func snapshot(ct *rlwe.Ciphertext) []byte {
	if ct == nil {
		return nil
	}
	b, err := ct.MarshalBinary()
	if err != nil {
		return []byte("ERR")
	}
	return b
}

func (m *Machine) Exec(st Step) (ev Event) {
	ev.Step = st
	ev.Frame = true
	switch st.Op {
	case "Reset":
		m.reset(st.Keys)
		return
	case "Save", "Restore":
		src, srcOk := m.regs, m.ok
		if st.Op == "Restore" {
			src, srcOk = m.saved, m.savedOk
		}
		dst := make([]*rlwe.Ciphertext, len(src))
		for i := range src {
			if src[i] != nil {
				dst[i] = src[i].CopyNew()
			}
		}
		if st.Op == "Save" {
			m.saved, m.savedOk = dst, append([]bool{}, srcOk...)
		} else {
			m.regs, m.ok = dst, append([]bool{}, srcOk...)
		}
		return
	case "Load":
		pt := ckks.NewPlaintext(m.p, st.Lvl)
		pt.LogDimensions = m.logDims()
		if st.Ld == 1 {
			pt.LogDimensions = m.p.LogMaxDimensions()
		}
		tr.Must(m.ecd.Encode(m.expand(st.V, st.Fb, 1<<uint(pt.LogDimensions.Cols+pt.LogDimensions.Rows)), pt))
		ct, err := m.enc.EncryptNew(pt)
		tr.Must(err)
		m.regs[st.O], m.ok[st.O] = ct, true
		ev.Res = m.view(ct, true)
		return
	}
	if st.B == nil {
		st.B = &BOp{K: "none"}
		ev.Step.B = st.B
	}
	callable := m.ok[st.A]
	if st.Op == "DropLevel" {
		callable = callable && st.K <= m.regs[st.A].Level()
	} else if st.Op == "SetScale" {
		// in place on register A
	} else {
		if st.B.K == "ct" {
			callable = callable && m.ok[st.B.R]
		}
		if !st.New {
			callable = callable && m.ok[st.O]
		}
	}
	if !callable {
		ev.Sop, ev.Op = st.Op, "Skip"
		return
	}
	snaps := make([][]byte, m.NR+1)
	for i := 1; i <= m.NR; i++ {
		snaps[i] = snapshot(m.regs[i])
	}
	var opd operand
	if st.B.K != "none" {
		var err error
		if opd, err = m.buildOperand(st.B); err != nil {
			panic(err)
		}
	}
	m.poison()
	a := m.regs[st.A]
	var out *rlwe.Ciphertext
	if !st.New && st.O >= 1 {
		out = m.regs[st.O]
	}
	func() {
		defer func() {
			if r := recover(); r != nil {
				ev.Panic, ev.Msg = true, fmt.Sprint(r)
			}
		}()
		if e := m.call(st, a, opd.val, &out); e != nil {
			ev.Err, ev.Msg = true, e.Error()
		}
	}()
	written := st.O
	if st.Op == "DropLevel" {
		written = st.A
		ev.Res = m.view(m.regs[st.A], true)
	} else if st.Op == "SetScale" {
		written = st.A
		if ev.Err || ev.Panic {
			m.ok[st.A] = false
			m.regs[st.A] = ckks.NewCiphertext(m.p, 1, m.p.MaxLevel())
			ev.Res = m.view(nil, false)
		} else {
			ev.Res = m.view(m.regs[st.A], true)
		}
	} else if ev.Err || ev.Panic {
		m.ok[st.O] = false
		m.regs[st.O] = ckks.NewCiphertext(m.p, 1, m.p.MaxLevel())
		ev.Res = m.view(nil, false)
	} else {
		m.regs[st.O], m.ok[st.O] = out, true
		ev.Res = m.view(out, true)
	}
	for i := 1; i <= m.NR; i++ {
		if i != written && string(snaps[i]) != string(snapshot(m.regs[i])) {
			ev.Frame = false
			ev.FrameMsg += fmt.Sprintf("register %d modified; ", i)
		}
	}
	if opd.check != nil {
		if s := opd.check(); s != "" {
			ev.Frame = false
			ev.FrameMsg += s
		}
	}
	if len(ev.Msg) > 160 {
		ev.Msg = ev.Msg[:160]
	}
	return
}

func (m *Machine) call(st Step, a *rlwe.Ciphertext, b interface{}, out **rlwe.Ciphertext) (err error) {
	ev := m.eval
	o := *out
	switch st.Op {
	case "Add":
		if st.New {
			*out, err = ev.AddNew(a, b)
			return
		}
		return ev.Add(a, b, o)
	case "Sub":
		if st.New {
			*out, err = ev.SubNew(a, b)
			return
		}
		return ev.Sub(a, b, o)
	case "Mul":
		if st.New {
			*out, err = ev.MulNew(a, b)
			return
		}
		return ev.Mul(a, b, o)
	case "MulRelin":
		if st.New {
			*out, err = ev.MulRelinNew(a, b)
			return
		}
		return ev.MulRelin(a, b, o)
	case "MulThenAdd":
		return ev.MulThenAdd(a, b, o)
	case "MulRelinThenAdd":
		return ev.MulRelinThenAdd(a, b, o)
	case "Rescale":
		return ev.Rescale(a, o)
	case "RescaleTo":
		return ev.RescaleTo(a, m.p.DefaultScale(), o)
	case "Relinearize":
		if st.New {
			*out, err = ev.RelinearizeNew(a)
			return
		}
		return ev.Relinearize(a, o)
	case "Rotate":
		if st.New {
			*out, err = ev.RotateNew(a, st.K)
			return
		}
		return ev.Rotate(a, st.K, o)
	case "Conjugate":
		if st.New {
			*out, err = ev.ConjugateNew(a)
			return
		}
		return ev.Conjugate(a, o)
	case "ScaleUp":
		s := rlwe.NewScale(uint64(1) << uint(st.K))
		if st.New {
			*out, err = ev.ScaleUpNew(a, s)
			return
		}
		return ev.ScaleUp(a, s, o)
	case "DropLevel":
		ev.DropLevel(a, st.K)
		return nil
	case "SetScale":
		return ev.SetScale(a, m.p.DefaultScale().Mul(rlwe.NewScale(uint64(1)<<uint(st.K))))
	}
	return fmt.Errorf("unknown op %q", st.Op)
}

// Main: vrun c06 consts --pset S | exec --pset S --progs f --trace out --rots 1,2,...
func Main(args []string) int {
	fs := flag.NewFlagSet("c06", flag.ExitOnError)
	pset := fs.String("pset", "S", "parameter set")
	progs := fs.String("progs", "", "programs")
	trace := fs.String("trace", "", "trace")
	seed := fs.Uint64("seed", 1, "seed")
	nr := fs.Int("nr", 4, "registers")
	rots := fs.String("rots", "[1,2,3,-1,5,8,9,-11]", "rotations for which keys exist (JSON)")
	fs.Parse(args[1:])
	switch args[0] {
	case "consts":
		b, _ := json.Marshal(GetPSet(*pset).Consts())
		fmt.Println(string(b))
		return 0
	case "exec":
		tr.Seed(*seed)
		var rl []int
		tr.Must(json.Unmarshal([]byte(*rots), &rl))
		m := NewMachine(GetPSet(*pset), *nr, rl)
		f, err := os.Open(*progs)
		tr.Must(err)
		defer f.Close()
		w := tr.NewWriter(*trace)
		defer w.Close()
		sc := bufio.NewScanner(f)
		sc.Buffer(make([]byte, 1<<20), 1<<27)
		pid := 0
		for sc.Scan() {
			if len(sc.Bytes()) == 0 {
				continue
			}
			var steps []Step
			if err := json.Unmarshal(sc.Bytes(), &steps); err != nil {
				fmt.Fprintln(os.Stderr, "bad program:", err)
				return 2
			}
			pid++
			fork := 0
			for i, st := range steps {
				ev := m.Exec(st)
				ev.Prog, ev.Fork, ev.Idx = pid, fork, i+1
				w.Emit(ev)
				if st.Op == "Save" || st.Op == "Restore" {
					fork++
				}
			}
		}
		res := tr.Result{Events: w.N, Cases: pid}
		res.Print()
		return 0
	}
	return 2
}
