// Package rpack replays TLC-generated programs over ciphertexts of several ring degrees on the real
// rlwe.RingPackingEvaluator (Split, Merge, Extract, Repack and their naive variants) and on
// Evaluator.ApplyEvaluationKey with ring-degree switching keys, for validation against spec/RingPack.tla.
//
// Plaintexts are polynomials with small integer coefficients scaled by 2^30; every event records the coefficient
// vectors of the operands as decrypted under the key of their ring degree before the call, and of the results after.
package rpack

import (
	"bufio"
	"encoding/json"
	"flag"
	"fmt"
	"math/big"
	"math/rand"
	"os"
	"sort"

	"github.com/tuneinsight/lattigo/v6/core/rlwe"
	"github.com/tuneinsight/lattigo/v6/ring"
	"github.com/tuneinsight/lattigo/v6/schemes/ckks"

	"verif/harness/internal/tr"
)

type ev map[string]interface{}

const delta = 30

type op struct {
	Op    string `json:"op"`
	A     int    `json:"a"`     // input register
	B     int    `json:"b"`     // second input / output register (-1: nil)
	R     int    `json:"r"`     // output register
	LogN  int    `json:"logn"`  // enc: ring degree
	Idx   []int  `json:"idx"`   // extract: indices
	Naive bool   `json:"naive"` // extract / repack variant
	Shift int    `json:"shift"` // permute: new index = (i * mul + shift) mod 2^MaxLogN
	Mul   int    `json:"mul"`
}

type prog struct {
	Set string `json:"set"`
	Ops []op   `json:"ops"`
}

// SetInfo describes a parameter set to the specification.
type SetInfo struct {
	Name   string `json:"name"`
	MinLog int    `json:"minlog"`
	MaxLog int    `json:"maxlog"`
}

type setDef struct {
	SetInfo
	lit  rlwe.ParametersLiteral
	evkp func(p rlwe.Parameters) rlwe.EvaluationKeyParameters
}

func ip(x int) *int { return &x }

var sets = []setDef{
	{SetInfo{"n64-ntt", 4, 6}, rlwe.ParametersLiteral{LogN: 6, LogQ: []int{60}, LogP: []int{60}, NTTFlag: true},
		func(p rlwe.Parameters) rlwe.EvaluationKeyParameters {
			return rlwe.EvaluationKeyParameters{LevelQ: ip(p.MaxLevelQ()), LevelP: ip(p.MaxLevelP())}
		}},
	{SetInfo{"n64-coeff", 4, 6}, rlwe.ParametersLiteral{LogN: 6, LogQ: []int{60}, LogP: []int{60}, NTTFlag: false},
		func(p rlwe.Parameters) rlwe.EvaluationKeyParameters {
			return rlwe.EvaluationKeyParameters{LevelQ: ip(p.MaxLevelQ()), LevelP: ip(p.MaxLevelP())}
		}},
	{SetInfo{"n32-2q", 4, 5}, rlwe.ParametersLiteral{LogN: 5, LogQ: []int{55, 45}, LogP: []int{56}, NTTFlag: true},
		func(p rlwe.Parameters) rlwe.EvaluationKeyParameters {
			return rlwe.EvaluationKeyParameters{LevelQ: ip(p.MaxLevelQ()), LevelP: ip(p.MaxLevelP())}
		}},
	{SetInfo{"n32-same", 5, 5}, rlwe.ParametersLiteral{LogN: 5, LogQ: []int{60}, LogP: []int{60}, NTTFlag: true},
		func(p rlwe.Parameters) rlwe.EvaluationKeyParameters {
			return rlwe.EvaluationKeyParameters{LevelQ: ip(p.MaxLevelQ()), LevelP: ip(p.MaxLevelP())}
		}},
}

type sctx struct {
	def   setDef
	p     rlwe.Parameters
	evk   *rlwe.RingPackingEvaluationKey
	eval  *rlwe.RingPackingEvaluator
	ski   map[int]*rlwe.SecretKey
	par   map[int]rlwe.Parameters
	enc   map[int]*rlwe.Encryptor
	dec   map[int]*rlwe.Decryptor
	evalN map[int]*rlwe.Evaluator
}

var ctxs = map[string]*sctx{}

func getCtx(name string) *sctx {
	if c, ok := ctxs[name]; ok {
		return c
	}
	var def setDef
	for _, d := range sets {
		if d.Name == name {
			def = d
		}
	}
	p, err := rlwe.NewParametersFromLiteral(def.lit)
	tr.Must(err)
	c := &sctx{def: def, p: p, par: map[int]rlwe.Parameters{}, enc: map[int]*rlwe.Encryptor{}, dec: map[int]*rlwe.Decryptor{}, evalN: map[int]*rlwe.Evaluator{}}
	sk := rlwe.NewKeyGenerator(p).GenSecretKeyNew()
	evkp := def.evkp(p)
	c.evk = &rlwe.RingPackingEvaluationKey{}
	if def.MinLog < def.MaxLog {
		c.ski, err = c.evk.GenRingSwitchingKeys(p, sk, def.MinLog, evkp)
		tr.Must(err)
	} else {
		// a single ring degree: the documented way to populate the key without ring switching
		c.ski = map[int]*rlwe.SecretKey{p.LogN(): sk}
		c.evk.Parameters = map[int]rlwe.ParameterProvider{p.LogN(): &p}
	}
	c.evk.GenRepackEvaluationKeys(c.evk.Parameters[def.MinLog], c.ski[def.MinLog], evkp)
	if def.MinLog != def.MaxLog {
		c.evk.GenRepackEvaluationKeys(c.evk.Parameters[def.MaxLog], c.ski[def.MaxLog], evkp)
	}
	c.evk.GenExtractEvaluationKeys(c.evk.Parameters[def.MinLog], c.ski[def.MinLog], evkp)
	c.eval = rlwe.NewRingPackingEvaluator(c.evk)
	for n, pp := range c.evk.Parameters {
		q := *pp.GetRLWEParameters()
		c.par[n] = q
		c.enc[n] = rlwe.NewEncryptor(q, c.ski[n])
		c.dec[n] = rlwe.NewDecryptor(q, c.ski[n])
		c.evalN[n] = rlwe.NewEvaluator(q, nil)
	}
	ctxs[name] = c
	return c
}

func (c *sctx) fresh(rng *rand.Rand, logn int) *rlwe.Ciphertext {
	p := c.par[logn]
	level := p.MaxLevel()
	pt := rlwe.NewPlaintext(p, level)
	rq := p.RingQ().AtLevel(level)
	for k := 0; k < p.N(); k++ {
		v := int64(rng.Intn(17)) - 8
		if v == 0 {
			v = 9
		}
		x := new(big.Int).Lsh(big.NewInt(v), delta)
		for i, s := range rq.SubRings[:level+1] {
			pt.Value.Coeffs[i][k] = new(big.Int).Mod(x, new(big.Int).SetUint64(s.Modulus)).Uint64()
		}
	}
	if pt.IsNTT {
		rq.NTT(pt.Value, pt.Value)
	}
	ct, err := c.enc[logn].EncryptNew(pt)
	tr.Must(err)
	return ct
}

// read decrypts under the key of the ciphertext's ring degree; ok is false when some coefficient is not within
// 2^-6 of a multiple of 2^30 (or the degree is unknown)
func (c *sctx) read(ct *rlwe.Ciphertext) (out []int64, ok bool) {
	if ct == nil {
		return []int64{}, false
	}
	logn := ct.LogN()
	p, have := c.par[logn]
	if !have {
		return []int64{}, false
	}
	pt := c.dec[logn].DecryptNew(ct)
	rq := p.RingQ().AtLevel(ct.Level())
	if pt.IsNTT {
		rq.INTT(pt.Value, pt.Value)
	}
	n := p.N()
	bs := make([]*big.Int, n)
	for i := range bs {
		bs[i] = new(big.Int)
	}
	rq.PolyToBigintCentered(pt.Value, 1, bs)
	out = make([]int64, n)
	ok = true
	half := new(big.Int).Lsh(big.NewInt(1), delta-1)
	for k, b := range bs {
		q := new(big.Int).Add(b, half)
		q.Rsh(q, delta)
		r := new(big.Int).Sub(b, new(big.Int).Lsh(q, delta))
		if r.CmpAbs(new(big.Int).Lsh(big.NewInt(1), delta-6)) > 0 || q.CmpAbs(big.NewInt(1<<20)) > 0 {
			ok = false
			q.SetInt64(1 << 20)
		}
		out[k] = q.Int64()
	}
	return
}

func guarded(f func() error) (err error, pan bool, msg string) {
	defer func() {
		if r := recover(); r != nil {
			pan, msg = true, fmt.Sprint(r)
			if len(msg) > 160 {
				msg = msg[:160]
			}
		}
	}()
	if err = f(); err != nil {
		msg = err.Error()
		if len(msg) > 160 {
			msg = msg[:160]
		}
	}
	return
}

func snap(ct *rlwe.Ciphertext) string {
	if ct == nil {
		return ""
	}
	b, _ := ct.MarshalBinary()
	return string(b)
}

type entry struct {
	I    int   `json:"i"`
	C0   int64 `json:"c0"`
	Rest bool  `json:"rest0"` // every other coefficient is zero
	OK   bool  `json:"ok"`
	LogN int   `json:"logn"`
}

func (c *sctx) entries(m map[int]*rlwe.Ciphertext) []entry {
	keys := make([]int, 0, len(m))
	for k := range m {
		keys = append(keys, k)
	}
	sort.Ints(keys)
	out := []entry{}
	for _, k := range keys {
		v, ok := c.read(m[k])
		e := entry{I: k, OK: ok, Rest: true}
		if m[k] != nil {
			e.LogN = m[k].LogN()
		}
		if len(v) > 0 {
			e.C0 = v[0]
			for _, x := range v[1:] {
				if x != 0 {
					e.Rest = false
				}
			}
		}
		out = append(out, e)
	}
	return out
}

func (c *sctx) run(pg prog, rng *rand.Rand, emit func(ev)) {
	regs := map[int]*rlwe.Ciphertext{}
	var m map[int]*rlwe.Ciphertext
	for step, o := range pg.Ops {
		e := ev{"ev": "rp", "set": pg.Set, "op": o.Op, "step": step, "minlog": c.def.MinLog, "maxlog": c.def.MaxLog, "args": o,
			"in": []int64{}, "in2": []int64{}, "out": []int64{}, "out2": []int64{}, "min": []entry{}, "mout": []entry{},
			"inok": true, "cons": true, "outlogn": 0, "out2logn": 0, "inlogn": 0, "has2": o.B >= 0, "naive": o.Naive}
		var err error
		var pan bool
		var msg string
		switch o.Op {
		case "enc":
			regs[o.R] = c.fresh(rng, o.LogN)
			v, ok := c.read(regs[o.R])
			e["out"], e["cons"], e["outlogn"] = v, ok, o.LogN
		case "split":
			a := regs[o.A]
			in, ok := c.read(a)
			before := snap(a)
			ln := a.LogN()
			var ce, co *rlwe.Ciphertext
			err, pan, msg = guarded(func() error {
				if _, have := c.par[ln-1]; !have {
					// no smaller ring: the call must refuse; receivers of the same degree stand in
					ce = rlwe.NewCiphertext(c.par[ln], 1, a.Level())
					co = rlwe.NewCiphertext(c.par[ln], 1, a.Level())
					return c.eval.Split(a, ce, co)
				}
				ce = rlwe.NewCiphertext(c.par[ln-1], 1, a.Level())
				if o.B >= 0 {
					co = rlwe.NewCiphertext(c.par[ln-1], 1, a.Level())
				}
				return c.eval.Split(a, ce, co)
			})
			e["in"], e["inlogn"] = in, ln
			e["inok"] = snap(a) == before
			if err == nil && !pan {
				regs[o.R] = ce
				v, ok1 := c.read(ce)
				e["out"], e["outlogn"] = v, ce.LogN()
				ok = ok && ok1
				if o.B >= 0 {
					regs[o.B] = co
					v2, ok2 := c.read(co)
					e["out2"], e["out2logn"] = v2, co.LogN()
					ok = ok && ok2
				}
			}
			e["cons"] = ok
		case "merge":
			a := regs[o.A]
			var b *rlwe.Ciphertext
			in, ok := c.read(a)
			in2 := []int64{}
			if o.B >= 0 {
				b = regs[o.B]
				var ok2 bool
				in2, ok2 = c.read(b)
				ok = ok && ok2
			}
			ba, bb := snap(a), snap(b)
			var out *rlwe.Ciphertext
			err, pan, msg = guarded(func() (e error) { out, e = c.eval.MergeNew(a, b); return })
			e["in"], e["in2"], e["inlogn"] = in, in2, a.LogN()
			e["inok"] = snap(a) == ba && snap(b) == bb
			if err == nil && !pan {
				regs[o.R] = out
				v, ok1 := c.read(out)
				e["out"], e["outlogn"] = v, out.LogN()
				ok = ok && ok1
			}
			e["cons"] = ok
		case "swdown", "swup":
			a := regs[o.A]
			in, ok := c.read(a)
			before := snap(a)
			ln := a.LogN()
			to := ln - 1
			if o.Op == "swup" {
				to = ln + 1
			}
			big := ln
			if to > big {
				big = to
			}
			var out *rlwe.Ciphertext
			err, pan, msg = guarded(func() error {
				out = rlwe.NewCiphertext(c.par[to], 1, a.Level())
				return c.evalN[big].ApplyEvaluationKey(a, c.evk.RingSwitchingKeys[ln][to], out)
			})
			e["in"], e["inlogn"] = in, ln
			e["inok"] = snap(a) == before
			if err == nil && !pan {
				regs[o.R] = out
				v, ok1 := c.read(out)
				e["out"], e["outlogn"] = v, out.LogN()
				ok = ok && ok1
			}
			e["cons"] = ok
		case "extract":
			a := regs[o.A]
			in, ok := c.read(a)
			before := snap(a)
			idx := map[int]bool{}
			for _, i := range o.Idx {
				idx[i] = true
			}
			var out map[int]*rlwe.Ciphertext
			err, pan, msg = guarded(func() (e error) {
				if o.Naive {
					out, e = c.eval.ExtractNaive(a, idx)
				} else {
					out, e = c.eval.Extract(a, idx)
				}
				return
			})
			e["in"], e["inlogn"] = in, a.LogN()
			e["inok"] = snap(a) == before
			if err == nil && !pan {
				m = out
				es := c.entries(out)
				e["mout"] = es
				for _, x := range es {
					ok = ok && x.OK
				}
			}
			e["cons"] = ok
		case "permute":
			// plain relabelling of the map (no library call): index i becomes (i*mul + shift) mod 2^maxlog
			n := 1 << c.def.MaxLog
			nm := map[int]*rlwe.Ciphertext{}
			for k, v := range m {
				nm[((k*o.Mul+o.Shift)%n+n)%n] = v
			}
			m = nm
			continue
		case "repack":
			es := c.entries(m)
			ok := true
			for _, x := range es {
				ok = ok && x.OK
			}
			cp := map[int]*rlwe.Ciphertext{}
			for k, v := range m {
				cp[k] = v.CopyNew() // Repack is documented to work on its inputs; hand it copies
			}
			var out *rlwe.Ciphertext
			err, pan, msg = guarded(func() (e error) {
				if o.Naive {
					out, e = c.eval.RepackNaive(cp)
				} else {
					out, e = c.eval.Repack(cp)
				}
				return
			})
			e["min"] = es
			if err == nil && !pan && out != nil {
				regs[o.R] = out
				v, ok1 := c.read(out)
				e["out"], e["outlogn"] = v, out.LogN()
				ok = ok && ok1
			}
			if err == nil && !pan && out == nil {
				ok, msg = false, "Repack returned neither a ciphertext nor an error"
				e["cons"], e["err"], e["panic"], e["msg"] = false, false, false, msg
				emit(e)
				return
			}
			e["cons"] = ok
		}
		e["err"], e["panic"], e["msg"] = err != nil, pan, msg
		emit(e)
		if err != nil || pan {
			return
		}
	}
}

// Main: vrun rpack sets | vrun rpack exec --progs f --trace out --seed s
func Main(args []string) int {
	if args[0] == "bridge" {
		return BridgeMain(args)
	}
	if args[0] == "sets" {
		infos := []SetInfo{}
		for _, d := range sets {
			infos = append(infos, d.SetInfo)
		}
		b, _ := json.Marshal(infos)
		fmt.Println(string(b))
		return 0
	}
	fs := flag.NewFlagSet("rpack", flag.ExitOnError)
	progs := fs.String("progs", "", "programs (one JSON record per line)")
	trace := fs.String("trace", "", "trace")
	seed := fs.Int64("seed", 1, "seed")
	fs.Parse(args[1:])
	tr.Seed(uint64(*seed))
	rng := rand.New(rand.NewSource(*seed))
	w := tr.NewWriter(*trace)
	defer w.Close()
	f, err := os.Open(*progs)
	tr.Must(err)
	defer f.Close()
	sc := bufio.NewScanner(f)
	sc.Buffer(make([]byte, 1<<20), 1<<24)
	n := 0
	for sc.Scan() {
		var pg prog
		tr.Must(json.Unmarshal(sc.Bytes(), &pg))
		for i := range pg.Ops {
			if pg.Ops[i].Idx == nil {
				pg.Ops[i].Idx = []int{}
			}
		}
		n++
		fork := 0
		getCtx(pg.Set).run(pg, rng, func(e ev) {
			fork++
			e["prog"], e["fork"], e["indep"] = n, fork, true
			e["program"] = pg
			w.Emit(e)
		})
	}
	_ = ring.Standard
	res := tr.Result{Events: w.N, Cases: n}
	res.Print()
	return 0
}

// ---------------------------------------------------------------------------------------------------------------
// Standard / conjugate-invariant swap (ckks.DomainSwitcher), driven at the ckks level: slot vectors of small
// integers, recorded in sixteenths.

type bridgeCfg struct {
	Dir     string `json:"dir"` // r2c | c2r
	LvlIn   int    `json:"lvlin"`
	LvlRecv int    `json:"lvlrecv"`
	Key     string `json:"key"` // default | base2 | lowq | compressed
}

type bridgeCtx struct {
	ci, std     ckks.Parameters
	skCI, skStd *rlwe.SecretKey
	sw          map[string]ckks.DomainSwitcher
	eval        *ckks.Evaluator
}

var bctx *bridgeCtx

func getBridge() *bridgeCtx {
	if bctx != nil {
		return bctx
	}
	ci, err := ckks.NewParametersFromLiteral(ckks.ParametersLiteral{LogN: 5, LogQ: []int{55, 45, 45}, LogP: []int{56}, LogDefaultScale: 40, RingType: ring.ConjugateInvariant})
	tr.Must(err)
	lit := ci.ParametersLiteral()
	lit.LogN, lit.RingType, lit.P, lit.LogP = ci.LogN()+1, ring.Standard, nil, []int{57} // another auxiliary modulus on the standard side
	std, err := ckks.NewParametersFromLiteral(lit)
	tr.Must(err)
	b := &bridgeCtx{ci: ci, std: std, sw: map[string]ckks.DomainSwitcher{}}
	b.skCI = rlwe.NewKeyGenerator(ci).GenSecretKeyNew()
	kg := rlwe.NewKeyGenerator(std)
	b.skStd = kg.GenSecretKeyNew()
	b.eval = ckks.NewEvaluator(std, nil)
	for name, kp := range map[string][]rlwe.EvaluationKeyParameters{
		"default":    nil,
		"base2":      {{BaseTwoDecomposition: ip(12)}},
		"lowq":       {{LevelQ: ip(1)}},
		"compressed": {{Compressed: true}},
	} {
		c2r, r2c := kg.GenEvaluationKeysForRingSwapNew(b.skStd, b.skCI, kp...)
		if name == "compressed" {
			tr.Must(c2r.Expand(std, nil))
			tr.Must(r2c.Expand(std, nil))
		}
		sw, err := ckks.NewDomainSwitcher(std, c2r, r2c)
		tr.Must(err)
		b.sw[name] = sw
	}
	bctx = b
	return b
}

func (b *bridgeCtx) runBridge(cf bridgeCfg, rng *rand.Rand) ev {
	e := ev{"ev": "rp", "op": cf.Dir, "set": "bridge", "args": cf, "key": cf.Key, "lvlin": cf.LvlIn, "lvlrecv": cf.LvlRecv,
		"re": []int64{}, "im": []int64{}, "outre": []int64{}, "outim": []int64{}, "lvlout": -1, "lgscale": 0, "cons": true, "inok": true}
	n := b.ci.MaxSlots()
	re, im := make([]int64, n), make([]int64, n)
	vals := make([]complex128, n)
	for i := range vals {
		re[i], im[i] = int64(rng.Intn(17))-8, int64(rng.Intn(17))-8
		if cf.Dir == "r2c" {
			im[i] = 0
		}
		vals[i] = complex(float64(re[i]), float64(im[i]))
	}
	sixteenths := func(v []complex128) (r, i []int64, ok bool) {
		ok = true
		for _, x := range v {
			a, c := real(x)*16, imag(x)*16
			ra, rc := int64(a+0.5*sign(a)), int64(c+0.5*sign(c))
			if abs(a-float64(ra)) > 0.05 || abs(c-float64(rc)) > 0.05 {
				ok = false
			}
			r, i = append(r, ra), append(i, rc)
		}
		return
	}
	var in, out *rlwe.Ciphertext
	var err error
	var pan bool
	var msg string
	sw := b.sw[cf.Key]
	if cf.Dir == "r2c" {
		pt := ckks.NewPlaintext(b.ci, cf.LvlIn)
		tr.Must(ckks.NewEncoder(b.ci).Encode(vals, pt))
		in, err = rlwe.NewEncryptor(b.ci, b.skCI).EncryptNew(pt)
		tr.Must(err)
		out = ckks.NewCiphertext(b.std, 1, cf.LvlRecv)
		before := snap(in)
		err, pan, msg = guarded(func() error { return sw.RealToComplex(b.eval, in, out) })
		e["inok"] = snap(in) == before
		if err == nil && !pan {
			got := make([]complex128, n)
			tr.Must(ckks.NewEncoder(b.std).Decode(rlwe.NewDecryptor(b.std, b.skStd).DecryptNew(out), got))
			r, i, ok := sixteenths(got)
			e["outre"], e["outim"], e["cons"] = r, i, ok
		}
	} else {
		pt := ckks.NewPlaintext(b.std, cf.LvlIn)
		tr.Must(ckks.NewEncoder(b.std).Encode(vals, pt))
		in, err = rlwe.NewEncryptor(b.std, b.skStd).EncryptNew(pt)
		tr.Must(err)
		out = ckks.NewCiphertext(b.ci, 1, cf.LvlRecv)
		before := snap(in)
		err, pan, msg = guarded(func() error { return sw.ComplexToReal(b.eval, in, out) })
		e["inok"] = snap(in) == before
		if err == nil && !pan {
			got := make([]complex128, n)
			tr.Must(ckks.NewEncoder(b.ci).Decode(rlwe.NewDecryptor(b.ci, b.skCI).DecryptNew(out), got))
			r, i, ok := sixteenths(got)
			e["outre"], e["outim"], e["cons"] = r, i, ok
		}
	}
	for i := range re {
		re[i], im[i] = re[i]*16, im[i]*16
	}
	e["re"], e["im"] = re, im
	if err == nil && !pan {
		e["lvlout"] = out.Level()
		ratio := out.Scale.Float64() / in.Scale.Float64()
		e["lgscale"] = int64(ratio*1000 + 0.5) // thousandths: 1000 = same scale, 2000 = doubled
	}
	e["err"], e["panic"], e["msg"] = err != nil, pan, msg
	return e
}

func sign(x float64) float64 {
	if x < 0 {
		return -1
	}
	return 1
}

func abs(x float64) float64 {
	if x < 0 {
		return -x
	}
	return x
}

// BridgeMain: vrun rpack bridge --cfgs f --trace out --seed s
func BridgeMain(args []string) int {
	fs := flag.NewFlagSet("bridge", flag.ExitOnError)
	cfgs := fs.String("cfgs", "", "configurations")
	trace := fs.String("trace", "", "trace")
	seed := fs.Int64("seed", 1, "seed")
	fs.Parse(args[1:])
	tr.Seed(uint64(*seed))
	rng := rand.New(rand.NewSource(*seed))
	w := tr.NewWriter(*trace)
	defer w.Close()
	f, err := os.Open(*cfgs)
	tr.Must(err)
	defer f.Close()
	sc := bufio.NewScanner(f)
	n := 0
	for sc.Scan() {
		var cf bridgeCfg
		tr.Must(json.Unmarshal(sc.Bytes(), &cf))
		n++
		e := getBridge().runBridge(cf, rng)
		e["prog"], e["fork"], e["indep"] = n, 1, true
		w.Emit(e)
	}
	res := tr.Result{Events: w.N, Cases: n}
	res.Print()
	return 0
}
