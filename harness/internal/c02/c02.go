// Package c02 records rescaling, basis extension and mod-down calls of package ring on toy chains
// (all values, plain integers) and real-size chains (boundary values, limbs + CRT witnesses) for
// validation against spec/RnsScaling.tla.
package c02

import (
	"flag"
	"fmt"
	"math/big"
	"math/rand"

	"github.com/tuneinsight/lattigo/v6/core/rlwe"

	"github.com/tuneinsight/lattigo/v6/ring"
	"github.com/tuneinsight/lattigo/v6/ring/ringqp"

	"verif/harness/internal/c01"
	"verif/harness/internal/tr"
)

type ev map[string]interface{}

type driver struct {
	w     *tr.Writer
	rng   *rand.Rand
	prog  int
	fork  int
	quick bool
}

func (d *driver) emit(e ev) {
	d.fork++
	e["prog"], e["fork"] = d.prog, d.fork
	d.w.Emit(e)
}

func prod(ms []uint64) *big.Int {
	p := big.NewInt(1)
	for _, m := range ms {
		p.Mul(p, new(big.Int).SetUint64(m))
	}
	return p
}

// polyFromInts sets coefficient j of every modulus to xs[j] mod q_i
func polyFromInts(r *ring.Ring, xs []*big.Int) ring.Poly {
	p := r.NewPoly()
	t := new(big.Int)
	for i, s := range r.SubRings[:r.Level()+1] {
		q := new(big.Int).SetUint64(s.Modulus)
		for j, x := range xs {
			p.Coeffs[i][j] = t.Mod(x, q).Uint64()
		}
	}
	return p
}

func rows(p ring.Poly, upto int) [][]uint64 {
	out := make([][]uint64, upto)
	for i := 0; i < upto; i++ {
		out[i] = append([]uint64{}, p.Coeffs[i]...)
	}
	return out
}

func ints(xs []*big.Int) []int64 {
	out := make([]int64, len(xs))
	for i, x := range xs {
		out[i] = x.Int64()
	}
	return out
}

// crt reconstructs the integer in [0, prod) with the given residues
func crt(res []uint64, ms []uint64) *big.Int {
	M := prod(ms)
	acc := new(big.Int)
	for i, m := range ms {
		mi := new(big.Int).SetUint64(m)
		Mi := new(big.Int).Div(M, mi)
		inv := new(big.Int).ModInverse(Mi, mi)
		t := new(big.Int).Mul(new(big.Int).SetUint64(res[i]), inv)
		t.Mod(t, mi)
		t.Mul(t, Mi)
		acc.Add(acc, t)
	}
	return acc.Mod(acc, M)
}

func limbsList(xs []uint64) [][]int {
	out := make([][]int, len(xs))
	for i, x := range xs {
		out[i] = c01.LimbsU(x)
	}
	return out
}

// boundary values of [0, M): multiples of d and of d/2 +- 3, ends, and random values
func (d *driver) boundary(M, dv *big.Int, count int) []*big.Int {
	var out []*big.Int
	add := func(x *big.Int) {
		if x.Sign() >= 0 && x.Cmp(M) < 0 {
			out = append(out, new(big.Int).Set(x))
		}
	}
	half := new(big.Int).Rsh(dv, 1)
	for k := 0; k < count; k++ {
		base := new(big.Int).Rand(d.rng, M)
		base.Div(base, dv)
		base.Mul(base, dv) // a multiple of dv
		if k == 0 {
			base.SetInt64(0)
		}
		for off := int64(-3); off <= 3; off++ {
			add(new(big.Int).Add(base, big.NewInt(off)))
			add(new(big.Int).Add(new(big.Int).Add(base, half), big.NewInt(off)))
		}
	}
	hm := new(big.Int).Rsh(M, 1)
	for off := int64(-3); off <= 3; off++ {
		add(new(big.Int).Add(hm, big.NewInt(off)))
		add(new(big.Int).Add(new(big.Int).Sub(M, big.NewInt(4)), big.NewInt(off)))
		add(new(big.Int).Add(big.NewInt(3), big.NewInt(off)))
		add(new(big.Int).Add(new(big.Int).Rsh(M, 2), big.NewInt(off)))
		add(new(big.Int).Add(new(big.Int).Sub(M, new(big.Int).Rsh(M, 2)), big.NewInt(off)))
	}
	for k := 0; k < count; k++ {
		add(new(big.Int).Rand(d.rng, M))
	}
	return out
}

func chunk(xs []*big.Int, n int) [][]*big.Int {
	var out [][]*big.Int
	for len(xs) > 0 {
		c := make([]*big.Int, n)
		for i := range c {
			if i < len(xs) {
				c[i] = xs[i]
			} else {
				c[i] = new(big.Int)
			}
		}
		out = append(out, c)
		if len(xs) < n {
			break
		}
		xs = xs[n:]
	}
	return out
}

// divisions by the last modulus/moduli at level lvl of ring r. toy: plain ints; else certificates for nb = 1.
func (d *driver) divisions(r *ring.Ring, lvl int, values []*big.Int, toy bool) {
	n := r.N()
	rl := r.AtLevel(lvl)
	qs := r.ModuliChain()[:lvl+1]
	for nb := 1; nb <= lvl; nb++ {
		if !toy && nb > 1 {
			break
		}
		for _, rounded := range []bool{true, false} {
			for _, ntt := range []bool{false, true} {
				for _, xs := range chunk(values, n) {
					p0 := polyFromInts(rl, xs)
					p1 := r.AtLevel(lvl - nb).NewPoly()
					buff := rl.NewPoly()
					if ntt {
						rl.NTT(p0, p0)
					}
					switch {
					case rounded && ntt && nb == 1 && d.rng.Intn(2) == 0:
						rl.DivRoundByLastModulusNTT(p0, buff, p1)
					case rounded && ntt:
						rl.DivRoundByLastModulusManyNTT(nb, p0, buff, p1)
					case rounded && nb == 1 && d.rng.Intn(2) == 0:
						rl.DivRoundByLastModulus(p0, p1)
					case rounded:
						rl.DivRoundByLastModulusMany(nb, p0, buff, p1)
					case ntt && nb == 1 && d.rng.Intn(2) == 0:
						rl.DivFloorByLastModulusNTT(p0, buff, p1)
					case ntt:
						rl.DivFloorByLastModulusManyNTT(nb, p0, buff, p1)
					case nb == 1 && d.rng.Intn(2) == 0:
						rl.DivFloorByLastModulus(p0, p1)
					default:
						rl.DivFloorByLastModulusMany(nb, p0, buff, p1)
					}
					if ntt {
						r.AtLevel(lvl-nb).INTT(p1, p1)
					}
					out := rows(p1, lvl-nb+1)
					if toy {
						d.emit(ev{"ev": "div", "rounded": rounded, "ntt": ntt, "nb": nb, "qs": qs, "x": ints(xs), "out": out})
						continue
					}
					q := new(big.Int).SetUint64(qs[lvl])
					h := new(big.Int)
					if rounded {
						h.Rsh(new(big.Int).Sub(q, big.NewInt(1)), 1)
					}
					rem := qs[:lvl]
					Qrem := prod(rem)
					for j := 0; j < n && j < len(xs); j++ {
						res := make([]uint64, len(rem))
						for i := range rem {
							res[i] = out[i][j]
						}
						yrec := crt(res, rem)
						// the true quotient may be Qrem itself (wraps to 0)
						want := new(big.Int).Div(new(big.Int).Add(xs[j], h), q)
						wrap := want.Cmp(Qrem) >= 0
						ki := make([][]int, len(rem))
						for i, m := range rem {
							ki[i] = c01.Limbs(new(big.Int).Div(yrec, new(big.Int).SetUint64(m)))
						}
						d.emit(ev{"ev": "bigdiv", "rounded": rounded, "ntt": ntt, "x": c01.Limbs(xs[j]), "q": c01.Limbs(q), "h": c01.Limbs(h),
							"yrec": c01.Limbs(yrec), "qrem": c01.Limbs(Qrem), "wrap": wrap, "qi": limbsList(rem), "outi": limbsList(res), "ki": ki, "qv": qs[lvl]})
					}
				}
			}
		}
	}
}

// guard runs f and returns the panic message, if any.
func guard(f func()) (msg string) {
	defer func() {
		if r := recover(); r != nil {
			msg = fmt.Sprint(r)
		}
	}()
	f()
	return
}

// nearTop: the values whose every CRT digit y_i = x * (A/a_i)^-1 mod a_i is within a few units of a_i - 1, before and
// after the centring shift by A/2: the floating-point estimate of sum y_i / a_i reaches its largest value, len(src)
func nearTop(src []uint64, A *big.Int) (out []*big.Int) {
	half := new(big.Int).Rsh(A, 1)
	for _, deltas := range [][]uint64{{0, 0, 0, 0, 0, 0}, {1, 0, 2, 0, 1, 3}, {5, 7, 0, 1, 2, 9}, {40, 3, 17, 0, 60, 1}} {
		f := new(big.Int)
		for i, a := range src {
			ai := new(big.Int).SetUint64(a)
			y := new(big.Int).SetUint64(a - 1 - deltas[i%len(deltas)])
			f.Add(f, y.Mul(y, new(big.Int).Div(A, ai)))
		}
		f.Mod(f, A)
		out = append(out, f)
		c := new(big.Int).Sub(f, half)
		out = append(out, c.Mod(c, A))
	}
	return
}

func (d *driver) basis(rq, rp *ring.Ring, lq, lp int, toy bool, count int) {
	n := rq.N()
	be0 := ring.NewBasisExtender(rq, rp)
	// every other chunk runs on a ShallowCopy of the extender (same contract)
	turn := 0
	pick := func() *ring.BasisExtender {
		turn++
		if turn%2 == 0 {
			return be0.ShallowCopy()
		}
		return be0
	}
	qs := rq.ModuliChain()[:lq+1]
	ps := rp.ModuliChain()[:lp+1]
	Q, P := prod(qs), prod(ps)
	QP := new(big.Int).Mul(Q, P)
	// ModUp Q -> P and P -> Q
	for dir := 0; dir < 2; dir++ {
		src, dst, A := qs, ps, Q
		rs, rd, ls, ld := rq, rp, lq, lp
		if dir == 1 {
			src, dst, A = ps, qs, P
			rs, rd, ls, ld = rp, rq, lp, lq
		}
		var vals []*big.Int
		if toy && A.Cmp(big.NewInt(4000)) < 0 {
			for x := int64(0); x < A.Int64(); x++ {
				vals = append(vals, big.NewInt(x))
			}
		} else {
			vals = d.boundary(A, new(big.Int).SetUint64(src[len(src)-1]), count)
			vals = append(vals, nearTop(src, A)...)
		}
		for _, xs := range chunk(vals, n) {
			pin := polyFromInts(rs.AtLevel(ls), xs)
			pout := rd.AtLevel(ld).NewPoly()
			be := pick()
			if msg := guard(func() {
				if dir == 0 {
					be.ModUpQtoP(lq, lp, pin, pout)
				} else {
					be.ModUpPtoQ(lp, lq, pin, pout)
				}
			}); msg != "" {
				d.emit(ev{"ev": "crash", "what": fmt.Sprintf("ModUp dir=%d lq=%d lp=%d shallow=%v", dir, lq, lp, turn%2 == 0), "msg": msg})
				continue
			}
			out := rows(pout, ld+1)
			if toy {
				d.emit(ev{"ev": "modup", "dir": dir, "src": src, "dst": dst, "x": ints(xs), "out": out})
				continue
			}
			for j := 0; j < len(xs) && j < n; j++ {
				x := xs[j]
				neg := new(big.Int).Lsh(x, 1).Cmp(A) > 0
				c := 0
				v := new(big.Int).Set(x)
				if neg {
					c = 1
					v.Sub(x, A)
				}
				// find e in {-1,0,1} matching the first target modulus, then witnesses for all
				m := -1
				for e := -1; e <= 1; e++ {
					t := new(big.Int).Add(v, new(big.Int).Mul(big.NewInt(int64(e)), A))
					if new(big.Int).Mod(t, new(big.Int).SetUint64(dst[0])).Uint64() == out[0][j]%dst[0] {
						m = e - c + 2
						break
					}
				}
				if m < 0 {
					m = 2 - c // no consistent e: TLC will reject the certificate
				}
				// out_j + 2A + w2_j p_j = x + m A + w1_j p_j
				lhsBase := new(big.Int).Lsh(A, 1)
				rhs := new(big.Int).Add(x, new(big.Int).Mul(big.NewInt(int64(m)), A))
				wj := make([][]int, len(dst))
				w1j := make([][]int, len(dst))
				outj := make([]uint64, len(dst))
				for k, pm := range dst {
					outj[k] = out[k][j]
					dd := new(big.Int).Sub(rhs, new(big.Int).Add(lhsBase, new(big.Int).SetUint64(outj[k])))
					pb := new(big.Int).SetUint64(pm)
					if dd.Sign() >= 0 {
						wj[k] = c01.Limbs(new(big.Int).Div(dd, pb))
						w1j[k] = []int{}
					} else {
						wj[k] = []int{}
						w1j[k] = c01.Limbs(new(big.Int).Div(new(big.Int).Neg(dd), pb))
					}
				}
				d.emit(ev{"ev": "bigmodup", "dir": dir, "x": c01.Limbs(x), "a": c01.Limbs(A), "absv": c01.Limbs(new(big.Int).Abs(v)), "m": m,
					"pj": limbsList(dst), "outj": limbsList(outj), "wj": wj, "w1j": w1j})
			}
		}
	}
	// ModDown QP -> Q (coefficient and NTT domain) and QP -> P
	vals := d.boundary(QP, P, count)
	if toy && QP.Cmp(big.NewInt(1<<20)) < 0 {
		vals = vals[:0]
		for x := int64(0); x < QP.Int64(); x += 1 {
			vals = append(vals, big.NewInt(x))
		}
	}
	for _, kind := range []string{"QPtoQ", "QPtoQNTT", "QPtoP"} {
		if !toy && kind == "QPtoP" {
			continue
		}
		for _, xs := range chunk(vals, n) {
			pq := polyFromInts(rq.AtLevel(lq), xs)
			pp := polyFromInts(rp.AtLevel(lp), xs)
			var out [][]uint64
			be := pick()
			if msg := guard(func() {
				switch kind {
				case "QPtoQ":
					po := rq.AtLevel(lq).NewPoly()
					be.ModDownQPtoQ(lq, lp, pq, pp, po)
					out = rows(po, lq+1)
				case "QPtoQNTT":
					rq.AtLevel(lq).NTT(pq, pq)
					rp.AtLevel(lp).NTT(pp, pp)
					po := rq.AtLevel(lq).NewPoly()
					be.ModDownQPtoQNTT(lq, lp, pq, pp, po)
					rq.AtLevel(lq).INTT(po, po)
					out = rows(po, lq+1)
				case "QPtoP":
					po := rp.AtLevel(lp).NewPoly()
					be.ModDownQPtoP(lq, lp, pq, pp, po)
					out = rows(po, lp+1)
				}
			}); msg != "" {
				d.emit(ev{"ev": "crash", "what": fmt.Sprintf("ModDown%s lq=%d lp=%d shallow=%v", kind, lq, lp, turn%2 == 0), "msg": msg})
				continue
			}
			if toy {
				d.emit(ev{"ev": "moddown", "kind": kind, "qs": qs, "ps": ps, "x": ints(xs), "out": out})
				continue
			}
			for j := 0; j < len(xs) && j < n; j++ {
				res := make([]uint64, len(qs))
				for i := range qs {
					res[i] = out[i][j]
				}
				yrec := crt(res, qs)
				want := new(big.Int).Div(new(big.Int).Add(new(big.Int).Lsh(xs[j], 1), P), new(big.Int).Lsh(P, 1))
				wrap := want.Cmp(Q) >= 0 && yrec.Cmp(big.NewInt(4)) < 0
				ki := make([][]int, len(qs))
				for i, m := range qs {
					ki[i] = c01.Limbs(new(big.Int).Div(yrec, new(big.Int).SetUint64(m)))
				}
				d.emit(ev{"ev": "bigmoddown", "kind": kind, "x": c01.Limbs(xs[j]), "p": c01.Limbs(P), "yrec": c01.Limbs(yrec), "qall": c01.Limbs(Q), "wrap": wrap,
					"qi": limbsList(qs), "outi": limbsList(res), "ki": ki})
			}
		}
	}
	// small-norm extension Q -> P
	if toy {
		rqp := ringqp.Ring{RingQ: rq.AtLevel(lq), RingP: rp.AtLevel(lp)}
		small := []int64{0, 1, -1, 2, -2, 3, -3, 5}
		xs := make([]*big.Int, n)
		for i := range xs {
			xs[i] = big.NewInt(small[i%len(small)])
		}
		pq := polyFromInts(rq.AtLevel(lq), xs)
		pp := rp.AtLevel(lp).NewPoly()
		rqp.ExtendBasisSmallNormAndCenter(pq, lp, pq, pp)
		d.emit(ev{"ev": "extsmall", "dst": ps, "v": ints(xs), "out": rows(pp, lp+1)})
	}
}

// evalModDown exercises the exported rlwe.Evaluator.ModDown (both components, every NTT-flag combination,
// every (levelQ, levelP)) with boundary values and logs real-size certificates.
func (d *driver) evalModDown(count int) {
	p, err := rlwe.NewParametersFromLiteral(rlwe.ParametersLiteral{LogN: 4, LogQ: []int{55, 45, 40}, LogP: []int{50, 46}, NTTFlag: true})
	tr.Must(err)
	eval := rlwe.NewEvaluator(p, nil)
	rq, rp := p.RingQ(), p.RingP()
	n := p.N()
	for lq := 0; lq <= p.MaxLevelQ(); lq++ {
		for lp := 0; lp <= p.MaxLevelP(); lp++ {
			d.prog++
			d.fork = 0
			qs, ps := rq.ModuliChain()[:lq+1], rp.ModuliChain()[:lp+1]
			Q, P := prod(qs), prod(ps)
			QP := new(big.Int).Mul(Q, P)
			vals := d.boundary(QP, P, count)
			for _, inNTT := range []bool{false, true} {
				for _, outNTT := range []bool{false, true} {
					for ci, xs := range chunk(vals, n) {
						if ci > 3 {
							break
						}
						// component 1 gets the values in reverse order so that the two components differ
						ys := make([]*big.Int, len(xs))
						for i := range xs {
							ys[i] = xs[len(xs)-1-i]
						}
						ctQP := rlwe.NewElementExtended(p, 1, lq, lp)
						ctQP.IsNTT = inNTT
						comps := [][]*big.Int{xs, ys}
						for c := 0; c < 2; c++ {
							ctQP.Value[c].Q.Copy(polyFromInts(rq.AtLevel(lq), comps[c]))
							ctQP.Value[c].P.Copy(polyFromInts(rp.AtLevel(lp), comps[c]))
							if inNTT {
								rq.AtLevel(lq).NTT(ctQP.Value[c].Q, ctQP.Value[c].Q)
								rp.AtLevel(lp).NTT(ctQP.Value[c].P, ctQP.Value[c].P)
							}
						}
						ct := rlwe.NewCiphertext(p, 1, lq)
						ct.IsNTT = outNTT
						eval.ModDown(lq, lp, ctQP, ct)
						for c := 0; c < 2; c++ {
							po := ct.Value[c]
							if outNTT {
								rq.AtLevel(lq).INTT(po, po)
							}
							out := rows(po, lq+1)
							for j := 0; j < n; j++ {
								res := make([]uint64, len(qs))
								for i := range qs {
									res[i] = out[i][j]
								}
								yrec := crt(res, qs)
								want := new(big.Int).Div(new(big.Int).Add(new(big.Int).Lsh(comps[c][j], 1), P), new(big.Int).Lsh(P, 1))
								wrap := want.Cmp(Q) >= 0 && yrec.Cmp(big.NewInt(4)) < 0
								ki := make([][]int, len(qs))
								for i, m := range qs {
									ki[i] = c01.Limbs(new(big.Int).Div(yrec, new(big.Int).SetUint64(m)))
								}
								d.emit(ev{"ev": "bigmoddown", "kind": fmt.Sprintf("rlwe.Evaluator.ModDown in=%v out=%v comp=%d", inNTT, outNTT, c), "x": c01.Limbs(comps[c][j]), "p": c01.Limbs(P),
									"yrec": c01.Limbs(yrec), "qall": c01.Limbs(Q), "wrap": wrap, "qi": limbsList(qs), "outi": limbsList(res), "ki": ki})
							}
						}
					}
				}
			}
		}
	}
}

// Main: vrun c02 record --trace f --tier t --seed s
// decompose records rlwe.Evaluator.DecomposeSingleNTT (ring.Decomposer.DecomposeAndSplit plus the rows of the group itself)
// on toy parameters: for every digit, the residues of the digit on all moduli of Q and P next to the input residues, for
// every (levelQ, levelP) -- the group size is the number of auxiliary primes in use, as in the gadget product.
func (d *driver) decompose(qs, ps []uint64) {
	p, err := rlwe.NewParametersFromLiteral(rlwe.ParametersLiteral{LogN: 4, Q: qs, P: ps, NTTFlag: true})
	tr.Must(err)
	eval := rlwe.NewEvaluator(p, nil)
	rq, rp := p.RingQ(), p.RingP()
	n := rq.N()
	for lq := 0; lq <= rq.Level(); lq++ {
		for lp := 0; lp <= rp.Level(); lp++ {
			alpha := lp + 1
			r := rq.AtLevel(lq)
			rpl := rp.AtLevel(lp)
			Ql := prod(qs[:lq+1])
			digits := (lq + 1 + alpha - 1) / alpha
			for rep := 0; rep < 2; rep++ {
				vals := d.boundary(Ql, new(big.Int).SetUint64(qs[lq]), n)
				if len(vals) > n {
					vals = vals[rep%(len(vals)-n+1):][:n]
				}
				for len(vals) < n {
					vals = append(vals, new(big.Int).Rand(d.rng, Ql))
				}
				in := polyFromInts(r, vals)
				inNTT := rq.NewPoly()
				r.NTT(in, inNTT)
				for i := 0; i < digits; i++ {
					oq, op := rq.NewPoly(), rp.NewPoly()
					msg := guard(func() { eval.DecomposeSingleNTT(lq, lp, alpha, i, inNTT, in, oq, op) })
					if msg != "" {
						d.emit(ev{"ev": "crash", "what": fmt.Sprintf("DecomposeSingleNTT lq=%d lp=%d alpha=%d digit=%d", lq, lp, alpha, i), "msg": msg})
						continue
					}
					r.INTT(oq, oq)
					rpl.INTT(op, op)
					d.emit(ev{"ev": "decomp", "qs": qs[:lq+1], "ps": ps[:lp+1], "alpha": alpha, "digit": i,
						"x": rows(in, lq+1), "dq": rows(oq, lq+1), "dp": rows(op, lp+1)})
				}
			}
		}
	}
}

func Main(args []string) int {
	fs := flag.NewFlagSet("c02", flag.ExitOnError)
	trace := fs.String("trace", "", "trace")
	seed := fs.Int64("seed", 1, "seed")
	tier := fs.String("tier", "quick", "tier")
	fs.Parse(args[1:])
	d := &driver{w: tr.NewWriter(*trace), rng: rand.New(rand.NewSource(*seed)), quick: *tier == "quick"}
	defer d.w.Close()
	n := 8
	// toy chains: every value
	for _, c := range []struct{ q, p []uint64 }{{[]uint64{17, 97}, []uint64{193}}, {[]uint64{97, 17, 113}, []uint64{193, 241}}, {[]uint64{113, 97}, []uint64{241, 193}}, {[]uint64{17}, []uint64{97}}} {
		rq, err := ring.NewRing(n, c.q)
		tr.Must(err)
		rp, err := ring.NewRing(n, c.p)
		tr.Must(err)
		for lq := 0; lq < len(c.q); lq++ {
			d.prog++
			d.fork = 0
			Ql := prod(c.q[:lq+1])
			var vals []*big.Int
			if Ql.Cmp(big.NewInt(5000)) < 0 {
				for x := int64(0); x < Ql.Int64(); x++ {
					vals = append(vals, big.NewInt(x))
				}
			} else {
				vals = d.boundary(Ql, new(big.Int).SetUint64(c.q[lq]), 40)
			}
			if lq >= 1 {
				d.divisions(rq, lq, vals, true)
			}
			for lp := 0; lp < len(c.p); lp++ {
				if prod(c.q[:lq+1]).Int64()*prod(c.p[:lp+1]).Int64() < (1 << 30) {
					d.basis(rq, rp, lq, lp, true, 30)
				}
			}
		}
	}
	// gadget decomposition on toy parameters (ring degree 16): up to three digits of two primes, the last one incomplete
	for _, c := range []struct{ q, p []uint64 }{{[]uint64{97, 193, 257, 353, 449}, []uint64{577, 641}}, {[]uint64{257, 97, 193}, []uint64{353}}} {
		d.prog++
		d.fork = 0
		d.decompose(c.q, c.p)
	}
	// real size
	type cfg struct {
		lq, lp []int
	}
	cfgs := []cfg{{[]int{55, 45, 40, 61}, []int{61, 50}}, {[]int{60, 60, 60}, []int{61}}, {[]int{30, 45, 61, 36, 50, 25}, []int{55, 40, 33}}}
	if d.quick {
		cfgs = cfgs[:2]
	}
	for _, c := range cfgs {
		used := map[uint64]bool{} // Q and P must be coprime
		g := func(bits []int) []uint64 {
			var out []uint64
			for _, b := range bits {
				gen := ring.NewNTTFriendlyPrimesGenerator(uint64(b), 32)
				for {
					pr, err := gen.NextAlternatingPrime()
					tr.Must(err)
					if !used[pr] {
						used[pr] = true
						out = append(out, pr)
						break
					}
				}
			}
			return out
		}
		qs, ps := g(c.lq), g(c.lp)
		rq, err := ring.NewRing(16, qs)
		tr.Must(err)
		rp, err := ring.NewRing(16, ps)
		tr.Must(err)
		for lq := 0; lq < len(qs); lq++ {
			d.prog++
			d.fork = 0
			cnt := 6
			if d.quick {
				cnt = 3
			}
			if lq >= 1 {
				d.divisions(rq, lq, d.boundary(prod(qs[:lq+1]), new(big.Int).SetUint64(qs[lq]), cnt), false)
			}
			for lp := 0; lp < len(ps); lp++ {
				if d.quick && (lq+lp)%2 == 1 {
					continue
				}
				d.basis(rq, rp, lq, lp, false, cnt)
			}
		}
	}
	if d.quick {
		d.evalModDown(2)
	} else {
		d.evalModDown(8)
	}
	res := tr.Result{Events: d.w.N, Cases: d.prog}
	res.Print()
	return 0
}
