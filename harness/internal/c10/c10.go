// Package c10 compares copies (ShallowCopy / WithKey / WithPRNG / AtLevel / CopyNew) with their originals:
//   - a reflection walker lists the memory (slice backing arrays, maps) reachable from the original and from
//     the copy; the intersection is hashed before and after the copy is used (a concurrently usable copy must
//     not write memory it shares with the original; a deep copy shares nothing);
//   - an operation battery runs on the original, on the copy and on the original again (same results, nothing
//     fails only on the copy, using the copy does not change the original);
//   - TLC-generated schedules of goroutines, each on its own copy with shared keys and parameters, run in a
//     binary built with the race detector; results are compared with the sequential run.
//
// Events are validated against spec/OwnershipTrace.tla.
package c10

import (
	"github.com/tuneinsight/lattigo/v6/utils/bignum"
	"math/big"
	"bufio"
	"crypto/sha256"
	"encoding/binary"
	"encoding/hex"
	"encoding/json"
	"flag"
	"fmt"
	"github.com/tuneinsight/lattigo/v6/circuits/ckks/bootstrapping"
	"os"
	"reflect"
	"sort"
	"strings"
	"sync"
	"unsafe"

	"github.com/tuneinsight/lattigo/v6/core/rgsw"
	"github.com/tuneinsight/lattigo/v6/core/rlwe"
	"github.com/tuneinsight/lattigo/v6/ring"
	"github.com/tuneinsight/lattigo/v6/schemes/bgv"
	"github.com/tuneinsight/lattigo/v6/schemes/ckks"
	"github.com/tuneinsight/lattigo/v6/utils/sampling"

	"verif/harness/internal/c16"
	"verif/harness/internal/tr"
)

// ------------------------------------------------------------------------------------------------ heap walker

type region struct {
	ptr  uintptr
	size uintptr
	path string
	kind string // slice | map
	val  reflect.Value
}

type walker struct {
	seen map[[2]uintptr]bool
	out  map[uintptr]region
}

func clean(v reflect.Value) reflect.Value {
	if v.CanInterface() || !v.CanAddr() {
		return v
	}
	return reflect.NewAt(v.Type(), unsafe.Pointer(v.UnsafeAddr())).Elem()
}

func hasPointers(t reflect.Type) bool {
	switch t.Kind() {
	case reflect.Ptr, reflect.Slice, reflect.Map, reflect.Interface, reflect.Func, reflect.Chan, reflect.UnsafePointer, reflect.String:
		return t.Kind() != reflect.String
	case reflect.Struct:
		for i := 0; i < t.NumField(); i++ {
			if hasPointers(t.Field(i).Type) {
				return true
			}
		}
		return false
	case reflect.Array:
		return hasPointers(t.Elem())
	}
	return false
}

func (w *walker) walk(v reflect.Value, path string, depth int) {
	if depth > 40 || !v.IsValid() {
		return
	}
	v = clean(v)
	switch v.Kind() {
	case reflect.Ptr:
		if v.IsNil() {
			return
		}
		key := [2]uintptr{v.Pointer(), uintptr(v.Type().Elem().Size())}
		if w.seen[key] {
			return
		}
		w.seen[key] = true
		w.walk(v.Elem(), path, depth+1)
	case reflect.Interface:
		if v.IsNil() {
			return
		}
		e := v.Elem()
		if e.Kind() == reflect.Ptr || e.Kind() == reflect.Map || e.Kind() == reflect.Slice {
			w.walk(e, path, depth+1)
		} else {
			// a value stored in an interface: copy it to addressable memory to read its unexported fields
			c := reflect.New(e.Type()).Elem()
			if e.CanInterface() {
				c.Set(e)
				w.walk(c, path, depth+1)
			}
		}
	case reflect.Struct:
		t := v.Type()
		if t.PkgPath() == "sync" || t.PkgPath() == "sync/atomic" {
			return
		}
		for i := 0; i < v.NumField(); i++ {
			w.walk(v.Field(i), path+"."+t.Field(i).Name, depth+1)
		}
	case reflect.Slice:
		if v.IsNil() || v.Len() == 0 {
			return
		}
		p := v.Pointer()
		sz := uintptr(v.Len()) * v.Type().Elem().Size()
		if old, ok := w.out[p]; !ok || old.size < sz {
			w.out[p] = region{ptr: p, size: sz, path: path, kind: "slice", val: v}
		} else {
			return
		}
		if hasPointers(v.Type().Elem()) {
			for i := 0; i < v.Len(); i++ {
				w.walk(v.Index(i), fmt.Sprintf("%s[%d]", path, i), depth+1)
			}
		}
	case reflect.Array:
		if hasPointers(v.Type().Elem()) {
			for i := 0; i < v.Len(); i++ {
				w.walk(v.Index(i), fmt.Sprintf("%s[%d]", path, i), depth+1)
			}
		}
	case reflect.Map:
		if v.IsNil() {
			return
		}
		p := v.Pointer()
		if _, ok := w.out[p]; ok {
			return
		}
		w.out[p] = region{ptr: p, size: 1, path: path, kind: "map", val: v}
		it := v.MapRange()
		for it.Next() {
			val := it.Value()
			if hasPointers(val.Type()) {
				c := reflect.New(val.Type()).Elem()
				if val.CanInterface() {
					c.Set(val)
					w.walk(c, fmt.Sprintf("%s[%v]", path, it.Key()), depth+1)
				}
			}
		}
	}
}

func reach(obj interface{}) map[uintptr]region {
	w := &walker{seen: map[[2]uintptr]bool{}, out: map[uintptr]region{}}
	v := reflect.ValueOf(obj)
	w.walk(v, reflect.TypeOf(obj).String(), 0)
	return w.out
}

func graphSig(m map[uintptr]region) string {
	keys := make([]string, 0, len(m))
	for p, r := range m {
		keys = append(keys, fmt.Sprintf("%x:%d:%s", p, r.size, r.kind))
	}
	sort.Strings(keys)
	h := sha256.Sum256([]byte(strings.Join(keys, ",")))
	return hex.EncodeToString(h[:8])
}

func hashRegion(r region) string {
	h := sha256.New()
	switch r.kind {
	case "slice":
		b := unsafe.Slice((*byte)(unsafe.Pointer(r.ptr)), int(r.size))
		h.Write(b)
	case "map":
		var keys []string
		it := r.val.MapRange()
		for it.Next() {
			val := it.Value()
			s := fmt.Sprint(it.Key().Interface()) + "="
			switch val.Kind() {
			case reflect.Slice:
				s += fmt.Sprintf("%x:%d", val.Pointer(), val.Len())
			case reflect.Ptr, reflect.Map:
				s += fmt.Sprintf("%x", val.Pointer())
			default:
				if val.CanInterface() {
					s += fmt.Sprint(val.Interface())
				}
			}
			keys = append(keys, s)
		}
		sort.Strings(keys)
		h.Write([]byte(strings.Join(keys, ";")))
	}
	return string(h.Sum(nil)[:8])
}

// shared: regions reachable from both objects (same backing start).
func shared(a, b map[uintptr]region) []region {
	var out []region
	for p, r := range a {
		if _, ok := b[p]; ok {
			out = append(out, r)
		}
	}
	sort.Slice(out, func(i, j int) bool { return out[i].path < out[j].path })
	return out
}

// ------------------------------------------------------------------------------------------------ subjects

type op struct {
	name string
	f    func(obj interface{}) (string, error) // digest of the result (or a statistic class for randomised results)
}

type copyKind struct {
	name       string
	concurrent bool // documented usable concurrently with the original
	deep       bool
	mk         func(orig interface{}) interface{}
}

type subject struct {
	name   string
	orig   interface{}
	heavy  bool               // expensive operations: few, small schedules
	mkOrig func() interface{} // when set, schedules run on freshly built originals (state filled on first use)
	copies []copyKind
	ops    []op
}

func dg(parts ...interface{}) string {
	h := sha256.New()
	for _, p := range parts {
		switch x := p.(type) {
		case interface{ MarshalBinary() ([]byte, error) }:
			b, err := x.MarshalBinary()
			if err != nil {
				h.Write([]byte("ERR" + err.Error()))
			}
			h.Write(b)
		case []uint64:
			var b8 [8]byte
			for _, v := range x {
				binary.LittleEndian.PutUint64(b8[:], v)
				h.Write(b8[:])
			}
		case []complex128:
			h.Write([]byte(fmt.Sprintf("%.6f", x)))
		default:
			h.Write([]byte(fmt.Sprint(x)))
		}
	}
	return hex.EncodeToString(h.Sum(nil)[:8])
}

type opRes struct {
	Op      string `json:"op"`
	Eq      bool   `json:"eq"`
	Again   bool   `json:"again"`
	ErrOrig bool   `json:"errorig"`
	ErrCopy bool   `json:"errcopy"`
	Msg     string `json:"msg,omitempty"`
}

type event struct {
	Ev         string   `json:"ev"`
	Prog       int      `json:"prog"`
	Fork       int      `json:"fork"`
	Subject    string   `json:"subject"`
	Kind       string   `json:"kind,omitempty"`
	Concurrent bool     `json:"concurrent"`
	Deep       bool     `json:"deep"`
	Ops        []opRes  `json:"ops"`
	NShared    int      `json:"nshared"`
	Written    []string `json:"written"`
	OrigIntact bool     `json:"origintact"`
	OrigGraph  bool     `json:"origgraph"`
	Panic      bool     `json:"panic"`
	Msg        string   `json:"msg,omitempty"`
	Sched      string   `json:"sched,omitempty"`
	Races      int      `json:"races"`
	SeqEqual   bool     `json:"seqequal"`
	G          int      `json:"g,omitempty"`
}

func runOp(o op, obj interface{}) (res string, errd bool, msg string) {
	defer func() {
		if r := recover(); r != nil {
			res, errd, msg = "PANIC", true, "panic: "+fmt.Sprint(r)
		}
	}()
	s, err := o.f(obj)
	if err != nil {
		return "ERR", true, err.Error()
	}
	return s, false, ""
}

// probe compares one copy with its original.
func probe(s *subject, ck copyKind) (e event) {
	e = event{Ev: "copy", Subject: s.name, Kind: ck.name, Concurrent: ck.concurrent, Deep: ck.deep, Ops: []opRes{}, Written: []string{}, OrigIntact: true, OrigGraph: true}
	defer func() {
		if r := recover(); r != nil {
			e.Panic, e.Msg = true, fmt.Sprint(r)
		}
	}()
	// results of the original before any copy exists
	first := make([]string, len(s.ops))
	firstErr := make([]bool, len(s.ops))
	for i, o := range s.ops {
		first[i], firstErr[i], _ = runOp(o, s.orig)
	}
	// deriving a copy leaves the original's object graph as it was (the same backing arrays and maps are reachable)
	g0 := graphSig(reach(s.orig))
	cp := ck.mk(s.orig)
	e.OrigGraph = graphSig(reach(s.orig)) == g0
	sh := shared(reach(s.orig), reach(cp))
	e.NShared = len(sh)
	before := make([]string, len(sh))
	for i, r := range sh {
		before[i] = hashRegion(r)
	}
	cres := make([]string, len(s.ops))
	for i, o := range s.ops {
		var errd bool
		var msg string
		cres[i], errd, msg = runOp(o, cp)
		e.Ops = append(e.Ops, opRes{Op: o.name, Eq: cres[i] == first[i], ErrOrig: firstErr[i], ErrCopy: errd, Msg: msg})
	}
	if ck.concurrent || ck.deep {
		for i, r := range sh {
			if hashRegion(r) != before[i] {
				e.Written = append(e.Written, r.path)
			}
		}
	}
	if ck.deep {
		// overwrite every byte reachable from the copy
		for _, r := range reach(cp) {
			if r.kind == "slice" && !hasPointers(r.val.Type().Elem()) {
				b := unsafe.Slice((*byte)(unsafe.Pointer(r.ptr)), int(r.size))
				for i := range b {
					b[i] ^= 0x5a
				}
			}
		}
	}
	for i, o := range s.ops {
		again, _, _ := runOp(o, s.orig)
		e.Ops[i].Again = again == first[i]
		if ck.deep && again != first[i] {
			e.OrigIntact = false
		}
	}
	return
}

// ------------------------------------------------------------------------------------------------ fixtures

type fixture struct {
	p      rlwe.Parameters
	bp     bgv.Parameters
	cp     ckks.Parameters
	sk     *rlwe.SecretKey
	pk     *rlwe.PublicKey
	evk    *rlwe.MemEvaluationKeySet
	galEls []uint64
}

var fx *fixture

func fixtures() *fixture {
	if fx != nil {
		return fx
	}
	f := &fixture{}
	var err error
	f.bp, err = bgv.NewParametersFromLiteral(bgv.ParametersLiteral{LogN: 7, LogQ: []int{50, 40, 40}, LogP: []int{55}, PlaintextModulus: 97})
	tr.Must(err)
	f.p = f.bp.Parameters
	f.cp, err = ckks.NewParametersFromLiteral(ckks.ParametersLiteral{LogN: 7, Q: f.p.Q(), P: f.p.P(), LogDefaultScale: 40})
	tr.Must(err)
	kg := rlwe.NewKeyGenerator(f.p)
	f.sk = kg.GenSecretKeyNew()
	f.pk = kg.GenPublicKeyNew(f.sk)
	f.galEls = []uint64{f.p.GaloisElement(1), f.p.GaloisElement(3), f.p.GaloisElementOrderTwoOrthogonalSubgroup()}
	f.evk = rlwe.NewMemEvaluationKeySet(kg.GenRelinearizationKeyNew(f.sk), kg.GenGaloisKeysNew(f.galEls, f.sk)...)
	fx = f
	return f
}

func detPoly(r *ring.Ring, seed uint64) ring.Poly {
	p := r.NewPoly()
	x := seed*0x9e3779b97f4a7c15 + 1
	for i, s := range r.SubRings[:r.Level()+1] {
		for j := range p.Coeffs[i] {
			x ^= x << 13
			x ^= x >> 7
			x ^= x << 17
			p.Coeffs[i][j] = x % s.Modulus
		}
	}
	return p
}

func detCt(p rlwe.Parameters, degree, level int, seed uint64) *rlwe.Ciphertext {
	ct := rlwe.NewCiphertext(p, degree, level)
	rq := p.RingQ().AtLevel(level)
	for i := range ct.Value {
		ct.Value[i].Copy(detPoly(rq, seed+uint64(i)))
	}
	ct.IsNTT = true
	return ct
}

func subjects() []*subject {
	f := fixtures()
	var out []*subject
	p := f.p
	keyedPRNG := func() sampling.PRNG { x, _ := sampling.NewKeyedPRNG([]byte("c10 rebinding")); return x }

	// rlwe.Evaluator
	rlweOps := []op{
		{"Relinearize", func(o interface{}) (string, error) {
			out := rlwe.NewCiphertext(p, 1, p.MaxLevel())
			err := o.(*rlwe.Evaluator).Relinearize(detCt(p, 2, p.MaxLevel(), 1), out)
			return dg(out), err
		}},
		{"Automorphism", func(o interface{}) (string, error) {
			out := rlwe.NewCiphertext(p, 1, p.MaxLevel())
			err := o.(*rlwe.Evaluator).Automorphism(detCt(p, 1, p.MaxLevel(), 2), f.galEls[1], out)
			return dg(out), err
		}},
		{"Automorphism level 0", func(o interface{}) (string, error) {
			out := rlwe.NewCiphertext(p, 1, 0)
			err := o.(*rlwe.Evaluator).Automorphism(detCt(p, 1, 0, 3), f.galEls[2], out)
			return dg(out), err
		}},
	}
	out = append(out, &subject{name: "rlwe.Evaluator", orig: rlwe.NewEvaluator(p, f.evk), ops: rlweOps, copies: []copyKind{
		{"ShallowCopy", true, false, func(o interface{}) interface{} { return o.(*rlwe.Evaluator).ShallowCopy() }},
		{"WithKey", false, false, func(o interface{}) interface{} { return o.(*rlwe.Evaluator).WithKey(f.evk) }},
		{"ShallowCopy of ShallowCopy", true, false, func(o interface{}) interface{} { return o.(*rlwe.Evaluator).ShallowCopy().ShallowCopy() }},
	}})

	// an evaluator built on a key set that receives its Galois keys afterwards (dynamic key sets are allowed by
	// the EvaluationKeySet interface): shallow copies must still be usable concurrently
	{
		mk := func() interface{} {
			late := rlwe.NewMemEvaluationKeySet(f.evk.RelinearizationKey)
			ev := rlwe.NewEvaluator(p, late)
			for g, k := range f.evk.GaloisKeys {
				late.GaloisKeys[g] = k
			}
			return ev
		}
		out = append(out, &subject{name: "rlwe.Evaluator/keys added after construction", orig: mk(), mkOrig: mk, ops: rlweOps[1:], copies: []copyKind{
			{"ShallowCopy", true, false, func(o interface{}) interface{} { return o.(*rlwe.Evaluator).ShallowCopy() }},
		}})
	}

	// rlwe.Encryptor (secret and public key): randomised -> decrypt and classify
	dec := rlwe.NewDecryptor(p, f.sk)
	encOps := func() []op {
		return []op{{"EncryptNew decrypts", func(o interface{}) (string, error) {
			pt := rlwe.NewPlaintext(p, p.MaxLevel())
			pt.Value.Copy(detPoly(p.RingQ(), 7))
			pt.IsNTT = true
			ct, err := o.(*rlwe.Encryptor).EncryptNew(pt)
			if err != nil {
				return "", err
			}
			d := dec.DecryptNew(ct)
			rq := p.RingQ()
			e := rq.NewPoly()
			rq.Sub(d.Value, pt.Value, e)
			rq.INTT(e, e)
			return fmt.Sprint("noise<=", noiseClass(rq, e)), nil
		}}, {"EncryptZeroNew level 0", func(o interface{}) (string, error) {
			ct := o.(*rlwe.Encryptor).EncryptZeroNew(0)
			d := dec.DecryptNew(ct)
			rq := p.RingQ().AtLevel(0)
			e := rq.NewPoly()
			e.Copy(d.Value)
			if d.IsNTT {
				rq.INTT(e, e)
			}
			return fmt.Sprint("noise<=", noiseClass(rq, e)), nil
		}}}
	}
	for _, k := range []struct {
		n   string
		key rlwe.EncryptionKey
	}{{"sk", f.sk}, {"pk", f.pk}} {
		key := k.key
		out = append(out, &subject{name: "rlwe.Encryptor/" + k.n, orig: rlwe.NewEncryptor(p, key), ops: encOps(), copies: []copyKind{
			{"ShallowCopy", true, false, func(o interface{}) interface{} { return o.(*rlwe.Encryptor).ShallowCopy() }},
			{"WithKey", false, false, func(o interface{}) interface{} { return o.(*rlwe.Encryptor).WithKey(key) }},
			{"WithPRNG", false, false, func(o interface{}) interface{} { return o.(*rlwe.Encryptor).WithPRNG(keyedPRNG()) }},
		}})
	}
	// rebinding randomness: two encryptors bound to generators with the same key produce the same ciphertext
	out = append(out, &subject{name: "rlwe.Encryptor/WithPRNG deterministic", orig: rlwe.NewEncryptor(p, f.sk).WithPRNG(keyedPRNG()), ops: []op{
		{"EncryptZeroNew uniform element", func(o interface{}) (string, error) {
			// the documented scope of WithPRNG: the uniform element c1; each call gets a generator at the start of its stream
			e := o.(*rlwe.Encryptor).WithPRNG(keyedPRNG())
			ct := e.EncryptZeroNew(p.MaxLevel())
			return dg(&ct.Value[1]), nil
		}},
	}, copies: []copyKind{
		{"fresh WithPRNG same key", false, false, func(o interface{}) interface{} { return rlwe.NewEncryptor(p, f.sk).WithPRNG(keyedPRNG()) }},
	}})

	// rlwe.Decryptor
	out = append(out, &subject{name: "rlwe.Decryptor", orig: rlwe.NewDecryptor(p, f.sk), ops: []op{
		{"DecryptNew", func(o interface{}) (string, error) {
			return dg(o.(*rlwe.Decryptor).DecryptNew(detCt(p, 1, p.MaxLevel(), 5))), nil
		}},
		{"DecryptNew degree 2 level 1", func(o interface{}) (string, error) { return dg(o.(*rlwe.Decryptor).DecryptNew(detCt(p, 2, 1, 6))), nil }},
	}, copies: []copyKind{
		{"ShallowCopy", true, false, func(o interface{}) interface{} { return o.(*rlwe.Decryptor).ShallowCopy() }},
		{"WithKey", false, false, func(o interface{}) interface{} { return o.(*rlwe.Decryptor).WithKey(f.sk) }},
	}})

	// ring.BasisExtender
	be := ring.NewBasisExtender(p.RingQ(), p.RingP())
	out = append(out, &subject{name: "ring.BasisExtender", orig: be, ops: []op{
		{"ModUpQtoP", func(o interface{}) (string, error) {
			pp := p.RingP().NewPoly()
			o.(*ring.BasisExtender).ModUpQtoP(p.MaxLevelQ(), p.MaxLevelP(), detPoly(p.RingQ(), 11), pp)
			return dg(pp), nil
		}},
		{"ModDownQPtoQ level 1", func(o interface{}) (string, error) {
			q := p.RingQ().AtLevel(1).NewPoly()
			o.(*ring.BasisExtender).ModDownQPtoQ(1, p.MaxLevelP(), detPoly(p.RingQ().AtLevel(1), 12), detPoly(p.RingP(), 13), q)
			return dg(q), nil
		}},
	}, copies: []copyKind{{"ShallowCopy", true, false, func(o interface{}) interface{} { return o.(*ring.BasisExtender).ShallowCopy() }}}})

	// ring.Ring.AtLevel: views share the tables and are usable concurrently
	out = append(out, &subject{name: "ring.Ring", orig: p.RingQ(), ops: []op{
		{"NTT/MulCoeffsBarrett/INTT level 0", func(o interface{}) (string, error) {
			r := o.(*ring.Ring).AtLevel(0)
			a, b, c := detPoly(r, 21), detPoly(r, 22), r.NewPoly()
			r.NTT(a, a)
			r.NTT(b, b)
			r.MulCoeffsBarrett(a, b, c)
			r.INTT(c, c)
			return dg(c), nil
		}},
	}, copies: []copyKind{{"AtLevel", true, false, func(o interface{}) interface{} { return o.(*ring.Ring).AtLevel(1) }}}})

	// bgv.Evaluator, both modes
	becd := bgv.NewEncoder(f.bp)
	bct := func(seed int) *rlwe.Ciphertext {
		v := make([]uint64, f.bp.MaxSlots())
		for i := range v {
			v[i] = uint64(i*seed+1) % 97
		}
		pt := bgv.NewPlaintext(f.bp, f.bp.MaxLevel())
		tr.Must(becd.Encode(v, pt))
		enc := rlwe.NewEncryptor(f.bp, f.sk).WithPRNG(keyedPRNG())
		ct, err := enc.EncryptNew(pt)
		tr.Must(err)
		return ct
	}
	b1, b2 := bct(3), bct(5)
	for _, si := range []bool{false, true} {
		bops := []op{
			{"AddNew", func(o interface{}) (string, error) { c, err := o.(*bgv.Evaluator).AddNew(b1, b2); return dg(c), err }},
			{"MulRelinNew", func(o interface{}) (string, error) {
				c, err := o.(*bgv.Evaluator).MulRelinNew(b1, b2)
				return dg(c), err
			}},
			{"MulRelinNew+Rescale", func(o interface{}) (string, error) {
				ev := o.(*bgv.Evaluator)
				c, err := ev.MulRelinNew(b1, b2)
				if err != nil {
					return "", err
				}
				err = ev.Rescale(c, c)
				return dg(c), err
			}},
			{"RotateColumnsNew", func(o interface{}) (string, error) {
				c, err := o.(*bgv.Evaluator).RotateColumnsNew(b1, 3)
				return dg(c), err
			}},
			{"Mul by vector", func(o interface{}) (string, error) {
				c, err := o.(*bgv.Evaluator).MulNew(b1, []uint64{1, 2, 3, 4})
				return dg(c), err
			}},
		}
		out = append(out, &subject{name: fmt.Sprintf("bgv.Evaluator/scaleInvariant=%v", si), orig: bgv.NewEvaluator(f.bp, f.evk, si), ops: bops, copies: []copyKind{
			{"ShallowCopy", true, false, func(o interface{}) interface{} { return o.(*bgv.Evaluator).ShallowCopy() }},
			{"WithKey", false, false, func(o interface{}) interface{} { return o.(*bgv.Evaluator).WithKey(f.evk) }},
		}})
	}
	// bgv.Encoder (plaintext ring smaller than N: t = 97 gives 32 slots in a ring of degree 128)
	out = append(out, &subject{name: "bgv.Encoder", orig: becd, ops: []op{
		{"Encode/Decode level 0", func(o interface{}) (string, error) {
			e := o.(*bgv.Encoder)
			v := make([]uint64, f.bp.MaxSlots())
			for i := range v {
				v[i] = uint64(i*11+2) % 97
			}
			pt := bgv.NewPlaintext(f.bp, 0)
			if err := e.Encode(v, pt); err != nil {
				return "", err
			}
			w := make([]uint64, f.bp.MaxSlots())
			err := e.Decode(pt, w)
			return dg(pt, w), err
		}},
		{"Decode top level", func(o interface{}) (string, error) {
			w := make([]int64, f.bp.MaxSlots())
			pt := bgv.NewPlaintext(f.bp, f.bp.MaxLevel())
			pt.Value.Copy(rlwe.NewDecryptor(f.bp, f.sk).DecryptNew(b1).Value)
			err := o.(*bgv.Encoder).Decode(pt, w)
			return dg(fmt.Sprint(w)), err
		}},
	}, copies: []copyKind{{"ShallowCopy", true, false, func(o interface{}) interface{} { return o.(*bgv.Encoder).ShallowCopy() }}}})

	// ckks.Evaluator / Encoder
	cecd := ckks.NewEncoder(f.cp)
	cct := func(seed int) *rlwe.Ciphertext {
		v := make([]complex128, f.cp.MaxSlots())
		for i := range v {
			v[i] = complex(float64((i*seed)%7)/4, float64(i%3)/2)
		}
		pt := ckks.NewPlaintext(f.cp, f.cp.MaxLevel())
		tr.Must(cecd.Encode(v, pt))
		ct, err := rlwe.NewEncryptor(f.cp, f.sk).WithPRNG(keyedPRNG()).EncryptNew(pt)
		tr.Must(err)
		return ct
	}
	c1, c2 := cct(3), cct(5)
	out = append(out, &subject{name: "ckks.Evaluator", orig: ckks.NewEvaluator(f.cp, f.evk), ops: []op{
		{"AddNew", func(o interface{}) (string, error) { c, err := o.(*ckks.Evaluator).AddNew(c1, c2); return dg(c), err }},
		{"MulRelinNew+Rescale", func(o interface{}) (string, error) {
			ev := o.(*ckks.Evaluator)
			c, err := ev.MulRelinNew(c1, c2)
			if err != nil {
				return "", err
			}
			err = ev.Rescale(c, c)
			return dg(c), err
		}},
		{"RotateNew", func(o interface{}) (string, error) { c, err := o.(*ckks.Evaluator).RotateNew(c1, 3); return dg(c), err }},
		{"ConjugateNew", func(o interface{}) (string, error) { c, err := o.(*ckks.Evaluator).ConjugateNew(c1); return dg(c), err }},
		{"Mul by complex", func(o interface{}) (string, error) {
			c, err := o.(*ckks.Evaluator).MulNew(c1, complex(0.5, -1))
			return dg(c), err
		}},
	}, copies: []copyKind{
		{"ShallowCopy", true, false, func(o interface{}) interface{} { return o.(*ckks.Evaluator).ShallowCopy() }},
		{"WithKey", false, false, func(o interface{}) interface{} { return o.(*ckks.Evaluator).WithKey(f.evk) }},
	}})
	for _, prec := range []uint{53, 128} {
		out = append(out, &subject{name: fmt.Sprintf("ckks.Encoder/prec=%d", prec), orig: ckks.NewEncoder(f.cp, prec), ops: []op{
			{"Encode/Decode", func(o interface{}) (string, error) {
				e := o.(*ckks.Encoder)
				v := make([]complex128, f.cp.MaxSlots())
				for i := range v {
					v[i] = complex(float64(i%9)/8, -float64(i%5)/4)
				}
				pt := ckks.NewPlaintext(f.cp, 1)
				if err := e.Encode(v, pt); err != nil {
					return "", err
				}
				w := make([]complex128, f.cp.MaxSlots())
				err := e.Decode(pt, w)
				return dg(pt, w), err
			}},
			{"Encode sparse", func(o interface{}) (string, error) {
				pt := ckks.NewPlaintext(f.cp, 0)
				pt.LogDimensions.Cols = 2
				err := o.(*ckks.Encoder).Encode([]float64{1, -2, 0.5, 3}, pt)
				return dg(pt), err
			}},
			// values that need the whole working precision, at a scale of 2^100, after float64 input has gone through
			// the same buffers: the plaintext depends on every bit the encoder keeps
			{"Encode high-precision values at scale 2^100", func(o interface{}) (string, error) {
				e := o.(*ckks.Encoder)
				n := f.cp.MaxSlots()
				v := make([]*bignum.Complex, n)
				for i := range v {
					re := new(big.Float).SetPrec(128).Quo(big.NewFloat(1).SetPrec(128), new(big.Float).SetPrec(128).SetInt64(int64(2*i+3)))
					im := new(big.Float).SetPrec(128).Quo(big.NewFloat(-1).SetPrec(128), new(big.Float).SetPrec(128).SetInt64(int64(2*i+7)))
					v[i] = &bignum.Complex{re, im}
				}
				pt := ckks.NewPlaintext(f.cp, f.cp.MaxLevel())
				pt.Scale = rlwe.NewScale(new(big.Float).SetPrec(128).SetMantExp(big.NewFloat(1), 100))
				err := e.Encode(v, pt)
				return dg(pt), err
			}},
		}, copies: []copyKind{{"ShallowCopy", true, false, func(o interface{}) interface{} { return o.(*ckks.Encoder).ShallowCopy() }}}})
	}

	// rgsw.Evaluator
	rct := rgsw.NewCiphertext(p, p.MaxLevelQ(), p.MaxLevelP(), 0)
	{
		pt := rlwe.NewPlaintext(p, p.MaxLevel())
		pt.Value.Coeffs[0][1] = 1
		for i := 1; i <= p.MaxLevel(); i++ {
			pt.Value.Coeffs[i][1] = 1
		}
		p.RingQ().NTT(pt.Value, pt.Value)
		pt.IsNTT = true
		tr.Must(rgsw.NewEncryptor(p, f.sk).Encrypt(pt, rct))
	}
	out = append(out, &subject{name: "rgsw.Evaluator", orig: rgsw.NewEvaluator(p, f.evk), ops: []op{
		{"ExternalProduct", func(o interface{}) (string, error) {
			res := rlwe.NewCiphertext(p, 1, p.MaxLevel())
			o.(*rgsw.Evaluator).ExternalProduct(detCt(p, 1, p.MaxLevel(), 31), rct, res)
			return dg(res), nil
		}},
		{"ExternalProduct level 0", func(o interface{}) (string, error) {
			res := rlwe.NewCiphertext(p, 1, 0)
			o.(*rgsw.Evaluator).ExternalProduct(detCt(p, 1, 0, 32), rct, res)
			return dg(res), nil
		}},
	}, copies: []copyKind{
		{"ShallowCopy", true, false, func(o interface{}) interface{} { return o.(*rgsw.Evaluator).ShallowCopy() }},
		{"WithKey", false, false, func(o interface{}) interface{} { return o.(*rgsw.Evaluator).WithKey(f.evk) }},
	}})

	// level views of the samplers: a view samples from the same distribution as its receiver
	{
		rq := p.RingQ()
		class := func(o interface{}) (string, error) {
			pol := o.(ring.Sampler).ReadNew()
			lvl := pol.Level()
			q := rq.SubRings[0].Modulus
			nnz, small, maxAbs := 0, true, uint64(0)
			for j, c := range pol.Coeffs[0] {
				a := c
				if a > q/2 {
					a = q - a
				}
				if a != 0 {
					nnz++
				}
				if a > maxAbs {
					maxAbs = a
				}
				// the same integer on every modulus of the view
				for i := 1; i <= lvl; i++ {
					qi := rq.SubRings[i].Modulus
					ci := pol.Coeffs[i][j]
					if c > q/2 {
						small = small && qi-ci == q-c
					} else {
						small = small && ci == c
					}
				}
			}
			cls := "wide"
			switch {
			case maxAbs <= 1:
				cls = "ternary"
			case maxAbs <= 64:
				cls = "narrow"
			}
			w := "dense"
			if nnz == 32 {
				w = "weight32"
			} else if nnz < rq.N()/8 {
				w = "sparse"
			}
			return fmt.Sprintf("%s/%s/consistent=%v", cls, w, small || cls == "wide"), nil
		}
		for _, sd := range []struct {
			n string
			d ring.DistributionParameters
		}{{"Ternary{H:32}", ring.Ternary{H: 32}}, {"Ternary{P:0.5}", ring.Ternary{P: 0.5}}, {"DiscreteGaussian", ring.DiscreteGaussian{Sigma: 3.2, Bound: 19.2}}, {"Uniform", ring.Uniform{}}} {
			sm, err := ring.NewSampler(keyedPRNG(), rq, sd.d, false)
			tr.Must(err)
			out = append(out, &subject{name: "ring.Sampler/" + sd.n, orig: sm, ops: []op{{"ReadNew class", class}}, copies: []copyKind{
				{"AtLevel(max)", false, false, func(o interface{}) interface{} { return o.(ring.Sampler).AtLevel(rq.Level()) }},
				{"AtLevel(0)", false, false, func(o interface{}) interface{} { return o.(ring.Sampler).AtLevel(0) }},
				{"AtLevel(1).AtLevel(0)", false, false, func(o interface{}) interface{} { return o.(ring.Sampler).AtLevel(1).AtLevel(0) }},
			}})
		}
	}

	// rgsw.Encryptor: an RGSW encryption of X by the copy must act like one by the original (external product, noise class)
	out = append(out, &subject{name: "rgsw.Encryptor", orig: rgsw.NewEncryptor(p, f.sk), ops: []op{
		{"Encrypt X, external product, noise class", func(o interface{}) (string, error) {
			g := rgsw.NewCiphertext(p, p.MaxLevelQ(), p.MaxLevelP(), 0)
			gpt := rlwe.NewPlaintext(p, p.MaxLevel())
			for i := 0; i <= p.MaxLevel(); i++ {
				gpt.Value.Coeffs[i][1] = 1
			}
			p.RingQ().NTT(gpt.Value, gpt.Value)
			gpt.IsNTT = true
			if err := o.(*rgsw.Encryptor).Encrypt(gpt, g); err != nil {
				return "", err
			}
			// m * X for a fixed m, decrypted: the error class of (m*X)_dec - m*X
			m := rlwe.NewPlaintext(p, p.MaxLevel())
			rq := p.RingQ()
			for i := 0; i <= p.MaxLevel(); i++ {
				for j := 0; j < 8; j++ {
					m.Value.Coeffs[i][j] = uint64(j+1) << 20
				}
			}
			want := rq.NewPoly()
			rq.MultByMonomial(m.Value, 1, want)
			rq.NTT(m.Value, m.Value)
			m.IsNTT = true
			ct, err := rlwe.NewEncryptor(p, f.sk).WithPRNG(keyedPRNG()).EncryptNew(m)
			if err != nil {
				return "", err
			}
			res := rlwe.NewCiphertext(p, 1, p.MaxLevel())
			rgsw.NewEvaluator(p, nil).ExternalProduct(ct, g, res)
			d := rlwe.NewDecryptor(p, f.sk).DecryptNew(res)
			e := rq.NewPoly()
			rq.INTT(d.Value, e)
			rq.Sub(e, want, e)
			return fmt.Sprint("noise<=", noiseClass(rq, e)), nil
		}},
	}, copies: []copyKind{
		{"ShallowCopy", true, false, func(o interface{}) interface{} { return o.(*rgsw.Encryptor).ShallowCopy() }},
	}})

	// rlwe.RingPackingEvaluator: Split / Merge and Extract / Repack are deterministic given the keys
	{
		rp, err := rlwe.NewParametersFromLiteral(rlwe.ParametersLiteral{LogN: 6, LogQ: []int{60}, LogP: []int{60}, NTTFlag: true})
		tr.Must(err)
		rsk := rlwe.NewKeyGenerator(rp).GenSecretKeyNew()
		lq, lp := rp.MaxLevelQ(), rp.MaxLevelP()
		ekp := rlwe.EvaluationKeyParameters{LevelQ: &lq, LevelP: &lp}
		rpk := &rlwe.RingPackingEvaluationKey{}
		ski, err := rpk.GenRingSwitchingKeys(rp, rsk, 4, ekp)
		tr.Must(err)
		rpk.GenRepackEvaluationKeys(rpk.Parameters[4], ski[4], ekp)
		rpk.GenRepackEvaluationKeys(rpk.Parameters[6], ski[6], ekp)
		rpk.GenExtractEvaluationKeys(rpk.Parameters[4], ski[4], ekp)
		out = append(out, &subject{name: "rlwe.RingPackingEvaluator", orig: rlwe.NewRingPackingEvaluator(rpk), ops: []op{
			{"Split then Merge", func(o interface{}) (string, error) {
				ev := o.(*rlwe.RingPackingEvaluator)
				a, b, err := ev.SplitNew(detCt(rp, 1, rp.MaxLevel(), 41))
				if err != nil {
					return "", err
				}
				c, err := ev.MergeNew(a, b)
				if err != nil {
					return "", err
				}
				return dg(a, b, c), nil
			}},
			{"Extract then Repack", func(o interface{}) (string, error) {
				ev := o.(*rlwe.RingPackingEvaluator)
				m, err := ev.Extract(detCt(rp, 1, rp.MaxLevel(), 42), map[int]bool{0: true, 3: true, 5: true})
				if err != nil {
					return "", err
				}
				c, err := ev.Repack(m)
				if err != nil {
					return "", err
				}
				return dg(c), nil
			}},
		}, copies: []copyKind{
			{"ShallowCopy", true, false, func(o interface{}) interface{} { return o.(*rlwe.RingPackingEvaluator).ShallowCopy() }},
		}})
	}

	// bootstrapping.Evaluator: residual ring of half the degree (ring switching, packing of sparse ciphertexts)
	{
		res, err := ckks.NewParametersFromLiteral(ckks.ParametersLiteral{LogN: 9, LogNthRoot: 11, LogQ: []int{60, 40}, LogP: []int{61}, LogDefaultScale: 40})
		tr.Must(err)
		ln, mr := 10, bootstrapping.DefaultLogMessageRatio+16-9
		bp, err := bootstrapping.NewParametersFromLiteral(res, bootstrapping.ParametersLiteral{LogN: &ln, LogMessageRatio: &mr})
		tr.Must(err)
		bsk := rlwe.NewKeyGenerator(res).GenSecretKeyNew()
		keys, _, err := bp.GenEvaluationKeys(bsk)
		tr.Must(err)
		bev, err := bootstrapping.NewEvaluator(bp, keys)
		tr.Must(err)
		becd := ckks.NewEncoder(res)
		mkct := func(logSlots, seed int) *rlwe.Ciphertext {
			v := make([]complex128, 1<<logSlots)
			for i := range v {
				v[i] = complex(float64((i*seed)%9)/8-0.5, float64(i%5)/8)
			}
			pt := ckks.NewPlaintext(res, 0)
			pt.LogDimensions = ring.Dimensions{Rows: 0, Cols: logSlots}
			tr.Must(becd.Encode(v, pt))
			ct, err := rlwe.NewEncryptor(res, bsk).WithPRNG(keyedPRNG()).EncryptNew(pt)
			tr.Must(err)
			return ct
		}
		full, s1, s2 := mkct(res.LogMaxSlots(), 3), mkct(res.LogMaxSlots()-2, 5), mkct(res.LogMaxSlots()-2, 7)
		out = append(out, &subject{name: "bootstrapping.Evaluator/ring switching", orig: bev, heavy: true, ops: []op{
			{"Bootstrap", func(o interface{}) (string, error) {
				c, err := o.(*bootstrapping.Evaluator).Bootstrap(full.CopyNew())
				return dg(c), err
			}},
			{"BootstrapMany 2 sparse", func(o interface{}) (string, error) {
				cs, err := o.(*bootstrapping.Evaluator).BootstrapMany([]rlwe.Ciphertext{*s1.CopyNew(), *s2.CopyNew()})
				if err != nil {
					return "", err
				}
				return dg(&cs[0], &cs[1]), nil
			}},
		}, copies: []copyKind{{"ShallowCopy", true, false, func(o interface{}) interface{} { return o.(*bootstrapping.Evaluator).ShallowCopy() }}}})
	}
	// bootstrapping.Evaluator with conjugate-invariant residual parameters (the copy rebuilds its domain switcher)
	{
		res, err := ckks.NewParametersFromLiteral(ckks.ParametersLiteral{LogN: 9, LogNthRoot: 11, LogQ: []int{60, 40}, LogP: []int{61}, LogDefaultScale: 40, RingType: ring.ConjugateInvariant})
		tr.Must(err)
		ln, mr := 10, bootstrapping.DefaultLogMessageRatio+16-9
		bp, err := bootstrapping.NewParametersFromLiteral(res, bootstrapping.ParametersLiteral{LogN: &ln, LogMessageRatio: &mr})
		tr.Must(err)
		bsk := rlwe.NewKeyGenerator(res).GenSecretKeyNew()
		keys, _, err := bp.GenEvaluationKeys(bsk)
		tr.Must(err)
		bev, err := bootstrapping.NewEvaluator(bp, keys)
		tr.Must(err)
		becd := ckks.NewEncoder(res)
		mkct := func(seed int) *rlwe.Ciphertext {
			v := make([]float64, res.MaxSlots())
			for i := range v {
				v[i] = float64((i*seed)%9)/8 - 0.5
			}
			pt := ckks.NewPlaintext(res, 0)
			tr.Must(becd.Encode(v, pt))
			ct, err := rlwe.NewEncryptor(res, bsk).WithPRNG(keyedPRNG()).EncryptNew(pt)
			tr.Must(err)
			return ct
		}
		l, r := mkct(3), mkct(5)
		out = append(out, &subject{name: "bootstrapping.Evaluator/conjugate invariant", orig: bev, heavy: true, ops: []op{
			{"EvaluateConjugateInvariant pair", func(o interface{}) (string, error) {
				a, b, err := o.(*bootstrapping.Evaluator).EvaluateConjugateInvariant(l.CopyNew(), r.CopyNew())
				if err != nil {
					return "", err
				}
				return dg(a, b), nil
			}},
			{"EvaluateConjugateInvariant single", func(o interface{}) (string, error) {
				a, _, err := o.(*bootstrapping.Evaluator).EvaluateConjugateInvariant(l.CopyNew(), nil)
				return dg(a), err
			}},
		}, copies: []copyKind{{"ShallowCopy", true, false, func(o interface{}) interface{} { return o.(*bootstrapping.Evaluator).ShallowCopy() }}}})
	}
	// rlwe.MemEvaluationKeySet.ShallowCopy
	out = append(out, &subject{name: "rlwe.MemEvaluationKeySet", orig: f.evk, ops: []op{
		{"GetGaloisKey", func(o interface{}) (string, error) {
			k, err := o.(rlwe.EvaluationKeySet).GetGaloisKey(f.galEls[1])
			return dg(k), err
		}},
		{"GetRelinearizationKey", func(o interface{}) (string, error) {
			k, err := o.(rlwe.EvaluationKeySet).GetRelinearizationKey()
			return dg(k), err
		}},
		{"GetGaloisKeysList", func(o interface{}) (string, error) {
			l := o.(rlwe.EvaluationKeySet).GetGaloisKeysList()
			sortU(l)
			return fmt.Sprint(l), nil
		}},
	}, copies: []copyKind{{"ShallowCopy", true, false, func(o interface{}) interface{} { return o.(*rlwe.MemEvaluationKeySet).ShallowCopy() }}}})

	// deep copies
	deepOps := func() []op {
		return []op{{"bytes", func(o interface{}) (string, error) { return dg(o), nil }}}
	}
	ct := detCt(p, 1, p.MaxLevel(), 41)
	pt := rlwe.NewPlaintext(p, 1)
	pt.Value.Copy(detPoly(p.RingQ().AtLevel(1), 42))
	kg := rlwe.NewKeyGenerator(p)
	gk := kg.GenGaloisKeyNew(f.galEls[0], f.sk)
	rlk := kg.GenRelinearizationKeyNew(f.sk)
	// keys with a base-two decomposition carry it in a header field of their own
	baseTwo := 8
	gk2 := kg.GenGaloisKeyNew(f.galEls[0], f.sk, rlwe.EvaluationKeyParameters{BaseTwoDecomposition: &baseTwo})
	rlk2 := kg.GenRelinearizationKeyNew(f.sk, rlwe.EvaluationKeyParameters{BaseTwoDecomposition: &baseTwo})
	evk2 := kg.GenEvaluationKeyNew(f.sk, f.sk, rlwe.EvaluationKeyParameters{BaseTwoDecomposition: &baseTwo})
	poly := detPoly(p.RingQ(), 43)
	out = append(out,
		&subject{name: "rlwe.Ciphertext", orig: ct, ops: deepOps(), copies: []copyKind{{"CopyNew", false, true, func(o interface{}) interface{} { return o.(*rlwe.Ciphertext).CopyNew() }}}},
		&subject{name: "rlwe.Plaintext", orig: pt, ops: deepOps(), copies: []copyKind{{"CopyNew", false, true, func(o interface{}) interface{} { return o.(*rlwe.Plaintext).CopyNew() }}}},
		&subject{name: "rlwe.SecretKey", orig: f.sk.CopyNew(), ops: deepOps(), copies: []copyKind{{"CopyNew", false, true, func(o interface{}) interface{} { return o.(*rlwe.SecretKey).CopyNew() }}}},
		&subject{name: "rlwe.PublicKey", orig: f.pk.CopyNew(), ops: deepOps(), copies: []copyKind{{"CopyNew", false, true, func(o interface{}) interface{} { return o.(*rlwe.PublicKey).CopyNew() }}}},
		&subject{name: "rlwe.GaloisKey", orig: gk, ops: deepOps(), copies: []copyKind{{"CopyNew", false, true, func(o interface{}) interface{} { return o.(*rlwe.GaloisKey).CopyNew() }}}},
		&subject{name: "rlwe.GaloisKey/base2", orig: gk2, ops: deepOps(), copies: []copyKind{{"CopyNew", false, true, func(o interface{}) interface{} { return o.(*rlwe.GaloisKey).CopyNew() }}}},
		&subject{name: "rlwe.RelinearizationKey/base2", orig: rlk2, ops: deepOps(), copies: []copyKind{{"CopyNew", false, true, func(o interface{}) interface{} { return o.(*rlwe.RelinearizationKey).CopyNew() }}}},
		&subject{name: "rlwe.EvaluationKey/base2", orig: evk2, ops: deepOps(), copies: []copyKind{{"CopyNew", false, true, func(o interface{}) interface{} { return o.(*rlwe.EvaluationKey).CopyNew() }}}},
		&subject{name: "rlwe.RelinearizationKey", orig: rlk, ops: deepOps(), copies: []copyKind{{"CopyNew", false, true, func(o interface{}) interface{} { return o.(*rlwe.RelinearizationKey).CopyNew() }}}},
		&subject{name: "rgsw.Ciphertext (GadgetCiphertext)", orig: &rct.Value[0], ops: deepOps(), copies: []copyKind{{"CopyNew", false, true, func(o interface{}) interface{} { return o.(*rlwe.GadgetCiphertext).CopyNew() }}}},
		&subject{name: "ring.Poly", orig: &poly, ops: deepOps(), copies: []copyKind{{"CopyNew", false, true, func(o interface{}) interface{} { return o.(*ring.Poly).CopyNew() }}}},
	)
	return out
}

func sortU(l []uint64) { sort.Slice(l, func(i, j int) bool { return l[i] < l[j] }) }

func noiseClass(rq *ring.Ring, e ring.Poly) int {
	m := 0
	for i := 0; i < rq.N(); i++ {
		v := e.Coeffs[0][i]
		q := rq.SubRings[0].Modulus
		if v > q/2 {
			v = q - v
		}
		b := 0
		for v > 0 {
			b++
			v >>= 1
		}
		if b > m {
			m = b
		}
	}
	// classes: a fresh encryption has an error of at most ~12 bits (pk: N * bound)
	switch {
	case m <= 16:
		return 16
	case m <= 30:
		return 30
	}
	return 64
}

// ------------------------------------------------------------------------------------------------ schedules

type gsched struct {
	Kind string `json:"kind"`
	Ops  []int  `json:"ops"`
}

// runSchedule: goroutine g uses its own object (the original for kind "orig", at most one; else a shallow copy)
// and performs its operation sequence; results must equal those of the same sequences run one after the other.
func runSchedule(s *subject, sc []gsched) (seqEqual bool, detail string) {
	var sh *copyKind
	for i := range s.copies {
		if s.copies[i].concurrent {
			sh = &s.copies[i]
			break
		}
	}
	if sh == nil {
		return true, "no concurrent copy"
	}
	build := func() []interface{} {
		orig := s.orig
		if s.mkOrig != nil {
			orig = s.mkOrig()
		}
		objs := make([]interface{}, len(sc))
		origUsed := false
		for g := range sc {
			if sc[g].Kind == "orig" && !origUsed {
				objs[g] = orig
				origUsed = true
			} else {
				objs[g] = sh.mk(orig)
			}
		}
		return objs
	}
	objs := build()
	seq := make([][]string, len(sc))
	for g := range sc {
		for _, k := range sc[g].Ops {
			r, _, _ := runOp(s.ops[(k-1)%len(s.ops)], objs[g])
			seq[g] = append(seq[g], r)
		}
	}
	if s.mkOrig != nil {
		objs = build() // the parallel phase starts from objects nobody has used yet
	}
	par := make([][]string, len(sc))
	var wg sync.WaitGroup
	start := make(chan struct{})
	for g := range sc {
		wg.Add(1)
		go func(g int) {
			defer wg.Done()
			<-start
			for _, k := range sc[g].Ops {
				r, _, _ := runOp(s.ops[(k-1)%len(s.ops)], objs[g])
				par[g] = append(par[g], r)
			}
		}(g)
	}
	close(start)
	wg.Wait()
	seqEqual = true
	for g := range sc {
		for i := range seq[g] {
			if seq[g][i] != par[g][i] {
				seqEqual = false
				detail = fmt.Sprintf("goroutine %d op %d: %s vs %s", g, i, seq[g][i], par[g][i])
			}
		}
	}
	return
}

func Main(args []string) int {
	fs := flag.NewFlagSet("c10", flag.ExitOnError)
	mode := fs.String("mode", "copy", "copy | sched")
	trace := fs.String("trace", "", "trace output")
	scheds := fs.String("scheds", "", "schedules (ndjson)")
	seed := fs.Uint64("seed", 1, "seed")
	only := fs.String("subject", "", "restrict to subjects containing this string")
	fs.Parse(args[1:])
	tr.Seed(*seed)
	w := tr.NewWriter(*trace)
	prog := 0
	subs := subjects()
	switch *mode {
	case "copy":
		for _, s := range subs {
			if *only != "" && !strings.Contains(s.name, *only) {
				continue
			}
			for _, ck := range s.copies {
				prog++
				e := probe(s, ck)
				e.Prog = prog
				w.Emit(e)
			}
		}
		// multiparty protocols: party 1 uses the original, party 2 a shallow copy
		for _, pe := range c16.CopyProbe() {
			prog++
			e := event{Ev: "copy", Prog: prog, Subject: pe.Subject, Kind: "ShallowCopy", Concurrent: true, Ops: []opRes{}, Written: []string{}, OrigIntact: true, OrigGraph: true, Panic: pe.Panic, Msg: pe.Msg}
			for _, o := range pe.Ops {
				e.Ops = append(e.Ops, opRes{Op: o.Op, Eq: o.Eq, Again: true, Msg: o.Msg})
			}
			w.Emit(e)
		}
	case "sched":
		f, err := os.Open(*scheds)
		tr.Must(err)
		sc := bufio.NewScanner(f)
		sc.Buffer(make([]byte, 1<<20), 1<<24)
		var all [][]gsched
		for sc.Scan() {
			var s []gsched
			tr.Must(json.Unmarshal(sc.Bytes(), &s))
			all = append(all, s)
		}
		k := 0
		for _, s := range subs {
			if *only != "" && !strings.Contains(s.name, *only) {
				continue
			}
			conc := false
			for _, ck := range s.copies {
				conc = conc || ck.concurrent
			}
			if !conc {
				continue
			}
			done := 0
			for _, sch := range all {
				if s.heavy && (len(sch) > 2 || done >= 2) {
					continue
				}
				done++
				prog++
				k++
				fmt.Fprintf(os.Stderr, "SCHED-BEGIN %d\n", prog)
				e := event{Ev: "sched", Prog: prog, Subject: s.name, G: len(sch), Ops: []opRes{}, Written: []string{}}
				b, _ := json.Marshal(sch)
				e.Sched = string(b)
				func() {
					defer func() {
						if r := recover(); r != nil {
							e.Panic, e.Msg = true, fmt.Sprint(r)
						}
					}()
					e.SeqEqual, e.Msg = runSchedule(s, sch)
				}()
				fmt.Fprintf(os.Stderr, "SCHED-END %d\n", prog)
				w.Emit(e)
			}
		}
	}
	w.Close()
	(&tr.Result{Events: w.N, Cases: prog}).Print()
	return 0
}
