// Package c14 replays aggregation schedules generated from spec/MPKeyGenGen.tla on the real
// multiparty key-generation protocols and records the outcome for validation by
// spec/MPKeyGenTrace.tla.
package c14

import (
	"bufio"
	"bytes"
	"crypto/sha256"
	"encoding/hex"
	"encoding/json"
	"flag"
	"fmt"
	"io"
	"math/big"
	"os"

	"github.com/tuneinsight/lattigo/v6/core/rlwe"
	"github.com/tuneinsight/lattigo/v6/multiparty"
	"github.com/tuneinsight/lattigo/v6/ring"
	"github.com/tuneinsight/lattigo/v6/schemes/bgv"
	"github.com/tuneinsight/lattigo/v6/utils/sampling"

	"verif/harness/internal/tr"
)

type event struct {
	Ev    string `json:"ev"`
	Prog  int    `json:"prog"`
	Fork  int    `json:"fork"`
	Proto string `json:"proto,omitempty"`
	Cfg   string `json:"cfg,omitempty"`
	Party int    `json:"party,omitempty"`
	Id    int    `json:"id,omitempty"`
	A     int    `json:"a,omitempty"`
	B     int    `json:"b,omitempty"`
	Out   int    `json:"out,omitempty"`
	Tag   string `json:"tag,omitempty"`
	Dig   string `json:"dig"`
	Err   bool   `json:"err"`
	Panic bool   `json:"panic"`
	Works bool   `json:"works"`
	Noise int    `json:"noise"`
	Bound int    `json:"bound"`
	Same  bool   `json:"same"`
	Msg   string `json:"msg,omitempty"`
}

type step struct {
	Ev    string `json:"ev"`
	Party int    `json:"party"`
	Id    int    `json:"id"`
	A     int    `json:"a"`
	B     int    `json:"b"`
	Out   int    `json:"out"`
}

type wobj interface {
	io.WriterTo
	io.ReaderFrom
	MarshalBinary() ([]byte, error)
}

func digest(o wobj) string {
	b, err := o.MarshalBinary()
	if err != nil {
		return "ERR:" + err.Error()
	}
	h := sha256.Sum256(b)
	return hex.EncodeToString(h[:8])
}

// cfg is one key parameterisation on one parameter set.
type cfg struct {
	name string
	lit  bgv.ParametersLiteral
	evkp func(p rlwe.Parameters) []rlwe.EvaluationKeyParameters
}

func ip(x int) *int { return &x }

var cfgs = []cfg{
	{"equal-primes-default", bgv.ParametersLiteral{LogN: 9, LogQ: []int{45, 40, 40}, LogP: []int{45}, PlaintextModulus: 97}, func(p rlwe.Parameters) []rlwe.EvaluationKeyParameters { return nil }},
	{"lower-levelQ", bgv.ParametersLiteral{LogN: 9, LogQ: []int{45, 40, 40}, LogP: []int{45}, PlaintextModulus: 97}, func(p rlwe.Parameters) []rlwe.EvaluationKeyParameters {
		return []rlwe.EvaluationKeyParameters{{LevelQ: ip(1), LevelP: ip(0), BaseTwoDecomposition: ip(0)}}
	}},
	{"two-P", bgv.ParametersLiteral{LogN: 9, LogQ: []int{45, 40, 40, 40}, LogP: []int{45, 45}, PlaintextModulus: 97}, func(p rlwe.Parameters) []rlwe.EvaluationKeyParameters { return nil }},
	{"two-P-lower-levelP", bgv.ParametersLiteral{LogN: 9, LogQ: []int{45, 40, 40, 40}, LogP: []int{45, 45}, PlaintextModulus: 97}, func(p rlwe.Parameters) []rlwe.EvaluationKeyParameters {
		return []rlwe.EvaluationKeyParameters{{LevelP: ip(0)}}
	}},
	{"two-P-lower-levelQ-levelP", bgv.ParametersLiteral{LogN: 9, LogQ: []int{45, 40, 40, 40}, LogP: []int{45, 45}, PlaintextModulus: 97}, func(p rlwe.Parameters) []rlwe.EvaluationKeyParameters {
		return []rlwe.EvaluationKeyParameters{{LevelQ: ip(2), LevelP: ip(0)}}
	}},
	{"base2-equal-digits", bgv.ParametersLiteral{LogN: 9, LogQ: []int{48, 36, 36}, LogP: []int{50}, PlaintextModulus: 97}, func(p rlwe.Parameters) []rlwe.EvaluationKeyParameters {
		return []rlwe.EvaluationKeyParameters{{BaseTwoDecomposition: ip(12)}}
	}},
	{"base2-unequal-digits-big-first", bgv.ParametersLiteral{LogN: 9, LogQ: []int{55, 30, 30}, LogP: []int{56}, PlaintextModulus: 97}, func(p rlwe.Parameters) []rlwe.EvaluationKeyParameters {
		return []rlwe.EvaluationKeyParameters{{BaseTwoDecomposition: ip(12)}}
	}},
	{"base2-unequal-digits-big-middle", bgv.ParametersLiteral{LogN: 9, LogQ: []int{35, 45, 35}, LogP: []int{46}, PlaintextModulus: 97}, func(p rlwe.Parameters) []rlwe.EvaluationKeyParameters {
		return []rlwe.EvaluationKeyParameters{{BaseTwoDecomposition: ip(12)}}
	}},
	{"noP-base2", bgv.ParametersLiteral{LogN: 9, LogQ: []int{40, 35, 35}, PlaintextModulus: 97}, func(p rlwe.Parameters) []rlwe.EvaluationKeyParameters {
		return []rlwe.EvaluationKeyParameters{{BaseTwoDecomposition: ip(10)}}
	}},
}

type run struct {
	c      cfg
	bp     bgv.Parameters
	p      rlwe.Parameters
	n      int
	sks    []*rlwe.SecretKey
	skOut  []*rlwe.SecretKey // evk: target shares
	ideal  *rlwe.SecretKey
	idealO *rlwe.SecretKey
	evkp   []rlwe.EvaluationKeyParameters
	ecd    *bgv.Encoder
}

func sumKeys(p rlwe.Parameters, sks []*rlwe.SecretKey) *rlwe.SecretKey {
	out := rlwe.NewSecretKey(p)
	rqp := p.RingQP()
	for _, s := range sks {
		rqp.Add(out.Value, s.Value, out.Value)
	}
	return out
}

func newRun(c cfg, n int) *run {
	bp, err := bgv.NewParametersFromLiteral(c.lit)
	tr.Must(err)
	r := &run{c: c, bp: bp, p: bp.Parameters, n: n}
	kg := rlwe.NewKeyGenerator(r.p)
	for i := 0; i < n; i++ {
		r.sks = append(r.sks, kg.GenSecretKeyNew())
		r.skOut = append(r.skOut, kg.GenSecretKeyNew())
	}
	r.ideal = sumKeys(r.p, r.sks)
	r.idealO = sumKeys(r.p, r.skOut)
	r.evkp = c.evkp(r.p)
	r.ecd = bgv.NewEncoder(bp)
	return r
}

// proto abstracts one protocol instance bound to a run: share objects are kept by id.
type proto struct {
	name     string
	tag      string
	gen      func(i int) wobj
	alloc    func() wobj
	agg      func(a, b, out wobj) error
	finalize func(s wobj) (works bool, noise int, err error)
	baseline func() (noise int) // the same functional test with a single-party key of the ideal secret
	mismatch func() []wobj      // shares whose tags differ from the regular ones (must not aggregate)
}

// noise of a BGV ciphertext w.r.t. the expected values, in bits (see c05)
func (r *run) decryptCheck(ct *rlwe.Ciphertext, sk *rlwe.SecretKey, want []uint64) (ok bool, noise int) {
	dec := rlwe.NewDecryptor(r.bp, sk)
	pt := dec.DecryptNew(ct)
	have := make([]uint64, r.bp.MaxSlots())
	if err := r.ecd.Decode(pt, have); err != nil {
		return false, 999
	}
	ok = true
	for i := range want {
		if have[i] != want[i] {
			ok = false
		}
	}
	// noise: re-encode what was decoded and subtract
	pt2 := bgv.NewPlaintext(r.bp, pt.Level())
	pt2.MetaData = pt.MetaData.CopyNew()
	tr.Must(r.ecd.Encode(have, pt2))
	rq := r.bp.RingQ().AtLevel(pt.Level())
	d := rq.NewPoly()
	rq.Sub(pt.Value, pt2.Value, d)
	rq.INTT(d, d)
	rq.MulScalar(d, r.bp.PlaintextModulus(), d)
	cs := make([]*big.Int, rq.N())
	for i := range cs {
		cs[i] = new(big.Int)
	}
	rq.PolyToBigintCentered(d, 1, cs)
	for _, c := range cs {
		if b := c.BitLen(); b > noise {
			noise = b
		}
	}
	return
}

func (r *run) testVector(seed int) []uint64 {
	v := make([]uint64, r.bp.MaxSlots())
	t := r.bp.PlaintextModulus()
	for i := range v {
		v[i] = uint64((i*7 + seed*13 + 1) % int(t))
	}
	return v
}

func (r *run) encrypt(sk *rlwe.SecretKey, v []uint64) *rlwe.Ciphertext {
	pt := bgv.NewPlaintext(r.bp, r.bp.MaxLevel())
	tr.Must(r.ecd.Encode(v, pt))
	ct, err := rlwe.NewEncryptor(r.bp, sk).EncryptNew(pt)
	tr.Must(err)
	return ct
}

func (r *run) protoCPK() *proto {
	pr := multiparty.NewPublicKeyGenProtocol(r.p)
	crs, _ := sampling.NewKeyedPRNG([]byte("crs-cpk"))
	crp := pr.SampleCRP(crs)
	use := func(pk *rlwe.PublicKey) (bool, int, error) {
		v := r.testVector(1)
		pt := bgv.NewPlaintext(r.bp, r.bp.MaxLevel())
		tr.Must(r.ecd.Encode(v, pt))
		ct, err := rlwe.NewEncryptor(r.bp, pk).EncryptNew(pt)
		if err != nil {
			return false, 0, err
		}
		ok, noise := r.decryptCheck(ct, r.ideal, v)
		return ok, noise, nil
	}
	return &proto{name: "cpk", tag: "cpk",
		gen:   func(i int) wobj { s := pr.AllocateShare(); pr.GenShare(r.sks[i], crp, &s); return &s },
		alloc: func() wobj { s := pr.AllocateShare(); return &s },
		agg: func(a, b, out wobj) error {
			pr.AggregateShares(*a.(*multiparty.PublicKeyGenShare), *b.(*multiparty.PublicKeyGenShare), out.(*multiparty.PublicKeyGenShare))
			return nil
		},
		finalize: func(s wobj) (bool, int, error) {
			pk := rlwe.NewPublicKey(r.p)
			pr.GenPublicKey(*s.(*multiparty.PublicKeyGenShare), crp, pk)
			// the accumulator goes on being written (a late share, the next party count): the key handed out must not change
			pr.AggregateShares(*s.(*multiparty.PublicKeyGenShare), *s.(*multiparty.PublicKeyGenShare), s.(*multiparty.PublicKeyGenShare))
			return use(pk)
		},
		baseline: func() int {
			_, n, _ := use(rlwe.NewKeyGenerator(r.p).GenPublicKeyNew(r.ideal))
			return n
		},
	}
}

func (r *run) protoEVK() *proto {
	pr := multiparty.NewEvaluationKeyGenProtocol(r.p)
	crs, _ := sampling.NewKeyedPRNG([]byte("crs-evk"))
	crp := pr.SampleCRP(crs, r.evkp...)
	use := func(evk *rlwe.EvaluationKey) (bool, int, error) {
		v := r.testVector(2)
		ct := r.encrypt(r.ideal, v)
		lvl := evk.LevelQ()
		if ct.Level() > lvl {
			ct.Resize(ct.Degree(), lvl)
		}
		out := bgv.NewCiphertext(r.bp, 1, ct.Level())
		if err := rlwe.NewEvaluator(r.p, nil).ApplyEvaluationKey(ct, evk, out); err != nil {
			return false, 0, err
		}
		ok, noise := r.decryptCheck(out, r.idealO, v)
		return ok, noise, nil
	}
	p := &proto{name: "evk", tag: "evk",
		gen: func(i int) wobj {
			s := pr.AllocateShare(r.evkp...)
			tr.Must(pr.GenShare(r.sks[i], r.skOut[i], crp, &s))
			return &s
		},
		alloc: func() wobj { s := pr.AllocateShare(r.evkp...); return &s },
		agg: func(a, b, out wobj) error {
			return pr.AggregateShares(*a.(*multiparty.EvaluationKeyGenShare), *b.(*multiparty.EvaluationKeyGenShare), out.(*multiparty.EvaluationKeyGenShare))
		},
		finalize: func(s wobj) (bool, int, error) {
			evk := rlwe.NewEvaluationKey(r.p, r.evkp...)
			if err := pr.GenEvaluationKey(*s.(*multiparty.EvaluationKeyGenShare), crp, evk); err != nil {
				return false, 0, err
			}
			if err := pr.AggregateShares(*s.(*multiparty.EvaluationKeyGenShare), *s.(*multiparty.EvaluationKeyGenShare), s.(*multiparty.EvaluationKeyGenShare)); err != nil {
				return false, 0, err
			}
			return use(evk)
		},
		baseline: func() int {
			_, n, _ := use(rlwe.NewKeyGenerator(r.p).GenEvaluationKeyNew(r.ideal, r.idealO, r.evkp...))
			return n
		},
	}
	p.mismatch = func() []wobj {
		// a share generated for another level (documented to be refused)
		if r.p.MaxLevelQ() == 0 {
			return nil
		}
		lq, lp, b2 := r.p.MaxLevelQ()-1, r.p.MaxLevelP(), 0
		if len(r.evkp) > 0 && r.evkp[0].LevelQ != nil {
			lq = *r.evkp[0].LevelQ - 1
			if lq < 0 {
				lq = r.p.MaxLevelQ()
			}
		}
		other := rlwe.EvaluationKeyParameters{LevelQ: &lq, LevelP: &lp, BaseTwoDecomposition: &b2}
		s := pr.AllocateShare(other)
		tr.Must(pr.GenShare(r.sks[0], r.skOut[0], pr.SampleCRP(crs, other), &s))
		return []wobj{&s}
	}
	return p
}

func (r *run) protoGal(k int) *proto {
	pr := multiparty.NewGaloisKeyGenProtocol(r.p)
	crs, _ := sampling.NewKeyedPRNG([]byte("crs-gal"))
	crp := pr.SampleCRP(crs, r.evkp...)
	galEl := r.bp.GaloisElementForColRotation(k)
	use := func(gk *rlwe.GaloisKey) (bool, int, error) {
		v := r.testVector(3)
		ct := r.encrypt(r.ideal, v)
		if ct.Level() > gk.LevelQ() {
			ct.Resize(ct.Degree(), gk.LevelQ())
		}
		ev := bgv.NewEvaluator(r.bp, rlwe.NewMemEvaluationKeySet(nil, gk))
		out, err := ev.RotateColumnsNew(ct, k)
		if err != nil {
			return false, 0, err
		}
		n := r.bp.MaxSlots()
		h := n / 2
		want := make([]uint64, n)
		for i := 0; i < h; i++ {
			want[i] = v[((i+k)%h+h)%h]
			want[h+i] = v[h+((i+k)%h+h)%h]
		}
		ok, noise := r.decryptCheck(out, r.ideal, want)
		return ok, noise, nil
	}
	p := &proto{name: "gal", tag: fmt.Sprintf("gal:%d", galEl),
		gen: func(i int) wobj {
			s := pr.AllocateShare(r.evkp...)
			tr.Must(pr.GenShare(r.sks[i], galEl, crp, &s))
			return &s
		},
		alloc: func() wobj { s := pr.AllocateShare(r.evkp...); return &s },
		agg: func(a, b, out wobj) error {
			return pr.AggregateShares(*a.(*multiparty.GaloisKeyGenShare), *b.(*multiparty.GaloisKeyGenShare), out.(*multiparty.GaloisKeyGenShare))
		},
		finalize: func(s wobj) (bool, int, error) {
			gk := rlwe.NewGaloisKey(r.p, r.evkp...)
			if err := pr.GenGaloisKey(*s.(*multiparty.GaloisKeyGenShare), crp, gk); err != nil {
				return false, 0, err
			}
			if err := pr.AggregateShares(*s.(*multiparty.GaloisKeyGenShare), *s.(*multiparty.GaloisKeyGenShare), s.(*multiparty.GaloisKeyGenShare)); err != nil {
				return false, 0, err
			}
			return use(gk)
		},
		baseline: func() int {
			_, n, _ := use(rlwe.NewKeyGenerator(r.p).GenGaloisKeyNew(galEl, r.ideal, r.evkp...))
			return n
		},
	}
	p.mismatch = func() []wobj { // a share for another Galois element
		s := pr.AllocateShare(r.evkp...)
		tr.Must(pr.GenShare(r.sks[0], r.bp.GaloisElementForColRotation(k+1), crp, &s))
		return []wobj{&s}
	}
	return p
}

// the relinearisation protocol has two rounds; round 2 is parameterised by the aggregated round-1 share,
// which is computed canonically (left to right) before the schedule is replayed on the chosen round.
func (r *run) protoRLK(round int) *proto {
	pr := multiparty.NewRelinearizationKeyGenProtocol(r.p)
	crs, _ := sampling.NewKeyedPRNG([]byte("crs-rlk"))
	crp := pr.SampleCRP(crs, r.evkp...)
	eph := make([]*rlwe.SecretKey, r.n)
	r1 := make([]multiparty.RelinearizationKeyGenShare, r.n)
	for i := 0; i < r.n; i++ {
		var s2 multiparty.RelinearizationKeyGenShare
		eph[i], r1[i], s2 = pr.AllocateShare(r.evkp...)
		_ = s2
		pr.GenShareRoundOne(r.sks[i], crp, eph[i], &r1[i])
	}
	_, r1agg, _ := pr.AllocateShare(r.evkp...)
	pr.AggregateShares(r1[0], r1[0], &r1agg) // placeholder, overwritten below
	for i := 0; i < r.n; i++ {
		if i == 0 {
			b, _ := r1[0].MarshalBinary()
			tr.Must(r1agg.UnmarshalBinary(b))
		} else {
			pr.AggregateShares(r1agg, r1[i], &r1agg)
		}
	}
	r2 := make([]multiparty.RelinearizationKeyGenShare, r.n)
	for i := 0; i < r.n; i++ {
		_, _, r2[i] = pr.AllocateShare(r.evkp...)
		pr.GenShareRoundTwo(eph[i], r.sks[i], r1agg, &r2[i])
	}
	_, _, r2agg := pr.AllocateShare(r.evkp...)
	for i := 0; i < r.n; i++ {
		if i == 0 {
			b, _ := r2[0].MarshalBinary()
			tr.Must(r2agg.UnmarshalBinary(b))
		} else {
			pr.AggregateShares(r2agg, r2[i], &r2agg)
		}
	}
	use := func(rlk *rlwe.RelinearizationKey) (bool, int, error) {
		v, w := r.testVector(4), r.testVector(5)
		ct0, ct1 := r.encrypt(r.ideal, v), r.encrypt(r.ideal, w)
		if ct0.Level() > rlk.LevelQ() {
			ct0.Resize(1, rlk.LevelQ())
			ct1.Resize(1, rlk.LevelQ())
		}
		ev := bgv.NewEvaluator(r.bp, rlwe.NewMemEvaluationKeySet(rlk))
		out, err := ev.MulRelinNew(ct0, ct1)
		if err != nil {
			return false, 0, err
		}
		t := r.bp.PlaintextModulus()
		want := make([]uint64, len(v))
		for i := range want {
			want[i] = v[i] * w[i] % t
		}
		ok, noise := r.decryptCheck(out, r.ideal, want)
		return ok, noise, nil
	}
	return &proto{name: fmt.Sprintf("rlk%d", round), tag: fmt.Sprintf("rlk-round%d", round),
		gen: func(i int) wobj {
			src := r1[i]
			if round == 2 {
				src = r2[i]
			}
			_, a, a2 := pr.AllocateShare(r.evkp...)
			if round == 2 {
				a = a2
			}
			b, _ := src.MarshalBinary()
			tr.Must(a.UnmarshalBinary(b))
			return &a
		},
		alloc: func() wobj {
			_, a, a2 := pr.AllocateShare(r.evkp...)
			if round == 2 {
				return &a2
			}
			return &a
		},
		agg: func(a, b, out wobj) error {
			pr.AggregateShares(*a.(*multiparty.RelinearizationKeyGenShare), *b.(*multiparty.RelinearizationKeyGenShare), out.(*multiparty.RelinearizationKeyGenShare))
			return nil
		},
		finalize: func(s wobj) (bool, int, error) {
			rlk := rlwe.NewRelinearizationKey(r.p, r.evkp...)
			full := *s.(*multiparty.RelinearizationKeyGenShare)
			if round == 1 {
				// the schedule aggregated round 1: round 2 is derived from it
				rr2 := make([]multiparty.RelinearizationKeyGenShare, r.n)
				_, _, agg2 := pr.AllocateShare(r.evkp...)
				for i := 0; i < r.n; i++ {
					_, _, rr2[i] = pr.AllocateShare(r.evkp...)
					pr.GenShareRoundTwo(eph[i], r.sks[i], full, &rr2[i])
					if i == 0 {
						b, _ := rr2[0].MarshalBinary()
						tr.Must(agg2.UnmarshalBinary(b))
					} else {
						pr.AggregateShares(agg2, rr2[i], &agg2)
					}
				}
				pr.GenRelinearizationKey(full, agg2, rlk)
			} else {
				pr.GenRelinearizationKey(r1agg, full, rlk)
			}
			ok, nz, err := use(rlk)
			if !ok && os.Getenv("C14_DEBUG") != "" {
				ok2, nz2, _ := use(rlk)
				fmt.Fprintln(os.Stderr, "C14DEBUG round", round, "first", ok, nz, "again", ok2, nz2, "keynoise", rlwe.NoiseRelinearizationKey(rlk, r.ideal, r.p))
			}
			return ok, nz, err
		},
		baseline: func() int {
			_, n, _ := use(rlwe.NewKeyGenerator(r.p).GenRelinearizationKeyNew(r.ideal, r.evkp...))
			return n
		},
	}
}

type driver struct {
	w    *tr.Writer
	prog int
	fork int
}

func (d *driver) emit(ev event) {
	d.fork++
	ev.Prog, ev.Fork = d.prog, d.fork
	d.w.Emit(ev)
}

func guarded(f func() error) (err error, panicked bool, msg string) {
	defer func() {
		if r := recover(); r != nil {
			panicked = true
			msg = fmt.Sprint(r)
			if len(msg) > 150 {
				msg = msg[:150]
			}
		}
	}()
	err = f()
	if err != nil {
		msg = err.Error()
	}
	return
}

func log2ceil(n int) int {
	k := 0
	for (1 << uint(k)) < n {
		k++
	}
	return k
}

// replay executes one schedule on one protocol instance.
func (d *driver) replay(r *run, p *proto, steps []step, cfgName string, baseline int) {
	d.prog++
	d.fork = 0
	d.w.Emit(event{Ev: "new", Prog: d.prog, Fork: 0, Proto: p.name, Cfg: cfgName})
	objs := map[int]wobj{}
	var last int
	for _, st := range steps {
		switch st.Ev {
		case "gen":
			var o wobj
			err, pan, msg := guarded(func() error { o = p.gen(st.Party - 1); return nil })
			ev := event{Ev: "gen", Proto: p.name, Party: st.Party, Id: st.Id, Tag: p.tag, Err: err != nil, Panic: pan, Msg: msg}
			if o != nil {
				ev.Dig = digest(o)
				objs[st.Id] = o
			}
			d.emit(ev)
		case "agg":
			a, b := objs[st.A], objs[st.B]
			out, exists := objs[st.Out]
			if !exists {
				out = p.alloc()
			}
			err, pan, msg := guarded(func() error { return p.agg(a, b, out) })
			ev := event{Ev: "agg", Proto: p.name, A: st.A, B: st.B, Out: st.Out, Err: err != nil, Panic: pan, Msg: msg}
			if err == nil && !pan {
				objs[st.Out] = out
				ev.Dig = digest(out)
				last = st.Out
			}
			d.emit(ev)
		case "wire":
			a := objs[st.A]
			out := p.alloc()
			var buf bytes.Buffer
			err, pan, msg := guarded(func() error {
				bw := bufio.NewWriter(&buf)
				if _, e := a.WriteTo(bw); e != nil {
					return e
				}
				if e := bw.Flush(); e != nil {
					return e
				}
				_, e := out.ReadFrom(bufio.NewReader(&buf))
				return e
			})
			ev := event{Ev: "wire", Proto: p.name, A: st.A, Out: st.Out, Err: err != nil, Panic: pan, Msg: msg}
			if err == nil && !pan {
				objs[st.Out] = out
				ev.Dig = digest(out)
				last = st.Out
			}
			d.emit(ev)
		}
	}
	if last != 0 {
		var works bool
		var noise int
		err, pan, msg := guarded(func() (e error) { works, noise, e = p.finalize(objs[last]); return })
		// the two-round relinearisation protocol multiplies errors by secrets (s*e0 + u*e1 + e2): + log2(ring degree)/2 + 3 bits
		slack := 4
		if p.name == "rlk1" || p.name == "rlk2" {
			slack += r.p.LogN()/2 + 3
		}
		d.emit(event{Ev: "final", Proto: p.name, Cfg: cfgName, A: last, Works: works, Noise: noise, Bound: baseline + log2ceil(r.n) + slack, Err: err != nil, Panic: pan, Msg: msg})
	}
}

// mismatches: aggregating shares with different tags must be refused with an error.
func (d *driver) mismatches(r *run, p *proto, cfgName string) {
	if p.mismatch == nil || r.n < 2 { // the refused share is attributed to a second party
		return
	}
	d.prog++
	d.fork = 0
	d.w.Emit(event{Ev: "new", Prog: d.prog, Fork: 0, Proto: p.name, Cfg: cfgName})
	good := p.gen(0)
	d.emit(event{Ev: "gen", Proto: p.name, Party: 1, Id: 1, Tag: p.tag, Dig: digest(good)})
	for k, bad := range p.mismatch() {
		id := 2 + k
		d.emit(event{Ev: "gen", Proto: p.name, Party: 2, Id: id, Tag: p.tag + ":other", Dig: digest(bad)})
		for _, order := range [][2]int{{1, id}, {id, 1}} {
			objs := map[int]wobj{1: good, id: bad}
			out := p.alloc()
			err, pan, msg := guarded(func() error { return p.agg(objs[order[0]], objs[order[1]], out) })
			d.emit(event{Ev: "agg", Proto: p.name, A: order[0], B: order[1], Out: 20 + k, Err: err != nil, Panic: pan, Msg: msg, Dig: "-"})
		}
	}
}

// crs: two parties reading the common reference string with the same sequence of calls get identical polynomials
func (d *driver) crs(r *run, cfgName string) {
	d.prog++
	d.fork = 0
	d.w.Emit(event{Ev: "new", Prog: d.prog, Fork: 0, Cfg: cfgName})
	mk := func() (string, string) {
		crs, _ := sampling.NewKeyedPRNG([]byte("shared"))
		a := multiparty.NewPublicKeyGenProtocol(r.p).SampleCRP(crs)
		b := multiparty.NewEvaluationKeyGenProtocol(r.p).SampleCRP(crs, r.evkp...)
		c := multiparty.NewGaloisKeyGenProtocol(r.p).SampleCRP(crs, r.evkp...)
		ba, _ := a.Value.MarshalBinary()
		bb, _ := b.Value.MarshalBinary()
		bc, _ := c.Value.MarshalBinary()
		h1 := sha256.Sum256(append(ba, bb...))
		h2 := sha256.Sum256(bc)
		return hex.EncodeToString(h1[:8]), hex.EncodeToString(h2[:8])
	}
	a1, a2 := mk()
	b1, b2 := mk()
	d.emit(event{Ev: "crs", Cfg: cfgName, Same: a1 == b1 && a2 == b2, Dig: a1 + a2})
}

// Main: vrun c14 exec --scheds f --trace out [--cfgs i,j] --parties n
func Main(args []string) int {
	fs := flag.NewFlagSet("c14", flag.ExitOnError)
	scheds := fs.String("scheds", "", "schedules (one JSON array per line)")
	trace := fs.String("trace", "", "trace output")
	seed := fs.Uint64("seed", 1, "seed")
	n := fs.Int("parties", 3, "number of parties")
	part := fs.Int("part", 0, "")
	parts := fs.Int("parts", 1, "")
	fs.Parse(args[1:])
	tr.Seed(*seed)
	var all [][]step
	f, err := os.Open(*scheds)
	tr.Must(err)
	sc := bufio.NewScanner(f)
	sc.Buffer(make([]byte, 1<<20), 1<<24)
	for sc.Scan() {
		var st []step
		tr.Must(json.Unmarshal(sc.Bytes(), &st))
		all = append(all, st)
	}
	f.Close()
	d := &driver{w: tr.NewWriter(*trace)}
	defer d.w.Close()
	k := 0
	for _, c := range cfgs {
		r := newRun(c, *n)
		hasP := r.p.PCount() > 0
		var protos []*proto
		protos = append(protos, r.protoCPK(), r.protoEVK(), r.protoRLK(1), r.protoRLK(2))
		if hasP { // the Galois protocol requires an auxiliary modulus
			protos = append(protos, r.protoGal(1), r.protoGal(-3))
		}
		for _, p := range protos {
			if k%*parts != *part {
				k++
				continue
			}
			k++
			if only := os.Getenv("C14_ONLY"); only != "" && only != p.name+":"+c.name {
				continue
			}
			base := 0
			_, pan, _ := guarded(func() error { base = p.baseline(); return nil })
			if pan {
				base = 40
			}
			for _, st := range all {
				d.replay(r, p, st, c.name, base)
			}
			d.mismatches(r, p, c.name)
		}
		if *part == 0 {
			d.crs(r, c.name)
		}
	}
	res := tr.Result{Events: d.w.N, Cases: d.prog}
	res.Print()
	return 0
}

var _ = ring.Standard
