// Package c17 drives the samplers of package ring (uniform, Gaussian, ternary), ringqp.UniformSampler and
// sampling.KeyedPRNG through TLC-generated call sequences on several replicas and records, for every call, a
// digest of the sampled value and its projection (support, cross-modulus consistency, counts) for validation
// against spec/SamplerTrace.tla.  Projections use math/big only.
package c17

import (
	"bufio"
	"bytes"
	"crypto/sha256"
	"encoding/binary"
	"encoding/hex"
	"encoding/json"
	"flag"
	"fmt"
	"math/big"
	"math/rand"
	"os"

	"github.com/tuneinsight/lattigo/v6/core/rlwe"
	"github.com/tuneinsight/lattigo/v6/multiparty"
	"github.com/tuneinsight/lattigo/v6/ring"
	"github.com/tuneinsight/lattigo/v6/ring/ringqp"
	"github.com/tuneinsight/lattigo/v6/utils/sampling"

	"verif/harness/internal/tr"
)

type fam struct {
	ID     string   `json:"id"`
	Dist   string   `json:"dist"` // uniform | uniformqp | gaussian | ternaryP | ternaryH
	LogN   int      `json:"logn"`
	Moduli []uint64 `json:"moduli"`
	Bits   []int    `json:"bits"` // when Moduli is empty: NTT-friendly primes of these sizes
	NP     int      `json:"np"`   // uniformqp: the last NP moduli form P
	Sigma  float64  `json:"sigma"`
	Bound  float64  `json:"bound"`
	P      float64  `json:"p"`
	H      int      `json:"h"`
	Mont   bool     `json:"mont"`
	T1     float64  `json:"t1"`
	T2     float64  `json:"t2"`
	Big    bool     `json:"big"` // values exceed the moduli: only the CRT projection applies
	StatN  int      `json:"statn"`
}

type step struct {
	Op   string `json:"op"`
	View string `json:"view"`
}

type event struct {
	Ev    string `json:"ev"`
	Prog  int    `json:"prog"`
	Fork  int    `json:"fork"`
	Fam   string `json:"fam"`
	Rep   string `json:"rep,omitempty"`
	Key   int    `json:"key"`
	Step  int    `json:"step"`
	Op    string `json:"op,omitempty"`
	View  string `json:"view,omitempty"`
	Lvl   int    `json:"lvl"`
	Rows  int    `json:"rows"`
	N     int    `json:"n"`
	D     string `json:"d"`
	D0    string `json:"d0"`
	Cons  bool   `json:"cons"`
	Nover int    `json:"nover"`
	Nnz   int    `json:"nnz"`
	Npos  int    `json:"npos"`
	Nneg  int    `json:"nneg"`
	C1    int    `json:"c1"`
	C2    int    `json:"c2"`
	Dev   int    `json:"dev"`
	Err   bool   `json:"err"`
	Panic bool   `json:"panic"`
	Msg   string `json:"msg,omitempty"`
}

type driver struct {
	w    *tr.Writer
	prog int
	fork int
	seed uint64
	rng  *rand.Rand
}

func (d *driver) emit(e event) {
	e.Prog, e.Fork = d.prog, d.fork
	d.fork++
	d.w.Emit(e)
}

func (d *driver) key(f string, k int) []byte {
	h := sha256.Sum256([]byte(fmt.Sprintf("c17/%d/%s/%d", d.seed, f, k)))
	return append(h[:], h[:]...)
}

func nttPrimes(bits int, nthRoot uint64, count int, avoid map[uint64]bool) []uint64 {
	var out []uint64
	x := (uint64(1)<<uint(bits) - 1) / nthRoot * nthRoot
	for len(out) < count {
		c := x + 1
		if c>>uint(bits-1) == 1 && !avoid[c] && new(big.Int).SetUint64(c).ProbablyPrime(32) {
			out = append(out, c)
			avoid[c] = true
		}
		x -= nthRoot
	}
	return out
}

func (f *fam) moduli() []uint64 {
	if len(f.Moduli) > 0 {
		return f.Moduli
	}
	avoid := map[uint64]bool{}
	var out []uint64
	for _, b := range f.Bits {
		out = append(out, nttPrimes(b, uint64(2)<<uint(f.LogN), 1, avoid)...)
	}
	return out
}

// inst is one sampler family: the constructor's sampler and its views.
type inst struct {
	f      *fam
	r      *ring.Ring // the whole chain (Q, then P for uniformqp)
	rq, rp *ring.Ring
	base   ring.Sampler
	views  map[string]ring.Sampler
	qp     *ringqp.UniformSampler
	qpv    map[string]ringqp.UniformSampler
	mont   bool
}

func newInst(f *fam, prng sampling.PRNG, mont bool, withPRNG bool) *inst {
	mods := f.moduli()
	in := &inst{f: f, views: map[string]ring.Sampler{}, qpv: map[string]ringqp.UniformSampler{}, mont: mont}
	var err error
	in.r, err = ring.NewRing(1<<uint(f.LogN), mods)
	tr.Must(err)
	switch f.Dist {
	case "uniform":
		if withPRNG {
			other, _ := sampling.NewKeyedPRNG([]byte("some other key"))
			o := ring.NewUniformSampler(other, in.r)
			o.ReadNew()
			in.base = o.WithPRNG(prng)
		} else {
			in.base = ring.NewUniformSampler(prng, in.r)
		}
	case "uniformqp":
		nq := len(mods) - f.NP
		in.rq, err = ring.NewRing(1<<uint(f.LogN), mods[:nq])
		tr.Must(err)
		in.rp, err = ring.NewRing(1<<uint(f.LogN), mods[nq:])
		tr.Must(err)
		rqp := ringqp.Ring{RingQ: in.rq, RingP: in.rp}
		var s ringqp.UniformSampler
		if withPRNG {
			other, _ := sampling.NewKeyedPRNG([]byte("some other key"))
			o := ringqp.NewUniformSampler(other, rqp)
			o.ReadNew()
			s = o.WithPRNG(prng)
		} else {
			s = ringqp.NewUniformSampler(prng, rqp)
		}
		in.qp = &s
	case "gaussian":
		in.base, err = ring.NewSampler(prng, in.r, ring.DiscreteGaussian{Sigma: f.Sigma, Bound: f.Bound}, mont)
		tr.Must(err)
	case "ternaryP":
		in.base, err = ring.NewSampler(prng, in.r, ring.Ternary{P: f.P}, mont)
		tr.Must(err)
	case "ternaryH":
		in.base, err = ring.NewSampler(prng, in.r, ring.Ternary{H: f.H}, mont)
		tr.Must(err)
	default:
		panic("dist " + f.Dist)
	}
	return in
}

// view returns the sampler object a step names and the level it operates at.
func (in *inst) view(name string) (ring.Sampler, int) {
	top := in.r.Level()
	switch name {
	case "base":
		return in.base, top
	case "v0", "v1":
		lv := int(name[1] - '0')
		if lv > top {
			lv = top
		}
		if _, ok := in.views[name]; !ok {
			in.views[name] = in.base.AtLevel(lv)
		}
		return in.views[name], lv
	case "v0of1":
		if _, ok := in.views[name]; !ok {
			v1, _ := in.view("v1")
			in.views[name] = v1.AtLevel(0)
		}
		return in.views[name], 0
	case "v0fresh":
		return in.base.AtLevel(0), 0
	}
	panic("view " + name)
}

// qpview: levels (levelQ, levelP) of the ringqp views.
func (in *inst) qpview(name string) (ringqp.UniformSampler, int, int) {
	lq, lp := in.rq.Level(), in.rp.Level()
	switch name {
	case "base":
		return *in.qp, lq, lp
	case "v0", "v0fresh", "v0of1":
		if name == "v0fresh" {
			return in.qp.AtLevel(0, 0), 0, 0
		}
		if _, ok := in.qpv[name]; !ok {
			if name == "v0of1" {
				v1, _, _ := in.qpview("v1")
				in.qpv[name] = v1.AtLevel(0, 0)
			} else {
				in.qpv[name] = in.qp.AtLevel(0, 0)
			}
		}
		return in.qpv[name], 0, 0
	case "v1":
		l1 := 1
		if l1 > lq {
			l1 = lq
		}
		if _, ok := in.qpv[name]; !ok {
			in.qpv[name] = in.qp.AtLevel(l1, lp)
		}
		return in.qpv[name], l1, lp
	}
	panic("view " + name)
}

var two64 = new(big.Int).Lsh(big.NewInt(1), 64)

// plain brings a residue back from the Montgomery form (x * 2^-64 mod q) with big.Int arithmetic.
func plain(v, q uint64, mont bool) uint64 {
	if !mont {
		return v % q
	}
	Q := new(big.Int).SetUint64(q)
	inv := new(big.Int).ModInverse(new(big.Int).Mod(two64, Q), Q)
	x := new(big.Int).SetUint64(v)
	x.Mul(x, inv).Mod(x, Q)
	return x.Uint64()
}

func subMod(a, b, q uint64) uint64 {
	a %= q
	b %= q
	if a >= b {
		return a - b
	}
	return a + q - b
}

// project computes the digest and the contract projection of the sampled rows (already plain, reduced).
func (d *driver) project(f *fam, mods []uint64, rows [][]uint64, raw [][]uint64, e *event) {
	h := sha256.New()
	var b8 [8]byte
	for i, row := range rows {
		for _, v := range row {
			binary.LittleEndian.PutUint64(b8[:], v)
			h.Write(b8[:])
		}
		if i == 0 {
			s := h.Sum(nil)
			e.D0 = hex.EncodeToString(s[:10])
		}
	}
	s := h.Sum(nil)
	e.D = hex.EncodeToString(s[:12])
	e.Rows = len(rows)
	e.N = len(rows[0])
	e.Cons = true
	if f.Dist == "uniform" || f.Dist == "uniformqp" {
		// support: every raw residue below its modulus
		for i, row := range raw {
			for _, v := range row {
				if v >= mods[i] {
					e.Nover++
				}
			}
		}
		return
	}
	// CRT reconstruction, centred
	Q := big.NewInt(1)
	for i := range rows {
		Q.Mul(Q, new(big.Int).SetUint64(mods[i]))
	}
	half := new(big.Int).Rsh(Q, 1)
	crt := make([]*big.Int, len(rows))
	for i := range rows {
		qi := new(big.Int).SetUint64(mods[i])
		Qi := new(big.Int).Div(Q, qi)
		inv := new(big.Int).ModInverse(new(big.Int).Mod(Qi, qi), qi)
		crt[i] = Qi.Mul(Qi, inv)
	}
	var B *big.Int
	switch f.Dist {
	case "gaussian":
		B, _ = new(big.Float).SetFloat64(f.Bound + 0.5).Int(nil)
		if f.Big {
			B, _ = new(big.Float).SetFloat64(f.Bound).Int(nil)
		}
	default:
		B = big.NewInt(1)
	}
	for j := 0; j < e.N; j++ {
		x := new(big.Int)
		for i := range rows {
			x.Add(x, new(big.Int).Mul(crt[i], new(big.Int).SetUint64(rows[i][j])))
		}
		x.Mod(x, Q)
		if x.Cmp(half) > 0 {
			x.Sub(x, Q)
		}
		if new(big.Int).Abs(x).Cmp(B) > 0 {
			e.Nover++
		}
		switch x.Sign() {
		case 1:
			e.Npos++
			e.Nnz++
		case -1:
			e.Nneg++
			e.Nnz++
		}
		if !f.Big {
			// every row on its own represents the same centred integer
			for i := range rows {
				c := new(big.Int).SetUint64(rows[i][j])
				qi := new(big.Int).SetUint64(mods[i])
				if c.Cmp(new(big.Int).Rsh(qi, 1)) > 0 {
					c.Sub(c, qi)
				}
				if c.Cmp(x) != 0 {
					e.Cons = false
				}
			}
		}
	}
}

func (d *driver) garbage(p ring.Poly, mods []uint64) [][]uint64 {
	in := make([][]uint64, len(p.Coeffs))
	for i := range p.Coeffs {
		in[i] = make([]uint64, len(p.Coeffs[i]))
		for j := range p.Coeffs[i] {
			p.Coeffs[i][j] = d.rng.Uint64() % mods[i]
			in[i][j] = p.Coeffs[i][j]
		}
	}
	return in
}

// call performs one step on the instance and logs it.
func (d *driver) call(in *inst, st step, idx int, rep string, key int) {
	f := in.f
	e := event{Ev: "call", Fam: f.ID, Rep: rep, Key: key, Step: idx, Op: st.Op, View: st.View}
	mods := in.r.ModuliChain()
	func() {
		defer func() {
			if r := recover(); r != nil {
				e.Panic = true
				e.Msg = fmt.Sprint(r)
			}
		}()
		if f.Dist == "uniformqp" {
			s, lq, lp := in.qpview(st.View)
			e.Lvl = lq + lp + 1
			var p ringqp.Poly
			if st.Op == "new" {
				p = s.ReadNew()
			} else {
				p = ringqp.Poly{Q: in.rq.AtLevel(lq).NewPoly(), P: in.rp.AtLevel(lp).NewPoly()}
				d.garbage(p.Q, in.rq.ModuliChain())
				d.garbage(p.P, in.rp.ModuliChain())
				s.Read(p)
			}
			var rows [][]uint64
			var ms []uint64
			for i := range p.Q.Coeffs {
				rows = append(rows, p.Q.Coeffs[i])
				ms = append(ms, in.rq.ModuliChain()[i])
			}
			for i := range p.P.Coeffs {
				rows = append(rows, p.P.Coeffs[i])
				ms = append(ms, in.rp.ModuliChain()[i])
			}
			d.project(f, ms, rows, rows, &e)
			return
		}
		s, lv := in.view(st.View)
		e.Lvl = lv
		var p ring.Poly
		var input [][]uint64
		switch st.Op {
		case "new":
			p = s.ReadNew()
		case "read":
			p = in.r.AtLevel(lv).NewPoly()
			d.garbage(p, mods)
			s.Read(p)
		case "add":
			p = in.r.AtLevel(lv).NewPoly()
			input = d.garbage(p, mods)
			s.ReadAndAdd(p)
		}
		rows := make([][]uint64, len(p.Coeffs))
		raw := make([][]uint64, len(p.Coeffs))
		for i := range p.Coeffs {
			rows[i] = make([]uint64, len(p.Coeffs[i]))
			raw[i] = p.Coeffs[i]
			for j, v := range p.Coeffs[i] {
				if input != nil {
					// the value that was added: out - in.  A Montgomery sampler adds the Montgomery form of its sample.
					rows[i][j] = plain(subMod(v, input[i][j], mods[i]), mods[i], in.mont)
				} else {
					rows[i][j] = plain(v, mods[i], in.mont)
				}
			}
		}
		if input != nil && f.Dist == "uniform" {
			raw = rows
		}
		d.project(f, mods, rows, raw, &e)
	}()
	d.emit(e)
}

func (d *driver) program(f *fam, seq []step) {
	d.prog++
	d.fork = 0
	d.emit(event{Ev: "reset", Fam: f.ID})
	var prngA *sampling.KeyedPRNG
	reps := []string{"A", "B", "M", "R", "C", "W"}
	for _, rep := range reps {
		key, mont, with := 1, f.Mont, false
		var prng *sampling.KeyedPRNG
		var err error
		switch rep {
		case "A", "B":
			prng, err = sampling.NewKeyedPRNG(d.key(f.ID, 1))
			if rep == "A" {
				prngA = prng
			}
		case "M":
			if f.Dist == "uniform" || f.Dist == "uniformqp" {
				continue
			}
			mont = !f.Mont
			prng, err = sampling.NewKeyedPRNG(d.key(f.ID, 1))
		case "R":
			prngA.Reset()
			prng = prngA
		case "C":
			key = 2
			prng, err = sampling.NewKeyedPRNG(d.key(f.ID, 2))
		case "W":
			if f.Dist != "uniform" && f.Dist != "uniformqp" {
				continue
			}
			with = true
			prng, err = sampling.NewKeyedPRNG(d.key(f.ID, 1))
		}
		tr.Must(err)
		d.emit(event{Ev: "new", Fam: f.ID, Rep: rep, Key: key})
		in := newInst(f, prng, mont, with)
		for i, st := range seq {
			d.call(in, st, i+1, rep, key)
		}
	}
}

// stat draws f.StatN coefficients with the constructor's sampler (Read, ReadNew and ReadAndAdd in turn) and
// logs the counts the contract bounds.
func (d *driver) stat(f *fam) {
	d.prog++
	d.fork = 0
	d.emit(event{Ev: "reset", Fam: f.ID})
	prng, err := sampling.NewKeyedPRNG(d.key(f.ID, 7))
	tr.Must(err)
	in := newInst(f, prng, f.Mont, false)
	mods := in.r.ModuliChain()
	N := in.r.N()
	e := event{Ev: "stat", Fam: f.ID}
	T1, _ := new(big.Float).SetFloat64(f.T1).Int(nil)
	T2, _ := new(big.Float).SetFloat64(f.T2).Int(nil)
	Q := big.NewInt(1)
	for i := range mods {
		Q.Mul(Q, new(big.Int).SetUint64(mods[i]))
	}
	half := new(big.Int).Rsh(Q, 1)
	crt := make([]*big.Int, len(mods))
	for i := range mods {
		qi := new(big.Int).SetUint64(mods[i])
		Qi := new(big.Int).Div(Q, qi)
		inv := new(big.Int).ModInverse(new(big.Int).Mod(Qi, qi), qi)
		crt[i] = Qi.Mul(Qi, inv)
	}
	ops := []string{"read", "new", "add"}
	for c := 0; e.N < f.StatN; c++ {
		var p ring.Poly
		var input [][]uint64
		if f.Dist == "uniformqp" {
			p = in.qp.ReadNew().Q
		} else {
			switch ops[c%3] {
			case "read":
				p = in.r.NewPoly()
				d.garbage(p, mods)
				in.base.Read(p)
			case "new":
				p = in.base.ReadNew()
			case "add":
				p = in.r.NewPoly()
				input = d.garbage(p, mods)
				in.base.ReadAndAdd(p)
			}
		}
		for j := 0; j < N; j++ {
			val := func(i int) uint64 {
				v := p.Coeffs[i][j]
				if input != nil {
					v = subMod(v, input[i][j], mods[i])
				}
				return plain(v, mods[i], in.mont && f.Dist != "uniform" && f.Dist != "uniformqp")
			}
			e.N++
			if f.Dist == "uniform" || f.Dist == "uniformqp" {
				v := val(0)
				if v <= (mods[0]-1)/2 {
					e.C1++
				}
				if v&1 == 1 {
					e.C2++
				}
				continue
			}
			x := new(big.Int)
			for i := range mods {
				x.Add(x, new(big.Int).Mul(crt[i], new(big.Int).SetUint64(val(i))))
			}
			x.Mod(x, Q)
			if x.Cmp(half) > 0 {
				x.Sub(x, Q)
			}
			switch x.Sign() {
			case 1:
				e.Npos++
			case -1:
				e.Nneg++
			}
			switch f.Dist {
			case "gaussian":
				a := new(big.Int).Abs(x)
				if a.Cmp(T1) <= 0 {
					e.C1++
				}
				if a.Cmp(T2) <= 0 {
					e.C2++
				}
			default: // ternary: c1 = non-zero, c2 = positive
				if x.Sign() != 0 {
					e.C1++
				}
				if x.Sign() > 0 {
					e.C2++
				}
			}
		}
	}
	for e.Dev*e.Dev < 22*e.N {
		e.Dev++
	}
	e.Nnz = e.Npos + e.Nneg
	d.emit(e)
}

func dg(b []byte) string {
	s := sha256.Sum256(b)
	return hex.EncodeToString(s[:12])
}

// prngEvents: the keyed generator is a function key -> byte stream.
func (d *driver) prngEvents() {
	d.prog++
	d.fork = 0
	d.emit(event{Ev: "reset", Fam: "bytes"})
	marks := []int{8, 1000, 2000, 3000}
	logAt := func(key int, buf []byte) {
		for _, m := range marks {
			d.emit(event{Ev: "bytes", Fam: "bytes", Key: key, N: m, D: dg(buf[:m])})
		}
	}
	chunkings := [][]int{{3000}, {1, 7, 64, 928, 1000, 1000}, {1024, 1024, 952}, {8, 8, 8, 8, 2968}}
	for key := 1; key <= 2; key++ {
		for ci, ch := range chunkings {
			p, err := sampling.NewKeyedPRNG(d.key("bytes", key))
			tr.Must(err)
			for round := 0; round < 2; round++ {
				buf := make([]byte, 0, 3000)
				for _, c := range ch {
					b := make([]byte, c)
					n, err := p.Read(b)
					if err != nil || n != c {
						d.emit(event{Ev: "bytes", Fam: "bytes", Key: key, Panic: true, Msg: fmt.Sprint("short read ", n, err)})
					}
					buf = append(buf, b...)
				}
				logAt(key, buf)
				if ci%2 == 0 && round == 0 {
					p.Reset() // replay
				} else {
					break
				}
			}
		}
	}
	// NewPRNG().Key() re-creates the generator
	p, err := sampling.NewPRNG()
	tr.Must(err)
	b1 := make([]byte, 3000)
	p.Read(b1)
	p2, err := sampling.NewKeyedPRNG(p.Key())
	tr.Must(err)
	b2 := make([]byte, 3000)
	p2.Read(b2)
	logAt(3, b1)
	logAt(3, b2)
}

func digestPoly(ps ...ring.Poly) string {
	h := sha256.New()
	var b8 [8]byte
	for _, p := range ps {
		for _, row := range p.Coeffs {
			for _, v := range row {
				binary.LittleEndian.PutUint64(b8[:], v)
				h.Write(b8[:])
			}
		}
	}
	s := h.Sum(nil)
	return hex.EncodeToString(s[:12])
}

// expandEvents: compressed evaluation keys expand to the same polynomials from the same seed (also after a
// trip through the wire); parties sampling common reference polynomials from generators with the same key
// and the same call sequence obtain the same polynomials.
func (d *driver) expandEvents() {
	d.prog++
	d.fork = 0
	d.emit(event{Ev: "reset", Fam: "expand"})
	params, err := rlwe.NewParametersFromLiteral(rlwe.ParametersLiteral{LogN: 9, LogQ: []int{50, 40, 40}, LogP: []int{55}, NTTFlag: true})
	tr.Must(err)
	kg := rlwe.NewKeyGenerator(params)
	sk := kg.GenSecretKeyNew()
	sk2 := kg.GenSecretKeyNew()
	for key := 1; key <= 2; key++ {
		func() {
			e := event{Ev: "expand", Fam: "expand", Key: key, Step: 1}
			defer func() {
				if r := recover(); r != nil {
					e.Panic, e.Msg = true, fmt.Sprint(r)
					d.emit(e)
				}
			}()
			lq, lp := params.MaxLevelQ(), params.MaxLevelP()
			evk := kg.GenEvaluationKeyNew(sk, sk2, rlwe.EvaluationKeyParameters{LevelQ: &lq, LevelP: &lp, Compressed: true})
			expandOnce := func(k *rlwe.EvaluationKey, withBuf bool) string {
				var buf *rlwe.GadgetCiphertext
				if withBuf {
					buf = rlwe.NewGadgetCiphertext(params, 0, lq, lp, 0)
				}
				if err := k.Expand(params, buf); err != nil {
					e.Err, e.Msg = true, err.Error()
					return ""
				}
				var ps []ring.Poly
				for i := range k.Value {
					for j := range k.Value[i] {
						ps = append(ps, k.Value[i][j][1].Q, k.Value[i][j][1].P)
					}
				}
				return digestPoly(ps...)
			}
			// the compressed key travels over the wire twice; the original and both copies expand alike
			var wire [2]bytes.Buffer
			for i := range wire {
				if _, err := evk.WriteTo(&wire[i]); err != nil {
					e.Err, e.Msg = true, err.Error()
				}
			}
			e.D = expandOnce(evk, true)
			d.emit(e)
			for i := range wire {
				evk2 := new(rlwe.EvaluationKey)
				if _, err := evk2.ReadFrom(bufio.NewReader(&wire[i])); err != nil {
					e.Err, e.Msg = true, err.Error()
				}
				e.D = expandOnce(evk2, i == 0)
				d.emit(e)
			}
		}()
	}
	// common reference polynomials
	for key := 1; key <= 2; key++ {
		for party := 0; party < 2; party++ {
			func() {
				e := event{Ev: "expand", Fam: "crp", Key: key}
				defer func() {
					if r := recover(); r != nil {
						e.Panic, e.Msg = true, fmt.Sprint(r)
						d.emit(e)
					}
				}()
				crs, err := sampling.NewKeyedPRNG(d.key("crs", key))
				tr.Must(err)
				ckg := multiparty.NewPublicKeyGenProtocol(params)
				c1 := ckg.SampleCRP(crs)
				e.Step, e.D = 10, digestPoly(c1.Value.Q, c1.Value.P)
				d.emit(e)
				rkg := multiparty.NewRelinearizationKeyGenProtocol(params)
				c2 := rkg.SampleCRP(crs)
				var ps []ring.Poly
				for i := range c2.Value {
					for j := range c2.Value[i] {
						ps = append(ps, c2.Value[i][j].Q, c2.Value[i][j].P)
					}
				}
				e.Step, e.D = 11, digestPoly(ps...)
				d.emit(e)
				gkg := multiparty.NewGaloisKeyGenProtocol(params)
				c3 := gkg.SampleCRP(crs)
				ps = nil
				for i := range c3.Value {
					for j := range c3.Value[i] {
						ps = append(ps, c3.Value[i][j].Q, c3.Value[i][j].P)
					}
				}
				e.Step, e.D = 12, digestPoly(ps...)
				d.emit(e)
				cks, err := multiparty.NewKeySwitchProtocol(params, ring.DiscreteGaussian{Sigma: 3.2, Bound: 19.2})
				tr.Must(err)
				c4 := cks.SampleCRP(1, crs)
				e.Step, e.D = 13, digestPoly(c4.Value)
				d.emit(e)
			}()
		}
	}
}

func Main(args []string) int {
	fs := flag.NewFlagSet("c17", flag.ExitOnError)
	famsPath := fs.String("fams", "", "JSON list of sampler configurations")
	seqsPath := fs.String("seqs", "", "ndjson call sequences (one JSON array per line)")
	trace := fs.String("trace", "", "output trace")
	seed := fs.Uint64("seed", 1, "seed")
	part := fs.Int("part", 0, "")
	parts := fs.Int("parts", 1, "")
	extras := fs.Bool("extras", false, "also record statistics, generator and expansion events")
	fs.Parse(args[1:])
	tr.Seed(*seed)
	var fams []fam
	b, err := os.ReadFile(*famsPath)
	tr.Must(err)
	tr.Must(json.Unmarshal(b, &fams))
	var seqs [][]step
	f, err := os.Open(*seqsPath)
	tr.Must(err)
	sc := bufio.NewScanner(f)
	sc.Buffer(make([]byte, 1<<20), 1<<20)
	for sc.Scan() {
		var s []step
		tr.Must(json.Unmarshal(sc.Bytes(), &s))
		seqs = append(seqs, s)
	}
	d := &driver{w: tr.NewWriter(*trace), seed: *seed, rng: rand.New(rand.NewSource(int64(*seed)*7919 + int64(*part)))}
	d.prog = *part * 10_000_000
	k := 0
	for fi := range fams {
		for _, s := range seqs {
			if k%*parts == *part {
				d.program(&fams[fi], s)
			}
			k++
		}
	}
	if *extras {
		for fi := range fams {
			if k%*parts == *part && fams[fi].StatN > 0 {
				d.stat(&fams[fi])
			}
			k++
		}
		if *part == 0 {
			d.prngEvents()
			d.expandEvents()
		}
	}
	d.w.Close()
	(&tr.Result{Events: d.w.N, Cases: d.prog - *part*10_000_000}).Print()
	return 0
}
