package c16

import (
	"fmt"

	"github.com/tuneinsight/lattigo/v6/core/rlwe"
	"github.com/tuneinsight/lattigo/v6/multiparty"
	"github.com/tuneinsight/lattigo/v6/multiparty/mpbgv"
	"github.com/tuneinsight/lattigo/v6/multiparty/mpckks"
	"github.com/tuneinsight/lattigo/v6/schemes/bgv"
	"github.com/tuneinsight/lattigo/v6/schemes/ckks"
	"github.com/tuneinsight/lattigo/v6/utils/sampling"
)

// ProbeOp is one observation of a protocol run in which party 1 uses the protocol object and party 2 a
// ShallowCopy of it.
type ProbeOp struct {
	Op  string
	Eq  bool
	Msg string
}

type ProbeEvent struct {
	Subject string
	Ops     []ProbeOp
	Panic   bool
	Msg     string
}

func near(a, b int) bool { d := a - b; return d >= -1 && d <= 1 }

// CopyProbe runs every multiparty protocol with two parties, the second one on a ShallowCopy, with a
// non-default smudging parameter (sigma = 2^20): the result must be correct and the copy's share must carry
// the same amount of noise as the original's.
func CopyProbe() (out []ProbeEvent) {
	all := sets()
	run2 := func(name string, s *set, c config, f func(r *run) []ProbeOp) {
		ev := ProbeEvent{Subject: name}
		func() {
			defer func() {
				if x := recover(); x != nil {
					ev.Panic, ev.Msg = true, fmt.Sprint(x)
				}
			}()
			r := newRun(s, 2)
			r.c = c
			r.input(5)
			ev.Ops = f(r)
		}()
		out = append(out, ev)
	}
	top := func(s *set) int { return s.p.MaxLevel() }
	for _, sn := range []string{"bgv97", "ckks"} {
		s := all[sn]
		// key switch to a shared key
		run2("multiparty.KeySwitchProtocol/"+sn, s, config{Proto: "ks", InLvl: top(s), OutLvl: top(s), LgSigma: 20, Sc: "default", F: "none"}, func(r *run) []ProbeOp {
			p := r.s.p
			pr, err := multiparty.NewKeySwitchProtocol(p, r.noiseDist())
			if err != nil {
				panic(err)
			}
			cp := pr.ShallowCopy()
			s0, s1 := pr.AllocateShare(r.ct.Level()), cp.AllocateShare(r.ct.Level())
			pr.GenShare(r.sks[0], r.skOut[0], r.ct, &s0)
			cp.GenShare(r.sks[1], r.skOut[1], r.ct, &s1)
			stat := func(i int, sh multiparty.KeySwitchShare) (int, int) {
				rq := p.RingQ().AtLevel(sh.Value.Level())
				e := rq.NewPoly()
				rq.Sub(sh.Value, r.c1Delta(r.ct.Value[1], r.ct.IsNTT, r.sks[i], r.skOut[i], sh.Value.Level()), e)
				return errStats(rq, e, true)
			}
			v0, m0 := stat(0, s0)
			v1, m1 := stat(1, s1)
			if err := pr.AggregateShares(s0, s1, &s0); err != nil {
				panic(err)
			}
			res := rlwe.NewCiphertext(p, 1, p.MaxLevel())
			cp.KeySwitch(r.ct, s0, res)
			f := r.judge(res, r.idealO, false)
			return []ProbeOp{{"result decrypts under the target key", f.same, ""},
				{"share noise of the copy like the original's", near(v0, v1) && near(m0, m1), fmt.Sprintf("var bits %d vs %d, max bits %d vs %d", v0, v1, m0, m1)}}
		})
		run2("multiparty.PublicKeySwitchProtocol/"+sn, s, config{Proto: "pks", InLvl: top(s), OutLvl: top(s), LgSigma: 20, Sc: "default", F: "none"}, func(r *run) []ProbeOp {
			p := r.s.p
			pr, err := multiparty.NewPublicKeySwitchProtocol(p, r.noiseDist())
			if err != nil {
				panic(err)
			}
			cp := pr.ShallowCopy()
			s0, s1 := pr.AllocateShare(r.ct.Level()), cp.AllocateShare(r.ct.Level())
			pr.GenShare(r.sks[0], r.pkOut, r.ct, &s0)
			cp.GenShare(r.sks[1], r.pkOut, r.ct, &s1)
			if err := pr.AggregateShares(s0, s1, &s0); err != nil {
				panic(err)
			}
			res := rlwe.NewCiphertext(p, 1, p.MaxLevel())
			cp.KeySwitch(r.ct, s0, res)
			f := r.judge(res, r.idealO, false)
			// the flooding noise shows in the result: with sigma = 2^20 the output noise has at least 20 (+ lg t) bits
			want := 20
			if r.s.bgv != nil {
				want += bits(r.s.bgv.PlaintextModulus()) - 1
			}
			return []ProbeOp{{"result decrypts under the target key", f.same, ""},
				{"flooding noise present", f.noise >= want, fmt.Sprintf("noise %d bits, expected at least %d", f.noise, want)}}
		})
	}
	// refresh (covers encryption-to-shares and shares-to-encryption copies)
	run2("mpbgv.RefreshProtocol", all["bgv97"], config{Proto: "refresh", InLvl: 1, OutLvl: 3, LgSigma: 20, Sc: "other", F: "none"}, func(r *run) []ProbeOp {
		p := *r.s.bgv
		pr, err := mpbgv.NewRefreshProtocol(p, r.noiseDist())
		if err != nil {
			panic(err)
		}
		cp := pr.ShallowCopy()
		crs, _ := sampling.NewKeyedPRNG([]byte("crs"))
		crp := pr.SampleCRP(3, crs)
		s0, s1 := pr.AllocateShare(r.ct.Level(), 3), cp.AllocateShare(r.ct.Level(), 3)
		if err := pr.GenShare(r.sks[0], r.ct, crp, &s0); err != nil {
			panic(err)
		}
		if err := cp.GenShare(r.sks[1], r.ct, crp, &s1); err != nil {
			panic(err)
		}
		if err := pr.AggregateShares(s0, s1, &s0); err != nil {
			panic(err)
		}
		res := bgv.NewCiphertext(p, 1, p.MaxLevel())
		if err := cp.Finalize(r.ct, crp, s0, res); err != nil {
			panic(err)
		}
		f := r.judge(res, r.ideal, false)
		return []ProbeOp{{"refreshed ciphertext carries the message", f.same && f.lvl == 3, ""},
			{"flooding noise present", f.noise >= 20 + 6, fmt.Sprintf("noise %d bits", f.noise)}}
	})
	run2("mpbgv.MaskedTransformProtocol", all["bgv97"], config{Proto: "transform", InLvl: 2, OutLvl: 2, LgSigma: 20, Sc: "default", F: "neg"}, func(r *run) []ProbeOp {
		p := *r.s.bgv
		pr, err := mpbgv.NewMaskedTransformProtocol(p, p, r.noiseDist())
		if err != nil {
			panic(err)
		}
		cp := pr.ShallowCopy()
		crs, _ := sampling.NewKeyedPRNG([]byte("crs"))
		crp := pr.SampleCRP(2, crs)
		fn := r.bgvFunc()
		s0, s1 := pr.AllocateShare(r.ct.Level(), 2), cp.AllocateShare(r.ct.Level(), 2)
		if err := pr.GenShare(r.sks[0], r.sks[0], r.ct, crp, fn, &s0); err != nil {
			panic(err)
		}
		if err := cp.GenShare(r.sks[1], r.sks[1], r.ct, crp, fn, &s1); err != nil {
			panic(err)
		}
		if err := pr.AggregateShares(s0, s1, &s0); err != nil {
			panic(err)
		}
		res := bgv.NewCiphertext(p, 1, p.MaxLevel())
		if err := cp.Transform(r.ct, fn, crp, s0, res); err != nil {
			panic(err)
		}
		f := r.judge(res, r.ideal, true)
		return []ProbeOp{{"transformed ciphertext carries f(message)", f.same, ""},
			{"flooding noise present", f.noise >= 20 + 6, fmt.Sprintf("noise %d bits", f.noise)}}
	})
	run2("mpckks.RefreshProtocol", all["ckks"], config{Proto: "refresh", InLvl: 2, OutLvl: 4, LgSigma: 20, Sc: "default", F: "none"}, func(r *run) []ProbeOp {
		p := *r.s.ckks
		pr, err := mpckks.NewRefreshProtocol(p, 128, r.noiseDist())
		if err != nil {
			panic(err)
		}
		cp := pr.ShallowCopy()
		crs, _ := sampling.NewKeyedPRNG([]byte("crs"))
		crp := pr.SampleCRP(4, crs)
		lb := r.logBound()
		s0, s1 := pr.AllocateShare(r.ct.Level(), 4), cp.AllocateShare(r.ct.Level(), 4)
		if err := pr.GenShare(r.sks[0], lb, r.ct, crp, &s0); err != nil {
			panic(err)
		}
		if err := cp.GenShare(r.sks[1], lb, r.ct, crp, &s1); err != nil {
			panic(err)
		}
		if err := pr.AggregateShares(&s0, &s1, &s0); err != nil {
			panic(err)
		}
		res := ckks.NewCiphertext(p, 1, p.MaxLevel())
		if err := cp.Finalize(r.ct, crp, s0, res); err != nil {
			panic(err)
		}
		f := r.judge(res, r.ideal, false)
		return []ProbeOp{{"refreshed ciphertext carries the message", f.same && f.lvl == 4, ""},
			{"flooding noise present", f.noise >= 20, fmt.Sprintf("noise %d bits", f.noise)}}
	})
	// key generation protocols
	run2("multiparty.PublicKeyGenProtocol", all["bgv97"], config{Proto: "ks", InLvl: 3, OutLvl: 3, LgSigma: 3, Sc: "default", F: "none"}, func(r *run) []ProbeOp {
		p := r.s.p
		pr := multiparty.NewPublicKeyGenProtocol(p)
		cp := pr.ShallowCopy()
		crs, _ := sampling.NewKeyedPRNG([]byte("crs"))
		crp := pr.SampleCRP(crs)
		s0, s1 := pr.AllocateShare(), cp.AllocateShare()
		pr.GenShare(r.sks[0], crp, &s0)
		cp.GenShare(r.sks[1], crp, &s1)
		pr.AggregateShares(s0, s1, &s0)
		pk := rlwe.NewPublicKey(p)
		cp.GenPublicKey(s0, crp, pk)
		pt := bgv.NewPlaintext(*r.s.bgv, p.MaxLevel())
		if err := r.becd.Encode(r.msgB, pt); err != nil {
			panic(err)
		}
		ct, err := rlwe.NewEncryptor(p, pk).EncryptNew(pt)
		if err != nil {
			panic(err)
		}
		ok, _ := r.checkB(ct, r.ideal, r.msgB)
		return []ProbeOp{{"collective public key encrypts for the ideal secret", ok, ""}}
	})
	run2("multiparty.GaloisKeyGenProtocol", all["bgv97"], config{Proto: "ks", InLvl: 3, OutLvl: 3, LgSigma: 3, Sc: "default", F: "none"}, func(r *run) []ProbeOp {
		p := r.s.p
		pr := multiparty.NewGaloisKeyGenProtocol(p)
		cp := pr.ShallowCopy()
		crs, _ := sampling.NewKeyedPRNG([]byte("crs"))
		crp := pr.SampleCRP(crs)
		galEl := p.GaloisElement(1)
		s0, s1 := pr.AllocateShare(), cp.AllocateShare()
		if err := pr.GenShare(r.sks[0], galEl, crp, &s0); err != nil {
			panic(err)
		}
		if err := cp.GenShare(r.sks[1], galEl, crp, &s1); err != nil {
			panic(err)
		}
		if err := pr.AggregateShares(s0, s1, &s0); err != nil {
			panic(err)
		}
		gk := rlwe.NewGaloisKey(p)
		if err := cp.GenGaloisKey(s0, crp, gk); err != nil {
			panic(err)
		}
		ev := bgv.NewEvaluator(*r.s.bgv, rlwe.NewMemEvaluationKeySet(nil, gk), false)
		rot, err := ev.RotateColumnsNew(r.ct, 1)
		if err != nil {
			panic(err)
		}
		n := len(r.msgB) / 2
		want := make([]uint64, len(r.msgB))
		for i := 0; i < n; i++ {
			want[i] = r.msgB[(i+1)%n]
			want[n+i] = r.msgB[n+(i+1)%n]
		}
		ok, _ := r.checkB(rot, r.ideal, want)
		return []ProbeOp{{"collective Galois key rotates", ok, ""}}
	})
	run2("multiparty.RelinearizationKeyGenProtocol", all["bgv97"], config{Proto: "ks", InLvl: 3, OutLvl: 3, LgSigma: 3, Sc: "default", F: "none"}, func(r *run) []ProbeOp {
		p := r.s.p
		pr := multiparty.NewRelinearizationKeyGenProtocol(p)
		cp := pr.ShallowCopy()
		crs, _ := sampling.NewKeyedPRNG([]byte("crs"))
		crp := pr.SampleCRP(crs)
		e0, a1, a2 := pr.AllocateShare()
		e1, b1, b2 := cp.AllocateShare()
		pr.GenShareRoundOne(r.sks[0], crp, e0, &a1)
		cp.GenShareRoundOne(r.sks[1], crp, e1, &b1)
		pr.AggregateShares(a1, b1, &a1)
		pr.GenShareRoundTwo(e0, r.sks[0], a1, &a2)
		cp.GenShareRoundTwo(e1, r.sks[1], a1, &b2)
		pr.AggregateShares(a2, b2, &a2)
		rlk := rlwe.NewRelinearizationKey(p)
		cp.GenRelinearizationKey(a1, a2, rlk)
		ev := bgv.NewEvaluator(*r.s.bgv, rlwe.NewMemEvaluationKeySet(rlk), false)
		sq, err := ev.MulRelinNew(r.ct, r.ct)
		if err != nil {
			panic(err)
		}
		t := r.s.bgv.PlaintextModulus()
		want := make([]uint64, len(r.msgB))
		for i := range want {
			want[i] = r.msgB[i] * r.msgB[i] % t
		}
		ok, _ := r.checkB(sq, r.ideal, want)
		return []ProbeOp{{"collective relinearisation key relinearises", ok, ""}}
	})
	run2("multiparty.EvaluationKeyGenProtocol", all["bgv97"], config{Proto: "ks", InLvl: 3, OutLvl: 3, LgSigma: 3, Sc: "default", F: "none"}, func(r *run) []ProbeOp {
		p := r.s.p
		pr := multiparty.NewEvaluationKeyGenProtocol(p)
		cp := pr.ShallowCopy()
		crs, _ := sampling.NewKeyedPRNG([]byte("crs"))
		crp := pr.SampleCRP(crs)
		s0, s1 := pr.AllocateShare(), cp.AllocateShare()
		if err := pr.GenShare(r.sks[0], r.skOut[0], crp, &s0); err != nil {
			panic(err)
		}
		if err := cp.GenShare(r.sks[1], r.skOut[1], crp, &s1); err != nil {
			panic(err)
		}
		if err := cp.AggregateShares(s0, s1, &s0); err != nil {
			panic(err)
		}
		evk := rlwe.NewEvaluationKey(p)
		if err := cp.GenEvaluationKey(s0, crp, evk); err != nil {
			panic(err)
		}
		out := rlwe.NewCiphertext(p, 1, r.ct.Level())
		if err := rlwe.NewEvaluator(p, nil).ApplyEvaluationKey(r.ct, evk, out); err != nil {
			panic(err)
		}
		ok, _ := r.checkB(out, r.idealO, r.msgB)
		return []ProbeOp{{"collective evaluation key re-encrypts to the ideal target secret", ok, ""}}
	})
	// share conversions: party 0 on the constructed instances, party 1 on copies
	run2("mpbgv.EncToShare+ShareToEnc", all["bgv97"], config{Proto: "e2s", InLvl: 3, OutLvl: 3, LgSigma: 20, Sc: "default", F: "none"}, func(r *run) []ProbeOp {
		bp := *r.s.bgv
		p := r.s.p
		e2s, err := mpbgv.NewEncToShareProtocol(bp, r.noiseDist())
		if err != nil {
			panic(err)
		}
		s2e, err := mpbgv.NewShareToEncProtocol(bp, r.noiseDist())
		if err != nil {
			panic(err)
		}
		e2sC, s2eC := e2s.ShallowCopy(), s2e.ShallowCopy()
		lvl := r.ct.Level()
		sec0, sec1 := mpbgv.NewAdditiveShare(bp), mpbgv.NewAdditiveShare(bp)
		pub0, pub1 := e2s.AllocateShare(lvl), e2sC.AllocateShare(lvl)
		e2s.GenShare(r.sks[0], r.ct, &sec0, &pub0)
		e2sC.GenShare(r.sks[1], r.ct, &sec1, &pub1)
		if err := e2s.AggregateShares(pub0, pub1, &pub0); err != nil {
			panic(err)
		}
		rec := mpbgv.NewAdditiveShare(bp)
		e2sC.GetShare(&sec0, pub0, r.ct, &rec)
		crs, _ := sampling.NewKeyedPRNG([]byte("crs-s2e"))
		crp := s2e.SampleCRP(p.MaxLevel(), crs)
		c0, c1 := s2e.AllocateShare(p.MaxLevel()), s2eC.AllocateShare(p.MaxLevel())
		if err := s2e.GenShare(r.sks[0], crp, rec, &c0); err != nil {
			panic(err)
		}
		if err := s2eC.GenShare(r.sks[1], crp, sec1, &c1); err != nil {
			panic(err)
		}
		if err := s2eC.AggregateShares(c0, c1, &c0); err != nil {
			panic(err)
		}
		out := bgv.NewCiphertext(bp, 1, p.MaxLevel())
		if err := s2eC.GetEncryption(c0, crp, out); err != nil {
			panic(err)
		}
		*out.MetaData = *r.ct.MetaData
		ok, _ := r.checkB(out, r.ideal, r.msgB)
		return []ProbeOp{{"shares from a copied instance re-encrypt to the message", ok, ""}}
	})
	return
}
