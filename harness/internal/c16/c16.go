// Package c16 replays TLC-generated aggregation schedules and protocol configurations on the collective
// key-switching, share-conversion and refresh protocols (multiparty, mpbgv, mpckks) and records shares
// (digests), final outputs (message, level, scale, noise) and the smudging noise of individual shares for
// validation against spec/MPSwitchTrace.tla.
package c16

import (
	"bufio"
	"bytes"
	"crypto/sha256"
	"encoding/hex"
	"encoding/json"
	"flag"
	"fmt"
	"io"
	"math"
	"math/big"
	"os"

	"github.com/tuneinsight/lattigo/v6/core/rlwe"
	"github.com/tuneinsight/lattigo/v6/multiparty"
	"github.com/tuneinsight/lattigo/v6/multiparty/mpbgv"
	"github.com/tuneinsight/lattigo/v6/multiparty/mpckks"
	"github.com/tuneinsight/lattigo/v6/ring"
	"github.com/tuneinsight/lattigo/v6/schemes/bgv"
	"github.com/tuneinsight/lattigo/v6/schemes/ckks"
	"github.com/tuneinsight/lattigo/v6/utils/bignum"
	"github.com/tuneinsight/lattigo/v6/utils/sampling"

	"verif/harness/internal/tr"
)

type step struct {
	Ev    string `json:"ev"`
	Party int    `json:"party"`
	Id    int    `json:"id"`
	A     int    `json:"a"`
	B     int    `json:"b"`
	Out   int    `json:"out"`
}

type config struct {
	Proto   string `json:"proto"`
	InLvl   int    `json:"inlvl"`
	OutLvl  int    `json:"outlvl"`
	LgSigma int    `json:"lgsigma"`
	Sc      string `json:"sc"`
	F       string `json:"f"`
}

type program struct {
	Set   string `json:"set"`
	N     int    `json:"n"`
	C     config `json:"c"`
	Sched []step `json:"sched"`
}

type event struct {
	Ev       string `json:"ev"`
	Prog     int    `json:"prog"`
	Fork     int    `json:"fork"`
	Set      string `json:"set,omitempty"`
	Proto    string `json:"proto,omitempty"`
	Party    int    `json:"party,omitempty"`
	Id       int    `json:"id,omitempty"`
	A        int    `json:"a,omitempty"`
	B        int    `json:"b,omitempty"`
	Out      int    `json:"out,omitempty"`
	Tag      string `json:"tag,omitempty"`
	Dig      string `json:"dig"`
	Err      bool   `json:"err"`
	Panic    bool   `json:"panic"`
	Msg      string `json:"msg,omitempty"`
	N        int    `json:"n"`
	LogN     int    `json:"logn"`
	LgT      int    `json:"lgt"`
	InLvl    int    `json:"inlvl"`
	OutLvl   int    `json:"outlvl"`
	LgSigma  int    `json:"lgsigma"`
	F        string `json:"f,omitempty"`
	Sc       string `json:"sc,omitempty"`
	Same     bool   `json:"same"`
	Lvl      int    `json:"lvl"`
	ScaleOK  bool   `json:"scaleok"`
	Noise    int    `json:"noise"`
	InNoise  int    `json:"innoise"`
	VarBits  int    `json:"varbits"`
	MaxBits  int    `json:"maxbits"`
	QDivN    []int  `json:"qdivn,omitempty"`
	LogBound int    `json:"logbound"`
	MinLevel int    `json:"minlevel"`
	OK       bool   `json:"ok"`
	Lambda   int    `json:"lambda"`
	LgRatio  int    `json:"lgratio"`
}

type wobj interface {
	io.WriterTo
	io.ReaderFrom
	MarshalBinary() ([]byte, error)
}

func digest(o wobj) string {
	b, err := o.MarshalBinary()
	if err != nil {
		return "ERR:" + err.Error()
	}
	h := sha256.Sum256(b)
	return hex.EncodeToString(h[:8])
}

func guarded(f func() error) (err error, panicked bool, msg string) {
	defer func() {
		if r := recover(); r != nil {
			panicked = true
			msg = fmt.Sprint(r)
			if len(msg) > 200 {
				msg = msg[:200]
			}
		}
	}()
	err = f()
	if err != nil {
		msg = err.Error()
	}
	return
}

// ---------------------------------------------------------------------------------------------- parameter sets

type set struct {
	name   string
	bgv    *bgv.Parameters
	ckks   *ckks.Parameters
	p      rlwe.Parameters
	sparse int // ckks LogSlots (0: full)
}

func sets() map[string]*set {
	out := map[string]*set{}
	addB := func(name string, lit bgv.ParametersLiteral) {
		p, err := bgv.NewParametersFromLiteral(lit)
		tr.Must(err)
		out[name] = &set{name: name, bgv: &p, p: p.Parameters}
	}
	addC := func(name string, lit ckks.ParametersLiteral, sparse int) {
		p, err := ckks.NewParametersFromLiteral(lit)
		tr.Must(err)
		out[name] = &set{name: name, ckks: &p, p: p.Parameters, sparse: sparse}
	}
	addB("bgv97", bgv.ParametersLiteral{LogN: 9, LogQ: []int{50, 40, 40, 40}, LogP: []int{50}, PlaintextModulus: 97})
	addB("bgv65537", bgv.ParametersLiteral{LogN: 9, LogQ: []int{55, 45, 45, 45}, LogP: []int{55}, PlaintextModulus: 65537})
	// a plaintext modulus beyond 32 bits (shares and masks are sampled and reduced modulo T in 64-bit words)
	addB("bgv37", bgv.ParametersLiteral{LogN: 9, LogQ: []int{60, 50, 50, 50}, LogP: []int{60}, PlaintextModulus: 0x1000090001})
	addC("ckks", ckks.ParametersLiteral{LogN: 9, LogQ: []int{55, 45, 45, 45, 45}, LogP: []int{55}, LogDefaultScale: 45}, 0)
	addC("ckks-sparse", ckks.ParametersLiteral{LogN: 9, LogQ: []int{55, 45, 45, 45, 45}, LogP: []int{55}, LogDefaultScale: 45}, 3)
	addC("ckks-ci", ckks.ParametersLiteral{LogN: 9, LogQ: []int{55, 45, 45, 45, 45}, LogP: []int{55}, LogDefaultScale: 45, RingType: ring.ConjugateInvariant}, 0)
	return out
}

// Describe prints the chain sizes python needs to instantiate MPSwitchGen.
func describe() {
	type d struct {
		Name   string `json:"name"`
		LgQ    []int  `json:"lgq"`
		LgT    int    `json:"lgt"`
		LogN   int    `json:"logn"`
		Scheme string `json:"scheme"`
	}
	var out []d
	for _, s := range sets() {
		x := d{Name: s.name, LogN: s.p.LogN()}
		for l := 0; l <= s.p.MaxLevel(); l++ {
			x.LgQ = append(x.LgQ, s.p.RingQ().ModulusAtLevel[l].BitLen()-1)
		}
		if s.bgv != nil {
			x.LgT, x.Scheme = bits(s.bgv.PlaintextModulus()), "bgv"
		} else {
			x.LgT, x.Scheme = s.ckks.LogDefaultScale()+6, "ckks"
		}
		out = append(out, x)
	}
	b, _ := json.Marshal(out)
	fmt.Println("RESULT " + string(b))
}

func bits(x uint64) int { return new(big.Int).SetUint64(x).BitLen() }

// ---------------------------------------------------------------------------------------------- one run

type run struct {
	s       *set
	n       int
	sks     []*rlwe.SecretKey
	skOut   []*rlwe.SecretKey
	ideal   *rlwe.SecretKey
	idealO  *rlwe.SecretKey
	pkOut   *rlwe.PublicKey
	becd    *bgv.Encoder
	cecd    *ckks.Encoder
	c       config
	ct      *rlwe.Ciphertext
	msgB    []uint64
	msgC    []complex128
	inNoise int
}

func sumKeys(p rlwe.Parameters, sks []*rlwe.SecretKey) *rlwe.SecretKey {
	out := rlwe.NewSecretKey(p)
	rqp := p.RingQP()
	for _, s := range sks {
		rqp.Add(out.Value, s.Value, out.Value)
	}
	return out
}

var runCache = map[string]*run{}

func newRun(s *set, n int) *run {
	key := fmt.Sprintf("%s/%d", s.name, n)
	if r, ok := runCache[key]; ok {
		cp := *r
		return &cp
	}
	r := &run{s: s, n: n}
	kg := rlwe.NewKeyGenerator(s.p)
	for i := 0; i < n; i++ {
		r.sks = append(r.sks, kg.GenSecretKeyNew())
		r.skOut = append(r.skOut, kg.GenSecretKeyNew())
	}
	r.ideal = sumKeys(s.p, r.sks)
	r.idealO = sumKeys(s.p, r.skOut)
	r.pkOut = kg.GenPublicKeyNew(r.idealO)
	if s.bgv != nil {
		r.becd = bgv.NewEncoder(*s.bgv)
	} else {
		r.cecd = ckks.NewEncoder(*s.ckks)
	}
	runCache[key] = r
	cp := *r
	return &cp
}

func (r *run) logSlots() int {
	if r.s.sparse > 0 {
		return r.s.sparse
	}
	return r.s.ckks.LogMaxSlots()
}

// input builds the input ciphertext of the configuration: encrypted under the ideal secret at the top level,
// brought to the input level, with the default or another scale.
func (r *run) input(seed int) {
	c := r.c
	if r.s.bgv != nil {
		p := *r.s.bgv
		t := p.PlaintextModulus()
		r.msgB = make([]uint64, p.MaxSlots())
		for i := range r.msgB {
			r.msgB[i] = uint64(i*7+seed*13+1) % t
		}
		pt := bgv.NewPlaintext(p, p.MaxLevel())
		if c.Sc == "other" {
			pt.Scale = p.NewScale(3)
		}
		if c.F == "coef" || c.F == "permenc" {
			pt.IsBatched = false
		}
		tr.Must(r.becd.Encode(r.msgB, pt))
		ct, err := rlwe.NewEncryptor(p, r.ideal).EncryptNew(pt)
		tr.Must(err)
		ev := bgv.NewEvaluator(p, nil, false)
		ev.DropLevel(ct, ct.Level()-c.InLvl)
		r.ct = ct
		_, r.inNoise = r.checkB(ct, r.ideal, r.msgB)
	} else {
		p := *r.s.ckks
		n := 1 << r.logSlots()
		r.msgC = make([]complex128, n)
		for i := range r.msgC {
			r.msgC[i] = complex(float64((i*7+seed)%17)/8-1, float64((i*3+seed)%5)/4-0.5)
			if p.RingType() == ring.ConjugateInvariant {
				r.msgC[i] = complex(real(r.msgC[i]), 0)
			}
		}
		pt := ckks.NewPlaintext(p, p.MaxLevel())
		pt.LogDimensions.Cols = r.logSlots()
		if c.Sc == "other" {
			pt.Scale = rlwe.NewScale(math.Exp2(40) * 1.25)
		}
		tr.Must(r.cecd.Encode(r.msgC, pt))
		ct, err := rlwe.NewEncryptor(p, r.ideal).EncryptNew(pt)
		tr.Must(err)
		ev := ckks.NewEvaluator(p, nil)
		ev.DropLevel(ct, ct.Level()-c.InLvl)
		r.ct = ct
		_, r.inNoise = r.checkC(ct, r.ideal, r.msgC)
	}
}

// checkB: does ct decrypt (under sk) and decode (with its recorded metadata) to want; noise in bits, times t.
func (r *run) checkB(ct *rlwe.Ciphertext, sk *rlwe.SecretKey, want []uint64) (ok bool, noise int) {
	return r.checkBAs(ct, sk, want, nil)
}

// checkBAs: as checkB, reading the plaintext as slots (true) or coefficients (false) when batched is given.
func (r *run) checkBAs(ct *rlwe.Ciphertext, sk *rlwe.SecretKey, want []uint64, batched *bool) (ok bool, noise int) {
	p := *r.s.bgv
	pt := rlwe.NewDecryptor(p, sk).DecryptNew(ct)
	if batched != nil {
		pt.IsBatched = *batched
	}
	have := make([]uint64, p.MaxSlots())
	if err := r.becd.Decode(pt, have); err != nil {
		return false, 999
	}
	ok = true
	for i := range want {
		if have[i] != want[i] {
			ok = false
		}
	}
	pt2 := bgv.NewPlaintext(p, pt.Level())
	pt2.MetaData = pt.MetaData.CopyNew()
	tr.Must(r.becd.Encode(have, pt2))
	rq := p.RingQ().AtLevel(pt.Level())
	d := rq.NewPoly()
	rq.Sub(pt.Value, pt2.Value, d)
	rq.INTT(d, d)
	rq.MulScalar(d, p.PlaintextModulus(), d)
	cs := make([]*big.Int, rq.N())
	for i := range cs {
		cs[i] = new(big.Int)
	}
	rq.PolyToBigintCentered(d, 1, cs)
	for _, c := range cs {
		if b := c.BitLen(); b > noise {
			noise = b
		}
	}
	return
}

// checkC: decrypt and decode with the recorded metadata; values within 2^-20; noise = bits of the largest
// coefficient of (decryption - re-encoding of the expected values).
func (r *run) checkC(ct *rlwe.Ciphertext, sk *rlwe.SecretKey, want []complex128) (ok bool, noise int) {
	p := *r.s.ckks
	pt := rlwe.NewDecryptor(p, sk).DecryptNew(ct)
	have := make([]complex128, len(want))
	if err := r.cecd.Decode(pt, have); err != nil {
		return false, 999
	}
	// worst case: every coefficient carries n errors of 6 sigma; a slot sums N coefficients
	tol := math.Exp2(float64(r.c.LgSigma+3+bits(uint64(r.n))+2+p.LogN()) - math.Log2(ct.Scale.Float64()))
	if tol < 1e-5 {
		tol = 1e-5
	}
	ok = true
	for i := range want {
		if math.Abs(real(have[i])-real(want[i])) > tol || math.Abs(imag(have[i])-imag(want[i])) > tol || math.IsNaN(real(have[i])) {
			ok = false
		}
	}
	pt2 := ckks.NewPlaintext(p, pt.Level())
	pt2.MetaData = pt.MetaData.CopyNew()
	if err := r.cecd.Encode(want, pt2); err != nil {
		return ok, 999
	}
	rq := p.RingQ().AtLevel(pt.Level())
	d := rq.NewPoly()
	rq.Sub(pt.Value, pt2.Value, d)
	if pt.IsNTT {
		rq.INTT(d, d)
	}
	cs := make([]*big.Int, rq.N())
	for i := range cs {
		cs[i] = new(big.Int)
	}
	rq.PolyToBigintCentered(d, 1, cs)
	for _, c := range cs {
		if b := c.BitLen(); b > noise {
			noise = b
		}
	}
	return
}

func (r *run) noiseDist() ring.DistributionParameters {
	s := math.Exp2(float64(r.c.LgSigma))
	if r.c.LgSigma == 3 {
		s = 3.2
	}
	return ring.DiscreteGaussian{Sigma: s, Bound: 6 * s}
}

// ---------------------------------------------------------------------------------------------- protocols

type final struct {
	same    bool
	lvl     int
	scaleOK bool
	noise   int
}

type proto struct {
	name     string
	tag      string
	gen      func(i int) wobj
	alloc    func() wobj
	agg      func(a, b, out wobj) error
	finalize func(s wobj) (final, error)
	smudge   func(i int, s wobj) (varbits, maxbits int, ok bool) // error of party i's share
}

// errStats: variance (floor log2) and infinity norm (bits) of a centred polynomial given in the NTT domain or not.
func errStats(rq *ring.Ring, e ring.Poly, ntt bool) (varbits, maxbits int) {
	d := rq.NewPoly()
	d.Copy(e)
	if ntt {
		rq.INTT(d, d)
	}
	cs := make([]*big.Int, rq.N())
	for i := range cs {
		cs[i] = new(big.Int)
	}
	rq.PolyToBigintCentered(d, 1, cs)
	sum := new(big.Int)
	for _, c := range cs {
		sum.Add(sum, new(big.Int).Mul(c, c))
		if b := c.BitLen(); b > maxbits {
			maxbits = b
		}
	}
	sum.Div(sum, big.NewInt(int64(len(cs))))
	varbits = sum.BitLen() - 1
	return
}

// c1 * (sIn - sOut) at the share's level, NTT domain
func (r *run) c1Delta(c1 ring.Poly, c1NTT bool, sIn, sOut *rlwe.SecretKey, lvl int) ring.Poly {
	rq := r.s.p.RingQ().AtLevel(lvl)
	d := rq.NewPoly()
	if sIn != nil {
		rq.Add(d, sIn.Value.Q, d)
	}
	if sOut != nil {
		rq.Sub(d, sOut.Value.Q, d)
	}
	a := rq.NewPoly()
	a.CopyLvl(lvl, c1)
	if !c1NTT {
		rq.NTT(a, a)
	}
	out := rq.NewPoly()
	rq.MulCoeffsMontgomery(a, d, out) // secret keys are in the Montgomery form
	return out
}

// Every party runs its own protocol instance, as a deployment with one goroutine per party does: party 0 the
// constructed one, odd parties a ShallowCopy of it, the other even parties a copy of a copy.
type shallow[T any] interface{ ShallowCopy() T }

func partyInst[T shallow[T]](cache map[int]T, base T, i int) T {
	if i == 0 {
		return base
	}
	if v, ok := cache[i]; ok {
		return v
	}
	v := base.ShallowCopy()
	if i%2 == 0 {
		v = v.ShallowCopy()
	}
	cache[i] = v
	return v
}

func (r *run) protoKS(target string) *proto {
	p := r.s.p
	pr, err := multiparty.NewKeySwitchProtocol(p, r.noiseDist())
	tr.Must(err)
	outKey := func(i int) *rlwe.SecretKey {
		if target == "ks0" {
			return rlwe.NewSecretKey(p)
		}
		return r.skOut[i]
	}
	ksInst := map[int]multiparty.KeySwitchProtocol{}
	lvl := r.ct.Level()
	allocLvl := lvl
	if r.c.Sc == "other" { // shares allocated at the top level: GenShare brings them to the ciphertext's level
		allocLvl = p.MaxLevel()
	}
	return &proto{name: target, tag: target,
		gen: func(i int) wobj {
			pr := partyInst(ksInst, pr, i)
			s := pr.AllocateShare(allocLvl)
			pr.GenShare(r.sks[i], outKey(i), r.ct, &s)
			return &s
		},
		alloc: func() wobj { s := pr.AllocateShare(lvl); return &s },
		agg: func(a, b, out wobj) error {
			return pr.AggregateShares(*a.(*multiparty.KeySwitchShare), *b.(*multiparty.KeySwitchShare), out.(*multiparty.KeySwitchShare))
		},
		finalize: func(s wobj) (final, error) {
			out := rlwe.NewCiphertext(p, 1, p.MaxLevel())
			pr.KeySwitch(r.ct, *s.(*multiparty.KeySwitchShare), out)
			key := r.idealO
			if target == "ks0" {
				key = rlwe.NewSecretKey(p)
			}
			return r.judge(out, key, false), nil
		},
		smudge: func(i int, s wobj) (int, int, bool) {
			sh := s.(*multiparty.KeySwitchShare)
			l := sh.Value.Level()
			rq := p.RingQ().AtLevel(l)
			var so *rlwe.SecretKey
			if target != "ks0" {
				so = r.skOut[i]
			}
			e := rq.NewPoly()
			v := rq.NewPoly()
			v.CopyLvl(l, sh.Value)
			if !r.ct.IsNTT {
				rq.NTT(v, v)
			}
			rq.Sub(v, r.c1Delta(r.ct.Value[1], r.ct.IsNTT, r.sks[i], so, l), e)
			vb, mb := errStats(rq, e, true)
			return vb, mb, true
		},
	}
}

// judge decrypts an output ciphertext and compares with the (transformed) message.
func (r *run) judge(out *rlwe.Ciphertext, key *rlwe.SecretKey, transformed bool) final {
	f := final{lvl: out.Level()}
	if r.s.bgv != nil {
		want := r.msgB
		if transformed {
			want = r.applyB(want)
		}
		f.same, f.noise = r.checkB(out, key, want)
		f.scaleOK = f.same
	} else {
		want := r.msgC
		if transformed {
			want = r.applyC(want)
		}
		f.same, f.noise = r.checkC(out, key, want)
		f.scaleOK = f.same
	}
	return f
}

func (r *run) protoPKS() *proto {
	p := r.s.p
	pr, err := multiparty.NewPublicKeySwitchProtocol(p, r.noiseDist())
	tr.Must(err)
	lvl := r.ct.Level()
	pksInst := map[int]multiparty.PublicKeySwitchProtocol{}
	return &proto{name: "pks", tag: "pks",
		gen: func(i int) wobj {
			pr := partyInst(pksInst, pr, i)
			s := pr.AllocateShare(lvl)
			pr.GenShare(r.sks[i], r.pkOut, r.ct, &s)
			return &s
		},
		alloc: func() wobj { s := pr.AllocateShare(lvl); return &s },
		agg: func(a, b, out wobj) error {
			return pr.AggregateShares(*a.(*multiparty.PublicKeySwitchShare), *b.(*multiparty.PublicKeySwitchShare), out.(*multiparty.PublicKeySwitchShare))
		},
		finalize: func(s wobj) (final, error) {
			out := rlwe.NewCiphertext(p, 1, p.MaxLevel())
			pr.KeySwitch(r.ct, *s.(*multiparty.PublicKeySwitchShare), out)
			return r.judge(out, r.idealO, false), nil
		},
		// h0 + h1 * s_out - c1 * s_i = fresh public-key encryption noise + the smudging term
		smudge: func(i int, s wobj) (int, int, bool) {
			sh := s.(*multiparty.PublicKeySwitchShare)
			l := sh.Value[0].Level()
			rq := p.RingQ().AtLevel(l)
			v := rq.NewPoly()
			h0, h1 := rq.NewPoly(), rq.NewPoly()
			h0.CopyLvl(l, sh.Value[0])
			h1.CopyLvl(l, sh.Value[1])
			if !r.ct.IsNTT {
				rq.NTT(h0, h0)
				rq.NTT(h1, h1)
			}
			rq.MulCoeffsMontgomery(h1, r.idealO.Value.Q, v)
			rq.Add(v, h0, v)
			e := rq.NewPoly()
			rq.Sub(v, r.c1Delta(r.ct.Value[1], r.ct.IsNTT, r.sks[i], nil, l), e)
			vb, mb := errStats(rq, e, true)
			return vb, mb, true
		},
	}
}

// transform functions
func (r *run) applyB(v []uint64) []uint64 {
	t := r.s.bgv.PlaintextModulus()
	out := append([]uint64{}, v...)
	switch r.c.F {
	case "neg":
		for i := range out {
			out[i] = (t - out[i]) % t
		}
	case "times3":
		for i := range out {
			out[i] = (out[i] * 3) % t
		}
	case "perm", "permdec", "permenc":
		for i := range out {
			out[i] = v[(i+1)%len(v)]
		}
	}
	return out
}

func (r *run) applyC(v []complex128) []complex128 {
	out := append([]complex128{}, v...)
	switch r.c.F {
	case "neg":
		for i := range out {
			out[i] = -out[i]
		}
	case "times3":
		for i := range out {
			out[i] = out[i] * 3
		}
	case "perm":
		for i := range out {
			out[i] = v[(i+1)%len(v)]
		}
	}
	return out
}

func (r *run) bgvFunc() *mpbgv.MaskedTransformFunc {
	if r.c.F == "none" {
		return nil
	}
	t := r.s.bgv.PlaintextModulus()
	dec := r.c.F != "coef" && r.c.F != "permenc"
	enc := r.c.F != "coef" && r.c.F != "permdec"
	return &mpbgv.MaskedTransformFunc{Decode: dec, Encode: enc, Func: func(c []uint64) {
		switch r.c.F {
		case "neg":
			for i := range c {
				c[i] = (t - c[i]) % t
			}
		case "times3":
			for i := range c {
				c[i] = (c[i] * 3) % t
			}
		case "perm", "permdec", "permenc":
			// the function sees the whole plaintext vector; rotate the first len(msg) entries
			n := len(r.msgB)
			first := c[0]
			for i := 0; i < n-1; i++ {
				c[i] = c[i+1]
			}
			c[n-1] = first
		}
	}}
}

func (r *run) ckksFunc() *mpckks.MaskedLinearTransformationFunc {
	if r.c.F == "none" {
		return nil
	}
	return &mpckks.MaskedLinearTransformationFunc{Decode: true, Encode: true, Func: func(c []*bignum.Complex) {
		switch r.c.F {
		case "neg":
			for i := range c {
				c[i][0].Neg(c[i][0])
				c[i][1].Neg(c[i][1])
			}
		case "times3":
			three := new(big.Float).SetInt64(3)
			for i := range c {
				c[i][0].Mul(c[i][0], three)
				c[i][1].Mul(c[i][1], three)
			}
		case "perm":
			first := c[0]
			copy(c, c[1:])
			c[len(c)-1] = first
		}
	}}
}

type bgvE2SShare struct {
	pub  multiparty.KeySwitchShare
	priv []multiparty.AdditiveShare // the secret shares of the members (never on the wire; carried for the harness only)
	who  []int
}

// protoRefreshB: refresh / masked transform of the integer scheme.
func (r *run) protoRefreshB() *proto {
	p := *r.s.bgv
	nd := r.noiseDist()
	pr, err := mpbgv.NewMaskedTransformProtocol(p, p, nd)
	tr.Must(err)
	crs, _ := sampling.NewKeyedPRNG([]byte("crs-refresh"))
	crp := pr.SampleCRP(r.c.OutLvl, crs)
	f := r.bgvFunc()
	name := r.c.Proto
	trInst := map[int]mpbgv.MaskedTransformProtocol{}
	return &proto{name: name, tag: name,
		gen: func(i int) wobj {
			pr := partyInst(trInst, pr, i)
			s := pr.AllocateShare(r.ct.Level(), r.c.OutLvl)
			if err := pr.GenShare(r.sks[i], r.sks[i], r.ct, crp, f, &s); err != nil {
				panic(err)
			}
			return &s
		},
		alloc: func() wobj { s := pr.AllocateShare(r.ct.Level(), r.c.OutLvl); return &s },
		agg: func(a, b, out wobj) error {
			return pr.AggregateShares(*a.(*multiparty.RefreshShare), *b.(*multiparty.RefreshShare), out.(*multiparty.RefreshShare))
		},
		finalize: func(s wobj) (final, error) {
			// every party finalises from the same aggregate: the one judged is the second finalisation
			out0 := bgv.NewCiphertext(p, 1, p.MaxLevel())
			if err := pr.Transform(r.ct, f, crp, *s.(*multiparty.RefreshShare), out0); err != nil {
				return final{}, err
			}
			out := bgv.NewCiphertext(p, 1, p.MaxLevel())
			if err := pr.Transform(r.ct, f, crp, *s.(*multiparty.RefreshShare), out); err != nil {
				return final{}, err
			}
			switch r.c.F {
			case "coef":
				return r.judge(out, r.ideal, false), nil
			case "permdec", "permenc":
				// Decode only: the output carries f(slots) as coefficients; Encode only: f(coefficients) as slots
				asSlots := r.c.F == "permenc"
				fin := final{lvl: out.Level()}
				fin.same, fin.noise = r.checkBAs(out, r.ideal, r.applyB(r.msgB), &asSlots)
				fin.scaleOK = fin.same
				return fin, nil
			}
			return r.judge(out, r.ideal, f != nil), nil
		},
	}
}

func (r *run) logBound() uint {
	// lambda = 10 bits above the scale and the message
	return uint(10 + int(math.Ceil(math.Log2(r.ct.Scale.Float64()))) + 2)
}

func (r *run) protoRefreshC() *proto {
	p := *r.s.ckks
	nd := r.noiseDist()
	pr, err := mpckks.NewMaskedLinearTransformationProtocol(p, p, 128, nd)
	tr.Must(err)
	crs, _ := sampling.NewKeyedPRNG([]byte("crs-refresh"))
	crp := pr.SampleCRP(r.c.OutLvl, crs)
	f := r.ckksFunc()
	name := r.c.Proto
	lb := r.logBound()
	trInst := map[int]mpckks.MaskedLinearTransformationProtocol{}
	return &proto{name: name, tag: name,
		gen: func(i int) wobj {
			pr := partyInst(trInst, pr, i)
			s := pr.AllocateShare(r.ct.Level(), r.c.OutLvl)
			if err := pr.GenShare(r.sks[i], r.sks[i], lb, r.ct, crp, f, &s); err != nil {
				panic(err)
			}
			return &s
		},
		alloc: func() wobj { s := pr.AllocateShare(r.ct.Level(), r.c.OutLvl); return &s },
		agg: func(a, b, out wobj) error {
			return pr.AggregateShares(a.(*multiparty.RefreshShare), b.(*multiparty.RefreshShare), out.(*multiparty.RefreshShare))
		},
		finalize: func(s wobj) (final, error) {
			out0 := ckks.NewCiphertext(p, 1, p.MaxLevel())
			if err := pr.Transform(r.ct, f, crp, *s.(*multiparty.RefreshShare), out0); err != nil {
				return final{}, err
			}
			out := ckks.NewCiphertext(p, 1, p.MaxLevel())
			if err := pr.Transform(r.ct, f, crp, *s.(*multiparty.RefreshShare), out); err != nil {
				return final{}, err
			}
			fin := r.judge(out, r.ideal, f != nil)
			// the approximate refresh returns a ciphertext at the default scale
			fin.scaleOK = fin.scaleOK && out.Scale.Cmp(p.DefaultScale()) == 0
			return fin, nil
		},
	}
}

// pubOnly: encryption-to-shares (public shares aggregate; every party keeps its additive share) followed, for
// "s2e", by shares-to-encryption of the additive shares.
func (r *run) protoE2S() *proto {
	name := r.c.Proto
	if r.s.bgv != nil {
		p := *r.s.bgv
		e2s, err := mpbgv.NewEncToShareProtocol(p, r.noiseDist())
		tr.Must(err)
		s2e, err := mpbgv.NewShareToEncProtocol(p, r.noiseDist())
		tr.Must(err)
		priv := make([]multiparty.AdditiveShare, r.n)
		lvl := r.ct.Level()
		e2sInst := map[int]mpbgv.EncToShareProtocol{}
		s2eInst := map[int]mpbgv.ShareToEncProtocol{}
		pr := &proto{name: name, tag: name,
			gen: func(i int) wobj {
				priv[i] = mpbgv.NewAdditiveShare(p)
				e2s := partyInst(e2sInst, e2s, i)
				s := e2s.AllocateShare(lvl)
				e2s.GenShare(r.sks[i], r.ct, &priv[i], &s)
				return &s
			},
			alloc: func() wobj { s := e2s.AllocateShare(lvl); return &s },
			agg: func(a, b, out wobj) error {
				return e2s.AggregateShares(*a.(*multiparty.KeySwitchShare), *b.(*multiparty.KeySwitchShare), out.(*multiparty.KeySwitchShare))
			},
			smudge: func(i int, s wobj) (int, int, bool) {
				// pub_i = c1 s_i + e_i - NTT(T2Q(M_i)): add the mask back, remove c1 s_i
				sh := s.(*multiparty.KeySwitchShare)
				l := sh.Value.Level()
				rq := p.RingQ().AtLevel(l)
				m := rq.NewPoly()
				r.becd.RingT2Q(l, true, priv[i].Value, m)
				rq.NTT(m, m)
				e := rq.NewPoly()
				rq.Add(sh.Value, m, e)
				rq.Sub(e, r.c1Delta(r.ct.Value[1], true, r.sks[i], nil, l), e)
				vb, mb := errStats(rq, e, true)
				return vb, mb, true
			},
		}
		pr.finalize = func(s wobj) (final, error) {
			// party 0 collects: its additive share absorbs c0 + sum of the public shares
			agg := *s.(*multiparty.KeySwitchShare)
			collected := mpbgv.NewAdditiveShare(p)
			e2s.GetShare(&priv[0], agg, r.ct, &collected)
			rt := p.RingT()
			sum := rt.NewPoly()
			sum.Copy(collected.Value)
			for i := 1; i < r.n; i++ {
				rt.Add(sum, priv[i].Value, sum)
			}
			have := make([]uint64, p.MaxSlots())
			if err := r.becd.DecodeRingT(sum, r.ct.Scale, have); err != nil {
				return final{}, err
			}
			fin := final{same: true, lvl: lvl, scaleOK: true}
			for i := range r.msgB {
				if have[i] != r.msgB[i] {
					fin.same = false
				}
			}
			if name == "e2s" {
				return fin, nil
			}
			// shares-to-encryption of the additive shares at the requested level, any aggregation order is
			// covered by the e2s part; here left to right
			crs, _ := sampling.NewKeyedPRNG([]byte("crs-s2e"))
			crp := s2e.SampleCRP(r.c.OutLvl, crs)
			acc := s2e.AllocateShare(r.c.OutLvl)
			for i := 0; i < r.n; i++ {
				sh := s2e.AllocateShare(r.c.OutLvl)
				add := priv[i]
				if i == 0 {
					add = collected
				}
				if err := partyInst(s2eInst, s2e, i).GenShare(r.sks[i], crp, add, &sh); err != nil {
					return final{}, err
				}
				if i == 0 {
					acc = sh
				} else if err := s2e.AggregateShares(acc, sh, &acc); err != nil {
					return final{}, err
				}
			}
			out := bgv.NewCiphertext(p, 1, r.c.OutLvl)
			*out.MetaData = *r.ct.MetaData
			if err := s2e.GetEncryption(acc, crp, out); err != nil {
				return final{}, err
			}
			f2 := r.judge(out, r.ideal, false)
			f2.same = f2.same && fin.same
			return f2, nil
		}
		return pr
	}
	p := *r.s.ckks
	e2s, err := mpckks.NewEncToShareProtocol(p, r.noiseDist())
	tr.Must(err)
	s2e, err := mpckks.NewShareToEncProtocol(p, r.noiseDist())
	tr.Must(err)
	priv := make([]multiparty.AdditiveShareBigint, r.n)
	lvl := r.ct.Level()
	lb := r.logBound()
	e2sInst := map[int]mpckks.EncToShareProtocol{}
	s2eInst := map[int]mpckks.ShareToEncProtocol{}
	pr := &proto{name: name, tag: name,
		gen: func(i int) wobj {
			priv[i] = mpckks.NewAdditiveShare(p, r.ct.LogSlots())
			e2s := partyInst(e2sInst, e2s, i)
			s := e2s.AllocateShare(lvl)
			if err := e2s.GenShare(r.sks[i], lb, r.ct, &priv[i], &s); err != nil {
				panic(err)
			}
			return &s
		},
		alloc: func() wobj { s := e2s.AllocateShare(lvl); return &s },
		agg: func(a, b, out wobj) error {
			return e2s.AggregateShares(*a.(*multiparty.KeySwitchShare), *b.(*multiparty.KeySwitchShare), out.(*multiparty.KeySwitchShare))
		},
	}
	pr.finalize = func(s wobj) (final, error) {
		agg := *s.(*multiparty.KeySwitchShare)
		// the receiver of the finalising party is allocated for the maximum slot count (a share buffer reused across
		// ciphertexts): only the entries the ciphertext needs are meaningful
		collected := mpckks.NewAdditiveShare(p, p.LogMaxSlots())
		e2s.GetShare(&priv[0], agg, r.ct, &collected)
		collected.Value = collected.Value[:len(priv[0].Value)]
		// sum of the additive shares against the centred decryption of the input under the ideal secret
		dslots := len(collected.Value)
		sum := make([]*big.Int, dslots)
		for k := range sum {
			sum[k] = new(big.Int).Set(collected.Value[k])
			for i := 1; i < r.n; i++ {
				sum[k].Add(sum[k], priv[i].Value[k])
			}
		}
		rq := p.RingQ().AtLevel(lvl)
		dec := rlwe.NewDecryptor(p, r.ideal).DecryptNew(r.ct)
		d := rq.NewPoly()
		d.CopyLvl(lvl, dec.Value)
		if dec.IsNTT {
			rq.INTT(d, d)
		}
		cs := make([]*big.Int, rq.N())
		for i := range cs {
			cs[i] = new(big.Int)
		}
		rq.PolyToBigintCentered(d, 1, cs)
		gap := rq.N() / dslots
		fin := final{same: true, lvl: lvl, scaleOK: true}
		for k := 0; k < dslots; k++ {
			diff := new(big.Int).Sub(sum[k], cs[k*gap])
			if b := diff.BitLen(); b > fin.noise {
				fin.noise = b
			}
		}
		// the shares must carry the message, not merely be close to each other: bound checked by the specification
		if name == "e2s" {
			return fin, nil
		}
		crs, _ := sampling.NewKeyedPRNG([]byte("crs-s2e"))
		crp := s2e.SampleCRP(r.c.OutLvl, crs)
		acc := s2e.AllocateShare(r.c.OutLvl)
		for i := 0; i < r.n; i++ {
			sh := s2e.AllocateShare(r.c.OutLvl)
			add := priv[i]
			if i == 0 {
				add = collected
			}
			if err := partyInst(s2eInst, s2e, i).GenShare(r.sks[i], crp, r.ct.MetaData, add, &sh); err != nil {
				return final{}, err
			}
			if i == 0 {
				acc = sh
			} else if err := s2e.AggregateShares(acc, sh, &acc); err != nil {
				return final{}, err
			}
		}
		out := ckks.NewCiphertext(p, 1, r.c.OutLvl)
		*out.MetaData = *r.ct.MetaData
		if err := s2e.GetEncryption(acc, crp, out); err != nil {
			return final{}, err
		}
		f2 := r.judge(out, r.ideal, false)
		if fin.noise > f2.noise {
			f2.noise = fin.noise
		}
		return f2, nil
	}
	return pr
}

func (r *run) proto() *proto {
	switch r.c.Proto {
	case "ks0", "ks":
		return r.protoKS(r.c.Proto)
	case "pks":
		return r.protoPKS()
	case "e2s", "s2e":
		return r.protoE2S()
	case "refresh", "transform":
		if r.s.bgv != nil {
			return r.protoRefreshB()
		}
		return r.protoRefreshC()
	}
	panic("proto " + r.c.Proto)
}

// ---------------------------------------------------------------------------------------------- driver

type driver struct {
	w    *tr.Writer
	prog int
	fork int
}

func (d *driver) emit(ev event) {
	d.fork++
	ev.Prog, ev.Fork = d.prog, d.fork
	d.w.Emit(ev)
}

func (d *driver) replay(pg program, s *set, seed int) {
	d.prog++
	d.fork = 0
	d.w.Emit(event{Ev: "new", Prog: d.prog, Set: pg.Set, Proto: pg.C.Proto, N: pg.N})
	r := newRun(s, pg.N)
	r.c = pg.C
	var p *proto
	_, pan, msg := guarded(func() error { r.input(seed); p = r.proto(); return nil })
	if pan {
		d.emit(event{Ev: "final", Proto: pg.C.Proto, Panic: true, Msg: "set-up: " + msg})
		return
	}
	base := event{Set: pg.Set, Proto: pg.C.Proto, N: pg.N, LogN: s.p.LogN(), InLvl: pg.C.InLvl, OutLvl: pg.C.OutLvl, LgSigma: pg.C.LgSigma, F: pg.C.F, Sc: pg.C.Sc, InNoise: r.inNoise}
	if s.bgv != nil {
		base.LgT = bits(s.bgv.PlaintextModulus())
	} else if pg.C.Proto == "refresh" || pg.C.Proto == "transform" {
		if ratio := s.ckks.DefaultScale().Float64() / r.ct.Scale.Float64(); ratio > 1 {
			base.LgRatio = int(math.Ceil(math.Log2(ratio)))
		}
		if pg.C.F == "times3" {
			base.LgRatio += 2
		}
	}
	objs := map[int]wobj{}
	var last int
	for _, st := range pg.Sched {
		switch st.Ev {
		case "gen":
			var o wobj
			err, pan, msg := guarded(func() error { o = p.gen(st.Party - 1); return nil })
			ev := event{Ev: "gen", Proto: p.name, Party: st.Party, Id: st.Id, Tag: p.tag, Err: err != nil, Panic: pan, Msg: msg}
			if o != nil {
				ev.Dig = digest(o)
				objs[st.Id] = o
				last = st.Id
			}
			d.emit(ev)
			if o != nil && p.smudge != nil && pg.C.LgSigma >= 10 {
				if vb, mb, ok := p.smudge(st.Party-1, o); ok {
					e := base
					e.Ev, e.Party, e.VarBits, e.MaxBits = "smudge", st.Party, vb, mb
					d.emit(e)
				}
			}
		case "agg":
			a, b := objs[st.A], objs[st.B]
			out, exists := objs[st.Out]
			if !exists {
				out = p.alloc()
			}
			err, pan, msg := guarded(func() error { return p.agg(a, b, out) })
			ev := event{Ev: "agg", Proto: p.name, A: st.A, B: st.B, Out: st.Out, Err: err != nil, Panic: pan, Msg: msg}
			if err == nil && !pan {
				objs[st.Out] = out
				ev.Dig = digest(out)
				last = st.Out
			}
			d.emit(ev)
		case "wire":
			a := objs[st.A]
			out := p.alloc()
			var buf bytes.Buffer
			err, pan, msg := guarded(func() error {
				bw := bufio.NewWriter(&buf)
				if _, e := a.WriteTo(bw); e != nil {
					return e
				}
				if e := bw.Flush(); e != nil {
					return e
				}
				_, e := out.ReadFrom(bufio.NewReader(&buf))
				return e
			})
			ev := event{Ev: "wire", Proto: p.name, A: st.A, Out: st.Out, Err: err != nil, Panic: pan, Msg: msg}
			if err == nil && !pan {
				objs[st.Out] = out
				ev.Dig = digest(out)
				last = st.Out
			}
			d.emit(ev)
		}
	}
	if last != 0 {
		var f final
		err, pan, msg := guarded(func() (e error) { f, e = p.finalize(objs[last]); return })
		e := base
		e.Ev, e.A, e.Same, e.Lvl, e.ScaleOK, e.Noise, e.Err, e.Panic, e.Msg = "final", last, f.same, f.lvl, f.scaleOK, f.noise, err != nil, pan, msg
		d.emit(e)
	}
}

// minLevels: GetMinimumLevelForRefresh against the exact condition floor(Q_L / n) >= 2^logBound, over a sweep
// of security parameters placed around every level boundary; a refresh below the minimum is refused.
func (d *driver) minLevels(s *set) {
	p := *s.ckks
	for n := 1; n <= 8; n++ {
		var qdivn []int
		for l := 0; l <= p.MaxLevel(); l++ {
			q := new(big.Int).Div(p.RingQ().ModulusAtLevel[l], big.NewInt(int64(n)))
			qdivn = append(qdivn, q.BitLen())
		}
		for l := 0; l <= p.MaxLevel(); l++ {
			base := p.RingQ().ModulusAtLevel[l].BitLen() - p.LogDefaultScale()
			for delta := -4; delta <= 1; delta++ {
				lambda := base + delta
				if lambda < 1 {
					continue
				}
				d.prog++
				d.fork = 0
				d.w.Emit(event{Ev: "new", Prog: d.prog, Set: s.name})
				e := event{Ev: "minlevel", Set: s.name, N: n, QDivN: qdivn, Lambda: lambda}
				_, pan, msg := guarded(func() error {
					ml, lb, ok := mpckks.GetMinimumLevelForRefresh(lambda, p.DefaultScale(), n, p.Q())
					e.MinLevel, e.LogBound, e.OK = ml, int(lb), ok
					if !ok {
						e.LogBound = lambda + p.LogDefaultScale()
					}
					return nil
				})
				e.Panic, e.Msg = pan, msg
				d.emit(e)
			}
		}
	}
	// a share requested for a ciphertext whose level cannot hold the masks must be refused
	d.prog++
	d.fork = 0
	d.w.Emit(event{Ev: "new", Prog: d.prog, Set: s.name})
	r := newRun(s, 2)
	r.c = config{Proto: "refresh", InLvl: 0, OutLvl: p.MaxLevel(), LgSigma: 3, Sc: "default", F: "none"}
	r.input(1)
	pr, err := mpckks.NewRefreshProtocol(p, 128, r.noiseDist())
	tr.Must(err)
	crs, _ := sampling.NewKeyedPRNG([]byte("crs"))
	crp := pr.SampleCRP(p.MaxLevel(), crs)
	sh := pr.AllocateShare(0, p.MaxLevel())
	e := event{Ev: "refused", Set: s.name, LogBound: p.RingQ().ModulusAtLevel[0].BitLen() + 3}
	gerr, pan, msg := guarded(func() error { return pr.GenShare(r.sks[0], uint(e.LogBound), r.ct, crp, &sh) })
	e.Err, e.Panic, e.Msg = gerr != nil, pan, msg
	d.emit(e)
}

func Main(args []string) int {
	if len(args) > 0 && args[0] == "describe" {
		describe()
		return 0
	}
	fs := flag.NewFlagSet("c16", flag.ExitOnError)
	progs := fs.String("progs", "", "programs (one JSON object per line)")
	trace := fs.String("trace", "", "trace output")
	seed := fs.Uint64("seed", 1, "seed")
	part := fs.Int("part", 0, "")
	parts := fs.Int("parts", 1, "")
	fs.Parse(args[1:])
	tr.Seed(*seed)
	all := sets()
	d := &driver{w: tr.NewWriter(*trace)}
	d.prog = *part * 1_000_000
	f, err := os.Open(*progs)
	tr.Must(err)
	sc := bufio.NewScanner(f)
	sc.Buffer(make([]byte, 1<<20), 1<<24)
	k := 0
	for sc.Scan() {
		if k%*parts == *part {
			var pg program
			tr.Must(json.Unmarshal(sc.Bytes(), &pg))
			d.replay(pg, all[pg.Set], int(*seed)+k)
		}
		k++
	}
	if *part == 0 {
		d.minLevels(all["ckks"])
	}
	d.w.Close()
	(&tr.Result{Events: d.w.N, Cases: d.prog - *part*1_000_000}).Print()
	return 0
}
