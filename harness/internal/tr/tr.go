// Package tr holds the ndjson trace writer, deterministic seeding and small helpers
// shared by all drivers.
package tr

import (
	"bufio"
	"crypto/sha256"
	"encoding/binary"
	"encoding/json"
	"fmt"
	"os"
	"sync/atomic"

	"github.com/tuneinsight/lattigo/v6/utils/sampling"
)

// Writer writes one JSON object per line.
type Writer struct {
	f *os.File
	w *bufio.Writer
	N int
}

func NewWriter(path string) *Writer {
	f, err := os.Create(path)
	if err != nil {
		panic(err)
	}
	return &Writer{f: f, w: bufio.NewWriterSize(f, 1<<20)}
}

func (w *Writer) Emit(ev interface{}) {
	b, err := json.Marshal(ev)
	if err != nil {
		panic(err)
	}
	w.w.Write(b)
	w.w.WriteByte('\n')
	w.N++
}

func (w *Writer) Close() {
	w.w.Flush()
	w.f.Close()
}

var seedCtr uint64
var seedBase uint64

// Seed makes every sampling.NewPRNG() of lattigo (hook H1, build tag verif) deterministic:
// the k-th PRNG created in this process is keyed by sha256(seed, k).
func Seed(seed uint64) {
	seedBase = seed
	atomic.StoreUint64(&seedCtr, 0)
	sampling.VerifKey = func() []byte {
		k := atomic.AddUint64(&seedCtr, 1)
		var b [16]byte
		binary.LittleEndian.PutUint64(b[:8], seedBase)
		binary.LittleEndian.PutUint64(b[8:], k)
		h := sha256.Sum256(b[:])
		key := make([]byte, 64)
		copy(key, h[:])
		copy(key[32:], h[:])
		return key
	}
}

// Must panics on error (driver set-up code only, never around a call under test).
func Must(err error) {
	if err != nil {
		panic(err)
	}
}

// Result is the summary a driver prints as its last stdout line.
type Result struct {
	Events     int                    `json:"events"`
	Cases      int                    `json:"cases"`
	Violations []string               `json:"violations,omitempty"`
	Extra      map[string]interface{} `json:"extra,omitempty"`
}

func (r *Result) Print() {
	b, _ := json.Marshal(r)
	fmt.Println("RESULT " + string(b))
}
