package c11

import (
	"fmt"
	"math/big"

	"github.com/tuneinsight/lattigo/v6/core/rlwe"
	"github.com/tuneinsight/lattigo/v6/ring"

	"verif/harness/internal/tr"
)

// traceSet drives rlwe.Evaluator.Trace at the rlwe level: the plaintext is a polynomial with small integer
// coefficients scaled by 2^30, so the effect of the trace is read off coefficient by coefficient.
type traceSet struct {
	name string
	lit  rlwe.ParametersLiteral
}

const traceDelta = 30

func traceSets() []traceSet {
	return []traceSet{
		{"std16", rlwe.ParametersLiteral{LogN: 4, LogQ: []int{55, 45}, LogP: []int{55}, NTTFlag: true}},
		{"std32-coeff", rlwe.ParametersLiteral{LogN: 5, LogQ: []int{55, 45}, LogP: []int{55}, NTTFlag: false}},
		{"std64-noP", rlwe.ParametersLiteral{LogN: 6, LogQ: []int{55, 45}, NTTFlag: true}},
		{"ci16", rlwe.ParametersLiteral{LogN: 4, LogQ: []int{55, 45}, LogP: []int{55}, NTTFlag: true, RingType: ring.ConjugateInvariant}},
		{"ci32", rlwe.ParametersLiteral{LogN: 5, LogQ: []int{55, 45}, LogP: []int{55}, NTTFlag: true, RingType: ring.ConjugateInvariant}},
	}
}

type coefCtx struct {
	p     rlwe.Parameters
	ks    *recKS
	eval  *rlwe.Evaluator
	fresh func(level int) (*rlwe.Ciphertext, []int64)
	read  func(ct *rlwe.Ciphertext) ([]int64, bool)
}

func (d *driver) newCoefCtx(ts traceSet) *coefCtx {
	{
		p, err := rlwe.NewParametersFromLiteral(ts.lit)
		tr.Must(err)
		kg := rlwe.NewKeyGenerator(p)
		sk := kg.GenSecretKeyNew()
		enc := rlwe.NewEncryptor(p, sk)
		dec := rlwe.NewDecryptor(p, sk)
		ks := &recKS{cache: map[uint64]*rlwe.GaloisKey{}, gen: func(g uint64) *rlwe.GaloisKey { return kg.GenGaloisKeyNew(g, sk, evkParams(p)...) }}
		ks.advertise(nil)
		eval := rlwe.NewEvaluator(p, ks)
		N := p.N()
		fresh := func(level int) (*rlwe.Ciphertext, []int64) {
			v := make([]int64, N)
			pt := rlwe.NewPlaintext(p, level)
			rq := p.RingQ().AtLevel(level)
			for k := range v {
				v[k] = int64(d.rng.Intn(17)) - 8
				if v[k] == 0 {
					v[k] = 9 // every coefficient is non-zero, so that a survivor is told from a vanished one
				}
				x := new(big.Int).Lsh(big.NewInt(v[k]), traceDelta)
				for i, s := range rq.SubRings[:level+1] {
					pt.Value.Coeffs[i][k] = new(big.Int).Mod(x, new(big.Int).SetUint64(s.Modulus)).Uint64()
				}
			}
			if pt.IsNTT {
				rq.NTT(pt.Value, pt.Value)
			}
			ct, err := enc.EncryptNew(pt)
			tr.Must(err)
			return ct, v
		}
		read := func(ct *rlwe.Ciphertext) ([]int64, bool) {
			out := make([]int64, N)
			if ct == nil {
				return out, false
			}
			pt := dec.DecryptNew(ct)
			rq := p.RingQ().AtLevel(ct.Level())
			if pt.IsNTT {
				rq.INTT(pt.Value, pt.Value)
			}
			bs := make([]*big.Int, N)
			for i := range bs {
				bs[i] = new(big.Int)
			}
			rq.PolyToBigintCentered(pt.Value, 1, bs)
			cons := true
			half := new(big.Int).Lsh(big.NewInt(1), traceDelta-1)
			for k, b := range bs {
				q := new(big.Int).Add(b, half)
				q.Rsh(q, traceDelta) // floor((b + 2^29) / 2^30)
				r := new(big.Int).Sub(b, new(big.Int).Lsh(q, traceDelta))
				if r.CmpAbs(new(big.Int).Lsh(big.NewInt(1), traceDelta-6)) > 0 || !q.IsInt64() || q.CmpAbs(big.NewInt(1<<20)) > 0 {
					cons = false
					q.SetInt64(1 << 20)
				}
				out[k] = q.Int64()
			}
			return out, cons
		}
		return &coefCtx{p: p, ks: ks, eval: eval, fresh: fresh, read: read}
	}
}

func (d *driver) traces() {
	for _, ts := range traceSets() {
		d.prog++
		d.fork = 0
		c := d.newCoefCtx(ts)
		p, ks, eval, fresh, read := c.p, c.ks, c.eval, c.fresh, c.read
		ci := p.RingType() == ring.ConjugateInvariant
		for logN := 0; logN < p.LogN(); logN++ {
			var adv []uint64
			_, pan, _ := guarded(func() error { adv = rlwe.GaloisElementsForTrace(p, logN); return nil })
			if pan {
				// documented: no key list for the full trace on the conjugate-invariant ring
				d.emit(ev{"ev": "refuse", "scheme": ts.name, "op": "GaloisElementsForTrace", "err": true, "panic": false, "lgn": logN})
				continue
			}
			for _, lv := range [][2]int{{1, 1}, {0, 0}, {1, 0}, {0, 1}} {
				for _, inplace := range []bool{false, true} {
					if inplace && lv[0] != lv[1] {
						continue
					}
					ct, v := fresh(lv[0])
					snap, _ := ct.MarshalBinary()
					wasNTT := ct.IsNTT
					o := ct
					if !inplace {
						o = rlwe.NewCiphertext(p, 1, lv[1])
						// the receiver holds unrelated data
						g, _ := fresh(lv[1])
						o.Copy(g)
					}
					ks.advertise(adv)
					err, pan, msg := guarded(func() error { return eval.Trace(ct, logN, o) })
					res, cons := read(o)
					inok := true
					if !inplace {
						after, _ := ct.MarshalBinary()
						inok = string(after) == string(snap)
					}
					min := lv[0]
					if lv[1] < min {
						min = lv[1]
					}
					d.emit(ev{"ev": "trace", "scheme": ts.name, "op": fmt.Sprintf("lgn=%d", logN), "logn": p.LogN(), "lgn": logN, "ci": ci, "v": v, "out": res,
						"inplace": inplace, "lvlin": lv[0], "lvlrecv": lv[1], "lvlout": o.Level(), "lvlmin": min, "nttok": o.IsNTT == wasNTT, // the result is in the domain of the input, in place as well
						"inok": inok, "adv": uniq(ks.GetGaloisKeysList()), "req": uniq(ks.req), "err": err != nil, "panic": pan, "cons": cons, "msg": msg})
				}
			}
		}
	}
}

// sums drives rlwe.Evaluator.PartialTracesSum and InnerFunction (with addition) in the coefficient domain:
// the expected plaintext is the sum over i < n of the automorphism X -> X^(5^(i*offset)) of the input polynomial.
func (d *driver) sums() {
	for _, ts := range traceSets() {
		d.prog++
		d.fork = 0
		c := d.newCoefCtx(ts)
		p := c.p
		ci := p.RingType() == ring.ConjugateInvariant
		slots := p.N() / 2
		if ci {
			slots = p.N()
		}
		for _, off := range []int{1, 2, 3, 4} {
			for n := 1; n*off <= slots && n <= 9; n++ {
				for _, op := range []string{"PartialTracesSum", "InnerFunction"} {
					if op == "PartialTracesSum" && p.PCount() == 0 {
						continue // hoisted: needs an auxiliary modulus, like the scheme-level sums
					}
					for _, inplace := range []bool{false, true} {
						if d.quick && inplace && (n+off)%2 == 0 {
							continue
						}
						lvin, lvrecv := 1, 1
						if !inplace && (n+off)%3 == 0 {
							lvrecv = 0
						}
						ct, v := c.fresh(lvin)
						snap, _ := ct.MarshalBinary()
						o := ct
						if !inplace {
							o = rlwe.NewCiphertext(p, 1, lvrecv)
							g, _ := c.fresh(lvrecv)
							o.Copy(g)
						}
						c.ks.advertise(rlwe.GaloisElementsForInnerSum(p, off, n))
						var err error
						var pan bool
						var msg string
						if op == "PartialTracesSum" {
							err, pan, msg = guarded(func() error { return c.eval.PartialTracesSum(ct, off, n, o) })
						} else {
							err, pan, msg = guarded(func() error {
								return c.eval.InnerFunction(ct, off, n, func(a, b, r *rlwe.Ciphertext) error {
									lv := r.Level()
									if a.Level() < lv {
										lv = a.Level()
									}
									if b.Level() < lv {
										lv = b.Level()
									}
									r.Resize(r.Degree(), lv)
									rq := p.RingQ().AtLevel(lv)
									rq.Add(a.Value[0], b.Value[0], r.Value[0])
									rq.Add(a.Value[1], b.Value[1], r.Value[1])
									return nil
								}, o)
							})
						}
						res, cons := c.read(o)
						inok := true
						if !inplace {
							after, _ := ct.MarshalBinary()
							inok = string(after) == string(snap)
						}
						d.emit(ev{"ev": "csum", "scheme": ts.name, "op": op, "m": p.RingQ().NthRoot(), "ci": ci, "off": off, "n": n, "v": v, "out": res,
							"inplace": inplace, "lvlin": lvin, "lvlrecv": lvrecv, "lvlout": o.Level(), "inok": inok,
							"adv": uniq(c.ks.GetGaloisKeysList()), "req": uniq(c.ks.req), "err": err != nil, "panic": pan, "cons": cons, "msg": msg})
					}
				}
			}
		}
	}
}
