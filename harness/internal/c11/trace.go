package c11

import (
	"fmt"
	"math/big"

	"github.com/tuneinsight/lattigo/v6/core/rlwe"
	"github.com/tuneinsight/lattigo/v6/ring"

	"verif/harness/internal/tr"
)

// traceSet drives rlwe.Evaluator.Trace at the rlwe level: the plaintext is a polynomial with small integer
// coefficients scaled by 2^30, so the effect of the trace is read off coefficient by coefficient.
type traceSet struct {
	name string
	lit  rlwe.ParametersLiteral
}

const traceDelta = 30

func traceSets() []traceSet {
	return []traceSet{
		{"std16", rlwe.ParametersLiteral{LogN: 4, LogQ: []int{55, 45}, LogP: []int{55}, NTTFlag: true}},
		{"std32-coeff", rlwe.ParametersLiteral{LogN: 5, LogQ: []int{55, 45}, LogP: []int{55}, NTTFlag: false}},
		{"std64-noP", rlwe.ParametersLiteral{LogN: 6, LogQ: []int{55, 45}, NTTFlag: true}},
		{"ci16", rlwe.ParametersLiteral{LogN: 4, LogQ: []int{55, 45}, LogP: []int{55}, NTTFlag: true, RingType: ring.ConjugateInvariant}},
		{"ci32", rlwe.ParametersLiteral{LogN: 5, LogQ: []int{55, 45}, LogP: []int{55}, NTTFlag: true, RingType: ring.ConjugateInvariant}},
	}
}

func (d *driver) traces() {
	for _, ts := range traceSets() {
		d.prog++
		d.fork = 0
		p, err := rlwe.NewParametersFromLiteral(ts.lit)
		tr.Must(err)
		kg := rlwe.NewKeyGenerator(p)
		sk := kg.GenSecretKeyNew()
		enc := rlwe.NewEncryptor(p, sk)
		dec := rlwe.NewDecryptor(p, sk)
		ks := &recKS{cache: map[uint64]*rlwe.GaloisKey{}, gen: func(g uint64) *rlwe.GaloisKey { return kg.GenGaloisKeyNew(g, sk, evkParams(p)...) }}
		ks.advertise(nil)
		eval := rlwe.NewEvaluator(p, ks)
		N := p.N()
		fresh := func(level int) (*rlwe.Ciphertext, []int64) {
			v := make([]int64, N)
			pt := rlwe.NewPlaintext(p, level)
			rq := p.RingQ().AtLevel(level)
			for k := range v {
				v[k] = int64(d.rng.Intn(17)) - 8
				if v[k] == 0 {
					v[k] = 9 // every coefficient is non-zero, so that a survivor is told from a vanished one
				}
				x := new(big.Int).Lsh(big.NewInt(v[k]), traceDelta)
				for i, s := range rq.SubRings[:level+1] {
					pt.Value.Coeffs[i][k] = new(big.Int).Mod(x, new(big.Int).SetUint64(s.Modulus)).Uint64()
				}
			}
			if pt.IsNTT {
				rq.NTT(pt.Value, pt.Value)
			}
			ct, err := enc.EncryptNew(pt)
			tr.Must(err)
			return ct, v
		}
		read := func(ct *rlwe.Ciphertext) ([]int64, bool) {
			out := make([]int64, N)
			if ct == nil {
				return out, false
			}
			pt := dec.DecryptNew(ct)
			rq := p.RingQ().AtLevel(ct.Level())
			if pt.IsNTT {
				rq.INTT(pt.Value, pt.Value)
			}
			bs := make([]*big.Int, N)
			for i := range bs {
				bs[i] = new(big.Int)
			}
			rq.PolyToBigintCentered(pt.Value, 1, bs)
			cons := true
			half := new(big.Int).Lsh(big.NewInt(1), traceDelta-1)
			for k, b := range bs {
				q := new(big.Int).Add(b, half)
				q.Rsh(q, traceDelta) // floor((b + 2^29) / 2^30)
				r := new(big.Int).Sub(b, new(big.Int).Lsh(q, traceDelta))
				if r.CmpAbs(new(big.Int).Lsh(big.NewInt(1), traceDelta-6)) > 0 || !q.IsInt64() || q.CmpAbs(big.NewInt(1<<20)) > 0 {
					cons = false
					q.SetInt64(1 << 20)
				}
				out[k] = q.Int64()
			}
			return out, cons
		}
		ci := p.RingType() == ring.ConjugateInvariant
		for logN := 0; logN < p.LogN(); logN++ {
			var adv []uint64
			_, pan, _ := guarded(func() error { adv = rlwe.GaloisElementsForTrace(p, logN); return nil })
			if pan {
				// documented: no key list for the full trace on the conjugate-invariant ring
				d.emit(ev{"ev": "refuse", "scheme": ts.name, "op": "GaloisElementsForTrace", "err": true, "panic": false, "lgn": logN})
				continue
			}
			for _, lv := range [][2]int{{1, 1}, {0, 0}, {1, 0}, {0, 1}} {
				for _, inplace := range []bool{false, true} {
					if inplace && lv[0] != lv[1] {
						continue
					}
					ct, v := fresh(lv[0])
					snap, _ := ct.MarshalBinary()
					o := ct
					if !inplace {
						o = rlwe.NewCiphertext(p, 1, lv[1])
						// the receiver holds unrelated data
						g, _ := fresh(lv[1])
						o.Copy(g)
					}
					ks.advertise(adv)
					err, pan, msg := guarded(func() error { return eval.Trace(ct, logN, o) })
					res, cons := read(o)
					inok := true
					if !inplace {
						after, _ := ct.MarshalBinary()
						inok = string(after) == string(snap)
					}
					min := lv[0]
					if lv[1] < min {
						min = lv[1]
					}
					d.emit(ev{"ev": "trace", "scheme": ts.name, "op": fmt.Sprintf("lgn=%d", logN), "logn": p.LogN(), "lgn": logN, "ci": ci, "v": v, "out": res,
						"inplace": inplace, "lvlin": lv[0], "lvlrecv": lv[1], "lvlout": o.Level(), "lvlmin": min, "nttok": o.IsNTT == ct.IsNTT || inplace,
						"inok": inok, "adv": uniq(ks.GetGaloisKeysList()), "req": uniq(ks.req), "err": err != nil, "panic": pan, "cons": cons, "msg": msg})
				}
			}
		}
	}
}
