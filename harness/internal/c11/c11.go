// Package c11 records rotations, row swaps / conjugations, hoisted rotations, inner sums, rotate-and-add and
// replication on the bgv and ckks evaluators, each run with a key set holding exactly the Galois keys the
// library advertises for the call, for validation against spec/Galois.tla.
package c11

import (
	"flag"
	"fmt"
	"math"
	"math/big"
	"math/rand"

	"github.com/tuneinsight/lattigo/v6/core/rlwe"
	"github.com/tuneinsight/lattigo/v6/ring"
	"github.com/tuneinsight/lattigo/v6/schemes/bgv"
	"github.com/tuneinsight/lattigo/v6/schemes/ckks"

	"verif/harness/internal/tr"
)

type ev map[string]interface{}

// recKS is an rlwe.EvaluationKeySet exposing exactly the advertised Galois keys and recording every request.
type recKS struct {
	adv     map[uint64]bool
	cache   map[uint64]*rlwe.GaloisKey
	gen     func(g uint64) *rlwe.GaloisKey
	rlk     *rlwe.RelinearizationKey
	req     []uint64
	missing bool
}

func (k *recKS) GetGaloisKey(g uint64) (*rlwe.GaloisKey, error) {
	k.req = append(k.req, g)
	if !k.adv[g] {
		k.missing = true
		return nil, fmt.Errorf("GaloisKey[%d] was not advertised", g)
	}
	if gk, ok := k.cache[g]; ok {
		return gk, nil
	}
	gk := k.gen(g)
	k.cache[g] = gk
	return gk, nil
}

func (k *recKS) GetGaloisKeysList() (l []uint64) {
	for g := range k.adv {
		l = append(l, g)
	}
	return
}

func (k *recKS) GetRelinearizationKey() (*rlwe.RelinearizationKey, error) {
	if k.rlk == nil {
		return nil, fmt.Errorf("no relinearization key")
	}
	return k.rlk, nil
}

// ShallowCopy: the recording set is shared on purpose
func (k *recKS) ShallowCopy() rlwe.EvaluationKeySet { return k }

func (k *recKS) advertise(gs []uint64) {
	k.adv = map[uint64]bool{}
	for _, g := range gs {
		k.adv[g] = true
	}
	k.req = nil
	k.missing = false
}

// without an auxiliary modulus the keys use a base-two decomposition (the documented way to control the
// key-switching noise there; keys without any decomposition on such sets are the subject of C04)
func evkParams(p rlwe.Parameters) []rlwe.EvaluationKeyParameters {
	if p.PCount() > 0 {
		return nil
	}
	b := 12
	return []rlwe.EvaluationKeyParameters{{BaseTwoDecomposition: &b}}
}

func uniq(xs []uint64) []uint64 {
	seen := map[uint64]bool{}
	out := []uint64{}
	for _, x := range xs {
		if !seen[x] {
			seen[x] = true
			out = append(out, x)
		}
	}
	return out
}

type driver struct {
	w     *tr.Writer
	rng   *rand.Rand
	prog  int
	fork  int
	quick bool
}

func (d *driver) emit(e ev) {
	d.fork++
	e["prog"], e["fork"], e["indep"] = d.prog, d.fork, true
	d.w.Emit(e)
}

func guarded(f func() error) (err error, pan bool, msg string) {
	defer func() {
		if r := recover(); r != nil {
			pan, msg = true, fmt.Sprint(r)
			if len(msg) > 150 {
				msg = msg[:150]
			}
		}
	}()
	if err = f(); err != nil {
		msg = err.Error()
		if len(msg) > 150 {
			msg = msg[:150]
		}
	}
	return
}

func modPos(k int64, m int64) int64 {
	r := new(big.Int).Mod(big.NewInt(k), big.NewInt(m))
	return r.Int64()
}

var rotKs = []int64{0, 1, -1, 2, 3, 5, -7, 1<<40 + 5, -(1 << 40) - 3, math.MaxInt64, math.MinInt64 + 1, 1<<62 + 1}

// ------------------------------------------------------------------ bgv

type bgvCtx struct {
	p    bgv.Parameters
	sk   *rlwe.SecretKey
	ecd  *bgv.Encoder
	enc  *rlwe.Encryptor
	dec  *rlwe.Decryptor
	ks   *recKS
	eval *bgv.Evaluator
	h    int
}

func newBgv(lit bgv.ParametersLiteral) *bgvCtx {
	p, err := bgv.NewParametersFromLiteral(lit)
	tr.Must(err)
	c := &bgvCtx{p: p}
	kg := rlwe.NewKeyGenerator(p)
	c.sk = kg.GenSecretKeyNew()
	c.ecd = bgv.NewEncoder(p)
	c.enc = rlwe.NewEncryptor(p, c.sk)
	c.dec = rlwe.NewDecryptor(p, c.sk)
	c.ks = &recKS{cache: map[uint64]*rlwe.GaloisKey{}, gen: func(g uint64) *rlwe.GaloisKey { return kg.GenGaloisKeyNew(g, c.sk, evkParams(p.Parameters)...) }}
	c.ks.advertise(nil)
	c.eval = bgv.NewEvaluator(p, c.ks)
	c.h = p.MaxSlots() / 2
	return c
}

func (c *bgvCtx) fresh(rng *rand.Rand) (*rlwe.Ciphertext, [][][2]int64) {
	n := c.p.MaxSlots()
	v := make([]uint64, n)
	for i := range v {
		v[i] = rng.Uint64() % c.p.PlaintextModulus()
	}
	pt := bgv.NewPlaintext(c.p, c.p.MaxLevel())
	tr.Must(c.ecd.Encode(v, pt))
	ct, err := c.enc.EncryptNew(pt)
	tr.Must(err)
	return ct, c.matrix(v)
}

func (c *bgvCtx) matrix(v []uint64) [][][2]int64 {
	m := make([][][2]int64, 2)
	for r := 0; r < 2; r++ {
		m[r] = make([][2]int64, c.h)
		for j := 0; j < c.h; j++ {
			m[r][j] = [2]int64{int64(v[r*c.h+j]), 0}
		}
	}
	return m
}

func (c *bgvCtx) decode(ct *rlwe.Ciphertext) [][][2]int64 {
	v := make([]uint64, c.p.MaxSlots())
	if ct == nil || c.ecd.Decode(c.dec.DecryptNew(ct), v) != nil {
		return c.matrix(v)
	}
	return c.matrix(v)
}

func (d *driver) bgv(c *bgvCtx, name string) {
	d.prog++
	d.fork = 0
	p := c.p
	T := p.PlaintextModulus()
	h := int64(c.h)
	out := func() *rlwe.Ciphertext { return bgv.NewCiphertext(p, 1, p.MaxLevel()) }
	// column rotations
	ks := append([]int64{h - 1, h, h + 1, -h, 2*h + 3}, rotKs...)
	for _, k := range ks {
		ct, v := c.fresh(d.rng)
		c.ks.advertise([]uint64{p.GaloisElementForColRotation(int(k))})
		o := out()
		err, pan, msg := guarded(func() error { return c.eval.RotateColumns(ct, int(k), o) })
		d.emit(ev{"ev": "rot", "scheme": name, "k": fmt.Sprint(k), "kr": modPos(k, h), "v": v, "out": c.decode(o), "adv": uniq(c.ks.GetGaloisKeysList()), "req": uniq(c.ks.req),
			"err": err != nil, "panic": pan, "cons": true, "msg": msg})
	}
	// row swap
	{
		ct, v := c.fresh(d.rng)
		c.ks.advertise([]uint64{p.GaloisElementForRowRotation()})
		o := out()
		err, pan, msg := guarded(func() error { return c.eval.RotateRows(ct, o) })
		d.emit(ev{"ev": "swap", "scheme": name, "v": v, "out": c.decode(o), "adv": uniq(c.ks.GetGaloisKeysList()), "req": uniq(c.ks.req), "err": err != nil, "panic": pan, "cons": true, "msg": msg})
	}
	// inner sums, rotate-and-add, replicate (hoisted: need an auxiliary modulus)
	slots := p.MaxSlots()
	for b := 1; b <= c.h && p.PCount() > 0; b++ {
		for n := 1; n*b <= slots && n <= 2*c.h; n++ {
			if d.quick && c.h > 8 && (b > 4 && b != c.h && b&(b-1) != 0) {
				continue
			}
			l := n * b
			// InnerSum: documented domain n*b a power of two dividing the slots
			{
				ct, v := c.fresh(d.rng)
				c.ks.advertise(p.GaloisElementsForInnerSum(b, n))
				o := out()
				err, pan, msg := guarded(func() error { return c.eval.InnerSum(ct, b, n, o) })
				e := ev{"scheme": name, "op": "InnerSum", "off": b, "n": n, "t": T, "whole": l == slots && n > 1, "v": v, "out": c.decode(o),
					"adv": uniq(c.ks.GetGaloisKeysList()), "req": uniq(c.ks.req), "err": err != nil, "panic": pan, "cons": true, "msg": msg}
				if l&(l-1) != 0 {
					e["ev"] = "refuse"
				} else {
					e["ev"] = "ptsum"
				}
				d.emit(e)
			}
			{ // sums of rotations (cyclic inside the rows: n*b may exceed the row size)
				ct, v := c.fresh(d.rng)
				c.ks.advertise(p.GaloisElementsForInnerSum(b, n))
				o := out()
				err, pan, msg := guarded(func() error { return c.eval.RotateAndAdd(ct, b, n, o) })
				d.emit(ev{"ev": "ptsum", "scheme": name, "op": "RotateAndAdd", "off": b, "n": n, "t": T, "whole": false, "v": v, "out": c.decode(o),
					"adv": uniq(c.ks.GetGaloisKeysList()), "req": uniq(c.ks.req), "err": err != nil, "panic": pan, "cons": true, "msg": msg})
				ct, v = c.fresh(d.rng)
				c.ks.advertise(p.GaloisElementsForReplicate(b, n))
				o = out()
				err, pan, msg = guarded(func() error { return c.eval.Replicate(ct, b, n, o) })
				d.emit(ev{"ev": "ptsum", "scheme": name, "op": "Replicate", "off": -b, "n": n, "t": T, "whole": false, "v": v, "out": c.decode(o),
					"adv": uniq(c.ks.GetGaloisKeysList()), "req": uniq(c.ks.req), "err": err != nil, "panic": pan, "cons": true, "msg": msg})
			}
		}
	}
	// documented refusals
	for _, bn := range [][2]int{{0, 2}, {2, 0}, {-1, 2}, {slots, 2}, {3, 1}} {
		ct, _ := c.fresh(d.rng)
		c.ks.advertise(nil)
		o := out()
		err, pan, msg := guarded(func() error { return c.eval.InnerSum(ct, bn[0], bn[1], o) })
		d.emit(ev{"ev": "refuse", "scheme": name, "op": "InnerSum", "off": bn[0], "n": bn[1], "err": err != nil, "panic": pan, "msg": msg})
	}
}

// ------------------------------------------------------------------ ckks

type ckksCtx struct {
	p       ckks.Parameters
	sk      *rlwe.SecretKey
	ecd     *ckks.Encoder
	enc     *rlwe.Encryptor
	dec     *rlwe.Decryptor
	ks      *recKS
	eval    *ckks.Evaluator
	logSlot int
	n       int
	real    bool
}

func newCkks(lit ckks.ParametersLiteral, logSlots int) *ckksCtx {
	p, err := ckks.NewParametersFromLiteral(lit)
	tr.Must(err)
	c := &ckksCtx{p: p, logSlot: logSlots, n: 1 << uint(logSlots), real: p.RingType() == ring.ConjugateInvariant}
	kg := rlwe.NewKeyGenerator(p)
	c.sk = kg.GenSecretKeyNew()
	c.ecd = ckks.NewEncoder(p)
	c.enc = rlwe.NewEncryptor(p, c.sk)
	c.dec = rlwe.NewDecryptor(p, c.sk)
	c.ks = &recKS{cache: map[uint64]*rlwe.GaloisKey{}, gen: func(g uint64) *rlwe.GaloisKey { return kg.GenGaloisKeyNew(g, c.sk, evkParams(p.Parameters)...) }}
	c.ks.advertise(nil)
	c.eval = ckks.NewEvaluator(p, c.ks)
	return c
}

func (c *ckksCtx) fresh(rng *rand.Rand) (*rlwe.Ciphertext, [][][2]int64) {
	v := make([]complex128, c.n)
	m := [][][2]int64{make([][2]int64, c.n)}
	for i := range v {
		re, im := int64(rng.Intn(41)-20), int64(rng.Intn(41)-20)
		if c.real {
			im = 0
		}
		v[i] = complex(float64(re), float64(im))
		m[0][i] = [2]int64{re, im}
	}
	pt := ckks.NewPlaintext(c.p, c.p.MaxLevel())
	pt.LogDimensions = ring.Dimensions{Rows: 0, Cols: c.logSlot}
	tr.Must(c.ecd.Encode(v, pt))
	ct, err := c.enc.EncryptNew(pt)
	tr.Must(err)
	return ct, m
}

func (c *ckksCtx) decode(ct *rlwe.Ciphertext) ([][][2]int64, bool) {
	m := [][][2]int64{make([][2]int64, c.n)}
	if ct == nil {
		return m, false
	}
	pt := c.dec.DecryptNew(ct)
	if pt.LogDimensions.Cols != c.logSlot {
		return m, false
	}
	v := make([]complex128, c.n)
	if c.ecd.Decode(pt, v) != nil {
		return m, false
	}
	cons := true
	for i := range v {
		re, im := math.Round(real(v[i])), math.Round(imag(v[i]))
		if math.Abs(re-real(v[i])) > 1.0/256 || math.Abs(im-imag(v[i])) > 1.0/256 || math.IsNaN(re) || math.Abs(re) > 1e9 {
			cons = false
			re, im = 0, 0
		}
		m[0][i] = [2]int64{int64(re), int64(im)}
	}
	return m, cons
}

// averages: ckks.Evaluator.Average(ct, logBatch) and TraceNew(ct, logBatch) both replace every slot by the mean of the
// slots that are congruent to it modulo 2^logBatch; the values are multiples of the number of summands so that the mean
// is an integer. Keys: exactly those advertised for the inner sum, resp. for the trace.
func (d *driver) averages(c *ckksCtx, name string) {
	p := c.p
	for lb := 0; lb <= c.logSlot; lb++ {
		cnt := int64(c.n >> uint(lb))
		for _, op := range []string{"Average", "TraceNew"} {
			if op == "TraceNew" && c.real {
				continue // the trace depth counts coefficients of the standard ring
			}
			v := make([]complex128, c.n)
			m := [][][2]int64{make([][2]int64, c.n)}
			for i := range v {
				re, im := cnt*int64(d.rng.Intn(9)-4), cnt*int64(d.rng.Intn(9)-4)
				if c.real {
					im = 0
				}
				v[i] = complex(float64(re), float64(im))
				m[0][i] = [2]int64{re, im}
			}
			pt := ckks.NewPlaintext(p, p.MaxLevel())
			pt.LogDimensions = ring.Dimensions{Rows: 0, Cols: c.logSlot}
			tr.Must(c.ecd.Encode(v, pt))
			ct, err := c.enc.EncryptNew(pt)
			tr.Must(err)
			var o *rlwe.Ciphertext
			var e2 error
			var pan bool
			var msg string
			if op == "Average" {
				if p.PCount() == 0 {
					continue // hoisted sums need an auxiliary modulus
				}
				c.ks.advertise(p.GaloisElementsForInnerSum(1<<uint(lb), int(cnt)))
				o = ckks.NewCiphertext(p, 1, p.MaxLevel())
				e2, pan, msg = guarded(func() error { return c.eval.Average(ct, lb, o) })
			} else {
				c.ks.advertise(rlwe.GaloisElementsForTrace(p, lb))
				e2, pan, msg = guarded(func() (e error) { o, e = c.eval.TraceNew(ct, lb); return })
			}
			res, cons := c.decode(o)
			d.emit(ev{"ev": "avg", "scheme": name, "op": op, "lb": lb, "cnt": cnt, "v": m, "out": res, "adv": uniq(c.ks.GetGaloisKeysList()), "req": uniq(c.ks.req),
				"err": e2 != nil, "panic": pan, "cons": cons, "msg": msg})
		}
	}
}

func (d *driver) ckks(c *ckksCtx, name string) {
	d.prog++
	d.fork = 0
	d.averages(c, name)
	p := c.p
	n := int64(c.n)
	out := func() *rlwe.Ciphertext { return ckks.NewCiphertext(p, 1, p.MaxLevel()) }
	ks := append([]int64{n - 1, n, n + 1, -n, 2*n + 3}, rotKs...)
	for _, k := range ks {
		ct, v := c.fresh(d.rng)
		c.ks.advertise([]uint64{p.GaloisElementForRotation(int(k))})
		o := out()
		err, pan, msg := guarded(func() error { return c.eval.Rotate(ct, int(k), o) })
		res, cons := c.decode(o)
		d.emit(ev{"ev": "rot", "scheme": name, "k": fmt.Sprint(k), "kr": modPos(k, n), "v": v, "out": res, "adv": uniq(c.ks.GetGaloisKeysList()), "req": uniq(c.ks.req),
			"err": err != nil, "panic": pan, "cons": cons, "msg": msg})
	}
	if !c.real {
		ct, v := c.fresh(d.rng)
		c.ks.advertise([]uint64{p.GaloisElementForComplexConjugation()})
		o := out()
		err, pan, msg := guarded(func() error { return c.eval.Conjugate(ct, o) })
		res, cons := c.decode(o)
		d.emit(ev{"ev": "swap", "scheme": name, "v": v, "out": res, "adv": uniq(c.ks.GetGaloisKeysList()), "req": uniq(c.ks.req), "err": err != nil, "panic": pan, "cons": cons, "msg": msg})
	} else {
		ct, _ := c.fresh(d.rng)
		c.ks.advertise(nil)
		o := out()
		err, pan, msg := guarded(func() error { return c.eval.Conjugate(ct, o) })
		d.emit(ev{"ev": "refuse", "scheme": name, "op": "Conjugate", "err": err != nil, "panic": pan, "msg": msg})
	}
	// hoisted rotations (need an auxiliary modulus)
	if p.PCount() > 0 {
		rots := []int{1, 2, 5, int(n) - 1, -3, int(n) + 2, 0}
		ct, v := c.fresh(d.rng)
		c.ks.advertise(p.GaloisElements(rots))
		var outs map[int]*rlwe.Ciphertext
		err, pan, msg := guarded(func() (e error) { outs, e = c.eval.RotateHoistedNew(ct, rots); return })
		kr := make([]int64, len(rots))
		res := make([][][][2]int64, len(rots))
		cons := true
		for i, k := range rots {
			kr[i] = modPos(int64(k), n)
			var cc bool
			res[i], cc = c.decode(outs[k])
			cons = cons && cc
		}
		d.emit(ev{"ev": "hoisted", "scheme": name, "ks": kr, "v": v, "outs": res, "adv": uniq(c.ks.GetGaloisKeysList()), "req": uniq(c.ks.req), "err": err != nil, "panic": pan, "cons": cons, "msg": msg})
	}
	for b := 1; b <= c.n && p.PCount() > 0; b++ {
		for nn := 1; nn*b <= c.n; nn++ {
			if d.quick && c.n > 16 && b > 4 && b&(b-1) != 0 {
				continue
			}
			l := nn * b
			{
				ct, v := c.fresh(d.rng)
				c.ks.advertise(p.GaloisElementsForInnerSum(b, nn))
				o := out()
				err, pan, msg := guarded(func() error { return c.eval.InnerSum(ct, b, nn, o) })
				res, cons := c.decode(o)
				e := ev{"scheme": name, "op": "InnerSum", "off": b, "n": nn, "t": 0, "whole": false, "v": v, "out": res,
					"adv": uniq(c.ks.GetGaloisKeysList()), "req": uniq(c.ks.req), "err": err != nil, "panic": pan, "cons": cons, "msg": msg}
				if l&(l-1) != 0 {
					e["ev"] = "refuse"
				} else {
					e["ev"] = "ptsum"
				}
				d.emit(e)
			}
			for _, op := range []string{"RotateAndAdd", "Replicate"} {
				ct, v := c.fresh(d.rng)
				off := b
				if op == "Replicate" {
					c.ks.advertise(p.GaloisElementsForReplicate(b, nn))
					off = -b
				} else {
					c.ks.advertise(p.GaloisElementsForInnerSum(b, nn))
				}
				o := out()
				err, pan, msg := guarded(func() error {
					if op == "Replicate" {
						return c.eval.Replicate(ct, b, nn, o)
					}
					return c.eval.RotateAndAdd(ct, b, nn, o)
				})
				res, cons := c.decode(o)
				d.emit(ev{"ev": "ptsum", "scheme": name, "op": op, "off": off, "n": nn, "t": 0, "whole": false, "v": v, "out": res,
					"adv": uniq(c.ks.GetGaloisKeysList()), "req": uniq(c.ks.req), "err": err != nil, "panic": pan, "cons": cons, "msg": msg})
			}
		}
	}
}

// galois element algebra on real parameter objects
func (d *driver) algebra() {
	d.prog++
	d.fork = 0
	for _, logN := range []int{4, 5, 8, 10, 12, 13} {
		for _, rt := range []ring.Type{ring.Standard, ring.ConjugateInvariant} {
			p, err := rlwe.NewParametersFromLiteral(rlwe.ParametersLiteral{LogN: logN, LogQ: []int{50}, RingType: rt, NTTFlag: true})
			tr.Must(err)
			m := int64(p.RingQ().NthRoot())
			ks := append([]int64{m / 4, m/4 - 1, m/4 + 1, -m / 4, m, -m, 3*m + 7}, rotKs...)
			for i, k := range ks {
				k2 := ks[(i+3)%len(ks)]
				g := p.GaloisElement(int(k))
				g2 := p.GaloisElement(int(k2))
				sum := new(big.Int).Add(big.NewInt(k), big.NewInt(k2))
				if !sum.IsInt64() {
					continue
				}
				d.emit(ev{"ev": "galel", "m": m, "k": fmt.Sprint(k), "kr": modPos(k, m/4), "g": g, "ginv": p.ModInvGaloisElement(g), "dlog": p.SolveDiscreteLogGaloisElement(g),
					"g2": g2, "gsum": p.GaloisElement(int(sum.Int64()))})
			}
		}
	}
}

// Main: vrun c11 record --trace f --tier t --seed s
func Main(args []string) int {
	fs := flag.NewFlagSet("c11", flag.ExitOnError)
	trace := fs.String("trace", "", "trace")
	seed := fs.Int64("seed", 1, "seed")
	tier := fs.String("tier", "quick", "tier")
	part := fs.Int("part", -1, "which scenario (-1: all)")
	fs.Parse(args[1:])
	tr.Seed(uint64(*seed))
	d := &driver{w: tr.NewWriter(*trace), rng: rand.New(rand.NewSource(*seed)), quick: *tier == "quick"}
	defer d.w.Close()
	jobs := []func(){
		func() { d.algebra(); d.traces() },
		func() { d.sums() },
		func() {
			d.bgv(newBgv(bgv.ParametersLiteral{LogN: 10, LogQ: []int{56, 46}, LogP: []int{56}, PlaintextModulus: 97}), "bgv-2x8-gap")
		},
		func() {
			d.bgv(newBgv(bgv.ParametersLiteral{LogN: 5, LogQ: []int{56, 46}, LogP: []int{56}, PlaintextModulus: 193}), "bgv-2x16-full")
		},
		func() {
			d.bgv(newBgv(bgv.ParametersLiteral{LogN: 10, LogQ: []int{56, 46}, PlaintextModulus: 97}), "bgv-2x8-noP")
		},
		func() {
			d.ckks(newCkks(ckks.ParametersLiteral{LogN: 6, LogQ: []int{55, 45}, LogP: []int{55}, LogDefaultScale: 40}, 5), "ckks-full-32")
		},
		func() {
			d.ckks(newCkks(ckks.ParametersLiteral{LogN: 10, LogQ: []int{55, 45}, LogP: []int{55}, LogDefaultScale: 40}, 3), "ckks-sparse-8")
		},
		func() {
			d.ckks(newCkks(ckks.ParametersLiteral{LogN: 10, LogQ: []int{55, 45}, LogP: []int{55}, LogDefaultScale: 40}, 1), "ckks-sparse-2")
		},
		func() {
			d.ckks(newCkks(ckks.ParametersLiteral{LogN: 10, LogQ: []int{55, 45}, LogP: []int{55}, LogDefaultScale: 40}, 0), "ckks-sparse-1")
		},
		func() {
			d.ckks(newCkks(ckks.ParametersLiteral{LogN: 5, LogQ: []int{55, 45}, LogP: []int{55}, LogDefaultScale: 40, RingType: ring.ConjugateInvariant}, 5), "ckks-ci-32")
		},
		func() {
			d.ckks(newCkks(ckks.ParametersLiteral{LogN: 6, LogQ: []int{55, 45}, LogDefaultScale: 40}, 4), "ckks-noP-16")
		},
		// 60-bit primes and two auxiliary primes: the lazily accumulated (hoisted) sums are closest to their overflow margins
		func() {
			d.ckks(newCkks(ckks.ParametersLiteral{LogN: 6, LogQ: []int{60, 60}, LogP: []int{61, 61}, LogDefaultScale: 40}, 5), "ckks-q60-2P")
		},
		func() {
			d.bgv(newBgv(bgv.ParametersLiteral{LogN: 5, LogQ: []int{60, 60}, LogP: []int{61, 61}, PlaintextModulus: 193}), "bgv-2x16-q60-2P")
		},
	}
	for i, j := range jobs {
		if *part < 0 || *part == i {
			d.prog = i * 1000
			j()
		}
	}
	res := tr.Result{Events: d.w.N, Cases: d.prog}
	res.Print()
	return 0
}
