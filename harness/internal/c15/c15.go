// Package c15 records t-out-of-N threshold set-ups (multiparty.Thresholdizer / Combiner) for validation
// against spec/Threshold.tla: every coefficient on toy fields, reconstruction identities at real size.
package c15

import (
	"bytes"
	"flag"
	"fmt"
	"math/big"

	"github.com/tuneinsight/lattigo/v6/core/rlwe"
	"github.com/tuneinsight/lattigo/v6/multiparty"
	"github.com/tuneinsight/lattigo/v6/ring/ringqp"

	"verif/harness/internal/c01"
	"verif/harness/internal/tr"
)

type event struct {
	Ev          string      `json:"ev"`
	Prog        int         `json:"prog"`
	Fork        int         `json:"fork"`
	Q           uint64      `json:"q"`
	N           int         `json:"n"`
	T           int         `json:"t"`
	Pts         []uint64    `json:"pts,omitempty"`
	Dealer      int         `json:"dealer,omitempty"`
	Dealers     []int       `json:"dealers,omitempty"`
	Coeffs      [][]uint64  `json:"coeffs,omitempty"`
	X           uint64      `json:"x,omitempty"`
	Val         []uint64    `json:"val,omitempty"`
	Order       []int       `json:"order,omitempty"`
	Active      []uint64    `json:"active,omitempty"`
	Sum         interface{} `json:"sum,omitempty"`
	Secret      interface{} `json:"secret,omitempty"`
	SameListing bool        `json:"samelisting"`
	Err         bool        `json:"err"`
	Panic       bool        `json:"panic"`
	Msg         string      `json:"msg,omitempty"`
	What        string      `json:"what,omitempty"`
}

type driver struct {
	w    *tr.Writer
	prog int
	fork int
}

func (d *driver) emit(e event) {
	e.Prog, e.Fork = d.prog, d.fork
	d.fork++
	d.w.Emit(e)
}

func cp(v []uint64) []uint64 { return append([]uint64{}, v...) }

func guarded(f func() error) (err error, pan bool, msg string) {
	defer func() {
		if r := recover(); r != nil {
			pan = true
			msg = fmt.Sprint(r)
		}
	}()
	err = f()
	if err != nil {
		msg = err.Error()
	}
	return
}

func perms(xs []int) [][]int {
	if len(xs) <= 1 {
		return [][]int{append([]int{}, xs...)}
	}
	var out [][]int
	for i := range xs {
		rest := append(append([]int{}, xs[:i]...), xs[i+1:]...)
		for _, p := range perms(rest) {
			out = append(out, append([]int{xs[i]}, p...))
		}
	}
	return out
}

func subsets(n, k int) [][]int {
	var out [][]int
	var rec func(start int, cur []int)
	rec = func(start int, cur []int) {
		if len(cur) == k {
			out = append(out, append([]int{}, cur...))
			return
		}
		for i := start; i < n; i++ {
			rec(i+1, append(cur, i))
		}
	}
	rec(0, nil)
	return out
}

// setup runs one (parameters, N, t, points) configuration. toy: log every vector (single modulus q).
func (d *driver) setup(p rlwe.Parameters, N, t int, pts []uint64, toy bool, maxPerms int) {
	d.prog++
	d.fork = 0
	q := p.Q()[0]
	n := p.N()
	// toy traces carry the points reduced modulo q (all the specification depends on); the library gets the full values
	red := func(x uint64) uint64 { return x % q }
	if toy {
		rp := make([]uint64, len(pts))
		for i := range pts {
			rp[i] = red(pts[i])
		}
		d.emit(event{Ev: "setup", Q: q, N: n, T: t, Pts: rp})
	} else {
		d.emit(event{Ev: "setup", Q: 97, N: 0, T: t, Pts: []uint64{0}})
	}
	kg := rlwe.NewKeyGenerator(p)
	thr := multiparty.NewThresholdizer(p)
	sks := make([]*rlwe.SecretKey, N)
	polys := make([]multiparty.ShamirPolynomial, N)
	for i := 0; i < N; i++ {
		sks[i] = kg.GenSecretKeyNew()
		var err error
		polys[i], err = thr.GenShamirPolynomial(t, sks[i])
		tr.Must(err)
		if toy {
			cs := make([][]uint64, t)
			for k := 0; k < t; k++ {
				cs[k] = cp(polys[i].Value[k].Q.Coeffs[0])
			}
			d.emit(event{Ev: "poly", Dealer: i + 1, Coeffs: cs})
		}
	}
	// shares and aggregated shares
	agg := make([]multiparty.ShamirSecretShare, N)
	for j := 0; j < N; j++ {
		shares := make([]multiparty.ShamirSecretShare, N)
		for i := 0; i < N; i++ {
			shares[i] = thr.AllocateThresholdSecretShare()
			if (i+j)%2 == 1 && i > 0 {
				// a dealer reusing one buffer for successive recipients: it holds the previous share
				shares[i].Copy(shares[i-1].Poly)
			}
			thr.GenShamirSecretShare(multiparty.ShamirPublicPoint(pts[j]), polys[i], &shares[i])
			if toy {
				d.emit(event{Ev: "share", Dealer: i + 1, X: red(pts[j]), Val: cp(shares[i].Q.Coeffs[0])})
			}
		}
		idx := make([]int, N)
		for i := range idx {
			idx[i] = i
		}
		ps := perms(idx)
		if len(ps) > 3 {
			ps = [][]int{ps[0], ps[len(ps)/2], ps[len(ps)-1]}
		}
		for oi, order := range ps {
			acc := thr.AllocateThresholdSecretShare()
			var aerr error
			for k, i := range order {
				if k == 0 {
					acc.Copy(shares[i].Poly)
					continue
				}
				// the three calling forms: accumulator first, accumulator second, fresh output buffer
				var e error
				switch (oi + j) % 3 {
				case 0:
					e = thr.AggregateShares(acc, shares[i], &acc)
				case 1:
					e = thr.AggregateShares(shares[i], acc, &acc)
				default:
					out := thr.AllocateThresholdSecretShare()
					out.Copy(shares[(i+1)%N].Poly) // a used buffer
					e = thr.AggregateShares(acc, shares[i], &out)
					acc = out
				}
				if e != nil {
					aerr = e
				}
			}
			agg[j] = acc
			if toy {
				o1 := make([]int, len(order))
				for k := range order {
					o1[k] = order[k] + 1
				}
				d.emit(event{Ev: "aggshare", X: red(pts[j]), Order: o1, Val: cp(acc.Q.Coeffs[0]), Err: aerr != nil})
			}
		}
	}
	others := make([]multiparty.ShamirPublicPoint, N)
	for i := range others {
		others[i] = multiparty.ShamirPublicPoint(pts[i])
	}
	// one Combiner per party, reused for every active set and listing (a party keeps its combiner)
	cmbs := make([]multiparty.Combiner, N)
	for j := range cmbs {
		cmbs[j] = multiparty.NewCombiner(p, others[j], others, t)
	}
	rqp := p.RingQP()
	secret := rlwe.NewSecretKey(p)
	dealers := make([]int, N)
	for i := range sks {
		rqp.Add(secret.Value, sks[i].Value, secret.Value)
		dealers[i] = i + 1
	}
	// every active set of size t, in several listing orders
	for _, sub := range subsets(N, t) {
		ps := perms(sub)
		if len(ps) > maxPerms {
			ps = append(ps[:maxPerms-1], ps[len(ps)-1])
		}
		var firstBytes [][]byte
		sameListing := true
		for pi, listing := range ps {
			active := make([]multiparty.ShamirPublicPoint, len(listing))
			actU := make([]uint64, len(listing))
			for k, j := range listing {
				active[k] = others[j]
				actU[k] = red(pts[j])
			}
			sum := rlwe.NewSecretKey(p)
			var anyErr, anyPan bool
			var msg string
			bs := make([][]byte, 0, len(listing))
			for _, j := range listing {
				out := rlwe.NewSecretKey(p)
				err, pan, m := guarded(func() error {
					return cmbs[j].GenAdditiveShare(active, others[j], agg[j], out)
				})
				if toy {
					d.emit(event{Ev: "combine", Active: actU, X: red(pts[j]), Val: cp(out.Value.Q.Coeffs[0]), Err: err != nil, Panic: pan, Msg: m})
				}
				anyErr, anyPan = anyErr || err != nil, anyPan || pan
				if m != "" {
					msg = m
				}
				rqp.Add(sum.Value, out.Value, sum.Value)
				b, _ := out.MarshalBinary()
				bs = append(bs, append([]byte{byte(j)}, b...))
			}
			// listing independence: the additive share of a party does not depend on the order of the listing
			if pi == 0 {
				firstBytes = bs
			} else {
				for _, b := range bs {
					found := false
					for _, f := range firstBytes {
						if bytes.Equal(f, b) {
							found = true
						}
					}
					if !found {
						sameListing = false
					}
				}
			}
			if toy {
				d.emit(event{Ev: "recon", Active: actU, Dealers: dealers, Sum: cp(sum.Value.Q.Coeffs[0]), Err: anyErr, Panic: anyPan, Msg: msg})
			} else if pi == len(ps)-1 {
				d.emit(event{Ev: "bigrecon", Active: actU, Sum: limbs(p, sum.Value), Secret: limbs(p, secret.Value), SameListing: sameListing, Err: anyErr, Panic: anyPan, Msg: msg,
					What: fmt.Sprintf("N=%d t=%d pts=%v", N, t, pts)})
			}
		}
		// one party less than the threshold must be refused
		if t >= 2 {
			listing := sub[:t-1]
			active := make([]multiparty.ShamirPublicPoint, len(listing))
			actU := make([]uint64, len(listing))
			for k, j := range listing {
				active[k] = others[j]
				actU[k] = red(pts[j])
			}
			j := listing[0]
			out := rlwe.NewSecretKey(p)
			err, pan, m := guarded(func() error {
				return multiparty.NewCombiner(p, others[j], others, t).GenAdditiveShare(active, others[j], agg[j], out)
			})
			if toy {
				d.emit(event{Ev: "toofew", Active: actU, Err: err != nil, Panic: pan, Msg: m})
			} else {
				d.emit(event{Ev: "toofew", Active: []uint64{0}, Err: err != nil, Panic: pan, Msg: m, T: t})
			}
		}
	}
}

// limbs of sampled coefficients of every modulus of a QP polynomial
func limbs(p rlwe.Parameters, v ringqp.Poly) [][]int {
	var out [][]int
	pos := []int{0, 1, 7, 8, p.N() / 2, p.N() - 1}
	for _, row := range v.Q.Coeffs {
		for _, k := range pos {
			out = append(out, c01.Limbs(new(big.Int).SetUint64(row[k])))
		}
	}
	if v.P.Coeffs != nil {
		for _, row := range v.P.Coeffs {
			for _, k := range pos {
				out = append(out, c01.Limbs(new(big.Int).SetUint64(row[k])))
			}
		}
	}
	return out
}

// Main: vrun c15 record --trace out --tier quick
func Main(args []string) int {
	fs := flag.NewFlagSet("c15", flag.ExitOnError)
	trace := fs.String("trace", "", "trace")
	seed := fs.Uint64("seed", 1, "seed")
	tier := fs.String("tier", "quick", "tier")
	fs.Parse(args[1:])
	tr.Seed(*seed)
	quick := *tier == "quick"
	d := &driver{w: tr.NewWriter(*trace)}
	defer d.w.Close()
	maxN := 4
	if !quick {
		maxN = 5
	}
	// toy fields: LogN=4, one prime
	for _, q := range []uint64{97, 193, 12289} {
		p, err := rlwe.NewParametersFromLiteral(rlwe.ParametersLiteral{LogN: 4, Q: []uint64{q}, NTTFlag: true})
		if err != nil {
			fmt.Println("toy parameters refused:", err)
			return 2
		}
		pointSets := [][]uint64{{1, 2, 3, 4, 5, 6}, {q - 1, 5, 50, 2, 33, 7}, {1<<32 + 1, 1<<63 + 5, 3, 1<<40 + 9, 11, 1<<20 + 3}}
		for pi, ptsAll := range pointSets {
			if quick && q == 12289 && pi > 0 {
				continue
			}
			// the points must be distinct and non-zero modulo q
			seen := map[uint64]bool{}
			var pts []uint64
			for _, x := range ptsAll {
				if x%q != 0 && !seen[x%q] {
					seen[x%q] = true
					pts = append(pts, x)
				}
			}
			for N := 1; N <= maxN && N <= len(pts); N++ {
				for t := 1; t <= N; t++ {
					if quick && q != 97 && N < maxN-1 {
						continue
					}
					d.setup(p, N, t, pts[:N], true, 6)
				}
			}
		}
	}
	// real size: LogN=10, mixed primes with P
	p, err := rlwe.NewParametersFromLiteral(rlwe.ParametersLiteral{LogN: 10, LogQ: []int{55, 40, 45}, LogP: []int{50}, NTTFlag: true})
	tr.Must(err)
	for _, pts := range [][]uint64{{1, 2, 3, 4, 5, 6}, {1<<32 + 1, 1<<32 + 2, 1<<32 + 7, 1 << 33, 1<<32 + 9, 5}, {1<<63 + 1, 1<<63 + 2, 1<<64 - 1, 1 << 63, 1<<62 + 3, 9}} {
		for N := 2; N <= maxN; N++ {
			for t := 1; t <= N; t++ {
				if quick && (N+t)%2 == 1 {
					continue
				}
				d.setup(p, N, t, pts[:N], false, 3)
			}
		}
	}
	res := tr.Result{Events: d.w.N, Cases: d.prog}
	res.Print()
	return 0
}
