// Package c03 executes the configurations enumerated by spec/RlweCoreGen.tla on core/rlwe: fresh encryptions
// (C03) and key switches with every evaluation-key parameterisation (C04), and records the measured error
// magnitudes for validation against spec/RlweCore.tla.
package c03

import (
	"bufio"
	"bytes"
	"encoding/json"
	"flag"
	"fmt"
	"math"
	"math/big"
	"math/bits"
	"os"

	"github.com/tuneinsight/lattigo/v6/core/rlwe"
	"github.com/tuneinsight/lattigo/v6/ring"
	"github.com/tuneinsight/lattigo/v6/utils/sampling"

	"verif/harness/internal/tr"
)

type ev map[string]interface{}

type cfg struct {
	Ev    string `json:"ev"`
	Ps    string `json:"ps"`
	Key   string `json:"key"`
	Prov  string `json:"prov"`
	Lvl   int    `json:"lvl"`
	Deg   int    `json:"deg"`
	Ntt   bool   `json:"ntt"`
	Mont  bool   `json:"mont"`
	Kind  string `json:"kind"`
	Lvlq  int    `json:"lvlq"`
	Lvlp  int    `json:"lvlp"`
	Base2 int    `json:"base2"`
	Comp  bool   `json:"comp"`
	Ctlvl int    `json:"ctlvl"`
}

// PSets: the concrete parameter sets behind the abstract (nq, np) of the generator.
var PSets = map[string]rlwe.ParametersLiteral{
	"classic":  {LogN: 10, LogQ: []int{55, 45, 45}, LogP: []int{55}, NTTFlag: true},
	"mixedbig": {LogN: 10, LogQ: []int{60, 60, 35, 60}, LogP: []int{61}, NTTFlag: true},
	"threeP":   {LogN: 10, LogQ: []int{50, 40, 40, 40, 40}, LogP: []int{50, 50, 50}, NTTFlag: true},
	"noP":      {LogN: 10, LogQ: []int{45, 45}, NTTFlag: true},
	"smallq0":  {LogN: 10, LogQ: []int{35, 45, 40}, LogP: []int{50}, NTTFlag: true},
	"smallq0n": {LogN: 10, LogQ: []int{36, 45}, NTTFlag: false},
	"single":   {LogN: 10, LogQ: []int{40}, LogP: []int{40}, NTTFlag: true},
	"sparseH":  {LogN: 10, LogQ: []int{55, 45}, LogP: []int{55}, NTTFlag: true, Xs: ring.Ternary{H: 32}, Xe: ring.DiscreteGaussian{Sigma: 8, Bound: 48}},
	"ci":       {LogN: 10, LogQ: []int{55, 45}, LogP: []int{55}, NTTFlag: true, RingType: ring.ConjugateInvariant},
	// ternary error and secret of density exactly one half (a dedicated path of the ternary sampler)
	"ternhalf": {LogN: 10, LogQ: []int{50, 40}, LogP: []int{50}, NTTFlag: true, Xs: ring.Ternary{P: 0.5}, Xe: ring.Ternary{P: 0.5}},
}

type PSInfo struct {
	Name string `json:"name"`
	Nq   int    `json:"nq"`
	Np   int    `json:"np"`
}

type ctx struct {
	p    rlwe.Parameters
	kg   *rlwe.KeyGenerator
	sk   *rlwe.SecretKey
	sk2  *rlwe.SecretKey
	pk   *rlwe.PublicKey
	pk2  *rlwe.PublicKey
	prng sampling.PRNG
	h    int
}

var ctxs = map[string]*ctx{}

func getCtx(name string) *ctx {
	if c, ok := ctxs[name]; ok {
		return c
	}
	p, err := rlwe.NewParametersFromLiteral(PSets[name])
	tr.Must(err)
	c := &ctx{p: p, kg: rlwe.NewKeyGenerator(p)}
	c.sk = c.kg.GenSecretKeyNew()
	c.sk2 = c.kg.GenSecretKeyNew()
	c.pk = c.kg.GenPublicKeyNew(c.sk)
	c.pk2 = c.kg.GenPublicKeyNew(c.sk2)
	c.prng, _ = sampling.NewPRNG()
	// Hamming weight of the secret
	rq := p.RingQ()
	t := rq.NewPoly()
	rq.INTT(c.sk.Value.Q, t)
	rq.IMForm(t, t)
	for _, x := range t.Coeffs[0] {
		if x != 0 {
			c.h++
		}
	}
	ctxs[name] = c
	return c
}

func guarded(f func() error) (err error, pan bool, msg string) {
	defer func() {
		if r := recover(); r != nil {
			pan, msg = true, fmt.Sprint(r)
		}
	}()
	if err = f(); err != nil {
		msg = err.Error()
	}
	if len(msg) > 150 {
		msg = msg[:150]
	}
	return
}

// plain brings a polynomial to the coefficient domain, out of the Montgomery form
func plain(rq *ring.Ring, p ring.Poly, isNTT, isMont bool) ring.Poly {
	out := *p.CopyNew()
	if isNTT {
		rq.INTT(out, out)
	}
	if isMont {
		rq.IMForm(out, out)
	}
	return out
}

// stats of the centred coefficients of a polynomial modulo Q_level
func stats(rq *ring.Ring, p ring.Poly) (bits int, stdMilli int) {
	cs := make([]*big.Int, rq.N())
	for i := range cs {
		cs[i] = new(big.Int)
	}
	rq.PolyToBigintCentered(p, 1, cs)
	var sum, sumsq float64
	for _, c := range cs {
		if b := c.BitLen(); b > bits {
			bits = b
		}
		f, _ := new(big.Float).SetInt(c).Float64()
		sum += f
		sumsq += f * f
	}
	n := float64(len(cs))
	v := sumsq/n - (sum/n)*(sum/n)
	if v < 0 {
		v = 0
	}
	s := math.Sqrt(v) * 1000
	if s > 2e9 {
		s = 2e9
	}
	return bits, int(s)
}

func bitlen(x float64) int { return new(big.Int).SetUint64(uint64(math.Round(x))).BitLen() }

// errDist: the declared error distribution as (sigma, bound); a ternary error of density p has sigma = sqrt(p), bound 1
func errDist(p rlwe.Parameters) ring.DiscreteGaussian {
	switch x := p.Xe().(type) {
	case ring.DiscreteGaussian:
		return x
	case ring.Ternary:
		d := x.P
		if x.H != 0 {
			d = float64(x.H) / float64(p.N())
		}
		return ring.DiscreteGaussian{Sigma: math.Sqrt(d), Bound: 1}
	}
	panic("unsupported error distribution")
}

func (c *ctx) common(lvl int) ev {
	xe := errDist(c.p)
	lgp := 0
	if c.p.PCount() > 0 {
		lgp = c.p.PBigInt().BitLen() - 1
	}
	return ev{"lgn": c.p.LogN(), "bbits": bitlen(xe.Bound), "hbits": new(big.Int).SetInt64(int64(c.h + 1)).BitLen(), "lgp": lgp, "hasp": c.p.PCount() > 0,
		"sigmamilli": int(xe.Sigma * 1000), "logq": c.p.RingQ().AtLevel(lvl).ModulusAtLevel[lvl].BitLen()}
}

func merge(a, b ev) ev {
	for k, v := range b {
		a[k] = v
	}
	return a
}

func polyEq(a, b ring.Poly, lvl int) bool {
	for i := 0; i <= lvl; i++ {
		for j := range a.Coeffs[i] {
			if a.Coeffs[i][j] != b.Coeffs[i][j] {
				return false
			}
		}
	}
	return true
}

func plantTop(rq *ring.Ring, pl ring.Poly, lvl int) {
	for i, sr := range rq.SubRings[:lvl+1] {
		q := sr.Modulus
		top := uint64(1) << uint(bits.Len64(q)-1)
		pl.Coeffs[i][0], pl.Coeffs[i][1] = q-1, q-2
		if top < q {
			pl.Coeffs[i][2], pl.Coeffs[i][3] = top, top+(q-top)/2
		}
	}
}

// fresh encryption
func runEnc(cf cfg) ev {
	c := getCtx(cf.Ps)
	p := c.p
	rq := p.RingQ().AtLevel(cf.Lvl)
	e := merge(ev{"ev": "enc", "cfg": cf, "key": cf.Key}, c.common(cf.Lvl))
	var key, other rlwe.EncryptionKey = c.sk, c.sk2
	if cf.Key == "pk" {
		key, other = c.pk, c.pk2
	}
	prngKey := []byte(fmt.Sprintf("c03-%s-%d-%d", cf.Ps, cf.Lvl, cf.Deg))
	mk := func() *rlwe.Encryptor {
		base := rlwe.NewEncryptor(p, key)
		switch cf.Prov {
		case "shallow":
			return base.ShallowCopy()
		case "withkey":
			return rlwe.NewEncryptor(p, other).WithKey(key)
		case "withprng":
			pr, _ := sampling.NewKeyedPRNG(prngKey)
			return base.WithPRNG(pr)
		}
		return base
	}
	if cf.Deg == 0 { // a compressed (seeded) ciphertext needs a keyed source for its second component
		cf.Prov = "withprng"
	}
	pt := rlwe.NewPlaintextRandom(c.prng, p, cf.Lvl)
	pt.IsNTT, pt.IsMontgomery = cf.Ntt, cf.Mont
	pt.Scale = rlwe.NewScale(12345)
	msg := plain(rq, pt.Value, cf.Ntt, cf.Mont)
	var ct, ct2 *rlwe.Ciphertext
	err, pan, m := guarded(func() error {
		ct = rlwe.NewCiphertext(p, cf.Deg, cf.Lvl)
		for i := range ct.Value { // a reused target: whatever it held must not survive
			ring.NewUniformSampler(c.prng, rq).Read(ct.Value[i])
		}
		if err := mk().Encrypt(pt, ct); err != nil {
			return err
		}
		ct2 = rlwe.NewCiphertext(p, cf.Deg, cf.Lvl)
		enc2 := mk()
		if cf.Prov == "withprng" { // a second encryption from another seed
			pr, _ := sampling.NewKeyedPRNG(append(prngKey, 'b'))
			enc2 = rlwe.NewEncryptor(p, key).WithPRNG(pr)
		}
		return enc2.Encrypt(pt, ct2)
	})
	e["err"], e["panic"], e["msg"] = err != nil, pan, m
	e["lvlexp"] = cf.Lvl
	if err != nil || pan {
		e["metaeq"], e["lvlout"], e["errbits"], e["stdmilli"], e["differs"], e["wrongbits"], e["maskbits"] = false, -1, 0, 0, false, 0, 0
		return e
	}
	full := func(x *rlwe.Ciphertext, seed []byte) *rlwe.Ciphertext {
		if cf.Deg != 0 {
			return x
		}
		// re-expand the seeded component
		pr, _ := sampling.NewKeyedPRNG(seed)
		out := rlwe.NewCiphertext(p, 1, x.Level())
		*out.MetaData = *x.MetaData
		out.Value[0].CopyLvl(x.Level(), x.Value[0])
		ring.NewUniformSampler(pr, rq).Read(out.Value[1])
		return out
	}
	f1, f2 := full(ct, prngKey), full(ct2, append(prngKey, 'b'))
	dec := rlwe.NewDecryptor(p, c.sk)
	ptOut := dec.DecryptNew(f1)
	got := plain(rq, ptOut.Value, ptOut.IsNTT, ptOut.IsMontgomery)
	diff := rq.NewPoly()
	rq.Sub(got, msg, diff)
	bits, std := stats(rq, diff)
	e["errbits"], e["stdmilli"] = bits, std
	e["metaeq"] = ct.MetaData.Equal(pt.MetaData) && ptOut.MetaData.Equal(pt.MetaData)
	e["lvlout"] = ptOut.Level()
	// decryption into a reused plaintext of the maximum level holding unrelated data gives the same result
	reused := rlwe.NewPlaintextRandom(c.prng, p, p.MaxLevel())
	reused.IsNTT, reused.IsMontgomery = !cf.Ntt, !cf.Mont
	dec.Decrypt(f1, reused)
	if reused.Level() != ptOut.Level() || reused.Element.Value[0].Level() != ptOut.Level() || !reused.MetaData.Equal(ptOut.MetaData) || !polyEq(reused.Value, ptOut.Value, cf.Lvl) {
		e["lvlout"] = -2
	}
	d0 := !polyEq(f1.Value[0], f2.Value[0], cf.Lvl)
	d1 := cf.Deg == 0 || !polyEq(f1.Value[1], f2.Value[1], cf.Lvl)
	e["differs"] = d0 && d1
	wrong := rlwe.NewDecryptor(p, c.sk2).DecryptNew(f1)
	w := plain(rq, wrong.Value, wrong.IsNTT, wrong.IsMontgomery)
	rq.Sub(w, msg, diff)
	wb, _ := stats(rq, diff)
	e["wrongbits"] = wb
	// masking of the second component, measurable from public data: without an auxiliary modulus c1 = u*pk1 + e1, so
	// c1 / pk1 = u + e1 / pk1 looks uniform; it is the small polynomial u itself exactly when c1 carries no error
	e["maskbits"] = e["logq"]
	if cf.Key == "pk" && p.PCount() == 0 && cf.Deg == 1 {
		c1 := plain(rq, f1.Value[1], f1.IsNTT, f1.IsMontgomery)
		a := plain(rq, c.pk.Value[1].Q, true, true)
		rq.NTT(c1, c1)
		rq.NTT(a, a)
		inv := true
		for i, sr := range rq.SubRings[:cf.Lvl+1] {
			for j := range a.Coeffs[i] {
				if a.Coeffs[i][j] == 0 {
					inv = false
					continue
				}
				x := ring.ModExp(a.Coeffs[i][j], sr.Modulus-2, sr.Modulus)
				c1.Coeffs[i][j] = new(big.Int).Mod(new(big.Int).Mul(new(big.Int).SetUint64(c1.Coeffs[i][j]), new(big.Int).SetUint64(x)), new(big.Int).SetUint64(sr.Modulus)).Uint64()
			}
		}
		if inv {
			rq.INTT(c1, c1)
			mb, _ := stats(rq, c1)
			e["maskbits"] = mb
		}
	}
	return e
}

// error of a public key: pk0 + pk1*s
func runPkNoise(name string) ev {
	c := getCtx(name)
	p := c.p
	e := merge(ev{"ev": "keynoise", "what": "pk " + name}, c.common(p.MaxLevel()))
	rq := p.RingQ()
	t := rq.NewPoly()
	rq.MulCoeffsMontgomery(c.pk.Value[1].Q, c.sk.Value.Q, t)
	rq.Add(t, c.pk.Value[0].Q, t)
	rq.INTT(t, t)
	rq.IMForm(t, t)
	bits, std := stats(rq, t)
	e["errbits"], e["stdmilli"], e["err"], e["panic"] = bits, std, false, false
	return e
}

// error of every row of an evaluation key sk -> sk2: the gadget term is removed with the library's own helper,
// what remains of each row is an encryption of zero under sk2 in QP
func runEvkNoise(name string, base2 int, comp bool) ev {
	c := getCtx(name)
	p := c.p
	e := merge(ev{"ev": "keynoise", "what": fmt.Sprintf("evk %s base2=%d comp=%v", name, base2, comp)}, c.common(p.MaxLevel()))
	minStd, maxBits, rows := 2000000000, 0, 0
	err, pan, m := guarded(func() error {
		evk := c.kg.GenEvaluationKeyNew(c.sk, c.sk2, rlwe.EvaluationKeyParameters{BaseTwoDecomposition: &base2, Compressed: comp})
		if comp {
			if err := evk.Expand(p, nil); err != nil {
				return err
			}
		}
		g := *evk.GadgetCiphertext.CopyNew()
		rqp := p.RingQP().AtLevel(g.LevelQ(), g.LevelP())
		neg := p.RingQ().NewPoly()
		p.RingQ().Neg(c.sk.Value.Q, neg)
		if err := rlwe.AddPolyTimesGadgetVectorToGadgetCiphertext(neg, []rlwe.GadgetCiphertext{g}, *p.RingQP(), p.RingQ().NewPoly()); err != nil {
			return err
		}
		for i := range g.Value {
			for j := range g.Value[i] {
				row := g.Value[i][j]
				rqp.MulCoeffsMontgomeryThenAdd(row[1], c.sk2.Value, row[0])
				rqp.INTT(row[0], row[0])
				rqp.IMForm(row[0], row[0])
				bits, std := stats(rqp.RingQ, row[0].Q)
				if std < minStd {
					minStd = std
				}
				if bits > maxBits {
					maxBits = bits
				}
				rows++
			}
		}
		return nil
	})
	e["errbits"], e["stdmilli"], e["err"], e["panic"], e["msg"], e["rows"] = maxBits, minStd, err != nil, pan, m, rows
	return e
}

func evkParams(cf cfg) rlwe.EvaluationKeyParameters {
	lq, lp, b2 := cf.Lvlq, cf.Lvlp, cf.Base2
	return rlwe.EvaluationKeyParameters{LevelQ: &lq, LevelP: &lp, BaseTwoDecomposition: &b2, Compressed: cf.Comp}
}

// key switch with one key parameterisation
func runKs(cf cfg) []ev {
	c := getCtx(cf.Ps)
	p := c.p
	var out []ev
	rq := p.RingQ().AtLevel(cf.Ctlvl)
	e := merge(ev{"ev": "ksw", "cfg": cf, "kind": cf.Kind}, c.common(cf.Ctlvl))
	evkp := evkParams(cf)
	// digits
	D := 0
	digitbits := 0
	if cf.Base2 > 0 {
		digitbits = cf.Base2
	}
	var skOut = c.sk2
	var evk *rlwe.EvaluationKey
	var rlk *rlwe.RelinearizationKey
	var gk *rlwe.GaloisKey
	galEl := p.GaloisElement(3)
	err, pan, m := guarded(func() error {
		switch cf.Kind {
		case "evk":
			evk = c.kg.GenEvaluationKeyNew(c.sk, c.sk2, evkp)
		case "relin":
			rlk = c.kg.GenRelinearizationKeyNew(c.sk, evkp)
			evk = &rlk.EvaluationKey
			skOut = c.sk
		default:
			gk = c.kg.GenGaloisKeyNew(galEl, c.sk, evkp)
			evk = &gk.EvaluationKey
			skOut = c.sk
		}
		return nil
	})
	if err != nil || pan {
		e["err"], e["panic"], e["msg"] = err != nil, pan, "keygen: "+m
		e["metaeq"], e["lvlout"], e["lvlexp"], e["errbits"], e["inbits"], e["lgd"], e["digitbits"] = false, -1, cf.Ctlvl, 0, 0, 0, 0
		return []ev{e}
	}
	// compressed keys: expansion is idempotent, stable through serialisation, and yields a usable key
	if cf.Comp {
		x := merge(ev{"ev": "expand", "cfg": cf}, ev{})
		var eq, twice bool
		err, pan, m := guarded(func() error {
			b, err := evk.MarshalBinary()
			if err != nil {
				return err
			}
			cp := new(rlwe.EvaluationKey)
			if err := cp.UnmarshalBinary(b); err != nil {
				return err
			}
			if err := evk.Expand(p, nil); err != nil {
				return err
			}
			if err := cp.Expand(p, nil); err != nil {
				return err
			}
			b1, _ := evk.GadgetCiphertext.MarshalBinary()
			b2, _ := cp.GadgetCiphertext.MarshalBinary()
			eq = bytes.Equal(b1, b2) && evk.Degree() == 1
			_ = evk.Expand(p, nil) // a second expansion must leave the key as it is (an error is fine)
			b3, _ := evk.GadgetCiphertext.MarshalBinary()
			twice = bytes.Equal(b1, b3)
			return nil
		})
		x["eq"], x["twice"], x["err"], x["panic"], x["msg"] = eq, twice, err != nil, pan, m
		out = append(out, x)
	}
	bt := evk.BaseTwoDecompositionVectorSize()
	for i := range bt {
		if i*(cf.Lvlp+1) <= cf.Ctlvl || cf.Lvlp < 0 && i <= cf.Ctlvl {
			D += bt[i]
		}
	}
	if digitbits == 0 { // RNS digits: at most the product of (levelP+1) consecutive primes
		g := cf.Lvlp + 1
		if g < 1 {
			g = 1
		}
		max := 0
		qs := p.Q()
		for i := 0; i <= cf.Lvlq; i += g {
			b := 0
			for j := i; j < i+g && j <= cf.Lvlq; j++ {
				b += new(big.Int).SetUint64(qs[j]).BitLen()
			}
			if b > max {
				max = b
			}
		}
		digitbits = max
	}
	lgd := new(big.Int).SetInt64(int64(D)).BitLen()
	lgp := 0
	if cf.Lvlp >= 0 {
		lgp = p.RingP().AtLevel(cf.Lvlp).ModulusAtLevel[cf.Lvlp].BitLen() - 1
	}
	e["lgd"], e["digitbits"], e["lgp"] = lgd, digitbits, lgp
	// input ciphertext at ctlvl under sk, domain per cf.Ntt
	pt := rlwe.NewPlaintextRandom(c.prng, p, cf.Ctlvl)
	pt.IsNTT = cf.Ntt
	pt.Scale = rlwe.NewScale(777)
	msg := plain(rq, pt.Value, cf.Ntt, false)
	ct := rlwe.NewCiphertext(p, 1, cf.Ctlvl)
	tr.Must(rlwe.NewEncryptor(p, c.sk).Encrypt(pt, ct))
	e["inbits"] = e["bbits"]
	eval := rlwe.NewEvaluator(p, rlwe.NewMemEvaluationKeySet(rlk, galKeys(gk)...))
	res := rlwe.NewCiphertext(p, 1, cf.Ctlvl)
	want := msg
	err, pan, m = guarded(func() error {
		switch cf.Kind {
		case "evk":
			return eval.ApplyEvaluationKey(ct, evk, res)
		case "relin":
			// a degree-2 ciphertext of the same message: (c0 - c2*s^2, c1, c2) with uniform c2
			ct2 := rlwe.NewCiphertext(p, 2, cf.Ctlvl)
			*ct2.MetaData = *ct.MetaData
			c2 := rq.NewPoly()
			ring.NewUniformSampler(c.prng, rq).Read(c2)
			// a few coefficients of the component to be decomposed sit at the top of each residue range (q-1, q-2, the
			// highest power of two below q and a value above it): the digits of a base-two decomposition must cover them
			if !cf.Ntt {
				plantTop(rq, c2, cf.Ctlvl)
			} else {
				rq.INTT(c2, c2)
				plantTop(rq, c2, cf.Ctlvl)
				rq.NTT(c2, c2)
			}
			s2 := rq.NewPoly()
			rq.MulCoeffsMontgomery(c.sk.Value.Q, c.sk.Value.Q, s2) // s^2, Montgomery form, NTT
			t := rq.NewPoly()
			c2n := *c2.CopyNew()
			if !cf.Ntt {
				rq.NTT(c2n, c2n)
			}
			rq.MulCoeffsMontgomery(c2n, s2, t) // c2*s^2 (NTT, plain)
			if !cf.Ntt {
				rq.INTT(t, t)
			}
			ct2.Value[0].CopyLvl(cf.Ctlvl, ct.Value[0])
			rq.Sub(ct2.Value[0], t, ct2.Value[0])
			ct2.Value[1].CopyLvl(cf.Ctlvl, ct.Value[1])
			ct2.Value[2].CopyLvl(cf.Ctlvl, c2)
			return eval.Relinearize(ct2, res)
		case "autom":
			w := rq.NewPoly()
			rq.Automorphism(msg, galEl, w)
			want = w
			return eval.Automorphism(ct, galEl, res)
		case "automhoisted":
			w := rq.NewPoly()
			rq.Automorphism(msg, galEl, w)
			want = w
			eval.DecomposeNTT(cf.Ctlvl, cf.Lvlp, cf.Lvlp+1, ct.Value[1], ct.IsNTT, eval.BuffDecompQP)
			return eval.AutomorphismHoisted(cf.Ctlvl, ct, eval.BuffDecompQP, galEl, res)
		case "automlazy":
			w := rq.NewPoly()
			rq.Automorphism(msg, galEl, w)
			want = w
			eval.DecomposeNTT(cf.Ctlvl, cf.Lvlp, cf.Lvlp+1, ct.Value[1], ct.IsNTT, eval.BuffDecompQP)
			ctQP := rlwe.NewElementExtended(p, 1, cf.Ctlvl, p.MaxLevelP()) // receivers are allocated once at the maximum P-level
			ctQP.MetaData = ct.MetaData.CopyNew()
			if err := eval.AutomorphismHoistedLazy(cf.Ctlvl, ct, eval.BuffDecompQP, galEl, ctQP); err != nil {
				return err
			}
			*res.MetaData = *ctQP.MetaData
			eval.ModDown(cf.Ctlvl, cf.Lvlp, ctQP, res)
			return nil
		}
		return fmt.Errorf("unknown kind %s", cf.Kind)
	})
	e["err"], e["panic"], e["msg"] = err != nil, pan, m
	e["lvlexp"] = cf.Ctlvl
	if err != nil || pan {
		e["metaeq"], e["lvlout"], e["errbits"] = false, -1, 0
		return append(out, e)
	}
	ptOut := rlwe.NewDecryptor(p, skOut).DecryptNew(res)
	got := plain(rq, ptOut.Value, ptOut.IsNTT, ptOut.IsMontgomery)
	diff := rq.NewPoly()
	rq.Sub(got, want, diff)
	bits, _ := stats(rq, diff)
	e["errbits"] = bits
	e["lvlout"] = res.Level()
	e["metaeq"] = res.MetaData.Equal(ct.MetaData)
	return append(out, e)
}

func galKeys(gk *rlwe.GaloisKey) []*rlwe.GaloisKey {
	if gk == nil {
		return nil
	}
	return []*rlwe.GaloisKey{gk}
}

// Main: vrun c03 psets | exec --cfgs f --trace out
func Main(args []string) int {
	fs := flag.NewFlagSet("c03", flag.ExitOnError)
	cfgs := fs.String("cfgs", "", "configurations (one JSON record per line)")
	trace := fs.String("trace", "", "trace")
	seed := fs.Uint64("seed", 1, "seed")
	fs.Parse(args[1:])
	if args[0] == "psets" {
		var out []PSInfo
		for _, name := range []string{"classic", "mixedbig", "threeP", "noP", "single", "sparseH", "ci", "smallq0", "smallq0n", "ternhalf"} {
			l := PSets[name]
			out = append(out, PSInfo{name, len(l.LogQ), len(l.LogP)})
		}
		b, _ := json.Marshal(out)
		fmt.Println(string(b))
		return 0
	}
	tr.Seed(*seed)
	f, err := os.Open(*cfgs)
	tr.Must(err)
	defer f.Close()
	w := tr.NewWriter(*trace)
	defer w.Close()
	sc := bufio.NewScanner(f)
	sc.Buffer(make([]byte, 1<<20), 1<<24)
	n := 0
	seenPk := map[string]bool{}
	for sc.Scan() {
		var cf cfg
		tr.Must(json.Unmarshal(sc.Bytes(), &cf))
		n++
		var evs []ev
		if cf.Ev == "enc" {
			evs = []ev{runEnc(cf)}
			if !seenPk[cf.Ps] {
				seenPk[cf.Ps] = true
				evs = append(evs, runPkNoise(cf.Ps))
				for _, b2 := range []int{0, 8} {
					if b2 > 0 && len(PSets[cf.Ps].LogP) > 1 {
						continue
					}
					evs = append(evs, runEvkNoise(cf.Ps, b2, false), runEvkNoise(cf.Ps, b2, true))
				}
			}
		} else {
			evs = runKs(cf)
		}
		for i, e := range evs {
			e["prog"], e["fork"], e["indep"] = n, i+1, true
			w.Emit(e)
		}
	}
	res := tr.Result{Events: w.N, Cases: n}
	res.Print()
	return 0
}
