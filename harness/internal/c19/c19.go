// Package c19 maps the feature vectors of spec/Params.tla to concrete parameter literals, calls the real
// constructors (rlwe / bgv / ckks NewParametersFromLiteral) and records the outcome together with an
// arithmetic soundness probe of every accepted context; it also records GenModuli requests, codec round
// trips and derived quantities.  Expected products use 128-bit integer arithmetic (math/bits) and math/big.
package c19

import (
	"bufio"
	"encoding/json"
	"flag"
	"fmt"
	"math"
	"math/big"
	"math/bits"
	"os"
	"runtime/debug"

	"github.com/tuneinsight/lattigo/v6/core/rlwe"
	"github.com/tuneinsight/lattigo/v6/ring"
	"github.com/tuneinsight/lattigo/v6/schemes/bgv"
	"github.com/tuneinsight/lattigo/v6/schemes/ckks"

	"verif/harness/internal/tr"
)

type vec struct {
	LogN   string `json:"logn"`
	QSrc   string `json:"qsrc"`
	PSrc   string `json:"psrc"`
	QF     string `json:"qf"`
	PF     string `json:"pf"`
	LF     string `json:"lf"`
	RT     string `json:"rt"`
	Scheme string `json:"scheme"`
	T      string `json:"t"`
	S      string `json:"s"`
}

type prog struct {
	V   vec    `json:"v"`
	Req string `json:"req"`
}

type event struct {
	Ev       string   `json:"ev"`
	Prog     int      `json:"prog"`
	Fork     int      `json:"fork"`
	V        *vec     `json:"v,omitempty"`
	Req      string   `json:"req,omitempty"`
	Outcome  string   `json:"outcome,omitempty"`
	Sound    bool     `json:"sound"`
	Unsound  string   `json:"unsound,omitempty"`
	Err      bool     `json:"err"`
	Panic    bool     `json:"panic"`
	Msg      string   `json:"msg,omitempty"`
	Lit      string   `json:"lit,omitempty"`
	LogNth   int      `json:"lognth,omitempty"`
	ReqBits  []int    `json:"req_bits,omitempty"`
	Rq       []int    `json:"-"`
	Got      [][3]int `json:"got,omitempty"`
	Distinct bool     `json:"distinct"`
	MustFail bool     `json:"mustfail"`
	Kind     string   `json:"kind,omitempty"`
	Equal    bool     `json:"equal"`
	LitOK    bool     `json:"litok"`
}

// Primes returns count primes of exactly the given bit length congruent to 1 modulo nthRoot (scanning down).
func Primes(bitlen int, nthRoot uint64, count int, avoid map[uint64]bool) []uint64 {
	var out []uint64
	var x uint64
	if bitlen >= 64 {
		x = (^uint64(0)) / nthRoot * nthRoot
	} else {
		x = (uint64(1)<<uint(bitlen) - 1) / nthRoot * nthRoot
	}
	for len(out) < count && x > 0 {
		c := x + 1
		if c > x && bits.Len64(c) == bitlen && !avoid[c] && new(big.Int).SetUint64(c).ProbablyPrime(32) {
			out = append(out, c)
			avoid[c] = true
		}
		x -= nthRoot
	}
	return out
}

type concrete struct {
	logN       int
	q, p       []uint64
	logQ, logP []int
	rt         ring.Type
	t          uint64
	scale      int
}

func build(v vec) concrete {
	c := concrete{}
	switch v.LogN {
	case "below":
		c.logN = rlwe.MinLogN - 1
	case "min":
		c.logN = rlwe.MinLogN
	case "mid":
		c.logN = 10
	case "above":
		c.logN = rlwe.MaxLogN + 1
	}
	ln := c.logN
	if ln > 12 {
		ln = 12
	}
	nth := uint64(4) << uint(ln)
	avoid := map[uint64]bool{}
	q := append(Primes(55, nth, 1, avoid), Primes(45, nth, 2, avoid)...)
	p := Primes(56, nth, 1, avoid)
	switch v.QF {
	case "composite":
		for k := (uint64(1)<<44)/nth + 7; ; k++ {
			x := k*nth + 1
			if !new(big.Int).SetUint64(x).ProbablyPrime(32) {
				q[1] = x
				break
			}
		}
	case "nonntt":
		for x := uint64(1)<<44 + 3; ; x += 4 {
			if x%nth != 1 && new(big.Int).SetUint64(x).ProbablyPrime(32) {
				q[1] = x
				break
			}
		}
	case "halfntt": // 1 modulo half the root order only (friendly for a ring of half the degree / of the other type)
		for k := (uint64(1)<<44)/nth + 1; ; k++ {
			x := k*nth + nth/2 + 1
			if new(big.Int).SetUint64(x).ProbablyPrime(32) {
				q[1] = x
				break
			}
		}
	case "dup":
		q[2] = q[1]
	case "shared":
		p[0] = q[1]
	case "bits61":
		q[1] = Primes(61, nth, 1, avoid)[0]
	case "bits62":
		q[1] = Primes(62, nth, 1, avoid)[0]
	case "bits63":
		q[1] = Primes(63, nth, 1, avoid)[0]
	case "zero":
		q[1] = 0
	case "one":
		q[1] = 1
	case "two":
		q[1] = 2
	}
	switch v.PF {
	case "composite":
		for k := (uint64(1)<<55)/nth + 7; ; k++ {
			x := k*nth + 1
			if !new(big.Int).SetUint64(x).ProbablyPrime(32) {
				p[0] = x
				break
			}
		}
	case "nonntt":
		for x := uint64(1)<<55 + 3; ; x += 4 {
			if x%nth != 1 && new(big.Int).SetUint64(x).ProbablyPrime(32) {
				p[0] = x
				break
			}
		}
	case "halfntt":
		for k := (uint64(1)<<55)/nth + 1; ; k++ {
			x := k*nth + nth/2 + 1
			if new(big.Int).SetUint64(x).ProbablyPrime(32) {
				p[0] = x
				break
			}
		}
	case "dup":
		p = []uint64{p[0], p[0]}
	case "bits62":
		p[0] = Primes(62, nth, 1, avoid)[0]
	case "bits63":
		p[0] = Primes(63, nth, 1, avoid)[0]
	case "bits64":
		p[0] = Primes(64, nth, 1, avoid)[0]
	}
	logQ, logP := []int{55, 45, 45}, []int{56}
	switch v.LF {
	case "zero":
		logQ[1] = 0
	case "neg":
		logQ[1] = -3
	case "q61":
		logQ[0] = 61
	case "huge":
		logQ[1] = 64
	case "scarce":
		logQ = make([]int, 20)
		for i := range logQ {
			logQ[i] = c.logN + 3
		}
	case "p62":
		logP[0] = 62
	}
	if v.QSrc == "list" || v.QSrc == "both" {
		c.q = q
	}
	if v.QSrc == "log" || v.QSrc == "both" {
		c.logQ = logQ
	}
	if v.PSrc == "list" || v.PSrc == "both" {
		c.p = p
	}
	if v.PSrc == "log" || v.PSrc == "both" {
		c.logP = logP
	}
	switch v.RT {
	case "std":
		c.rt = ring.Standard
	case "ci":
		c.rt = ring.ConjugateInvariant
	default:
		c.rt = ring.Type(2)
	}
	switch v.T {
	case "good":
		c.t = 65537
	case "small":
		c.t = 97
	case "zero":
		c.t = 0
	case "dividesQ":
		c.t = q[len(q)-1]
	case "aboveQ0":
		c.t = Primes(57, nth, 1, avoid)[0]
	case "smallorder":
		c.t = 7
	case "composite":
		c.t = 33
	case "even":
		c.t = 65536
	}
	c.scale = map[string]int{"s0": 0, "s45": 45, "s128": 128, "s129": 129}[v.S]
	return c
}

func mulmod(a, b, q uint64) uint64 {
	hi, lo := bits.Mul64(a%q, b%q)
	_, r := bits.Div64(hi, lo, q)
	return r
}

// ringSound: worst-case operands through MForm / NTT / MulCoeffsMontgomery / INTT and through Add / Sub / Neg
// against the schoolbook negacyclic product.
func ringSound(r *ring.Ring) string {
	N := r.N()
	a, b, c := r.NewPoly(), r.NewPoly(), r.NewPoly()
	for i, s := range r.SubRings {
		q := s.Modulus
		for j := 0; j < N; j++ {
			a.Coeffs[i][j] = q - 1
			b.Coeffs[i][j] = q - 1 - uint64(j%3)
		}
	}
	exp := make([][]uint64, len(r.SubRings))
	M := N
	if M > 64 {
		M = 64 // compare the first 64 output coefficients (each depends on all inputs)
	}
	for i, s := range r.SubRings {
		q := s.Modulus
		exp[i] = make([]uint64, M)
		for k := 0; k < M; k++ {
			var acc uint64
			for x := 0; x < N; x++ {
				y := (k - x + N) % N
				t := mulmod(a.Coeffs[i][x], b.Coeffs[i][y], q)
				if x > k { // wrapped: negacyclic sign
					t = (q - t) % q
				}
				acc = (acc + t) % q
			}
			exp[i][k] = acc
		}
	}
	ma := r.NewPoly()
	r.MForm(a, ma)
	r.NTT(ma, ma)
	nb := r.NewPoly()
	r.NTT(b, nb)
	r.MulCoeffsMontgomery(ma, nb, c)
	r.INTT(c, c)
	for i := range exp {
		for k := 0; k < M; k++ {
			if c.Coeffs[i][k]%r.SubRings[i].Modulus != exp[i][k] {
				return fmt.Sprintf("negacyclic product wrong at modulus %d coefficient %d", i, k)
			}
		}
	}
	// lazy variants
	r.NTTLazy(b, nb)
	r.MulCoeffsMontgomeryLazy(ma, nb, c)
	r.INTTLazy(c, c)
	r.Reduce(c, c)
	for i := range exp {
		for k := 0; k < M; k++ {
			if c.Coeffs[i][k]%r.SubRings[i].Modulus != exp[i][k] {
				return fmt.Sprintf("lazy negacyclic product wrong at modulus %d coefficient %d", i, k)
			}
		}
	}
	d := r.NewPoly()
	r.Add(a, b, d)
	r.Sub(d, b, d)
	r.Neg(d, d)
	r.Neg(d, d)
	if !d.Equal(&a) {
		return "a + b - b != a"
	}
	return ""
}

// rlweSound: encrypt / decrypt and, when P exists, a key switch.
func rlweSound(params rlwe.Parameters) string {
	if params.LogQ() < 80 {
		return ""
	}
	kg := rlwe.NewKeyGenerator(params)
	sk := kg.GenSecretKeyNew()
	rq := params.RingQ()
	N := params.N()
	m := rq.NewPoly()
	for i := range m.Coeffs {
		for j := 0; j < N; j++ {
			m.Coeffs[i][j] = uint64(j%251) << 40
		}
	}
	pt := rlwe.NewPlaintext(params, params.MaxLevel())
	if params.NTTFlag() {
		rq.NTT(m, pt.Value)
		pt.IsNTT = true
	} else {
		pt.Value.Copy(m)
	}
	check := func(ct *rlwe.Ciphertext, key *rlwe.SecretKey, what string) string {
		out := rlwe.NewDecryptor(params, key).DecryptNew(ct)
		v := out.Value
		if out.IsNTT {
			rq.INTT(v, v)
		}
		big1 := make([]*big.Int, N)
		for j := range big1 {
			big1[j] = new(big.Int)
		}
		rq.PolyToBigintCentered(v, 1, big1)
		for j := 0; j < N; j++ {
			d := new(big.Int).Sub(big1[j], new(big.Int).Lsh(big.NewInt(int64(j%251)), 40))
			if d.Abs(d).BitLen() > 36 {
				return fmt.Sprintf("%s: decryption error of %d bits at coefficient %d", what, d.BitLen(), j)
			}
		}
		return ""
	}
	ct := rlwe.NewCiphertext(params, 1, params.MaxLevel())
	if err := rlwe.NewEncryptor(params, sk).Encrypt(pt, ct); err != nil {
		return "encrypt: " + err.Error()
	}
	if s := check(ct, sk, "sk encryption"); s != "" {
		return s
	}
	if params.PCount() > 0 {
		pk := kg.GenPublicKeyNew(sk)
		ct2 := rlwe.NewCiphertext(params, 1, params.MaxLevel())
		if err := rlwe.NewEncryptor(params, pk).Encrypt(pt, ct2); err != nil {
			return "pk encrypt: " + err.Error()
		}
		if s := check(ct2, sk, "pk encryption"); s != "" {
			return s
		}
		sk2 := kg.GenSecretKeyNew()
		evk := kg.GenEvaluationKeyNew(sk, sk2)
		out := rlwe.NewCiphertext(params, 1, params.MaxLevel())
		if err := rlwe.NewEvaluator(params, nil).ApplyEvaluationKey(ct, evk, out); err != nil {
			return "key switch: " + err.Error()
		}
		if s := check(out, sk2, "key switch"); s != "" {
			return s
		}
	}
	return ""
}

func bgvSound(p bgv.Parameters) string {
	kg := rlwe.NewKeyGenerator(p)
	sk := kg.GenSecretKeyNew()
	ecd := bgv.NewEncoder(p)
	n := p.MaxSlots()
	vals := make([]uint64, n)
	t := p.PlaintextModulus()
	for i := range vals {
		vals[i] = (uint64(i)*7919 + t - 1) % t
	}
	pt := bgv.NewPlaintext(p, p.MaxLevel())
	if err := ecd.Encode(vals, pt); err != nil {
		return "encode: " + err.Error()
	}
	ct, err := rlwe.NewEncryptor(p, sk).EncryptNew(pt)
	if err != nil {
		return "encrypt: " + err.Error()
	}
	ev := bgv.NewEvaluator(p, nil, false)
	prod, err := ev.MulNew(ct, ct)
	if err != nil {
		return "mul: " + err.Error()
	}
	out := make([]uint64, n)
	if err := ecd.Decode(rlwe.NewDecryptor(p, sk).DecryptNew(prod), out); err != nil {
		return "decode: " + err.Error()
	}
	for i := range out {
		if out[i] != mulmod(vals[i], vals[i], t) {
			return fmt.Sprintf("bgv square wrong in slot %d", i)
		}
	}
	return ""
}

func ckksSound(p ckks.Parameters) string {
	if p.LogDefaultScale() < 30 || p.LogDefaultScale() > 60 {
		return ""
	}
	kg := rlwe.NewKeyGenerator(p)
	sk := kg.GenSecretKeyNew()
	ecd := ckks.NewEncoder(p)
	n := p.MaxSlots()
	vals := make([]complex128, n)
	for i := range vals {
		vals[i] = complex(float64(i%17)/8-1, float64(i%5)/4)
		if p.RingType() == ring.ConjugateInvariant {
			vals[i] = complex(real(vals[i]), 0) // real slots only
		}
	}
	pt := ckks.NewPlaintext(p, p.MaxLevel())
	if err := ecd.Encode(vals, pt); err != nil {
		return "encode: " + err.Error()
	}
	ct, err := rlwe.NewEncryptor(p, sk).EncryptNew(pt)
	if err != nil {
		return "encrypt: " + err.Error()
	}
	ev := ckks.NewEvaluator(p, nil)
	prod, err := ev.MulNew(ct, ct)
	if err != nil {
		return "mul: " + err.Error()
	}
	if err := ev.Rescale(prod, prod); err != nil {
		return "rescale: " + err.Error()
	}
	out := make([]complex128, n)
	if err := ecd.Decode(rlwe.NewDecryptor(p, sk).DecryptNew(prod), out); err != nil {
		return "decode: " + err.Error()
	}
	for i := range out {
		w := vals[i] * vals[i]
		if math.Abs(real(out[i])-real(w)) > 1e-4 || math.Abs(imag(out[i])-imag(w)) > 1e-4 {
			return fmt.Sprintf("ckks square wrong in slot %d: %v vs %v", i, out[i], w)
		}
	}
	return ""
}

func guard(f func() string) (s string, pan bool, msg string) {
	defer func() {
		if r := recover(); r != nil {
			pan, msg = true, fmt.Sprint(r)
			if os.Getenv("VERIF_STACK") != "" {
				debug.PrintStack()
			}
		}
	}()
	s = f()
	return
}

func (e *event) construct(v vec) {
	c := build(v)
	e.Lit = fmt.Sprintf("LogN=%d Q=%v P=%v LogQ=%v LogP=%v rt=%d t=%d scale=%d", c.logN, c.q, c.p, c.logQ, c.logP, c.rt, c.t, c.scale)
	var unsound string
	// the slices of the literal are prefixes of longer tables (as when a caller takes the first k primes of a chain):
	// the constructor must leave the tables, spare capacity included, as they were
	spareU := func(x []uint64) ([]uint64, []uint64) {
		t := make([]uint64, len(x), len(x)+4)
		copy(t, x)
		full := t[:cap(t)]
		for i := len(x); i < len(full); i++ {
			full[i] = 0xdead0000 + uint64(i)
		}
		return t, append([]uint64{}, full...)
	}
	spareI := func(x []int) ([]int, []int) {
		t := make([]int, len(x), len(x)+4)
		copy(t, x)
		full := t[:cap(t)]
		for i := len(x); i < len(full); i++ {
			full[i] = 7000 + i
		}
		return t, append([]int{}, full...)
	}
	var q0, p0 []uint64
	var lq0, lp0 []int
	if c.q != nil {
		c.q, q0 = spareU(c.q)
	}
	if c.p != nil {
		c.p, p0 = spareU(c.p)
	}
	if c.logQ != nil {
		c.logQ, lq0 = spareI(c.logQ)
	}
	if c.logP != nil {
		c.logP, lp0 = spareI(c.logP)
	}
	defer func() {
		e.LitOK = true
		for i, x := range q0 {
			e.LitOK = e.LitOK && c.q[:cap(c.q)][i] == x
		}
		for i, x := range p0 {
			e.LitOK = e.LitOK && c.p[:cap(c.p)][i] == x
		}
		for i, x := range lq0 {
			e.LitOK = e.LitOK && c.logQ[:cap(c.logQ)][i] == x
		}
		for i, x := range lp0 {
			e.LitOK = e.LitOK && c.logP[:cap(c.logP)][i] == x
		}
	}()
	_, pan, msg := guard(func() string {
		switch v.Scheme {
		case "rlwe":
			p, err := rlwe.NewParametersFromLiteral(rlwe.ParametersLiteral{LogN: c.logN, Q: c.q, P: c.p, LogQ: c.logQ, LogP: c.logP, RingType: c.rt, NTTFlag: true})
			if err != nil {
				e.Outcome, e.Msg = "reject", err.Error()
				return ""
			}
			e.Outcome = "accept"
			if c.rt == ring.Standard {
				unsound = ringSound(p.RingQ())
				if unsound == "" && p.RingP() != nil {
					unsound = ringSound(p.RingP())
				}
			}
			if unsound == "" {
				unsound = rlweSound(p)
			}
		case "bgv":
			p, err := bgv.NewParametersFromLiteral(bgv.ParametersLiteral{LogN: c.logN, Q: c.q, P: c.p, LogQ: c.logQ, LogP: c.logP, PlaintextModulus: c.t})
			if err != nil {
				e.Outcome, e.Msg = "reject", err.Error()
				return ""
			}
			e.Outcome = "accept"
			unsound = ringSound(p.RingQ())
			if unsound == "" {
				unsound = rlweSound(p.Parameters)
			}
			if unsound == "" {
				unsound = bgvSound(p)
			}
		case "ckks":
			p, err := ckks.NewParametersFromLiteral(ckks.ParametersLiteral{LogN: c.logN, Q: c.q, P: c.p, LogQ: c.logQ, LogP: c.logP, RingType: c.rt, LogDefaultScale: c.scale})
			if err != nil {
				e.Outcome, e.Msg = "reject", err.Error()
				return ""
			}
			e.Outcome = "accept"
			if c.rt == ring.Standard {
				unsound = ringSound(p.RingQ())
			}
			if unsound == "" {
				unsound = rlweSound(p.Parameters)
			}
			if unsound == "" {
				unsound = ckksSound(p)
			}
		}
		return ""
	})
	if pan {
		if e.Outcome == "accept" {
			unsound = "panic while using the accepted context: " + msg
		} else {
			e.Outcome, e.Panic, e.Msg = "panic", true, msg
		}
	}
	e.Unsound = unsound
	e.Sound = e.Outcome == "accept" && unsound == ""
}

type genEvent struct {
	Ev       string   `json:"ev"`
	Prog     int      `json:"prog"`
	Fork     int      `json:"fork"`
	LogNth   int      `json:"lognth"`
	Req      []int    `json:"req"`
	Got      [][3]int `json:"got"`
	Distinct bool     `json:"distinct"`
	MustFail bool     `json:"mustfail"`
	MayFail  bool     `json:"mayfail"`
	Err      bool     `json:"err"`
	Panic    bool     `json:"panic"`
	Msg      string   `json:"msg,omitempty"`
}

func genEvents(w *tr.Writer, prog *int, thorough bool) {
	type req struct {
		lognth     int
		logQ, logP []int
		mustfail   bool
		mayfail    bool
	}
	var reqs []req
	for _, ln := range []int{5, 6, 11, 12, 14, 16, 17} {
		reqs = append(reqs,
			req{ln, []int{60, 60, 60, 45, 45, 30}, []int{61, 61}, false, false},
			req{ln, []int{55, 40, 40, 40, 40, 40, 40, 40}, []int{56, 56, 55}, false, false},
			req{ln, []int{ln + 14, ln + 14, 33}, nil, false, false},
			req{ln, []int{50}, []int{50, 50, 50, 50}, false, false})
		if thorough {
			for b := ln + 12; b <= 60; b += 3 {
				reqs = append(reqs, req{ln, []int{b, b, b + 0, 60}, []int{b, 61}, false, false})
			}
		}
	}
	// every bit size, three Q primes and one P prime of the same size (few NTT-friendly primes exist for sizes close to
	// the root order: such a request may be declined, never answered wrongly)
	for _, ln := range []int{5, 11, 14} {
		for b := ln + 2; b <= 60; b++ {
			if !thorough && (b+ln)%3 != 0 && b != 16 && b != 17 {
				continue
			}
			reqs = append(reqs, req{ln, []int{b, b, b}, []int{b}, false, b < ln+8})
		}
	}
	reqs = append(reqs, req{11, []int{61}, nil, true, false}, req{11, []int{0}, nil, true, false}, req{11, []int{40}, []int{62}, true, false},
		req{12, []int{14, 14, 14, 14, 14, 14, 14, 14}, nil, true, false}, req{11, []int{-5, 40}, nil, true, false})
	for _, rq := range reqs {
		*prog++
		e := genEvent{Ev: "gen", Prog: *prog, LogNth: rq.lognth, Req: append(append([]int{}, rq.logQ...), rq.logP...), MustFail: rq.mustfail, MayFail: rq.mayfail}
		func() {
			defer func() {
				if r := recover(); r != nil {
					e.Panic, e.Msg = true, fmt.Sprint(r)
				}
			}()
			q, p, err := rlwe.GenModuli(rq.lognth, rq.logQ, rq.logP)
			if err != nil {
				e.Err, e.Msg = true, err.Error()
				return
			}
			all := append(append([]uint64{}, q...), p...)
			seen := map[uint64]bool{}
			e.Distinct = true
			for _, x := range all {
				if seen[x] {
					e.Distinct = false
				}
				seen[x] = true
				// size of a modulus: log2 rounded to the nearest integer (primes are generated around 2^bits)
				sq := new(big.Int).SetUint64(x)
				sq.Mul(sq, sq)
				g := [3]int{sq.BitLen() / 2, 0, 0}
				if x%(uint64(1)<<uint(rq.lognth)) == 1 {
					g[1] = 1
				}
				if new(big.Int).SetUint64(x).ProbablyPrime(64) {
					g[2] = 1
				}
				e.Got = append(e.Got, g)
			}
		}()
		if e.Got == nil {
			e.Got = [][3]int{}
		}
		w.Emit(e)
	}
}

type tripEvent struct {
	Ev    string `json:"ev"`
	Prog  int    `json:"prog"`
	Fork  int    `json:"fork"`
	Kind  string `json:"kind"`
	Equal bool   `json:"equal"`
	Err   bool   `json:"err"`
	Panic bool   `json:"panic"`
	Msg   string `json:"msg,omitempty"`
}

func tripEvents(w *tr.Writer, prog *int) {
	emit := func(kind string, f func() (bool, error)) {
		*prog++
		e := tripEvent{Ev: "trip", Prog: *prog, Kind: kind}
		func() {
			defer func() {
				if r := recover(); r != nil {
					e.Panic, e.Msg = true, fmt.Sprint(r)
				}
			}()
			eq, err := f()
			e.Equal = eq
			if err != nil {
				e.Err, e.Msg = true, err.Error()
			}
		}()
		w.Emit(e)
	}
	rl := []rlwe.ParametersLiteral{
		{LogN: 10, LogQ: []int{55, 45, 45}, LogP: []int{56}, NTTFlag: true},
		{LogN: 6, LogQ: []int{40}, NTTFlag: false},
		{LogN: 9, LogQ: []int{50, 40}, LogP: []int{50, 50}, RingType: ring.ConjugateInvariant, NTTFlag: true, Xs: ring.Ternary{H: 32}, Xe: ring.DiscreteGaussian{Sigma: 4.5, Bound: 30}},
		{LogN: 8, LogQ: []int{60, 30}, LogP: []int{61}, Xs: ring.DiscreteGaussian{Sigma: 3.2, Bound: 19.2}, DefaultScale: rlwe.NewScale(1 << 30)},
	}
	for i, lit := range rl {
		p, err := rlwe.NewParametersFromLiteral(lit)
		tr.Must(err)
		emit(fmt.Sprintf("rlwe-%d-json", i), func() (bool, error) {
			b, err := p.MarshalJSON()
			if err != nil {
				return false, err
			}
			var q rlwe.Parameters
			if err := q.UnmarshalJSON(b); err != nil {
				return false, err
			}
			return p.Equal(&q) && q.Equal(&p), nil
		})
		emit(fmt.Sprintf("rlwe-%d-binary", i), func() (bool, error) {
			b, err := p.MarshalBinary()
			if err != nil {
				return false, err
			}
			var q rlwe.Parameters
			if err := q.UnmarshalBinary(b); err != nil {
				return false, err
			}
			return p.Equal(&q) && q.Equal(&p), nil
		})
		emit(fmt.Sprintf("rlwe-%d-literal", i), func() (bool, error) {
			q, err := rlwe.NewParametersFromLiteral(p.ParametersLiteral())
			if err != nil {
				return false, err
			}
			return p.Equal(&q), nil
		})
		emit(fmt.Sprintf("rlwe-%d-literal-json", i), func() (bool, error) {
			b, err := json.Marshal(p.ParametersLiteral())
			if err != nil {
				return false, err
			}
			var l2 rlwe.ParametersLiteral
			if err := json.Unmarshal(b, &l2); err != nil {
				return false, err
			}
			q, err := rlwe.NewParametersFromLiteral(l2)
			if err != nil {
				return false, err
			}
			return p.Equal(&q), nil
		})
	}
	bl := []bgv.ParametersLiteral{
		{LogN: 10, LogQ: []int{55, 45, 45}, LogP: []int{56}, PlaintextModulus: 65537},
		{LogN: 6, LogQ: []int{40, 40}, PlaintextModulus: 97},
		{LogN: 9, LogQ: []int{50, 40}, LogP: []int{50}, PlaintextModulus: 0x10001, Xs: ring.Ternary{H: 64}},
	}
	for i, lit := range bl {
		p, err := bgv.NewParametersFromLiteral(lit)
		tr.Must(err)
		emit(fmt.Sprintf("bgv-%d-json", i), func() (bool, error) {
			b, err := p.MarshalJSON()
			if err != nil {
				return false, err
			}
			var q bgv.Parameters
			if err := q.UnmarshalJSON(b); err != nil {
				return false, err
			}
			return p.Equal(&q) && q.Equal(&p), nil
		})
		emit(fmt.Sprintf("bgv-%d-binary", i), func() (bool, error) {
			b, err := p.MarshalBinary()
			if err != nil {
				return false, err
			}
			var q bgv.Parameters
			if err := q.UnmarshalBinary(b); err != nil {
				return false, err
			}
			return p.Equal(&q) && q.Equal(&p), nil
		})
		emit(fmt.Sprintf("bgv-%d-literal", i), func() (bool, error) {
			q, err := bgv.NewParametersFromLiteral(p.ParametersLiteral())
			if err != nil {
				return false, err
			}
			return p.Equal(&q), nil
		})
	}
	cl := []ckks.ParametersLiteral{
		{LogN: 10, LogQ: []int{55, 45, 45}, LogP: []int{56}, LogDefaultScale: 45},
		{LogN: 6, LogQ: []int{40, 40}, LogDefaultScale: 30},
		{LogN: 9, LogQ: []int{50, 40}, LogP: []int{50}, LogDefaultScale: 40, RingType: ring.ConjugateInvariant, Xs: ring.Ternary{H: 64}},
		{LogN: 9, LogQ: []int{60, 60, 60}, LogP: []int{61}, LogDefaultScale: 100},
	}
	for i, lit := range cl {
		p, err := ckks.NewParametersFromLiteral(lit)
		tr.Must(err)
		emit(fmt.Sprintf("ckks-%d-json", i), func() (bool, error) {
			b, err := p.MarshalJSON()
			if err != nil {
				return false, err
			}
			var q ckks.Parameters
			if err := q.UnmarshalJSON(b); err != nil {
				return false, err
			}
			return p.Equal(&q) && q.Equal(&p), nil
		})
		emit(fmt.Sprintf("ckks-%d-binary", i), func() (bool, error) {
			b, err := p.MarshalBinary()
			if err != nil {
				return false, err
			}
			var q ckks.Parameters
			if err := q.UnmarshalBinary(b); err != nil {
				return false, err
			}
			return p.Equal(&q) && q.Equal(&p), nil
		})
		emit(fmt.Sprintf("ckks-%d-literal", i), func() (bool, error) {
			q, err := ckks.NewParametersFromLiteral(p.ParametersLiteral())
			if err != nil {
				return false, err
			}
			return p.Equal(&q), nil
		})
	}
}

func Main(args []string) int {
	fs := flag.NewFlagSet("c19", flag.ExitOnError)
	vecs := fs.String("vecs", "", "ndjson feature vectors {v, req}")
	trace := fs.String("trace", "", "output trace")
	seed := fs.Uint64("seed", 1, "seed")
	part := fs.Int("part", 0, "")
	parts := fs.Int("parts", 1, "")
	extras := fs.Bool("extras", false, "also GenModuli and codec events")
	thorough := fs.Bool("thorough", false, "")
	fs.Parse(args[1:])
	tr.Seed(*seed)
	w := tr.NewWriter(*trace)
	prog := *part * 1_000_000
	f, err := os.Open(*vecs)
	tr.Must(err)
	sc := bufio.NewScanner(f)
	sc.Buffer(make([]byte, 1<<20), 1<<20)
	k := 0
	for sc.Scan() {
		var p prog_
		tr.Must(json.Unmarshal(sc.Bytes(), &p))
		if k%*parts == *part {
			prog++
			v := p.V
			e := event{Ev: "lit", Prog: prog, V: &v, Req: p.Req}
			e.construct(v)
			w.Emit(e)
		}
		k++
	}
	if *extras && *part == 0 {
		genEvents(w, &prog, *thorough)
		tripEvents(w, &prog)
	}
	w.Close()
	(&tr.Result{Events: w.N, Cases: prog - *part*1_000_000}).Print()
	return 0
}

type prog_ = prog
