package c05

import (
	"bufio"
	"encoding/json"
	"fmt"
	"hash/fnv"
	"math/big"
	"math/rand"
	"os"

	"github.com/tuneinsight/lattigo/v6/core/rlwe"
	"github.com/tuneinsight/lattigo/v6/ring"
	"github.com/tuneinsight/lattigo/v6/schemes/bgv"

	"verif/harness/internal/tr"
)

// Word-size plaintext moduli (33 to 58 bits): programs of spec/BigIntGen.tla executed on the real bgv.Evaluator. TLC's integers
// are 32 bits wide, so every number travels as little-endian limbs in base 4096 (spec/BigNat.tla) and every reduction
// modulo T is logged together with its quotient, which the specification verifies instead of trusting.

type bigSet struct {
	Name string
	P    bgv.Parameters
	T    *big.Int
}

func bigPSet(name string) bigSet {
	var lit bgv.ParametersLiteral
	switch name {
	case "T33":
		g := ring.NewNTTFriendlyPrimesGenerator(33, 2048)
		t, err := g.NextAlternatingPrime()
		tr.Must(err)
		lit = bgv.ParametersLiteral{LogN: 10, LogQ: []int{56, 55, 55, 55}, LogP: []int{57}, PlaintextModulus: t}
	case "T37":
		lit = bgv.ParametersLiteral{LogN: 10, LogQ: []int{56, 55, 55, 55}, LogP: []int{57}, PlaintextModulus: 0x1000090001}
	case "T58":
		g := ring.NewNTTFriendlyPrimesGenerator(58, 2048)
		t, err := g.NextAlternatingPrime()
		tr.Must(err)
		lit = bgv.ParametersLiteral{LogN: 10, LogQ: []int{60, 60, 60, 60, 60}, LogP: []int{61}, PlaintextModulus: t}
	default:
		panic("unknown big pset " + name)
	}
	p, err := bgv.NewParametersFromLiteral(lit)
	tr.Must(err)
	return bigSet{Name: name, P: p, T: new(big.Int).SetUint64(p.PlaintextModulus())}
}

func limbs(x *big.Int) []int {
	out := []int{}
	y := new(big.Int).Set(x)
	if y.Sign() < 0 {
		panic("limbs of a negative number")
	}
	m := big.NewInt(4095)
	for y.Sign() != 0 {
		out = append(out, int(new(big.Int).And(y, m).Int64()))
		y.Rsh(y, 12)
	}
	return out
}

func limbsU(x uint64) []int { return limbs(new(big.Int).SetUint64(x)) }

// bigConsts: T, q_i mod T, Q_l mod T with the quotients of its recurrence.
func (bs bigSet) consts() map[string]interface{} {
	qs := bs.P.Q()
	qmod, qprod, qwit, logq := [][]int{}, [][]int{}, [][]int{}, []int{}
	acc := big.NewInt(1)
	for _, q := range qs {
		qm := new(big.Int).Mod(new(big.Int).SetUint64(q), bs.T)
		qmod = append(qmod, limbs(qm))
		prod := new(big.Int).Mul(acc, qm)
		k, r := new(big.Int).DivMod(prod, bs.T, new(big.Int))
		qwit, qprod = append(qwit, limbs(k)), append(qprod, limbs(r))
		acc = r
		logq = append(logq, new(big.Int).SetUint64(q).BitLen()-1)
	}
	return map[string]interface{}{"T": limbs(bs.T), "QModT": qmod, "QProd": qprod, "QWit": qwit, "LogQ": logq, "L": bs.P.MaxLevel(),
		"LogN": bs.P.LogN(), "LogT": bs.T.BitLen()}
}

type bigStep struct {
	Op   string `json:"op"`
	A    int    `json:"a"`
	B    int    `json:"b"`
	O    int    `json:"o"`
	Lvl  int    `json:"lvl"`
	Kind string `json:"kind"`
}

type bigReg struct {
	ct *rlwe.Ciphertext
	m  []*big.Int // ideal message at the observed slots
}

type bigMachine struct {
	bs   bigSet
	ecd  *bgv.Encoder
	enc  *rlwe.Encryptor
	dec  *rlwe.Decryptor
	eval *bgv.Evaluator
	rng  *rand.Rand
	reg  map[int]*bigReg
	obs  []int // observed slots
}

func newBigMachine(bs bigSet, seed uint64) *bigMachine {
	kg := rlwe.NewKeyGenerator(bs.P)
	sk := kg.GenSecretKeyNew()
	rlk := kg.GenRelinearizationKeyNew(sk)
	n := bs.P.MaxSlots()
	return &bigMachine{bs: bs, ecd: bgv.NewEncoder(bs.P), enc: rlwe.NewEncryptor(bs.P, sk), dec: rlwe.NewDecryptor(bs.P, sk),
		eval: bgv.NewEvaluator(bs.P, rlwe.NewMemEvaluationKeySet(rlk), false), rng: rand.New(rand.NewSource(int64(seed))),
		reg: map[int]*bigReg{}, obs: []int{0, 1, n/2 - 1, n - 1}}
}

func (m *bigMachine) randT() uint64 {
	return m.rng.Uint64() % m.bs.T.Uint64()
}

type bigEvent map[string]interface{}

// view: level, degree, recorded scale and the observed slots decoded with the recorded scale
func (m *bigMachine) view(r *bigReg, e bigEvent) {
	ct := r.ct
	e["lvl"], e["deg"] = ct.Level(), ct.Degree()
	e["s"] = limbs(ct.Scale.BigInt())
	have := make([]uint64, m.bs.P.MaxSlots())
	pt := m.dec.DecryptNew(ct)
	if err := m.ecd.Decode(pt, have); err != nil {
		e["err"], e["msg"] = true, "decode: "+err.Error()
		return
	}
	out := [][]int{}
	for _, i := range m.obs {
		out = append(out, limbsU(have[i]))
	}
	e["m"] = out
}

func (m *bigMachine) divmod(x, y *big.Int) (k []int, r *big.Int) {
	q, rem := new(big.Int).DivMod(new(big.Int).Mul(x, y), m.bs.T, new(big.Int))
	return limbs(q), rem
}

func (m *bigMachine) exec(st bigStep) bigEvent {
	e := bigEvent{"ev": "step", "op": st.Op, "a": st.A, "b": st.B, "o": st.O, "lvlarg": st.Lvl, "kind": st.Kind, "err": false, "panic": false, "msg": "",
		"m": [][]int{}, "s": []int{}, "lvl": -1, "deg": -1, "kv": [][]int{}, "ks": []int{}, "ks2": []int{}, "r": []int{}, "cm": []int{}, "v": [][]int{}, "sv": []int{}, "pr": [][]int{}, "so": []int{}}
	T := m.bs.T
	var out *bigReg
	err, pan, msg := guardedBig(func() error {
		switch st.Op {
		case "Load":
			vals := make([]uint64, m.bs.P.MaxSlots())
			for i := range vals {
				vals[i] = m.randT()
			}
			tm1 := T.Uint64() - 1
			vals[0], vals[1] = tm1, tm1/2+uint64(m.rng.Intn(2))
			s := uint64(1)
			switch st.Kind {
			case "rand":
				s = 1 + m.rng.Uint64()%(tm1)
			case "tm1":
				s = tm1
			}
			pt := bgv.NewPlaintext(m.bs.P, st.Lvl)
			pt.Scale = rlwe.NewScaleModT(s, T.Uint64())
			if err := m.ecd.Encode(vals, pt); err != nil {
				return err
			}
			ct, err := m.enc.EncryptNew(pt)
			if err != nil {
				return err
			}
			out = &bigReg{ct: ct}
			v := [][]int{}
			for _, i := range m.obs {
				out.m = append(out.m, new(big.Int).SetUint64(vals[i]))
				v = append(v, limbsU(vals[i]))
			}
			e["v"], e["sv"] = v, limbsU(s)
		case "Add", "Sub", "Mul", "MulRelin", "MulSI":
			a, b := m.reg[st.A], m.reg[st.B]
			var ct *rlwe.Ciphertext
			var err error
			switch st.Op {
			case "Add":
				ct, err = m.eval.AddNew(a.ct, b.ct)
			case "Sub":
				ct, err = m.eval.SubNew(a.ct, b.ct)
			case "Mul":
				ct, err = m.eval.MulNew(a.ct, b.ct)
			case "MulRelin":
				ct, err = m.eval.MulRelinNew(a.ct, b.ct)
			case "MulSI":
				ct, err = m.eval.MulRelinScaleInvariantNew(a.ct, b.ct)
			}
			if err != nil {
				return err
			}
			out = &bigReg{ct: ct}
			kv := [][]int{}
			for i := range a.m {
				var v *big.Int
				switch st.Op {
				case "Add":
					v = new(big.Int).Add(a.m[i], b.m[i])
					v.Mod(v, T)
				case "Sub":
					v = new(big.Int).Sub(a.m[i], b.m[i])
					v.Mod(v, T)
				default:
					var k []int
					k, v = m.divmod(a.m[i], b.m[i])
					kv = append(kv, k)
				}
				out.m = append(out.m, v)
			}
			e["kv"] = kv
			if st.Op != "Add" && st.Op != "Sub" {
				// scale: s_a * s_b = ks * T + r ; for the scale-invariant product also s_out * (T - Q_l mod T) = ks2 * T + r
				ks, r := m.divmod(a.ct.Scale.BigInt(), b.ct.Scale.BigInt())
				e["ks"], e["r"] = ks, limbs(r)
				if st.Op == "MulSI" {
					lv := ct.Level()
					qp := big.NewInt(1)
					for _, q := range m.bs.P.Q()[:lv+1] {
						qp.Mul(qp, new(big.Int).SetUint64(q))
						qp.Mod(qp, T)
					}
					neg := new(big.Int).Sub(T, qp)
					ks2, _ := m.divmod(ct.Scale.BigInt(), neg)
					e["ks2"] = ks2
				}
			}
		case "MulRelinThenAdd":
			// out <- out + a * b (the receiver is the register o itself)
			a, b, o := m.reg[st.A], m.reg[st.B], m.reg[st.O]
			ct := o.ct.CopyNew()
			e["so"] = limbs(o.ct.Scale.BigInt())
			if err := m.eval.MulRelinThenAdd(a.ct, b.ct, ct); err != nil {
				return err
			}
			out = &bigReg{ct: ct}
			kv, pr := [][]int{}, [][]int{}
			for i := range a.m {
				k, v := m.divmod(a.m[i], b.m[i])
				kv, pr = append(kv, k), append(pr, limbs(v))
				s := new(big.Int).Add(o.m[i], v)
				out.m = append(out.m, s.Mod(s, T))
			}
			e["kv"], e["pr"] = kv, pr
			ks, r := m.divmod(a.ct.Scale.BigInt(), b.ct.Scale.BigInt())
			e["ks"], e["r"] = ks, limbs(r)
		case "MulPt", "AddPt":
			a := m.reg[st.A]
			vals := make([]uint64, m.bs.P.MaxSlots())
			for i := range vals {
				vals[i] = m.randT()
			}
			tm1 := T.Uint64() - 1
			vals[0], vals[1] = tm1, 2
			s := uint64(1)
			if st.Kind == "rand" {
				s = 1 + m.rng.Uint64()%tm1
			}
			if st.Op == "AddPt" && st.Kind == "same" {
				s = a.ct.Scale.Uint64()
			}
			pt := bgv.NewPlaintext(m.bs.P, a.ct.Level())
			pt.Scale = rlwe.NewScaleModT(s, T.Uint64())
			if err := m.ecd.Encode(vals, pt); err != nil {
				return err
			}
			var ct *rlwe.Ciphertext
			var err error
			if st.Op == "MulPt" {
				ct, err = m.eval.MulNew(a.ct, pt)
			} else {
				ct, err = m.eval.AddNew(a.ct, pt)
			}
			if err != nil {
				return err
			}
			out = &bigReg{ct: ct}
			v, kv := [][]int{}, [][]int{}
			for j, i := range m.obs {
				x := new(big.Int).SetUint64(vals[i])
				v = append(v, limbs(x))
				if st.Op == "MulPt" {
					k, r := m.divmod(a.m[j], x)
					kv, out.m = append(kv, k), append(out.m, r)
				} else {
					r := new(big.Int).Add(a.m[j], x)
					out.m = append(out.m, r.Mod(r, T))
				}
			}
			e["v"], e["sv"], e["kv"] = v, limbsU(s), kv
			if st.Op == "MulPt" {
				ks, _ := m.divmod(a.ct.Scale.BigInt(), new(big.Int).SetUint64(s))
				e["ks"] = ks
			}
		case "AddSc":
			a := m.reg[st.A]
			c := new(big.Int)
			switch st.Kind {
			case "neg1":
				c.SetInt64(-1)
			case "half":
				c.Rsh(T, 1)
				c.Add(c, big.NewInt(1))
			case "negword":
				c.SetUint64(m.rng.Uint64())
				c.Neg(c)
			default:
				c.SetUint64(m.rng.Uint64())
				c.Lsh(c, 40)
				c.Add(c, big.NewInt(77))
				c.Neg(c)
			}
			ct, err := m.eval.AddNew(a.ct, c)
			if err != nil {
				return err
			}
			cm := new(big.Int).Mod(c, T)
			e["cm"] = limbs(cm)
			out = &bigReg{ct: ct}
			for i := range a.m {
				r := new(big.Int).Add(a.m[i], cm)
				out.m = append(out.m, r.Mod(r, T))
			}
		case "Relin":
			a := m.reg[st.A]
			ct, err := m.eval.RelinearizeNew(a.ct)
			if err != nil {
				return err
			}
			out = &bigReg{ct: ct, m: a.m}
		case "Rescale":
			a := m.reg[st.A]
			ct := bgv.NewCiphertext(m.bs.P, a.ct.Degree(), a.ct.Level())
			if err := m.eval.Rescale(a.ct, ct); err != nil {
				return err
			}
			out = &bigReg{ct: ct, m: a.m}
			// s_out * (q_l mod T) = ks * T + s_in
			ql := new(big.Int).Mod(new(big.Int).SetUint64(m.bs.P.Q()[a.ct.Level()]), T)
			ks, _ := m.divmod(ct.Scale.BigInt(), ql)
			e["ks"] = ks
		case "MulSc":
			a := m.reg[st.A]
			c := new(big.Int)
			switch st.Kind {
			case "neg1":
				c.SetInt64(-1)
			case "half":
				c.Rsh(T, 1)
				c.Add(c, big.NewInt(1))
			case "negword":
				c.SetUint64(m.rng.Uint64())
				c.Neg(c)
			default: // "big": beyond 64 bits, negative
				c.SetUint64(m.rng.Uint64())
				c.Lsh(c, 40)
				c.Add(c, big.NewInt(77))
				c.Neg(c)
			}
			ct, err := m.eval.MulNew(a.ct, c)
			if err != nil {
				return err
			}
			cm := new(big.Int).Mod(c, T)
			e["cm"] = limbs(cm)
			out = &bigReg{ct: ct}
			kv := [][]int{}
			for i := range a.m {
				k, v := m.divmod(a.m[i], cm)
				kv, out.m = append(kv, k), append(out.m, v)
			}
			e["kv"] = kv
		default:
			return fmt.Errorf("unknown op %s", st.Op)
		}
		return nil
	})
	if err != nil || pan {
		e["err"], e["panic"], e["msg"] = err != nil, pan, msg
		return e
	}
	m.reg[st.O] = out
	m.view(out, e)
	return e
}

func guardedBig(f func() error) (err error, pan bool, msg string) {
	defer func() {
		if r := recover(); r != nil {
			pan, msg = true, fmt.Sprint(r)
		}
	}()
	err = f()
	if err != nil {
		msg = err.Error()
	}
	return
}

// scaleEvents: rlwe.Scale.Mul / Div modulo T called directly.
func (m *bigMachine) scaleEvents(emit func(bigEvent)) {
	T := m.bs.T
	tm1 := T.Uint64() - 1
	pool := []uint64{1, 2, tm1, tm1 / 2, tm1/2 + 1, 1 << 32, (1 << 32) + 1}
	for i := 0; i < 12; i++ {
		pool = append(pool, 1+m.rng.Uint64()%tm1)
	}
	for i := 0; i < 40; i++ {
		x, y := pool[m.rng.Intn(len(pool))]%T.Uint64(), pool[m.rng.Intn(len(pool))]%T.Uint64()
		if x == 0 || y == 0 {
			continue
		}
		sx, sy := rlwe.NewScaleModT(x, T.Uint64()), rlwe.NewScaleModT(y, T.Uint64())
		var mul, div rlwe.Scale
		e := bigEvent{"ev": "scale", "x": limbsU(x), "y": limbsU(y), "mul": []int{}, "div": []int{}, "kmul": []int{}, "kdiv": []int{}, "err": false, "panic": false, "msg": "",
			"xkeep": true}
		_, pan, msg := guardedBig(func() error { mul, div = sx.Mul(sy), sx.Div(sy); return nil })
		if pan {
			e["panic"], e["msg"] = true, msg
		} else {
			e["mul"], e["div"] = limbs(mul.BigInt()), limbs(div.BigInt())
			k, _ := m.divmod(new(big.Int).SetUint64(x), new(big.Int).SetUint64(y))
			e["kmul"] = k
			k2, _ := m.divmod(div.BigInt(), new(big.Int).SetUint64(y)) // div * y = kdiv * T + x
			e["kdiv"] = k2
			e["xkeep"] = sx.Uint64() == x && sy.Uint64() == y
		}
		emit(e)
	}
}

func bigMain(sub string, pset, progs, trace string, seed uint64) int {
	bs := bigPSet(pset)
	if sub == "bigconsts" {
		b, _ := json.Marshal(bs.consts())
		fmt.Println(string(b))
		return 0
	}
	tr.Seed(seed)
	f, err := os.Open(progs)
	tr.Must(err)
	defer f.Close()
	w := tr.NewWriter(trace)
	defer w.Close()
	m := newBigMachine(bs, seed)
	sc := bufio.NewScanner(f)
	sc.Buffer(make([]byte, 1<<20), 1<<26)
	pid := 0
	for sc.Scan() {
		if len(sc.Bytes()) == 0 {
			continue
		}
		var steps []bigStep
		tr.Must(json.Unmarshal(sc.Bytes(), &steps))
		pid++
		m.reg = map[int]*bigReg{}
		// the values of a program depend on the seed and on its two loads only, so that a program replayed alone (or cut
		// after the failing step) sees the same numbers
		h := fnv.New64a()
		b2, _ := json.Marshal(steps[:min(2, len(steps))])
		h.Write(b2)
		m.rng = rand.New(rand.NewSource(int64(seed ^ h.Sum64())))
		w.Emit(bigEvent{"ev": "new", "prog": pid, "fork": 0, "seed": int(seed)})
		for i, st := range steps {
			e := m.exec(st)
			e["prog"], e["fork"], e["idx"], e["seed"] = pid, 0, i+1, int(seed)
			w.Emit(e)
			if e["err"].(bool) || e["panic"].(bool) {
				break
			}
		}
	}
	m.scaleEvents(func(e bigEvent) {
		pid++
		e["prog"], e["fork"], e["idx"] = pid, 0, 1
		w.Emit(e)
	})
	res := tr.Result{Events: w.N, Cases: pid}
	res.Print()
	return 0
}
