package c05

import (
	"bufio"
	"encoding/json"
	"flag"
	"fmt"
	"os"

	"verif/harness/internal/tr"
)

// Main is the entry point of `vrun c05 ...`.
func Main(args []string) int {
	if len(args) < 1 {
		fmt.Fprintln(os.Stderr, "usage: vrun c05 consts|exec ...")
		return 2
	}
	fs := flag.NewFlagSet("c05", flag.ExitOnError)
	pset := fs.String("pset", "A", "parameter set")
	progs := fs.String("progs", "", "file with one JSON program (array of steps) per line")
	trace := fs.String("trace", "", "output ndjson trace")
	seed := fs.Uint64("seed", 1, "seed")
	vw := fs.Int("vw", 4, "model vector width")
	nr := fs.Int("nr", 4, "registers")
	nopoison := fs.Bool("nopoison", false, "do not poison scratch buffers")
	noise := fs.Bool("noise", false, "measure noise (calibration)")
	fs.Parse(args[1:])

	switch args[0] {
	case "bigconsts", "bigexec":
		return bigMain(args[0], *pset, *progs, *trace, *seed)
	case "consts":
		ps := GetPSet(*pset)
		b, _ := json.Marshal(ps.Consts())
		fmt.Println(string(b))
		return 0
	case "exec":
		tr.Seed(*seed)
		ps := GetPSet(*pset)
		m := NewMachine(ps, *vw, *nr)
		m.Poison = !*nopoison
		m.Noise = *noise
		f, err := os.Open(*progs)
		tr.Must(err)
		defer f.Close()
		w := tr.NewWriter(*trace)
		defer w.Close()
		sc := bufio.NewScanner(f)
		sc.Buffer(make([]byte, 1<<20), 1<<26)
		res := tr.Result{}
		pid := 0
		for sc.Scan() {
			line := sc.Bytes()
			if len(line) == 0 {
				continue
			}
			steps, err := ParseProgram(line)
			if err != nil {
				fmt.Fprintf(os.Stderr, "bad program %d: %v\n", pid, err)
				return 2
			}
			pid++
			fork := 0
			for i, st := range steps {
				ev := m.Exec(st)
				ev.Prog = pid
				ev.Fork = fork
				ev.Idx = i + 1
				w.Emit(ev)
				if st.Op == "Save" || st.Op == "Restore" {
					fork++
				}
			}
			res.Cases++
		}
		res.Events = w.N
		res.Print()
		return 0
	}
	return 2
}
