// Package c05 drives the real bgv.Evaluator with programs generated from the IntEval
// specification and logs, after every call, the projection of the concrete state onto the
// abstract state of the specification (decoded raw values, scale, level, degree).
package c05

import (
	"encoding/json"
	"fmt"
	"math/big"
	"reflect"
	"unsafe"

	"github.com/tuneinsight/lattigo/v6/core/rlwe"
	"github.com/tuneinsight/lattigo/v6/ring"
	"github.com/tuneinsight/lattigo/v6/ring/ringqp"
	"github.com/tuneinsight/lattigo/v6/schemes/bgv"
)

// BOp is the second operand of a step.
type BOp struct {
	K     string  `json:"k"`
	R     int     `json:"r,omitempty"`
	V     []int64 `json:"v,omitempty"`
	S     uint64  `json:"s,omitempty"`
	Lvl   int     `json:"lvl"`
	Cls   int     `json:"cls"`
	D     int64   `json:"d"`
	Ty    string  `json:"ty,omitempty"`
	Short bool    `json:"short"`
}

// Step is one action of the specification.
type Step struct {
	Op   string  `json:"op"`
	Sop  string  `json:"sop,omitempty"` // original op of a skipped step
	A    int     `json:"a,omitempty"`
	B    *BOp    `json:"b,omitempty"`
	O    int     `json:"o,omitempty"`
	New  bool    `json:"new"`
	K    int     `json:"k"`
	V    []int64 `json:"v,omitempty"`
	S    uint64  `json:"s,omitempty"`
	Lvl  int     `json:"lvl"`
	Mode string  `json:"mode,omitempty"`
	Rlk  string  `json:"rlk,omitempty"`
}

// RegView is the projection of a register.
type RegView struct {
	Ok    bool     `json:"ok"`
	Raw   []uint64 `json:"raw"`
	S     uint64   `json:"s"`
	Lvl   int      `json:"lvl"`
	Deg   int      `json:"deg"`
	Cons  bool     `json:"cons"`  // all real slots of one model class agree
	NBits int      `json:"nbits"` // measured log2 of the noise (T*e), calibration of the model's bound
}

// Event is a step together with what the real code did.
type Event struct {
	Step
	Prog     int      `json:"prog"`
	Fork     int      `json:"fork"`
	Idx      int      `json:"idx"`
	Err      bool     `json:"err"`
	Panic    bool     `json:"panic"`
	Msg      string   `json:"msg,omitempty"`
	Res      *RegView `json:"res,omitempty"`
	ResA     *RegView `json:"resa,omitempty"`
	Frame    bool     `json:"frame"` // every object other than the designated output is bit-for-bit unchanged
	FrameMsg string   `json:"framemsg,omitempty"`
}

// PSet is a concrete parameter set.
type PSet struct {
	Name   string
	Lit    bgv.ParametersLiteral
	Params bgv.Parameters
}

func GetPSet(name string) PSet {
	var lit bgv.ParametersLiteral
	switch name {
	case "A": // plaintext ring (16 slots) much smaller than the ciphertext ring
		lit = bgv.ParametersLiteral{LogN: 10, LogQ: []int{56, 46, 46, 46}, LogP: []int{56}, PlaintextModulus: 97}
	case "B": // plaintext ring = ciphertext ring
		lit = bgv.ParametersLiteral{LogN: 10, LogQ: []int{58, 47, 47, 47}, LogP: []int{58}, PlaintextModulus: 12289}
	case "C": // two auxiliary primes, unequal Q sizes
		lit = bgv.ParametersLiteral{LogN: 11, LogQ: []int{55, 40, 50, 45}, LogP: []int{50, 50}, PlaintextModulus: 257}
	default:
		panic("unknown pset " + name)
	}
	p, err := bgv.NewParametersFromLiteral(lit)
	if err != nil {
		panic(err)
	}
	return PSet{Name: name, Lit: lit, Params: p}
}

// Consts are the constants of the specification derived from the concrete parameters
// (computed with math/big only).
type Consts struct {
	T      uint64   `json:"T"`
	L      int      `json:"L"`
	QModT  []uint64 `json:"QModT"`
	LogQ   []int    `json:"LogQ"`
	LogN   int      `json:"LogN"`
	LogT   int      `json:"LogT"`
	ClsRes []uint64 `json:"ClsRes"`
	Slots  int      `json:"Slots"`
}

var clsBase = []*big.Int{
	big.NewInt(0),
	new(big.Int).Lsh(big.NewInt(1), 63),
	new(big.Int).Sub(new(big.Int).Lsh(big.NewInt(1), 64), big.NewInt(1)),
	new(big.Int).Neg(new(big.Int).Lsh(big.NewInt(1), 63)),
	new(big.Int).Sub(new(big.Int).Lsh(big.NewInt(1), 63), big.NewInt(1)),
}

func (ps PSet) Consts() Consts {
	p := ps.Params
	t := new(big.Int).SetUint64(p.PlaintextModulus())
	c := Consts{T: p.PlaintextModulus(), L: p.MaxLevel(), LogN: p.LogN(), Slots: p.MaxSlots()}
	for _, q := range p.Q() {
		qb := new(big.Int).SetUint64(q)
		c.QModT = append(c.QModT, new(big.Int).Mod(qb, t).Uint64())
		c.LogQ = append(c.LogQ, qb.BitLen()-1)
	}
	c.LogT = t.BitLen()
	for _, b := range clsBase {
		c.ClsRes = append(c.ClsRes, new(big.Int).Mod(b, t).Uint64())
	}
	return c
}

// Machine holds the concrete objects behind the abstract register file.
type Machine struct {
	PS      PSet
	params  bgv.Parameters
	T       uint64
	VW, W   int
	NR      int
	n       int // slots
	kgen    *rlwe.KeyGenerator
	sk      *rlwe.SecretKey
	rlk     *rlwe.RelinearizationKey
	ecd     *bgv.Encoder
	enc     *rlwe.Encryptor
	dec     *rlwe.Decryptor
	eval    *bgv.Evaluator
	regs    []*rlwe.Ciphertext
	ok      []bool
	Poison  bool
	Noise   bool
	saved   []*rlwe.Ciphertext
	savedOk []bool
}

func NewMachine(ps PSet, vw, nr int) *Machine {
	m := &Machine{PS: ps, params: ps.Params, T: ps.Params.PlaintextModulus(), VW: vw, W: vw / 2, NR: nr, n: ps.Params.MaxSlots(), Poison: true}
	m.kgen = rlwe.NewKeyGenerator(m.params)
	m.sk = m.kgen.GenSecretKeyNew()
	m.rlk = m.kgen.GenRelinearizationKeyNew(m.sk)
	m.ecd = bgv.NewEncoder(m.params)
	m.enc = rlwe.NewEncryptor(m.params, m.sk)
	m.dec = rlwe.NewDecryptor(m.params, m.sk)
	m.reset("bgv", "full")
	return m
}

func (m *Machine) reset(mode, rlk string) {
	var evk rlwe.EvaluationKeySet
	switch rlk {
	case "full":
		evk = rlwe.NewMemEvaluationKeySet(m.rlk)
	case "empty":
		evk = rlwe.NewMemEvaluationKeySet(nil)
	default:
		evk = nil
	}
	m.eval = bgv.NewEvaluator(m.params, evk, mode == "bfv")
	m.regs = make([]*rlwe.Ciphertext, m.NR+1)
	m.ok = make([]bool, m.NR+1)
	for i := 1; i <= m.NR; i++ {
		m.regs[i] = bgv.NewCiphertext(m.params, 1, m.params.MaxLevel())
	}
}

func (m *Machine) modT(x int64) uint64 {
	t := int64(m.T)
	r := x % t
	if r < 0 {
		r += t
	}
	return uint64(r)
}

// expandU maps a model vector to the real slot vector (see IntEval: entries 1..W are the
// first W slots, entries W+1..2W repeat over all the others).
func (m *Machine) expandU(v []int64) []uint64 {
	out := make([]uint64, m.n)
	for i := range out {
		out[i] = m.modT(m.modelAt(v, i))
	}
	return out
}

func (m *Machine) modelAt(v []int64, i int) int64 {
	if i < m.W {
		return v[i]
	}
	return v[m.W+(i%m.W)]
}

func (m *Machine) expandI(v []int64) []int64 {
	out := make([]int64, m.n)
	for i := range out {
		out[i] = m.modelAt(v, i)
	}
	return out
}

// view projects a ciphertext: decrypt, decode with scale 1.
func (m *Machine) view(ct *rlwe.Ciphertext, ok bool) *RegView {
	rv := &RegView{Ok: ok, Raw: make([]uint64, m.VW), S: 1, Lvl: 0, Deg: 1, Cons: true}
	if !ok || ct == nil {
		return rv
	}
	rv.S = ct.Scale.Uint64()
	rv.Lvl = ct.Level()
	rv.Deg = ct.Degree()
	pt := m.dec.DecryptNew(ct)
	pt.Scale = m.params.NewScale(1)
	vals := make([]uint64, m.n)
	if err := m.ecd.Decode(pt, vals); err != nil {
		rv.Cons = false
		return rv
	}
	for i := 0; i < m.VW; i++ {
		rv.Raw[i] = vals[i]
	}
	for i := m.W; i < m.n; i++ {
		if vals[i] != rv.Raw[m.W+(i%m.W)] {
			rv.Cons = false
		}
	}
	if m.Noise {
		rv.NBits = m.noiseBits(pt, vals)
	}
	return rv
}

// noiseBits measures log2 |T*e| where pt = T^-1 (raw + T*e): the decoded values are re-encoded
// and subtracted.  Used only to calibrate the noise recurrence of the specification.
func (m *Machine) noiseBits(pt *rlwe.Plaintext, vals []uint64) int {
	lvl := pt.Level()
	pt2 := bgv.NewPlaintext(m.params, lvl)
	pt2.Scale = m.params.NewScale(1)
	if err := m.ecd.Encode(vals, pt2); err != nil {
		return -1
	}
	rq := m.params.RingQ().AtLevel(lvl)
	d := rq.NewPoly()
	rq.Sub(pt.Value, pt2.Value, d)
	rq.INTT(d, d)
	rq.MulScalar(d, m.T, d)
	coeffs := make([]*big.Int, rq.N())
	for i := range coeffs {
		coeffs[i] = new(big.Int)
	}
	rq.PolyToBigintCentered(d, 1, coeffs)
	max := 0
	for _, c := range coeffs {
		if b := c.BitLen(); b > max {
			max = b
		}
	}
	return max
}

func snapshotCt(ct *rlwe.Ciphertext) []byte {
	if ct == nil {
		return nil
	}
	b, err := ct.MarshalBinary()
	if err != nil {
		return []byte("ERR:" + err.Error())
	}
	return b
}

// scalar builds the concrete Go value of a scalar operand.
func scalarValue(b *BOp) (interface{}, *big.Int, error) {
	v := new(big.Int).Add(clsBase[b.Cls], big.NewInt(b.D))
	switch b.Ty {
	case "bigint":
		return new(big.Int).Set(v), v, nil
	case "u64":
		if !v.IsUint64() {
			return nil, nil, fmt.Errorf("not a uint64: %s", v)
		}
		return v.Uint64(), v, nil
	case "i64":
		if !v.IsInt64() {
			return nil, nil, fmt.Errorf("not an int64: %s", v)
		}
		return v.Int64(), v, nil
	case "int":
		if !v.IsInt64() {
			return nil, nil, fmt.Errorf("not an int: %s", v)
		}
		return int(v.Int64()), v, nil
	}
	return nil, nil, fmt.Errorf("unknown scalar type %q", b.Ty)
}

type operand struct {
	val   interface{}
	check func() string // returns "" if the operand is unchanged
}

func (m *Machine) buildOperand(b *BOp) (op operand, err error) {
	switch b.K {
	case "ct":
		return operand{val: m.regs[b.R], check: func() string { return "" }}, nil
	case "pt":
		pt := bgv.NewPlaintext(m.params, b.Lvl)
		pt.Scale = m.params.NewScale(b.S)
		if err = m.ecd.Encode(m.expandU(b.V), pt); err != nil {
			return
		}
		before, _ := pt.MarshalBinary()
		return operand{val: pt, check: func() string {
			after, _ := pt.MarshalBinary()
			if string(before) != string(after) {
				return "plaintext operand modified"
			}
			return ""
		}}, nil
	case "sc":
		var val interface{}
		var orig *big.Int
		if val, orig, err = scalarValue(b); err != nil {
			return
		}
		return operand{val: val, check: func() string {
			if bi, ok := val.(*big.Int); ok && bi.Cmp(orig) != 0 {
				return fmt.Sprintf("*big.Int operand modified: %s -> %s", orig, bi)
			}
			return ""
		}}, nil
	case "vec":
		n := m.n
		if b.Short {
			n = m.W
		}
		if b.Ty == "u64" {
			full := m.expandU(b.V)[:n]
			cp := append([]uint64{}, full...)
			return operand{val: full, check: func() string {
				if !reflect.DeepEqual(cp, full) {
					return "[]uint64 operand modified"
				}
				return ""
			}}, nil
		}
		full := m.expandI(b.V)[:n]
		cp := append([]int64{}, full...)
		return operand{val: full, check: func() string {
			if !reflect.DeepEqual(cp, full) {
				return "[]int64 operand modified"
			}
			return ""
		}}, nil
	}
	return op, fmt.Errorf("unknown operand kind %q", b.K)
}

func poisonPoly(p ring.Poly) {
	for i := range p.Coeffs {
		for j := range p.Coeffs[i] {
			p.Coeffs[i][j] = 0x0123456789abcdef ^ uint64(j*2654435761)
		}
	}
}

func poisonQP(p ringqp.Poly) {
	poisonPoly(p.Q)
	poisonPoly(p.P)
}

// poison fills every scratch buffer of the evaluator with garbage, so that a result that
// depends on what the evaluator was used for before shows up as a wrong value.
func (m *Machine) poison() {
	ev := m.eval
	for _, p := range ev.BuffQ() {
		poisonPoly(p)
	}
	b := ev.Evaluator.EvaluatorBuffers
	if b != nil {
		for i := range b.BuffQP {
			poisonQP(b.BuffQP[i])
		}
		for i := range b.BuffDecompQP {
			poisonQP(b.BuffDecompQP[i])
		}
		poisonPoly(b.BuffInvNTT)
		if b.BuffCt != nil {
			for i := range b.BuffCt.Value {
				poisonPoly(b.BuffCt.Value[i])
			}
		}
		for i := range b.BuffBitDecomp {
			b.BuffBitDecomp[i] = 0xdeadbeefdeadbeef
		}
	}
	// unexported bgv buffer buffQMul
	rv := reflect.ValueOf(ev).Elem().FieldByName("evaluatorBuffers")
	if rv.IsValid() && !rv.IsNil() {
		f := rv.Elem().FieldByName("buffQMul")
		if f.IsValid() {
			f = reflect.NewAt(f.Type(), unsafe.Pointer(f.UnsafeAddr())).Elem()
			if polys, ok := f.Interface().([9]ring.Poly); ok {
				for _, p := range polys {
					poisonPoly(p)
				}
			}
		}
	}
}

// Exec performs one step on the real library.
func (m *Machine) Exec(st Step) (ev Event) {
	ev.Step = st
	ev.Frame = true

	if st.Op == "Reset" {
		m.reset(st.Mode, st.Rlk)
		return
	}

	if st.Op == "Save" || st.Op == "Restore" {
		// checkpoint of the register file: many single steps are tried from one reached state
		src, srcOk := m.regs, m.ok
		if st.Op == "Restore" {
			src, srcOk = m.saved, m.savedOk
		}
		dst := make([]*rlwe.Ciphertext, len(src))
		for i := range src {
			if src[i] != nil {
				dst[i] = src[i].CopyNew()
			}
		}
		dstOk := append([]bool{}, srcOk...)
		if st.Op == "Save" {
			m.saved, m.savedOk = dst, dstOk
		} else {
			m.regs, m.ok = dst, dstOk
		}
		return
	}

	if st.Op == "Load" {
		pt := bgv.NewPlaintext(m.params, st.Lvl)
		pt.Scale = m.params.NewScale(st.S)
		if err := m.ecd.Encode(m.expandU(st.V), pt); err != nil {
			panic(err)
		}
		ct, err := m.enc.EncryptNew(pt)
		if err != nil {
			panic(err)
		}
		m.regs[st.O] = ct
		m.ok[st.O] = true
		ev.Res = m.view(ct, true)
		return
	}

	// a step whose operands hold no value is skipped (a failed call releases its output register)
	callable := m.ok[st.A]
	switch st.Op {
	case "DropLevel":
		callable = callable && st.K <= m.regs[st.A].Level()
	case "Match":
		callable = callable && m.ok[st.O] && st.A != st.O
	default:
		if st.B != nil && st.B.K == "ct" {
			callable = callable && m.ok[st.B.R]
		}
		if !st.New {
			callable = callable && m.ok[st.O]
		}
	}
	if !callable {
		ev.Sop = st.Op
		ev.Op = "Skip"
		if ev.B == nil {
			ev.B = &BOp{K: "none"}
		}
		return
	}

	// snapshots for the frame condition
	snaps := make([][]byte, m.NR+1)
	for i := 1; i <= m.NR; i++ {
		snaps[i] = snapshotCt(m.regs[i])
	}
	written := map[int]bool{}

	var opd operand
	var err error
	if st.B == nil {
		st.B = &BOp{K: "none"}
		ev.Step.B = st.B
	}
	if st.B.K == "none" {
		st.B = nil
	}
	if st.B != nil {
		if opd, err = m.buildOperand(st.B); err != nil {
			panic(fmt.Sprintf("cannot build operand: %v", err))
		}
	}

	if m.Poison {
		m.poison()
	}

	a := m.regs[st.A]
	var out *rlwe.Ciphertext
	if !st.New && st.O >= 1 {
		out = m.regs[st.O]
	}

	func() {
		defer func() {
			if r := recover(); r != nil {
				ev.Panic = true
				ev.Msg = fmt.Sprint(r)
			}
		}()
		var e error
		e = m.call(st, a, opd.val, &out)
		if e != nil {
			ev.Err = true
			ev.Msg = e.Error()
		}
	}()

	switch st.Op {
	case "DropLevel":
		written[st.A] = true
		ev.Res = m.view(m.regs[st.A], true)
	case "Match":
		written[st.A], written[st.O] = true, true
		ev.ResA = m.view(m.regs[st.A], true)
		ev.Res = m.view(m.regs[st.O], true)
	default:
		written[st.O] = true
		if ev.Err || ev.Panic {
			m.ok[st.O] = false
			// the output object may be in an unspecified state: replace it
			m.regs[st.O] = bgv.NewCiphertext(m.params, 1, m.params.MaxLevel())
			ev.Res = m.view(nil, false)
		} else {
			m.regs[st.O] = out
			m.ok[st.O] = true
			ev.Res = m.view(out, true)
		}
	}

	for i := 1; i <= m.NR; i++ {
		if written[i] {
			continue
		}
		if string(snaps[i]) != string(snapshotCt(m.regs[i])) {
			ev.Frame = false
			ev.FrameMsg += fmt.Sprintf("register %d modified; ", i)
		}
	}
	if opd.check != nil {
		if s := opd.check(); s != "" {
			ev.Frame = false
			ev.FrameMsg += s
		}
	}
	return
}

func (m *Machine) call(st Step, a *rlwe.Ciphertext, b interface{}, out **rlwe.Ciphertext) (err error) {
	ev := m.eval
	o := *out
	switch st.Op {
	case "Add":
		if st.New {
			*out, err = ev.AddNew(a, b)
			return
		}
		return ev.Add(a, b, o)
	case "Sub":
		if st.New {
			*out, err = ev.SubNew(a, b)
			return
		}
		return ev.Sub(a, b, o)
	case "Mul":
		if st.New {
			*out, err = ev.MulNew(a, b)
			return
		}
		return ev.Mul(a, b, o)
	case "MulRelin":
		if st.New {
			*out, err = ev.MulRelinNew(a, b)
			return
		}
		return ev.MulRelin(a, b, o)
	case "MulScaleInvariant":
		if st.New {
			*out, err = ev.MulScaleInvariantNew(a, b)
			return
		}
		return ev.MulScaleInvariant(a, b, o)
	case "MulRelinScaleInvariant":
		if st.New {
			*out, err = ev.MulRelinScaleInvariantNew(a, b)
			return
		}
		return ev.MulRelinScaleInvariant(a, b, o)
	case "MulThenAdd":
		return ev.MulThenAdd(a, b, o)
	case "MulRelinThenAdd":
		return ev.MulRelinThenAdd(a, b, o)
	case "Rescale":
		return ev.Rescale(a, o)
	case "Relinearize":
		if st.New {
			*out, err = ev.RelinearizeNew(a)
			return
		}
		return ev.Relinearize(a, o)
	case "DropLevel":
		ev.DropLevel(a, st.K)
		return nil
	case "Match":
		ev.MatchScalesAndLevel(a, o)
		return nil
	}
	return fmt.Errorf("unknown op %q", st.Op)
}

// ParseProgram decodes a JSON array of steps.
func ParseProgram(line []byte) (steps []Step, err error) {
	err = json.Unmarshal(line, &steps)
	return
}
