// Package c18 instantiates reduced-size bootstrapping parameter variants (as the repository's fast tests do),
// records the announced depths, the generated key inventory (with the levels of the encapsulation keys), the
// level after every stage of the circuit, the Galois keys actually requested (recording key set), and the
// level / scale / precision of the outputs of Bootstrap, BootstrapMany and EvaluateConjugateInvariant, for
// validation against spec/BootstrapTrace.tla.
package c18

import (
	"flag"
	"fmt"
	"math"
	"sort"

	"github.com/tuneinsight/lattigo/v6/circuits/ckks/bootstrapping"
	"github.com/tuneinsight/lattigo/v6/circuits/ckks/dft"
	"github.com/tuneinsight/lattigo/v6/circuits/ckks/mod1"
	"github.com/tuneinsight/lattigo/v6/circuits/ckks/polynomial"
	"github.com/tuneinsight/lattigo/v6/core/rlwe"
	"github.com/tuneinsight/lattigo/v6/ring"
	"github.com/tuneinsight/lattigo/v6/schemes/ckks"

	"verif/harness/internal/tr"
)

type event struct {
	Ev        string   `json:"ev"`
	Prog      int      `json:"prog"`
	Fork      int      `json:"fork"`
	Variant   string   `json:"variant,omitempty"`
	Err       bool     `json:"err"`
	Panic     bool     `json:"panic"`
	Msg       string   `json:"msg,omitempty"`
	ResMax    int      `json:"resmax"`
	BtpMax    int      `json:"btpmax"`
	DC2S      int      `json:"dc2s"`
	DEM       int      `json:"dem"`
	DS2C      int      `json:"ds2c"`
	Reserved  int      `json:"reserved"`
	Depth     int      `json:"depth"`
	OutLevel  int      `json:"outlevel"`
	MinInput  int      `json:"mininput"`
	Ephemeral int      `json:"ephemeral"`
	N1        int      `json:"n1"`
	N2        int      `json:"n2"`
	CI        bool     `json:"ci"`
	Name      string   `json:"name,omitempty"`
	Lvl       int      `json:"lvl"`
	HasRlk    bool     `json:"hasrlk"`
	ProvGal   []uint64 `json:"provgal"`
	AdvGal    []uint64 `json:"advgal"`
	ReqGal    []uint64 `json:"reqgal"`
	FullRun   bool     `json:"fullrun"`
	HasD2S    bool     `json:"hasd2s"`
	HasS2D    bool     `json:"hass2d"`
	D2SLQ     int      `json:"d2slq"`
	D2SLP     int      `json:"d2slp"`
	S2DLQ     int      `json:"s2dlq"`
	S2DLP     int      `json:"s2dlp"`
	HasN1N2   bool     `json:"hasn1n2"`
	HasN2N1   bool     `json:"hasn2n1"`
	HasR2C    bool     `json:"hasr2c"`
	HasC2R    bool     `json:"hasc2r"`
	API       string   `json:"api,omitempty"`
	Copy      bool     `json:"copy"`
	InLvl     int      `json:"inlvl"`
	Batch     int      `json:"batch"`
	LogSlots  int      `json:"logslots"`
	OutLvl    int      `json:"outlvl"`
	ScaleOK   bool     `json:"scaleok"`
	PrecBits  int      `json:"precbits"`
	LogScale  int      `json:"logscale"`
	LogN      int      `json:"logn"`
	Announced int      `json:"announced"`
}

type recEvk struct {
	inner rlwe.EvaluationKeySet
	req   map[uint64]bool
}

func (r *recEvk) GetGaloisKey(g uint64) (*rlwe.GaloisKey, error) {
	r.req[g] = true
	return r.inner.GetGaloisKey(g)
}
func (r *recEvk) GetGaloisKeysList() []uint64 { return r.inner.GetGaloisKeysList() }
func (r *recEvk) GetRelinearizationKey() (*rlwe.RelinearizationKey, error) {
	return r.inner.GetRelinearizationKey()
}
func (r *recEvk) ShallowCopy() rlwe.EvaluationKeySet { return &recEvk{r.inner.ShallowCopy(), r.req} }

type variant struct {
	name     string
	res      ckks.ParametersLiteral
	btp      bootstrapping.ParametersLiteral
	inLevels []int
	batches  []int
	slotOffs []int
	stages   bool
	quick    bool
	announce int // bits of precision the variant announces beyond the generic floor (iterated mode)
}

func ip(x int) *int { return &x }

func variants() []variant {
	base := ckks.ParametersLiteral{LogN: 10, LogQ: []int{60, 40}, LogP: []int{61}, LogDefaultScale: 40}
	deep := ckks.ParametersLiteral{LogN: 10, LogQ: []int{60, 40, 40}, LogP: []int{61}, LogDefaultScale: 40}
	n9 := base
	n9.LogN, n9.LogNthRoot = 9, 11
	n7 := base
	n7.LogN, n7.LogNthRoot = 7, 11
	ci := base
	ci.RingType, ci.LogN, ci.LogNthRoot = ring.ConjugateInvariant, 9, 11
	h192 := base
	h192.Xs = ring.Ternary{H: 32} // without encapsulation the modular reduction's range K = 16 must cover the secret itself
	mr := func(logN int) *int { return ip(bootstrapping.DefaultLogMessageRatio + 16 - logN) }
	return []variant{
		{name: "default", res: deep, btp: bootstrapping.ParametersLiteral{LogN: ip(10), LogMessageRatio: mr(10)}, inLevels: []int{0, 1, 2}, batches: []int{1}, stages: true, quick: true},
		{name: "ringswitch", res: n9, btp: bootstrapping.ParametersLiteral{LogN: ip(10), LogMessageRatio: mr(9)}, inLevels: []int{0, 1}, batches: []int{1, 2}, slotOffs: []int{0, 1}, quick: true},
		// a circuit built for fewer slots than the (smaller) residual ring holds: both packing stages are needed
		{name: "ringswitch-fewslots", res: n9, btp: bootstrapping.ParametersLiteral{LogN: ip(10), LogSlots: ip(7), LogMessageRatio: mr(9)}, inLevels: []int{0}, batches: []int{1, 2}, slotOffs: []int{1, 2}, quick: true},
		{name: "ci", res: ci, btp: bootstrapping.ParametersLiteral{LogN: ip(10), LogMessageRatio: mr(9)}, inLevels: []int{0}, batches: []int{1}, quick: true},
		{name: "packed", res: base, btp: bootstrapping.ParametersLiteral{LogN: ip(10), LogSlots: ip(8), LogMessageRatio: mr(10)}, inLevels: []int{0}, batches: []int{1, 3, 4}, slotOffs: []int{1, 2, 3}},
		{name: "packed-ringswitch", res: n7, btp: bootstrapping.ParametersLiteral{LogN: ip(10), LogSlots: ip(8), LogMessageRatio: mr(7)}, inLevels: []int{0}, batches: []int{2, 4}, slotOffs: []int{0, 1}},
		{name: "noencaps", res: h192, btp: bootstrapping.ParametersLiteral{LogN: ip(10), LogMessageRatio: mr(10), EphemeralSecretWeight: ip(0)}, inLevels: []int{0, 1}, batches: []int{1}, stages: true},
		{name: "iter2", res: base, btp: bootstrapping.ParametersLiteral{LogN: ip(10), LogMessageRatio: mr(10), IterationsParameters: &bootstrapping.IterationsParameters{BootstrappingPrecision: []float64{16}, ReservedPrimeBitSize: 28}}, inLevels: []int{0}, batches: []int{1}},
		{name: "iter-highprec", res: ckks.ParametersLiteral{LogN: 10, LogQ: []int{60, 40, 40, 40}, LogP: []int{61, 61}, LogDefaultScale: 80, Xs: ring.Ternary{H: 192}},
			btp: bootstrapping.ParametersLiteral{LogN: ip(10), LogMessageRatio: mr(10), IterationsParameters: &bootstrapping.IterationsParameters{BootstrappingPrecision: []float64{25, 25}, ReservedPrimeBitSize: 28}},
			inLevels: []int{1}, batches: []int{1}, announce: 45},
		// high precision through the ring-degree switch: the input lives on the primes above Q[0] as well
		{name: "iter-highprec-ringswitch", res: ckks.ParametersLiteral{LogN: 9, LogNthRoot: 11, LogQ: []int{60, 40, 40, 40}, LogP: []int{61, 61}, LogDefaultScale: 80, Xs: ring.Ternary{H: 192}},
			btp: bootstrapping.ParametersLiteral{LogN: ip(10), LogMessageRatio: mr(9), IterationsParameters: &bootstrapping.IterationsParameters{BootstrappingPrecision: []float64{25, 25}, ReservedPrimeBitSize: 28}},
			inLevels: []int{1}, batches: []int{1}, announce: 45, quick: true},
		{name: "cos-continuous", res: base, btp: bootstrapping.ParametersLiteral{LogN: ip(10), LogMessageRatio: mr(10), Mod1Type: mod1.CosContinuous, DoubleAngle: ip(3), Mod1Degree: ip(63)}, inLevels: []int{0}, batches: []int{1}, stages: true},
		{name: "sin-arcsine", res: base, btp: bootstrapping.ParametersLiteral{LogN: ip(10), LogMessageRatio: mr(10), Mod1Type: mod1.SinContinuous, DoubleAngle: ip(0), Mod1Degree: ip(127), Mod1InvDegree: ip(7), K: ip(14)}, inLevels: []int{0}, batches: []int{1}, stages: true},
		// a level shared by two matrices followed by another level (Levels [2, 1]) on both transforms
		{name: "dft-grouped", res: base, btp: bootstrapping.ParametersLiteral{LogN: ip(10), LogMessageRatio: mr(10),
			SlotsToCoeffsFactorizationDepthAndLogScales: [][]int{{30, 30}, {60}}}, inLevels: []int{0}, batches: []int{1}, stages: true, quick: true},
		{name: "dft-split", res: base, btp: bootstrapping.ParametersLiteral{LogN: ip(10), LogMessageRatio: mr(10),
			CoeffsToSlotsFactorizationDepthAndLogScales: [][]int{{56}, {56}}, SlotsToCoeffsFactorizationDepthAndLogScales: [][]int{{39}, {39}, {39}, {39}}}, inLevels: []int{0}, batches: []int{1}, stages: true},
	}
}

// reducedDefaults: every exported default set with the ring degree reduced to 2^10 (message ratio corrected).
func reducedDefaults() (out []variant) {
	add := func(name string, sp ckks.ParametersLiteral, bpl bootstrapping.ParametersLiteral) {
		sp.LogN = 10
		bpl.LogN = ip(10)
		// message ratio corrected for the ring degree as far as Q0 / scale leaves room
		mrr := bootstrapping.DefaultLogMessageRatio + 16 - 10
		if room := sp.LogQ[0] - sp.LogDefaultScale; mrr > room {
			mrr = room
		}
		bpl.LogMessageRatio = ip(mrr)
		out = append(out, variant{name: "reduced-" + name, res: sp, btp: bpl, inLevels: []int{0, 2}, batches: []int{1}, stages: true})
	}
	for i, d := range bootstrapping.DefaultParametersSparse {
		add(fmt.Sprintf("sparse%d", i), d.SchemeParams, d.BootstrappingParams)
	}
	for i, d := range bootstrapping.DefaultParametersDense {
		add(fmt.Sprintf("dense%d", i), d.SchemeParams, d.BootstrappingParams)
	}
	return
}

func guarded(f func() error) (err error, pan bool, msg string) {
	defer func() {
		if r := recover(); r != nil {
			pan, msg = true, fmt.Sprint(r)
			if len(msg) > 300 {
				msg = msg[:300]
			}
		}
	}()
	err = f()
	if err != nil {
		msg = err.Error()
	}
	return
}

func sortedKeys(m map[uint64]bool) []uint64 {
	out := []uint64{}
	for k := range m {
		out = append(out, k)
	}
	sort.Slice(out, func(i, j int) bool { return out[i] < out[j] })
	return out
}

func dedup(xs []uint64) []uint64 {
	m := map[uint64]bool{}
	for _, x := range xs {
		m[x] = true
	}
	return sortedKeys(m)
}

// precision in bits: -log2 of the largest slot error
func precBits(want, have []complex128) int {
	worst := 0.0
	for i := range want {
		d := math.Max(math.Abs(real(want[i])-real(have[i])), math.Abs(imag(want[i])-imag(have[i])))
		if math.IsNaN(d) {
			return -100
		}
		if d > worst {
			worst = d
		}
	}
	if worst == 0 {
		return 60
	}
	return int(math.Floor(-math.Log2(worst)))
}

func runVariant(w *tr.Writer, prog *int, v variant) {
	*prog++
	fork := 0
	emit := func(e event) {
		e.Prog, e.Fork, e.Variant = *prog, fork, v.name
		fork++
		if e.ProvGal == nil {
			e.ProvGal = []uint64{}
		}
		if e.AdvGal == nil {
			e.AdvGal = []uint64{}
		}
		if e.ReqGal == nil {
			e.ReqGal = []uint64{}
		}
		w.Emit(e)
	}
	var params ckks.Parameters
	var btpParams bootstrapping.Parameters
	pe := event{Ev: "params"}
	err, pan, msg := guarded(func() (err error) {
		if params, err = ckks.NewParametersFromLiteral(v.res); err != nil {
			return
		}
		btpParams, err = bootstrapping.NewParametersFromLiteral(params, v.btp)
		return
	})
	pe.Err, pe.Panic, pe.Msg = err != nil, pan, msg
	if err != nil || pan {
		emit(pe)
		return
	}
	bp := btpParams.BootstrappingParameters
	pe.ResMax, pe.BtpMax = params.MaxLevel(), bp.MaxLevel()
	pe.DC2S, pe.DEM, pe.DS2C = btpParams.DepthCoeffsToSlots(), btpParams.DepthEvalMod(), btpParams.DepthSlotsToCoeffs()
	if v.btp.IterationsParameters != nil && v.btp.IterationsParameters.ReservedPrimeBitSize > 0 {
		pe.Reserved = 1
	}
	pe.Ephemeral = btpParams.EphemeralSecretWeight
	pe.N1, pe.N2, pe.CI = params.N(), bp.N(), params.RingType() == ring.ConjugateInvariant
	pe.LogN, pe.LogScale = params.LogN(), params.LogDefaultScale()

	sk := rlwe.NewKeyGenerator(params).GenSecretKeyNew()
	var keys *bootstrapping.EvaluationKeys
	var eval *bootstrapping.Evaluator
	rec := &recEvk{req: map[uint64]bool{}}
	err, pan, msg = guarded(func() (err error) {
		if keys, _, err = btpParams.GenEvaluationKeys(sk); err != nil {
			return
		}
		if eval, err = bootstrapping.NewEvaluator(btpParams, keys); err != nil {
			return
		}
		// the same evaluator on a recording key set (as NewEvaluator builds it)
		rec.inner = keys.MemEvaluationKeySet
		ce := ckks.NewEvaluator(bp, rec)
		eval.Evaluator = ce
		eval.DFTEvaluator = dft.NewEvaluator(bp, ce)
		eval.Mod1Evaluator = mod1.NewEvaluator(ce, polynomial.NewEvaluator(bp, ce), eval.Mod1Parameters)
		return
	})
	if err != nil || pan {
		pe.Err, pe.Panic, pe.Msg = err != nil, pan, "keys/evaluator: "+msg
		emit(pe)
		return
	}
	pe.Depth, pe.OutLevel, pe.MinInput = eval.Depth(), eval.OutputLevel(), eval.MinimumInputLevel()
	emit(pe)

	ecd := ckks.NewEncoder(params)
	enc := rlwe.NewEncryptor(params, sk)
	dec := rlwe.NewDecryptor(params, sk)
	mkValues := func(logSlots, rot int) []complex128 {
		vals := make([]complex128, 1<<logSlots)
		for i := range vals {
			j := i + rot
			vals[i] = complex(math.Cos(float64(j)*0.7)*0.9, math.Sin(float64(j)*1.3)*0.9)
			if pe.CI {
				vals[i] = complex(real(vals[i]), 0)
			}
		}
		return vals
	}
	encrypt := func(vals []complex128, logSlots, level int) *rlwe.Ciphertext {
		pt := ckks.NewPlaintext(params, level)
		pt.LogDimensions = ring.Dimensions{Rows: 0, Cols: logSlots}
		tr.Must(ecd.Encode(vals, pt))
		ct, err := enc.EncryptNew(pt)
		tr.Must(err)
		return ct
	}
	judge := func(e *event, ct *rlwe.Ciphertext, want []complex128) {
		e.OutLvl = ct.Level()
		e.ScaleOK = ct.Scale.Cmp(params.DefaultScale()) == 0
		if ct.Level() > params.MaxLevel() {
			// a result above the residual chain cannot even be decrypted with the residual parameters
			e.PrecBits = -100
			return
		}
		have := make([]complex128, len(want))
		if err := ecd.Decode(dec.DecryptNew(ct), have); err != nil {
			e.Err, e.Msg = true, err.Error()
			return
		}
		e.PrecBits = precBits(want, have)
	}
	base := event{ResMax: pe.ResMax, LogN: pe.LogN, LogScale: pe.LogScale, Announced: v.announce}
	slotOffs := v.slotOffs
	if slotOffs == nil {
		slotOffs = []int{0}
	}
	fullRun := false
	for _, so := range slotOffs {
		logSlots := params.LogMaxSlots() - so
		if m := btpParams.LogMaxSlots(); logSlots > m {
			logSlots = m
		}
		for _, lvl := range v.inLevels {
			if lvl > params.MaxLevel() {
				continue
			}
			for _, batch := range v.batches {
				e := base
				e.Ev, e.InLvl, e.Batch, e.LogSlots = "boot", lvl, batch, logSlots
				// every other configuration runs on a ShallowCopy of the evaluator (one evaluator per goroutine in deployments)
				eval := eval
				if (batch > 1 && lvl == 0) || (batch == 1 && (lvl+so)%2 == 1) {
					eval = eval.ShallowCopy()
					e.Copy = true
				}
				if pe.CI {
					e.API = "EvaluateConjugateInvariant"
					want := mkValues(logSlots, 0)
					l, r := encrypt(want, logSlots, lvl), encrypt(want, logSlots, lvl)
					var ol, or *rlwe.Ciphertext
					err, pan, msg := guarded(func() (err error) { ol, or, err = eval.EvaluateConjugateInvariant(l, r); return })
					e.Err, e.Panic, e.Msg = err != nil, pan, msg
					if err == nil && !pan {
						judge(&e, ol, want)
						e2 := e
						judge(&e2, or, want)
						if e2.PrecBits < e.PrecBits || !e2.ScaleOK || e2.OutLvl != e.OutLvl {
							e = e2
						}
					}
					emit(e)
					continue
				}
				if batch == 1 {
					e.API = "Bootstrap"
					want := mkValues(logSlots, 0)
					ct := encrypt(want, logSlots, lvl)
					var out *rlwe.Ciphertext
					err, pan, msg := guarded(func() (err error) { out, err = eval.Bootstrap(ct); return })
					e.Err, e.Panic, e.Msg = err != nil, pan, msg
					if err == nil && !pan {
						judge(&e, out, want)
					}
					if logSlots == bp.LogMaxSlots() || logSlots == btpParams.LogMaxSlots() {
						fullRun = true
					}
					emit(e)
					continue
				}
				e.API = "BootstrapMany"
				cts := make([]rlwe.Ciphertext, batch)
				wants := make([][]complex128, batch)
				for i := range cts {
					wants[i] = mkValues(logSlots, i)
					cts[i] = *encrypt(wants[i], logSlots, lvl)
				}
				var outs []rlwe.Ciphertext
				err, pan, msg := guarded(func() (err error) { outs, err = eval.BootstrapMany(cts); return })
				e.Err, e.Panic, e.Msg = err != nil, pan, msg
				if err == nil && !pan {
					if len(outs) != batch {
						e.Err, e.Msg = true, fmt.Sprintf("%d outputs for %d inputs", len(outs), batch)
					}
					first := true
					for i := range outs {
						ei := e
						judge(&ei, &outs[i], wants[i])
						if first || ei.PrecBits < e.PrecBits || !ei.ScaleOK || ei.OutLvl != pe.ResMax {
							e.OutLvl, e.ScaleOK, e.PrecBits = ei.OutLvl, ei.ScaleOK, ei.PrecBits
							first = false
						}
					}
				}
				emit(e)
			}
		}
	}
	// the stages one by one (same ring degree, standard ring)
	if v.stages && !pe.CI && pe.N1 == pe.N2 {
		want := mkValues(params.LogMaxSlots(), 0)
		ct := encrypt(want, params.LogMaxSlots(), 0)
		var cur *rlwe.Ciphertext
		stage := func(name string, f func() error) bool {
			err, pan, msg := guarded(f)
			e := event{Ev: "stage", Name: name, Err: err != nil, Panic: pan, Msg: msg}
			if cur != nil {
				e.Lvl = cur.Level()
			}
			emit(e)
			return err == nil && !pan
		}
		var re, im *rlwe.Ciphertext
		ok := stage("scaledown", func() (err error) { cur, _, err = eval.ScaleDown(ct); return })
		ok = ok && stage("modup", func() (err error) { cur, err = eval.ModUp(cur); return })
		ok = ok && stage("c2s", func() (err error) { re, im, err = eval.CoeffsToSlots(cur); cur = re; return })
		if ok && im != nil {
			// the imaginary part goes through the same modular reduction; the machine follows the real part
			ok = stage("evalmod", func() (err error) { cur, err = eval.EvalMod(re); return })
			var im2 *rlwe.Ciphertext
			if ok {
				_, _, _ = guarded(func() (err error) { im2, err = eval.EvalMod(im); return })
			}
			reM := cur
			ok = ok && stage("s2c", func() (err error) { cur, err = eval.SlotsToCoeffs(reM, im2); return })
		} else if ok {
			ok = stage("evalmod", func() (err error) { cur, err = eval.EvalMod(re); return })
			reM := cur
			ok = ok && stage("s2c", func() (err error) { cur, err = eval.SlotsToCoeffs(reM, nil); return })
		}
	}
	// key inventory
	ke := event{Ev: "keys", Ephemeral: pe.Ephemeral, N1: pe.N1, N2: pe.N2, CI: pe.CI, BtpMax: pe.BtpMax, FullRun: fullRun}
	_, pan, msg = guarded(func() error {
		_, err := keys.GetRelinearizationKey()
		ke.HasRlk = err == nil
		ke.ProvGal = dedup(keys.GetGaloisKeysList())
		ke.AdvGal = dedup(append(btpParams.GaloisElements(bp), bp.GaloisElementForComplexConjugation()))
		ke.ReqGal = sortedKeys(rec.req)
		if k := keys.EvkDenseToSparse; k != nil {
			ke.HasD2S, ke.D2SLQ, ke.D2SLP = true, k.LevelQ(), k.LevelP()
		}
		if k := keys.EvkSparseToDense; k != nil {
			ke.HasS2D, ke.S2DLQ, ke.S2DLP = true, k.LevelQ(), k.LevelP()
		}
		ke.HasN1N2, ke.HasN2N1 = keys.EvkN1ToN2 != nil, keys.EvkN2ToN1 != nil
		ke.HasR2C, ke.HasC2R = keys.EvkRealToCmplx != nil, keys.EvkCmplxToReal != nil
		return nil
	})
	ke.Panic, ke.Msg = pan, msg
	emit(ke)
}






// dftInverse: the homomorphic encoding (CoeffsToSlots) followed by the homomorphic decoding (SlotsToCoeffs),
// both built from plain (unscaled) matrices, returns the coefficients it started from.
func dftInverse(w *tr.Writer, prog *int) {
	params, err := ckks.NewParametersFromLiteral(ckks.ParametersLiteral{LogN: 8, LogQ: []int{55, 45, 45, 45, 45, 45}, LogP: []int{55, 55}, LogDefaultScale: 45})
	tr.Must(err)
	kg := rlwe.NewKeyGenerator(params)
	sk := kg.GenSecretKeyNew()
	ecd := ckks.NewEncoder(params)
	for _, logSlots := range []int{params.LogMaxSlots()} {
		for _, levels := range [][2][]int{{{1, 1}, {1, 1}}, {{1}, {1, 1, 1}}, {{1, 1, 1}, {1}}, {{1, 1, 1}, {1, 1}}, {{2, 1}, {1, 1}}, {{1, 2}, {1, 1}}, {{1, 1}, {2, 1}}, {{1, 1}, {1, 2}}, {{2}, {2}}, {{2, 2}, {1}}} {
			*prog++
			e := event{Ev: "dftinv", Prog: *prog, LogSlots: logSlots, LogN: params.LogN(), LogScale: params.LogDefaultScale(), ProvGal: []uint64{}, AdvGal: []uint64{}, ReqGal: []uint64{}}
			e.Name = fmt.Sprintf("c2s levels %v, s2c levels %v", levels[0], levels[1])
			for _, lv := range append(append([]int{}, levels[0]...), levels[1]...) {
				if lv > 1 {
					// matrices sharing a prime are encoded at its root: the floor follows their precision
					e.LogScale = 30
				}
			}
			err, pan, msg := guarded(func() error {
				c2sLit := dft.MatrixLiteral{Type: dft.HomomorphicEncode, Format: dft.RepackImagAsReal, LogSlots: logSlots, LevelQ: params.MaxLevelQ(), LevelP: params.MaxLevelP(), Levels: levels[0]}
				d := c2sLit.Depth(true)
				s2cLit := dft.MatrixLiteral{Type: dft.HomomorphicDecode, Format: dft.RepackImagAsReal, LogSlots: logSlots, LevelQ: params.MaxLevelQ() - d, LevelP: params.MaxLevelP(), Levels: levels[1]}
				c2s, err := dft.NewMatrixFromLiteral(params, c2sLit, ecd)
				if err != nil {
					return err
				}
				s2c, err := dft.NewMatrixFromLiteral(params, s2cLit, ecd)
				if err != nil {
					return err
				}
				galEls := append(c2sLit.GaloisElements(params), s2cLit.GaloisElements(params)...)
				galEls = append(galEls, params.GaloisElementForComplexConjugation())
				evk := rlwe.NewMemEvaluationKeySet(kg.GenRelinearizationKeyNew(sk), kg.GenGaloisKeysNew(dedup(galEls), sk)...)
				ev := dft.NewEvaluator(params, ckks.NewEvaluator(params, evk))
				n := 2 << logSlots
				want := make([]float64, n)
				for i := range want {
					want[i] = math.Cos(float64(i)*0.37) * 0.8
				}
				pt := ckks.NewPlaintext(params, params.MaxLevel())
				pt.LogDimensions = ring.Dimensions{Rows: 0, Cols: logSlots}
				pt.IsBatched = false
				if err := ecd.Encode(want, pt); err != nil {
					return err
				}
				pt.IsBatched = true
				ct, err := rlwe.NewEncryptor(params, sk).EncryptNew(pt)
				if err != nil {
					return err
				}
				re, im, err := ev.CoeffsToSlotsNew(ct, c2s)
				if err != nil {
					return err
				}
				back, err := ev.SlotsToCoeffsNew(re, im, s2c)
				if err != nil {
					return err
				}
				back.IsBatched = false
				have := make([]float64, n)
				if err := ecd.Decode(rlwe.NewDecryptor(params, sk).DecryptNew(back), have); err != nil {
					return err
				}
				worst := 0.0
				for i := range want {
					if d := math.Abs(want[i] - have[i]); d > worst || math.IsNaN(d) {
						worst = d
					}
				}
				e.PrecBits = 60
				if worst > 0 {
					e.PrecBits = int(math.Floor(-math.Log2(worst)))
				}
				if math.IsNaN(worst) {
					e.PrecBits = -100
				}
				return nil
			})
			e.Err, e.Panic, e.Msg = err != nil, pan, msg
			w.Emit(e)
		}
	}
}

// defaultSets: the depth arithmetic of every exported default parameter set at full size (parameters only).
func defaultSets(w *tr.Writer, prog *int) {
	type named struct {
		name string
		s    ckks.ParametersLiteral
		b    bootstrapping.ParametersLiteral
	}
	var all []named
	for i, d := range bootstrapping.DefaultParametersSparse {
		all = append(all, named{fmt.Sprintf("DefaultParametersSparse[%d]", i), d.SchemeParams, d.BootstrappingParams})
	}
	for i, d := range bootstrapping.DefaultParametersDense {
		all = append(all, named{fmt.Sprintf("DefaultParametersDense[%d]", i), d.SchemeParams, d.BootstrappingParams})
	}
	for _, d := range all {
		*prog++
		e := event{Ev: "params", Prog: *prog, Variant: d.name, ProvGal: []uint64{}, AdvGal: []uint64{}, ReqGal: []uint64{}}
		err, pan, msg := guarded(func() error {
			res, err := ckks.NewParametersFromLiteral(d.s)
			if err != nil {
				return err
			}
			if d.b.LogN == nil {
				ln := d.s.LogN
				d.b.LogN = &ln
			}
			bp, err := bootstrapping.NewParametersFromLiteral(res, d.b)
			if err != nil {
				return err
			}
			e.ResMax, e.BtpMax = res.MaxLevel(), bp.BootstrappingParameters.MaxLevel()
			e.DC2S, e.DEM, e.DS2C = bp.DepthCoeffsToSlots(), bp.DepthEvalMod(), bp.DepthSlotsToCoeffs()
			e.Depth, e.OutLevel = bp.Depth(), res.MaxLevel()
			e.Ephemeral = bp.EphemeralSecretWeight
			e.N1, e.N2 = res.N(), bp.BootstrappingParameters.N()
			e.LogN, e.LogScale = res.LogN(), res.LogDefaultScale()
			return nil
		})
		e.Err, e.Panic, e.Msg = err != nil, pan, msg
		w.Emit(e)
	}
}

func Main(args []string) int {
	fs := flag.NewFlagSet("c18", flag.ExitOnError)
	trace := fs.String("trace", "", "trace output")
	seed := fs.Uint64("seed", 1, "seed")
	part := fs.Int("part", 0, "")
	parts := fs.Int("parts", 1, "")
	thorough := fs.Bool("thorough", false, "")
	fs.Parse(args[1:])
	tr.Seed(*seed)
	w := tr.NewWriter(*trace)
	prog := *part * 1000
	k := 0
	all := append(variants(), reducedDefaults()...)
	for _, v := range all {
		if !*thorough && !v.quick && v.name != "reduced-sparse3" && v.name != "iter-highprec" {
			continue
		}
		if k%*parts == *part {
			runVariant(w, &prog, v)
		}
		k++
	}
	if *part == 0 {
		dftInverse(w, &prog)
	}
	if *part == *parts-1 {
		defaultSets(w, &prog)
	}
	w.Close()
	(&tr.Result{Events: w.N, Cases: prog - *part*1000}).Print()
	return 0
}
