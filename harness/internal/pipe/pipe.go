// Package pipe executes the cross-layer programs of spec/Pipeline.tla on the real stack: bgv encoder, rlwe
// encryptors (secret and public key), bgv evaluator, (de)serialisation of ciphertexts and evaluation keys over
// one shared bufio stream, two-party collective key switching, decryptor; after every step the register
// written is decrypted under the key the model assigns and logged for spec/PipelineTrace.tla.
package pipe

import (
	"bufio"
	"bytes"
	"encoding/json"
	"flag"
	"fmt"
	"os"

	bgvlt "github.com/tuneinsight/lattigo/v6/circuits/bgv/lintrans"
	bgvpoly "github.com/tuneinsight/lattigo/v6/circuits/bgv/polynomial"
	"github.com/tuneinsight/lattigo/v6/core/rlwe"
	"github.com/tuneinsight/lattigo/v6/utils/bignum"
	"github.com/tuneinsight/lattigo/v6/multiparty"
	"github.com/tuneinsight/lattigo/v6/utils/sampling"
	"github.com/tuneinsight/lattigo/v6/multiparty/mpbgv"
	"github.com/tuneinsight/lattigo/v6/ring"
	"github.com/tuneinsight/lattigo/v6/schemes/bgv"

	"verif/harness/internal/tr"
)

type stepT struct {
	Op    string `json:"op"`
	R     string `json:"r,omitempty"`
	V     []int  `json:"v,omitempty"`
	How   string `json:"how,omitempty"`
	A     string `json:"a,omitempty"`
	B     string `json:"b,omitempty"`
	Out   string `json:"out,omitempty"`
	K     int    `json:"k,omitempty"`
	Order int    `json:"order"`
	Chunk int    `json:"chunk,omitempty"`
	P     int    `json:"p,omitempty"`
	M     int    `json:"m,omitempty"`
}

type event struct {
	Ev      string `json:"ev"`
	Prog    int    `json:"prog"`
	Fork    int    `json:"fork"`
	R       string `json:"r,omitempty"`
	V       []int  `json:"v,omitempty"`
	How     string `json:"how,omitempty"`
	A       string `json:"a,omitempty"`
	B       string `json:"b,omitempty"`
	Out     string `json:"out,omitempty"`
	K       int    `json:"k"`
	Order   int    `json:"order"`
	Chunk   int    `json:"chunk"`
	P       int    `json:"p"`
	M       int    `json:"m"`
	Vals    []int  `json:"vals"`
	Lvl     int    `json:"lvl"`
	Deg     int    `json:"deg"`
	NBytes  int    `json:"nbytes"`
	BinSize int    `json:"binsize"`
	Err     bool   `json:"err"`
	Panic   bool   `json:"panic"`
	Msg     string `json:"msg,omitempty"`
}

type world struct {
	p      bgv.Parameters
	ecd    *bgv.Encoder
	sk     [2][]*rlwe.SecretKey // key index -> the two parties' shares
	ideal  [2]*rlwe.SecretKey
	pk1    *rlwe.PublicKey
	evk    [2]*rlwe.MemEvaluationKeySet
	eval   [2]*bgv.Evaluator
	reg    map[string]*rlwe.Ciphertext
	key    map[string]int
	buf    bytes.Buffer
	w      *bufio.Writer
	r      *bufio.Reader
	ctl    *ctlReader
}

// ctlReader delivers at most limit bytes per call.
type ctlReader struct {
	buf   *bytes.Buffer
	limit int
}

func (c *ctlReader) Read(p []byte) (int, error) {
	if c.limit > 0 && len(p) > c.limit {
		p = p[:c.limit]
	}
	return c.buf.Read(p)
}

func newWorld() *world {
	p, err := bgv.NewParametersFromLiteral(bgv.ParametersLiteral{LogN: 9, LogQ: []int{50, 40, 40}, LogP: []int{50}, PlaintextModulus: 97})
	tr.Must(err)
	w := &world{p: p, ecd: bgv.NewEncoder(p), reg: map[string]*rlwe.Ciphertext{}, key: map[string]int{}}
	kg := rlwe.NewKeyGenerator(p)
	galEls := []uint64{p.GaloisElement(1), p.GaloisElement(3)}
	for k := 0; k < 2; k++ {
		w.sk[k] = []*rlwe.SecretKey{kg.GenSecretKeyNew(), kg.GenSecretKeyNew()}
		id := rlwe.NewSecretKey(p)
		for _, s := range w.sk[k] {
			p.RingQP().Add(id.Value, s.Value, id.Value)
		}
		w.ideal[k] = id
		w.evk[k] = rlwe.NewMemEvaluationKeySet(kg.GenRelinearizationKeyNew(id), kg.GenGaloisKeysNew(galEls, id)...)
		w.eval[k] = bgv.NewEvaluator(p, w.evk[k], false)
	}
	w.pk1 = kg.GenPublicKeyNew(w.ideal[0])
	w.w = bufio.NewWriter(&w.buf)
	w.ctl = &ctlReader{buf: &w.buf}
	w.r = bufio.NewReaderSize(w.ctl, 16)
	return w
}

func (w *world) vec(v []int) []uint64 {
	out := make([]uint64, w.p.MaxSlots())
	for i := range out {
		out[i] = uint64(v[i%4])
	}
	return out
}

// rowVec: the period-4 pattern along both rows
func (w *world) rowVec(v []int) []uint64 { return w.vec(v) }

// observe decrypts a register under the key the model assigns and checks the period-4 pattern.
func (w *world) observe(name string, e *event) {
	ct := w.reg[name]
	if ct == nil {
		e.Err, e.Msg = true, "register empty"
		return
	}
	e.Lvl, e.Deg = ct.Level(), ct.Degree()
	have := make([]uint64, w.p.MaxSlots())
	if err := w.ecd.Decode(rlwe.NewDecryptor(w.p, w.ideal[w.key[name]-1]).DecryptNew(ct), have); err != nil {
		e.Err, e.Msg = true, err.Error()
		return
	}
	e.Vals = []int{int(have[0]), int(have[1]), int(have[2]), int(have[3])}
	for i := range have {
		if have[i] != have[i%4] {
			e.Vals = []int{-1, -1, -1, -1} // not periodic: garbage
			e.Msg = fmt.Sprintf("slot %d = %d breaks the period-4 pattern", i, have[i])
			return
		}
	}
}

func guarded(f func() error) (err error, pan bool, msg string) {
	defer func() {
		if r := recover(); r != nil {
			pan, msg = true, fmt.Sprint(r)
		}
	}()
	err = f()
	if err != nil {
		msg = err.Error()
	}
	return
}

func (w *world) out(name string, like *rlwe.Ciphertext) *rlwe.Ciphertext {
	// results go to the register's existing object when there is one (prior state must not matter)
	if ct, ok := w.reg[name]; ok && ct != nil {
		return ct
	}
	ct := bgv.NewCiphertext(w.p, 1, w.p.MaxLevel())
	w.reg[name] = ct
	return ct
}

func (w *world) step(st stepT) event {
	e := event{Ev: st.Op, R: st.R, V: st.V, How: st.How, A: st.A, B: st.B, Out: st.Out, K: st.K, Order: st.Order, Chunk: st.Chunk, P: st.P, M: st.M, Vals: []int{}}
	err, pan, msg := guarded(func() error {
		switch st.Op {
		case "enc":
			pt := bgv.NewPlaintext(w.p, w.p.MaxLevel())
			if err := w.ecd.Encode(w.vec(st.V), pt); err != nil {
				return err
			}
			var enc *rlwe.Encryptor
			if st.How == "pk" {
				enc = rlwe.NewEncryptor(w.p, w.pk1)
			} else {
				enc = rlwe.NewEncryptor(w.p, w.ideal[0])
			}
			ct := w.out(st.R, nil)
			ct.Resize(1, w.p.MaxLevel())
			if err := enc.Encrypt(pt, ct); err != nil {
				return err
			}
			w.key[st.R] = 1
			w.observe(st.R, &e)
		case "add", "mulr":
			a, b := w.reg[st.A], w.reg[st.B]
			ev := w.eval[w.key[st.A]-1]
			var res *rlwe.Ciphertext
			var err error
			if st.Op == "add" {
				res, err = ev.AddNew(a, b)
			} else {
				if res, err = ev.MulRelinNew(a, b); err == nil {
					err = ev.Rescale(res, res)
				}
			}
			if err != nil {
				return err
			}
			k := w.key[st.A]
			dst := w.out(st.Out, res)
			dst.Resize(res.Degree(), res.Level())
			dst.Copy(res)
			w.key[st.Out] = k
			w.observe(st.Out, &e)
		case "rot":
			a := w.reg[st.A]
			res, err := w.eval[w.key[st.A]-1].RotateColumnsNew(a, st.K)
			if err != nil {
				return err
			}
			k := w.key[st.A]
			dst := w.out(st.Out, res)
			dst.Resize(res.Degree(), res.Level())
			dst.Copy(res)
			w.key[st.Out] = k
			w.observe(st.Out, &e)
		case "write":
			ct := w.reg[st.A]
			e.BinSize = ct.BinarySize()
			n, err := ct.WriteTo(w.w)
			e.NBytes = int(n)
			if err != nil {
				return err
			}
			// the key the ciphertext is under travels with it in the model; remember it in order
			wireKeys = append(wireKeys, w.key[st.A])
			return w.w.Flush()
		case "read":
			dst, ok := w.reg[st.Out]
			if !ok || dst == nil {
				dst = new(rlwe.Ciphertext)
				w.reg[st.Out] = dst
			}
			w.ctl.limit = st.Chunk
			n, err := dst.ReadFrom(w.r)
			w.ctl.limit = 0
			e.NBytes = int(n)
			if err != nil {
				return err
			}
			e.BinSize = dst.BinarySize()
			w.key[st.Out] = wireKeys[0]
			wireKeys = wireKeys[1:]
			w.observe(st.Out, &e)
		case "wirekeys":
			k := st.K - 1
			e.BinSize = w.evk[k].BinarySize()
			n, err := w.evk[k].WriteTo(w.w)
			e.NBytes = int(n)
			if err != nil {
				return err
			}
			if err := w.w.Flush(); err != nil {
				return err
			}
			got := new(rlwe.MemEvaluationKeySet)
			n2, err := got.ReadFrom(w.r)
			if err != nil {
				return err
			}
			if int(n2) != e.NBytes {
				e.NBytes = -int(n2)
			}
			w.evk[k] = got
			w.eval[k] = bgv.NewEvaluator(w.p, got, false)
		case "switch":
			ct := w.reg[st.A]
			pr, err := multiparty.NewKeySwitchProtocol(w.p, ring.DiscreteGaussian{Sigma: 1 << 10, Bound: 6 << 10})
			if err != nil {
				return err
			}
			sh := [2]multiparty.KeySwitchShare{pr.AllocateShare(ct.Level()), pr.AllocateShare(ct.Level())}
			for i := 0; i < 2; i++ {
				pr.GenShare(w.sk[0][i], w.sk[1][i], ct, &sh[i])
			}
			agg := pr.AllocateShare(ct.Level())
			x, y := 0, 1
			if st.Order == 1 {
				x, y = 1, 0
			}
			if err := pr.AggregateShares(sh[x], sh[y], &agg); err != nil {
				return err
			}
			res := bgv.NewCiphertext(w.p, 1, ct.Level())
			pr.KeySwitch(ct, agg, res)
			dst := w.out(st.Out, res)
			dst.Resize(res.Degree(), res.Level())
			dst.Copy(res)
			w.key[st.Out] = 2
			w.observe(st.Out, &e)
		case "poly":
			ct := w.reg[st.A]
			k := w.key[st.A]
			coeffs := [][]uint64{{1, 0, 1}, {0, 2, 0, 1}}[st.P-1]
			pe := bgvpoly.NewEvaluator(w.p, w.eval[k-1])
			res, err := pe.Evaluate(ct, bignum.NewPolynomial(bignum.Monomial, coeffs, nil), w.p.DefaultScale())
			if err != nil {
				return err
			}
			dst := w.out(st.Out, res)
			dst.Resize(res.Degree(), res.Level())
			dst.Copy(res)
			w.key[st.Out] = k
			w.observe(st.Out, &e)
		case "lin":
			ct := w.reg[st.A]
			k := w.key[st.A]
			menu := [][2][]int{{{1, 2, 3, 4}, {5, 0, 1, 2}}, {{0, 0, 0, 0}, {1, 1, 1, 1}}}[st.M-1]
			lp := bgvlt.Parameters{DiagonalsIndexList: []int{0, 1}, LevelQ: w.p.MaxLevel(), LevelP: w.p.MaxLevelP(), Scale: w.p.DefaultScale(),
				LogDimensions: ring.Dimensions{Rows: 1, Cols: w.p.LogMaxSlots() - 1}, LogBabyStepGiantStepRatio: -1}
			lt := bgvlt.NewLinearTransformation(w.p, lp)
			if err := bgvlt.Encode(w.ecd, bgvlt.Diagonals[uint64]{0: w.rowVec(menu[0]), 1: w.rowVec(menu[1])}, lt); err != nil {
				return err
			}
			res, err := bgvlt.NewEvaluator(w.eval[k-1]).EvaluateNew(ct, lt)
			if err != nil {
				return err
			}
			if err := w.eval[k-1].Rescale(res, res); err != nil {
				return err
			}
			dst := w.out(st.Out, res)
			dst.Resize(res.Degree(), res.Level())
			dst.Copy(res)
			w.key[st.Out] = k
			w.observe(st.Out, &e)
		case "refresh":
			ct := w.reg[st.A]
			k := w.key[st.A] - 1
			pr, err := mpbgv.NewRefreshProtocol(w.p, ring.DiscreteGaussian{Sigma: 1 << 10, Bound: 6 << 10})
			if err != nil {
				return err
			}
			crs, err := sampling.NewKeyedPRNG([]byte("pipeline refresh"))
			if err != nil {
				return err
			}
			top := w.p.MaxLevel()
			crp := pr.SampleCRP(top, crs)
			sh := [2]multiparty.RefreshShare{pr.AllocateShare(ct.Level(), top), pr.AllocateShare(ct.Level(), top)}
			for i := 0; i < 2; i++ {
				if err := pr.GenShare(w.sk[k][i], ct, crp, &sh[i]); err != nil {
					return err
				}
			}
			agg := pr.AllocateShare(ct.Level(), top)
			x, y := 0, 1
			if st.Order == 1 {
				x, y = 1, 0
			}
			if err := pr.AggregateShares(sh[x], sh[y], &agg); err != nil {
				return err
			}
			res := bgv.NewCiphertext(w.p, 1, top)
			if err := pr.Finalize(ct, crp, agg, res); err != nil {
				return err
			}
			dst := w.out(st.Out, res)
			dst.Resize(res.Degree(), res.Level())
			dst.Copy(res)
			w.key[st.Out] = k + 1
			w.observe(st.Out, &e)
		}
		return nil
	})
	if err != nil || pan {
		e.Err, e.Panic, e.Msg = err != nil, pan, msg
	}
	return e
}

var wireKeys []int

func Main(args []string) int {
	fs := flag.NewFlagSet("pipe", flag.ExitOnError)
	progs := fs.String("progs", "", "programs (one JSON array per line)")
	trace := fs.String("trace", "", "trace output")
	seed := fs.Uint64("seed", 1, "seed")
	part := fs.Int("part", 0, "")
	parts := fs.Int("parts", 1, "")
	fs.Parse(args[1:])
	tr.Seed(*seed)
	wr := tr.NewWriter(*trace)
	f, err := os.Open(*progs)
	tr.Must(err)
	sc := bufio.NewScanner(f)
	sc.Buffer(make([]byte, 1<<20), 1<<24)
	base := newWorld()
	prog := *part * 1_000_000
	k := 0
	for sc.Scan() {
		if k%*parts != *part {
			k++
			continue
		}
		k++
		var steps []stepT
		tr.Must(json.Unmarshal(sc.Bytes(), &steps))
		prog++
		// a fresh world per program, sharing the (expensive) keys
		w := &world{p: base.p, ecd: base.ecd, sk: base.sk, ideal: base.ideal, pk1: base.pk1, evk: base.evk, reg: map[string]*rlwe.Ciphertext{}, key: map[string]int{}}
		for i := range w.evk {
			w.eval[i] = bgv.NewEvaluator(w.p, w.evk[i], false)
		}
		w.w = bufio.NewWriter(&w.buf)
		w.ctl = &ctlReader{buf: &w.buf}
		w.r = bufio.NewReaderSize(w.ctl, 16)
		wireKeys = nil
		wr.Emit(event{Ev: "new", Prog: prog, Vals: []int{}})
		for i, st := range steps {
			e := w.step(st)
			e.Prog, e.Fork = prog, i+1
			if e.Vals == nil {
				e.Vals = []int{}
			}
			wr.Emit(e)
			if e.Err || e.Panic {
				break
			}
		}
	}
	wr.Close()
	(&tr.Result{Events: wr.N, Cases: prog - *part*1_000_000}).Print()
	return 0
}
