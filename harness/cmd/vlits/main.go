// vlits instantiates every exported example / default parameter literal of lattigo (the list in
// literals_gen.go is regenerated from the sources of /repo on every run of the C19 check) and records
// log2(QP), ring degree, secret class and derived quantities for validation against spec/Params.tla.
package main

import (
	"fmt"
	"math"
	"math/big"
	"math/bits"
	"os"
	"regexp"
	"sort"
	"strconv"

	"github.com/tuneinsight/lattigo/v6/circuits/ckks/bootstrapping"
	"github.com/tuneinsight/lattigo/v6/core/rlwe"
	"github.com/tuneinsight/lattigo/v6/ring"
	"github.com/tuneinsight/lattigo/v6/schemes/bgv"
	"github.com/tuneinsight/lattigo/v6/schemes/ckks"

	"verif/harness/internal/c01"
	"verif/harness/internal/tr"
)

type btpLit struct {
	S ckks.ParametersLiteral
	B bootstrapping.ParametersLiteral
}

type sec struct {
	Ev        string `json:"ev"`
	Prog      int    `json:"prog"`
	Fork      int    `json:"fork"`
	Name      string `json:"name"`
	LogN      int    `json:"logn"`
	LogQP100  int    `json:"logqp100"`
	Cls       string `json:"cls"`
	NameBound int    `json:"namebound"`
	Xs        string `json:"xs"`
	Err       bool   `json:"err"`
	Panic     bool   `json:"panic"`
	Msg       string `json:"msg,omitempty"`
}

type derived struct {
	Ev          string `json:"ev"`
	Prog        int    `json:"prog"`
	Fork        int    `json:"fork"`
	Name        string `json:"name"`
	Scheme      string `json:"scheme"`
	LogN        int    `json:"logn"`
	N           int    `json:"n"`
	CI          bool   `json:"ci"`
	NthRoot     int    `json:"nthroot"`
	QCount      int    `json:"qcount"`
	MaxLevel    int    `json:"maxlevel"`
	LogQFloor   int    `json:"logqfloor"`
	QBitLen     int    `json:"qbitlen"`
	LogQPFloor  int    `json:"logqpfloor"`
	QPBitLen    int    `json:"qpbitlen"`
	MaxSlots    int    `json:"maxslots"`
	LogMaxSlots int    `json:"logmaxslots"`
	TN          int    `json:"tn"`
}

var reQP = regexp.MustCompile(`QP(\d+)`)

func classOf(xs ring.DistributionParameters, n int) string {
	switch x := xs.(type) {
	case ring.Ternary:
		if x.H == 192 {
			return "h192"
		}
		if x.P >= 0.5 || x.H >= n/2 {
			return "dense"
		}
	}
	return "unknown"
}

func bitlenProd(xs ...[]uint64) int {
	p := big.NewInt(1)
	for _, l := range xs {
		for _, x := range l {
			p.Mul(p, new(big.Int).SetUint64(x))
		}
	}
	return p.BitLen()
}

var w *tr.Writer
var prog int

func emitSec(name string, p rlwe.Parameters, xs ring.DistributionParameters) {
	prog++
	e := sec{Ev: "sec", Prog: prog, Name: name, LogN: p.LogN(), LogQP100: int(math.Ceil(p.LogQP() * 100)), Cls: classOf(xs, p.N()), Xs: fmt.Sprintf("%+v", xs)}
	if m := reQP.FindStringSubmatch(name); m != nil {
		e.NameBound, _ = strconv.Atoi(m[1])
	}
	w.Emit(e)
}

func emitDerived(name, scheme string, p rlwe.Parameters, maxSlots, logMaxSlots, tn int) {
	prog++
	w.Emit(derived{Ev: "derived", Prog: prog, Name: name, Scheme: scheme, LogN: p.LogN(), N: p.N(), CI: p.RingType() == ring.ConjugateInvariant,
		NthRoot: p.NthRoot(), QCount: p.QCount(), MaxLevel: p.MaxLevel(), LogQFloor: int(math.Floor(p.LogQ())), QBitLen: bitlenProd(p.Q()),
		LogQPFloor: int(math.Floor(p.LogQP())), QPBitLen: bitlenProd(p.Q(), p.P()), MaxSlots: maxSlots, LogMaxSlots: logMaxSlots, TN: tn})
	emitMargins(name, p)
}

// margins: the lazy-accumulation margins derived from the chain, QiOverflowMargin(level) = floor(2^64 / max(Q[:level+1]))
// and the same for P, as limbs together with the moduli they are derived from
type margin struct {
	Ev    string  `json:"ev"`
	Prog  int     `json:"prog"`
	Name  string  `json:"name"`
	Ring  string  `json:"ring"`
	Level int     `json:"level"`
	M     []int   `json:"m"`
	Mods  [][]int `json:"mods"`
}

func emitMargins(name string, p rlwe.Parameters) {
	for _, lvl := range []int{0, p.MaxLevelQ() / 2, p.MaxLevelQ()} {
		prog++
		ms := [][]int{}
		for _, q := range p.Q()[:lvl+1] {
			ms = append(ms, c01.LimbsU(q))
		}
		w.Emit(margin{Ev: "margin", Prog: prog, Name: name, Ring: "Q", Level: lvl, M: c01.LimbsU(uint64(p.QiOverflowMargin(lvl))), Mods: ms})
	}
	for _, lvl := range []int{0, p.MaxLevelP()} {
		if lvl < 0 || lvl > p.MaxLevelP() {
			continue
		}
		prog++
		ms := [][]int{}
		for _, q := range p.P()[:lvl+1] {
			ms = append(ms, c01.LimbsU(q))
		}
		w.Emit(margin{Ev: "margin", Prog: prog, Name: name, Ring: "P", Level: lvl, M: c01.LimbsU(uint64(p.PiOverflowMargin(lvl))), Mods: ms})
	}
}

func fail(name string, err error, pan interface{}) {
	prog++
	e := sec{Ev: "sec", Prog: prog, Name: name}
	if err != nil {
		e.Err, e.Msg = true, err.Error()
	}
	if pan != nil {
		e.Panic, e.Msg = true, fmt.Sprint(pan)
	}
	w.Emit(e)
}

func guarded(name string, f func() error) {
	defer func() {
		if r := recover(); r != nil {
			fail(name, nil, r)
		}
	}()
	if err := f(); err != nil {
		fail(name, err, nil)
	}
}

func keys[T any](m map[string]T) []string {
	var ks []string
	for k := range m {
		ks = append(ks, k)
	}
	sort.Strings(ks)
	return ks
}

func main() {
	w = tr.NewWriter(os.Args[1])
	_ = bits.Len
	for _, name := range keys(rlweLits) {
		lit := rlweLits[name]
		guarded(name, func() error {
			p, err := rlwe.NewParametersFromLiteral(lit)
			if err != nil {
				return err
			}
			emitSec(name, p, p.Xs())
			emitDerived(name, "rlwe", p, 0, 0, 0)
			return nil
		})
	}
	for _, name := range keys(bgvLits) {
		lit := bgvLits[name]
		guarded(name, func() error {
			p, err := bgv.NewParametersFromLiteral(lit)
			if err != nil {
				return err
			}
			emitSec(name, p.Parameters, p.Xs())
			emitDerived(name, "bgv", p.Parameters, p.MaxSlots(), p.LogMaxSlots(), p.RingT().N())
			return nil
		})
	}
	for _, name := range keys(ckksLits) {
		lit := ckksLits[name]
		guarded(name, func() error {
			p, err := ckks.NewParametersFromLiteral(lit)
			if err != nil {
				return err
			}
			emitSec(name, p.Parameters, p.Xs())
			emitDerived(name, "ckks", p.Parameters, p.MaxSlots(), p.LogMaxSlots(), 0)
			return nil
		})
	}
	for _, name := range keys(btpLits) {
		lit := btpLits[name]
		guarded(name, func() error {
			res, err := ckks.NewParametersFromLiteral(lit.S)
			if err != nil {
				return err
			}
			emitSec(name+"/residual", res.Parameters, res.Xs())
			// as the repository's tests do: the bootstrapping ring degree is the one in the set's name
			if lit.B.LogN == nil {
				ln := lit.S.LogN
				lit.B.LogN = &ln
			}
			bp, err := bootstrapping.NewParametersFromLiteral(res, lit.B)
			if err != nil {
				return err
			}
			big := bp.BootstrappingParameters
			// the secret of the large ring: the residual key when both rings have the same degree
			// (bootstrapping.Parameters.GenEvaluationKeys re-uses it), else a key of the declared distribution
			xs := big.Xs()
			if big.LogN() == res.LogN() {
				xs = res.Xs()
			}
			emitSec(name+"/bootstrapping", big.Parameters, xs)
			emitDerived(name+"/bootstrapping", "ckks", big.Parameters, big.MaxSlots(), big.LogMaxSlots(), 0)
			return nil
		})
	}
	w.Close()
	fmt.Printf("RESULT {\"events\":%d,\"cases\":%d}\n", w.N, prog)
}
