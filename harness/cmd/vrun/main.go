// vrun is the single harness binary: one sub-command per property family.
package main

import (
	"fmt"
	"os"

	"verif/harness/internal/c01"
	"verif/harness/internal/c02"
	"verif/harness/internal/c03"
	"verif/harness/internal/c05"
	"verif/harness/internal/c06"
	"verif/harness/internal/c07"
	"verif/harness/internal/c08"
	"verif/harness/internal/c10"
	"verif/harness/internal/c11"
	"verif/harness/internal/c12"
	"verif/harness/internal/c13"
	"verif/harness/internal/rpack"
	"verif/harness/internal/frame"
	"verif/harness/internal/c14"
	"verif/harness/internal/c15"
	"verif/harness/internal/c16"
	"verif/harness/internal/c17"
	"verif/harness/internal/c18"
	"verif/harness/internal/c19"
	"verif/harness/internal/c20"
	"verif/harness/internal/pipe"
)

func main() {
	if len(os.Args) < 2 {
		fmt.Fprintln(os.Stderr, "usage: vrun <family> ...")
		os.Exit(2)
	}
	switch os.Args[1] {
	case "c01":
		os.Exit(c01.Main(os.Args[2:]))
	case "c03":
		os.Exit(c03.Main(os.Args[2:]))
	case "c12":
		os.Exit(c12.Main(os.Args[2:]))
	case "frame":
		os.Exit(frame.Main(os.Args[2:]))
	case "rpack":
		os.Exit(rpack.Main(os.Args[2:]))
	case "c13":
		if len(os.Args) > 2 && (os.Args[2] == "composite" || os.Args[2] == "compsets") {
			os.Exit(c13.CompositeMain(os.Args[2:]))
		}
		os.Exit(c13.Main(os.Args[2:]))
	case "c08":
		os.Exit(c08.Main(os.Args[2:]))
	case "c14":
		os.Exit(c14.Main(os.Args[2:]))
	case "c15":
		os.Exit(c15.Main(os.Args[2:]))
	case "pipe":
		os.Exit(pipe.Main(os.Args[2:]))
	case "c20":
		os.Exit(c20.Main(os.Args[2:]))
	case "c18":
		os.Exit(c18.Main(os.Args[2:]))
	case "c19":
		os.Exit(c19.Main(os.Args[2:]))
	case "c10":
		os.Exit(c10.Main(os.Args[2:]))
	case "c16":
		os.Exit(c16.Main(os.Args[2:]))
	case "c17":
		os.Exit(c17.Main(os.Args[2:]))
	case "c02":
		os.Exit(c02.Main(os.Args[2:]))
	case "c06":
		os.Exit(c06.Main(os.Args[2:]))
	case "c11":
		os.Exit(c11.Main(os.Args[2:]))
	case "c07":
		os.Exit(c07.Main(os.Args[2:]))
	case "c05":
		os.Exit(c05.Main(os.Args[2:]))
	}
	fmt.Fprintln(os.Stderr, "unknown family", os.Args[1])
	os.Exit(2)
}
